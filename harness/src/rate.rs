//! mode `rate`: the TFRC sender (`SendRateComp`) on its own, fed with arbitrary feedback.
//!
//!   new <max_send_rate>
//!   sent <now_ms>                                             notify_frame_sent
//!   step <now_ms>                                             step without feedback
//!   step <now_ms> fb <rtt_ms> <recv_rate> <loss bits> <rl>    step with a feedback report
//! Every `step` prints the probe (same fields as the `rate=` part of the hc probe) and the argument
//! of the reset_loss_rate callback, if it was called (`reset=<f64 bits>` or `reset=-`).

use uflow::verif::half_connection::{FeedbackData, SendRateComp};

use crate::{text, Machine};

pub struct RateMachine {
    c: Option<SendRateComp>,
}

impl RateMachine {
    pub fn new() -> Self {
        Self { c: None }
    }
}

fn probe(c: &SendRateComp) -> String {
    let sr = c.verif_probe();
    let o = |v: Option<u64>| v.map_or(String::from("-"), |x| x.to_string());
    format!("rate={},{},{},{},{},{},{},{},{},{},{}", sr.0, sr.1, sr.2, sr.3, o(sr.4), sr.5 as u8, o(sr.6), o(sr.7), o(sr.8), sr.9, sr.10)
}

impl Machine for RateMachine {
    fn op(&mut self, toks: &[&str]) -> String {
        let bad = || String::from("bad-op");
        let mut t = text::Toks::new(toks);
        match t.next() {
            Some("new") => match t.num::<u32>() {
                Some(m) if t.done() => { self.c = Some(SendRateComp::new(m)); String::from("ok") }
                _ => bad(),
            },
            Some("sent") => {
                let c = match self.c.as_mut() { Some(c) => c, None => return bad() };
                match t.num::<u64>() {
                    Some(now) if t.done() => { c.notify_frame_sent(now); String::from("ok") }
                    _ => bad(),
                }
            }
            Some("step") => {
                let c = match self.c.as_mut() { Some(c) => c, None => return bad() };
                let now: u64 = match t.num() { Some(x) => x, None => return bad() };
                let fb = match t.next() {
                    None => None,
                    Some("fb") => {
                        let rtt_ms: u64 = match t.num() { Some(x) => x, None => return bad() };
                        let receive_rate: u32 = match t.num() { Some(x) => x, None => return bad() };
                        let bits: u64 = match t.num() { Some(x) => x, None => return bad() };
                        let rl: u8 = match t.num() { Some(x) => x, None => return bad() };
                        if !t.done() { return bad(); }
                        Some(FeedbackData { rtt_ms, receive_rate, loss_rate: f64::from_bits(bits), rate_limited: rl != 0 })
                    }
                    _ => return bad(),
                };
                let mut reset: Option<f64> = None;
                c.step(now, fb, |p| { reset = Some(p); });
                format!("{} reset={}", probe(c), reset.map_or(String::from("-"), |p| p.to_bits().to_string()))
            }
            _ => bad(),
        }
    }
}
