//! mode `codec`:  enc <frame> | rt <frame> | dec <hex> | flip <hex> <p1,p2,..> | crc <hex> | size <datagram>

use uflow::verif::frame::*;
use crate::{util, text, Machine};

pub struct CodecMachine;

impl CodecMachine {
    pub fn new() -> Self { CodecMachine }
}

impl Machine for CodecMachine {
    fn op(&mut self, toks: &[&str]) -> String {
        let mut t = text::Toks::new(toks);
        match t.next() {
            Some("enc") => {
                match text::parse_frame(&mut t) {
                    Some(f) if t.done() => util::hex(&f.write()),
                    _ => String::from("bad-op"),
                }
            }
            Some("dec") => {
                match t.next().and_then(util::unhex) {
                    Some(bytes) if t.done() => match Frame::read(&bytes) {
                        Some(f) => text::fmt_frame(&f),
                        None => String::from("none"),
                    },
                    _ => String::from("bad-op"),
                }
            }
            Some("rt") => {
                // encode, then decode what was encoded
                match text::parse_frame(&mut t) {
                    Some(f) if t.done() => match Frame::read(&f.write()) {
                        Some(g) => text::fmt_frame(&g),
                        None => String::from("none"),
                    },
                    _ => String::from("bad-op"),
                }
            }
            Some("flip") => {
                // flip <hex> <p1,p2,..>: decode after flipping the given bit positions (bit p%8 of byte p/8)
                let bytes = t.next().and_then(util::unhex);
                let pos = t.next().map(|s| s.split(',').map(|x| x.parse::<usize>().ok()).collect::<Option<Vec<_>>>());
                match (bytes, pos) {
                    (Some(mut bytes), Some(Some(pos))) if t.done() && pos.iter().all(|&p| p / 8 < bytes.len()) => {
                        for p in pos {
                            bytes[p / 8] ^= 1 << (p % 8);
                        }
                        match Frame::read(&bytes) {
                            Some(f) => text::fmt_frame(&f),
                            None => String::from("none"),
                        }
                    }
                    _ => String::from("bad-op"),
                }
            }
            Some("crc") => {
                match t.next().and_then(util::unhex) {
                    Some(bytes) if t.done() => crc_compute(&bytes).to_string(),
                    _ => String::from("bad-op"),
                }
            }
            Some("size") => {
                match text::parse_datagram(&mut t) {
                    Some(d) if t.done() => DataFrameBuilder::encoded_size(&(&d).into()).to_string(),
                    _ => String::from("bad-op"),
                }
            }
            _ => String::from("bad-op"),
        }
    }
}
