//! mode `codec`:  enc <frame> | rt <frame> | dec <hex> | flip <hex> <p1,p2,..> | crc <hex> | size <datagram>

use uflow::verif::frame::*;
use std::collections::HashMap;
use crate::{util, text, Machine};

pub struct CodecMachine;

impl CodecMachine {
    pub fn new() -> Self { CodecMachine }
}

impl Machine for CodecMachine {
    fn op(&mut self, toks: &[&str]) -> String {
        let mut t = text::Toks::new(toks);
        match t.next() {
            Some("enc") => {
                match text::parse_frame(&mut t) {
                    Some(f) if t.done() => util::hex(&f.write()),
                    _ => String::from("bad-op"),
                }
            }
            Some("dec") => {
                match t.next().and_then(util::unhex) {
                    Some(bytes) if t.done() => match Frame::read(&bytes) {
                        Some(f) => text::fmt_frame(&f),
                        None => String::from("none"),
                    },
                    _ => String::from("bad-op"),
                }
            }
            Some("rt") => {
                // encode, then decode what was encoded
                match text::parse_frame(&mut t) {
                    Some(f) if t.done() => match Frame::read(&f.write()) {
                        Some(g) => text::fmt_frame(&g),
                        None => String::from("none"),
                    },
                    _ => String::from("bad-op"),
                }
            }
            Some("flip") => {
                // flip <hex> <p1,p2,..>: decode after flipping the given bit positions (bit p%8 of byte p/8)
                let bytes = t.next().and_then(util::unhex);
                let pos = t.next().map(|s| s.split(',').map(|x| x.parse::<usize>().ok()).collect::<Option<Vec<_>>>());
                match (bytes, pos) {
                    (Some(mut bytes), Some(Some(pos))) if t.done() && pos.iter().all(|&p| p / 8 < bytes.len()) => {
                        for p in pos {
                            bytes[p / 8] ^= 1 << (p % 8);
                        }
                        match Frame::read(&bytes) {
                            Some(f) => text::fmt_frame(&f),
                            None => String::from("none"),
                        }
                    }
                    _ => String::from("bad-op"),
                }
            }
            Some("crcsearch") => {
                // crcsearch <hex>: directed search for an accepted 1..4-bit corruption of a valid frame.
                // Candidates come from per-bit syndromes (exact if the checksum is affine); every
                // candidate is confirmed by running Frame::read on the corrupted bytes.
                let bytes = match t.next().and_then(util::unhex) { Some(b) => b, None => return String::from("bad-op") };
                if Frame::read(&bytes).is_none() || bytes.len() < 5 { return String::from("not-valid"); }
                let n = bytes.len();
                let body_len = n - 4;
                let base = crc_compute(&bytes[..body_len]);
                let mut syn: Vec<u32> = Vec::with_capacity(8 * n);
                let mut tmp = bytes.clone();
                for p in 0..8 * n {
                    if p / 8 < body_len {
                        tmp[p / 8] ^= 1 << (p % 8);
                        syn.push(crc_compute(&tmp[..body_len]) ^ base);
                        tmp[p / 8] ^= 1 << (p % 8);
                    } else {
                        let byte = p / 8 - body_len;          // 0 = most significant CRC byte
                        syn.push(1u32 << (8 * (3 - byte) + p % 8));
                    }
                }
                let confirm = |pos: &[usize]| -> bool {
                    let mut b = bytes.clone();
                    for &p in pos { b[p / 8] ^= 1 << (p % 8); }
                    Frame::read(&b).is_some()
                };
                let m = syn.len();
                for i in 0..m { if syn[i] == 0 && confirm(&[i]) { return format!("found {}", i); } }
                let mut single: HashMap<u32, usize> = HashMap::new();
                for i in 0..m {
                    if let Some(&j) = single.get(&syn[i]) { if confirm(&[j, i]) { return format!("found {},{}", j, i); } }
                    single.insert(syn[i], i);
                }
                // weight 3: pair xor equals a single; weight 4: two disjoint pairs with equal xor
                let lim = m.min(3200);
                let mut pairs: HashMap<u32, (usize, usize)> = HashMap::with_capacity(lim * lim / 2);
                for i in 0..lim {
                    for j in i + 1..lim {
                        let x = syn[i] ^ syn[j];
                        if let Some(&k) = single.get(&x) { if k != i && k != j && confirm(&[i, j, k]) { return format!("found {},{},{}", i, j, k); } }
                        if let Some(&(a, b)) = pairs.get(&x) {
                            if a != i && a != j && b != i && b != j && confirm(&[a, b, i, j]) { return format!("found {},{},{},{}", a, b, i, j); }
                        } else {
                            pairs.insert(x, (i, j));
                        }
                    }
                }
                String::from("none-found")
            }
            Some("crc") => {
                match t.next().and_then(util::unhex) {
                    Some(bytes) if t.done() => crc_compute(&bytes).to_string(),
                    _ => String::from("bad-op"),
                }
            }
            Some("size") => {
                match text::parse_datagram(&mut t) {
                    Some(d) if t.done() => DataFrameBuilder::encoded_size(&(&d).into()).to_string(),
                    _ => String::from("bad-op"),
                }
            }
            _ => String::from("bad-op"),
        }
    }
}
