use std::cell::RefCell;
use std::panic;

thread_local! {
    static LAST_PANIC: RefCell<String> = RefCell::new(String::new());
}

pub fn install_panic_hook() {
    panic::set_hook(Box::new(|info| {
        let msg = if let Some(s) = info.payload().downcast_ref::<&str>() {
            s.to_string()
        } else if let Some(s) = info.payload().downcast_ref::<String>() {
            s.clone()
        } else {
            String::from("?")
        };
        let loc = info.location().map(|l| format!("{}:{}", l.file(), l.line())).unwrap_or_default();
        LAST_PANIC.with(|p| *p.borrow_mut() = format!("{} @ {}", msg, loc));
    }));
}

pub fn last_panic() -> String {
    LAST_PANIC.with(|p| p.borrow().clone())
}

/// Classifies a panic message into the small trap enum of the line protocol.
pub fn classify(msg: &str) -> &'static str {
    if msg.contains("Option::unwrap()") || msg.contains("Result::unwrap()") {
        "unwrap"
    } else if msg.contains("index out of bounds") || msg.contains("out of range for slice") || msg.contains("range end index")
        || msg.contains("range start index") || msg.contains("slice index") || msg.contains("Out of bounds access") {
        "index"
    } else if msg.contains("with overflow") {
        "overflow"
    } else if msg.contains("assertion") {
        "assert"
    } else if msg.contains("explicit panic") {
        "panic"
    } else {
        "other"
    }
}

pub fn guarded<T>(f: impl FnOnce() -> T) -> Result<T, String> {
    match panic::catch_unwind(panic::AssertUnwindSafe(f)) {
        Ok(v) => Ok(v),
        Err(_) => {
            let msg = last_panic();
            if std::env::var("UH_TRAP_VERBOSE").is_ok() {
                eprintln!("trap: {}", msg);
            }
            Err(classify(&msg).to_string())
        }
    }
}

pub fn hex(bytes: &[u8]) -> String {
    if bytes.is_empty() {
        return String::from("-");
    }
    const D: &[u8; 16] = b"0123456789abcdef";
    let mut s = String::with_capacity(bytes.len() * 2);
    for &b in bytes {
        s.push(D[(b >> 4) as usize] as char);
        s.push(D[(b & 15) as usize] as char);
    }
    s
}

pub fn unhex(s: &str) -> Option<Vec<u8>> {
    if s == "-" {
        return Some(Vec::new());
    }
    let b = s.as_bytes();
    if b.len() % 2 != 0 {
        return None;
    }
    let mut out = Vec::with_capacity(b.len() / 2);
    for i in (0..b.len()).step_by(2) {
        let hi = (b[i] as char).to_digit(16)?;
        let lo = (b[i + 1] as char).to_digit(16)?;
        out.push((hi * 16 + lo) as u8);
    }
    Some(out)
}

/// Deterministic payload bytes derived from (seed, len): byte i = low 8 bits of a 64-bit LCG.
/// The Lean driver implements the same function, so scripts can name payloads as `@seed:len`.
pub fn gen_payload(seed: u64, len: usize) -> Vec<u8> {
    let mut x = seed;
    let mut out = Vec::with_capacity(len);
    for _ in 0..len {
        x = x.wrapping_mul(6364136223846793005).wrapping_add(1442695040888963407);
        out.push((x >> 33) as u8);
    }
    out
}

/// Payload argument: hex, `-` (empty) or `@seed:len`.
pub fn payload_arg(s: &str) -> Option<Vec<u8>> {
    if let Some(rest) = s.strip_prefix('@') {
        let mut it = rest.split(':');
        let seed: u64 = it.next()?.parse().ok()?;
        let len: usize = it.next()?.parse().ok()?;
        Some(gen_payload(seed, len))
    } else {
        unhex(s)
    }
}

/// 64-bit FNV-1a, used to print long payloads compactly.
pub fn fnv(bytes: &[u8]) -> u64 {
    let mut h: u64 = 0xcbf29ce484222325;
    for &b in bytes {
        h ^= b as u64;
        h = h.wrapping_mul(0x100000001b3);
    }
    h
}

/// Compact canonical description of a payload: `len:fnv`.
pub fn digest(bytes: &[u8]) -> String {
    format!("{}:{:016x}", bytes.len(), fnv(bytes))
}
