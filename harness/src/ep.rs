//! mode `ep`: a real `Server` and real `Client`s on loopback UDP sockets. Every client talks to a
//! relay socket owned by the harness (peer `i`), which captures everything the endpoints send and
//! forwards / drops / duplicates / reorders / forges datagrams as the script says.
//!
//!   srv <maxTotal> <maxActive> <hsErrors> <cfg>       cfg = sendRate recvRate maxPacket recvAlloc keepalive kaMs timeoutMs
//!   peer <i>                                          raw peer (relay socket without a client)
//!   cli <i> <cfg>                                     Client::connect towards relay i
//!   t <ns> | rng <v>...
//!   sstep | sflush | cstep <i> | cflush <i>
//!   fwd c2s|s2c <i> <idx> | raw c2s|s2c <i> <hex>
//!   csend <i> <payload> <chan> <mode> | cdisc <i> | cdiscnow <i> | cget <i>
//!   ssend <i> <payload> <chan> <mode> | sdisc <i> | sdiscnow <i> | sdrop <i> | sget <i>
//!   recli <i> <cfg>     a new client behind the relay of peer <i> (same address from the server's point of view)

use std::collections::HashMap;
use std::net::{SocketAddr, UdpSocket};

use uflow::client;
use uflow::server;
use uflow::verif::frame::*;
use uflow::verif::{vrand, vtime};
use uflow::EndpointConfig;

use crate::hc::{frame_summary, mode_of};
use crate::{text, util, Machine};

struct Peer {
    relay: UdpSocket,
    client: Option<client::Client>,
    client_addr: Option<SocketAddr>,
    c2s: Vec<Vec<u8>>,
    s2c: Vec<Vec<u8>>,
    c2s_seen: usize,
    s2c_seen: usize,
}

pub struct EpMachine {
    server: Option<server::Server>,
    server_addr: Option<SocketAddr>,
    peers: HashMap<usize, Peer>,
}

fn summary(bytes: &[u8]) -> String {
    match Frame::read(bytes) {
        Some(Frame::DataFrame(_)) | Some(Frame::AckFrame(_)) | Some(Frame::SyncFrame(_)) | None => frame_summary(bytes),
        Some(f) => format!("{}:{}", util::digest(bytes), text::fmt_frame(&f).replace(' ', "_")),
    }
}

fn parse_cfg(t: &mut text::Toks) -> Option<EndpointConfig> {
    Some(EndpointConfig {
        max_send_rate: t.num()?,
        max_receive_rate: t.num()?,
        max_packet_size: t.num()?,
        max_receive_alloc: t.num()?,
        keepalive: t.num::<u8>()? != 0,
        keepalive_interval_ms: t.num()?,
        active_timeout_ms: t.num()?,
    })
}

fn err_name(e: &str) -> &str { e }

impl EpMachine {
    pub fn new() -> Self {
        vtime::set_ns(0);
        vrand::reset(0x9E3779B97F4A7C15);
        Self { server: None, server_addr: None, peers: HashMap::new() }
    }

    fn peer_index(&self, addr: &SocketAddr) -> Option<usize> {
        self.peers.iter().find(|(_, p)| p.relay.local_addr().ok().as_ref() == Some(addr)).map(|(i, _)| *i)
    }

    /// Reads everything that reached the relay sockets.
    fn drain(&mut self) {
        let server_addr = self.server_addr;
        for p in self.peers.values_mut() {
            let mut buf = [0u8; 4096];
            loop {
                match p.relay.recv_from(&mut buf) {
                    Ok((n, from)) => {
                        if Some(from) == server_addr {
                            p.s2c.push(buf[..n].to_vec());
                        } else if Some(from) == p.client_addr {
                            p.c2s.push(buf[..n].to_vec());
                        }
                    }
                    Err(_) => break,
                }
            }
        }
    }

    /// ` | i>: <summaries>  i<: <summaries>` for datagrams captured since the last report, peers ascending.
    fn report(&mut self) -> String {
        self.drain();
        let mut idx: Vec<usize> = self.peers.keys().copied().collect();
        idx.sort();
        let mut s = String::new();
        for i in idx {
            let p = self.peers.get_mut(&i).unwrap();
            if p.c2s.len() > p.c2s_seen {
                s.push_str(&format!(" {}>", i));
                for d in &p.c2s[p.c2s_seen..] { s.push(' '); s.push_str(&summary(d)); }
                p.c2s_seen = p.c2s.len();
            }
            if p.s2c.len() > p.s2c_seen {
                s.push_str(&format!(" {}<", i));
                for d in &p.s2c[p.s2c_seen..] { s.push(' '); s.push_str(&summary(d)); }
                p.s2c_seen = p.s2c.len();
            }
        }
        s
    }

    fn new_relay() -> UdpSocket {
        let s = UdpSocket::bind("127.0.0.1:0").unwrap();
        s.set_nonblocking(true).unwrap();
        s
    }
}

impl Machine for EpMachine {
    fn op(&mut self, toks: &[&str]) -> String {
        let bad = || String::from("bad-op");
        let mut t = text::Toks::new(toks);
        let op = match t.next() { Some(x) => x, None => return bad() };
        match op {
            "t" => match t.num::<u64>() { Some(ns) => { vtime::set_ns(ns); String::from("ok") } None => bad() },
            "rng" => { while let Some(v) = t.num::<u64>() { vrand::feed(v); } String::from("ok") }
            "srv" => {
                let max_total: usize = match t.num() { Some(x) => x, None => return bad() };
                let max_active: usize = match t.num() { Some(x) => x, None => return bad() };
                let hs: u8 = match t.num() { Some(x) => x, None => return bad() };
                let cfg = match parse_cfg(&mut t) { Some(c) => c, None => return bad() };
                let config = server::Config { max_total_connections: max_total, max_active_connections: max_active,
                                              enable_handshake_errors: hs != 0, endpoint_config: cfg };
                let srv = server::Server::bind("127.0.0.1:0", config).unwrap();
                self.server_addr = Some(srv.address());
                self.server = Some(srv);
                String::from("ok")
            }
            "peer" => {
                let i: usize = match t.num() { Some(x) => x, None => return bad() };
                self.peers.insert(i, Peer { relay: Self::new_relay(), client: None, client_addr: None, c2s: vec![], s2c: vec![], c2s_seen: 0, s2c_seen: 0 });
                String::from("ok")
            }
            "cli" => {
                let i: usize = match t.num() { Some(x) => x, None => return bad() };
                let cfg = match parse_cfg(&mut t) { Some(c) => c, None => return bad() };
                let relay = Self::new_relay();
                let c = client::Client::connect(relay.local_addr().unwrap(), client::Config { endpoint_config: cfg }).unwrap();
                let ca = c.local_address();
                // the client binds 0.0.0.0:port; datagrams arrive from 127.0.0.1:port
                let ca = SocketAddr::new("127.0.0.1".parse().unwrap(), ca.port());
                self.peers.insert(i, Peer { relay, client: Some(c), client_addr: Some(ca), c2s: vec![], s2c: vec![], c2s_seen: 0, s2c_seen: 0 });
                format!("ok{}", self.report())
            }
            "recli" => {
                // a new client behind the relay socket of an existing peer: the server sees the same address again
                let i: usize = match t.num() { Some(x) => x, None => return bad() };
                let cfg = match parse_cfg(&mut t) { Some(c) => c, None => return bad() };
                let relay_addr = match self.peers.get(&i) { Some(p) => p.relay.local_addr().unwrap(), None => return bad() };
                let c = client::Client::connect(relay_addr, client::Config { endpoint_config: cfg }).unwrap();
                let ca = SocketAddr::new("127.0.0.1".parse().unwrap(), c.local_address().port());
                let p = self.peers.get_mut(&i).unwrap();
                p.client = Some(c);
                p.client_addr = Some(ca);
                format!("ok{}", self.report())
            }
            "sstep" | "sflush" => {
                let srv = match self.server.as_mut() { Some(s) => s, None => return bad() };
                let mut evs = String::new();
                if op == "sstep" {
                    let events: Vec<server::Event> = srv.step().collect();
                    for e in events {
                        let (tag, addr, extra) = match e {
                            server::Event::Connect(a) => ("C", a, String::new()),
                            server::Event::Disconnect(a) => ("D", a, String::new()),
                            server::Event::Receive(a, d) => ("R", a, format!(":{}", util::digest(&d))),
                            server::Event::Error(a, k) => ("E", a, format!(":{:?}", k)),
                        };
                        let i = self.peer_index(&addr).map_or(String::from("?"), |i| i.to_string());
                        evs.push_str(&format!(" {}{}{}", tag, i, extra));
                    }
                } else {
                    srv.flush();
                }
                format!("ev{} |{}", evs, self.report())
            }
            "cstep" | "cflush" => {
                let i: usize = match t.num() { Some(x) => x, None => return bad() };
                let p = match self.peers.get_mut(&i) { Some(p) => p, None => return bad() };
                let c = match p.client.as_mut() { Some(c) => c, None => return bad() };
                let mut evs = String::new();
                if op == "cstep" {
                    let events: Vec<client::Event> = c.step().collect();
                    for e in events {
                        match e {
                            client::Event::Connect => evs.push_str(" C"),
                            client::Event::Disconnect => evs.push_str(" D"),
                            client::Event::Receive(d) => evs.push_str(&format!(" R:{}", util::digest(&d))),
                            client::Event::Error(k) => evs.push_str(&format!(" E:{:?}", k)),
                        }
                    }
                } else {
                    c.flush();
                }
                format!("ev{} |{}", evs, self.report())
            }
            "fwd" | "raw" => {
                let dir = match t.next() { Some(x) => x, None => return bad() };
                let i: usize = match t.num() { Some(x) => x, None => return bad() };
                let server_addr = self.server_addr;
                let p = match self.peers.get_mut(&i) { Some(p) => p, None => return bad() };
                let bytes = if op == "fwd" {
                    let idx: usize = match t.num() { Some(x) => x, None => return bad() };
                    let log = if dir == "c2s" { &p.c2s } else { &p.s2c };
                    match log.get(idx) { Some(b) => b.clone(), None => return String::from("no-frame") }
                } else {
                    match t.next().and_then(util::unhex) { Some(b) => b, None => return bad() }
                };
                let dst = if dir == "c2s" { server_addr } else { p.client_addr };
                match dst {
                    Some(a) => { let _ = p.relay.send_to(&bytes, a); String::from("ok") }
                    None => String::from("no-dst"),
                }
            }
            "csend" | "cdisc" | "cdiscnow" | "cget" => {
                let i: usize = match t.num() { Some(x) => x, None => return bad() };
                let p = match self.peers.get_mut(&i) { Some(p) => p, None => return bad() };
                let c = match p.client.as_mut() { Some(c) => c, None => return bad() };
                match op {
                    "csend" => {
                        let data = match t.next().and_then(util::payload_arg) { Some(d) => d, None => return bad() };
                        let chan: usize = match t.num() { Some(c) => c, None => return bad() };
                        let mode = match t.num::<u8>().and_then(mode_of) { Some(m) => m, None => return bad() };
                        c.send(data.into_boxed_slice(), chan, mode);
                        String::from("ok")
                    }
                    "cdisc" => { c.disconnect(); String::from("ok") }
                    "cdiscnow" => { c.disconnect_now(); String::from("ok") }
                    _ => format!("active={} sbs={} rtt={}", c.is_active() as u8, c.send_buffer_size(), c.rtt_s().map_or(String::from("-"), |v| v.to_bits().to_string())),
                }
            }
            "ssend" | "sdisc" | "sdiscnow" | "sdrop" | "sget" => {
                let i: usize = match t.num() { Some(x) => x, None => return bad() };
                let addr = match self.peers.get(&i) { Some(p) => p.relay.local_addr().unwrap(), None => return bad() };
                let srv = match self.server.as_mut() { Some(s) => s, None => return bad() };
                if op == "sdrop" {
                    srv.drop(&addr);
                    return String::from("ok");
                }
                let rc = match srv.client(&addr) { Some(rc) => rc.clone(), None => return String::from("no-client") };
                let mut c = rc.borrow_mut();
                match op {
                    "ssend" => {
                        let data = match t.next().and_then(util::payload_arg) { Some(d) => d, None => return bad() };
                        let chan: usize = match t.num() { Some(c) => c, None => return bad() };
                        let mode = match t.num::<u8>().and_then(mode_of) { Some(m) => m, None => return bad() };
                        c.send(data.into_boxed_slice(), chan, mode);
                        String::from("ok")
                    }
                    "sdisc" => { c.disconnect(); String::from("ok") }
                    "sdiscnow" => { c.disconnect_now(); String::from("ok") }
                    _ => format!("active={} sbs={} rtt={}", c.is_active() as u8, c.send_buffer_size(), c.rtt_s().map_or(String::from("-"), |v| v.to_bits().to_string())),
                }
            }
            _ => bad(),
        }
    }
}
