//! mode `hc`: one or more real `HalfConnection`s under the virtual clock and the fed nonce source.
//!
//!   <ep> new txfb rxfb txfw rxfw txpb rxpb txpw rxpw bw txalloc rxalloc keepalive|-
//!   t <ns> | rng <v>...
//!   <ep> send <payload> <chan> <mode 0..3> | <ep> step | <ep> flush | <ep> recv | <ep> probe | <ep> get
//!   <ep> frame <frame text> | <ep> raw <hex>
//!   fwd <src> <idx> <dst> [p1,p2,..]     deliver frame #idx emitted by <src> to <dst> (optionally with flipped bits)

use std::collections::HashMap;

use uflow::verif::frame::*;
use uflow::verif::half_connection::{Config, FrameSink, HalfConnection, PacketSink};
use uflow::verif::{vrand, vtime};
use uflow::SendMode;

use crate::{text, util, Machine};

struct VecFrameSink<'a> {
    out: &'a mut Vec<Vec<u8>>,
}

impl<'a> FrameSink for VecFrameSink<'a> {
    fn send(&mut self, frame_data: &[u8]) {
        self.out.push(frame_data.to_vec());
    }
}

struct VecPacketSink<'a> {
    out: &'a mut Vec<Box<[u8]>>,
}

impl<'a> PacketSink for VecPacketSink<'a> {
    fn send(&mut self, packet_data: Box<[u8]>) {
        self.out.push(packet_data);
    }
}

struct Endpoint {
    hc: HalfConnection,
    outbox: Vec<Vec<u8>>,
}

pub struct HcMachine {
    eps: HashMap<String, Endpoint>,
}

impl HcMachine {
    pub fn new() -> Self {
        vtime::set_ns(0);
        vrand::reset(0x9E3779B97F4A7C15);
        Self { eps: HashMap::new() }
    }
}

pub fn mode_of(n: u8) -> Option<SendMode> {
    match n {
        0 => Some(SendMode::TimeSensitive),
        1 => Some(SendMode::Unreliable),
        2 => Some(SendMode::Persistent),
        3 => Some(SendMode::Reliable),
        _ => None,
    }
}

/// What `Client::handle_frame` / `Server::handle_frame` do with a frame on an active connection.
pub fn dispatch(hc: &mut HalfConnection, frame: Frame) -> &'static str {
    match frame {
        Frame::DataFrame(f) => { hc.handle_data_frame(f); "ok" }
        Frame::AckFrame(f) => { hc.handle_ack_frame(f); "ok" }
        Frame::SyncFrame(f) => { hc.handle_sync_frame(f); "ok" }
        _ => "ign",
    }
}

/// `len:fnv:summary` of an emitted frame; the summary lists what the frame carries.
pub fn frame_summary(bytes: &[u8]) -> String {
    let body = match Frame::read(bytes) {
        Some(Frame::DataFrame(f)) => {
            let mut s = format!("D,{},{}", f.sequence_id, f.nonce as u8);
            for d in f.datagrams.iter() {
                s.push_str(&format!(",{}.{}.{}.{}.{}.{}.{}.{:016x}", d.sequence_id, d.fragment_id, d.fragment_id_last, d.channel_id,
                                    d.window_parent_lead, d.channel_parent_lead, d.data.len(), util::fnv(&d.data)));
            }
            s
        }
        Some(Frame::AckFrame(f)) => {
            let mut s = format!("A,{},{}", f.frame_window_base_id, f.packet_window_base_id);
            for a in f.frame_acks.iter() {
                s.push_str(&format!(",{}.{}.{}", a.base_id, a.bitfield, a.nonce as u8));
            }
            s
        }
        Some(Frame::SyncFrame(f)) => format!("S,{},{}", text::fmt_opt(f.next_frame_id), text::fmt_opt(f.next_packet_id)),
        Some(_) => String::from("O"),
        None => String::from("X"),
    };
    format!("{}:{}", util::digest(bytes), body)
}

pub fn digests<T: AsRef<[u8]>>(items: &[T]) -> String {
    let mut s = items.len().to_string();
    for it in items {
        s.push(' ');
        s.push_str(&util::digest(it.as_ref()));
    }
    s
}

impl Machine for HcMachine {
    fn op(&mut self, toks: &[&str]) -> String {
        let bad = || String::from("bad-op");
        let mut t = text::Toks::new(toks);
        let first = match t.next() { Some(x) => x, None => return bad() };
        match first {
            "t" => {
                return match t.num::<u64>() {
                    Some(ns) if t.done() => { vtime::set_ns(ns); String::from("ok") }
                    _ => bad(),
                };
            }
            "rng" => {
                while let Some(v) = t.num::<u64>() {
                    vrand::feed(v);
                }
                return String::from("ok");
            }
            "digest" => {
                // `len:fnv` of a payload argument (generator helper for payloads too large to hash in the scripts' language)
                return match t.next().and_then(util::payload_arg) {
                    Some(p) => util::digest(&p),
                    None => bad(),
                };
            }
            "fwd" => {
                let src = match t.next() { Some(x) => x.to_string(), None => return bad() };
                let idx: usize = match t.num() { Some(x) => x, None => return bad() };
                let dst = match t.next() { Some(x) => x.to_string(), None => return bad() };
                let mut bytes = match self.eps.get(&src).and_then(|e| e.outbox.get(idx)) {
                    Some(b) => b.clone(),
                    None => return String::from("no-frame"),
                };
                if let Some(ps) = t.next() {
                    for p in ps.split(',') {
                        match p.parse::<usize>() {
                            Ok(p) if p / 8 < bytes.len() => bytes[p / 8] ^= 1 << (p % 8),
                            _ => return bad(),
                        }
                    }
                }
                let ep = match self.eps.get_mut(&dst) { Some(e) => e, None => return bad() };
                return match Frame::read(&bytes) {
                    Some(f) => dispatch(&mut ep.hc, f).to_string(),
                    None => String::from("none"),
                };
            }
            _ => (),
        }
        let name = first.to_string();
        let op = match t.next() { Some(x) => x, None => return bad() };
        if op == "new" {
            let v: Vec<u64> = (0..11).filter_map(|_| t.num::<u64>()).collect();
            if v.len() != 11 { return bad(); }
            let ka = match t.next() {
                Some("-") => None,
                Some(x) => match x.parse::<u64>() { Ok(k) => Some(k), Err(_) => return bad() },
                None => return bad(),
            };
            let config = Config {
                tx_frame_base_id: v[0] as u32, rx_frame_base_id: v[1] as u32,
                tx_frame_window_size: v[2] as u32, rx_frame_window_size: v[3] as u32,
                tx_packet_base_id: v[4] as u32, rx_packet_base_id: v[5] as u32,
                tx_packet_window_size: v[6] as u32, rx_packet_window_size: v[7] as u32,
                tx_bandwidth_limit: v[8] as u32,
                tx_alloc_limit: v[9] as usize, rx_alloc_limit: v[10] as usize,
                keepalive_interval_ms: ka,
            };
            self.eps.insert(name, Endpoint { hc: HalfConnection::new(config), outbox: Vec::new() });
            return String::from("ok");
        }
        let ep = match self.eps.get_mut(&name) { Some(e) => e, None => return bad() };
        match op {
            "send" => {
                let data = match t.next().and_then(util::payload_arg) { Some(d) => d, None => return bad() };
                let chan: u8 = match t.num() { Some(c) => c, None => return bad() };
                let mode = match t.num::<u8>().and_then(mode_of) { Some(m) => m, None => return bad() };
                ep.hc.send(data.into_boxed_slice(), chan, mode);
                String::from("ok")
            }
            "step" => { ep.hc.step(); String::from("ok") }
            // `stepn <n>`: n consecutive step() calls at the current instant (implementation-only streams: the
            // model driver does not interpret it)
            "stepn" => {
                let n: u64 = match t.num() { Some(n) => n, None => return bad() };
                for _ in 0..n {
                    ep.hc.step();
                }
                String::from("ok")
            }
            "flush" => {
                let mut frames = Vec::new();
                ep.hc.flush(&mut VecFrameSink { out: &mut frames });
                let mut s = frames.len().to_string();
                for f in frames.iter() {
                    s.push(' ');
                    s.push_str(&frame_summary(f));
                }
                ep.outbox.extend(frames);
                s
            }
            "recv" => {
                let mut packets = Vec::new();
                ep.hc.receive(&mut VecPacketSink { out: &mut packets });
                digests(&packets)
            }
            "frame" => {
                match text::parse_frame(&mut t) {
                    Some(f) if t.done() => dispatch(&mut ep.hc, f).to_string(),
                    _ => bad(),
                }
            }
            "raw" => {
                match t.next().and_then(util::unhex) {
                    Some(bytes) => match Frame::read(&bytes) {
                        Some(f) => dispatch(&mut ep.hc, f).to_string(),
                        None => String::from("none"),
                    },
                    None => bad(),
                }
            }
            "probe" => ep.hc.verif_probe(),
            "get" => {
                format!("sbs={} pending={} rtt={}", ep.hc.send_buffer_size(), ep.hc.is_send_pending() as u8,
                        ep.hc.rtt_s().map_or(String::from("-"), |v| v.to_bits().to_string()))
            }
            "out" => {
                // full hex of an emitted frame (debugging / replay files)
                match t.num::<usize>().and_then(|i| ep.outbox.get(i)) {
                    Some(b) => util::hex(b),
                    None => String::from("no-frame"),
                }
            }
            _ => bad(),
        }
    }
}
