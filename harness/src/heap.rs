//! Checking global allocator (C19): every block handed out while tracking is on is recorded with its
//! layout; `dealloc` / `realloc` compare the layout they are given with the recorded one. The table
//! lives in static memory, so the allocator never allocates.
//!
//!   heap on     start tracking (again: forget the mismatches and the base line of the previous case)
//!   heap live   `mism=<n> grow=<bytes>`: layout mismatches since `heap on`, growth of the live tracked
//!               bytes since the previous `heap live` (the first one only sets the base line)
//!   heap info   details for the replay file: live bytes / blocks, the first mismatches

use std::alloc::{GlobalAlloc, Layout, System};
use std::cell::UnsafeCell;
use std::sync::atomic::{AtomicBool, AtomicUsize, Ordering};

const SLOTS: usize = 1 << 21;
const MASK: usize = SLOTS - 1;

struct Table {
    keys: UnsafeCell<[usize; SLOTS]>,
    sizes: UnsafeCell<[usize; SLOTS]>,
    aligns: UnsafeCell<[u32; SLOTS]>,
}

unsafe impl Sync for Table {}

static TABLE: Table = Table { keys: UnsafeCell::new([0; SLOTS]), sizes: UnsafeCell::new([0; SLOTS]), aligns: UnsafeCell::new([0; SLOTS]) };
static LOCK: AtomicBool = AtomicBool::new(false);
static TRACK: AtomicBool = AtomicBool::new(false);
static LIVE_BYTES: AtomicUsize = AtomicUsize::new(0);
static LIVE_BLOCKS: AtomicUsize = AtomicUsize::new(0);
static MISMATCH: AtomicUsize = AtomicUsize::new(0);
static OVERFLOW: AtomicUsize = AtomicUsize::new(0);
static BASE: AtomicUsize = AtomicUsize::new(usize::MAX);
const NFIRST: usize = 8;
static FIRST: Table4 = Table4 { v: UnsafeCell::new([[0; 4]; NFIRST]) };

struct Table4 {
    v: UnsafeCell<[[usize; 4]; NFIRST]>,
}

unsafe impl Sync for Table4 {}

fn lock() {
    while LOCK.compare_exchange_weak(false, true, Ordering::Acquire, Ordering::Relaxed).is_err() {
        std::hint::spin_loop();
    }
}

fn unlock() {
    LOCK.store(false, Ordering::Release);
}

fn hash(p: usize) -> usize {
    (p >> 4).wrapping_mul(0x9E37_79B9_7F4A_7C15) >> 20 & MASK
}

unsafe fn insert(p: usize, size: usize, align: usize) {
    let keys = &mut *TABLE.keys.get();
    let mut i = hash(p);
    let mut n = 0;
    while keys[i] != 0 {
        i = (i + 1) & MASK;
        n += 1;
        if n >= SLOTS - 1 {
            OVERFLOW.fetch_add(1, Ordering::Relaxed);
            return;
        }
    }
    keys[i] = p;
    (*TABLE.sizes.get())[i] = size;
    (*TABLE.aligns.get())[i] = align as u32;
    LIVE_BYTES.fetch_add(size, Ordering::Relaxed);
    LIVE_BLOCKS.fetch_add(1, Ordering::Relaxed);
}

/// Removes the entry of `p` (linear probing with backward shift) and returns its recorded layout.
unsafe fn remove(p: usize) -> Option<(usize, usize)> {
    let keys = &mut *TABLE.keys.get();
    let sizes = &mut *TABLE.sizes.get();
    let aligns = &mut *TABLE.aligns.get();
    let mut i = hash(p);
    loop {
        if keys[i] == 0 {
            return None;
        }
        if keys[i] == p {
            break;
        }
        i = (i + 1) & MASK;
    }
    let found = (sizes[i], aligns[i] as usize);
    let mut j = i;
    loop {
        j = (j + 1) & MASK;
        if keys[j] == 0 {
            break;
        }
        let k = hash(keys[j]);
        // can the entry at j move into the hole at i?
        let between = if i <= j { i < k && k <= j } else { i < k || k <= j };
        if !between {
            keys[i] = keys[j]; sizes[i] = sizes[j]; aligns[i] = aligns[j];
            i = j;
        }
    }
    keys[i] = 0;
    LIVE_BYTES.fetch_sub(found.0, Ordering::Relaxed);
    LIVE_BLOCKS.fetch_sub(1, Ordering::Relaxed);
    Some(found)
}

unsafe fn mismatch(kind: usize, rec: (usize, usize), given: &Layout) {
    let n = MISMATCH.fetch_add(1, Ordering::Relaxed);
    if n < NFIRST {
        (*FIRST.v.get())[n] = [kind, rec.0, given.size(), (rec.1 << 16) | given.align()];
    }
}

pub struct Checking;

unsafe impl GlobalAlloc for Checking {
    unsafe fn alloc(&self, layout: Layout) -> *mut u8 {
        let p = System.alloc(layout);
        if !p.is_null() && TRACK.load(Ordering::Relaxed) {
            lock();
            insert(p as usize, layout.size(), layout.align());
            unlock();
        }
        p
    }

    unsafe fn alloc_zeroed(&self, layout: Layout) -> *mut u8 {
        let p = System.alloc_zeroed(layout);
        if !p.is_null() && TRACK.load(Ordering::Relaxed) {
            lock();
            insert(p as usize, layout.size(), layout.align());
            unlock();
        }
        p
    }

    unsafe fn dealloc(&self, ptr: *mut u8, layout: Layout) {
        let mut real = layout;
        if TRACK.load(Ordering::Relaxed) {
            lock();
            if let Some(rec) = remove(ptr as usize) {
                if rec.0 != layout.size() || rec.1 != layout.align() {
                    mismatch(0, rec, &layout);
                    real = Layout::from_size_align_unchecked(rec.0, rec.1);
                }
            }
            unlock();
        }
        System.dealloc(ptr, real);
    }

    unsafe fn realloc(&self, ptr: *mut u8, layout: Layout, new_size: usize) -> *mut u8 {
        let mut real = layout;
        let mut tracked = false;
        if TRACK.load(Ordering::Relaxed) {
            lock();
            if let Some(rec) = remove(ptr as usize) {
                tracked = true;
                if rec.0 != layout.size() || rec.1 != layout.align() {
                    mismatch(1, rec, &layout);
                    real = Layout::from_size_align_unchecked(rec.0, rec.1);
                }
            }
            unlock();
        }
        let p = System.realloc(ptr, real, new_size);
        if TRACK.load(Ordering::Relaxed) && (tracked || !p.is_null()) {
            lock();
            if p.is_null() {
                insert(ptr as usize, real.size(), real.align());
            } else {
                insert(p as usize, new_size, real.align());
            }
            unlock();
        }
        p
    }
}

pub fn op(toks: &[&str]) -> Option<String> {
    if toks.first() != Some(&"heap") {
        return None;
    }
    Some(match toks.get(1) {
        Some(&"on") => {
            TRACK.store(true, Ordering::SeqCst);
            MISMATCH.store(0, Ordering::SeqCst);
            BASE.store(usize::MAX, Ordering::SeqCst);
            String::from("ok")
        }
        Some(&"live") => {
            let live = LIVE_BYTES.load(Ordering::SeqCst);
            let base = BASE.swap(live, Ordering::SeqCst);
            let grow = if base == usize::MAX { 0 } else { live as i64 - base as i64 };
            format!("mism={} grow={}", MISMATCH.load(Ordering::SeqCst), grow)
        }
        Some(&"info") => {
            let mut s = format!("live={} blocks={} overflow={} mism={}", LIVE_BYTES.load(Ordering::SeqCst), LIVE_BLOCKS.load(Ordering::SeqCst),
                                OVERFLOW.load(Ordering::SeqCst), MISMATCH.load(Ordering::SeqCst));
            let n = MISMATCH.load(Ordering::SeqCst).min(NFIRST);
            for i in 0..n {
                let e = unsafe { (*FIRST.v.get())[i] };
                s.push_str(&format!(" {}:alloc={}/{},given={}/{}", if e[0] == 0 { "dealloc" } else { "realloc" }, e[1], e[3] >> 16, e[2], e[3] & 0xffff));
            }
            s
        }
        _ => String::from("bad-op"),
    })
}
