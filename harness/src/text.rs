//! Canonical text form of frames, shared (by construction) with the Lean driver.

use uflow::verif::frame::*;
use crate::util;

pub fn fmt_opt(v: Option<u32>) -> String {
    match v {
        Some(x) => x.to_string(),
        None => String::from("-"),
    }
}

pub fn fmt_datagram(d: &Datagram) -> String {
    format!("{} {} {} {} {} {} {}", d.sequence_id, d.channel_id, d.window_parent_lead, d.channel_parent_lead,
            d.fragment_id, d.fragment_id_last, util::hex(&d.data))
}

pub fn fmt_frame(f: &Frame) -> String {
    match f {
        Frame::HandshakeSynFrame(f) =>
            format!("syn {} {} {} {} {}", f.version, f.nonce, f.max_receive_rate, f.max_packet_size, f.max_receive_alloc),
        Frame::HandshakeSynAckFrame(f) =>
            format!("synack {} {} {} {} {}", f.nonce_ack, f.nonce, f.max_receive_rate, f.max_packet_size, f.max_receive_alloc),
        Frame::HandshakeAckFrame(f) => format!("hsack {}", f.nonce_ack),
        Frame::HandshakeErrorFrame(f) => format!("hserr {} {}", f.nonce_ack, match f.error {
            HandshakeErrorType::Version => 0,
            HandshakeErrorType::Config => 1,
            HandshakeErrorType::ServerFull => 2,
        }),
        Frame::DisconnectFrame(_) => String::from("disc"),
        Frame::DisconnectAckFrame(_) => String::from("discack"),
        Frame::DataFrame(f) => {
            let mut s = format!("data {} {} {}", f.sequence_id, f.nonce as u8, f.datagrams.len());
            for d in f.datagrams.iter() {
                s.push(' ');
                s.push_str(&fmt_datagram(d));
            }
            s
        }
        Frame::SyncFrame(f) => format!("sync {} {}", fmt_opt(f.next_frame_id), fmt_opt(f.next_packet_id)),
        Frame::AckFrame(f) => {
            let mut s = format!("ack {} {} {}", f.frame_window_base_id, f.packet_window_base_id, f.frame_acks.len());
            for a in f.frame_acks.iter() {
                s.push_str(&format!(" {} {} {}", a.base_id, a.bitfield, a.nonce as u8));
            }
            s
        }
    }
}

pub struct Toks<'a, 'b> {
    pub t: &'b [&'a str],
    pub i: usize,
}

impl<'a, 'b> Toks<'a, 'b> {
    pub fn new(t: &'b [&'a str]) -> Self { Self { t, i: 0 } }
    pub fn next(&mut self) -> Option<&'a str> {
        let r = self.t.get(self.i).copied();
        self.i += 1;
        r
    }
    pub fn num<T: std::str::FromStr>(&mut self) -> Option<T> {
        self.next()?.parse().ok()
    }
    pub fn opt_u32(&mut self) -> Option<Option<u32>> {
        let s = self.next()?;
        if s == "-" { Some(None) } else { Some(Some(s.parse().ok()?)) }
    }
    pub fn done(&self) -> bool { self.i >= self.t.len() }
}

pub fn parse_datagram(t: &mut Toks) -> Option<Datagram> {
    Some(Datagram {
        sequence_id: t.num()?,
        channel_id: t.num()?,
        window_parent_lead: t.num()?,
        channel_parent_lead: t.num()?,
        fragment_id: t.num()?,
        fragment_id_last: t.num()?,
        data: util::payload_arg(t.next()?)?.into_boxed_slice(),
    })
}

pub fn parse_frame(t: &mut Toks) -> Option<Frame> {
    let kind = t.next()?;
    let f = match kind {
        "syn" => Frame::HandshakeSynFrame(HandshakeSynFrame {
            version: t.num()?, nonce: t.num()?, max_receive_rate: t.num()?, max_packet_size: t.num()?, max_receive_alloc: t.num()? }),
        "synack" => Frame::HandshakeSynAckFrame(HandshakeSynAckFrame {
            nonce_ack: t.num()?, nonce: t.num()?, max_receive_rate: t.num()?, max_packet_size: t.num()?, max_receive_alloc: t.num()? }),
        "hsack" => Frame::HandshakeAckFrame(HandshakeAckFrame { nonce_ack: t.num()? }),
        "hserr" => Frame::HandshakeErrorFrame(HandshakeErrorFrame { nonce_ack: t.num()?, error: match t.num::<u8>()? {
            0 => HandshakeErrorType::Version,
            1 => HandshakeErrorType::Config,
            2 => HandshakeErrorType::ServerFull,
            _ => return None,
        }}),
        "disc" => Frame::DisconnectFrame(DisconnectFrame {}),
        "discack" => Frame::DisconnectAckFrame(DisconnectAckFrame {}),
        "data" => {
            let sequence_id = t.num()?;
            let nonce = t.num::<u8>()? != 0;
            let k: usize = t.num()?;
            let mut datagrams = Vec::new();
            for _ in 0..k {
                datagrams.push(parse_datagram(t)?);
            }
            Frame::DataFrame(DataFrame { sequence_id, nonce, datagrams })
        }
        "sync" => Frame::SyncFrame(SyncFrame { next_frame_id: t.opt_u32()?, next_packet_id: t.opt_u32()? }),
        "ack" => {
            let frame_window_base_id = t.num()?;
            let packet_window_base_id = t.num()?;
            let k: usize = t.num()?;
            let mut frame_acks = Vec::new();
            for _ in 0..k {
                frame_acks.push(AckGroup { base_id: t.num()?, bitfield: t.num()?, nonce: t.num::<u8>()? != 0 });
            }
            Frame::AckFrame(AckFrame { frame_window_base_id, packet_window_base_id, frame_acks })
        }
        _ => return None,
    };
    Some(f)
}
