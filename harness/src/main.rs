//! `uh <mode>`: executes a line-protocol script (stdin) against the real uflow code and prints
//! one canonical output line per operation (stdout).  The Lean driver does the same against the
//! model; `tools/corr.py` diffs the two streams.

mod util;
mod text;
mod codec;
mod hc;
mod ep;
mod rate;
mod heap;

#[global_allocator]
static GLOBAL: heap::Checking = heap::Checking;

use std::io::{self, BufRead, Write};

pub trait Machine {
    /// Executes one operation line, returns the output line (without newline).
    fn op(&mut self, toks: &[&str]) -> String;
}

fn main() {
    let args: Vec<String> = std::env::args().collect();
    if args.len() < 2 {
        eprintln!("usage: uh <mode>");
        std::process::exit(2);
    }
    util::install_panic_hook();

    let mode = args[1].clone();
    let make = move || -> Box<dyn Machine> {
        match mode.as_str() {
            "codec" => Box::new(codec::CodecMachine::new()),
            "hc" => Box::new(hc::HcMachine::new()),
            "ep" => Box::new(ep::EpMachine::new()),
            "rate" => Box::new(rate::RateMachine::new()),
            _ => {
                eprintln!("unknown mode {}", mode);
                std::process::exit(2);
            }
        }
    };
    let mut machine = make();
    let mut dead = false;

    let stdin = io::stdin();
    let stdout = io::stdout();
    let mut out = io::BufWriter::new(stdout.lock());
    let interactive = args.iter().any(|a| a == "--interactive");

    // one line buffer for the whole run, allocated before any tracking starts: a per-line `String` would be live while
    // `heap live` is measured, and its capacity depends on where the line falls relative to the reader's buffer boundary
    let mut buf = String::with_capacity(1 << 22);
    let mut input = stdin.lock();
    loop {
        buf.clear();
        if input.read_line(&mut buf).unwrap() == 0 {
            break;
        }
        let line = buf.trim();
        if line.is_empty() || line.starts_with('#') {
            continue;
        }
        if line.starts_with("===") {
            // case separator: fresh machine, echo the line
            machine = make();
            dead = false;
            writeln!(out, "{}", line).unwrap();
            if interactive {
                out.flush().unwrap();
            }
            continue;
        }
        let toks: Vec<&str> = line.split(' ').filter(|t| !t.is_empty()).collect();
        // machine-independent operations: `reset` drops every object of the case, `heap ...` talks to the allocator
        let special = if toks == ["reset"] {
            machine = make();
            dead = false;
            Some(String::from("ok"))
        } else {
            heap::op(&toks)
        };
        if let Some(text) = special {
            writeln!(out, "{}", text).unwrap();
            if interactive {
                out.flush().unwrap();
            }
            continue;
        }
        // after a panic the objects may be in an arbitrary state: the case is over
        let text = if dead {
            String::from("dead")
        } else {
            match util::guarded(|| machine.op(&toks)) {
                Ok(s) => s,
                Err(kind) => { dead = true; format!("trap:{}", kind) }
            }
        };
        writeln!(out, "{}", text).unwrap();
        if interactive {
            out.flush().unwrap();
        }
    }
    out.flush().unwrap();
}
