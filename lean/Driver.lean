import Uflow.Driver.CodecMode
import Uflow.Driver.HcMode
import Uflow.Driver.EpMode
import Uflow.Driver.RateMode
import Uflow.Model.Heap

/-! `uflow_driver <mode>`: runs a line-protocol script (stdin) against the Lean model and prints
one output line per operation. A line starting with `===` separates cases: it is echoed and the
machine is reset to its initial state. -/

open Uflow.Driver

def tokens (line : String) : List String :=
  (line.trimAscii.toString.splitOn " ").filter (· ≠ "")

/-- Lengths of the packets handed to the application by an operation, read off its output line:
`<ep> recv` prints `n len:fnv ...` (mode hc), `sstep` / `cstep i` print `ev R<peer>:len:fnv ... | ...` (mode ep). -/
def deliveredLens (toks : List String) (out : String) : List Nat :=
  match toks with
  | [_, "recv"] => ((out.splitOn " ").drop 1).filterMap fun t => ((t.splitOn ":").head?).bind String.toNat?
  | "sstep" :: _ | "cstep" :: _ =>
    let evs := ((out.splitOn "|").head?.getD "").splitOn " "
    evs.filterMap fun t => if t.startsWith "R" then ((t.splitOn ":")[1]?).bind String.toNat? else none
  | _ => []

/-- Heap ledger (C19): boxes of delivered multi-fragment packets whose drop would not match their block. -/
def ledgerMismatches (toks : List String) (out : String) : Nat :=
  ((deliveredLens toks out).filter fun len =>
    len > Uflow.Gen.MAX_FRAGMENT_SIZE && !(Uflow.Heap.boxOfDelivered len).dropOk).length

partial def loop {σ : Type} (h : IO.FS.Stream) (out : IO.FS.Stream) (init : σ)
    (step : σ → List String → σ × String) (s : σ) (mism : Nat := 0) : IO Unit := do
  let line ← h.getLine
  if line.isEmpty then return ()
  let toks := tokens line
  match toks with
  | [] => loop h out init step s mism
  | t :: _ =>
    if t.startsWith "#" then loop h out init step s mism
    else if t.startsWith "===" then
      out.putStrLn line.trimAscii.toString
      out.flush
      loop h out init step init mism
    else if toks == ["reset"] then
      out.putStrLn "ok"; out.flush
      loop h out init step init mism
    else if toks == ["heap", "on"] then
      out.putStrLn "ok"; out.flush
      loop h out init step s 0
    else if toks == ["heap", "live"] then
      -- the model holds no memory once the machine is reset: no growth from one session to the next
      out.putStrLn s!"mism={mism} grow=0"; out.flush
      loop h out init step s mism
    else
      let (s', o) := step s toks
      out.putStrLn o
      out.flush
      loop h out init step s' (mism + ledgerMismatches toks o)

def main (args : List String) : IO UInt32 := do
  let stdin ← IO.getStdin
  let stdout ← IO.getStdout
  match args with
  | "codec" :: _ => loop stdin stdout () (fun _ t => ((), codecOp t)) (); return 0
  | "hc" :: _ => loop stdin stdout HcMachine.init hcOp HcMachine.init; return 0
  | "ep" :: _ => loop stdin stdout EpMachine.init epOp EpMachine.init; return 0
  | "rate" :: _ => loop stdin stdout RateMachine.init rateOp RateMachine.init; return 0
  | _ => IO.eprintln "usage: uflow_driver <mode>"; return 2
