import Uflow.Driver.CodecMode

/-! `uflow_driver <mode>`: runs a line-protocol script (stdin) against the Lean model and prints
one output line per operation. Stateless modes map a line to a line; stateful modes thread a
state. -/

open Uflow.Driver

def tokens (line : String) : List String :=
  (line.trimAscii.toString.splitOn " ").filter (· ≠ "")

partial def loopStateless (h : IO.FS.Stream) (out : IO.FS.Stream) (f : List String → String) : IO Unit := do
  let line ← h.getLine
  if line.isEmpty then return ()
  let toks := tokens line
  match toks with
  | [] => loopStateless h out f
  | t :: _ =>
    if t.startsWith "#" then loopStateless h out f else
    out.putStrLn (f toks)
    loopStateless h out f

def main (args : List String) : IO UInt32 := do
  let stdin ← IO.getStdin
  let stdout ← IO.getStdout
  match args with
  | "codec" :: _ => loopStateless stdin stdout codecOp; return 0
  | _ => IO.eprintln "usage: uflow_driver <mode>"; return 2
