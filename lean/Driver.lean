import Uflow.Driver.CodecMode
import Uflow.Driver.HcMode
import Uflow.Driver.EpMode

/-! `uflow_driver <mode>`: runs a line-protocol script (stdin) against the Lean model and prints
one output line per operation. A line starting with `===` separates cases: it is echoed and the
machine is reset to its initial state. -/

open Uflow.Driver

def tokens (line : String) : List String :=
  (line.trimAscii.toString.splitOn " ").filter (· ≠ "")

partial def loop {σ : Type} (h : IO.FS.Stream) (out : IO.FS.Stream) (init : σ)
    (step : σ → List String → σ × String) (s : σ) : IO Unit := do
  let line ← h.getLine
  if line.isEmpty then return ()
  let toks := tokens line
  match toks with
  | [] => loop h out init step s
  | t :: _ =>
    if t.startsWith "#" then loop h out init step s
    else if t.startsWith "===" then
      out.putStrLn line.trimAscii.toString
      out.flush
      loop h out init step init
    else
      let (s', o) := step s toks
      out.putStrLn o
      out.flush
      loop h out init step s'

def main (args : List String) : IO UInt32 := do
  let stdin ← IO.getStdin
  let stdout ← IO.getStdout
  match args with
  | "codec" :: _ => loop stdin stdout () (fun _ t => ((), codecOp t)) (); return 0
  | "hc" :: _ => loop stdin stdout HcMachine.init hcOp HcMachine.init; return 0
  | "ep" :: _ => loop stdin stdout EpMachine.init epOp EpMachine.init; return 0
  | _ => IO.eprintln "usage: uflow_driver <mode>"; return 2
