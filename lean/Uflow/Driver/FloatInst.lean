import Uflow.Model.Rate

/-! The executable `FloatOps Float`: each field is the IEEE binary64 expression of the Rust code
(same operations in the same order; `as uN` casts saturate and map NaN to 0 in both languages,
`round` is half-away-from-zero in both). Compared bit-for-bit with the implementation by the
correspondence check. -/

namespace Uflow.Driver

open Uflow.Rate Uflow.Gen

/-- `f64::max`: if one argument is NaN the other is returned. -/
def fmax (a b : Float) : Float :=
  if a.isNaN then b else if b.isNaN then a else if a < b then b else a

/-- `f64::clamp(lo, hi)`. -/
def fclamp (x lo hi : Float) : Float :=
  let x := if x < lo then lo else x
  if x > hi then hi else x

def u32maxF : Float := Float.ofNat (2^32 - 1)

def natF (n : Nat) : Float := Float.ofNat n

def toU32 (x : Float) : Nat := x.toUInt32.toNat
def toU64 (x : Float) : Nat := x.toUInt64.toNat

def lossWeights : List Float := [1.0, 1.0, 1.0, 1.0, 0.8, 0.6, 0.4, 0.2]

/-- `LossIntervalQueue::compute_loss_rate` on the interval lengths (most recent first). -/
def computeLossRate (lens : List Nat) : Float :=
  match lens with
  | [] => 0.0
  | [l] => 1.0 / (natF l * 1.0)
  | _ =>
    let n := lens.length
    let w := lossWeights
    let t0 := (List.range (n - 1)).foldl (fun acc i => acc + natF (lens.getD i 0) * w.getD i 0.0) 0.0
    let wt := (List.range (n - 1)).foldl (fun acc i => acc + w.getD i 0.0) 0.0
    let t1 := (List.range (n - 1)).foldl (fun acc i => acc + natF (lens.getD (i + 1) 0) * w.getD i 0.0) 0.0
    wt / fmax t0 t1

def floatOps : FloatOps Float where
  zero := 0.0
  one := 1.0
  mid a b := (a + b) / 2.0
  msToS n := natF n / 1000.0
  sToMs v := toU64 (fmax (v * 1000.0) 0.0).round
  gt a b := a > b
  feq a b := a == b
  ewma r s := (1.0 - 0.1) * r + 0.1 * s
  rto rtt rate := fmax (4.0 * rtt) (natF (2 * MSS) / natF (max rate 1))
  tcpRate rtt p :=
    let s := natF MSS
    let fp := (p * 2.0 / 3.0).sqrt + 12.0 * (p * 3.0 / 8.0).sqrt * p * (1.0 + 32.0 * p * p)
    toU32 (s / (rtt * fp))
  initRate rtt := toU32 (natF INITIAL_TCP_WINDOW / rtt)
  initLossRate rtt := toU32 (natF (MSS / 2) / rtt)
  mul085 x := toU32 (natF x * 0.85)
  mul005 x := toU32 (natF x * 0.05)
  recvRate total dt := toU32 (fclamp (natF total / (natF dt / 1000.0)) 0.0 u32maxF)
  lossRate := computeLossRate
  lossResetLen p := toU32 (fclamp (1.0 / p) 0.0 u32maxF).round
  fillBytes rate dt frac :=
    let secs := natF (dt / 1000000000) + natF (dt % 1000000000) / natF 1000000000
    let x := natF rate * secs + frac
    (x.floor.toInt64.toInt, x - x.floor)
  fillMax rate rtt := (natF rate * (match rtt with | some r => r | none => 0.0)).round.toInt64.toInt

end Uflow.Driver
