import Uflow.Driver.Text

namespace Uflow.Driver

open Uflow.Codec

/-- mode `codec`: enc <frame> | dec <hex> | crc <hex> | size <datagram> -/
def codecOp (toks : List String) : String :=
  match toks with
  | "enc" :: ts =>
    match pFrame ts with
    | some (f, []) => hex (encode f)
    | _ => "bad-op"
  | ["dec", h] =>
    match unhex h with
    | some bs => match decode bs with
      | some f => fmtFrame f
      | none => "none"
    | none => "bad-op"
  | ["crc", h] =>
    match unhex h with
    | some bs => toString (Crc.compute bs)
    | none => "bad-op"
  | "size" :: ts =>
    match pDatagram ts with
    | some (d, []) => toString (encodedSize d)
    | _ => "bad-op"
  | _ => "bad-op"

end Uflow.Driver
