import Uflow.Driver.Text

namespace Uflow.Driver

open Uflow.Codec

/-- mode `codec`: enc <frame> | dec <hex> | crc <hex> | size <datagram> -/
def codecOp (toks : List String) : String :=
  match toks with
  | "enc" :: ts =>
    match pFrame ts with
    | some (f, []) => hex (encode f)
    | _ => "bad-op"
  | ["dec", h] =>
    match unhex h with
    | some bs => match decode bs with
      | some f => fmtFrame f
      | none => "none"
    | none => "bad-op"
  | "rt" :: ts =>
    match pFrame ts with
    | some (f, []) => match decode (encode f) with
      | some g => fmtFrame g
      | none => "none"
    | _ => "bad-op"
  | ["flip", h, ps] =>
    match unhex h, (ps.splitOn ",").mapM String.toNat? with
    | some bs, some pos =>
      if pos.all (fun p => p / 8 < bs.length) then
        match decode (pos.foldl flipBit bs) with
        | some f => fmtFrame f
        | none => "none"
      else "bad-op"
    | _, _ => "bad-op"
  | ["crc", h] =>
    match unhex h with
    | some bs => toString (Crc.compute bs)
    | none => "bad-op"
  | "size" :: ts =>
    match pDatagram ts with
    | some (d, []) => toString (encodedSize d)
    | _ => "bad-op"
  | _ => "bad-op"

end Uflow.Driver
