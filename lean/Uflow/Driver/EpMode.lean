import Uflow.Driver.HcMode
import Uflow.Model.Endpoint

/-! mode `ep` of the driver: mirror of `harness/src/ep.rs` (server + clients + relay peers). -/

namespace Uflow.Driver

open Uflow Uflow.Codec Uflow.HalfConn Uflow.Endpoint

abbrev HS := HalfConn.State Float

def hcInst : HC HS where
  new c now := HalfConn.init floatOps c now { fifo := [], state := 0 }
  send := HalfConn.send
  dispatch h f := match f with
    | .data id nonce dgs => handleDataFrame h id nonce dgs
    | .ack fb pb acks => handleAckFrame h fb pb acks
    | .sync nf np => handleSyncFrame h nf np
    | _ => .ok h
  step h now := HalfConn.step floatOps h now
  flush h rng := (HalfConn.flush { h with rng := rng }).map fun (h', frames) => (h', h'.rng, frames)
  receive := HalfConn.receive
  isSendPending := HalfConn.isSendPending
  sendBufferSize := HalfConn.sendBufferSize

structure EpPeer where
  client : Option (Client HS)
  c2s : Array (List Nat)
  s2c : Array (List Nat)
  c2sSeen : Nat
  s2cSeen : Nat
  arrivals : List (List Nat)     -- datagrams forwarded to the client, not yet read

structure EpMachine where
  server : Option (Server HS)
  srvArrivals : List (Nat × List Nat)
  peers : List (Nat × EpPeer)
  now : Nat
  rng : Rng
  dead : Bool

def EpMachine.init : EpMachine :=
  { server := none, srvArrivals := [], peers := [], now := 0, rng := { fifo := [], state := 0x9E3779B97F4A7C15 }, dead := false }

def EpMachine.peer (m : EpMachine) (i : Nat) : Option EpPeer := (m.peers.find? (·.1 = i)).map (·.2)

def EpMachine.setPeer (m : EpMachine) (i : Nat) (p : EpPeer) : EpMachine :=
  { m with peers := (i, p) :: m.peers.filter (·.1 ≠ i) }

def epSummary (bytes : List Nat) : String :=
  match decode bytes with
  | some (.data ..) | some (.ack ..) | some (.sync ..) | none => frameSummary bytes
  | some f => s!"{digest bytes}:{(fmtFrame f).replace " " "_"}"

/-- Adds datagrams sent by the server to the peers' s2c logs. -/
def EpMachine.serverSent (m : EpMachine) (sent : List (Nat × List Nat)) : EpMachine :=
  sent.foldl (fun m (a, b) => match m.peer a with
    | some p => m.setPeer a { p with s2c := p.s2c.push b }
    | none => m) m

def EpMachine.clientSent (m : EpMachine) (i : Nat) (sent : List (List Nat)) : EpMachine :=
  match m.peer i with
  | some p => m.setPeer i { p with c2s := p.c2s ++ sent.toArray }
  | none => m

/-- Mirror of `EpMachine::report`. -/
def EpMachine.report (m : EpMachine) : EpMachine × String :=
  let idx := (m.peers.map (·.1)).mergeSort (· ≤ ·)
  idx.foldl (fun (acc : EpMachine × String) i =>
    match acc.1.peer i with
    | none => acc
    | some p =>
      let s1 := if p.c2s.size > p.c2sSeen then
          (p.c2s.toList.drop p.c2sSeen).foldl (fun s d => s ++ " " ++ epSummary d) s!" {i}>" else ""
      let s2 := if p.s2c.size > p.s2cSeen then
          (p.s2c.toList.drop p.s2cSeen).foldl (fun s d => s ++ " " ++ epSummary d) s!" {i}<" else ""
      (acc.1.setPeer i { p with c2sSeen := p.c2s.size, s2cSeen := p.s2c.size }, acc.2 ++ s1 ++ s2)) (m, "")

def errName : ErrorType → String
  | .timeout => "Timeout" | .version => "Version" | .config => "Config" | .serverFull => "ServerFull"

def fmtSEvent : SEvent → String
  | .connect a => s!" C{a}"
  | .disconnect a => s!" D{a}"
  | .receive a d => s!" R{a}:{digest d}"
  | .error a e => s!" E{a}:{errName e}"

def fmtCEvent : CEvent → String
  | .connect => " C"
  | .disconnect => " D"
  | .receive d => s!" R:{digest d}"
  | .error e => s!" E:{errName e}"

def pEpCfg (ts : List String) : Option (EpConfig × List String) :=
  match (ts.take 7).mapM String.toNat? with
  | some [a, b, c, d, e, f, g] =>
    some ({ maxSendRate := a, maxReceiveRate := b, maxPacketSize := c, maxReceiveAlloc := d, keepalive := e ≠ 0,
            keepaliveIntervalMs := f, activeTimeoutMs := g }, ts.drop 7)
  | _ => none

def isActiveC (c : Client HS) : Bool := match c.state with | .active .. => true | _ => false
def sbsC (c : Client HS) : Nat := match c.state with | .active _ h _ _ => HalfConn.sendBufferSize h | _ => 0
def rttOfH (h : HS) : String := match h.rate.rttS with | some r => toString r.toBits.toNat | none => "-"
def rttC (c : Client HS) : String := match c.state with | .active _ h _ _ => rttOfH h | _ => "-"

def epOp (m : EpMachine) (toks : List String) : EpMachine × String :=
  if m.dead then (m, "dead") else
  let fail (t : Trap) : EpMachine × String := ({ m with dead := true }, trapOut t)
  match toks with
  | ["t", ns] => match ns.toNat? with
    | some n => ({ m with now := n }, "ok")
    | none => (m, "bad-op")
  | "rng" :: vs => ({ m with rng := { m.rng with fifo := m.rng.fifo ++ vs.filterMap String.toNat? } }, "ok")
  | "srv" :: a :: b :: c :: rest =>
    match a.toNat?, b.toNat?, c.toNat?, pEpCfg rest with
    | some mt, some ma, some hs, some (cfg, []) =>
      let sc : SrvConfig := { maxTotalConnections := mt, maxActiveConnections := ma, enableHandshakeErrors := hs ≠ 0, ep := cfg }
      ({ m with server := some (Server.init sc m.now m.rng) }, "ok")
    | _, _, _, _ => (m, "bad-op")
  | ["peer", i] => match i.toNat? with
    | some i => (m.setPeer i { client := none, c2s := #[], s2c := #[], c2sSeen := 0, s2cSeen := 0, arrivals := [] }, "ok")
    | none => (m, "bad-op")
  | "cli" :: i :: rest =>
    match i.toNat?, pEpCfg rest with
    | some i, some (cfg, []) =>
      let (c, sent) := (Client.connect cfg m.now m.rng : Client HS × List (List Nat))
      let m := { m with rng := c.rng }
      let m := m.setPeer i { client := some c, c2s := sent.toArray, s2c := #[], c2sSeen := 0, s2cSeen := 0, arrivals := [] }
      let (m, rep) := m.report
      (m, "ok" ++ rep)
    | _, _ => (m, "bad-op")
  | "recli" :: i :: rest =>
    -- a new client behind the relay socket of an existing peer: the server sees the same address again
    match i.toNat?, pEpCfg rest with
    | some i, some (cfg, []) =>
      match m.peer i with
      | none => (m, "bad-op")
      | some p =>
        let (c, sent) := (Client.connect cfg m.now m.rng : Client HS × List (List Nat))
        let m := { m with rng := c.rng }
        let m := m.setPeer i { p with client := some c, c2s := p.c2s ++ sent.toArray }
        let (m, rep) := m.report
        (m, "ok" ++ rep)
    | _, _ => (m, "bad-op")
  | [op] =>
    if op == "sstep" || op == "sflush" then
      match m.server with
      | none => (m, "bad-op")
      | some s =>
        let s := { s with rng := m.rng }
        if op == "sstep" then
          match Server.step hcInst s m.now m.srvArrivals with
          | .error t => fail t
          | .ok (s, sent, evs) =>
            let m := { m with server := some s, rng := s.rng, srvArrivals := [] }
            let (m, rep) := (m.serverSent sent).report
            (m, "ev" ++ String.join (evs.map fmtSEvent) ++ " |" ++ rep)
        else
          match Server.flush hcInst s with
          | .error t => fail t
          | .ok (s, sent) =>
            let m := { m with server := some s, rng := s.rng }
            let (m, rep) := (m.serverSent sent).report
            (m, "ev |" ++ rep)
    else (m, "bad-op")
  | [op, i] =>
    match i.toNat? with
    | none => (m, "bad-op")
    | some i =>
      if op == "cstep" || op == "cflush" then
        match m.peer i with
        | none => (m, "bad-op")
        | some p =>
          match p.client with
          | none => (m, "bad-op")
          | some c =>
            let c := { c with rng := m.rng }
            if op == "cstep" then
              match Client.step hcInst c m.now p.arrivals with
              | .error t => fail t
              | .ok (c, sent, evs) =>
                let m := ({ m with rng := c.rng }).setPeer i { p with client := some c, arrivals := [] }
                let (m, rep) := (m.clientSent i sent).report
                (m, "ev" ++ String.join (evs.map fmtCEvent) ++ " |" ++ rep)
            else
              match Client.flush hcInst c with
              | .error t => fail t
              | .ok (c, sent) =>
                let m := ({ m with rng := c.rng }).setPeer i { p with client := some c }
                let (m, rep) := (m.clientSent i sent).report
                (m, "ev |" ++ rep)
      else if op == "cdisc" || op == "cdiscnow" || op == "cget" then
        match m.peer i with
        | none => (m, "bad-op")
        | some p =>
          match p.client with
          | none => (m, "bad-op")
          | some c =>
            if op == "cget" then (m, s!"active={b2n (isActiveC c)} sbs={sbsC c} rtt={rttC c}")
            else (m.setPeer i { p with client := some (c.disconnect (if op == "cdisc" then .flush else .now)) }, "ok")
      else if op == "sdisc" || op == "sdiscnow" || op == "sdrop" || op == "sget" then
        match m.peer i, m.server with
        | some _, some s =>
          if op == "sdrop" then ({ m with server := some (s.drop i) }, "ok")
          else
            match s.find i with
            | none => (m, "no-client")
            | some c =>
              if op == "sget" then
                match c.state with
                | .active h _ _ => (m, s!"active=1 sbs={HalfConn.sendBufferSize h} rtt={rttOfH h}")
                | _ => (m, "active=0 sbs=0 rtt=-")
              else ({ m with server := some (s.disconnect i (if op == "sdisc" then .flush else .now)) }, "ok")
        | _, _ => (m, "bad-op")
      else (m, "bad-op")
  | [op, dir, i, x] =>
    if op == "fwd" || op == "raw" then
      match i.toNat?, (if op == "fwd" then x.toNat?.map Sum.inl else (unhex x).map Sum.inr) with
      | some i, some arg =>
        match m.peer i with
        | none => (m, "bad-op")
        | some p =>
          let bytes? : Option (List Nat) := match arg with
            | .inl idx => if dir == "c2s" then p.c2s[idx]? else p.s2c[idx]?
            | .inr b => some b
          match bytes? with
          | none => (m, "no-frame")
          | some bytes =>
            if dir == "c2s" then
              match m.server with
              | some _ => ({ m with srvArrivals := m.srvArrivals ++ [(i, bytes)] }, "ok")
              | none => (m, "no-dst")
            else
              match p.client with
              | some _ => (m.setPeer i { p with arrivals := p.arrivals ++ [bytes] }, "ok")
              | none => (m, "no-dst")
      | _, _ => (m, "bad-op")
    else (m, "bad-op")
  | [op, i, pl, c, md] =>
    match i.toNat?, payloadArg pl, c.toNat?, md.toNat?.bind SendMode.ofNat? with
    | some i, some data, some chan, some mode =>
      if op == "csend" then
        match m.peer i with
        | some p => match p.client with
          | some cl => (m.setPeer i { p with client := some (Client.send hcInst cl data chan mode) }, "ok")
          | none => (m, "bad-op")
        | none => (m, "bad-op")
      else if op == "ssend" then
        match m.peer i, m.server with
        | some _, some s => match s.find i with
          | some _ => ({ m with server := some (Server.send hcInst s i data chan mode) }, "ok")
          | none => (m, "no-client")
        | _, _ => (m, "bad-op")
      else (m, "bad-op")
    | _, _, _, _ => (m, "bad-op")
  | _ => (m, "bad-op")

end Uflow.Driver
