import Uflow.Model.Codec

/-! Canonical text form of values on the line protocol (mirror of `harness/src/text.rs`,
`harness/src/util.rs`). -/

namespace Uflow.Driver

open Uflow.Codec

def hexDigit (n : Nat) : Char :=
  if n < 10 then Char.ofNat (48 + n) else Char.ofNat (87 + n)

def hex (bs : List Nat) : String :=
  if bs.isEmpty then "-" else
  String.ofList (bs.flatMap fun b => [hexDigit (b / 16 % 16), hexDigit (b % 16)])

def unhexDigit (c : Char) : Option Nat :=
  let n := c.toNat
  if 48 ≤ n ∧ n ≤ 57 then some (n - 48)
  else if 97 ≤ n ∧ n ≤ 102 then some (n - 87)
  else if 65 ≤ n ∧ n ≤ 70 then some (n - 55)
  else none

def unhexChars : List Char → Option (List Nat)
  | [] => some []
  | [_] => none
  | a :: b :: rest =>
    match unhexDigit a, unhexDigit b, unhexChars rest with
    | some x, some y, some r => some ((x * 16 + y) :: r)
    | _, _, _ => none

def unhex (s : String) : Option (List Nat) :=
  if s == "-" then some [] else unhexChars s.toList

/-- Same LCG as `util::gen_payload`. -/
def genPayload (seed : Nat) (len : Nat) : List Nat :=
  let rec go (n : Nat) (x : Nat) (acc : List Nat) : List Nat :=
    match n with
    | 0 => acc.reverse
    | n+1 =>
      let x' := (x * 6364136223846793005 + 1442695040888963407) % 2^64
      go n x' ((x' / 2^33 % 256) :: acc)
  go len (seed % 2^64) []

def payloadArg (s : String) : Option (List Nat) :=
  if s.startsWith "@" then
    match (s.drop 1).toString.splitOn ":" with
    | [a, b] =>
      match a.toNat?, b.toNat? with
      | some seed, some len => some (genPayload seed len)
      | _, _ => none
    | _ => none
  else unhex s

def fnv (bs : List Nat) : Nat :=
  bs.foldl (fun h b => ((h ^^^ (b % 256)) * 0x100000001b3) % 2^64) 0xcbf29ce484222325

def hex16 (n : Nat) : String :=
  String.ofList ((List.range 16).map fun i => hexDigit (n / 16^(15 - i) % 16))

/-- `len:fnv`. -/
def digest (bs : List Nat) : String := s!"{bs.length}:{hex16 (fnv bs)}"

def fmtOpt : Option Nat → String
  | some x => toString x
  | none => "-"

def b2n (b : Bool) : Nat := if b then 1 else 0

def fmtDatagram (d : Datagram) : String :=
  s!"{d.sequenceId} {d.channelId} {d.windowParentLead} {d.channelParentLead} {d.fragmentId} {d.fragmentIdLast} {hex d.data}"

def fmtFrame : Frame → String
  | .syn v n r p a => s!"syn {v} {n} {r} {p} {a}"
  | .synAck na n r p a => s!"synack {na} {n} {r} {p} {a}"
  | .hsAck na => s!"hsack {na}"
  | .hsError na e => s!"hserr {na} {e.toNat}"
  | .disconnect => "disc"
  | .disconnectAck => "discack"
  | .data sid nonce dgs =>
    dgs.foldl (fun s d => s ++ " " ++ fmtDatagram d) s!"data {sid} {b2n nonce} {dgs.length}"
  | .sync f p => s!"sync {fmtOpt f} {fmtOpt p}"
  | .ack fb pb acks =>
    acks.foldl (fun s a => s ++ s!" {a.baseId} {a.bitfield} {b2n a.nonce}") s!"ack {fb} {pb} {acks.length}"

/-! Token-stream parsers: each returns the value and the remaining tokens. -/

abbrev P (α : Type) := List String → Option (α × List String)

def pNat : P Nat
  | t :: rest => t.toNat?.map (·, rest)
  | [] => none

def pBool : P Bool
  | t :: rest => t.toNat?.map fun n => (n ≠ 0, rest)
  | [] => none

def pOptNat : P (Option Nat)
  | t :: rest => if t == "-" then some (none, rest) else t.toNat?.map fun n => (some n, rest)
  | [] => none

def pPayload : P (List Nat)
  | t :: rest => (payloadArg t).map (·, rest)
  | [] => none

def pNats : Nat → P (List Nat)
  | 0, ts => some ([], ts)
  | n+1, ts =>
    match pNat ts with
    | some (x, r) => (pNats n r).map fun (xs, r') => (x :: xs, r')
    | none => none

def pDatagram : P Datagram := fun ts =>
  match pNats 6 ts with
  | some ([s, c, w, h, f, l], r) =>
    match pPayload r with
    | some (d, r') => some ({ sequenceId := s, channelId := c, windowParentLead := w, channelParentLead := h,
                              fragmentId := f, fragmentIdLast := l, data := d }, r')
    | none => none
  | _ => none

def pMany {α} (p : P α) : Nat → P (List α)
  | 0, ts => some ([], ts)
  | n+1, ts =>
    match p ts with
    | some (x, r) => (pMany p n r).map fun (xs, r') => (x :: xs, r')
    | none => none

def pAckGroup : P AckGroup := fun ts =>
  match pNats 3 ts with
  | some ([b, f, n], r) => some ({ baseId := b, bitfield := f, nonce := n ≠ 0 }, r)
  | _ => none

def pFrame : P Frame
  | "syn" :: ts => match pNats 5 ts with
    | some ([v, n, r, p, a], rest) => some (.syn v n r p a, rest)
    | _ => none
  | "synack" :: ts => match pNats 5 ts with
    | some ([na, n, r, p, a], rest) => some (.synAck na n r p a, rest)
    | _ => none
  | "hsack" :: ts => match pNat ts with
    | some (na, rest) => some (.hsAck na, rest)
    | none => none
  | "hserr" :: ts => match pNats 2 ts with
    | some ([na, 0], rest) => some (.hsError na .version, rest)
    | some ([na, 1], rest) => some (.hsError na .config, rest)
    | some ([na, 2], rest) => some (.hsError na .serverFull, rest)
    | _ => none
  | "disc" :: ts => some (.disconnect, ts)
  | "discack" :: ts => some (.disconnectAck, ts)
  | "data" :: ts => match pNats 3 ts with
    | some ([sid, nonce, k], rest) =>
      (pMany pDatagram k rest).map fun (dgs, r) => (.data sid (nonce ≠ 0) dgs, r)
    | _ => none
  | "sync" :: ts => match pOptNat ts with
    | some (f, r) => (pOptNat r).map fun (p, r') => (.sync f p, r')
    | none => none
  | "ack" :: ts => match pNats 3 ts with
    | some ([fb, pb, k], rest) =>
      (pMany pAckGroup k rest).map fun (acks, r) => (.ack fb pb acks, r)
    | _ => none
  | _ => none

end Uflow.Driver
