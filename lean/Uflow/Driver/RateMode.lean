import Uflow.Driver.HcMode

/-! mode `rate`: `Rate.step` / `notifyFrameSent` on their own, fed with arbitrary feedback (see harness/src/rate.rs). -/

namespace Uflow.Driver

open Uflow Uflow.Rate

structure RateMachine where
  st : Option (Rate.State Float)
  dead : Bool

def RateMachine.init : RateMachine := { st := none, dead := false }

def fmtRate (r : Rate.State Float) : String :=
  let (tag, tcp) := match r.mode with
    | .awaitSend => (0, 0) | .slowStart _ => (1, 0) | .eqn t => (2, t)
  s!"rate={r.sendRate},{r.maxSendRate},{tag},{tcp},{fmtOptN r.nofeedbackExp},{b2n r.nofeedbackIdle},{fmtOptN (r.rttS.map (·.toBits.toNat))},{fmtOptN r.rttMs},{fmtOptN r.rtoMs},{r.recvSet.length},{r.prevLossRate.toBits.toNat}"

def rateOp (m : RateMachine) (toks : List String) : RateMachine × String :=
  if m.dead then (m, "dead") else
  let u32? (s : String) : Option Nat := s.toNat?.bind fun n => if n < 2^32 then some n else none
  let u64? (s : String) : Option Nat := s.toNat?.bind fun n => if n < 2^64 then some n else none
  let run (s : Rate.State Float) (now : Nat) (fb : Option (Feedback Float)) : RateMachine × String :=
    match Rate.step floatOps s now fb with
    | .error t => ({ m with dead := true }, trapOut t)
    | .ok (s', reset) =>
      ({ m with st := some s' }, fmtRate s' ++ " reset=" ++ (match reset with | some p => toString p.toBits.toNat | none => "-"))
  match toks with
  | ["new", mx] => match u32? mx with
    | some n => ({ m with st := some (Rate.init floatOps n) }, "ok")
    | none => (m, "bad-op")
  | ["sent", now] => match m.st, u64? now with
    | some s, some n => ({ m with st := some (notifyFrameSent s n) }, "ok")
    | _, _ => (m, "bad-op")
  | ["step", now] => match m.st, u64? now with
    | some s, some n => run s n none
    | _, _ => (m, "bad-op")
  | ["step", now, "fb", rtt, recv, bits, rl] =>
    match m.st, u64? now, u64? rtt, u32? recv, u64? bits, rl.toNat? with
    | some s, some n, some r, some rr, some b, some l =>
      if l < 256 then run s n (some { rttMs := r, receiveRate := rr, lossRate := Float.ofBits b.toUInt64, rateLimited := l ≠ 0 })
      else (m, "bad-op")
    | _, _, _, _, _, _ => (m, "bad-op")
  | _ => (m, "bad-op")

end Uflow.Driver
