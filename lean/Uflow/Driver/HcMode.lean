import Uflow.Driver.Text
import Uflow.Driver.FloatInst
import Uflow.Model.HalfConn

/-! mode `hc` of the driver: mirror of `harness/src/hc.rs`. -/

namespace Uflow.Driver

open Uflow Uflow.Codec Uflow.HalfConn

structure HcEp where
  st : HalfConn.State Float
  outbox : Array (List Nat)

structure HcMachine where
  eps : List (String × HcEp)
  now : Nat
  rng : Rng
  dead : Bool

def HcMachine.init : HcMachine :=
  { eps := [], now := 0, rng := { fifo := [], state := 0x9E3779B97F4A7C15 }, dead := false }

def HcMachine.get (m : HcMachine) (n : String) : Option HcEp := (m.eps.find? (·.1 == n)).map (·.2)

def HcMachine.set (m : HcMachine) (n : String) (e : HcEp) : HcMachine :=
  { m with eps := (n, e) :: m.eps.filter (·.1 != n) }

def hexNat (n : Nat) : String :=
  if n = 0 then "0" else
  let rec go (fuel n : Nat) (acc : List Char) : List Char :=
    match fuel with
    | 0 => acc
    | fuel+1 => if n = 0 then acc else go fuel (n / 16) (hexDigit (n % 16) :: acc)
  String.ofList (go 64 n [])

def digests (items : List (List Nat)) : String :=
  items.foldl (fun s it => s ++ " " ++ digest it) (toString items.length)

/-- `len:fnv:summary` of an emitted frame (mirror of `hc::frame_summary`). -/
def frameSummary (bytes : List Nat) : String :=
  let body := match decode bytes with
    | some (.data id nonce dgs) =>
      dgs.foldl (fun s (d : Datagram) => s ++ s!",{d.sequenceId}.{d.fragmentId}.{d.fragmentIdLast}.{d.channelId}.{d.windowParentLead}.{d.channelParentLead}.{d.data.length}.{hex16 (fnv d.data)}")
        s!"D,{id},{b2n nonce}"
    | some (.ack fb pb acks) =>
      acks.foldl (fun s (a : AckGroup) => s ++ s!",{a.baseId}.{a.bitfield}.{b2n a.nonce}") s!"A,{fb},{pb}"
    | some (.sync f p) => s!"S,{fmtOpt f},{fmtOpt p}"
    | some _ => "O"
    | none => "X"
  s!"{digest bytes}:{body}"

def fmtOptN : Option Nat → String
  | some x => toString x
  | none => "-"

def probe (s : HalfConn.State Float) : String :=
  let ps := s.ps
  let pr := s.pr
  let fq := s.fq
  let r := s.rate
  let asmHeld := (pr.slots.map fun (_, sl) => match sl.asm with
    | .active _ _ _ _ last _ => (last + 1) * Gen.MAX_FRAGMENT_SIZE | _ => 0).sum
  let dataHeld := (pr.slots.map fun (_, sl) => match sl.data with | some d => d.length | none => 0).sum
  let ready := (List.range pr.readyFlags.length).foldl (fun acc i => if pr.readyFlags.getD i false then acc + 2^i else acc) 0
  let (tag, tcp) := match r.mode with
    | .awaitSend => (0, 0) | .slowStart _ => (1, 0) | .eqn t => (2, t)
  s!"fa={s.flushAlloc} fid={s.flushId} nowms={s.nowMs} sync={s.syncTimeoutBase} sr={b2n s.syncReply} | " ++
  s!"ps={ps.baseId},{ps.nextId},{ps.alloc},{ps.maxAlloc},{ps.totalSize},{ps.queue.length},{ps.win.length} pb={(ps.queue.map (·.data.length)).sum},{(ps.win.map (·.packet.data.length)).sum},{(ps.win.map (·.allocSize)).sum} pend={s.pending.length} rs={s.resend.size} | " ++
  s!"fq={fq.winBase},{fq.logBase},{fq.logNext},{fq.frames.length},{b2n fq.rateLimited},{fq.intervals.length},{b2n fq.ackData.isSome} | " ++
  s!"pr={pr.baseId},{pr.endId},{pr.alloc},{pr.maxAlloc},{asmHeld},{dataHeld},{hexNat ready},{b2n pr.windowReady} aq={s.aq.baseId},{s.aq.entries.length} | " ++
  s!"rate={r.sendRate},{r.maxSendRate},{tag},{tcp},{fmtOptN r.nofeedbackExp},{b2n r.nofeedbackIdle},{fmtOptN (r.rttS.map (·.toBits.toNat))},{fmtOptN r.rttMs},{fmtOptN r.rtoMs},{r.recvSet.length},{r.prevLossRate.toBits.toNat}"

/-- What the endpoints do with a parsed frame on an active connection. -/
def dispatch (s : HalfConn.State Float) (f : Frame) : R (HalfConn.State Float × String) :=
  match f with
  | .data id nonce dgs => (handleDataFrame s id nonce dgs).map (·, "ok")
  | .ack fb pb acks => (handleAckFrame s fb pb acks).map (·, "ok")
  | .sync nf np => (handleSyncFrame s nf np).map (·, "ok")
  | _ => .ok (s, "ign")

def trapOut (t : Trap) : String :=
  match t with
  | .hang => "hang"
  | t => "trap:" ++ t.name

def hcOp (m : HcMachine) (toks : List String) : HcMachine × String :=
  if m.dead then (m, "dead") else
  let fail (t : Trap) : HcMachine × String := ({ m with dead := true }, trapOut t)
  match toks with
  | ["t", ns] => match ns.toNat? with
    | some n => ({ m with now := n }, "ok")
    | none => (m, "bad-op")
  | "rng" :: vs =>
    let vals := vs.filterMap String.toNat?
    ({ m with rng := { m.rng with fifo := m.rng.fifo ++ vals } }, "ok")
  | "fwd" :: src :: idx :: dst :: rest =>
    match m.get src, idx.toNat?, m.get dst with
    | some se, some i, some de =>
      match se.outbox[i]? with
      | none => (m, "no-frame")
      | some bytes =>
        let flipped : Option (List Nat) := match rest with
          | [] => some bytes
          | [ps] => match (ps.splitOn ",").mapM String.toNat? with
            | some pos => if pos.all (fun p => p / 8 < bytes.length) then some (pos.foldl flipBit bytes) else none
            | none => none
          | _ => none
        match flipped with
        | none => (m, "bad-op")
        | some bytes =>
          match decode bytes with
          | none => (m, "none")
          | some f =>
            match dispatch de.st f with
            | .error t => fail t
            | .ok (st, o) => (m.set dst { de with st := st }, o)
    | _, _, _ => (m, "bad-op")
  | name :: "new" :: args =>
    match (args.take 11).mapM String.toNat?, args.drop 11 with
    | some [a0, a1, a2, a3, a4, a5, a6, a7, a8, a9, a10], [ka] =>
      let kav : Option (Option Nat) := if ka == "-" then some none else ka.toNat?.map some
      match kav with
      | none => (m, "bad-op")
      | some k =>
        let c : Config := { txFrameBaseId := a0 % 2^32, rxFrameBaseId := a1 % 2^32, txFrameWindowSize := a2 % 2^32, rxFrameWindowSize := a3 % 2^32,
                            txPacketBaseId := a4 % 2^32, rxPacketBaseId := a5 % 2^32, txPacketWindowSize := a6 % 2^32, rxPacketWindowSize := a7 % 2^32,
                            txBandwidthLimit := a8 % 2^32, txAllocLimit := a9, rxAllocLimit := a10, keepaliveIntervalMs := k }
        (m.set name { st := HalfConn.init floatOps c m.now m.rng, outbox := #[] }, "ok")
    | _, _ => (m, "bad-op")
  | name :: op :: args =>
    match m.get name with
    | none => (m, "bad-op")
    | some ep =>
      match op, args with
      | "send", [pl, c, md] =>
        match payloadArg pl, c.toNat?, md.toNat?.bind SendMode.ofNat? with
        | some data, some chan, some mode =>
          if chan ≥ 256 then (m, "bad-op") else
          (m.set name { ep with st := HalfConn.send ep.st data chan mode }, "ok")
        | _, _, _ => (m, "bad-op")
      | "step", [] =>
        match HalfConn.step floatOps ep.st m.now with
        | .error t => fail t
        | .ok st => (m.set name { ep with st := st }, "ok")
      | "flush", [] =>
        match HalfConn.flush { ep.st with rng := m.rng } with
        | .error t => fail t
        | .ok (st, frames) =>
          ({ m.set name { st := st, outbox := ep.outbox ++ frames.toArray } with rng := st.rng },
           frames.foldl (fun s f => s ++ " " ++ frameSummary f) (toString frames.length))
      | "recv", [] =>
        match HalfConn.receive ep.st with
        | .error t => fail t
        | .ok (st, pkts) => (m.set name { ep with st := st }, digests pkts)
      | "frame", ts =>
        match pFrame ts with
        | some (f, []) =>
          match dispatch ep.st f with
          | .error t => fail t
          | .ok (st, o) => (m.set name { ep with st := st }, o)
        | _ => (m, "bad-op")
      | "raw", [h] =>
        match unhex h with
        | none => (m, "bad-op")
        | some bytes =>
          match decode bytes with
          | none => (m, "none")
          | some f =>
            match dispatch ep.st f with
            | .error t => fail t
            | .ok (st, o) => (m.set name { ep with st := st }, o)
      | "probe", [] => (m, probe ep.st)
      | "get", [] =>
        (m, s!"sbs={sendBufferSize ep.st} pending={b2n (isSendPending ep.st)} rtt={fmtOptN (ep.st.rate.rttS.map (·.toBits.toNat))}")
      | "out", [i] =>
        match i.toNat?.bind (ep.outbox[·]?) with
        | some b => (m, hex b)
        | none => (m, "no-frame")
      | _, _ => (m, "bad-op")
  | _ => (m, "bad-op")

end Uflow.Driver
