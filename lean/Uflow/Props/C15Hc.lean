import Uflow.Props.C15
import Uflow.Props.C03Hc
import Uflow.Lemmas.HcAckRun

/-!
# C15 for a whole half connection — only genuine, fresh acknowledgements change sender state

`Uflow/Props/C15.lean` is about single calls of `FrameQ.acknowledgeGroup` / `advanceTransferWindow`. Here
the statements are lifted to `HalfConn.handleAckFrame` (`HalfConnection::handle_ack_frame`): the
whole ack frame — any number of groups, the frame window base `fb`, the packet window base `pb` —
against the whole half-connection state.

Vocabulary (`Uflow/Lemmas/HcAckFq.lean`, for a frame-queue state `fq` and a group `g`):
* `AllLogged fq g`: every frame id `g` covers is in the frame log;
* `AckGenuine fq g`: `AllLogged` and `g.nonce` is the XOR of the nonces of the frames `g` claims
  (`claimedNonce`) — what a peer that really received those frames sends;
* `AckFresh fq g`: `AckGenuine` and some claimed frame is not acknowledged yet;
* `GroupDead fq g` (`= ¬ AckFresh`): `g` covers a frame that is not logged (never sent / forgotten), or
  carries the wrong nonce (forged), or claims only frames already acknowledged (replayed);
* `LogLe fq fq1`: `fq1` is `fq` with some log entries marked acknowledged (`EntryLe`), the window and
  log bounds unchanged;
* `HcAck.ackFrags ps frs`: `acknowledge_fragment` for every `(packet uid, fragment id)` in `frs`;
* `HcAck.MarkedBy fq acks p`: some group of `acks` is genuine for `fq` and claims a logged, not yet
  acknowledged frame of `fq` whose log entry records the fragment reference `p`.
-/

namespace Uflow.Props.C15

open Uflow Uflow.Gen Uflow.Codec Uflow.HalfConn Uflow.FrameQ Uflow.HcAck
open Uflow.Rate (FloatOps)

variable {F : Type}

/-- **C15 (6), a stale / replayed / forged ack frame is a no-op on the whole half connection.** If every
group of the frame is dead (names a frame that is not in the log, or carries the wrong nonce, or
claims only frames already acknowledged), the frame window base `fb` does not advance the transfer
window (it is the current base, or beyond the last frame sent) and the packet window base `pb` does
not advance the send window (not a packet id, outside the send window, or the current base), then
`handle_ack_frame` returns the state UNCHANGED — no field at all is modified: packet sender, frame
log, feedback accumulator, loss intervals, reorder buffer, resend / pending queues, rate controller,
send credit, receiver side. -/
theorem C15_hc_ack_frame_noop (s : State F) (fb pb : Nat) (acks : List AckGroup)
    (hg : ∀ g ∈ acks, GroupDead s.fq g)
    (hfb : fb = s.fq.winBase ∨ wsub32 fb s.fq.winBase > wsub32 s.fq.logNext s.fq.winBase)
    (hpb : pb % 2^32 % PACKET_ID_SPAN ≠ pb ∨ pidSub pb s.ps.baseId > pidSub s.ps.nextId s.ps.baseId ∨
      pb = s.ps.baseId) :
    handleAckFrame s fb pb acks = .ok s := by
  rw [handleAckFrame_char]
  exact ackC_intro s fb pb acks _ _ _ s.fq s.fq s.ps s.ps
    (ackGroups_noop s.rate.rttMs acks s.fq s.ps hg)
    (C15_window_stale_noop s.fq fb s.rate.rttMs hfb) (acknowledge_noop s.ps pb hpb)

/-- **C15 (7), soundness of `handle_ack_frame`, whatever the frame contains.** If the call returns `s'`:
* (a) `s'` differs from `s` in the frame queue `fq` and the packet sender `ps` ONLY — the rate
  controller, the resend and pending queues, the send credit, the clocks and the receiver side are
  not touched (rate feedback reaches the controller only through `fq.ackData` at the next `step`);
* (b) the frame queue first goes to some `fq1` with `LogLe s.fq fq1` (log entries only get marked
  acknowledged), then `advance_transfer_window(fb)` is applied;
* (c) the packet sender gets `acknowledge_fragment` for a list `frs` of fragment references, then
  `acknowledge(pb)`;
* (d) every fragment reference in `frs` was recorded in the log entry of a frame that is claimed by a
  group of the ack frame which is genuine for the log as it was BEFORE the frame (all covered ids
  logged, nonce equal to the XOR of the frame nonces), and that entry was not acknowledged yet;
* (e) if no group is fresh, nothing is marked at all: `fq1 = s.fq`, `frs = []`;
* (f) the send window base either stays or moves exactly to `pb`, and then `pb` is a packet id
  inside the current send window (`sub(pb, base) ≤ sub(next, base)`). -/
theorem C15_hc_ack_frame_sound (s s' : State F) (fb pb : Nat) (acks : List AckGroup)
    (h : handleAckFrame s fb pb acks = .ok s') :
    s' = { s with fq := s'.fq, ps := s'.ps } ∧
    ∃ fq1 frs,
      LogLe s.fq fq1 ∧ advanceTransferWindow fq1 fb s.rate.rttMs = .ok s'.fq ∧
      PSend.acknowledge (ackFrags s.ps frs) pb = .ok s'.ps ∧
      (∀ p ∈ frs, MarkedBy s.fq acks p) ∧
      ((∀ g ∈ acks, ¬ AckFresh s.fq g) → fq1 = s.fq ∧ frs = []) ∧
      (s'.ps.baseId = s.ps.baseId ∨
        (s'.ps.baseId = pb ∧ pb % 2^32 % PACKET_ID_SPAN = pb ∧
          pidSub pb s.ps.baseId ≤ pidSub s.ps.nextId s.ps.baseId)) := by
  rw [handleAckFrame_char] at h
  obtain ⟨fq1, ps1, fq2, ps2, hfold, hadv, hack, rfl⟩ := ackC_ok s _ fb pb acks _ _ _ h
  refine ⟨rfl, ?_⟩
  have hbase : ∀ frs, ps1 = ackFrags s.ps frs →
      (ps2.baseId = s.ps.baseId ∨ (ps2.baseId = pb ∧ pb % 2^32 % PACKET_ID_SPAN = pb ∧
        pidSub pb s.ps.baseId ≤ pidSub s.ps.nextId s.ps.baseId)) := by
    intro frs hps
    obtain ⟨k1, k2, _⟩ := ackFrags_keep s.ps frs
    rcases acknowledge_cases ps1 ps2 pb hack with rfl | ⟨c1, c2, c3⟩
    · left; rw [hps]; exact k1
    · right; rw [hps, k1, k2] at c2; exact ⟨c3, c1, c2⟩
  by_cases hfresh : ∀ g ∈ acks, ¬ AckFresh s.fq g
  · have hn := ackGroups_noop s.rate.rttMs acks s.fq s.ps
      (fun g hg => groupDead_of_not_fresh s.fq g (hfresh g hg))
    have : (Except.ok (fq1, ps1) : R _) = .ok (s.fq, s.ps) := by rw [← hfold]; exact hn
    simp only [Except.ok.injEq, Prod.mk.injEq] at this
    obtain ⟨h1, h2⟩ := this
    subst h1 h2
    exact ⟨s.fq, [], LogLe.refl _, hadv, hack, (fun p hp => by cases hp), fun _ => ⟨rfl, rfl⟩, hbase [] rfl⟩
  · obtain ⟨hle, frs, hps, hm⟩ := ackGroups_sound s.rate.rttMs s.fq acks s.fq s.ps fq1 ps1
      (LogLe.refl _) hfold
    exact ⟨fq1, frs, hle, hadv, by rw [← hps]; exact hack, hm, fun hc => absurd hc hfresh, hbase frs hps⟩

/-- **C15 (7'), rate feedback is taken from newly acknowledged frames only.** If no group of the ack
frame is fresh for the current log (genuine and claiming a frame not acknowledged yet), the feedback
accumulator `ackData` (acknowledged bytes, newest send time for the RTT sample, rate-limited flag —
all the rate controller ever sees of acknowledgements) and the rate controller itself are unchanged,
and no fragment of any packet is marked acknowledged: `ps` is `acknowledge(pb)` of the old `ps`.
(Log no longer than the id space: `WInv` gives `< 2^31`.) -/
theorem C15_hc_feedback_only_fresh (s s' : State F) (fb pb : Nat) (acks : List AckGroup)
    (hlen : s.fq.frames.length ≤ 2^32) (h : handleAckFrame s fb pb acks = .ok s')
    (hfresh : ∀ g ∈ acks, ¬ AckFresh s.fq g) :
    s'.fq.ackData = s.fq.ackData ∧ s'.fq.lastFeedback = s.fq.lastFeedback ∧ s'.rate = s.rate ∧
      PSend.acknowledge s.ps pb = .ok s'.ps ∧ advanceTransferWindow s.fq fb s.rate.rttMs = .ok s'.fq := by
  obtain ⟨hs, fq1, frs, _, hadv, hack, _, he, _⟩ := C15_hc_ack_frame_sound s s' fb pb acks h
  obtain ⟨h1, h2⟩ := he hfresh
  subst h1 h2
  obtain ⟨_, a1, a2, _⟩ := atw_spec s.fq s'.fq fb s.rate.rttMs hlen hadv
  exact ⟨a1, a2, by rw [hs], hack, hadv⟩

/-- **C15 (8), replay of a whole ack frame is idempotent.** Delivering the same ack frame a second time
leaves the state reached after the first delivery unchanged — whatever the frame contains: after the
first delivery every group is dead (unknown frame, wrong nonce, or all claimed frames acknowledged;
culling the log at the window advance only removes entries), the frame window base is the current
one or was not acceptable, and likewise the packet window base. (`frames.length ≤ 2^32`: the log is
no longer than the id space; in every reachable state it is `< 2^31`, `C15_hc_replay_idempotent_inv`.) -/
theorem C15_hc_replay_idempotent (s s1 : State F) (fb pb : Nat) (acks : List AckGroup)
    (hlen : s.fq.frames.length ≤ 2^32) (h : handleAckFrame s fb pb acks = .ok s1) :
    handleAckFrame s1 fb pb acks = .ok s1 := by
  rw [handleAckFrame_char] at h
  obtain ⟨fq1, ps1, fq2, ps2, hfold, hadv, hack, rfl⟩ := ackC_ok s _ fb pb acks _ _ _ h
  obtain ⟨hle, _⟩ := ackGroups_sound s.rate.rttMs s.fq acks s.fq s.ps fq1 ps1 (LogLe.refl _) hfold
  have hlen1 : fq1.frames.length ≤ 2^32 := by rw [hle.len]; exact hlen
  have hdead1 := ackGroups_dead s.rate.rttMs acks s.fq s.ps fq1 ps1 hfold
  obtain ⟨hsub, _⟩ := atw_spec fq1 fq2 fb s.rate.rttMs hlen1 hadv
  have hdead2 : ∀ g ∈ acks, GroupDead fq2 g := fun g hg => (hdead1 g hg).sub hsub
  rw [handleAckFrame_char]
  exact ackC_intro ({ s with fq := fq2, ps := ps2 } : State F) fb pb acks _ _ _ fq2 fq2 ps2 ps2
    (ackGroups_noop s.rate.rttMs acks fq2 ps2 hdead2) (atw_idem fq1 fq2 fb s.rate.rttMs hlen1 hadv)
    (acknowledge_idem ps1 ps2 pb hack)

/-- (8) in every state satisfying the half-connection invariant, `handle_ack_frame` with ANY contents
returns (C03), and delivering the same frame again changes nothing. -/
theorem C15_hc_replay_idempotent_inv (s : State F) (fb pb : Nat) (acks : List AckGroup)
    (hi : HcInv.HcInv s) :
    ∃ s1, handleAckFrame s fb pb acks = .ok s1 ∧ handleAckFrame s1 fb pb acks = .ok s1 ∧
      HcInv.HcInv s1 := by
  obtain ⟨s1, h1, hi1, _⟩ := C03.C03_hc_handleAckFrame s fb pb acks hi
  have hlen : s.fq.frames.length ≤ 2^32 := by
    have := hi.fq.len_le
    have := hi.fq.ms
    have := hi.fq.small
    omega
  exact ⟨s1, h1, C15_hc_replay_idempotent s s1 fb pb acks hlen h1, hi1⟩

/-- (8) for runs: in every half-connection run within the API preconditions (`C03_hc_run_no_trap`), an ack
frame delivered twice in a row at the end of the run leaves the same state as delivered once. -/
theorem C15_hc_run_replay (ops : FloatOps F) (hconv : Rate.BisectConverges ops) (hloss : HcInv.LossOk ops)
    (cfg : Config) (now : Nat) (rng : Rng) (hc : HcInv.CfgOk cfg) (evs : List Credit.Ev)
    (hev : HcInv.evsOk now evs = true) (fb pb : Nat) (acks : List AckGroup) :
    ∃ s out s1, HcInv.runEvs ops (init ops cfg now rng) evs = .ok (s, out) ∧
      handleAckFrame s fb pb acks = .ok s1 ∧ handleAckFrame s1 fb pb acks = .ok s1 := by
  obtain ⟨s, out, hr, hi⟩ := C03.C03_hc_run_no_trap ops hconv hloss cfg now rng hc evs hev
  obtain ⟨s1, h1, h2, _⟩ := C15_hc_replay_idempotent_inv s fb pb acks hi
  exact ⟨s, out, s1, hr, h1, h2⟩

/-! ## Non-vacuity

`exOps`, `exS0` are those of `Uflow/Lemmas/CreditEx.lean`. -/

open Uflow.CreditEx Uflow.Credit
open Uflow.HcInv (runEvs)

/-- Two reliable packets (1 and 3 fragments), a first flush without send credit, a second one a second
later: frame 0 (sent first) has meanwhile been forgotten and its fragment re-sent. -/
def exHcPre : List Ev :=
  [.send (List.replicate 100 7) 0 .reliable, .send (List.replicate 3000 9) 1 .reliable, .step 0, .flush,
   .step 1000000000, .flush]

/-- The example state: the frame log holds frame 1 (nonce `false`, carrying fragment `(0, 0)`) and frame 2
(nonce `true`, carrying fragment `(1, 0)`), both unacknowledged; frame 0 is no longer logged; transfer
window base 0, `logNext = 3`; two packets in the send window (`baseId = 0`, `nextId = 2`). -/
def exHcAckState : State Nat :=
  match runEvs exOps exS0 exHcPre with
  | .ok (s, _) => s
  | .error _ => exS0

/-- names frame 0, which is not in the log any more -/
def exHcUnknown : AckGroup := { baseId := 0, bitfield := 1, nonce := true }
/-- claims frames 1 and 2 with the wrong nonce (`false`; the XOR of the frame nonces is `true`) -/
def exHcForged : AckGroup := { baseId := 1, bitfield := 3, nonce := false }
/-- claims frames 1 and 2 with the right nonce -/
def exHcGood : AckGroup := { baseId := 1, bitfield := 3, nonce := true }

example : exHcAckState.fq.logBase = 1 ∧ exHcAckState.fq.logNext = 3 ∧ exHcAckState.fq.winBase = 0 ∧
    exHcAckState.fq.frames.map (fun e => (e.refs, e.nonce, e.acked)) =
      [([(0, 0)], false, false), ([(1, 0)], true, false)] ∧
    exHcAckState.ps.baseId = 0 ∧ exHcAckState.ps.nextId = 2 ∧ exHcAckState.fq.ackData = none := by
  decide +kernel

theorem exHcUnknown_dead : GroupDead exHcAckState.fq exHcUnknown :=
  .inl ⟨0, by decide, by decide +kernel⟩

theorem exHcForged_dead : GroupDead exHcAckState.fq exHcForged :=
  .inr (.inl ⟨by unfold AllLogged; decide +kernel, by decide +kernel⟩)

theorem exHcGood_fresh : AckFresh exHcAckState.fq exHcGood := by
  refine ⟨⟨by unfold AllLogged; decide +kernel, by decide +kernel⟩, 0, ?_⟩
  have h : (getFrame exHcAckState.fq (wadd32 exHcGood.baseId 0)).map (·.acked) = some false := by
    decide +kernel
  cases hg : getFrame exHcAckState.fq (wadd32 exHcGood.baseId 0) with
  | none => rw [hg] at h; cases h
  | some e =>
    rw [hg] at h
    exact ⟨e, by decide, by decide, rfl, Option.some.inj h⟩

/-- (6): the hypotheses of `C15_hc_ack_frame_noop` hold for an ack frame made of the two dead groups, a
frame window base beyond the last frame sent and a packet window base that is not a packet id … -/
example : (∀ g ∈ [exHcUnknown, exHcForged], GroupDead exHcAckState.fq g) ∧
    (7 = exHcAckState.fq.winBase ∨
      wsub32 7 exHcAckState.fq.winBase > wsub32 exHcAckState.fq.logNext exHcAckState.fq.winBase) ∧
    ((2^20 + 5) % 2^32 % PACKET_ID_SPAN ≠ 2^20 + 5 ∨
      pidSub (2^20 + 5) exHcAckState.ps.baseId > pidSub exHcAckState.ps.nextId exHcAckState.ps.baseId ∨
      2^20 + 5 = exHcAckState.ps.baseId) := by
  refine ⟨?_, .inr (by decide +kernel), .inl (by decide)⟩
  intro g hg
  simp only [List.mem_cons, List.mem_nil_iff, or_false] at hg
  rcases hg with rfl | rfl
  · exact exHcUnknown_dead
  · exact exHcForged_dead

/-- … hence the frame is a no-op (by the theorem), … -/
example : handleAckFrame exHcAckState 7 (2^20 + 5) [exHcUnknown, exHcForged] = .ok exHcAckState := by
  refine C15_hc_ack_frame_noop _ _ _ _ ?_ (.inr (by decide +kernel)) (.inl (by decide))
  intro g hg
  simp only [List.mem_cons, List.mem_nil_iff, or_false] at hg
  rcases hg with rfl | rfl
  · exact exHcUnknown_dead
  · exact exHcForged_dead

/-- … also with the stale bases `fb = winBase = 0`, `pb = baseId = 0`; and, evaluating the model, the
sender-relevant components are indeed unchanged. -/
example : handleAckFrame exHcAckState 0 0 [exHcForged, exHcUnknown, exHcForged] = .ok exHcAckState ∧
    (match handleAckFrame exHcAckState 7 (2^20 + 5) [exHcUnknown, exHcForged] with
     | .ok s' => decide (s'.ps = exHcAckState.ps ∧ s'.fq = exHcAckState.fq ∧ s'.resend = exHcAckState.resend ∧
         s'.pending = exHcAckState.pending ∧ s'.flushAlloc = exHcAckState.flushAlloc)
     | .error _ => false) = true := by
  refine ⟨C15_hc_ack_frame_noop _ _ _ _ ?_ (.inl (by decide +kernel)) (.inr (.inr (by decide +kernel))),
    by decide +kernel⟩
  intro g hg
  simp only [List.mem_cons, List.mem_nil_iff, or_false] at hg
  rcases hg with rfl | rfl | rfl
  · exact exHcForged_dead
  · exact exHcUnknown_dead
  · exact exHcForged_dead

/-- (7): the genuine group IS fresh, so the no-op theorem does not apply to it; the frame
`[exHcUnknown, exHcGood]` with bases `fb = 3`, `pb = 1` is accepted: both log entries get marked, the
feedback accumulator is filled (`119 + 1472` bytes), the fragments `(0, 0)` and `(1, 0)` — exactly those
recorded in the two log entries — are marked acknowledged, the transfer window base moves to 3, the send
window base to 1; the resend queue, the pending queue and the credit are untouched. -/
example : AckFresh exHcAckState.fq exHcGood ∧
    (match handleAckFrame exHcAckState 3 1 [exHcUnknown, exHcGood] with
     | .ok s' => decide (s'.fq.frames.map (·.acked) = [true, true] ∧
         s'.fq.ackData.map (·.totalAckSize) = some (119 + 1472) ∧ s'.fq.winBase = 3 ∧
         s'.ps.baseId = 1 ∧ s'.ps.win.map (·.packet.acked) = [[0]] ∧
         s'.resend = exHcAckState.resend ∧ s'.pending = exHcAckState.pending ∧
         s'.flushAlloc = exHcAckState.flushAlloc)
     | .error _ => false) = true := ⟨exHcGood_fresh, by decide +kernel⟩

/-- (8): the hypothesis of `C15_hc_replay_idempotent` holds, and, evaluating the model, the second
delivery of the accepted frame changes nothing while the first one did. -/
example : exHcAckState.fq.frames.length ≤ 2^32 ∧
    (match handleAckFrame exHcAckState 3 1 [exHcUnknown, exHcGood] with
     | .ok s1 =>
       (match handleAckFrame s1 3 1 [exHcUnknown, exHcGood] with
        | .ok s2 => decide (s2.ps = s1.ps ∧ s2.fq = s1.fq ∧ s1.fq ≠ exHcAckState.fq ∧ s1.ps ≠ exHcAckState.ps)
        | .error _ => false)
     | .error _ => false) = true := ⟨by decide +kernel, by decide +kernel⟩

/-- The hypotheses of `C15_hc_run_replay` hold for the example run. -/
example : HcInv.CfgOk exCfg ∧ HcInv.evsOk 0 exHcPre = true := ⟨by decide, by decide +kernel⟩

end Uflow.Props.C15
