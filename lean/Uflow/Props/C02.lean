import Uflow.Model.HalfConn
import Uflow.Lemmas.PSendHistDemo

/-!
# C02 — parent leads, sender side (`packet_sender.rs`)

`emit_packet` stamps every packet with two 16-bit "parent leads": the distance (in sequence ids)
back to the most recent Reliable packet of the same channel (`channel_parent_lead`) and of any
channel (`window_parent_lead`) that is still in the transfer window; `0` means "no parent".
The sender keeps `window_parent_id` / `channels[c].parent_id` for this; `acknowledge` forgets a
parent when the window base moves past it.

The theorems are about all runs `PSend.runH` (see `Uflow/Props/C05.lean` for the ghost history).
-/

namespace Uflow.Props.C02

open Uflow Uflow.PSend
open Uflow.Props.C20 (Op)

/-- `pidSub` yields a 20-bit value. -/
theorem C02_pidSub_lt (a b : Nat) : pidSub a b < 2^20 := by
  unfold pidSub
  simp only [Uflow.Gen.PACKET_ID_SPAN]
  omega

/-- What the model computes (`= PSend.ParentLead`). `lead` is the parent lead, with respect to the
packets satisfying `P`, of the packet at emission position `i` of `em`, emitted when `out` packets
were outstanding (positions `i - out .. i - 1` were in the window): either none of the packets in
the window satisfies `P` and `lead = 0`, or `j` is the position of the most recent one that does
and `lead = (i - j) mod 2^16` (`as u16`). -/
def LeadIs (P : Emitted → Prop) (em : List Emitted) (i out lead : Nat) : Prop :=
  (lead = 0 ∧ ∀ j x, em[j]? = some x → j < i → i - j ≤ out → ¬ P x) ∨
  (∃ j x, em[j]? = some x ∧ j < i ∧ i - j ≤ out ∧ P x ∧
     (∀ k y, em[k]? = some y → j < k → k < i → ¬ P y) ∧ lead = (i - j) % 2^16)

/-- The same when the truncation cannot bite: `lead` is within the window, it is `0` exactly when no
packet in the window satisfies `P`, and otherwise the packet `lead` positions back satisfies `P`,
has sequence id `packet_id::sub(seq, lead)` (what the receiver reconstructs) and no later one
satisfies `P`. -/
def LeadExact (P : Emitted → Prop) (em : List Emitted) (i out seq lead : Nat) : Prop :=
  lead ≤ out ∧ lead ≤ i ∧
  (lead = 0 ↔ ∀ j x, em[j]? = some x → j < i → i - j ≤ out → ¬ P x) ∧
  (lead ≠ 0 → ∃ x, em[i - lead]? = some x ∧ P x ∧ x.sequenceId = pidSub seq lead ∧
    ∀ k y, em[k]? = some y → i - lead < k → k < i → ¬ P y)

/-- **Parent leads, exactly as the model computes them.** From `PacketSender::new(w, b, a)` with
`b < 2^20`, `w < 2^20`, for the packet `e` at emission position `i`:
`out = sub(e.sequence_id, base_id at emission)` is the number of packets outstanding at that time,
`out < w`, `out ≤ i`, the window base then was `add(b, i - out)` — so "still in the window" (id not
before the base) means emission position `≥ i - out` — and
* `window_parent_lead` is `LeadIs` for the Reliable packets,
* `channel_parent_lead` is `LeadIs` for the Reliable packets of `e`'s channel. -/
theorem C02_leads_correct (w b a : Nat) (hw : w < 2^20) (hb : b < 2^20) (ops : List Op)
    (s' : State) (h' : Hist) (h : runH (init w b a) {} ops = .ok (s', h')) :
    ∀ (i : Nat) (e : Emitted), h'.emitted[i]? = some e →
      pidSub e.sequenceId e.baseAt < w ∧ pidSub e.sequenceId e.baseAt ≤ i ∧
      e.baseAt = pidAdd b (i - pidSub e.sequenceId e.baseAt) ∧
      LeadIs (fun x => x.mode = .reliable) h'.emitted i (pidSub e.sequenceId e.baseAt)
        e.windowParentLead ∧
      LeadIs (fun x => x.mode = .reliable ∧ x.channelId = e.channelId) h'.emitted i
        (pidSub e.sequenceId e.baseAt) e.channelParentLead := by
  intro i e he
  have hi := hinv_run_init w b a hw hb ops s' h' h
  obtain ⟨h1, h2, h3, h4, h5⟩ := hi.leads i e he
  exact ⟨h3, h4, h5, h1, h2⟩

/-- **The 16-bit truncation never bites and `0` is unambiguous** when `w ≤ 2^16` (the library
asserts `w ≤ 4096`): both leads are `< w`, are `0` exactly when no Reliable packet (of the channel /
of any channel) is still in the window, and otherwise point exactly at the most recent such packet,
whose sequence id is `sub(e.sequence_id, lead)`. -/
theorem C02_leads_exact (w b a : Nat) (hw : w ≤ 2^16) (hb : b < 2^20) (ops : List Op)
    (s' : State) (h' : Hist) (h : runH (init w b a) {} ops = .ok (s', h')) :
    ∀ (i : Nat) (e : Emitted), h'.emitted[i]? = some e →
      pidSub e.sequenceId e.baseAt < w ∧
      LeadExact (fun x => x.mode = .reliable) h'.emitted i (pidSub e.sequenceId e.baseAt)
        e.sequenceId e.windowParentLead ∧
      LeadExact (fun x => x.mode = .reliable ∧ x.channelId = e.channelId) h'.emitted i
        (pidSub e.sequenceId e.baseAt) e.sequenceId e.channelParentLead := by
  intro i e he
  have hi := hinv_run_init w b a (by omega) hb ops s' h' h
  obtain ⟨h1, h2, h3, _, _⟩ := hi.leads i e he
  have hseq := (hi.ids i e he).2.1
  have key : ∀ (P : Emitted → Prop) (lead : Nat),
      ParentLead P h'.emitted i (pidSub e.sequenceId e.baseAt) lead →
      LeadExact P h'.emitted i (pidSub e.sequenceId e.baseAt) e.sequenceId lead := by
    intro P lead hp
    obtain ⟨a1, a2, a3, a4⟩ := hp.exact (by omega)
    refine ⟨a1, a2, a3, ?_⟩
    intro hne
    obtain ⟨x, hx, hpx, hk⟩ := a4 hne
    refine ⟨x, hx, hpx, ?_, hk⟩
    rw [(hi.ids _ x hx).2.1, hseq]
    have hl : lead < 2^16 := by omega
    simp only [pidAdd, pidSub, Uflow.Gen.PACKET_ID_SPAN]
    omega
  exact ⟨h3, key _ _ h1, key _ _ h2⟩

/-- Every emitted packet is on a valid channel (`< 64`; `emit_packet` indexes `channels[..]`). -/
theorem C02_emitted_channel_lt (w b a : Nat) (hw : w < 2^20) (hb : b < 2^20) (ops : List Op)
    (s' : State) (h' : Hist) (h : runH (init w b a) {} ops = .ok (s', h')) :
    ∀ (i : Nat) (e : Emitted), h'.emitted[i]? = some e → e.channelId < 64 := by
  intro i e he
  exact ((hinv_run_init w b a hw hb ops s' h' h).ids i e he).2.2

/-! ### non-vacuity -/

/-- `PSend.histOps` satisfies the hypotheses (window 8, base `2^20 - 3`). -/
example : ∃ s' h', runH (init 8 histBase 100000) {} histOps = .ok (s', h') ∧ (8 : Nat) ≤ 2^16 ∧
    histBase < 2^20 := by
  obtain ⟨s', h', h⟩ := histOps_ok
  exact ⟨s', h', h, by decide, by decide⟩

/-- Its leads (`PSend.histOps_run`): position 4 (channel 0, ids wrapped) has both leads 4 — parent
B at position 0; after `acknowledge` moved the base past B, position 5 has leads `0, 0` and position 6
(channel 0) has channel lead 0 although an earlier Reliable packet of channel 0 exists, and window
lead 1. -/
example :
    (match runH (init 8 histBase 100000) {} histOps with
     | .ok (_, h) =>
       h.emitted.map (fun e => (e.channelId, e.mode == .reliable, e.windowParentLead, e.channelParentLead,
           pidSub e.sequenceId e.baseAt)) ==
         [ (0, true, 0, 0, 0), (1, false, 1, 0, 1), (1, false, 2, 0, 2), (1, false, 3, 0, 3),
           (0, false, 4, 4, 4), (1, true, 0, 0, 4), (0, false, 1, 0, 5), (1, false, 2, 2, 6) ]
     | .error _ => false) = true := by decide +kernel

end Uflow.Props.C02
