import Uflow.Model.HalfConn
import Uflow.Lemmas.RateEx

/-!
# C14 — TFRC rate bounds of the sender (`Uflow/Model/Rate.lean`)

All theorems hold for EVERY `ops : FloatOps F` (no assumption on the float operations), every
`now` and every feedback value.

Vocabulary (defined in `Uflow/Lemmas/Rate*.lean`):
* `rttOf ops s fb` — the RTT after the feedback `fb` (`C14_rtt` pins it down:
  `ewma old sample`, or the first sample);
* `lossInc ops s fb = ops.gt fb.lossRate s.prevLossRate`;
* `ssTarget ops s fb ld` — `initLossRate rtt'` if slow start never doubled (`ld = none`), else
  `sendRate / 2`;
* `Event` / `run` — runs of `sent now | step now fb` events, aborted by the first trap;
* `EqnInv` — `mode = eqn tcp → setMax recvSet = ok recv →
  min (max (min tcp (max (satMul2 recv / 2) MINIMUM_RATE)) MINIMUM_RATE) maxSendRate ≤ sendRate`;
* `Narrows`, `BisectStuck`, `BisectClose` — the iterations / exit conditions of the bisection.

Model revision: the no-feedback expiry of the equation phase now floors the rate
(`sendRate := min (max (min tcp newLimit) MINIMUM_RATE) maxSendRate`), the repair of the finding
`C14_floor_witness_run_healthy` of the previous revision (rate 11 B/s reachable with well-behaved
float operations; reproduced on the Rust code).

FINDINGS (properties that are FALSE for the model as stated in the task; each has a `…_witness`):
* `C14_ceiling` needs `MINIMUM_RATE ≤ maxSendRate` (`C14_ceiling_witness`);
* `C14_floor` is still false on the two slow-start branches that assign `initRate rtt'`
  (`C14_floor_witness_first`, `C14_floor_witness_double`, reachable: `C14_floor_witness_run`);
  with `∀ rtt, MINIMUM_RATE ≤ ops.initRate rtt` it holds for every reachable state
  (`C14_floor_run`);
* `C14_nofb_monotone` is false for arbitrary equation-phase states (`C14_nofb_monotone_witness`);
  it holds for all states reachable from `init` (`C14_nofb_monotone_run`).
-/

namespace Uflow.Props.C14

open Uflow.Rate Uflow.Gen

variable {F : Type}

/-- `satMul2` (the model of `saturating_mul(2)`) never exceeds u32::MAX. -/
theorem C14_satMul2_le (x : Nat) : satMul2 x ≤ u32max := by
  unfold satMul2; omega

/-! ## 1. ceiling -/

/-- The ceiling as literally stated (`sendRate ≤ maxSendRate` preserved by every `step`) is FALSE:
with a ceiling below `MINIMUM_RATE` the no-feedback halving in slow start sets
`max (rate/2) MINIMUM_RATE = 23 > 10`. -/
theorem C14_ceiling_witness :
    ∃ (ops : FloatOps Nat) (s s' : State Nat) (now : Nat) (r : Option Nat),
      step ops s now none = .ok (s', r) ∧ s.sendRate ≤ s.maxSendRate ∧
      ¬ s'.sendRate ≤ s'.maxSendRate :=
  ⟨Ex.okOps, Ex.st (.slowStart none) 5 10 [⟨u32max, 0, true⟩] none, _, 0, _, rfl,
    by decide, by decide⟩

/-- **C14_ceiling** (true variant: the ceiling is at least `MINIMUM_RATE`). -/
theorem C14_ceiling (ops : FloatOps F) (s s' : State F) (now : Nat) (fb : Option (Feedback F))
    (r : Option F) (h : step ops s now fb = .ok (s', r)) (hc : s.sendRate ≤ s.maxSendRate)
    (hm : MINIMUM_RATE ≤ s.maxSendRate) :
    s'.sendRate ≤ s'.maxSendRate ∧ s'.maxSendRate = s.maxSendRate := by
  have hmx := step_maxSendRate h
  exact ⟨by rw [hmx]; exact step_ceiling h hc hm, hmx⟩

example : ∃ s' r, step Ex.okOps (Ex.st (.slowStart none) 5000 10000 [⟨u32max, 0, true⟩] none) 7
    (none : Option (Feedback Nat)) = .ok (s', r) ∧ s'.sendRate = 2500 := ⟨_, _, rfl, rfl⟩

/-- A processed feedback re-establishes the ceiling whatever the state was before. -/
theorem C14_ceiling_feedback (ops : FloatOps F) (s s' : State F) (now : Nat) (fb : Feedback F)
    (r : Option F) (h : step ops s now (some fb) = .ok (s', r)) (hm : s.mode ≠ .awaitSend) :
    s'.sendRate ≤ s'.maxSendRate ∧ s'.maxSendRate = s.maxSendRate := by
  have hmx := step_maxSendRate h
  refine ⟨?_, hmx⟩
  rw [hmx]
  cases step_ok_cases h with
  | idle _ hi =>
    rcases hi with hi | ⟨hi, _⟩
    · exact absurd hi hm
    · cases hi
  | feedback _ _ _ _ hf => exact handleFeedback_ceiling hf

/-- `notify_frame_sent` changes neither the rate nor the ceiling. -/
theorem C14_ceiling_sent (s : State F) (now : Nat) :
    (notifyFrameSent s now).sendRate = s.sendRate ∧
    (notifyFrameSent s now).maxSendRate = s.maxSendRate :=
  notifyFrameSent_sendRate s now

/-- **C14_ceiling over runs**: from `init ops m` with `MSS ≤ m` every reachable state has
`sendRate ≤ m` (and the ceiling is never changed). -/
theorem C14_ceiling_run (ops : FloatOps F) (m : Nat) (evs : List (Event F)) (s' : State F)
    (hm : MSS ≤ m) (h : run ops (init ops m) evs = .ok s') :
    s'.sendRate ≤ m ∧ s'.maxSendRate = m := by
  have key : s'.sendRate ≤ s'.maxSendRate ∧ s'.maxSendRate = m := by
    refine run_invariant (ops := ops) (fun s => s.sendRate ≤ s.maxSendRate ∧ s.maxSendRate = m)
      ?_ ⟨hm, rfl⟩ h
    intro s e s1 ⟨hc, hmax⟩ he
    rcases applyEvent_ok_cases he with ⟨now, rfl, rfl⟩ | ⟨now, fb, r, rfl, hst⟩
    · obtain ⟨h1, h2⟩ := notifyFrameSent_sendRate s now
      rw [h1, h2]
      exact ⟨hc, hmax⟩
    · have hmin : MINIMUM_RATE ≤ s.maxSendRate := by
        rw [hmax]; simp only [MSS] at hm; simp only [MINIMUM_RATE]; omega
      obtain ⟨h1, h2⟩ := C14_ceiling ops s s1 now fb r hst hc hmin
      exact ⟨h1, by rw [h2]; exact hmax⟩
  exact ⟨by rw [← key.2]; exact key.1, key.2⟩

example : ∃ s', run Ex.okOps (init Ex.okOps 3000)
    [.sent 0, .step 10 (some (Ex.fb 10 5000 0)), .step 30 (some (Ex.fb 10 5000 0))] = .ok s' ∧
    s'.sendRate = 3000 := ⟨_, rfl, rfl⟩

/-! ## 2. floor -/

/-- FALSE branch 1: the first feedback in slow start sets `sendRate := initRate rtt` (capped only
from above); with a long RTT `initRate` is below `MINIMUM_RATE`. -/
theorem C14_floor_witness_first :
    ∃ (ops : FloatOps Nat) (s s' : State Nat) (now : Nat) (fb : Feedback Nat) (r : Option Nat),
      step ops s now (some fb) = .ok (s', r) ∧ MINIMUM_RATE ≤ s.maxSendRate ∧
      MINIMUM_RATE ≤ s.sendRate ∧ s'.sendRate < MINIMUM_RATE :=
  ⟨Ex.smallInitOps, Ex.st (.slowStart none) 1472 100000 [⟨u32max, 0, true⟩] none, _, 10,
    Ex.fb 1000 5000 0, _, rfl, by decide, by decide, by decide⟩

/-- FALSE branch 2: doubling in slow start, `max (min (2·rate) recvLimit) (initRate rtt)` with a
receive limit of 0 and a small `initRate`. -/
theorem C14_floor_witness_double :
    ∃ (ops : FloatOps Nat) (s s' : State Nat) (now : Nat) (fb : Feedback Nat) (r : Option Nat),
      step ops s now (some fb) = .ok (s', r) ∧ MINIMUM_RATE ≤ s.maxSendRate ∧
      MINIMUM_RATE ≤ s.sendRate ∧ s'.sendRate < MINIMUM_RATE :=
  ⟨Ex.smallInitOps, Ex.st (.slowStart (some 0)) 1472 100000 [⟨u32max, 0, true⟩] (some 1000), _,
    5000, Ex.fb 1000 0 0, _, rfl, by decide, by decide, by decide⟩

/-- The violation is REACHABLE from `init`, and the hypothesis `∀ rtt, MINIMUM_RATE ≤ initRate rtt`
of `C14_floor_run` is NECESSARY even when the throughput equation (≥ 99) and the loss target (736)
are healthy: frame sent, first feedback with a long RTT sample: `sendRate := initRate rtt = 4`. -/
theorem C14_floor_witness_run :
    (∀ rtt p, p ≤ 1000 → MINIMUM_RATE ≤ Ex.smallInitOps.tcpRate rtt p) ∧
    (∀ rtt, MINIMUM_RATE ≤ Ex.smallInitOps.initLossRate rtt) ∧
    ∃ (evs : List (Event Nat)) (s' : State Nat),
      run Ex.smallInitOps (init Ex.smallInitOps 100000) evs = .ok s' ∧
      nondecreasing 0 evs = true ∧ MSS ≤ s'.maxSendRate ∧ s'.sendRate = 4 := by
  refine ⟨?_, ?_, ?_⟩
  · intro rtt p hp
    show 23 ≤ 100000 / (p + 1)
    exact (Nat.le_div_iff_mul_le (by omega)).mpr (by omega)
  · intro rtt
    exact show 23 ≤ 736 by decide
  · exact ⟨[.sent 0, .step 10 (some (Ex.fb 1000 5000 0))], _, rfl, by decide, by decide, rfl⟩

/-- **C14_floor_partial** — the strongest true single-step variant. The floor is kept by a
successful `step` provided the one remaining unfloored quantity is itself at least `MINIMUM_RATE`:
* `hinit`: on a feedback without loss increase in slow start that sets the rate (first feedback,
  or a doubling is due), `MINIMUM_RATE ≤ initRate rtt'`.
Nothing is assumed on any other branch (in particular the no-feedback expiry of the equation phase
now floors the rate). Missing w.r.t. the full statement: exactly this side condition, which the
witnesses above show to be necessary. -/
theorem C14_floor_partial (ops : FloatOps F) (s s' : State F) (now : Nat)
    (fb : Option (Feedback F)) (r : Option F) (h : step ops s now fb = .ok (s', r))
    (hmax : MINIMUM_RATE ≤ s.maxSendRate) (hrate : MINIMUM_RATE ≤ s.sendRate)
    (hinit : ∀ fb' ld, fb = some fb' → s.mode = .slowStart ld → lossInc ops s fb' = false →
      (∀ t, ld = some t → ops.sToMs (rttOf ops s fb') ≤ now - t) →
      MINIMUM_RATE ≤ ops.initRate (rttOf ops s fb')) :
    MINIMUM_RATE ≤ s'.sendRate := by
  simp only [MINIMUM_RATE] at *
  cases step_ok_cases h with
  | idle _ _ => exact hrate
  | feedback fb' _ _ _ hf =>
    obtain ⟨set, L, md, x, _, rfl, hb⟩ := handleFeedback_ok_cases hf
    show 23 ≤ min x s.maxSendRate
    cases hb with
    | eqn _ _ => simp only [MINIMUM_RATE]; omega
    | leave _ _ _ _ _ => simp only [MINIMUM_RATE]; omega
    | first hm hl =>
      have := hinit fb' none rfl hm hl (by intro t ht; cases ht)
      omega
    | double t hm hl _ hd =>
      have := hinit fb' (some t) rfl hm hl (by intro t' ht'; cases ht'; exact hd)
      omega
    | keep _ _ _ _ _ => omega
  | expired _ _ _ _ _ hn =>
    obtain ⟨s1, hb, rfl⟩ := nofeedbackExpired_ok_cases hn
    show 23 ≤ s1.sendRate
    cases hb with
    | keep _ => exact hrate
    | halve _ _ =>
      show 23 ≤ max (s.sendRate / 2) 23
      omega
    | limit tcp _ recv _ _ _ =>
      show 23 ≤ min (max (min tcp (max (min tcp (satMul2 recv) / 2) 23)) 23) s.maxSendRate
      omega

example : ∃ s' r, step Ex.okOps
    (Ex.st (.slowStart none) 1472 100000 [⟨u32max, 0, true⟩] none) 10
    (some (Ex.fb 10 5000 0)) = .ok (s', r) ∧ s'.sendRate = 4380 := ⟨_, _, rfl, rfl⟩

/-- floor, no feedback (any mode, in particular the expiry in the equation phase): unconditional. -/
theorem C14_floor_nofb (ops : FloatOps F) (s s' : State F) (now : Nat) (r : Option F)
    (h : step ops s now none = .ok (s', r))
    (hmax : MINIMUM_RATE ≤ s.maxSendRate) (hrate : MINIMUM_RATE ≤ s.sendRate) :
    MINIMUM_RATE ≤ s'.sendRate :=
  C14_floor_partial ops s s' now none r h hmax hrate (by intro _ _ h'; cases h')

example : ∃ s' r, step Ex.okOps (Ex.st (.slowStart none) 40 10000 [⟨u32max, 0, true⟩] none) 7
    (none : Option (Feedback Nat)) = .ok (s', r) ∧ s'.sendRate = 23 := ⟨_, _, rfl, rfl⟩

/-- the repaired branch: equation rate below the floor, the expiry yields the floor. -/
example : ∃ s' r, step Ex.okOps
    (Ex.st (.eqn 5) 23 100000 [⟨1000, 0, false⟩] (some 1000)) 10 none = .ok (s', r) ∧
    s'.sendRate = 23 := ⟨_, _, rfl, rfl⟩

/-- floor, feedback in the equation phase: unconditional. -/
theorem C14_floor_fb_eqn (ops : FloatOps F) (s s' : State F) (now : Nat) (fb : Feedback F)
    (r : Option F) (tcp : Nat) (h : step ops s now (some fb) = .ok (s', r)) (hm : s.mode = .eqn tcp)
    (hmax : MINIMUM_RATE ≤ s.maxSendRate) (hrate : MINIMUM_RATE ≤ s.sendRate) :
    MINIMUM_RATE ≤ s'.sendRate :=
  C14_floor_partial ops s s' now (some fb) r h hmax hrate
    (by intro _ ld _ h'; rw [hm] at h'; cases h')

example : ∃ s' r, step Ex.lowOps (Ex.st (.eqn 5000) 4000 100000 [⟨1000, 0, false⟩] (some 100)) 10
    (some (Ex.fb 100 0 0)) = .ok (s', r) ∧ s'.sendRate = 23 := ⟨_, _, rfl, rfl⟩

/-- floor, feedback reporting a loss increase (in slow start: slow start is left): unconditional. -/
theorem C14_floor_fb_leave (ops : FloatOps F) (s s' : State F) (now : Nat) (fb : Feedback F)
    (r : Option F) (h : step ops s now (some fb) = .ok (s', r)) (hl : lossInc ops s fb = true)
    (hmax : MINIMUM_RATE ≤ s.maxSendRate) (hrate : MINIMUM_RATE ≤ s.sendRate) :
    MINIMUM_RATE ≤ s'.sendRate :=
  C14_floor_partial ops s s' now (some fb) r h hmax hrate
    (by intro fb' _ hfb _ hl'; cases hfb; rw [hl] at hl'; cases hl')

example : ∃ s' r, step Ex.lowOps
    (Ex.st (.slowStart none) 1472 100000 [⟨u32max, 0, true⟩] none) 10
    (some (Ex.fb 1000 5000 500)) = .ok (s', r) ∧ s'.sendRate = 23 ∧ s'.mode = .eqn 0 :=
  ⟨_, _, rfl, rfl, rfl⟩

/-- **C14_floor over runs**: if the initial-rate expression never yields less than the floor, then
from `init ops m` with `MINIMUM_RATE ≤ m` every reachable state has `MINIMUM_RATE ≤ sendRate`.
Nothing is assumed on `tcpRate`, `initLossRate` or any other float operation, nor on the event
times. The hypothesis on `initRate` is necessary (`C14_floor_witness_run`). -/
theorem C14_floor_run (ops : FloatOps F) (m : Nat) (evs : List (Event F)) (s' : State F)
    (hm : MINIMUM_RATE ≤ m) (hinit : ∀ rtt, MINIMUM_RATE ≤ ops.initRate rtt)
    (h : run ops (init ops m) evs = .ok s') : MINIMUM_RATE ≤ s'.sendRate := by
  have key : MINIMUM_RATE ≤ s'.sendRate ∧ s'.maxSendRate = m := by
    refine run_invariant (ops := ops) (fun s => MINIMUM_RATE ≤ s.sendRate ∧ s.maxSendRate = m)
      ?_ ⟨show (23 : Nat) ≤ 1472 by decide, rfl⟩ h
    intro s e s1 hP he
    obtain ⟨hr, hmax⟩ := hP
    rcases applyEvent_ok_cases he with ⟨now, rfl, rfl⟩ | ⟨now, fb, r, rfl, hst⟩
    · obtain ⟨h1, h2⟩ := notifyFrameSent_sendRate s now
      rw [h1, h2]
      exact ⟨hr, hmax⟩
    · refine ⟨?_, by rw [step_maxSendRate hst]; exact hmax⟩
      exact C14_floor_partial ops s s1 now fb r hst (by rw [hmax]; exact hm) hr
        (fun fb' _ _ _ _ _ => hinit (rttOf ops s fb'))
  exact key.1

/-- Both bounds over runs: from `init ops m` with `MSS ≤ m` and a floored `initRate`, every
reachable state has `MINIMUM_RATE ≤ sendRate ≤ m`. -/
theorem C14_bounds_run (ops : FloatOps F) (m : Nat) (evs : List (Event F)) (s' : State F)
    (hm : MSS ≤ m) (hinit : ∀ rtt, MINIMUM_RATE ≤ ops.initRate rtt)
    (h : run ops (init ops m) evs = .ok s') :
    MINIMUM_RATE ≤ s'.sendRate ∧ s'.sendRate ≤ m ∧ s'.maxSendRate = m := by
  have hm' : MINIMUM_RATE ≤ m := by
    simp only [MSS] at hm; simp only [MINIMUM_RATE]; omega
  exact ⟨C14_floor_run ops m evs s' hm' hinit h, C14_ceiling_run ops m evs s' hm h⟩

/-- non-vacuity: `okOps` has a floored `initRate`; the run of the former finding (one feedback,
eight no-feedback halvings while sending, a loss report storing `eqn 11`, one more expiry) now ends
at the floor 23 instead of 11. -/
example : (∀ rtt, MINIMUM_RATE ≤ Ex.okOps.initRate rtt) ∧
    ∃ s', run Ex.okOps (init Ex.okOps 100000)
      [.sent 0, .step 10 (some (Ex.fb 10 5000 0)),
       .sent 20, .step 10000 none, .sent 10001, .step 20000 none, .sent 20001, .step 30000 none,
       .sent 30001, .step 50000 none, .sent 50001, .step 100000 none, .sent 100001,
       .step 200000 none, .sent 200001, .step 400000 none, .sent 400001, .step 800000 none,
       .sent 800001, .step 800010 (some (Ex.fb 10 5000 20)),
       .sent 800011, .step 2000000 none] = .ok s' ∧ s'.mode = .eqn 11 ∧ s'.sendRate = 23 :=
  ⟨fun _ => show 23 ≤ 4380 by decide, _, rfl, rfl, rfl⟩

/-! ## 3. no feedback never increases the rate -/

/-- The claim for ARBITRARY states is FALSE in the equation phase: the new rate
`min (max (min tcp newLimit) MINIMUM_RATE) maxSendRate` is computed from `tcp` and the receive-rate
set, not from the current rate. -/
theorem C14_nofb_monotone_witness :
    ∃ (ops : FloatOps Nat) (s s' : State Nat) (now : Nat) (r : Option Nat),
      step ops s now none = .ok (s', r) ∧ MINIMUM_RATE ≤ s.sendRate ∧
      s.sendRate ≤ s.maxSendRate ∧ s.sendRate < s'.sendRate :=
  ⟨Ex.okOps, Ex.st (.eqn 1000) 23 100000 [⟨1000, 0, false⟩] (some 100), _, 10, _, rfl,
    by decide, by decide, by decide⟩

/-- **C14_nofb_monotone** (true variant: `EqnInv s`, which holds in every state reachable from
`init`, see `C14_eqnInv_run`; in slow start it is not needed). A `step` without feedback never
increases the rate; in slow start the new rate is the old one or `max (rate/2) MINIMUM_RATE`; in
the equation phase `eqn tcp` the rate is unchanged or at most `max tcp MINIMUM_RATE` (and at most
the ceiling). -/
theorem C14_nofb_monotone (ops : FloatOps F) (s s' : State F) (now : Nat) (r : Option F)
    (h : step ops s now none = .ok (s', r)) (hrate : MINIMUM_RATE ≤ s.sendRate)
    (hinv : EqnInv s) :
    s'.sendRate ≤ s.sendRate ∧
    (∀ ld, s.mode = .slowStart ld →
      s'.sendRate = s.sendRate ∨ s'.sendRate = max (s.sendRate / 2) MINIMUM_RATE) ∧
    (∀ tcp, s.mode = .eqn tcp →
      s'.sendRate = s.sendRate ∨
      (s'.sendRate ≤ max tcp MINIMUM_RATE ∧ s'.sendRate ≤ s.maxSendRate)) := by
  cases step_ok_cases h with
  | idle _ _ => exact ⟨Nat.le_refl _, fun _ _ => Or.inl rfl, fun _ _ => Or.inl rfl⟩
  | expired _ _ _ _ _ hn =>
    obtain ⟨s1, hb, rfl⟩ := nofeedbackExpired_ok_cases hn
    show s1.sendRate ≤ s.sendRate ∧
      (∀ ld, s.mode = .slowStart ld →
        s1.sendRate = s.sendRate ∨ s1.sendRate = max (s.sendRate / 2) MINIMUM_RATE) ∧
      (∀ tcp, s.mode = .eqn tcp →
        s1.sendRate = s.sendRate ∨
        (s1.sendRate ≤ max tcp MINIMUM_RATE ∧ s1.sendRate ≤ s.maxSendRate))
    cases hb with
    | keep _ => exact ⟨Nat.le_refl _, fun _ _ => Or.inl rfl, fun _ _ => Or.inl rfl⟩
    | halve ld hm =>
      refine ⟨?_, fun _ _ => Or.inr rfl, ?_⟩
      · show max (s.sendRate / 2) MINIMUM_RATE ≤ s.sendRate
        simp only [MINIMUM_RATE] at *
        omega
      · intro tcp h'
        rw [hm] at h'
        cases h'
    | limit tcp rtt recv hm _ hs =>
      have hk := hinv tcp recv hm hs
      have hhalf : min tcp (satMul2 recv) / 2 ≤ satMul2 recv / 2 := by omega
      refine ⟨?_, ?_, ?_⟩
      · show min (max (min tcp (max (min tcp (satMul2 recv) / 2) MINIMUM_RATE)) MINIMUM_RATE)
          s.maxSendRate ≤ s.sendRate
        omega
      · intro ld h'
        rw [hm] at h'
        cases h'
      · intro tcp' h'
        rw [hm] at h'
        cases h'
        refine Or.inr ⟨?_, ?_⟩
        · show min (max (min tcp (max (min tcp (satMul2 recv) / 2) MINIMUM_RATE)) MINIMUM_RATE)
            s.maxSendRate ≤ max tcp MINIMUM_RATE
          omega
        · show min (max (min tcp (max (min tcp (satMul2 recv) / 2) MINIMUM_RATE)) MINIMUM_RATE)
            s.maxSendRate ≤ _
          omega

example : ∃ s' r, step Ex.okOps
    (Ex.st (.eqn 1000) 1000 100000 [⟨1000, 0, false⟩] (some 100)) 10 none = .ok (s', r) ∧
    EqnInv (Ex.st (.eqn 1000) 1000 100000 [⟨1000, 0, false⟩] (some 100)) ∧ s'.sendRate = 500 := by
  refine ⟨_, _, rfl, ?_, rfl⟩
  intro tcp recv hm hs
  change Mode.eqn 1000 = Mode.eqn tcp at hm
  change Except.ok 1000 = Except.ok recv at hs
  cases hm
  cases hs
  decide

/-- In the equation phase the bound `s'.sendRate ≤ tcp` of the original statement is FALSE (hence
`≤ max tcp MINIMUM_RATE` above): with `tcp` below the floor, the expiry recomputes the rate as
`max (min tcp newLimit) MINIMUM_RATE = 23 > 5`. The state satisfies `EqnInv` (it is the state
reached right after entering the equation phase) and the timer has expired. -/
theorem C14_nofb_eqn_le_tcp_witness :
    ∃ (ops : FloatOps Nat) (s s' : State Nat) (now tcp exp : Nat) (r : Option Nat),
      step ops s now none = .ok (s', r) ∧ s.mode = .eqn tcp ∧ EqnInv s ∧
      s.nofeedbackExp = some exp ∧ exp ≤ now ∧ s.nofeedbackIdle = false ∧
      MINIMUM_RATE ≤ s.sendRate ∧ ¬ s'.sendRate ≤ tcp := by
  refine ⟨Ex.okOps, Ex.st (.eqn 5) 23 100000 [⟨1000, 0, false⟩] (some 1000), _, 10, 5, 0,
    _, rfl, rfl, ?_, rfl, by decide, rfl, by decide, by decide⟩
  intro tcp recv hm hs
  change Mode.eqn 5 = Mode.eqn tcp at hm
  change Except.ok 1000 = Except.ok recv at hs
  cases hm
  cases hs
  decide

/-- `EqnInv` holds initially and is preserved by every event (no hypothesis at all). -/
theorem C14_eqnInv_step (ops : FloatOps F) (s s' : State F) (now : Nat) (fb : Option (Feedback F))
    (r : Option F) (hinv : EqnInv s) (h : step ops s now fb = .ok (s', r)) : EqnInv s' :=
  EqnInv_step hinv h

theorem C14_eqnInv_sent (s : State F) (now : Nat) (hinv : EqnInv s) :
    EqnInv (notifyFrameSent s now) :=
  EqnInv_sent hinv now

theorem C14_eqnInv_run (ops : FloatOps F) (m : Nat) (evs : List (Event F)) (s' : State F)
    (h : run ops (init ops m) evs = .ok s') : EqnInv s' :=
  run_EqnInv (EqnInv_init ops m) h

/-- **C14_nofb_monotone over runs**: in every state reachable from `init` (any ceiling, any
events) a `step` without feedback never increases a rate that is at least `MINIMUM_RATE`. -/
theorem C14_nofb_monotone_run (ops : FloatOps F) (m : Nat) (evs : List (Event F))
    (s s' : State F) (now : Nat) (r : Option F) (hs : run ops (init ops m) evs = .ok s)
    (h : step ops s now none = .ok (s', r)) (hrate : MINIMUM_RATE ≤ s.sendRate) :
    s'.sendRate ≤ s.sendRate :=
  (C14_nofb_monotone ops s s' now r h hrate (C14_eqnInv_run ops m evs s hs)).1

example : ∃ s s' r, run Ex.okOps (init Ex.okOps 100000)
      [.sent 0, .step 10 (some (Ex.fb 10 5000 0)), .step 30 (some (Ex.fb 10 9000 20))] = .ok s ∧
    step Ex.okOps s 100000 none = .ok (s', r) ∧ s.sendRate = 2190 ∧ s'.sendRate = 1095 :=
  ⟨_, _, _, rfl, rfl, rfl, rfl⟩

/-! ## 4. slow start -/

/-- **C14_slowstart**: a feedback in slow start that stays in slow start at most doubles the rate
(or sets it to `initRate rtt'`), capped by the ceiling; `reset_loss_rate` is not invoked. (The
doubling is `send_rate.saturating_mul(2)`, model `satMul2`, which is `≤ 2 * send_rate` and cannot
overflow; see `C03_rate_error_cases` for the absence of an overflow trap.) -/
theorem C14_slowstart (ops : FloatOps F) (s s' : State F) (now : Nat) (fb : Feedback F)
    (r : Option F) (ld ld' : Option Nat) (h : step ops s now (some fb) = .ok (s', r))
    (hm : s.mode = .slowStart ld) (hm' : s'.mode = .slowStart ld') :
    s'.sendRate ≤ min (max (2 * s.sendRate) (ops.initRate (rttOf ops s fb))) s.maxSendRate ∧
    r = none ∧ lossInc ops s fb = false := by
  cases step_ok_cases h with
  | idle _ hi =>
    rcases hi with hi | ⟨hi, _⟩
    · rw [hm] at hi; cases hi
    · cases hi
  | feedback _ _ _ _ hf =>
    obtain ⟨set, L, md, x, _, rfl, hb⟩ := handleFeedback_ok_cases hf
    change md = _ at hm'
    show min x s.maxSendRate ≤ _ ∧ _
    cases hb with
    | eqn _ _ => cases hm'
    | leave _ _ _ _ _ => cases hm'
    | first _ hl => exact ⟨by omega, rfl, hl⟩
    | double _ _ hl _ _ =>
      have := satMul2_le_two_mul s.sendRate
      exact ⟨by omega, rfl, hl⟩
    | keep _ _ hl _ _ => exact ⟨by omega, rfl, hl⟩

example : ∃ s' r, step Ex.okOps
    (Ex.st (.slowStart (some 0)) 5000 100000 [⟨u32max, 0, true⟩] (some 10)) 50
    (some (Ex.fb 10 9000 0)) = .ok (s', r) ∧ s'.mode = .slowStart (some 50) ∧ s'.sendRate = 10000 :=
  ⟨_, _, rfl, rfl, rfl⟩

/-! ## 5. equation phase -/

/-- **C14_eqn**: a feedback in the equation phase stores `tcp' = tcpRate rtt' fb.lossRate` and the
new rate is at most `max tcp' MINIMUM_RATE` (and at most the ceiling). -/
theorem C14_eqn (ops : FloatOps F) (s s' : State F) (now : Nat) (fb : Feedback F) (r : Option F)
    (t : Nat) (h : step ops s now (some fb) = .ok (s', r)) (hm : s.mode = .eqn t) :
    s'.mode = .eqn (ops.tcpRate (rttOf ops s fb) fb.lossRate) ∧
    s'.sendRate ≤ max (ops.tcpRate (rttOf ops s fb) fb.lossRate) MINIMUM_RATE ∧
    s'.sendRate ≤ s.maxSendRate ∧ r = none := by
  cases step_ok_cases h with
  | idle _ hi =>
    rcases hi with hi | ⟨hi, _⟩
    · rw [hm] at hi; cases hi
    · cases hi
  | feedback _ _ _ _ hf =>
    obtain ⟨set, L, md, x, _, rfl, hb⟩ := handleFeedback_ok_cases hf
    show md = _ ∧ min x s.maxSendRate ≤ _ ∧ min x s.maxSendRate ≤ _ ∧ _
    cases hb with
    | eqn _ _ => exact ⟨rfl, by omega, by omega, rfl⟩
    | leave _ _ hm2 _ _ => rw [hm] at hm2; cases hm2
    | first hm2 _ => rw [hm] at hm2; cases hm2
    | double _ hm2 _ _ _ => rw [hm] at hm2; cases hm2
    | keep _ hm2 _ _ _ => rw [hm] at hm2; cases hm2

example : ∃ s' r, step Ex.okOps (Ex.st (.eqn 5000) 4000 100000 [⟨1000, 0, false⟩] (some 100)) 10
    (some (Ex.fb 100 30000 9)) = .ok (s', r) ∧ s'.mode = .eqn 10000 ∧ s'.sendRate = 10000 :=
  ⟨_, _, rfl, rfl, rfl⟩

/-- **C14_eqn, entering the equation phase from slow start**: the stored rate is the target
(`initLossRate rtt'` if never doubled, else half the current rate), the new rate is at most
`max target MINIMUM_RATE`, and `reset_loss_rate` is called with the `p` returned by the bisection,
which satisfies the exact exit condition of `tcpInv` (see `C14_tcpInv_exact`). -/
theorem C14_eqn_enter (ops : FloatOps F) (s s' : State F) (now : Nat) (fb : Feedback F)
    (r : Option F) (ld : Option Nat) (target : Nat) (h : step ops s now (some fb) = .ok (s', r))
    (hm : s.mode = .slowStart ld) (hm' : s'.mode = .eqn target) :
    target = ssTarget ops s fb ld ∧ lossInc ops s fb = true ∧
    s'.sendRate ≤ max target MINIMUM_RATE ∧ s'.sendRate ≤ s.maxSendRate ∧
    ∃ p, r = some p ∧
      tcpInv ops (rttOf ops s fb) target bisectFuel ops.zero ops.one = .ok p ∧
      ∃ k a b, k < bisectFuel ∧ Narrows ops (rttOf ops s fb) target k ops.zero ops.one a b ∧
        p = ops.mid b a ∧ (BisectStuck ops a b ∨ BisectClose ops (rttOf ops s fb) target p) := by
  cases step_ok_cases h with
  | idle _ hi =>
    rcases hi with hi | ⟨hi, _⟩
    · rw [hm] at hi; cases hi
    · cases hi
  | feedback _ _ _ _ hf =>
    obtain ⟨set, L, md, x, _, rfl, hb⟩ := handleFeedback_ok_cases hf
    change md = _ at hm'
    show _ ∧ _ ∧ min x s.maxSendRate ≤ _ ∧ min x s.maxSendRate ≤ _ ∧ _
    cases hb with
    | eqn _ hm2 => rw [hm] at hm2; cases hm2
    | leave ld2 p hm2 hl hp =>
      rw [hm] at hm2
      cases hm2
      cases hm'
      exact ⟨rfl, hl, by omega, by omega, p, rfl, hp, (tcpInv_ok_iff _ _ _ _ _ _ _).mp hp⟩
    | first _ _ => cases hm'
    | double _ _ _ _ _ => cases hm'
    | keep _ _ _ _ _ => cases hm'

example : ∃ s' r, step Ex.okOps
    (Ex.st (.slowStart (some 0)) 20000 100000 [⟨u32max, 0, true⟩] (some 10)) 50
    (some (Ex.fb 10 30000 9)) = .ok (s', r) ∧ s'.mode = .eqn 10000 ∧ s'.sendRate = 10000 ∧
    r = some 9 := ⟨_, _, rfl, rfl, rfl, rfl⟩

/-- Slow start is left exactly on a loss increase: then `s'.mode = .eqn target`. -/
theorem C14_eqn_enter_of_loss (ops : FloatOps F) (s s' : State F) (now : Nat) (fb : Feedback F)
    (r : Option F) (ld : Option Nat) (h : step ops s now (some fb) = .ok (s', r))
    (hm : s.mode = .slowStart ld) (hl : lossInc ops s fb = true) :
    s'.mode = .eqn (ssTarget ops s fb ld) := by
  cases step_ok_cases h with
  | idle _ hi =>
    rcases hi with hi | ⟨hi, _⟩
    · rw [hm] at hi; cases hi
    · cases hi
  | feedback _ _ _ _ hf =>
    obtain ⟨set, L, md, x, _, rfl, hb⟩ := handleFeedback_ok_cases hf
    show md = _
    cases hb with
    | eqn _ hm2 => rw [hm] at hm2; cases hm2
    | leave ld2 p hm2 _ _ => rw [hm] at hm2; cases hm2; rfl
    | first _ hl2 => rw [hl] at hl2; cases hl2
    | double _ _ hl2 _ _ => rw [hl] at hl2; cases hl2
    | keep _ _ hl2 _ _ => rw [hl] at hl2; cases hl2

example : lossInc Ex.okOps
    (Ex.st (.slowStart (some 0)) 20000 100000 [⟨u32max, 0, true⟩] (some 10)) (Ex.fb 10 30000 9)
    = true := rfl

/-- **What `tcpInv` guarantees, exactly**: it returns `p` iff after `k < fuel` iterations that do
not return (each: bracket not stuck, midpoint rate not within 5 % of the target, continue with the
upper half if the rate is too high, the lower half if too low) a bracket `[a',b']` is reached
whose midpoint is `p` and either the bracket can not be narrowed (`feq p a' || feq p b'`) or
`tcpRate rtt p - target ≤ mul005 target ∧ target - tcpRate rtt p ≤ mul005 target`. -/
theorem C14_tcpInv_exact (ops : FloatOps F) (rtt : F) (target fuel : Nat) (a b p : F) :
    tcpInv ops rtt target fuel a b = .ok p ↔
      ∃ k a' b', k < fuel ∧ Narrows ops rtt target k a b a' b' ∧ p = ops.mid b' a' ∧
        ((ops.feq p a' || ops.feq p b') = true ∨
         (ops.tcpRate rtt p - target ≤ ops.mul005 target ∧
          target - ops.tcpRate rtt p ≤ ops.mul005 target)) := by
  rw [tcpInv_ok_iff]
  constructor
  · rintro ⟨k, a', b', hk, hn, rfl, hfin⟩
    exact ⟨k, a', b', hk, hn, rfl, hfin⟩
  · rintro ⟨k, a', b', hk, hn, rfl, hfin⟩
    exact ⟨k, a', b', hk, hn, rfl, hfin⟩

example : (tcpInv Ex.okOps 10 10000 bisectFuel 0 1000).toOption = some 9 := by decide +kernel

/-! ## 6. RTT -/

/-- **C14_rtt**: a processed feedback stores the EWMA of the old RTT and the sample (or the first
sample), in seconds and in milliseconds. -/
theorem C14_rtt (ops : FloatOps F) (s s' : State F) (now : Nat) (fb : Feedback F) (r : Option F)
    (h : step ops s now (some fb) = .ok (s', r)) (hm : s.mode ≠ .awaitSend) :
    s'.rttS = some (match s.rttS with
      | some r => ops.ewma r (ops.msToS fb.rttMs)
      | none => ops.msToS fb.rttMs) ∧
    s'.rttMs = some (ops.sToMs (match s.rttS with
      | some r => ops.ewma r (ops.msToS fb.rttMs)
      | none => ops.msToS fb.rttMs)) ∧
    s'.rttS = some (rttOf ops s fb) := by
  cases step_ok_cases h with
  | idle _ hi =>
    rcases hi with hi | ⟨hi, _⟩
    · exact absurd hi hm
    · cases hi
  | feedback _ _ _ _ hf =>
    obtain ⟨set, L, md, x, _, rfl, _⟩ := handleFeedback_ok_cases hf
    exact ⟨rfl, rfl, rfl⟩

example : ∃ s' r, step Ex.okOps (Ex.st (.eqn 5000) 4000 100000 [⟨1000, 0, false⟩] (some 100)) 10
    (some (Ex.fb 200 30000 9)) = .ok (s', r) ∧ s'.rttS = some 110 ∧ s'.rttMs = some 110 :=
  ⟨_, _, rfl, rfl, rfl⟩

end Uflow.Props.C14
