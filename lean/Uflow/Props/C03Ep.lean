import Uflow.Lemmas.EpNoTrapRun
import Uflow.Lemmas.EpNoTrapIso
import Uflow.Lemmas.EpNoTrapEx
import Uflow.Props.C03Hc

/-!
# C03 (endpoints) — no datagram from the network, no valid API call and no timing of `step()` makes a
`Server` or a `Client` panic or hang

Model: `Uflow.Endpoint` (`src/server/mod.rs`, `src/server/remote_client.rs`, `src/server/event_queue.rs`,
`src/client/mod.rs`) over an abstract half connection `HC H`. `R α = Except Trap α`; `.error t` stands
for a Rust panic, an arithmetic overflow, or a loop that does not end.

**Contract.** `HCOk hc Inv last` is what the endpoints need from a half connection: an invariant `Inv`
and a clock `last` such that `new` (for the configuration derived from the handshake, local nonce a
`u32`) establishes `Inv` with `last = now`; `dispatch` of ANY frame, `flush` (any rng), `receive`
return and keep `Inv` and `last`; `send` within the assertions of the public `send` keeps them; `step
now` with `last ≤ now` returns, keeps `Inv` and sets `last = now`. `C03_ep_hcOf_ok` discharges it for the
half-connection model `hcOf ops` (the driver's `hcInst`, see `Props/C03EpInst.lean`) with `HcInv` /
`lastNow` of `Props/C03Hc.lean`, for float operations satisfying `BisectConverges` and `LossOk`.

**Server invariant** `SrvInv Inv last lastNs s` (`lastNs` is a ghost: the `now` of the last `step`, 0
before the first; the `Server` does not record it):
* `Server.WF s` — identities and addresses unique, objects removed from the map are `Fin`, a pending
  entry carries a `u32` nonce and its SYN-ACK, timers name identities already handed out;
* every half connection `h` of a connection object in `Active` state (in the map `clients` or among the
  `detached` objects still referenced by `active_clients` / a timer) satisfies `Inv h` and
  `last h ≤ lastNs`; pending entries carry `localNonce < 2^32`;
* the timer heap `client_events` is a min-heap on `time` (`THeap`).

**Client invariant** `CInv Inv last lastNs c`: in `Active` state `Inv h ∧ last h ≤ lastNs`; in `Pending`
state the nonce is a `u32` and every queued initial send satisfies the assertions of `Client::send`.

**Hypotheses that remain** (witnesses at the end):
* `step(now)`: `now ≥` the `now` of the previous `step` of the same endpoint (`Instant` is monotone;
  `C03_server_clock_witness`, `C03_client_clock_witness`). The first `step` may have any time.
* `send`: `channel_id < CHANNEL_COUNT` (`C03_server_channel_witness`, `C03_client_channel_witness`) and
  `data.len() ≤ MAX_PACKET_SIZE` — both asserted by `RemoteClient::send` / `Client::send`
  (`data.len() <= max_packet_size`, and `EndpointConfig::is_valid` requires
  `max_packet_size <= MAX_PACKET_SIZE`; `Server::bind` / `Client::connect` assert `is_valid`).
* on the float operations: `BisectConverges ops`, `LossOk ops` (see `Props/C03Hc.lean`).
Nothing is assumed about arrivals: any addresses, any byte strings, any number of them.

"After a bounded amount of work": every model function is total — structural recursion over the
arrival list / the `active_clients` list, or fuel; a loop whose fuel runs out is `.error .hang` inside
the half connection, and for the one loop of the endpoints that stops silently at its fuel
(`Server.runTimers`) `C03_server_timers_complete` / `C03_server_timers_fuel_irrelevant` show the fuel is
never reached. So `= .ok _` means: returned, within the bound given by the fuel constants.

`Props/C03EpInst.lean` (`C03_ep_hcInst_eq`) identifies `hcOf floatOps` with the driver's `hcInst`.
-/

namespace Uflow.Props.C03

open Uflow Uflow.Gen Uflow.Codec Uflow.HalfConn Uflow.Endpoint Uflow.EpNoTrap Uflow.HcInv
open Uflow.Rate (FloatOps BisectConverges)

variable {H F : Type} {Inv : H → Prop} {last : H → Nat} {hc : HC H}

/-! ## The half-connection contract -/

/-- The half-connection model `hcOf ops` (the driver's `hcInst` for `ops = floatOps`) satisfies the
contract with the invariant `HcInv` and the clock `lastNow` of C03Hc: `HalfConnection::new` with the
endpoint configuration, the three frame handlers on arbitrary frames, `step` with a monotone clock,
`flush`, `receive` and `send` within its assertions never trap and keep `HcInv`. -/
theorem C03_ep_hcOf_ok (ops : FloatOps F) (hconv : BisectConverges ops) (hloss : LossOk ops) :
    HCOk (hcOf ops) HcInv lastNow :=
  hcOf_ok ops hconv hloss

/-! ## Server -/

/-- `Server::bind`: a fresh server satisfies the invariant, at any ghost time. -/
theorem C03_server_init (cfg : SrvConfig) (now : Nat) (rng : Rng) (T : Nat) :
    SrvInv Inv last T (Server.init cfg now rng : Server H) :=
  SrvInv.init cfg now rng T

/-- **`Server::step` never traps**: for ANY list of arrivals (arbitrary source addresses, arbitrary
byte strings — undecodable, truncated, or well-formed frames with arbitrary field values, from
connected, pending or unknown peers) and any `now ≥` the time of the previous `step`, `step` returns,
the invariant holds again (at time `now`), and no timer due at `now_ms` is left in the heap (the
`while` loop of `handle_events` ran to its end, cf. `C03_server_timers_complete`). -/
theorem C03_server_step_no_trap (hok : HCOk hc Inv last) {T : Nat} {s : Server H}
    (hi : SrvInv Inv last T s) (nowNs : Nat) (hclock : T ≤ nowNs) (arrivals : List (Nat × List Nat)) :
    ∃ s' sent evs, s.step hc nowNs arrivals = .ok (s', sent, evs) ∧ SrvInv Inv last nowNs s' ∧
      ∀ t ∈ s'.timers.toList, (nowNs - s.timeBase) / 1000000 < t.time :=
  srv_step_ok hok hi nowNs hclock arrivals

/-- `handle_frame` on ANY decoded frame from ANY address, at the time of the current step. -/
theorem C03_server_handleFrame_no_trap (hok : HCOk hc Inv last) {T : Nat} {s : Server H}
    (hi : SrvInv Inv last T s) (addr : Nat) (f : Frame) (nowMs : Nat) :
    ∃ s' sent, s.handleFrame hc addr f nowMs T = .ok (s', sent) ∧ SrvInv Inv last T s' :=
  srv_handleFrame_ok hok hi addr f nowMs

/-- `Server::flush` returns and keeps the invariant. -/
theorem C03_server_flush_no_trap (hok : HCOk hc Inv last) {T : Nat} {s : Server H}
    (hi : SrvInv Inv last T s) : ∃ s' sent, s.flush hc = .ok (s', sent) ∧ SrvInv Inv last T s' :=
  srv_flush_ok hok hi

/-- `RemoteClient::send` (total in the model) keeps the invariant under its two assertions
`data.len() <= max_packet_size (<= MAX_PACKET_SIZE)` and `channel_id < CHANNEL_COUNT`; any address. -/
theorem C03_server_send (hok : HCOk hc Inv last) {T : Nat} {s : Server H} (hi : SrvInv Inv last T s)
    (addr : Nat) (data : List Nat) (chan : Nat) (mode : SendMode) (hlen : data.length ≤ MAX_PACKET_SIZE)
    (hch : chan < CHANNEL_COUNT) : SrvInv Inv last T (s.send hc addr data chan mode) :=
  srv_send_inv hok hi addr data chan mode hlen hch

/-- `RemoteClient::disconnect` / `disconnect_now` keep the invariant; any address. -/
theorem C03_server_disconnect {T : Nat} {s : Server H} (hi : SrvInv Inv last T s) (addr : Nat)
    (m : DisconnectMode) : SrvInv Inv last T (s.disconnect addr m) :=
  srv_disconnect_inv hi addr m

/-- `Server::drop` keeps the invariant; any address. -/
theorem C03_server_drop {T : Nat} {s : Server H} (hi : SrvInv Inv last T s) (addr : Nat) :
    SrvInv Inv last T (s.drop addr) :=
  srv_drop_inv hi addr

/-- One API operation (`SOp`: `step` with time and arrivals, `flush`, `drop`, `disconnect`, `send`)
satisfying its side condition `sopOk` (`step`: clock not backwards; `send`: the two assertions). -/
theorem C03_server_apply_no_trap (hok : HCOk hc Inv last) {T : Nat} {s : Server H}
    (hi : SrvInv Inv last T s) (op : SOp) (hop : sopOk T op = true) :
    ∃ s' sent evs, s.apply hc op = .ok (s', sent, evs) ∧ SrvInv Inv last (sopTime T op) s' :=
  srv_apply_ok hok hi op hop

/-- Runs from any state satisfying the invariant. -/
theorem C03_server_run_from (hok : HCOk hc Inv last) {T : Nat} {s : Server H} (hi : SrvInv Inv last T s)
    (ops : List SOp) (hops : sopsOk T ops = true) :
    ∃ s' sent evs, runS hc s ops = .ok (s', sent, evs) ∧ SrvInv Inv last (sopsTime T ops) s' :=
  runS_ok hok ops hi hops

/-- **C03 for the server**, for any half connection satisfying the contract: from `Server::bind`,
EVERY sequence of operations whose step times are non-decreasing and whose `send`s satisfy the
assertions of `RemoteClient::send` (`sopsOk 0 ops`, a decidable check of the list) — with arbitrary
arrivals in every `step`, arbitrary addresses in every call, no bound on the length — runs to `.ok`,
and the invariant holds in the final state. -/
theorem C03_server_run_no_trap_of (hok : HCOk hc Inv last) (cfg : SrvConfig) (now : Nat) (rng : Rng)
    (ops : List SOp) (hops : sopsOk 0 ops = true) :
    ∃ s' sent evs, runS hc (Server.init cfg now rng) ops = .ok (s', sent, evs) ∧
      SrvInv Inv last (sopsTime 0 ops) s' :=
  runS_ok hok ops (SrvInv.init cfg now rng 0) hops

/-- **C03 for the server with the half-connection model**: the same for `hcOf ops`, for float
operations satisfying `BisectConverges` and `LossOk`. -/
theorem C03_server_run_no_trap (fops : FloatOps F) (hconv : BisectConverges fops) (hloss : LossOk fops)
    (cfg : SrvConfig) (now : Nat) (rng : Rng) (ops : List SOp) (hops : sopsOk 0 ops = true) :
    ∃ s' sent evs, runS (hcOf fops) (Server.init cfg now rng) ops = .ok (s', sent, evs) ∧
      SrvInv HcInv lastNow (sopsTime 0 ops) s' :=
  C03_server_run_no_trap_of (hcOf_ok fops hconv hloss) cfg now rng ops hops

/-- No trap of any kind. -/
theorem C03_server_run_no_trap_kind (fops : FloatOps F) (hconv : BisectConverges fops)
    (hloss : LossOk fops) (cfg : SrvConfig) (now : Nat) (rng : Rng) (ops : List SOp)
    (hops : sopsOk 0 ops = true) (t : Trap) :
    runS (hcOf fops) (Server.init cfg now rng) ops ≠ .error t := by
  obtain ⟨s', sent, evs, h, _⟩ := C03_server_run_no_trap fops hconv hloss cfg now rng ops hops
  rw [h]; intro hc; cases hc

/-! ### The timer loop really finishes -/

/-- **The fuel of `Server.runTimers` is never what stops the loop.** The model runs the
`while let Some(event) = self.client_events.peek()` loop of `handle_events` with fuel
`timers.size * 12 + 16` and stops silently when it runs out. On a min-heap, with this fuel, the loop
ends only because the heap is empty or its root is due after `now_ms`: afterwards NO timer with
`time ≤ now_ms` is left, and the heap order is kept. (Every iteration pops one due timer;
`handle_event` pushes at most one timer, due at `now_ms + 2000 > now_ms`, which the loop never pops
again: at most `timers.size` iterations.) -/
theorem C03_server_timers_complete (s : Server H) (nowMs : Nat) (sent : List (Nat × List Nat))
    (hheap : THeap s.timers) :
    THeap (Server.runTimers (s.timers.size * 12 + 16) s nowMs sent).1.timers ∧
    ∀ t ∈ (Server.runTimers (s.timers.size * 12 + 16) s nowMs sent).1.timers.toList, nowMs < t.time :=
  runTimers_complete nowMs _ s sent hheap (due_le_stepFuel nowMs s.timers)

/-- The result of the loop is the same for every fuel `≥` the number of timers (no heap order
needed): the bounded loop of the model IS the unbounded loop of the code. -/
theorem C03_server_timers_fuel_irrelevant (s : Server H) (nowMs : Nat) (sent : List (Nat × List Nat))
    (fuel : Nat) (hfuel : s.timers.size ≤ fuel) :
    Server.runTimers fuel s nowMs sent = Server.runTimers (s.timers.size * 12 + 16) s nowMs sent :=
  runTimers_fuel_irrelevant nowMs fuel _ s sent (Nat.le_trans (due_le_size nowMs s.timers) hfuel)
    (due_le_stepFuel nowMs s.timers)

/-- The heap order is needed for "no due timer is left": on the two-element array
`[time 10, time 1]` (not a heap) the loop at `now_ms = 5` looks at the root only and leaves the timer
due at 1 in place. (`THeap` is part of `SrvInv`: reachable heaps are heaps.) -/
theorem C03_server_timers_heap_witness :
    ¬ THeap Ex.exBadTimers ∧
    ∃ t ∈ (Server.runTimers (Ex.exBadTimers.size * 12 + 16)
        ({ (Server.init Ex.cfg0 0 ⟨[], 0⟩ : Server Unit) with timers := Ex.exBadTimers }) 5 []).1.timers.toList,
      t.time ≤ 5 := by
  decide

/-! ### The other connections are not affected -/

/-- **"keeps serving its other connections"**: `handle_frame` for a frame received from address `a`
(any frame; whether it is discarded, answered, or changes the connection of `a`) leaves the map entry
of every other address `b` untouched — same object, same state, same half connection — and every
datagram it sends goes to `a`. -/
theorem C03_server_frame_isolated (hc : HC H) {s : Server H} (hwf : s.WF) (a : Nat) (f : Frame)
    (nowMs nowNs : Nat) {s' : Server H} {sent : List (Nat × List Nat)}
    (hr : s.handleFrame hc a f nowMs nowNs = .ok (s', sent)) (b : Nat) (hb : b ≠ a) :
    s'.find b = s.find b ∧ ∀ x ∈ sent, x.1 = a :=
  handleFrame_isolated hc hwf a f nowMs nowNs hr b hb

/-- The same for the whole datagram loop `handle_frames`: whatever arrives (arbitrary bytes) from
addresses other than `b` leaves the entry of `b` untouched, and nothing is sent to `b`. -/
theorem C03_server_frames_isolated (hc : HC H) {s : Server H} (hwf : s.WF)
    (arrivals : List (Nat × List Nat)) (nowMs nowNs : Nat) {s' : Server H} {sent : List (Nat × List Nat)}
    (hr : s.handleFrames hc arrivals nowMs nowNs = .ok (s', sent)) (b : Nat)
    (hb : ∀ x ∈ arrivals, x.1 ≠ b) : s'.find b = s.find b ∧ ∀ x ∈ sent, x.1 ≠ b :=
  handleFrames_isolated hc hwf arrivals nowMs nowNs hr b hb

/-- **"Offending input is discarded"** (1): datagrams that do not decode — bad CRC, unknown frame
type, truncated, trailing bytes — change nothing and cause no reply, however many arrive. -/
theorem C03_server_junk_discarded (hc : HC H) (s : Server H) (arrivals : List (Nat × List Nat))
    (nowMs nowNs : Nat) (hjunk : ∀ a ∈ arrivals, decode (a.2.take MAX_FRAME_SIZE) = none) :
    s.handleFrames hc arrivals nowMs nowNs = .ok (s, []) :=
  handleFrames_junk hc s arrivals nowMs nowNs hjunk

/-- "Offending input is discarded" (2): any frame other than a SYN from an address that has no entry
in the map changes nothing and causes no reply. -/
theorem C03_server_unknown_discarded (hc : HC H) (s : Server H) (a : Nat) (f : Frame) (nowMs nowNs : Nat)
    (hf : s.find a = none) (hsyn : ∀ v n r p al, f ≠ .syn v n r p al) :
    s.handleFrame hc a f nowMs nowNs = .ok (s, []) :=
  handleFrame_unknown hc s a f nowMs nowNs hf hsyn

/-! ## Client -/

/-- `Client::connect` establishes the client invariant, at any ghost time. -/
theorem C03_client_connect (ep : EpConfig) (now : Nat) (rng : Rng) (T : Nat) :
    CInv Inv last T (Client.connect ep now rng : Client H × List (List Nat)).1 :=
  connect_inv ep now rng T

/-- **`Client::step` never traps**: for ANY list of arrivals (arbitrary byte strings) and any
`now ≥` the time of the previous `step`. -/
theorem C03_client_step_no_trap (hok : HCOk hc Inv last) {T : Nat} {c : Client H} (hi : CInv Inv last T c)
    (nowNs : Nat) (hclock : T ≤ nowNs) (arrivals : List (List Nat)) :
    ∃ c' sent evs, c.step hc nowNs arrivals = .ok (c', sent, evs) ∧ CInv Inv last nowNs c' :=
  cStep_ok hok hi nowNs hclock arrivals

/-- `handle_frame` of the client on ANY decoded frame. -/
theorem C03_client_handleFrame_no_trap (hok : HCOk hc Inv last) {T : Nat} {c : Client H}
    (hi : CInv Inv last T c) (f : Frame) (nowMs : Nat) :
    ∃ c' sent, c.handleFrame hc f nowMs T = .ok (c', sent) ∧ CInv Inv last T c' := by
  obtain ⟨⟨c', sent⟩, h, hi'⟩ := cHandleFrame_ok hok hi f nowMs
  exact ⟨c', sent, h, hi'⟩

/-- `Client::flush` returns and keeps the invariant. -/
theorem C03_client_flush_no_trap (hok : HCOk hc Inv last) {T : Nat} {c : Client H}
    (hi : CInv Inv last T c) : ∃ c' sent, c.flush hc = .ok (c', sent) ∧ CInv Inv last T c' := by
  obtain ⟨⟨c', sent⟩, h, hi'⟩ := cFlush_ok hok hi
  exact ⟨c', sent, h, hi'⟩

/-- `Client::send` under its two assertions keeps the invariant (in `Pending` state the packet is
queued and replayed on the new half connection when the SYN-ACK arrives). -/
theorem C03_client_send (hok : HCOk hc Inv last) {T : Nat} {c : Client H} (hi : CInv Inv last T c)
    (data : List Nat) (chan : Nat) (mode : SendMode) (hlen : data.length ≤ MAX_PACKET_SIZE)
    (hch : chan < CHANNEL_COUNT) : CInv Inv last T (c.send hc data chan mode) :=
  cSend_inv hok hi data chan mode hlen hch

/-- `Client::disconnect` / `disconnect_now` keep the invariant. -/
theorem C03_client_disconnect {T : Nat} {c : Client H} (hi : CInv Inv last T c) (m : DisconnectMode) :
    CInv Inv last T (c.disconnect m) :=
  cDisconnect_inv hi m

/-- Runs from any client state satisfying the invariant. -/
theorem C03_client_run_from (hok : HCOk hc Inv last) {T : Nat} {c : Client H} (hi : CInv Inv last T c)
    (ops : List COp) (hops : copsOk T ops = true) :
    ∃ c' sent evs, Client.run hc c ops = .ok (c', sent, evs) ∧ CInv Inv last (copsTime T ops) c' :=
  cli_run_ok hok ops hi hops

/-- **C03 for the client**, for any half connection satisfying the contract: from `Client::connect`,
every sequence of operations (`COp`: `step` with time and arrivals, `send`, `disconnect`, `flush`)
with non-decreasing step times and `send`s within the assertions of `Client::send` (`copsOk 0 ops`)
runs to `.ok`. -/
theorem C03_client_run_no_trap_of (hok : HCOk hc Inv last) (ep : EpConfig) (now : Nat) (rng : Rng)
    (ops : List COp) (hops : copsOk 0 ops = true) :
    ∃ c' sent evs, Client.run hc (Client.connect ep now rng).1 ops = .ok (c', sent, evs) ∧
      CInv Inv last (copsTime 0 ops) c' :=
  cli_run_ok hok ops (connect_inv ep now rng 0) hops

/-- **C03 for the client with the half-connection model.** -/
theorem C03_client_run_no_trap (fops : FloatOps F) (hconv : BisectConverges fops) (hloss : LossOk fops)
    (ep : EpConfig) (now : Nat) (rng : Rng) (ops : List COp) (hops : copsOk 0 ops = true) :
    ∃ c' sent evs, Client.run (hcOf fops) (Client.connect ep now rng).1 ops = .ok (c', sent, evs) ∧
      CInv HcInv lastNow (copsTime 0 ops) c' :=
  C03_client_run_no_trap_of (hcOf_ok fops hconv hloss) ep now rng ops hops

/-- No trap of any kind. -/
theorem C03_client_run_no_trap_kind (fops : FloatOps F) (hconv : BisectConverges fops)
    (hloss : LossOk fops) (ep : EpConfig) (now : Nat) (rng : Rng) (ops : List COp)
    (hops : copsOk 0 ops = true) (t : Trap) :
    Client.run (hcOf fops) (Client.connect ep now rng).1 ops ≠ .error t := by
  obtain ⟨c', sent, evs, h, _⟩ := C03_client_run_no_trap fops hconv hloss ep now rng ops hops
  rw [h]; intro hc; cases hc

/-! ## Non-vacuity

All on `Ex.hcN = hcOf exOps` (`exOps : FloatOps Nat`, windows 4096 as configured by the endpoints),
evaluated by the kernel (`Uflow/Lemmas/EpNoTrapEx.lean`). -/

open Uflow.EpNoTrap.Ex Uflow.CreditEx

-- the example operation lists contain payloads of 3000 bytes
set_option maxRecDepth 100000

/-- The contract is satisfiable: `exOps` satisfies both float hypotheses. -/
example : HCOk hcN HcInv lastNow := C03_ep_hcOf_ok _ exOps_converges exOps_lossOk

/-- `SrvInv` in a concrete non-trivial state: `exSrv2` has two active connections (addresses 7 and
8) whose half connections were created at 1 ms. It is the state `handle_frames` reaches from a fresh
server on the encoded SYN and handshake-ACK datagrams of the two clients. -/
theorem C03_server_example_state :
    SrvInv HcInv lastNow 1000000 exSrv2 ∧
    (∃ sent, exSrv0.handleFrames hcN exHandshake 1 1000000 = .ok (exSrv2, sent)) ∧
    exSrv2.clients.length = 2 ∧ exSrv2.active = [0, 1] ∧ exSrv2.activeCount = 2 :=
  ⟨exSrv2_from_bytes.1, exSrv2_from_bytes.2, by decide +kernel, by decide +kernel, by decide +kernel⟩

/-- The hostile frames of the example decode (they are well-formed frames with hostile field values,
not junk): a data frame whose datagram has `fragment_id = 7 > fragment_id_last = 3`, an ack frame
with packet base id `2^20 + 5`, a sync frame with packet id `2^31`. -/
example : (decode hostileData).isSome ∧ (decode hostileAck).isSome ∧ (decode hostileSync).isSome ∧
    decode (hostileData.take 10) = none := by decide +kernel

/-- The side condition of the example run holds … -/
example : sopsOk 1000000 exSrvOps = true := by decide +kernel

/-- … hence (by the theorem) it runs to `.ok` in a state satisfying the invariant … -/
example : ∃ s' sent evs, runS hcN exSrv2 exSrvOps = .ok (s', sent, evs) ∧
    SrvInv HcInv lastNow (sopsTime 1000000 exSrvOps) s' :=
  C03_server_run_from hcN_ok C03_server_example_state.1 exSrvOps (by decide +kernel)

/-- … and, evaluating the model, the run is not trivial: the valid packet of client 7 is delivered
although the hostile frames follow it in the same `step`; the events are `Connect 7`, `Connect 8`,
`Receive 7 [4,5,6]`, and (after the disconnect handshake with the silent peer) `Error 7 Timeout`; 4
datagrams are sent; in the end no connection and no timer is left. -/
theorem C03_server_example_run :
    (match runS hcN exSrv2 exSrvOps with
     | .ok (s, sent, evs) =>
       evs == [SEvent.connect 7, SEvent.connect 8, SEvent.receive 7 [4, 5, 6], SEvent.error 7 .timeout] &&
       sent.length == 4 && s.clients.length == 0 && s.timers.size == 0
     | .error _ => false) = true :=
  exSrvChk_true

/-- An instance of `C03_server_step_no_trap` on the concrete state: a step at 3 ms with hostile
datagrams. -/
example : ∃ s' sent evs, exSrv2.step hcN 3000000 [(7, hostileData), (9, [1, 2, 3]), (8, hostileAck)] =
    .ok (s', sent, evs) ∧ SrvInv HcInv lastNow 3000000 s' ∧ ∀ t ∈ s'.timers.toList, 3 < t.time :=
  C03_server_step_no_trap hcN_ok C03_server_example_state.1 3000000 (by decide) _

/-- An instance of `C03_server_frame_isolated`: the hostile data frame from 7 does not touch the
entry of 8. -/
example : ∃ s' sent, exSrv2.handleFrame hcN 7 (.data 5 true [dgBad]) 1 1000000 = .ok (s', sent) ∧
    s'.find 8 = exSrv2.find 8 := by
  obtain ⟨s', sent, h, _⟩ := C03_server_handleFrame_no_trap hcN_ok C03_server_example_state.1 7
    (.data 5 true [dgBad]) 1
  exact ⟨s', sent, h, (C03_server_frame_isolated hcN C03_server_example_state.1.wf 7 _ 1 1000000 h 8
    (by decide)).1⟩

/-- The heap hypothesis of `C03_server_timers_complete` is satisfiable by a non-empty heap. -/
example : THeap (tPush (tPush (tPush #[] ⟨0, .resendSynAck, 5, 1⟩) ⟨1, .closedTimeout, 3, 0⟩)
    ⟨2, .resendDisconnect, 4, 2⟩) := by decide

/-- `CInv` at a fresh client; the side condition of the client example run holds; by the theorem the
run is `.ok`. -/
example : CInv HcInv lastNow 0 exCli0 ∧ copsOk 0 exCliOps = true ∧
    ∃ c' sent evs, Client.run hcN exCli0 exCliOps = .ok (c', sent, evs) ∧
      CInv HcInv lastNow (copsTime 0 exCliOps) c' :=
  ⟨C03_client_connect ep0 0 _ 0, by decide +kernel,
   C03_client_run_no_trap exOps exOps_converges exOps_lossOk ep0 0 _ exCliOps (by decide +kernel)⟩

/-- The client run is not trivial: a send queued while pending, junk, a SYN-ACK with the wrong nonce
and the genuine SYN-ACK (all fed as bytes); then a valid packet followed by hostile data / ack / sync
frames, a truncated frame and a stale handshake error in one `step`: events `Connect`,
`Receive [4,5,6]`, `Error Timeout` (the server never answers the disconnect), 8 datagrams sent, final
state `Fin`. -/
theorem C03_client_example_run :
    (match Client.run hcN exCli0 exCliOps with
     | .ok (c, sent, evs) =>
       evs == [CEvent.connect, CEvent.receive [4, 5, 6], CEvent.error .timeout] && sent.length == 8 &&
       (match c.state with | .fin => true | _ => false)
     | .error _ => false) = true :=
  exCliChk_true

/-! ## Witnesses: the hypotheses cannot be dropped -/

/-- **A clock running backwards makes `Server::step` trap** (`now_ms - last_send_time` in the rate
controller's feedback, as in `C03_hc_clock_witness`): from the connected state, a step at 5 s, a
packet sent and flushed, and its genuine acknowledgement processed in a step whose time is 0. The same
script with the last step at 5 s runs to `.ok`. -/
theorem C03_server_clock_witness :
    runS hcN exSrv2 (exSrvClock 0) = .error .overflow ∧ sopsOk 1000000 (exSrvClock 0) = false ∧
    sopsOk 1000000 (exSrvClock 5000000000) = true ∧ ∃ r, runS hcN exSrv2 (exSrvClock 5000000000) = .ok r :=
  ⟨trapOfS_eq_some exSrvClock_back, by decide, by decide, isOkS exSrvClock_fwd⟩

/-- **A `send` on channel 64** (excluded by the assertion in `RemoteClient::send`) makes the next
`flush` index `channels[64]`. -/
theorem C03_server_channel_witness :
    runS hcN exSrv2 exSrvChan = .error .index ∧ sopsOk 1000000 exSrvChan = false :=
  ⟨trapOfS_eq_some exSrvChan_trap, by decide⟩

/-- The same two witnesses for the client. -/
theorem C03_client_clock_witness :
    Client.run hcN exCli0 (exCliClock 0) = .error .overflow ∧ copsOk 0 (exCliClock 0) = false ∧
    copsOk 0 (exCliClock 5000000000) = true ∧ trapOfC (Client.run hcN exCli0 (exCliClock 5000000000)) = none :=
  ⟨trapOfC_eq_some exCliClock_back, by decide, by decide, exCliClock_fwd⟩

theorem C03_client_channel_witness :
    Client.run hcN exCli0 exCliChan = .error .index ∧ copsOk 0 exCliChan = false :=
  ⟨trapOfC_eq_some exCliChan_trap, by decide⟩

end Uflow.Props.C03
