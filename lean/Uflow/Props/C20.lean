import Uflow.Lemmas.PSend

/-!
# C20 — send_buffer_size() is exact and returns to zero

Model: `Uflow.PSend` (`packet_sender.rs`); `send_buffer_size()` is `State.totalSize`.
The sender is driven by an arbitrary sequence of the four operations the half connection
performs on it: `enqueue_packet`, `emit_packet(flush_id)`, `acknowledge(receiver_base_id)`
(with an arbitrary — possibly forged — base id) and `acknowledge_fragment`.
-/

namespace Uflow.Props.C20

open Uflow Uflow.PSend

inductive Op where
  | enq (data : List Nat) (chan : Nat) (mode : SendMode) (flushId : Nat)
  | emit (flushId : Nat)
  | ack (receiverBase : Nat)
  | ackFrag (uid fid : Nat)

def stepOp (s : State) : Op → R State
  | .enq d c m f => .ok (enqueue s d c m f)
  | .emit f => (emit s f).map (·.1)
  | .ack rb => acknowledge s rb
  | .ackFrag u f => .ok (ackFragment s u f)

/-- Runs the operations left to right; a trap ends the run. -/
def run (s : State) : List Op → R State
  | [] => .ok s
  | op :: rest =>
    match stepOp s op with
    | .error t => .error t
    | .ok s' => run s' rest

theorem stepOp_inv (s : State) (op : Op) (h : Inv s) : ∀ s', stepOp s op = .ok s' → Inv s' := by
  intro s' he
  cases op with
  | enq d c m f => simp only [stepOp, Except.ok.injEq] at he; subst he; exact inv_enqueue s d c m f h
  | emit f =>
    simp only [stepOp] at he
    cases hr : emit s f with
    | error t => rw [hr] at he; simp [Except.map] at he
    | ok p =>
      rw [hr] at he
      simp only [Except.map, Except.ok.injEq] at he
      subst he
      exact inv_emit s f h p.1 p.2 (by rw [hr])
  | ack rb => exact inv_acknowledge s rb h s' he
  | ackFrag u f => simp only [stepOp, Except.ok.injEq] at he; subst he; exact inv_ackFragment s u f h

theorem stepOp_no_overflow (s : State) (op : Op) (h : Inv s) : stepOp s op ≠ .error .overflow := by
  cases op with
  | enq d c m f => simp [stepOp]
  | emit f =>
    simp only [stepOp]
    cases hr : emit s f with
    | error t =>
      simp only [Except.map]
      intro hc
      have := emit_no_overflow s f h
      rw [hr] at this
      simp only [Except.error.injEq] at hc
      exact this (by rw [hc])
    | ok p => simp [Except.map]
  | ack rb => exact acknowledge_no_overflow s rb h
  | ackFrag u f => simp [stepOp]

/-- **Exactness**: after any sequence of sender operations (any sizes, modes, flush ids, stalls,
any acknowledged base ids, genuine or not) that the sender survives, `send_buffer_size()` equals
the payload bytes still queued plus the payload bytes of the packets in the send window — i.e.
accepted and neither acknowledged nor dropped as stale — and the allocation counter equals the
fragment-rounded bytes of the window. -/
theorem C20_inv (w b a : Nat) (ops : List Op) :
    ∀ s', run (init w b a) ops = .ok s' →
      s'.totalSize = qBytes s'.queue + wBytes s'.win ∧ s'.alloc = wAlloc s'.win := by
  suffices H : ∀ (s : State), Inv s → ∀ s', run s ops = .ok s' → Inv s' from H _ (inv_init w b a)
  induction ops with
  | nil => intro s h s' he; simp only [run, Except.ok.injEq] at he; subst he; exact h
  | cons op rest ih =>
    intro s h s' he
    simp only [run] at he
    cases hs : stepOp s op with
    | error t => rw [hs] at he; exact absurd he (by simp)
    | ok s1 => rw [hs] at he; exact ih s1 (stepOp_inv s op h s1 hs) s' he

/-- **Never underflows**: no reachable state lets a counter subtraction go below zero. -/
theorem C20_no_underflow (w b a : Nat) (ops : List Op) : run (init w b a) ops ≠ .error .overflow := by
  suffices H : ∀ (s : State), Inv s → run s ops ≠ .error .overflow from H _ (inv_init w b a)
  induction ops with
  | nil => intro s _; simp [run]
  | cons op rest ih =>
    intro s h
    simp only [run]
    cases hs : stepOp s op with
    | error t =>
      simp only
      intro hc
      have := stepOp_no_overflow s op h
      rw [hs] at this
      simp only [Except.error.injEq] at hc
      exact this (by rw [hc])
    | ok s1 => exact ih s1 (stepOp_inv s op h s1 hs)

/-- **Returns to zero**: nothing queued and nothing unacknowledged means a buffer size of zero. -/
theorem C20_zero (w b a : Nat) (ops : List Op) (s' : State) (h : run (init w b a) ops = .ok s')
    (hq : s'.queue = []) (hw : s'.win = []) : s'.totalSize = 0 := by
  have := (C20_inv w b a ops s' h).1
  simp [hq, hw, qBytes, wBytes] at this
  exact this

/-! ### non-vacuity: a run with a TimeSensitive drop, a window stall and two acks -/

def demoOps : List Op :=
  [ .enq [1, 2, 3] 0 .timeSensitive 0, .enq (List.replicate 2000 7) 1 .reliable 0, .enq [9] 1 .unreliable 1,
    .emit 1, .emit 1, .emit 1, .ack 6, .ack 7 ]

example : (match run (init 2 5 10000) demoOps with
    | .ok s => s.totalSize == 0 && s.baseId == 7 && s.win.isEmpty
    | .error _ => false) = true := by decide +kernel

end Uflow.Props.C20
