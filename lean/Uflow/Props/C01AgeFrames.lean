import Uflow.Lemmas.HcAgeLink
import Uflow.Props.C01Age

/-!
# C01AgeFrames — the frame-count form of the age hypothesis: a NEGATIVE result

`Props/C01Age.lean` discharges the schedule hypothesis `Guarded` from the network hypothesis
`HcAge.AgeOk` (a frame is delivered only while at most `D` PACKETS were emitted since it was sent), and
reduces the frame-count form ("at most `Dfr` DATA frames were sent since") to the link `HcAge.LinkOp`:
"since the `flush` that emitted frame `k` returned, `A` has emitted at most `127 × (data frames sent
after frame k) + 1` packets" (`C01_hc_guarded_of_frame_age_partial`). The task of this file was to prove
`LinkOp` for every reachable state. **It is false**, and with it the idea that the number of DATA frames
sent bounds the number of packet ids consumed:

* `C01_hc_link_fails_witness` — a `Guarded` run under `SyncCfg`, no frame id reused: after the only data
  frame of the run (stamp 1) `A` emits four more packets — five sequence ids consumed — and NO further
  frame of any kind; `LinkOp` fails at `deliverAB 0` (`5 ≤ 1 + 127·0 + 1` is false) while the
  frame-count age condition `FrameAgeOp 0` holds. The four packets are TimeSensitive, sit in `A`'s send
  window, and not one byte of them was ever transmitted.
* `C01_hc_ids_consumed_without_data_frames_witness` — the cycle closes: a sync frame (not a data frame)
  moves `B`'s receive window base past the four untransmitted packets (`advB` 1 → 5), the
  acknowledgement empties `A`'s send window, `is_send_pending() = false`, all queues are empty — the
  state from which the same cycle can run again — and still `framesAfter wireAB 0 = 0`. The run,
  extended by a late delivery of frame 0, is `Guarded`.
* `C01_hc_full_window_without_data_frames_witness` — the same cycle with sixteen rounds, the FULL send
  window of the example configuration: `advB` 1 → 17 for one sync frame and zero data frames.

The mechanism is the third drop case of `pendingInner` (`emit.rs`: a TimeSensitive packet none of which
was sent in the flush it was queued for is dropped from the pending queue), together with the fact that
`emit_packet` assigns the sequence id BEFORE the flush allocation is consulted (`Wire.refill` only tests
`pending.isEmpty`): under bandwidth starvation every `flush` consumes one packet id and sends nothing
(`Lemmas/HcAgeLink.lean`). Route (a) of the task ("the drop is impossible for a never-transmitted
fragment") fails for this third case; it was not needed to examine the other two.

## Consequences
* The unconditional theorem "`Guarded` if at most `Dfr` DATA frames were appended to `wireAB` after frame
  `k` at every `deliverAB k`" is NOT provable by bounding the packets emitted, and is false in the
  limit: each cycle of the second witness advances `B`'s base by up to `w` ids (a full send window of
  untransmitted TimeSensitive packets) at the price of ONE sync frame and zero data frames, so after
  about `2^20 / w` cycles the old data frame 0 is `2^20` ids old, `FreshDg` fails for it, and
  `handle_datagram` would accept its datagram as a new packet. (A kernel-checked witness of the limit
  would need `2^20` packets; what IS checked is one full cycle returning to an idle state.)
* A correct frame-count hypothesis has to count the SYNC frames as well and pay `w` ids per sync frame:
  the conjectured bound is `pend.length ≤ wireT[k] + 127·(data frames after k) + w·(sync frames with a
  packet id after k) + w`. It is not proved here; it needs the receiver-side fact that `B`'s base passes
  a never-transmitted packet only through `resynchronize`, and an accounting of `dfePush` calls through
  `flush`.
* What stands unconditionally is the packet-stamp form: `C01_hc_guarded_of_age`, `C01_hc_delivery_aged`
  (`Props/C01Age.lean`). Both witness runs satisfy its hypothesis with `D = 4` (`AgeOk`), so they are
  covered by it; `C01_hc_guarded_of_frame_age_partial` remains true as stated (its hypothesis `LinkOp`
  simply fails on such runs).
-/

namespace Uflow.Props.C01

open Uflow Uflow.Gen Uflow.Codec Uflow.HalfConn Uflow.PSend Uflow.HcSys Uflow.HcAge
open Uflow.Rate (FloatOps)
open Uflow.HcFrm (IdsNodup)

/-- **`LinkOp` is not an invariant.** The run `HcAge.linkWitSched` from two fresh half connections with
the example configuration (`SyncCfg … 4`): `A` sends Reliable `[1]` (frame 0, stamp 1: one packet
emitted), then four times: the application submits a 1400-byte TimeSensitive packet, `A.flush` gives it a
sequence id (`PSend.emit`) but transmits nothing (flush allocation exhausted), `A.step` at the same time
starts the next flush (the packet expires). In the final state
* five packets have been emitted (modes Reliable, 4 × TimeSensitive), all five are in `A`'s send window;
* `wireAB` holds ONE frame, `wireT = [1]`: zero data frames after frame 0;
* `LinkOp` fails at `deliverAB 0`, although the data-frame-count age condition `FrameAgeOp 0 D` holds
  there; the packet age of frame 0 is exactly 4 (`AgeOp 4` holds, `AgeOp 3` fails);
* nothing was ever handed to `B` (`outs = []`, `fed = []`).
The run extended by `deliverAB 0` is `Guarded` and reuses no frame id. -/
theorem C01_hc_link_fails_witness :
    guardedB CreditEx.exOps hcExPair (linkWitSched ++ [.deliverAB 0]) = true ∧
    (match runG CreditEx.exOps (aged0 hcExPair) linkWitSched with
     | .ok x =>
       decide (x.h.pend.length = 5 ∧ x.h.wireT = [1] ∧ x.h.wireAB.length = 1 ∧ framesAfter x.h.wireAB 0 = 0 ∧
         x.h.A.ps.win.length = 5 ∧ x.h.outs = [] ∧ x.h.fed = [] ∧ IdsNodup x.h.wireAB ∧
         x.h.em.map Emitted.mode =
           [.reliable, .timeSensitive, .timeSensitive, .timeSensitive, .timeSensitive]) &&
       decide (¬ LinkOp x (.deliverAB 0)) && decide (FrameAgeOp 0 (2^18) x (.deliverAB 0)) &&
       decide (AgeOp 4 x (.deliverAB 0)) && decide (¬ AgeOp 3 x (.deliverAB 0))
     | .error _ => false) = true := by
  refine ⟨by decide +kernel, by decide +kernel⟩

/-- **Packet ids are consumed, and `B`'s window base moves, without any data frame.** The run
`HcAge.cycleSched`: frame 0 (Reliable `[1]`) is delivered, received, acknowledged (`advB = 1`, `A`'s send
window empty). Four rounds as in `C01_hc_link_fails_witness` consume the ids 1 … 4 with no frame. Five
seconds later `A.flush` (pending and resend queues empty) emits a SYNC frame carrying
`next_packet_id = 5`, recorded as `(5, 5)` in `syncs`; it is delivered; `B` resynchronizes: its base moves
from 1 to 5 past four packets of which no byte was transmitted; `B` acknowledges, `A`'s send window is
empty again and `A.is_send_pending() = false`. In the final state five packets have been emitted, `B`'s
application has received only `[1]`, `wireAB` holds the data frame 0 and the sync frame (stamps 1, 5), and
zero data frames were sent after frame 0; `LinkOp` fails at `deliverAB 0`. The run extended by a late
`deliverAB 0` is `Guarded` and reuses no frame id. The final state is idle, so the cycle can be repeated:
the number of data frames sent after frame 0 does not bound how far `B`'s base is ahead of it. -/
theorem C01_hc_ids_consumed_without_data_frames_witness :
    guardedB CreditEx.exOps hcExPair (cycleSched ++ [.deliverAB 0]) = true ∧
    (match runG CreditEx.exOps (aged0 hcExPair) cycleSched with
     | .ok x =>
       decide (x.h.pend.length = 5 ∧ x.h.advB = 5 ∧ x.h.wireT = [1, 5] ∧ framesAfter x.h.wireAB 0 = 0 ∧
         x.h.syncs = [(5, 5)] ∧ x.h.outs = [[1]] ∧ x.h.A.ps.win.length = 0 ∧ x.h.A.ps.queue.length = 0 ∧
         IdsNodup x.h.wireAB ∧
         x.h.em.map Emitted.mode =
           [.reliable, .timeSensitive, .timeSensitive, .timeSensitive, .timeSensitive]) &&
       !isSendPending x.h.A && decide (¬ LinkOp x (.deliverAB 0)) &&
       decide (FrameAgeOp 0 (2^18) x (.deliverAB 0))
     | .error _ => false) = true := by
  refine ⟨by decide +kernel, by decide +kernel⟩

/-- Both witness runs are within the scope of the theorems of `Props/C01Hc.lean` and `Props/C01Age.lean`:
`SyncCfg` holds for the configuration, the schedules (extended by the late `deliverAB 0`) are `Guarded`,
they satisfy the packet-stamp hypothesis `AgeOk` with `D = 4` — and violate it with `D = 3`, so the age
they measure is real — while the frame-count hypothesis `FrameAgeOk` (which includes `LinkOp`) fails for
them whatever `Dfr` is chosen as small as `0` … the failure is the link, not the frame count. -/
theorem C01_hc_link_witness_hyps :
    SyncCfg CreditEx.exCfg CreditEx.exCfg 4 ∧
    Guarded CreditEx.exOps hcExPair (linkWitSched ++ [.deliverAB 0]) ∧
    Guarded CreditEx.exOps hcExPair (cycleSched ++ [.deliverAB 0]) ∧
    AgeOk CreditEx.exOps 4 (aged0 hcExPair) (linkWitSched ++ [.deliverAB 0]) ∧
    AgeOk CreditEx.exOps 4 (aged0 hcExPair) (cycleSched ++ [.deliverAB 0]) ∧
    ageOkB CreditEx.exOps 3 (aged0 hcExPair) (linkWitSched ++ [.deliverAB 0]) = false ∧
    frameAgeOkB CreditEx.exOps 0 (2^18) (aged0 hcExPair) (linkWitSched ++ [.deliverAB 0]) = false ∧
    frameAgeOkB CreditEx.exOps 2064 (2^18) (aged0 hcExPair) (linkWitSched ++ [.deliverAB 0]) = false ∧
    frameAgeOkB CreditEx.exOps 2064 (2^18) (aged0 hcExPair) (cycleSched ++ [.deliverAB 0]) = false :=
  ⟨C01_hc_sync_example_hyps.1,
   C01_hc_guarded_checker _ _ _ C01_hc_link_fails_witness.1,
   C01_hc_guarded_checker _ _ _ C01_hc_ids_consumed_without_data_frames_witness.1,
   C01_hc_age_checker _ _ _ _ (by decide +kernel), C01_hc_age_checker _ _ _ _ (by decide +kernel),
   by decide +kernel, by decide +kernel, by decide +kernel, by decide +kernel⟩

/-- The same cycle with a FULL send window: sixteen rounds (the send window of the example configuration
is 16) consume the ids 1 … 16; the sync frame carries `next_packet_id = 17`; `B`'s base moves from 1 to
17, `A`'s send window empties, `A` is idle — and not a single data frame was sent after frame 0. One sync
frame pays for `w` packet ids. The run extended by a late `deliverAB 0` is `Guarded`. -/
theorem C01_hc_full_window_without_data_frames_witness :
    guardedB CreditEx.exOps hcExPair
      (cyclePre ++ (List.replicate 16 tsRound).flatten ++
        [.flushA, .stepA 6000000000, .flushA, .deliverAB 1, .recvB, .stepB 7000000000, .flushB, .deliverBA 1] ++
        [.deliverAB 0]) = true ∧
    (match runG CreditEx.exOps (aged0 hcExPair)
        (cyclePre ++ (List.replicate 16 tsRound).flatten ++
          [.flushA, .stepA 6000000000, .flushA, .deliverAB 1, .recvB, .stepB 7000000000, .flushB,
           .deliverBA 1]) with
     | .ok x =>
       decide (x.h.pend.length = 17 ∧ x.h.advB = 17 ∧ x.h.wireT = [1, 17] ∧ framesAfter x.h.wireAB 0 = 0 ∧
         x.h.syncs = [(17, 17)] ∧ x.h.outs = [[1]] ∧ x.h.A.ps.win.length = 0 ∧ IdsNodup x.h.wireAB) &&
       !isSendPending x.h.A
     | .error _ => false) = true := by
  refine ⟨by decide +kernel, by decide +kernel⟩

end Uflow.Props.C01
