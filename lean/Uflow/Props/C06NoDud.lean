import Uflow.Lemmas.HcNoDud
import Uflow.Props.C01Hc
import Uflow.Props.C01Age

/-!
# C06NoDud — between two uflow endpoints no packet is ever discarded for lack of receive memory

C06 ends: "A uflow sender never has more unacknowledged packet bytes (fragment-rounded) outstanding than
its peer advertised, so between two uflow endpoints no packet is ever discarded for lack of receive
memory." The components (`C06_recv_alloc`, `C06_emit_alloc_le`, `C06_hc_send_respects_limit`) bound each
side separately. This file states the conclusion on the pair `HcPair` of half connections `A` → `B`
(`Props/C01Hc.lean`), for every `Guarded` run — hence for every `AgeOk` run (`Props/C01Age.lean`) — with
`allocCeil cA.txAllocLimit ≤ allocCeil cB.rxAllocLimit` (in the library the sender's limit IS the limit
the peer advertised in the handshake).

* `C06_hc_recv_alloc_le_send_alloc` — the state invariant (I9): in every reachable pair state
  `B.pr.alloc ≤ A.ps.alloc ≤ allocCeil cA.txAllocLimit ≤ B.pr.maxAlloc`: `B`'s packet receiver is never
  charged more than `A`'s packet sender (every assembly entry of the receive window belongs to a packet
  still in `A`'s send window and is charged at most the sender's `alloc_size`: `Sys.AInv`,
  `Sys.recv_alloc_le_send_alloc`), so `try_add` never takes its "exceeds the allocation limit" branch;
  and every slot of `B`'s receive window that holds a completed, undelivered packet (`dataFlag`) holds its
  payload (`data ≠ none`: no data-less placeholder).
* `C06_hc_no_discard` — every packet `B.receive` took out of the receive window was handed to the
  application with the payload of the emitted packet at its position (`HcFlush.Attributed`: byte-exact —
  this is `C01_sys_delivered_payload` transferred through the refinement), and `B.receive` has returned
  exactly as many payloads as it took packets out of the window: none was passed over data-less.
  `C06_hc_no_discard_aged`: the same under the network hypothesis `AgeOk`.
* `C06_hc_discard_needs_limit_witness` — the hypothesis on the limits is needed: with `A`'s limit (100000)
  above `B`'s (1000 → ceiling 1448 = one fragment) a two-fragment Reliable packet is completely received,
  `B`'s window base passes it, and `B.receive` returns NOTHING — the packet is discarded.
-/

namespace Uflow.Props.C06

open Uflow Uflow.Gen Uflow.Codec Uflow.HalfConn Uflow.PSend Uflow.Sys Uflow.HcSys Uflow.HcFlush Uflow.HcAge
open Uflow.PRecv (LogE lget)
open Uflow.Rate (FloatOps)
open Uflow.Props.C01 (PairCfg SyncCfg)
open Uflow.HcFrm (IdsNodup)

variable {F : Type}

/-- **`B`'s allocation counter never exceeds `A`'s, and no slot holds a data-less placeholder.** For every
`Guarded` run from two fresh half connections (`PairCfg`, same initial packet id, `A`'s send window
`≤ 2^16`, `B`'s receive window `2^k`, `k ≤ 19`) with `allocCeil cA.txAllocLimit ≤ allocCeil
cB.rxAllocLimit`, in the final state:
`B.pr.alloc ≤ A.ps.alloc`, `A.ps.alloc ≤ A.ps.maxAlloc = allocCeil cA.txAllocLimit`,
`B.pr.maxAlloc = allocCeil cB.rxAllocLimit` — so `B.pr.alloc` stays at least
`allocCeil cB.rxAllocLimit − allocCeil cA.txAllocLimit` below its limit plus whatever `A` has free —, and
every slot of `B`'s receive window whose data flag is set (a completely received packet not yet handed
to the application) holds a payload: `try_add` never created a data-less entry. -/
theorem C06_hc_recv_alloc_le_send_alloc (ops : FloatOps F) (cA cB : Config) (nowA nowB : Nat)
    (rngA rngB : Rng) (hc : PairCfg cA cB) (hb : cA.txPacketBaseId = cB.rxPacketBaseId)
    (hw : cA.txPacketWindowSize ≤ 2^16) (k : Nat) (hk : k ≤ 19) (hW : cB.rxPacketWindowSize = 2^k)
    (ham : allocCeil cA.txAllocLimit ≤ allocCeil cB.rxAllocLimit)
    (sched : List POp) (h : HcPair F)
    (hg : Guarded ops (initP ops cA cB nowA nowB rngA rngB) sched)
    (hrun : runP ops (initP ops cA cB nowA nowB rngA rngB) sched = .ok h) :
    h.B.pr.alloc ≤ h.A.ps.alloc ∧ h.A.ps.alloc ≤ h.A.ps.maxAlloc ∧
    h.A.ps.maxAlloc = allocCeil cA.txAllocLimit ∧ h.B.pr.maxAlloc = allocCeil cB.rxAllocLimit ∧
    h.B.pr.alloc ≤ h.B.pr.maxAlloc ∧
    ∀ i, (lget h.B.pr.slots i).dataFlag = true → (lget h.B.pr.slots i).data ≠ none := by
  obtain ⟨sops, s, hs, hr⟩ := C01.C01_hc_refines_sys ops cA cB nowA nowB rngA rngB hc hb sched h hg hrun
  rw [hW] at hs
  have hinv := C01Sys.C01_sys_reach _ k _ _ _ (by omega) hk hc.txA sops s hs
  have ha := C01Sys.C02_sys_reach_alloc _ k _ _ _ hw hk hc.txA ham sops s hs
  have h1 := recv_alloc_le_send_alloc (PRecv.wOk_pow k hk) hinv ha
  have h2 := hinv.snd.hinv.alloc
  have h3 := ha.smax
  have h4 := hinv.rcv.inv.mal
  have hsa : s.snd.alloc = h.A.ps.alloc := by rw [hr.snd]; rfl
  have hsm : s.snd.maxAlloc = h.A.ps.maxAlloc := by rw [hr.snd]; rfl
  rw [hr.rcv] at h1 h4
  rw [hsa] at h1 h2
  rw [hsm] at h2 h3
  refine ⟨h1, h2, h3, h4, by omega, ?_⟩
  intro i hf
  have := ha.nr i
  rw [hr.rcv] at this
  exact this hf

/-- **No packet is discarded for lack of receive memory.** For every such run there are an attribution
`log` of what `B.receive` took out of the receive window and the list `em` of emitted packets with
`HcFlush.Attributed h log em` — in particular every log entry `e` carries the payload of the emitted
packet at its position, `e.data = some em[e.uid].data` (byte-exact), and `log.map data = outs.map some`:
`B.receive` handed a payload to the application for EVERY packet it took out of the window
(`log.length = outs.length`); no entry is data-less. -/
theorem C06_hc_no_discard (ops : FloatOps F) (cA cB : Config) (nowA nowB : Nat)
    (rngA rngB : Rng) (hc : PairCfg cA cB) (hb : cA.txPacketBaseId = cB.rxPacketBaseId)
    (hw : cA.txPacketWindowSize ≤ 2^16) (k : Nat) (hk : k ≤ 19) (hW : cB.rxPacketWindowSize = 2^k)
    (ham : allocCeil cA.txAllocLimit ≤ allocCeil cB.rxAllocLimit)
    (sched : List POp) (h : HcPair F)
    (hg : Guarded ops (initP ops cA cB nowA nowB rngA rngB) sched)
    (hrun : runP ops (initP ops cA cB nowA nowB rngA rngB) sched = .ok h) :
    ∃ (log : List LogE) (em : List Emitted), Attributed h log em ∧
      (∀ e ∈ log, ∃ x, em[e.uid]? = some x ∧ e.data = some x.data) ∧ log.length = h.outs.length := by
  obtain ⟨sops, s, hs, hr⟩ := C01.C01_hc_refines_sys ops cA cB nowA nowB rngA rngB hc hb sched h hg hrun
  rw [hW] at hs
  have hat := attributed_of_rel _ k _ _ _ hw hk hc.txA ham sops s hs h hr
  refine ⟨s.rcv.log, s.hist.emitted, hat, ?_, ?_⟩
  · intro e he
    obtain ⟨x, hx, _, hd⟩ := hat.attr e he
    exact ⟨x, hx, hd⟩
  · have := congrArg List.length hat.outs
    simpa using this

/-- The same under the network hypothesis `AgeOk ops D` (`D + w + 2^k < 2^20`, no frame id reused) instead
of `Guarded`: runs of any length. -/
theorem C06_hc_no_discard_aged (ops : FloatOps F) (cA cB : Config) (nowA nowB : Nat) (rngA rngB : Rng)
    (k : Nat) (hc : SyncCfg cA cB k) (ham : allocCeil cA.txAllocLimit ≤ allocCeil cB.rxAllocLimit)
    (D : Nat) (hD : D + cA.txPacketWindowSize + 2^k < 2^20) (sched : List POp) (h : HcPair F)
    (hrun : runP ops (initP ops cA cB nowA nowB rngA rngB) sched = .ok h) (hn : IdsNodup h.wireAB)
    (hage : AgeOk ops D (aged0 (initP ops cA cB nowA nowB rngA rngB)) sched) :
    (h.B.pr.alloc ≤ h.A.ps.alloc ∧ h.A.ps.alloc ≤ allocCeil cA.txAllocLimit ∧
      ∀ i, (lget h.B.pr.slots i).dataFlag = true → (lget h.B.pr.slots i).data ≠ none) ∧
    ∃ (log : List LogE) (em : List Emitted), Attributed h log em ∧
      (∀ e ∈ log, ∃ x, em[e.uid]? = some x ∧ e.data = some x.data) ∧ log.length = h.outs.length := by
  have hg := C01.C01_hc_guarded_of_age ops cA cB nowA nowB rngA rngB k hc D hD sched h hrun hn hage
  obtain ⟨a1, a2, a3, _, _, a6⟩ := C06_hc_recv_alloc_le_send_alloc ops cA cB nowA nowB rngA rngB hc.pc hc.base
    hc.hw k hc.hk hc.hW ham sched h hg hrun
  exact ⟨⟨a1, by omega, a6⟩,
    C06_hc_no_discard ops cA cB nowA nowB rngA rngB hc.pc hc.base hc.hw k hc.hk hc.hW ham sched h hg hrun⟩

/-! ## The hypothesis on the limits is needed; non-vacuity -/

/-- `B`'s configuration with a receive allocation limit of 1000 bytes (ceiling 1448: one fragment). -/
def smallRx : Config := { CreditEx.exCfg with rxAllocLimit := 1000 }

/-- Two fresh half connections: `A` with the example configuration, `B` with `smallRx`. -/
def dudPair : HcPair Nat :=
  initP CreditEx.exOps CreditEx.exCfg smallRx 0 0 { fifo := [], state := 0 } { fifo := [], state := 1 }

/-- `A` sends a 1500-byte (two-fragment) Reliable packet; both fragments are transmitted and delivered;
`B` receives. -/
def dudSched : List POp :=
  [.sendA (List.replicate 1500 7) 0 .reliable, .stepA 0, .stepB 0, .flushA, .stepA 1000000000, .flushA,
   .deliverAB 0, .deliverAB 1, .deliverAB 2, .recvB]

/-- **With the sender's limit above the receiver's a packet IS discarded.** `A` has `txAllocLimit =
100000`, `B` has `rxAllocLimit = 1000` (`allocCeil` 101360 vs 1448; the packet is charged 2896). The
schedule is `Guarded`; both fragments reach `B`'s packet receiver (`fed.length = 2`); `B`'s window base
passes the Reliable packet (`advB = 1`) — and `B.receive` has returned nothing (`outs = []`): the packet
was discarded for lack of receive memory. -/
theorem C06_hc_discard_needs_limit_witness :
    (match runP CreditEx.exOps dudPair dudSched with
     | .ok h => decide (h.outs.length = 0 ∧ h.advB = 1 ∧ h.fed.length = 2)
     | .error _ => false) = true := by decide +kernel

/-- The witness run is within the scope of the theorems except for the allocation condition: the
schedule is `Guarded`, and `allocCeil cA.txAllocLimit ≤ allocCeil cB.rxAllocLimit` fails. -/
theorem C06_hc_discard_witness_hyps :
    ¬ (allocCeil CreditEx.exCfg.txAllocLimit ≤ allocCeil smallRx.rxAllocLimit) ∧
    guardedB CreditEx.exOps dudPair dudSched = true :=
  ⟨by decide +kernel, by decide +kernel⟩

/-- The hypotheses of `C06_hc_recv_alloc_le_send_alloc` / `C06_hc_no_discard` hold for the example run
`C01.hcExSched` (equal limits on both sides; four packets, a lost frame, duplicates): `PairCfg`, same
initial id, window conditions, the allocation condition, the schedule is `Guarded`, the run exists
(`C01_hc_example_hyps`); `B.receive` returned all four payloads (`C01_hc_example`). -/
theorem C06_hc_no_discard_example_hyps :
    PairCfg CreditEx.exCfg CreditEx.exCfg ∧
    CreditEx.exCfg.txPacketBaseId = CreditEx.exCfg.rxPacketBaseId ∧
    CreditEx.exCfg.txPacketWindowSize ≤ 2^16 ∧ CreditEx.exCfg.rxPacketWindowSize = 2^4 ∧ (4 : Nat) ≤ 19 ∧
    allocCeil CreditEx.exCfg.txAllocLimit ≤ allocCeil CreditEx.exCfg.rxAllocLimit ∧
    Guarded CreditEx.exOps C01.hcExPair C01.hcExSched ∧
    ∃ h, runP CreditEx.exOps C01.hcExPair C01.hcExSched = .ok h := C01.C01_hc_example_hyps

end Uflow.Props.C06
