import Uflow.Lemmas.Codec
import Uflow.Lemmas.CodecExact
import Uflow.Lemmas.Crc

/-!
# C16 — Frame codec round-trips, rejects malformed input, CRC catches ≤ 4 flips

Property theorems only; helper lemmas live in `Uflow/Lemmas`.
Model: `Uflow.Codec.encode` = `Frame::write`, `Uflow.Codec.decode` = `Frame::read`
(`Uflow/Model/Codec.lean`), `Uflow.Crc.ext` = `crc::extend` (`Uflow/Model/Crc.lean`).
-/

namespace Uflow.Props.C16

open Uflow.Codec Uflow.Gen

/-- Serialising any representable frame and parsing the bytes yields the same frame: all nine
frame types, all three datagram encodings (the 63/64, 127/128, 255/256 case split is inside the
proof), any number of datagrams / ack groups. -/
theorem C16_roundtrip (f : Frame) (h : Representable f) : decode (encode f) = some f :=
  decode_encode f h

/-- Parsing is total by construction (`decode` is a total Lean function without fuel or
partiality): for every byte string it returns `none` or `some`. Stated for the record. -/
theorem C16_decode_total (bs : List Nat) : decode bs = none ∨ ∃ f, decode bs = some f := by
  cases decode bs with
  | none => exact Or.inl rfl
  | some f => exact Or.inr ⟨f, rfl⟩

/-- An accepted byte string is a type byte, a payload that parses as exactly that frame, and the
CRC of everything before it. -/
theorem C16_accept_shape (bs : List Nat) (f : Frame) (h : decode bs = some f) :
    ∃ ty payload c0 c1 c2 c3, bs = (ty :: payload) ++ [c0, c1, c2, c3] ∧
      Crc.compute (ty :: payload) = rd32 c0 c1 c2 c3 ∧ readPayload ty payload = some f :=
  decode_some_shape bs f h

/-- Trailing bytes: no accepted byte string stays accepted when anything is appended. -/
theorem C16_no_trailing (bs x : List Nat) (f : Frame) (h : decode bs = some f) (hx : x ≠ []) :
    decode (bs ++ x) = none :=
  decode_append_none bs x f h hx

/-- Missing bytes: no proper prefix of an accepted byte string is accepted. -/
theorem C16_no_truncation (bs : List Nat) (n : Nat) (f : Frame) (h : decode bs = some f)
    (hn : n < bs.length) : decode (bs.take n) = none :=
  decode_take_none bs n f h hn

/-- Too short to hold a type byte and a CRC. -/
theorem C16_short_rejected (bs : List Nat) (h : bs.length < 5) : decode bs = none := by
  unfold decode; rw [if_pos h]

/-- Unknown type bytes are rejected whatever the payload. -/
theorem C16_unknown_type (ty : Nat) (p : List Nat)
    (h : ty ∉ [HANDSHAKE_SYN_FRAME_ID, HANDSHAKE_SYN_ACK_FRAME_ID, HANDSHAKE_ACK_FRAME_ID,
      HANDSHAKE_ERROR_FRAME_ID, DISCONNECT_FRAME_ID, DISCONNECT_ACK_FRAME_ID, DATA_FRAME_ID,
      SYNC_FRAME_ID, ACK_FRAME_ID]) : readPayload ty p = none := by
  simp only [List.mem_cons, List.not_mem_nil, or_false, not_or] at h
  obtain ⟨h0, h1, h2, h3, h4, h5, h6, h7, h8⟩ := h
  unfold readPayload
  rw [if_neg h0, if_neg h1, if_neg h2, if_neg h3, if_neg h4, if_neg h5, if_neg h6, if_neg h7, if_neg h8]

/-- Unknown handshake error codes are rejected. -/
theorem C16_unknown_error_enum (k0 k1 k2 k3 e : Nat) (h : 2 < e) :
    readPayload HANDSHAKE_ERROR_FRAME_ID [k0, k1, k2, k3, e] = none := by
  have h0 : e ≠ 0 := by omega
  have h1 : e ≠ 1 := by omega
  have h2 : e ≠ 2 := by omega
  simp [readPayload, HANDSHAKE_SYN_FRAME_ID, HANDSHAKE_SYN_ACK_FRAME_ID, HANDSHAKE_ACK_FRAME_ID,
    HANDSHAKE_ERROR_FRAME_ID, h0, h1, h2]

/-- A connection request parses only as a full `MAX_FRAME_SIZE` (1472-byte) frame (used by C18). -/
theorem C16_syn_full_size (bs : List Nat) (v n r p a : Nat) (h : decode bs = some (.syn v n r p a)) :
    bs.length = MAX_FRAME_SIZE := by
  obtain ⟨ty, payload, c0, c1, c2, c3, hbs, _, hp⟩ := decode_some_shape bs _ h
  subst hbs
  unfold readPayload at hp
  by_cases hty : ty = HANDSHAKE_SYN_FRAME_ID
  · rw [if_pos hty] at hp
    by_cases hl : payload.length ≠ HANDSHAKE_SYN_FRAME_PAYLOAD_SIZE
    · rw [if_pos hl] at hp; exact absurd hp (by simp)
    · simp only [List.length_append, List.length_cons, List.length_nil, MAX_FRAME_SIZE]
      simp only [HANDSHAKE_SYN_FRAME_PAYLOAD_SIZE, ne_eq, Decidable.not_not] at hl
      omega
  · rw [if_neg hty] at hp
    -- every other branch yields a different constructor
    simp only [HANDSHAKE_SYN_ACK_FRAME_ID, HANDSHAKE_ACK_FRAME_ID, HANDSHAKE_ERROR_FRAME_ID, DISCONNECT_FRAME_ID,
      DISCONNECT_ACK_FRAME_ID, DATA_FRAME_ID, SYNC_FRAME_ID, ACK_FRAME_ID] at hp
    repeat' split at hp
    all_goals (first | exact absurd hp (by simp) | skip)

/-- The 256-entry table the code indexes equals, entry by entry, the bitwise LFSR of the
generator polynomial (both read from the source by the translator). -/
theorem C16_crc_table (i : Nat) (h : i < 256) : Crc.tableAt i h = Crc.slowByte i :=
  Crc.tableAt_eq_slowByte i h

/-! ### non-vacuity: concrete representable frames meeting the hypotheses -/

example : Representable (.data 0xFFFFFFFF true
    [ { sequenceId := 0xFFFFF, channelId := 63, windowParentLead := 127, channelParentLead := 255,
        fragmentId := 0, fragmentIdLast := 0, data := List.replicate 63 7 },
      { sequenceId := 5, channelId := 17, windowParentLead := 128, channelParentLead := 256,
        fragmentId := 0, fragmentIdLast := 0, data := List.replicate 255 9 },
      { sequenceId := 6, channelId := 0, windowParentLead := 0, channelParentLead := 0,
        fragmentId := 3, fragmentIdLast := 7, data := List.replicate 1000 1 } ]) := by decide +kernel

example : Representable (.ack 1 2 [⟨7, 0xFFFFFFFF, true⟩, ⟨100, 1, false⟩]) := by decide

example : decode (encode (.sync (some 5) none)) = some (.sync (some 5) none) :=
  C16_roundtrip _ (by decide)

end Uflow.Props.C16
