import Uflow.Model.FrameQ

/-!
# C15 — only genuine, fresh acknowledgements change sender state
(Theorems are being added; see `Uflow/Lemmas/FrameQ.lean`.)
-/

namespace Uflow.Props.C15

open Uflow Uflow.FrameQ Uflow.Codec

/-- A group whose bit field is empty is a no-op. -/
theorem C15_empty_group_noop (s : State) (b : Nat) (n : Bool) (rtt : Option Nat) :
    acknowledgeGroup s { baseId := b, bitfield := 0, nonce := n } rtt = .ok (s, []) := by
  have h : bitfieldSize 0 = 0 := by decide
  simp [acknowledgeGroup, h]

end Uflow.Props.C15
