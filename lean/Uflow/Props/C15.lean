import Uflow.Model.FrameQ
import Uflow.Lemmas.FrameQAckGroup
import Uflow.Lemmas.FrameQExamples
import Uflow.Lemmas.FrameQNoTrap
import Uflow.Lemmas.FrameQCullRun

/-!
# C15 — only genuine, fresh acknowledgements change sender state

Vocabulary (for an ack group `ack` and a frame-queue state `s`):
* `n := bitfieldSize ack.bitfield`; the *covered* ids are `wadd32 ack.baseId i` for `i < n`;
* the *claimed* ids are the covered ones with bit `i` set (`ack.bitfield / 2^i % 2 = 1`);
* `claimedNonce s ack` (`Uflow/Lemmas/FrameQAck.lean`) is the XOR, over the claimed `i`, of the
  `nonce` of the logged frame `getFrame s (wadd32 ack.baseId i)`.

Helper lemmas: `Uflow/Lemmas/FrameQAck.lean`, `Uflow/Lemmas/FrameQAckGroup.lean`; for the
trap-freedom part `Uflow/Lemmas/FrameQReorder.lean` (`RInv`, `Buffered`) and
`Uflow/Lemmas/FrameQNoTrap.lean` (`AckInv`).
-/

namespace Uflow.Props.C15

open Uflow Uflow.FrameQ Uflow.Codec

/-- A group whose bit field is empty is a no-op. -/
theorem C15_empty_group_noop (s : State) (b : Nat) (n : Bool) (rtt : Option Nat) :
    acknowledgeGroup s { baseId := b, bitfield := 0, nonce := n } rtt = .ok (s, []) := by
  have h : bitfieldSize 0 = 0 := by decide
  simp [acknowledgeGroup, h]

/-- (1) A group covering an id that is not in the frame log is ignored entirely. -/
theorem C15_unknown_frame_noop (s : State) (ack : AckGroup) (rtt : Option Nat) (i : Nat)
    (hi : i < bitfieldSize ack.bitfield) (hunk : getFrame s (wadd32 ack.baseId i) = none) :
    acknowledgeGroup s ack rtt = .ok (s, []) :=
  acknowledgeGroup_unknown s ack rtt i hi hunk

/-- (2) A group whose nonce differs from the XOR of the nonces of the claimed frames is ignored
entirely. -/
theorem C15_bad_nonce_noop (s : State) (ack : AckGroup) (rtt : Option Nat)
    (hall : ∀ i, i < bitfieldSize ack.bitfield → getFrame s (wadd32 ack.baseId i) ≠ none)
    (hn : ack.nonce ≠ claimedNonce s ack) :
    acknowledgeGroup s ack rtt = .ok (s, []) :=
  acknowledgeGroup_bad_nonce s ack rtt hall hn

/-- (3) If a group has any effect, all covered ids were logged, the nonce was right, and every
returned fragment reference comes from a claimed, not yet acked frame of `s`. -/
theorem C15_accept_sound (s s' : State) (ack : AckGroup) (rtt : Option Nat)
    (frs : List (Nat × Nat)) (h : acknowledgeGroup s ack rtt = .ok (s', frs))
    (hne : (s', frs) ≠ (s, [])) :
    (∀ i, i < bitfieldSize ack.bitfield → getFrame s (wadd32 ack.baseId i) ≠ none) ∧
    ack.nonce = claimedNonce s ack ∧
    (∀ p, p ∈ frs → ∃ i e, i < bitfieldSize ack.bitfield ∧ ack.bitfield / 2^i % 2 = 1 ∧
        getFrame s (wadd32 ack.baseId i) = some e ∧ e.acked = false ∧ p ∈ e.refs) := by
  rcases acknowledgeGroup_inv h with ⟨h1, h2⟩ | ⟨hall, hn, s2, lst, tot, rl, hl, _⟩
  · exact absurd (by rw [h1, h2]) hne
  · refine ⟨hall, hn, ?_⟩
    obtain ⟨_, _, hmem⟩ := ackLoop_spec ack rtt _ _ _ _ _ _ _ _ _ _ _ hl
    intro p hp
    rcases hmem p hp with hp | ⟨i, hi, hb, e, he, ha, hpe⟩
    · cases hp
    · exact ⟨i, e, List.mem_range.mp hi, hb, he, ha, hpe⟩

/-- (3') The fragment-reference part of (3) holds for every non-trapping call. -/
theorem C15_acked_fragments_sound (s s' : State) (ack : AckGroup) (rtt : Option Nat)
    (frs : List (Nat × Nat)) (h : acknowledgeGroup s ack rtt = .ok (s', frs)) :
    ∀ p, p ∈ frs → ∃ i e, i < bitfieldSize ack.bitfield ∧ ack.bitfield / 2^i % 2 = 1 ∧
        getFrame s (wadd32 ack.baseId i) = some e ∧ e.acked = false ∧ p ∈ e.refs := by
  rcases acknowledgeGroup_inv h with ⟨_, h2⟩ | ⟨_, _, s2, lst, tot, rl, hl, _⟩
  · subst h2; intro p hp; cases hp
  · obtain ⟨_, _, hmem⟩ := ackLoop_spec ack rtt _ _ _ _ _ _ _ _ _ _ _ hl
    intro p hp
    rcases hmem p hp with hp | ⟨i, hi, hb, e, he, ha, hpe⟩
    · cases hp
    · exact ⟨i, e, List.mem_range.mp hi, hb, he, ha, hpe⟩

/-- (4) Replay: if every claimed frame that is in the log is already acked, the group changes
nothing: the whole state (`ackData`, `intervals`, `reorder`, log entries, …) is returned unchanged
and no fragment is acknowledged. No assumption on frame sizes is needed. -/
theorem C15_replay_noop (s : State) (ack : AckGroup) (rtt : Option Nat)
    (hacked : ∀ i, i < bitfieldSize ack.bitfield → ack.bitfield / 2^i % 2 = 1 →
      ∀ e, getFrame s (wadd32 ack.baseId i) = some e → e.acked = true) :
    acknowledgeGroup s ack rtt = .ok (s, []) :=
  acknowledgeGroup_replay s ack rtt hacked

/-- `acknowledgeGroup` never removes or reorders log entries: only `ackData`, `reorder`,
`intervals` and the `acked`/`refs` fields of entries can change (`EntryLe`). -/
theorem C15_log_preserved (s s1 : State) (ack : AckGroup) (rtt : Option Nat)
    (f1 : List (Nat × Nat)) (h : acknowledgeGroup s ack rtt = .ok (s1, f1)) :
    s1.logBase = s.logBase ∧ s1.logNext = s.logNext ∧ s1.frames.length = s.frames.length ∧
    s1.lastFeedback = s.lastFeedback ∧ s1.winBase = s.winBase ∧ s1.winSize = s.winSize ∧
    s1.tailSize = s.tailSize ∧ s1.rateLimited = s.rateLimited ∧
    (∀ id e, getFrame s id = some e → ∃ e', getFrame s1 id = some e' ∧ EntryLe e e') ∧
    (∀ id, getFrame s1 id = none ↔ getFrame s id = none) := by
  have hrel := acknowledgeGroup_rel h
  have hfr : ∀ id e, getFrame s id = some e → ∃ e', getFrame s1 id = some e' ∧ EntryLe e e' := by
    intro id e he
    have := hrel.frames (wsub32 id s.logBase) e he
    have hb := hrel.logBase
    simp only [] at this hb
    unfold getFrame
    rw [hb]; exact this
  refine ⟨hrel.logBase, hrel.logNext, hrel.len, hrel.lastFeedback, hrel.winBase, hrel.winSize,
    hrel.tailSize, hrel.rateLimited, hfr, ?_⟩
  intro id
  have hb : s1.logBase = s.logBase := hrel.logBase
  have hlen : s1.frames.length = s.frames.length := hrel.len
  unfold getFrame
  rw [hb, List.getElem?_eq_none_iff, List.getElem?_eq_none_iff, hlen]

/-- An accepted group leaves all its claimed frames marked acked. -/
theorem C15_accept_marks_acked (s s1 : State) (ack : AckGroup) (rtt : Option Nat)
    (f1 : List (Nat × Nat)) (h : acknowledgeGroup s ack rtt = .ok (s1, f1))
    (hall : ∀ i, i < bitfieldSize ack.bitfield → getFrame s (wadd32 ack.baseId i) ≠ none)
    (hn : ack.nonce = claimedNonce s ack) :
    ∀ i, i < bitfieldSize ack.bitfield → ack.bitfield / 2^i % 2 = 1 →
      ∃ e, getFrame s1 (wadd32 ack.baseId i) = some e ∧ e.acked = true :=
  acknowledgeGroup_marks h hall hn

/-- (5) Idempotence: re-applying the same group to the resulting state has no effect (no
side condition needed: the log entries are still present by `C15_log_preserved`). -/
theorem C15_idempotent (s s1 : State) (ack : AckGroup) (rtt : Option Nat)
    (f1 : List (Nat × Nat)) (h : acknowledgeGroup s ack rtt = .ok (s1, f1)) :
    acknowledgeGroup s1 ack rtt = .ok (s1, []) := by
  rcases acknowledgeGroup_inv h with ⟨h1, h2⟩ | ⟨hall, hn, _⟩
  · subst h1; subst h2; exact h
  · apply acknowledgeGroup_replay
    intro i hi hb e he
    obtain ⟨e', he', ha⟩ := acknowledgeGroup_marks h hall hn i hi hb
    rw [he] at he'; cases he'; exact ha

/-- (6) A stale (`nb = winBase`) or future (beyond `logNext`) transfer-window base is ignored. -/
theorem C15_window_stale_noop (s : State) (nb : Nat) (rtt : Option Nat)
    (h : nb = s.winBase ∨ wsub32 nb s.winBase > wsub32 s.logNext s.winBase) :
    advanceTransferWindow s nb rtt = .ok s := by
  unfold advanceTransferWindow
  have hc : canAdvanceTransferWindow s nb = false := by
    unfold canAdvanceTransferWindow
    rcases h with h | h
    · subst h
      have : wsub32 s.winBase s.winBase = 0 := by unfold wsub32; omega
      simp [this]
    · simp only [decide_eq_false_iff_not, not_and, Nat.not_le]
      intro _; exact h
  rw [hc]
  rfl

/-! ### Trap freedom (optional part)

`AckInv s` (`Uflow/Lemmas/FrameQNoTrap.lean`) says: with `lb := s.logBase`, `len := s.frames.length`,
`pos x := wsub32 x lb`, `r := s.reorder`:
`len + r.maxSpan ≤ 2^32`, `r.baseId < 2^32`, `pos r.baseId ≤ len`, `r.count ≤ 2`,
the buffered ids (`f0` if `count ≥ 1`, `f1` if `count = 2`) are `< 2^32`, lie strictly after the
buffer base, in order (`pos baseId < pos f0 < pos f1 < len`), and are marked `acked` in the log. -/

/-- Under `AckInv`, `acknowledgeGroup` never traps, and it re-establishes `AckInv`.
*Partial* with respect to "never traps in reachable states": `AckInv` is shown to hold initially
(`C15_ackInv_init`) and to be preserved by `acknowledgeGroup` (here) and `push`
(`C15_ackInv_push`, under an explicit length bound), but its preservation by
`cull` / `advanceTransferWindow` / `forgetFrames` (`Reorder.advance`, log draining) is not proved here.
(Completed below: `C15_ackInv_cull_ops`, `C15_no_trap`, under the window relations `WInv`.) -/
theorem C15_no_trap_partial (s : State) (ack : AckGroup) (rtt : Option Nat) (hinv : AckInv s) :
    ∃ s' frs, acknowledgeGroup s ack rtt = .ok (s', frs) ∧ AckInv s' :=
  acknowledgeGroup_no_trap s ack rtt hinv

theorem C15_ackInv_init (size tail base : Nat) (hb : base < 2^32) :
    AckInv (init size tail base) :=
  AckInv_init size tail base hb

theorem C15_ackInv_push (s : State) (size now : Nat) (refs : List (Nat × Nat)) (nonce : Bool)
    (hinv : AckInv s) (hlen : s.frames.length + 1 + s.reorder.maxSpan ≤ 2^32) :
    AckInv (push s size now refs nonce) :=
  AckInv_push s size now refs nonce hinv hlen

/-! ### Non-vacuity examples

`exS5` (`Uflow/Lemmas/FrameQExamples.lean`) is a log of 5 frames (ids 100 … 104, nonces T F T T F)
built with `push`; `exGood` claims 100, 102, 104 with the right nonce, `exBadNonce` the same with
the wrong nonce, `exStraddle` covers 103 … 105 (105 is beyond the log end). -/

example : bitfieldSize exGood.bitfield = 5 ∧ bitfieldSize exStraddle.bitfield = 3 := by
  decide +kernel

/-- (1) hypotheses: covered id 105 is unknown; conclusion evaluated on the model. -/
example : 2 < bitfieldSize exStraddle.bitfield ∧
    getFrame exS5 (wadd32 exStraddle.baseId 2) = none ∧
    acknowledgeGroup exS5 exStraddle none = .ok (exS5, []) := by decide +kernel

/-- (2) hypotheses: all covered ids logged, nonce wrong; conclusion evaluated on the model. -/
example : (∀ i, i < bitfieldSize exBadNonce.bitfield →
      getFrame exS5 (wadd32 exBadNonce.baseId i) ≠ none) ∧
    exBadNonce.nonce ≠ claimedNonce exS5 exBadNonce ∧
    acknowledgeGroup exS5 exBadNonce none = .ok (exS5, []) := by decide +kernel

/-- (3), (5), `C15_log_preserved`: the correct group is accepted, changes the state, and returns
exactly the fragments of the claimed frames 100 and 104 (frame 102 carries none). -/
example : ∃ s' frs, acknowledgeGroup exS5 exGood none = .ok (s', frs) ∧ (s', frs) ≠ (exS5, []) ∧
    frs = [(1, 0), (4, 0)] ∧ s' = exS5acked := by
  have h : (match acknowledgeGroup exS5 exGood none with
      | .ok (s', frs) => decide ((s', frs) ≠ (exS5, []) ∧ frs = [(1, 0), (4, 0)] ∧ s' = exS5acked)
      | .error _ => false) = true := by decide +kernel
  revert h
  cases acknowledgeGroup exS5 exGood none with
  | error t => intro h; cases h
  | ok v => intro h; exact ⟨v.1, v.2, rfl, of_decide_eq_true h⟩

/-- `C15_accept_marks_acked` hypotheses hold for the correct group. -/
example : (∀ i, i < bitfieldSize exGood.bitfield →
      getFrame exS5 (wadd32 exGood.baseId i) ≠ none) ∧
    exGood.nonce = claimedNonce exS5 exGood := by decide +kernel

/-- (4) hypothesis: in `exS5acked` (state after accepting `exGood`) every claimed frame is acked,
while not all covered frames are (101, 103 are not); the replay is a no-op, also on the model. -/
example : (∀ i, i < bitfieldSize exGood.bitfield → exGood.bitfield / 2^i % 2 = 1 →
      ∀ e, getFrame exS5acked (wadd32 exGood.baseId i) = some e → e.acked = true) ∧
    (getFrame exS5acked 101).map (·.acked) = some false ∧
    exS5acked.ackData ≠ none ∧
    acknowledgeGroup exS5acked exGood none = .ok (exS5acked, []) := by
  refine ⟨?_, by decide +kernel, by decide +kernel, by decide +kernel⟩
  have h : ∀ i, i < bitfieldSize exGood.bitfield → exGood.bitfield / 2^i % 2 = 1 →
      (getFrame exS5acked (wadd32 exGood.baseId i)).map (·.acked) = some true := by
    decide +kernel
  intro i hi hb e he
  have := h i hi hb
  rw [he] at this
  exact Option.some.inj this

/-- (6) stale (`nb = winBase = 100`) and future (`106 > logNext = 105`) bases satisfy the
hypothesis; an in-range base (102) does change the state. -/
example : (100 = exS5.winBase ∨ wsub32 100 exS5.winBase > wsub32 exS5.logNext exS5.winBase) ∧
    (106 = exS5.winBase ∨ wsub32 106 exS5.winBase > wsub32 exS5.logNext exS5.winBase) ∧
    advanceTransferWindow exS5 102 none ≠ .ok exS5 := by decide +kernel

/-- `AckInv` holds for the example log (via `C15_ackInv_init` / `C15_ackInv_push`) … -/
example : AckInv exS5 := by
  unfold exS5
  refine C15_ackInv_push _ _ _ _ _ (C15_ackInv_push _ _ _ _ _ (C15_ackInv_push _ _ _ _ _
    (C15_ackInv_push _ _ _ _ _ (C15_ackInv_push _ _ _ _ _ (C15_ackInv_init 16 4 100 (by decide))
      ?_) ?_) ?_) ?_) ?_ <;> decide +kernel

/-- … and, by `C15_no_trap_partial`, for the state after the accepted group, whose reorder buffer
is non-trivial (two buffered frames 102 and 104 behind the hole 101). -/
example : AckInv exS5acked ∧ exS5acked.reorder.count = 2 ∧ exS5acked.reorder.baseId = 101 := by
  refine ⟨?_, by decide +kernel, by decide +kernel⟩
  have hinv : AckInv exS5 := by
    unfold exS5
    refine C15_ackInv_push _ _ _ _ _ (C15_ackInv_push _ _ _ _ _ (C15_ackInv_push _ _ _ _ _
      (C15_ackInv_push _ _ _ _ _ (C15_ackInv_push _ _ _ _ _ (C15_ackInv_init 16 4 100 (by decide))
        ?_) ?_) ?_) ?_) ?_ <;> decide +kernel
  obtain ⟨s', frs, h, hinv'⟩ := C15_no_trap_partial exS5 exGood none hinv
  have : exS5acked = s' := by unfold exS5acked; rw [h]
  rw [this]; exact hinv'

/-! ### Trap freedom in reachable states

`QOp` (`Uflow/Lemmas/FrameQCullRun.lean`) lists what the half connection does to the frame queue:
`push` (a data frame is sent; the model's `push` itself tests `canPush`, as `emit_data_frames` does),
`ack g rtt` (`acknowledge_group`, any group), `advance nb rtt` (`advance_transfer_window`, any id),
`forget thresh rtt` (`forget_frames`, any threshold), `feedback now` (`get_feedback`). `runQ ops s l` runs a list
of them, stopping at the first trap. `WInv` is `AckInv` plus the window relations
(`reorder.maxSpan = winSize + tailSize < 2^31`, the log is contiguous up to `logNext`, `logNext` is at most a
window ahead of `winBase`, the log reaches at most `tailSize` behind `winBase`), which keep the log no longer
than the reorder buffer's span; that is what makes `cull_log_entries` (`cull`: `Reorder.advance` + `drain`) keep
the reorder buffer inside the log. -/

variable {F : Type}

/-- The run-level invariant holds in every state reached from `FrameQ.init` (window size + tail `< 2^31`; the
library uses 4096 + 4096). -/
theorem C15_winv_reachable (ops : Rate.FloatOps F) (size tail base : Nat) (hb : base < 2^32)
    (hs : size + tail < 2^31) (l : List QOp) (s : State)
    (h : runQ ops (init size tail base) l = .ok s) : WInv s :=
  WInv_run ops l _ s (WInv_init size tail base hb hs) h

/-- C15 (trap freedom): in every state reachable from `FrameQ.init` by `push` / `acknowledgeGroup` /
`advanceTransferWindow` / `forgetFrames` / `getFeedback` with arbitrary arguments, `acknowledgeGroup` with an
arbitrary group does not trap (no `unwrap` on a missing log entry, no endless `nackRun`), and neither do
`advanceTransferWindow` and `forgetFrames` (no out-of-range `drain`). -/
theorem C15_no_trap (ops : Rate.FloatOps F) (size tail base : Nat) (hb : base < 2^32)
    (hs : size + tail < 2^31) (l : List QOp) (s : State)
    (h : runQ ops (init size tail base) l = .ok s) :
    (∀ ack rtt, ∃ s' frs, acknowledgeGroup s ack rtt = .ok (s', frs)) ∧
    (∀ nb rtt, ∃ s', advanceTransferWindow s nb rtt = .ok s') ∧
    (∀ thresh rtt, ∃ s', forgetFrames s thresh rtt = .ok s') := by
  have hw := C15_winv_reachable ops size tail base hb hs l s h
  refine ⟨fun ack rtt => ?_, fun nb rtt => ?_, fun th rtt => ?_⟩
  · obtain ⟨s', frs, he, _⟩ := WInv_ack s ack rtt hw; exact ⟨s', frs, he⟩
  · obtain ⟨s', he, _⟩ := WInv_atw s nb rtt hw; exact ⟨s', he⟩
  · obtain ⟨s', he, _⟩ := WInv_forget s th rtt hw; exact ⟨s', he⟩

/-- Consequently a run can only stop in `getFeedback` (its `now - last_send_time` subtractions): every run
without `feedback` operations goes through. -/
theorem C15_run_no_trap (ops : Rate.FloatOps F) (size tail base : Nat) (hb : base < 2^32)
    (hs : size + tail < 2^31) (l : List QOp) (hl : ∀ op ∈ l, op.isFeedback = false) :
    ∃ s, runQ ops (init size tail base) l = .ok s :=
  WInv_run_ok ops l _ (WInv_init size tail base hb hs) hl

/-- `AckInv` is preserved by the three operations left open by `C15_no_trap_partial`, given the window
relations `WInv`. -/
theorem C15_ackInv_cull_ops (s : State) (hw : WInv s) :
    (∀ nb rtt s', advanceTransferWindow s nb rtt = .ok s' → AckInv s') ∧
    (∀ thresh rtt s', forgetFrames s thresh rtt = .ok s' → AckInv s') ∧
    (∀ nb rtt, nb < 2^32 → wsub32 nb s.logBase ≤ s.frames.length → ∃ s', cull s nb rtt = .ok s' ∧ AckInv s') := by
  refine ⟨fun nb rtt s' he => ?_, fun th rtt s' he => ?_, fun nb rtt hnb hk => ?_⟩
  · obtain ⟨s1, h1, h2⟩ := WInv_atw s nb rtt hw
    rw [h1] at he; cases he; exact h2.ack
  · obtain ⟨s1, h1, h2⟩ := WInv_forget s th rtt hw
    rw [h1] at he; cases he; exact h2.ack
  · obtain ⟨s', h1, h2, _⟩ := cull_inv s nb rtt hw.ack hnb hk hw.len_le (by rw [hw.ms]; exact hw.small)
    exact ⟨s', h1, h2⟩

/-- A script for the non-vacuity check: five frames 100 … 104 (window 16, tail 1), the group acknowledging
100, 102, 104 (the reorder buffer then holds 102 and 104 behind the hole 101), the transfer window advanced to
105 — which culls the log up to 104 and makes `Reorder.advance` skip 101 and 103 and release 102 and 104 —, a
group straddling the culled part, `forget_frames`, and two more frames. -/
def exQ : List QOp :=
  [ .push 100 1 [(1, 0)] true, .push 200 2 [(2, 0), (2, 1)] false, .push 300 3 [] true,
    .push 400 4 [(3, 0)] true, .push 500 5 [(4, 0)] false,
    .ack { baseId := 100, bitfield := 21, nonce := false } none,
    .advance 105 (some 7),
    .ack { baseId := 103, bitfield := 3, nonce := true } none,
    .forget 6 none,
    .push 600 6 [] true, .push 700 7 [] false,
    .ack { baseId := 105, bitfield := 2, nonce := false } (some 3) ]

/-- The operations of the script up to the window advance, applied directly (no `FloatOps` needed): the log is
culled to the single frame 104, the reorder buffer is empty with base 105, and one loss interval (101 lost, then 102, 103, 104 counted into
it) was opened for the skipped frames. -/
example :
    (match acknowledgeGroup (push (push (push (push (push (init 16 1 100) 100 1 [(1, 0)] true) 200 2
          [(2, 0), (2, 1)] false) 300 3 [] true) 400 4 [(3, 0)] true) 500 5 [(4, 0)] false)
        { baseId := 100, bitfield := 21, nonce := false } none with
     | .ok (s1, _) =>
       decide (s1.reorder.count = 2 ∧ s1.reorder.baseId = 101) &&
       (match advanceTransferWindow s1 105 (some 7) with
        | .ok s2 => decide (s2.logBase = 104 ∧ s2.frames.length = 1 ∧ s2.reorder.count = 0 ∧
            s2.reorder.baseId = 105 ∧ s2.winBase = 105 ∧ s2.intervals.map (·.length) = [4])
        | .error _ => false)
     | .error _ => false) = true := by decide +kernel

/-- Non-vacuity of `C15_no_trap` / `C15_winv_reachable`: the script runs (by `C15_run_no_trap`), for any
float operations. -/
example (ops : Rate.FloatOps F) : ∃ s, runQ ops (init 16 1 100) exQ = .ok s ∧ (100 : Nat) < 2^32 ∧ 16 + 1 < 2^31 := by
  obtain ⟨s, h⟩ := C15_run_no_trap ops 16 1 100 (by decide) (by decide) exQ (by decide)
  exact ⟨s, h, by decide, by decide⟩

end Uflow.Props.C15
