import Uflow.Model.HalfConn

/-! # C05 (theorems are being added) -/

namespace Uflow.Props.C05

open Uflow

/-- `pidSub` yields a 20-bit value. -/
theorem C05_pidSub_lt (a b : Nat) : pidSub a b < 2^20 := by
  unfold pidSub
  simp only [Uflow.Gen.PACKET_ID_SPAN]
  omega

end Uflow.Props.C05
