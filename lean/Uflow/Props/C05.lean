import Uflow.Model.HalfConn
import Uflow.Lemmas.PSendHistDemo

/-!
# C05 — ordering, sender side (`packet_sender.rs`)

The sender `Uflow.PSend` is driven by an arbitrary sequence of the four operations the half
connection performs on it (`Uflow.Props.C20.Op`: `enqueue_packet`, `emit_packet(flush_id)`,
`acknowledge(receiver_base_id)` with any — possibly forged — base id, `acknowledge_fragment`).
`PSend.runH` is `C20.run` instrumented with a ghost history `PSend.Hist`:

* `enqueued` — the submitted packets `(data, channel, mode, flush id)` in submission order;
* `emitted` — the packets `emit_packet` returned, in emission order, as `PSend.Emitted` records
  `(uid, sequenceId, channelId, mode, data, windowParentLead, channelParentLead)` plus the ghost
  fields `flushId` (of the consumed queue entry) and `baseAt` (`base_id` at emission time).

The receiver-side half of C05 is in the `PRecv` lemmas.
-/

namespace Uflow.Props.C05

open Uflow Uflow.PSend
open Uflow.Props.C20 (Op)

/-- `pidSub` yields a 20-bit value. -/
theorem C05_pidSub_lt (a b : Nat) : pidSub a b < 2^20 := by
  unfold pidSub
  simp only [Uflow.Gen.PACKET_ID_SPAN]
  omega

/-- The ghost history is only an observer: the state component of `runH` is `C20.run`. -/
theorem C05_ghost_run_state (s : State) (h : Hist) (ops : List Op) :
    (runH s h ops).map (·.1) = Uflow.Props.C20.run s ops := runH_state s h ops

/-- The ghost record `mkEmitted s f p` written when `emit_packet(f)` returns packet `p` is faithful:
its `(data, channel, mode, flush id)` is the queue entry that `emit_packet` consumed — the first
entry of the send queue behind a prefix of stale TimeSensitive entries (which are dropped) — and its
ghost `mode` agrees with what the `PendingPacket` exposes (`resend` flag, expiry flush id). -/
theorem C05_ghost_entry_sound (s s' : State) (f : Nat) (p : Pending) (resend : Bool)
    (h : emit s f = .ok (s', some (p, resend))) :
    ∃ dropped rest, s.queue = dropped ++ (mkEmitted s f p).toQ :: rest ∧
      (∀ d ∈ dropped, d.mode = .timeSensitive ∧ d.flushId ≠ f) ∧
      ¬ ((mkEmitted s f p).mode = .timeSensitive ∧ (mkEmitted s f p).flushId ≠ f) ∧
      s'.queue = rest ∧
      (resend = true ↔ ((mkEmitted s f p).mode = .persistent ∨ (mkEmitted s f p).mode = .reliable)) ∧
      p.expiry = (if (mkEmitted s f p).mode = .timeSensitive then some (mkEmitted s f p).flushId else none) := by
  obtain ⟨dropped, queue, total, hq, hd, hcase⟩ := emit_spec s s' f _ h
  rcases hcase with ⟨hc, _⟩ | ⟨q, rest, p', resend', chanPar, rfl, hr, hns, _, _, _, _, hpd, hpc, _, _, _,
    hexp, hres, rfl⟩
  · cases hc
  · simp only [Option.some.injEq, Prod.mk.injEq] at hr
    obtain ⟨rfl, rfl⟩ := hr
    have hcons := consumed_eq s f dropped q rest hq hd hns
    have e_toQ : (mkEmitted s f p).toQ = q := by
      simp only [mkEmitted, Emitted.toQ, hcons, hpd, hpc]
    have e_mode : (mkEmitted s f p).mode = q.mode := by simp only [mkEmitted, hcons]
    have e_fl : (mkEmitted s f p).flushId = q.flushId := by simp only [mkEmitted, hcons]
    rw [e_toQ, e_mode, e_fl]
    exact ⟨dropped, rest, hq, hd, hns, rfl, hres, hexp⟩

/-- **Emission order = submission order; only TimeSensitive packets are dropped.**
After any run of the sender (any window size, base id, arguments), the emitted packets followed by
the packets still queued are, as `(data, channel, mode, flush id)` entries,
* a subsequence of the submitted packets in submission order,
* with exactly the same non-TimeSensitive entries in the same order,
i.e. (third clause, `PSend.OnlyTSRemoved`) they are the submitted list with some TimeSensitive
entries removed. In particular the emitted packets are a subsequence of the submitted ones, and a
submitted packet that was neither emitted nor is still queued is TimeSensitive. -/
theorem C05_emit_order (w b a : Nat) (ops : List Op) (s' : State) (h' : Hist)
    (h : runH (init w b a) {} ops = .ok (s', h')) :
    (h'.emitted.map Emitted.toQ ++ s'.queue).Sublist h'.enqueued ∧
    h'.enqueued.filter (fun q => decide (q.mode ≠ .timeSensitive)) =
      (h'.emitted.map Emitted.toQ ++ s'.queue).filter (fun q => decide (q.mode ≠ .timeSensitive)) ∧
    OnlyTSRemoved (h'.emitted.map Emitted.toQ ++ s'.queue) h'.enqueued := by
  have hq := (qinv_runH ops _ _ (qinv_init w b a) s' h' h).1
  exact ⟨hq.1, hq.2, onlyTSRemoved_of_sublist _ _ hq.1 hq.2⟩

/-- Corollary of `C05_emit_order`: the emitted packets alone are a subsequence of the submitted
packets (same data / channel / mode / flush id, same relative order). -/
theorem C05_emitted_sublist (w b a : Nat) (ops : List Op) (s' : State) (h' : Hist)
    (h : runH (init w b a) {} ops = .ok (s', h')) :
    (h'.emitted.map Emitted.toQ).Sublist h'.enqueued :=
  (List.sublist_append_left _ _).trans (C05_emit_order w b a ops s' h' h).1

/-- **Sequence ids and packet identities are consecutive in emission order.** From
`PacketSender::new(w, b, a)` with a valid base id (`b < 2^20`) and `w < 2^20` (the library asserts
`w ≤ 4096`), the `i`-th emitted packet (counting from 0) has sequence id `packet_id::add(b, i)`
(20-bit wrap) and identity `i`; `next_id` is `add(b, number emitted)`. -/
theorem C05_ids_consecutive (w b a : Nat) (hw : w < 2^20) (hb : b < 2^20) (ops : List Op)
    (s' : State) (h' : Hist) (h : runH (init w b a) {} ops = .ok (s', h')) :
    (∀ i e, h'.emitted[i]? = some e → e.uid = i ∧ e.sequenceId = pidAdd b i) ∧
    s'.nextId = pidAdd b h'.emitted.length ∧ s'.nextUid = h'.emitted.length := by
  have hi := hinv_run_init w b a hw hb ops s' h' h
  exact ⟨fun i e he => ⟨(hi.ids i e he).1, (hi.ids i e he).2.1⟩, hi.nid, hi.nuid⟩

/-- Hence two packets emitted fewer than `2^20` positions apart carry different sequence ids. -/
theorem C05_ids_distinct (w b a : Nat) (hw : w < 2^20) (hb : b < 2^20) (ops : List Op)
    (s' : State) (h' : Hist) (h : runH (init w b a) {} ops = .ok (s', h'))
    (i j : Nat) (x y : Emitted) (hx : h'.emitted[i]? = some x) (hy : h'.emitted[j]? = some y)
    (hij : i < j) (hd : j - i < 2^20) : x.sequenceId ≠ y.sequenceId := by
  obtain ⟨hids, _, _⟩ := C05_ids_consecutive w b a hw hb ops s' h' h
  rw [(hids i x hx).2, (hids j y hy).2]
  intro heq
  have := pidAdd_inj b i j (by omega) hd heq
  omega

/-- The hypothesis `b < 2^20` of `C05_ids_consecutive` is needed (the model, like the code, uses the
given base id unmasked for the first packet). -/
theorem C05_ids_consecutive_needs_valid_base :
    (match runH (init 8 (2^20 + 5) 1000) {} [.enq [1] 0 .reliable 0, .emit 0] with
     | .ok (_, h) => h.emitted.map (·.sequenceId) == [2^20 + 5] && pidAdd (2^20 + 5) 0 == 5
     | .error _ => false) = true := by decide +kernel

/-- **Window bound.** In every reachable state the number of packets outstanding (window entries,
`= sub(next_id, base_id)`) is at most `window_size`, and every emission happened with fewer than
`window_size` packets outstanding. (Hypotheses as for `C05_ids_consecutive`.) -/
theorem C05_window_bound (w b a : Nat) (hw : w < 2^20) (hb : b < 2^20) (ops : List Op)
    (s' : State) (h' : Hist) (h : runH (init w b a) {} ops = .ok (s', h')) :
    s'.windowSize = w ∧ s'.win.length = pidSub s'.nextId s'.baseId ∧ s'.win.length ≤ w ∧
    (∀ (i : Nat) (e : Emitted), h'.emitted[i]? = some e → pidSub e.sequenceId e.baseAt < w) := by
  have hi := hinv_run_init w b a hw hb ops s' h' h
  obtain ⟨old, wl, wi⟩ := hi.win
  have hn : h'.emitted.length = old.length + wl.length := by rw [wi.em_eq, List.length_append]
  have hwle := wi.wle
  refine ⟨hi.wsz, ?_, by rw [← wi.wlen]; exact wi.wle, fun i e he => (hi.leads i e he).2.2.1⟩
  rw [hi.nid, wi.base, pidSub_pidAdd _ _ _ (by omega) (by omega), ← wi.wlen]
  omega

/-- **Allocation bound** (no hypotheses; cf. `C06_emit_alloc_le`): in every reachable state the
fragment-rounded bytes outstanding are within the (rounded) limit. -/
theorem C05_alloc_bound (w b a : Nat) (ops : List Op) (s' : State) (h' : Hist)
    (h : runH (init w b a) {} ops = .ok (s', h')) : s'.alloc ≤ s'.maxAlloc :=
  (qinv_runH ops _ _ (qinv_init w b a) s' h' h).2

/-! ### non-vacuity -/

/-- The example history `PSend.histOps` (four modes, two channels, two stale TimeSensitive drops,
ids wrapping past `2^20`, an `acknowledge` that removes the Reliable parent from the window)
satisfies the hypotheses of all theorems above; its outcome is `PSend.histOps_run`. -/
example : ∃ s' h', runH (init 8 histBase 100000) {} histOps = .ok (s', h') ∧ (8 : Nat) < 2^20 ∧
    histBase < 2^20 := by
  obtain ⟨s', h', h⟩ := histOps_ok
  exact ⟨s', h', h, by decide, by decide⟩

/-- In that history two of the ten submitted packets are dropped (both TimeSensitive), eight are
emitted in submission order and the ids wrap. -/
example :
    (match runH (init 8 histBase 100000) {} histOps with
     | .ok (s, h) =>
       h.emitted.map (·.data) == [[2, 2], [3], [4], [5], [6], [7], [8], [10]] &&
       h.enqueued.map (·.data) == [[1], [2, 2], [3], [4], [5], [6], [7], [8], [9], [10]] &&
       (h.enqueued.filter (fun q => !(h.emitted.map Emitted.toQ ++ s.queue).contains q)).map (·.mode)
         == [.timeSensitive, .timeSensitive] &&
       h.emitted.map (·.sequenceId) == [1048573, 1048574, 1048575, 0, 1, 2, 3, 4]
     | .error _ => false) = true := by decide +kernel

/-- `emit` with a full window or an exhausted allocation emits nothing (window 2, limit 1448). -/
example :
    (match runH (init 2 0 1448) {}
        [.enq [1] 0 .reliable 0, .enq [2] 0 .reliable 0, .enq [3] 0 .reliable 0,
         .enq (List.replicate 1448 4) 0 .reliable 0,
         .emit 0, .emit 0, .emit 0, .ack 2, .emit 0, .emit 0] with
     | .ok (s, h) => h.emitted.length == 3 && s.win.length == 1 && s.queue.length == 1
     | .error _ => false) = true := by decide +kernel

end Uflow.Props.C05
