import Uflow.Lemmas.ModesRun
import Uflow.Lemmas.ModesSteps
import Uflow.Lemmas.ModesTs
import Uflow.Lemmas.CreditEx

/-!
# C12 — transmission modes: which fragments `flush` puts on the wire

Models: `Uflow.PSend` (`emit`, `dropStale`, `findPacket`, `ackFragment`, `acknowledge`),
`Uflow.HalfConn` (`resendLoop`, `pendingInner`, `pendingOuter`, `flush`, `step`, `send`).

Vocabulary (defined in `Uflow/Lemmas/{Wire,Modes*,PSendEmit,PSendAck,Heap}.lean`):
* `Wire.Push` : one fragment put into a data frame (`uid`, `fid`, the `resend` flag it was pushed with,
  `fromResend` = it came from the resend queue, `flushId` = the flush id of the flush that pushed it,
  `expiry` = the `expiry` of its packet: `some f` for a TimeSensitive packet queued for flush `f`). `Wire.flushT` is `flush` instrumented with the list
  of successful `dfePush` calls (a fragment is transmitted exactly when `dfePush … = .ok (_, none)` for
  it); `Wire.flushT_erase` / `flush_iff_flushT` : forgetting the trace gives `flush`. `Modes.runT` is
  the same for an arbitrary event list (`Credit.Ev`: `step`, `flush`, `send`, `receive`,
  `handle_{data,sync,ack}_frame`); `execT_erase` ties it to `Credit.exec`.
* `InPending s u fid`, `InResend s u fid`, `Absent s u fid` : `(u, fid)` has an entry in
  `s.pending` / in `s.resend` / in neither.
* `Skipped ps u fid` : `findPacket ps u = none ∨ ∃ p, findPacket ps u = some p ∧ fid ∈ p.acked`, the
  test by which `resendLoop` and `pendingInner` pop an entry without `dfePush`.
* `PSend.Dead ps u fid` : `u < ps.nextUid` and every window entry with identity `u` has `fid`
  acknowledged — stable under every operation of the sender.
* `PSend.Stale f q` : `q.mode = .timeSensitive ∧ q.flushId ≠ f`.
* `GInv s` = `QInv s ∧ TInv s` : the transmit queues only mention issued identities, `pending` has no
  duplicates, the two queues are disjoint (`QInv`); identities in the window are unique, and only
  fragments of packets without expiry carry `resend = true` in `pending` or sit in `resend` (`TInv`);
  holds initially (`ginv_init`), preserved by every event.
* `Doomed s u p` : `p = findPacket s.ps u` is a TimeSensitive packet queued for another flush than
  `s.flushId`, its fragment 0 is at the head of `s.pending` and not acknowledged.
* `countOnce tr u fid` : number of pushes of `(u, fid)` with `resend = false` in the trace `tr`.
-/

namespace Uflow.Props.C12

open Uflow Uflow.Gen Uflow.Codec Uflow.HalfConn Uflow.Wire Uflow.Modes Uflow.Heap Uflow.Credit Uflow.CreditEx
open Uflow.PSend (Dead Stale UidInv NoExp)
open Uflow.Rate (FloatOps)

variable {F : Type}

/-! ## 5. `C12_pending_once` -/

/-- `PSend.emit` hands out a packet only for a queue entry that is not stale, under a fresh
identity, with `resend` set iff the mode is Persistent or Reliable. -/
theorem C12_emit_resend_flag (s s' : PSend.State) (f : Nat) (p : PSend.Pending) (resend : Bool)
    (h : PSend.emit s f = .ok (s', some (p, resend))) :
    ∃ dropped q, s.queue = dropped ++ q :: s'.queue ∧ (∀ d ∈ dropped, Stale f d) ∧ ¬ Stale f q ∧
      p.data = q.data ∧ p.uid = s.nextUid ∧ s'.nextUid = s.nextUid + 1 ∧ p.acked = [] ∧
      (resend = true ↔ (q.mode = .persistent ∨ q.mode = .reliable)) ∧
      (q.mode = .timeSensitive → p.expiry = some f ∧ resend = false) ∧
      (q.mode ≠ .timeSensitive → p.expiry = none) := by
  obtain ⟨dropped, queue, total, _, hq, hst, hcase⟩ := PSend.emit_cases s s' f _ h
  rcases hcase with ⟨hc, _⟩ | ⟨q, rest, p', r', w, hqq, hr, hns, hpu, hpd, _, hpa, _, hexp, hflag, _, hq', _, hn, _⟩
  · cases hc
  · simp only [Option.some.injEq, Prod.mk.injEq] at hr
    obtain ⟨rfl, rfl⟩ := hr
    refine ⟨dropped, q, by rw [hq, hqq, hq'], hst, hns, hpd, hpu, hn, hpa, hflag, ?_, ?_⟩
    · intro hm
      have hf : q.flushId = f := by
        by_cases hqf : q.flushId = f
        · exact hqf
        · exact absurd ⟨hm, hqf⟩ hns
      refine ⟨by rw [hexp, if_pos hm, hf], ?_⟩
      cases hres : resend with
      | false => rfl
      | true =>
        rcases hflag.mp hres with hm' | hm' <;> rw [hm] at hm' <;> cases hm'
    · intro hm
      rw [hexp, if_neg hm]

/-- The pending queue is refilled only when it is empty, with every fragment `0 … last` of the
emitted packet exactly once, all carrying the packet's `resend` flag. (`Wire.refill` is the first
statement of the body of `pendingOuter`, see `Wire.pendingOuter_eq`.) -/
theorem C12_refill (e e1 : Emit F) (b : Bool) (h : Wire.refill e = .ok (e1, b)) :
    (e.s.pending ≠ [] → e1 = e ∧ b = true) ∧
    (e.s.pending = [] →
      (∃ ps, PSend.emit e.s.ps e.s.flushId = .ok (ps, none) ∧ e1.s.pending = [] ∧ b = false) ∨
      (∃ ps p resend, PSend.emit e.s.ps e.s.flushId = .ok (ps, some (p, resend)) ∧ b = true ∧
        e1.s.pending = (List.range (p.lastFragmentId + 1)).map
          (fun i => ({ uid := p.uid, fid := i, resend := resend } : PEntry)))) := by
  unfold Wire.refill at h
  split at h
  · rename_i hemp
    have hempty : e.s.pending = [] := by simpa using hemp
    refine ⟨fun hne => absurd hempty hne, fun _ => ?_⟩
    cases hem : PSend.emit e.s.ps e.s.flushId with
    | error t => rw [hem] at h; cases h
    | ok v =>
      obtain ⟨ps', r⟩ := v
      rw [hem] at h
      cases r with
      | none =>
        simp only [Except.ok.injEq, Prod.mk.injEq] at h
        obtain ⟨rfl, rfl⟩ := h
        exact .inl ⟨ps', rfl, hempty, rfl⟩
      | some pr =>
        obtain ⟨p, resend⟩ := pr
        simp only [Except.ok.injEq, Prod.mk.injEq] at h
        obtain ⟨rfl, rfl⟩ := h
        exact .inr ⟨ps', p, resend, rfl, rfl, rfl⟩
  · rename_i hemp
    simp only [Except.ok.injEq, Prod.mk.injEq] at h
    obtain ⟨rfl, rfl⟩ := h
    refine ⟨fun _ => ⟨rfl, rfl⟩, fun he => ?_⟩
    rw [he] at hemp
    exact absurd rfl hemp

/-- One step of `pendingInner`: the head entry, if its fragment is not skipped and `dfePush`
succeeds, is popped; it is queued for resending (at `nowMs + rttMs`) iff its `resend` flag is set,
otherwise the resend queue is untouched. -/
theorem C12_pendingInner_push (fuel : Nat) (e e1 : Emit F) (entry : PEntry) (rest : List PEntry)
    (p : PSend.Pending) (h0 : e.s.pending = entry :: rest)
    (h1 : PSend.findPacket e.s.ps entry.uid = some p) (h2 : entry.fid ∉ p.acked)
    (h3 : ¬ (entry.fid = 0 ∧ p.expired e.s.flushId = true))
    (h4 : dfePush e p entry.fid entry.resend = .ok (e1, none)) :
    pendingInner (fuel + 1) e = pendingInner fuel { e1 with s :=
      if entry.resend then
        { e1.s with pending := rest, resend := heapPush e1.s.resend ⟨entry.uid, entry.fid, e1.s.nowMs + e1.s.rttMs, 1⟩ }
      else { e1.s with pending := rest } } :=
  pendingInner_push fuel e e1 entry rest p h0 h1 h2 h3 h4

/-- One `flush`, with its wire trace: a fragment pushed with `resend = false` (a fragment of an
Unreliable or TimeSensitive packet, by `C12_emit_resend_flag` and `C12_refill`) is pushed with that
flag at most once and is afterwards in neither queue; a fragment of an issued packet that is in
neither queue stays out and is not pushed at all. -/
theorem C12_pending_once_flush (s s' : State F) (out : List (List Nat)) (tr : List Push)
    (hq : QInv s) (h : flushT s = .ok (s', out, tr)) :
    QInv s' ∧
    (∀ u fid, countOnce tr u fid ≤ 1) ∧
    (∀ x ∈ tr, x.resend = false → Absent s' x.uid x.fid ∧ x.uid < s'.ps.nextUid) ∧
    (∀ u fid, u < s.ps.nextUid → Absent s u fid →
      Absent s' u fid ∧ ∀ x ∈ tr, ¬ (x.uid = u ∧ x.fid = fid)) := by
  have := flushT_spec s s' out tr hq h
  exact ⟨this.inv, this.count, this.once, this.absent⟩

/-- The same over ANY interleaving of operations, from any state satisfying the invariant (e.g. a
fresh half connection): every fragment is pushed with `resend = false` at most once in the whole
run; after that push it is in neither queue; and once a fragment of an issued packet is in neither
queue it is never pushed again. -/
theorem C12_pending_once (ops : FloatOps F) (evs : List Ev) (s s' : State F) (tr : List Push)
    (hg : GInv s) (h : runT ops s evs = .ok (s', tr)) :
    GInv s' ∧
    (∀ u fid, countOnce tr u fid ≤ 1) ∧
    (∀ x ∈ tr, x.resend = false → Absent s' x.uid x.fid ∧ x.uid < s'.ps.nextUid) ∧
    (∀ u fid, u < s.ps.nextUid → Absent s u fid →
      Absent s' u fid ∧ ∀ x ∈ tr, ¬ (x.uid = u ∧ x.fid = fid)) := by
  have := runT_gspec ops evs s s' tr hg h
  exact ⟨this.inv, this.count, this.once, this.absent⟩

theorem C12_ginv_init (ops : FloatOps F) (c : Config) (now : Nat) (rng : Rng) :
    GInv (HalfConn.init ops c now rng) := ginv_init ops c now rng

/-! ## 6. `C12_ts_drop` -/

/-- A TimeSensitive packet stamped with another flush id is removed from the queue by `dropStale`
without being returned. -/
theorem C12_dropStale_head (f : Nat) (q : PSend.QEntry) (rest : List PSend.QEntry) (total : Nat)
    (hm : q.mode = .timeSensitive) (hf : q.flushId ≠ f) (ht : q.data.length ≤ total) :
    PSend.dropStale f (q :: rest) total = PSend.dropStale f rest (total - q.data.length) := by
  have : ¬ total < q.data.length := by omega
  conv => lhs; unfold PSend.dropStale
  simp only [hm, hf, this, ne_eq, not_false_eq_true, and_self, if_true, if_false]

/-- `dropStale` removes exactly the maximal prefix of stale entries. -/
theorem C12_dropStale (f : Nat) (q q' : List PSend.QEntry) (t t' : Nat)
    (h : PSend.dropStale f q t = .ok (q', t')) :
    ∃ dropped, q = dropped ++ q' ∧ (∀ d ∈ dropped, Stale f d) ∧
      (∀ x rest, q' = x :: rest → ¬ Stale f x) ∧
      t' + (dropped.map (·.data.length)).sum = t :=
  PSend.dropStale_prefix f q q' t t' h

/-- `emit` removes the stale prefix of the queue without returning any of it: the packet it
returns (if any) is built from the first entry that is not stale, everything before it is dropped. -/
theorem C12_ts_drop_queue (s s' : PSend.State) (f : Nat) (r : Option (PSend.Pending × Bool))
    (h : PSend.emit s f = .ok (s', r)) :
    ∃ dropped rest, s.queue = dropped ++ rest ∧ (∀ d ∈ dropped, Stale f d) ∧
      (r = none → s'.queue = rest ∧ s'.win = s.win) ∧
      (∀ p resend, r = some (p, resend) →
        ∃ q, rest = q :: s'.queue ∧ ¬ Stale f q ∧ p.data = q.data) := by
  obtain ⟨dropped, queue, total, _, hq, hst, hcase⟩ := PSend.emit_cases s s' f r h
  refine ⟨dropped, queue, hq, hst, ?_, ?_⟩
  · intro hr
    rcases hcase with ⟨_, rfl⟩ | ⟨_, _, _, _, _, _, hr', _⟩
    · exact ⟨rfl, rfl⟩
    · rw [hr] at hr'; cases hr'
  · intro p resend hr
    rcases hcase with ⟨hr', _⟩ | ⟨q, rest, p', r', w, hqq, hr', hns, _, hpd, _, _, _, _, _, _, hq', _⟩
    · rw [hr] at hr'; cases hr'
    · rw [hr] at hr'
      simp only [Option.some.injEq, Prod.mk.injEq] at hr'
      obtain ⟨rfl, rfl⟩ := hr'
      exact ⟨q, by rw [hqq, hq'], hns, hpd⟩

/-- `send` stamps the current flush id, `step` increments it (mod 2^32): a TimeSensitive packet
that is still queued when the next `step` has run is stale for every flush of that step. -/
theorem C12_ts_stale_after_step (ops : FloatOps F) (s s' : State F) (data : List Nat) (chan now : Nat)
    (h : step ops (send s data chan .timeSensitive) now = .ok s') :
    s'.flushId = wadd32 s.flushId 1 ∧ s'.flushId < 2 ^ 32 ∧
    s'.ps.queue = s.ps.queue ++ [{ data := data, channelId := chan, mode := .timeSensitive, flushId := s.flushId }] ∧
    Stale s'.flushId { data := data, channelId := chan, mode := .timeSensitive, flushId := s.flushId } := by
  obtain ⟨_, hp, _, _, hfid, _⟩ := HcFrame.step_frame ops _ s' now h
  have hfid' : s'.flushId = wadd32 s.flushId 1 := hfid
  have hne : wadd32 s.flushId 1 ≠ s.flushId := by
    simp only [wadd32]
    omega
  refine ⟨hfid', ?_, by rw [hp]; rfl, rfl, ?_⟩
  · rw [hfid']; simp only [wadd32]; omega
  · rw [hfid']
    exact fun h => hne h.symm

/-- One step of `pendingInner` (the repaired defect): when the head of the pending queue is
fragment 0 of a TimeSensitive packet that was queued for another flush — so none of its fragments
has been sent — the whole pending queue is cleared and nothing is pushed. -/
theorem C12_pendingInner_expired (fuel : Nat) (e : Emit F) (entry : PEntry) (rest : List PEntry)
    (p : PSend.Pending) (h0 : e.s.pending = entry :: rest)
    (h1 : PSend.findPacket e.s.ps entry.uid = some p) (h2 : entry.fid ∉ p.acked)
    (h3 : entry.fid = 0 ∧ p.expired e.s.flushId = true) :
    pendingInner (fuel + 1) e = pendingInner fuel { e with s := { e.s with pending := [] } } :=
  pendingInner_expired fuel e entry rest p h0 h1 h2 h3

/-- Wire level, one `flush`: every push records the flush id of the flush; fragment 0 of a
TimeSensitive packet (`expiry = some f`) is only pushed when `f` is the current flush id; a push with
`resend = true`, in particular every push from the resend queue, belongs to a packet without expiry. -/
theorem C12_ts_wire_flush (s s' : State F) (out : List (List Nat)) (tr : List Push)
    (hq : QInv s) (hT : TInv s) (h : flushT s = .ok (s', out, tr)) :
    s'.flushId = s.flushId ∧ TInv s' ∧
    (∀ x ∈ tr, x.flushId = s.flushId) ∧
    (∀ x ∈ tr, x.fromResend = false → x.fid = 0 → x.expiry = none ∨ x.expiry = some s.flushId) ∧
    (∀ x ∈ tr, x.resend = true → x.expiry = none) ∧
    (∀ x ∈ tr, x.fromResend = true → x.resend = true) := by
  have := flushT_spec s s' out tr hq h
  exact ⟨this.fid, this.tinv hT, this.fidc, this.ts0, this.tsflag hT, this.flag⟩

/-- Wire level, ANY interleaving of operations from a state satisfying the invariant: a fragment of
a TimeSensitive packet (`expiry = some f`) is only ever pushed from the pending queue, with
`resend = false` (never re-sent), and its fragment 0 only in a flush whose id is `f`. -/
theorem C12_ts_wire (ops : FloatOps F) (evs : List Ev) (s s' : State F) (tr : List Push)
    (hg : GInv s) (h : runT ops s evs = .ok (s', tr)) :
    ∀ x ∈ tr, ∀ f, x.expiry = some f →
      x.resend = false ∧ x.fromResend = false ∧ (x.fid = 0 → x.flushId = f) := by
  have g := runT_gspec ops evs s s' tr hg h
  intro x hx f hf
  have hr : x.resend = false := by
    cases hres : x.resend with
    | false => rfl
    | true => have := g.tsflag x hx hres; rw [hf] at this; cases this
  have hfr : x.fromResend = false := by
    cases hres : x.fromResend with
    | false => rfl
    | true => have := g.flag x hx hres; rw [hr] at this; cases this
  refine ⟨hr, hfr, fun h0 => ?_⟩
  rcases g.ts0 x hx hfr h0 with hn | hs
  · rw [hf] at hn; cases hn
  · rw [hf] at hs; exact (Option.some.inj hs).symm

/-- Wire level, the repaired defect (`C12_ts_drop`, pending-queue case): a TimeSensitive packet that
was pulled into the pending queue while its flush could not send anything of it (fragment 0 is
still at the head of the queue, `Doomed`) is NOT transmitted by a flush with another flush id:
nothing of it is pushed, and afterwards either the flush ended before it reached the pending queue
(ack stage or resend stage out of credit / window — the state is still `Doomed`) or no fragment of
the packet is in either queue — and then, by `C12_pending_once`, none is ever pushed again.

PARTIAL with respect to the informal statement "a TimeSensitive packet none of whose fragments was
put on the wire in a flush with the flush id it was queued with never appears on the wire later":
the hypothesis `Doomed.unacked` (`0 ∉ p.acked`) is needed because `pendingInner` checks the expiry
only at fragment 0; that a fragment which was never sent cannot be acknowledged follows from
`FrameQ` only reporting `refs` recorded by `dfePush` with `resend = true`, which is outside this
file (it needs the `refs ⊆ pushed ∧ resend = true` invariant of `FrameQ.acknowledgeGroup`). The
send-queue case is `C12_ts_drop_queue` / `C12_dropStale_head`; that `emit` stamps `expiry = some f`
with `f` the flush id of the emitting flush is `C12_emit_resend_flag`. -/
theorem C12_ts_drop_partial (s s' : State F) (out : List (List Nat)) (tr : List Push) (u : Nat)
    (p : PSend.Pending) (hq : QInv s) (hT : TInv s) (hd : Doomed s u p)
    (h : flushT s = .ok (s', out, tr)) :
    (∀ x ∈ tr, x.uid ≠ u) ∧ (Doomed s' u p ∨ ∀ k, Absent s' u k) ∧ u < s'.ps.nextUid := by
  obtain ⟨h1, h2⟩ := flushT_doomed s s' out tr u p hq hT hd h
  exact ⟨h1, h2, Nat.lt_of_lt_of_le (hd.lt hq) (flushT_spec s s' out tr hq h).mono⟩

/-! ## 7. `C12_no_resend_after_ack` -/

/-- One step of `resendLoop`: an entry whose packet has left the window (`findPacket = none`) or
whose fragment is acknowledged is popped without `dfePush`; nothing else changes. -/
theorem C12_resendLoop_skip (fuel : Nat) (e : Emit F) (entry : REntry)
    (h0 : e.s.resend[0]? = some entry)
    (hsk : PSend.findPacket e.s.ps entry.uid = none ∨
      ∃ p, PSend.findPacket e.s.ps entry.uid = some p ∧ entry.fid ∈ p.acked) :
    ∃ h, heapPop e.s.resend = some (entry, h) ∧
      resendLoop (fuel + 1) e = resendLoop fuel { e with s := { e.s with resend := h } } :=
  resendLoop_skip fuel e entry h0 hsk

/-- The same for the pending queue. -/
theorem C12_pendingInner_skip (fuel : Nat) (e : Emit F) (entry : PEntry) (rest : List PEntry)
    (h0 : e.s.pending = entry :: rest)
    (hsk : PSend.findPacket e.s.ps entry.uid = none ∨
      ∃ p, PSend.findPacket e.s.ps entry.uid = some p ∧ entry.fid ∈ p.acked) :
    pendingInner (fuel + 1) e = pendingInner fuel { e with s := { e.s with pending := rest } } :=
  pendingInner_skip fuel e entry rest h0 hsk

/-- What makes a fragment dead, and that death is permanent for the sender: after `ackFragment`
for it; when its packet is no longer in the window (`acknowledge` moved the base past it); and
`Dead` is preserved by `ackFragment`, `acknowledge`, `emit` and `enqueue`. A dead fragment is
`Skipped`. -/
theorem C12_dead (ps : PSend.State) (u fid : Nat) :
    (u < ps.nextUid → Dead (PSend.ackFragment ps u fid) u fid) ∧
    (u < ps.nextUid → PSend.findPacket ps u = none → Dead ps u fid) ∧
    (Dead ps u fid → Skipped ps u fid) ∧
    (Dead ps u fid → ∀ u' f', Dead (PSend.ackFragment ps u' f') u fid) ∧
    (Dead ps u fid → ∀ rb ps', PSend.acknowledge ps rb = .ok ps' → Dead ps' u fid) ∧
    (Dead ps u fid → ∀ f ps' r, PSend.emit ps f = .ok (ps', r) → Dead ps' u fid) ∧
    (Dead ps u fid → ∀ d c m f, Dead (PSend.enqueue ps d c m f) u fid) :=
  ⟨PSend.dead_ackFragment_self ps u fid, PSend.dead_of_findPacket_none ps u fid,
   skipped_of_dead ps u fid,
   fun hd u' f' => PSend.dead_ackFragment ps u fid u' f' hd,
   fun hd rb ps' h => PSend.dead_acknowledge ps ps' rb u fid h hd,
   fun hd f ps' r h => PSend.dead_emit ps ps' f r u fid h hd,
   fun hd d c m f => PSend.dead_enqueue ps d c m f u fid hd⟩

/-- One `flush`: every fragment put on the wire was not skipped in the state before the flush
(or belongs to a packet emitted during this flush). -/
theorem C12_flush_pushes_live (s s' : State F) (out : List (List Nat)) (tr : List Push)
    (hq : QInv s) (h : flushT s = .ok (s', out, tr)) :
    ∀ x ∈ tr, ¬ Skipped s.ps x.uid x.fid ∨ s.ps.nextUid ≤ x.uid :=
  (flushT_spec s s' out tr hq h).live

/-- Over ANY interleaving of operations: a fragment that is dead at the start (acknowledged by
`ackFragment`, or its packet dropped from the window) stays dead and is never put on the wire
again, from either queue. -/
theorem C12_no_resend_after_ack (ops : FloatOps F) (evs : List Ev) (s s' : State F)
    (tr : List Push) (hg : GInv s) (h : runT ops s evs = .ok (s', tr)) (u fid : Nat)
    (hd : Dead s.ps u fid) :
    Dead s'.ps u fid ∧ ∀ x ∈ tr, ¬ (x.uid = u ∧ x.fid = fid) := by
  have := runT_gspec ops evs s s' tr hg h
  refine ⟨this.dead u fid hd, ?_⟩
  rintro x hx ⟨rfl, rfl⟩
  exact this.notDead x hx hd

/-! ## 8. `C12_resend_until_ack` -/

/-- One step of `resendLoop`: a due entry that is successfully pushed is re-queued with
`resendTime = nowMs + rttMs·2^sendCount` and `sendCount` incremented (capped at `MAX_SEND_COUNT`);
the new entry is a member of the queue the loop continues with. -/
theorem C12_resendLoop_push (fuel : Nat) (e e1 : Emit F) (entry : REntry) (p : PSend.Pending)
    (h0 : e.s.resend[0]? = some entry) (h1 : PSend.findPacket e.s.ps entry.uid = some p)
    (h2 : entry.fid ∉ p.acked) (h3 : ¬ entry.resendTime > e.s.nowMs)
    (h4 : dfePush e p entry.fid true = .ok (e1, none)) :
    e1.s.resend = e.s.resend ∧ e1.s.nowMs = e.s.nowMs ∧ e1.s.rttMs = e.s.rttMs ∧
    ∃ h, heapPop e.s.resend = some (entry, h) ∧
      resendLoop (fuel + 1) e = resendLoop fuel { e1 with s := { e1.s with resend := heapPush h ⟨entry.uid, entry.fid, e1.s.nowMs + e1.s.rttMs * 2 ^ entry.sendCount, min (entry.sendCount + 1) MAX_SEND_COUNT⟩ } } ∧
      (⟨entry.uid, entry.fid, e1.s.nowMs + e1.s.rttMs * 2 ^ entry.sendCount, min (entry.sendCount + 1) MAX_SEND_COUNT⟩ : REntry) ∈
        (heapPush h ⟨entry.uid, entry.fid, e1.s.nowMs + e1.s.rttMs * 2 ^ entry.sendCount, min (entry.sendCount + 1) MAX_SEND_COUNT⟩).toList := by
  have htx := dfePush_tx e e1 p entry.fid true none h4
  exact ⟨htx.2.2.1, htx.2.2.2.1, htx.2.2.2.2.1,
    resendLoop_push fuel e e1 entry p h0 h1 h2 h3 h4 htx.2.2.1⟩

/-- The binary heap only permutes: `heapPush` adds exactly the pushed entry, `heapPop` removes
exactly the entry at index 0 (the one `peek` returns). -/
theorem C12_heap (h : Array REntry) (e : REntry) :
    (heapPush h e).toList.Perm (e :: h.toList) ∧
    (∀ top h', heapPop h = some (top, h') → h[0]? = some top ∧ h.toList.Perm (top :: h'.toList)) :=
  ⟨heapPush_perm h e, fun top h' hp => heapPop_perm h h' top hp⟩

/-- One `flush`: a fragment pushed with `resend = true` (from either queue) is in the resend queue
at the end of the flush; a fragment that was scheduled and not skipped at the start is still
scheduled (and not skipped) at the end; pushes from the resend queue carry `resend = true`. -/
theorem C12_resend_until_ack_flush (s s' : State F) (out : List (List Nat)) (tr : List Push)
    (hq : QInv s) (h : flushT s = .ok (s', out, tr)) :
    (∀ x ∈ tr, x.resend = true → InResend s' x.uid x.fid ∧ ¬ Skipped s'.ps x.uid x.fid) ∧
    (∀ u fid, InResend s u fid → ¬ Skipped s.ps u fid →
      InResend s' u fid ∧ ¬ Skipped s'.ps u fid) ∧
    (∀ x ∈ tr, x.fromResend = true → x.resend = true) := by
  have := flushT_spec s s' out tr hq h
  exact ⟨this.sched, this.keep, this.flag⟩

/-- Over ANY interleaving of operations: a fragment in the resend queue stays there until it is
dead (acknowledged, or dropped from the window with its packet), and so does every fragment pushed
with `resend = true` during the run. -/
theorem C12_resend_until_ack (ops : FloatOps F) (evs : List Ev) (s s' : State F)
    (tr : List Push) (hg : GInv s) (h : runT ops s evs = .ok (s', tr)) :
    (∀ u fid, InResend s u fid → InResend s' u fid ∨ Dead s'.ps u fid) ∧
    (∀ x ∈ tr, x.resend = true → InResend s' x.uid x.fid ∨ Dead s'.ps x.uid x.fid) := by
  have := runT_gspec ops evs s s' tr hg h
  exact ⟨this.keep, this.sched⟩

/-! ## Non-vacuity (instance `Uflow.CreditEx`) -/

/-- The run `exEvs` from a fresh half connection (which satisfies `GInv`): a Reliable packet (uid 0),
a 3-fragment Unreliable packet (uid 1) and a TimeSensitive packet are sent; over three steps the
wire trace is: uid 0 once from the pending queue and twice from the resend queue, each fragment of
uid 1 exactly once with `resend = false`; the TimeSensitive packet (stale after the first step) is
dropped from the send queue and never appears. -/
example : GInv exS0 ∧
    (match runT exOps exS0 exEvs with
     | .ok (s, tr) => decide (
         tr.map (fun x => (x.uid, x.fid, x.resend, x.fromResend, x.flushId)) =
           [(0, 0, true, false, 1), (0, 0, true, true, 2), (1, 0, false, false, 2),
            (0, 0, true, true, 3), (1, 1, false, false, 3), (1, 2, false, false, 3)] ∧
         s.ps.queue = [] ∧ s.pending = [] ∧ s.resend.size = 1)
     | .error _ => false) = true :=
  ⟨ginv_init _ _ _ _, by decide +kernel⟩

/-- The repaired defect: after `exEvsTs` the TimeSensitive packet (uid 1, `expiry = some 1`) sits in
the pending queue with nothing sent, and the flush id is 2: the state is `Doomed`. The next flush
pushes only the Reliable packet's fragment from the resend queue and clears the pending queue. -/
example : (exState exEvsTs).pending = [⟨1, 0, false⟩] ∧ (exState exEvsTs).flushId = 2 ∧
    (∃ p, Doomed (exState exEvsTs) 1 p ∧ p.expiry = some 1) ∧
    (match flushT (exState exEvsTs) with
     | .ok (s, _, tr) => decide (tr.map (fun x => (x.uid, x.fid)) = [(0, 0)] ∧ s.pending = [])
     | .error _ => false) = true := by
  refine ⟨by decide +kernel, by decide +kernel, ?_, by decide +kernel⟩
  refine ⟨(PSend.findPacket (exState exEvsTs).ps 1).getD default, ⟨⟨false, [], by decide +kernel⟩,
    by decide +kernel, by decide +kernel, by decide +kernel⟩, by decide +kernel⟩

/-- `emit` hypotheses: a non-stale Reliable entry is emitted with `resend = true`, a stale
TimeSensitive head is dropped. -/
example :
    (match PSend.emit (PSend.enqueue (PSend.enqueue (PSend.init 16 0 100000) [1] 0 .timeSensitive 7)
        [2, 3] 1 .reliable 8) 8 with
     | .ok (s', some (p, resend)) => decide (p.data = [2, 3] ∧ resend = true ∧ p.expiry = none ∧ s'.queue = [])
     | _ => false) = true := by decide +kernel

end Uflow.Props.C12
