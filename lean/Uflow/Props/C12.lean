import Uflow.Model.HalfConn

/-! # C12 (theorems are being added) -/

namespace Uflow.Props.C12

open Uflow Uflow.PSend

/-- A TimeSensitive packet stamped with another flush id is removed from the queue by `dropStale`
without being returned. -/
theorem C12_dropStale_head (f : Nat) (q : QEntry) (rest : List QEntry) (total : Nat)
    (hm : q.mode = .timeSensitive) (hf : q.flushId ≠ f) (ht : q.data.length ≤ total) :
    dropStale f (q :: rest) total = dropStale f rest (total - q.data.length) := by
  have : ¬ total < q.data.length := by omega
  conv => lhs; unfold dropStale
  simp only [hm, hf, this, ne_eq, not_false_eq_true, and_self, if_true, if_false]

end Uflow.Props.C12
