import Uflow.Model.HalfConn
import Uflow.Lemmas.CreditRun
import Uflow.Lemmas.CreditEx

/-!
# C13 — leaky-bucket credit (`flush_alloc`)

Models: `Uflow.HalfConn` (`fillFlushAlloc`, `step`, `flush` = `emitAckFrames` → `emitDataFrames` →
`emitSyncFrame`), `Uflow.Rate.FloatOps` (abstract floating point: every theorem holds for every
`ops`).

Vocabulary (defined in `Uflow/Lemmas/Credit*.lean`, `Uflow/Lemmas/HcFrame*.lean`):
* `bytes out` : total length of a list of frames;
* `PktOk p` : `p.data.length ≤ (p.lastFragmentId + 1) * 1448` (the last fragment is at most one
  fragment long); `PsOk ps` : every packet in the window is `PktOk` and every queued packet is at most
  `MAX_PACKET_SIZE` bytes (the precondition of `Endpoint::send`, which `HalfConn.send` does not
  check). `PsOk` holds initially and is preserved by every operation (`C13_psOk_*`); it is what
  makes every data frame fit `MAX_FRAME_SIZE`;
* `Ev`, `exec`, `run` : an arbitrary interleaving of `step`, `flush`, `send`, `receive`,
  `handle_{data,sync,ack}_frame` as an event list; `run` returns the final state, the number of bytes
  handed to the frame sink and the credit granted by the fills, where `evCredit` of `step now` is
  `max new_bytes 0` (`new_bytes` = first component of `ops.fillBytes`, `stepCredit`).
-/

namespace Uflow.Props.C13

open Uflow Uflow.Gen Uflow.Codec Uflow.HalfConn Uflow.Credit Uflow.HcFrame Uflow.CreditEx
open Uflow.Rate (FloatOps satMul2 u32max)

variable {F : Type}

/-- `satMul2` (the model of `saturating_mul(2)`) never exceeds u32::MAX. -/
theorem C13_satMul2_le (x : Nat) : satMul2 x ≤ u32max := by
  unfold satMul2; omega

/-! ## 1. The fill is capped -/

/-- After `fill_flush_alloc`: if a previous flush time is recorded the credit is
`min (flush_alloc.saturating_add(new_bytes)) alloc_max`, in particular at most
`alloc_max = ops.fillMax send_rate rtt_s`; otherwise it is unchanged. In both cases the flush time
is recorded. -/
theorem C13_fill_cap (ops : FloatOps F) (s : State F) (now : Nat) :
    (∀ last, s.timeLastFlushed = some last →
      (fillFlushAlloc ops s now).flushAlloc =
        min (satAdd s.flushAlloc (ops.fillBytes s.rate.sendRate (now - last) s.flushFrac).1)
          (ops.fillMax s.rate.sendRate s.rate.rttS) ∧
      (fillFlushAlloc ops s now).flushAlloc ≤ ops.fillMax s.rate.sendRate s.rate.rttS) ∧
    (s.timeLastFlushed = none → (fillFlushAlloc ops s now).flushAlloc = s.flushAlloc) ∧
    (fillFlushAlloc ops s now).timeLastFlushed = some now := by
  refine ⟨?_, fill_none ops s now, (fill_frame ops s now).2.2.2.2⟩
  intro last h
  have := fill_some ops s now last h
  exact ⟨this, by rw [this]; exact Int.min_le_right _ _⟩

/-- Non-vacuity (instance `Uflow.CreditEx`: `exOps : FloatOps Nat`, `fillMax = 3000`): after one
`step` a flush time is recorded, and a fill 10 s later (14720 new bytes at 1472 B/s) is cut to the
cap 3000; before the first `step` there is no flush time. -/
example : (exState [.step 0]).timeLastFlushed = some 0 ∧
    (exState [.step 0]).flushAlloc = 0 ∧
    (exOps.fillBytes (exState [.step 0]).rate.sendRate (10000000000 - 0) (exState [.step 0]).flushFrac).1 = 14720 ∧
    (fillFlushAlloc exOps (exState [.step 0]) 10000000000).flushAlloc = 3000 ∧
    exS0.timeLastFlushed = none := by
  refine ⟨by decide +kernel, by decide +kernel, by decide +kernel, by decide +kernel, rfl⟩

/-- `HalfConnection::step` changes the credit exactly as `fill_flush_alloc` does (so the cap of
`C13_fill_cap` applies to the state after `step`). -/
theorem C13_step_fill (ops : FloatOps F) (s s' : State F) (now : Nat)
    (h : step ops s now = .ok s') :
    s'.flushAlloc = (fillFlushAlloc ops s now).flushAlloc ∧ s'.timeLastFlushed = some now := by
  have := step_frame ops s s' now h
  exact ⟨this.1, this.2.2.2.2.2.1⟩

/-! ## 2. Every emitted byte is debited once; nothing is started without credit -/

/-- For every state: `flush` debits exactly the bytes it hands to the sink, and with negative
credit it sends nothing. -/
theorem C13_frame_needs_credit (s s' : State F) (out : List (List Nat))
    (h : flush s = .ok (s', out)) :
    s'.flushAlloc = s.flushAlloc - ((out.map List.length).sum : Nat) ∧
    (s.flushAlloc < 0 → out = [] ∧ s'.flushAlloc = s.flushAlloc) := by
  obtain ⟨hd, _⟩ := flush_debit False s s' out (fun h => h.elim) h
  exact ⟨hd.1, fun hA => hd.neg hA⟩

/-- Non-vacuity: with credit 0 a flush sends one 119-byte data frame and leaves credit -119; a
second flush (credit negative) sends nothing. -/
example :
    (match flush (exState [.send (List.replicate 100 7) 0 .reliable, .step 0]) with
     | .ok (s', out) => decide (out.length = 1 ∧ s'.flushAlloc = -119)
     | .error _ => false) = true ∧
    (exState [.send (List.replicate 100 7) 0 .reliable, .step 0, .flush]).flushAlloc = -119 ∧
    (match flush (exState [.send (List.replicate 100 7) 0 .reliable, .step 0, .flush]) with
     | .ok (s', out) => decide (out = [] ∧ s'.flushAlloc = -119)
     | .error _ => false) = true := by
  refine ⟨by decide +kernel, by decide +kernel, by decide +kernel⟩

/-- With a well-formed sender (`PsOk`): every frame fits `MAX_FRAME_SIZE`, a non-negative credit
never drops below minus one frame, hence a credit `≥ -MAX_FRAME_SIZE` stays `≥ -MAX_FRAME_SIZE`;
the sender stays well-formed. -/
theorem C13_credit_floor (s s' : State F) (out : List (List Nat)) (hps : PsOk s.ps)
    (h : flush s = .ok (s', out)) :
    (∀ f ∈ out, f.length ≤ MAX_FRAME_SIZE) ∧
    (0 ≤ s.flushAlloc → -(MAX_FRAME_SIZE : Int) ≤ s'.flushAlloc) ∧
    (-(MAX_FRAME_SIZE : Int) ≤ s.flushAlloc → -(MAX_FRAME_SIZE : Int) ≤ s'.flushAlloc) ∧
    PsOk s'.ps := by
  obtain ⟨hd, hp⟩ := flush_debit True s s' out (fun _ => hps) h
  exact ⟨hd.2.2.2 trivial, hd.2.2.1 trivial, hd.floor trivial, hp trivial⟩

/-- The same debit relation for each of the three emitters (`Debit b A A' out` :
`A' = A - bytes out ∧ (A < 0 → out = []) ∧ (b → 0 ≤ A → -1472 ≤ A') ∧ (b → all frames ≤ 1472)`). -/
theorem C13_emitters (b : Prop) (s : State F) :
    (∀ s' out st, emitAckFrames s = (s', out, st) → Debit b s.flushAlloc s'.flushAlloc out) ∧
    (∀ s' out st, emitSyncFrame s = .ok (s', out, st) → Debit b s.flushAlloc s'.flushAlloc out) ∧
    (∀ s' out st, (b → PsOk s.ps) → emitDataFrames s = .ok (s', out, st) →
      Debit b s.flushAlloc s'.flushAlloc out) :=
  ⟨fun s' out st h => emitAckFrames_debit b s s' out st h,
   fun s' out st h => emitSyncFrame_debit b s s' out st h,
   fun s' out st hps h => (emitDataFrames_debit b s s' out st hps h).1⟩

/-- `PsOk` holds for a fresh half connection and is preserved by every event whose `send`s respect
`MAX_PACKET_SIZE`. -/
theorem C13_psOk_init (ops : FloatOps F) (c : Config) (now : Nat) (rng : Rng) :
    PsOk (HalfConn.init ops c now rng).ps := by
  simp [PsOk, HalfConn.init, PSend.init]

theorem C13_psOk_exec (ops : FloatOps F) (s s1 : State F) (ev : Ev) (out : List (List Nat))
    (hok : ev.Ok) (hps : PsOk s.ps) (h : exec ops s ev = .ok (s1, out)) : PsOk s1.ps :=
  (exec_credit ops s s1 ev out hok hps h).1

/-! ## 3. Flushing never adds credit -/

theorem C13_flush_idempotent_credit (s s' : State F) (out : List (List Nat))
    (h : flush s = .ok (s', out)) : s'.flushAlloc ≤ s.flushAlloc :=
  (flush_debit False s s' out (fun h => h.elim) h).1.le

/-! ## 4. The rate bound -/

/-- Over ANY interleaving of operations starting in a well-formed state: the bytes sent, plus the
credit left at the end (or `-1472` if it is lower), are at most the credit at the start (or `-1472`
if it is lower) plus the bytes credited by the fills (`Σ max new_bytes 0` over the `step`s of the
list). In particular `bytes ≤ max A₀ (-1472) + Σ credits + 1472`. -/
theorem C13_interval (ops : FloatOps F) (evs : List Ev) (s s' : State F) (b : Nat) (c : Int)
    (hok : ∀ ev ∈ evs, ev.Ok) (hps : PsOk s.ps) (h : run ops s evs = .ok (s', b, c)) :
    (b : Int) + max s'.flushAlloc (-(MAX_FRAME_SIZE : Int)) ≤
      max s.flushAlloc (-(MAX_FRAME_SIZE : Int)) + c ∧
    (b : Int) ≤ max s.flushAlloc (-(MAX_FRAME_SIZE : Int)) + c + MAX_FRAME_SIZE := by
  have := (run_credit ops evs s s' b c hok hps h).2
  refine ⟨this, ?_⟩
  simp only [MAX_FRAME_SIZE] at this ⊢
  omega

/-- Non-vacuity: the run `Uflow.CreditEx.exEvs` (three packets, three steps at 0 s, 1 s, 3 s with
flushes in between) satisfies the hypotheses; it sends 3429 bytes with 4416 bytes of credit granted
and 987 left: `3429 + 987 ≤ 0 + 4416`. -/
example : (∀ ev ∈ exEvs, ev.Ok) ∧ PsOk exS0.ps ∧
    (match run exOps exS0 exEvs with
     | .ok (s, b, c) => decide (b = 3429 ∧ c = 4416 ∧ s.flushAlloc = 987)
     | .error _ => false) = true :=
  ⟨by decide +kernel, C13_psOk_init _ _ _ _, by decide +kernel⟩

/-- Between two `step`s (an event list without `step`, e.g. `flush*` interleaved with anything
else): no credit is granted, so the bytes sent are at most the credit after the fill plus one
frame. -/
theorem C13_interval_between_steps (ops : FloatOps F) (evs : List Ev) (s s' : State F) (b : Nat)
    (c : Int) (hok : ∀ ev ∈ evs, ev.Ok) (hns : ∀ ev ∈ evs, ∀ now, ev ≠ .step now)
    (hps : PsOk s.ps) (hA : -(MAX_FRAME_SIZE : Int) ≤ s.flushAlloc)
    (h : run ops s evs = .ok (s', b, c)) :
    c = 0 ∧ (b : Int) ≤ s.flushAlloc + MAX_FRAME_SIZE := by
  have hc := run_noStep_credit ops evs s s' b c hns h
  have := (C13_interval ops evs s s' b c hok hps h).2
  refine ⟨hc, ?_⟩
  simp only [MAX_FRAME_SIZE] at this hA ⊢
  omega

/-- Non-vacuity: no `step` at all, credit 0: one data frame of 119 bytes `≤ 0 + 1472` goes out. -/
example : (∀ ev ∈ [Ev.send (List.replicate 100 7) 0 .reliable, .flush, .flush], ev.Ok) ∧
    (∀ ev ∈ [Ev.send (List.replicate 100 7) 0 .reliable, .flush, .flush], ∀ now, ev ≠ .step now) ∧
    PsOk exS0.ps ∧ -(MAX_FRAME_SIZE : Int) ≤ exS0.flushAlloc ∧
    (match run exOps exS0 [.send (List.replicate 100 7) 0 .reliable, .flush, .flush] with
     | .ok (s, b, c) => decide (b = 119 ∧ c = 0 ∧ s.flushAlloc = -119)
     | .error _ => false) = true :=
  ⟨by decide +kernel, fun ev hev now he => by subst he; simp at hev, C13_psOk_init _ _ _ _,
    by decide, by decide +kernel⟩

end Uflow.Props.C13
