import Uflow.Model.HalfConn

/-! # C13 (theorems are being added) -/

namespace Uflow.Props.C13

open Uflow.Rate

/-- `satMul2` (the model of `saturating_mul(2)`) never exceeds u32::MAX. -/
theorem C13_satMul2_le (x : Nat) : satMul2 x ≤ u32max := by
  unfold satMul2; omega

end Uflow.Props.C13
