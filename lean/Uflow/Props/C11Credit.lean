import Uflow.Lemmas.CreditLiveEx

/-!
# C11 (credit) — the send credit always recovers, for every step cadence

Property C11: "no loss pattern or step cadence stalls a connection permanently". C13 bounds the
leaky-bucket credit `flush_alloc` from ABOVE; this file is the LOWER bound: whatever the number and
spacing of the `step`s, after `T` with `MINIMUM_RATE · T ≥ (1472 + 1)·10⁹ (+ slack)` the credit is
non-negative again (or a `flush` was already allowed to send in the meantime). History: defect F15 —
the fill rounded `rate·dt` to the nearest byte and dropped the remainder, so an application stepping
faster than `1/(2·rate)` never regained credit (`C11_rounding_fill_starves*`).

Models: `Uflow.HalfConn` (`fillFlushAlloc`, `step`, `flush`), `Uflow.Rate.FloatOps` (abstract floating
point), runs `Uflow.Credit.Ev` / `exec` / `run` of C13 (any interleaving of `step`, `flush`, `send`,
`receive`, `handle_{data,sync,ack}_frame`; `run` returns the final state, the bytes handed to the
frame sink and the credit granted).

Vocabulary (`Uflow/Lemmas/CreditLive*.lean`, `Uflow/Lemmas/CreditBoundSum.lean`):
* `G = 10⁹`; times in ns, rates in B/s, `rate * dt` and `v frac` in nano-bytes;
* `FillLo ops eps` — the hypothesis on the float operations: for rates `≤ maxRate`, step distances
  `≤ maxDt` and `good` fractions, `(n, f') = ops.fillBytes rate dt f` satisfies `0 ≤ n`, `good f'`,
  `v f' < 10⁹` and `rate·dt + v f ≤ n·10⁹ + v f' + eps`; and `0 ≤ ops.fillMax rate rtt`
  (dual to `FillOk` of C13; `exactOps` satisfies it with `eps = 0`: `C11_fillLo_exact`);
* `phi L s = flushAlloc·10⁹ + v flushFrac` — the credit in nano-bytes;
* `LInv L m s` — `MINIMUM_RATE ≤ sendRate ≤ maxSendRate = m`, `good flushFrac`, and a fill time is
  recorded (`timeLastFlushed = some _`: the very first `step` only records the time). It is
  preserved by every event (`C11_credit_recurrence`); the rate floor is the C14 floor invariant
  (`C14_floor_partial`), which needs `∀ rtt, MINIMUM_RATE ≤ ops.initRate rtt`
  (necessary: `C14_floor_witness_run`);
* `lastNow s` — time of the last `step`; `endTime t evs` — time of the last `step` after `evs`;
  `nSteps evs`; `stepsOk D t evs` — `step` times non-decreasing and at most `D` apart;
* `someFlushOk ops s evs` — some `flush` of the run was called with credit `≥ 0`;
* `cadence dt t n` — `n` steps `dt` ns apart starting after `t`;
* `badOps` — the pre-F15 fill: `round(rate·dt)`, nothing carried; `negState ops` — ceiling 1472 B/s,
  one 1472-byte frame sent on credit 0: credit `−1472`, last `step` at 0.
-/

namespace Uflow.Props.C11

open Uflow Uflow.Gen Uflow.Codec Uflow.HalfConn Uflow.Credit Uflow.CreditBound Uflow.CreditLive
open Uflow.Rate (FloatOps)
open Uflow.HcInv (lastNow evTime)

variable {F : Type}

/-! ## 1. The hypothesis, and exact arithmetic satisfies it -/

/-- Exact arithmetic (`exactOps`: `⌊x⌋` and the remainder in nano-bytes) satisfies `FillLo` with
slack `eps = 0`, for every bound `R` on the rates and `D` on the step distances; at the same time it
satisfies the upper bound `FillOk` of C13 with `eps = 0` (`exactFillOk`): a fill credits exactly
`rate·dt`. -/
theorem C11_fillLo_exact (R D : Nat) :
    (∃ L : FillLo exactOps 0, L.maxRate = R ∧ L.maxDt = D ∧ (∀ f, L.good f ↔ f < G) ∧
      ∀ f, L.v f = f) ∧
    ∀ rate dt f, ((rate * dt + f : Nat) : Int) =
      (exactOps.fillBytes rate dt f).1 * (G : Int) + (((exactOps.fillBytes rate dt f).2 : Nat) : Int) := by
  refine ⟨⟨exactFillLo R D, rfl, rfl, fun _ => Iff.rfl, fun _ => rfl⟩, ?_⟩
  intro rate dt f
  show _ = (((rate * dt + f) / G : Nat) : Int) * (G : Int) + (((rate * dt + f) % G : Nat) : Int)
  have := Nat.div_add_mod (rate * dt + f) G
  generalize (rate * dt + f) / G = q at this ⊢
  generalize (rate * dt + f) % G = r at this ⊢
  generalize rate * dt = X at this ⊢
  simp only [G] at this ⊢
  omega

/-! ## 2. The recurrence -/

/-- **Lower-bound recurrence.** For every `ops` with `FillLo ops eps` and a floored `initRate`,
over ANY event list from a state satisfying `LInv`, with `step` times non-decreasing and at most
`maxDt` apart, if the run does not trap:
* `LInv` holds at the end and the time of the last `step` is `endTime`;
* the credit plus the bytes sent `b` is at least `min (initial credit) 0`;
* either `0 ≤ credit + b` (some `step` hit the cap `min (…) allocMax` or the saturation of
  `saturating_add`: the credit was set to `allocMax ≥ 0` there), or
  `phi s + MINIMUM_RATE·(endTime − lastNow s) ≤ phi s' + b·10⁹ + nSteps·eps`
  (what was credited is at least `Σ rateᵢ·dtᵢ ≥ MINIMUM_RATE·T`, minus the bytes debited, minus the
  slack; the per-event version with the actual rate is `CreditLive.exec_lo`);
* if no `flush` was called with credit `≥ 0`, nothing was sent. -/
theorem C11_credit_recurrence (ops : FloatOps F) {eps : Nat} (L : FillLo ops eps) (m : Nat)
    (hmin : MINIMUM_RATE ≤ m) (hR : m ≤ L.maxRate) (hinit : ∀ rtt, MINIMUM_RATE ≤ ops.initRate rtt)
    (evs : List Ev) (s s' : State F) (b : Nat) (c : Int) (hi : LInv L m s)
    (ht : stepsOk L.maxDt (lastNow s) evs = true) (h : run ops s evs = .ok (s', b, c)) :
    LInv L m s' ∧ lastNow s' = endTime (lastNow s) evs ∧ lastNow s ≤ lastNow s' ∧
    min s.flushAlloc 0 ≤ s'.flushAlloc + (b : Int) ∧
    (0 ≤ s'.flushAlloc + (b : Int) ∨
      phi L s + ((MINIMUM_RATE * (lastNow s' - lastNow s) : Nat) : Int) ≤
        phi L s' + (b : Int) * (G : Int) + ((nSteps evs * eps : Nat) : Int)) ∧
    (someFlushOk ops s evs = false → b = 0) :=
  run_lo ops L m hmin hR hinit evs s s' b c hi ht h

/-! ## 3. No starvation, for any cadence -/

/-- **C11: the credit recovers (events that do not debit).** For every `ops` with `FillLo ops eps`
(any slack `eps`) and floored `initRate`, every state with `LInv` and credit `≥ −1472` (C13:
`C13_credit_floor`), every event list WITHOUT `flush` (any number of `step`s at non-decreasing
times at most `maxDt` apart — one step of 65 s or 10⁶ steps of 65 µs —, `send`, `receive`, frames
from the network) whose last `step` is `T = endTime − lastNow s` after the last `step` before it,
with `MINIMUM_RATE · T ≥ (1472 + 1)·10⁹ + nSteps·eps`: if the run does not trap, the final credit
is `≥ 0`, so the next `flush` may send.

Hypotheses taken explicitly: `hinit` (the C14 floor invariant needs it and it is necessary there);
`LInv.started` (a `step` has already happened; before the first `step` no time is recorded and the
first `step` credits nothing). The rate floor along the run is NOT a hypothesis: it is derived from
`LInv` at the start by the C14 floor theorem. -/
theorem C11_credit_recovers (ops : FloatOps F) {eps : Nat} (L : FillLo ops eps) (m : Nat)
    (hmin : MINIMUM_RATE ≤ m) (hR : m ≤ L.maxRate) (hinit : ∀ rtt, MINIMUM_RATE ≤ ops.initRate rtt)
    (evs : List Ev) (s s' : State F) (b : Nat) (c : Int) (hi : LInv L m s)
    (hA : -(MAX_FRAME_SIZE : Int) ≤ s.flushAlloc)
    (hnf : ∀ ev ∈ evs, ev ≠ .flush)
    (ht : stepsOk L.maxDt (lastNow s) evs = true)
    (hT : (MAX_FRAME_SIZE + 1) * G + nSteps evs * eps ≤
      MINIMUM_RATE * (endTime (lastNow s) evs - lastNow s))
    (h : run ops s evs = .ok (s', b, c)) :
    0 ≤ s'.flushAlloc :=
  run_recovers ops L m hmin hR hinit evs s s' b c hi hA ht hT h (someFlushOk_noFlush ops evs s hnf)

/-- **C11 with flushes interleaved.** Same hypotheses, ANY event list (flushes included): over
such a duration either some `flush` in it was called with credit `≥ 0` (so it was allowed to emit),
or the final credit is `≥ 0`. -/
theorem C11_credit_recovers_flush (ops : FloatOps F) {eps : Nat} (L : FillLo ops eps) (m : Nat)
    (hmin : MINIMUM_RATE ≤ m) (hR : m ≤ L.maxRate) (hinit : ∀ rtt, MINIMUM_RATE ≤ ops.initRate rtt)
    (evs : List Ev) (s s' : State F) (b : Nat) (c : Int) (hi : LInv L m s)
    (hA : -(MAX_FRAME_SIZE : Int) ≤ s.flushAlloc)
    (ht : stepsOk L.maxDt (lastNow s) evs = true)
    (hT : (MAX_FRAME_SIZE + 1) * G + nSteps evs * eps ≤
      MINIMUM_RATE * (endTime (lastNow s) evs - lastNow s))
    (h : run ops s evs = .ok (s', b, c)) :
    someFlushOk ops s evs = true ∨ 0 ≤ s'.flushAlloc := by
  cases hsf : someFlushOk ops s evs with
  | true => exact .inl rfl
  | false => exact .inr (run_recovers ops L m hmin hR hinit evs s s' b c hi hA ht hT h hsf)

/-- **C11, total version.** If moreover the state satisfies the half-connection invariant `HcInv`
(C03) and the events their side conditions `evsOk` (`send` within its preconditions, clock not
running backwards), with the two assumptions on `ops` under which C03 shows that runs do not trap:
the run does not trap, and either some `flush` was called with credit `≥ 0` or the final credit is
`≥ 0`. -/
theorem C11_credit_recovers_total (ops : FloatOps F) (hconv : Rate.BisectConverges ops)
    (hloss : HcInv.LossOk ops) {eps : Nat} (L : FillLo ops eps) (m : Nat)
    (hmin : MINIMUM_RATE ≤ m) (hR : m ≤ L.maxRate) (hinit : ∀ rtt, MINIMUM_RATE ≤ ops.initRate rtt)
    (evs : List Ev) (s : State F) (hinv : HcInv.HcInv s) (hi : LInv L m s)
    (hA : -(MAX_FRAME_SIZE : Int) ≤ s.flushAlloc)
    (hok : HcInv.evsOk (lastNow s) evs = true)
    (ht : stepsOk L.maxDt (lastNow s) evs = true)
    (hT : (MAX_FRAME_SIZE + 1) * G + nSteps evs * eps ≤
      MINIMUM_RATE * (endTime (lastNow s) evs - lastNow s)) :
    ∃ s' b c, run ops s evs = .ok (s', b, c) ∧
      (someFlushOk ops s evs = true ∨ 0 ≤ s'.flushAlloc) := by
  obtain ⟨⟨s', b, c⟩, hr⟩ := HcInv.creditRun_ok ops hconv hloss evs s hinv hok
  exact ⟨s', b, c, hr, C11_credit_recovers_flush ops L m hmin hR hinit evs s s' b c hi hA ht hT hr⟩

/-- **Every cadence, exact arithmetic, concretely.** From `negState exactOps` (ceiling 1472 B/s,
credit `−1472`): for EVERY step distance `dt` and EVERY number `n` of steps with
`23 · n · dt ≥ 1473·10⁹` (65 s in one step, or 256 174 steps of 0.25 ms, or 10⁹ steps of 65 ns), the
run does not trap and the credit is back to `≥ 0`. -/
theorem C11_exact_recovers_every_cadence (dt n : Nat)
    (hT : (MAX_FRAME_SIZE + 1) * G ≤ MINIMUM_RATE * (n * dt)) :
    ∃ s' b c, run exactOps (negState exactOps) (cadence dt 0 n) = .ok (s', b, c) ∧
      0 ≤ s'.flushAlloc := by
  obtain ⟨hA, hl⟩ := negState_exact_facts
  have hinv := negState_hcInv exactOps exactOps_converges exactOps_lossOk
  obtain ⟨⟨s', b, c⟩, hr⟩ := HcInv.creditRun_ok exactOps exactOps_converges exactOps_lossOk
    (cadence dt 0 n) (negState exactOps) hinv (by rw [hl]; exact cadence_evsOk dt 0 n)
  refine ⟨s', b, c, hr, ?_⟩
  refine C11_credit_recovers exactOps (exactFillLo 1472 dt) 1472 (by decide) (Nat.le_refl _)
    exactOps_initRate (cadence dt 0 n) _ s' b c (negState_exact_linv dt) (by rw [hA]; decide)
    (cadence_noFlush dt 0 n) (by rw [hl]; exact cadence_stepsOk dt dt 0 n (Nat.le_refl _)) ?_ hr
  rw [hl, cadence_endTime, cadence_nSteps]
  generalize n * dt = X at hT ⊢
  simp only [G, MAX_FRAME_SIZE, MINIMUM_RATE] at hT ⊢
  omega

/-! ## 4. The hypothesis is needed: the pre-F15 rounding fill starves -/

/-- The rounding fill `badOps` (`round(rate·dt)` credited, remainder dropped) violates `FillLo` for
every slack below 0.368 byte on every domain containing 1472 B/s and 0.25 ms: such a fill credits 0
bytes for 0.368 byte of entitlement and carries nothing. -/
theorem C11_rounding_fill_violates (eps : Nat) (heps : eps < 368000000) (L : FillLo badOps eps)
    (hR : 1472 ≤ L.maxRate) (hD : 250000 ≤ L.maxDt) : False :=
  badOps_not_fillLo eps heps L hR hD

/-- **Starvation of the rounding fill, every run.** Ceiling `m`, `step`s at most `D` ns apart
with `m · D < 0.5` byte (1472 B/s: any cadence faster than 0.339 ms), ANY interleaving of the other
operations: a negative credit stays negative for ever and nothing is ever sent — the permanent stall
of defect F15. -/
theorem C11_rounding_fill_starves (m D : Nat) (hmin : MINIMUM_RATE ≤ m) (hmD : m * D < 500000000)
    (evs : List Ev) (s s' : State Nat) (b : Nat) (c : Int)
    (hle : s.rate.sendRate ≤ s.rate.maxSendRate) (hmax : s.rate.maxSendRate = m)
    (ht : stepsOk D (lastNow s) evs = true) (hA : s.flushAlloc < 0)
    (h : run badOps s evs = .ok (s', b, c)) : s'.flushAlloc < 0 ∧ b = 0 :=
  bad_run_neg m D hmin hmD evs s s' b c hle hmax ht hA h

/-- **Starvation, concretely, for all `n`.** At 1472 B/s with a `step` every 0.25 ms, from the same
state as `C11_exact_recovers_every_cadence` (credit `−1472`): for EVERY `n` the run of `n` steps does
not trap and the credit is still negative — it never becomes non-negative, whereas exact arithmetic
is back at `≥ 0` after 256 174 such steps. -/
theorem C11_rounding_fill_starves_forever (n : Nat) :
    ∃ s' b c, run badOps (negState badOps) (cadence 250000 0 n) = .ok (s', b, c) ∧
      s'.flushAlloc < 0 ∧ b = 0 := by
  obtain ⟨hA, hl, hle, hmax⟩ := negState_bad_facts
  have hinv := negState_hcInv badOps badOps_converges badOps_lossOk
  obtain ⟨⟨s', b, c⟩, hr⟩ := HcInv.creditRun_ok badOps badOps_converges badOps_lossOk
    (cadence 250000 0 n) (negState badOps) hinv (by rw [hl]; exact cadence_evsOk _ 0 n)
  exact ⟨s', b, c, hr, bad_run_neg 1472 250000 (by decide) (by decide) _ _ s' b c hle hmax
    (by rw [hl]; exact cadence_stepsOk _ _ 0 n (Nat.le_refl _)) (by rw [hA]; decide) hr⟩

/-- The contrast at the same cadence: 256 174 steps of 0.25 ms (64.04 s). -/
example : ∃ s' b c, run exactOps (negState exactOps) (cadence 250000 0 256174) = .ok (s', b, c) ∧
    0 ≤ s'.flushAlloc :=
  C11_exact_recovers_every_cadence 250000 256174 (by decide)

/-! ## 5. Non-vacuity -/

/-- A concrete run with `exactOps` meeting every hypothesis of `C11_credit_recovers`: state
`negState exactOps` (credit `−1472`, rate 1472 B/s, last `step` at 0), steps at 30 s and 65 s with a
`receive` and a `send` in between (`23 · 65·10⁹ ≥ 1473·10⁹`); the run ends with credit 0 (the cap
`rate × rtt` is 0 as long as there is no RTT estimate) and 0 bytes sent. -/
example :
    let evs : List Ev := [.step 30000000000, .receive, .send [1, 2, 3] 0 .reliable, .step 65000000000]
    LInv (exactFillLo 1472 40000000000) 1472 (negState exactOps) ∧
    MINIMUM_RATE ≤ 1472 ∧ 1472 ≤ (exactFillLo 1472 40000000000).maxRate ∧
    (∀ rtt, MINIMUM_RATE ≤ exactOps.initRate rtt) ∧
    -(MAX_FRAME_SIZE : Int) ≤ (negState exactOps).flushAlloc ∧
    (∀ ev ∈ evs, ev ≠ .flush) ∧
    stepsOk (exactFillLo 1472 40000000000).maxDt (lastNow (negState exactOps)) evs = true ∧
    (MAX_FRAME_SIZE + 1) * G + nSteps evs * 0 ≤
      MINIMUM_RATE * (endTime (lastNow (negState exactOps)) evs - lastNow (negState exactOps)) ∧
    (match run exactOps (negState exactOps) evs with
     | .ok (s', b, _) => decide (s'.flushAlloc = 0 ∧ b = 0)
     | .error _ => false) = true := by
  intro evs
  refine ⟨negState_exact_linv _, by decide, Nat.le_refl _, exactOps_initRate, by decide +kernel,
    by decide, by decide +kernel, by decide +kernel, by decide +kernel⟩

/-- With flushes interleaved (`C11_credit_recovers_flush`): the flushes at 0.3 s and 0.6 s find a
negative credit (`−1031`, `−590`) and send nothing, the one after the step at 65 s finds credit 0 and
sends the second frame (1472 bytes). -/
example :
    let evs : List Ev := [.step 300000000, .flush, .step 600000000, .flush, .step 65000000000]
    stepsOk 65000000000 (lastNow (negState exactOps)) evs = true ∧
    someFlushOk exactOps (negState exactOps) evs = false ∧
    someFlushOk exactOps (negState exactOps) (evs ++ [.flush]) = true ∧
    (match run exactOps (negState exactOps) evs with
     | .ok (s', b, _) => decide (s'.flushAlloc = 0 ∧ b = 0)
     | .error _ => false) = true ∧
    (match run exactOps (negState exactOps) (evs ++ [.flush]) with
     | .ok (s', b, _) => decide (s'.flushAlloc = -1472 ∧ b = 1472)
     | .error _ => false) = true := by
  intro evs
  refine ⟨by decide +kernel, by decide +kernel, by decide +kernel, by decide +kernel,
    by decide +kernel⟩

/-- The rounding fill on a short prefix of the cadence of `C11_rounding_fill_starves_forever`,
evaluated: after 40 steps of 0.25 ms (10 ms, 14.72 bytes of entitlement) `badOps` has credited
nothing, `exactOps` 14 bytes. -/
example :
    (match run badOps (negState badOps) (cadence 250000 0 40) with
     | .ok (s', _, c) => decide (s'.flushAlloc = -1472 ∧ c = 0)
     | .error _ => false) = true ∧
    (match run exactOps (negState exactOps) (cadence 250000 0 40) with
     | .ok (s', _, c) => decide (s'.flushAlloc = -1458 ∧ c = 14 ∧ s'.flushFrac = 720000000)
     | .error _ => false) = true := by
  refine ⟨by decide +kernel, by decide +kernel⟩

end Uflow.Props.C11
