import Uflow.Lemmas.HcGateLaterMain
import Uflow.Props.C09Gate

/-!
# C09GateLater — gate open, then the peer's `receive` at any LATER point

`Props/C09Gate.lean` proves: if `A.is_send_pending() = false` (the flush gate of `disconnect()` is
open), ONE `B.receive` at that instant hands every Reliable packet to `B`'s application. The peer does
not call `receive` at that instant, though, but when it processes the Disconnect frame — after an
arbitrary continuation of the run: more frames delivered in any order, timer steps, flushes, `receive`
calls, acknowledgements, even further `A.send` calls. This file proves the prefix / stability version.

* `C09_sys_receive_delivers_complete_prefix` — packet-layer system `Sys`: in every reachable state, if
  every Reliable packet emitted at a position `< n` is completely received (`Sys.Recvd`), ONE `recv`
  step puts every Reliable packet emitted at a position `< n` into the log, with channel and payload.
  Nothing is assumed about positions `≥ n` (the Reliable channel parent that can block a packet in the
  delivery pass is an EARLIER packet).
* `C09_sys_recorded_sync_stable` — `Sys`: "completely received" is stable. For every reachable state and
  every value `(n, id)` recorded by an earlier `sync` step (taken under the guard `SyncOk`), every
  Reliable packet emitted at a position `< n` is `Recvd` — whatever steps were taken in between.
* `C09_hc_gate_complete_stable` — the pair: gate open in `h1`, then ANY `Guarded` continuation; in the
  state reached, every Reliable packet emitted in `h1` is in the attribution log of the payloads
  `B.receive` returned, or `RecvdP` (passed by `B`'s base, or entry flag in `B`'s window).
* `C09_hc_gate_then_later_receive` — the pair: gate open in `h1` (end of `sched1`), ANY `Guarded`
  continuation `sched2`, then `B.receive` (state `h2`): every Reliable packet `A.send` accepted BEFORE
  the gate opened has been returned by one of `B`'s `receive` calls up to and including that one —
  byte-exact, exactly once, in per-channel submission order; `C09_hc_gate_then_later_receive_run` is the
  same with one `Guarded` run `sched1 ++ sched2 ++ [.recvB]`.
* `C09_gate_open_then_later_receive_client` / `_server` — composition with the flush gate of the
  endpoints (`Props/C09.lean`).

How the stability is proved: the `Sys` run simulating `sched1` is extended by a `sync` step — its guard
`Sys.SyncOk` holds because the gate is open (`C01_hc_sync_ok`) — which records
`(number of packets emitted, next id)` in the ghost list `syncs`; the refinement relation `HcSys.Rel`
only asks `h.syncs ⊆ s.syncs`, so the simulation (`HcSys.sim_run`) continues over `sched2` from the same
pair state; `syncs` only grows (`Sys.runS_syncs_mono`), and the clause `PInv.sync` of the delivery
invariant of `Sys` (proved for every step in `Lemmas/SysPassInv.lean`: `handle_datagram` never clears an
entry flag, `receive` logs what it takes out, `advance_window` / `resynchronize` pass a Reliable packet
only after it was logged) is exactly the statement that the packets emitted before a recorded `sync`
stay completely received.

What is still not modelled: two ENDPOINTS over one network, i.e. that the peer endpoint's `receive`
comes before its handling of the Disconnect frame (`receive` is called at the end of every endpoint
step, `C09_flush_gate_*`). Helper lemmas: `Uflow/Lemmas/HcGateLater{Sys,Pair,Main}.lean`.
-/

namespace Uflow.Props.C09

open Uflow Uflow.Gen Uflow.Codec Uflow.HalfConn Uflow.PSend Uflow.HcSys Uflow.HcFlush Uflow.HcGate
open Uflow.Endpoint
open Uflow.PRecv (LogE)
open Uflow.Rate (FloatOps)
open Uflow.EpNoTrap (hcOf)
open Uflow.Props.C01 (SyncCfg)
open Uflow.Props.C01Sys
open Uflow.HcFrm (IdsNodup)

variable {F : Type}

/-- **`receive` hands out every completely received Reliable packet — prefix form** (`Sys`). Let `s` be
any state reachable from `PacketSender::new(w, b, a)` / `PacketReceiver::new(2^k, b, m)` (`w ≤ 2^16`,
`w ≤ 2^k`, `k ≤ 19`, `b < 2^20`, `allocCeil a ≤ allocCeil m`) and `n` a bound such that every Reliable
emitted packet at an emission position `< n` is completely received (`Sys.Recvd`: in the log, passed by
the window base, or in the window with its entry flag). Then after ONE `recv` step every Reliable
emitted packet `x` at a position `j < n` has a log entry with `uid = j`, the channel and the payload of
`x`; sender and histories are unchanged and the log only grew. With `n = emitted.length` this is
`C09_sys_receive_delivers_complete_reliable`. -/
theorem C09_sys_receive_delivers_complete_prefix (w k b a m : Nat) (hwk : w ≤ 2^k) (hw : w ≤ 2^16)
    (hk : k ≤ 19) (hb : b < 2^20) (ham : allocCeil a ≤ allocCeil m) (sops : List Sys.SOp) (s s' : Sys.Sys)
    (hs : Sys.runS (Sys.initS w (2^k) b a m) sops = .ok s) (n : Nat)
    (hok : ∀ j x, s.hist.emitted[j]? = some x → x.mode = .reliable → j < n → Sys.Recvd s x)
    (hstep : Sys.stepS s .recv = .ok s') :
    Sys.runS (Sys.initS w (2^k) b a m) (sops ++ [.recv]) = .ok s' ∧ s'.hist = s.hist ∧ s'.snd = s.snd ∧
    (∀ e ∈ s.rcv.log, e ∈ s'.rcv.log) ∧
    ∀ j x, s'.hist.emitted[j]? = some x → x.mode = .reliable → j < n →
      ∃ e ∈ s'.rcv.log, e.uid = j ∧ e.chan = x.channelId ∧ e.data = some x.data := by
  have hinv := C01_sys_reach w k b a m (by omega) hk hb sops s hs
  have hp := C02_sys_reach_delivery w k b a m hw hk hb sops s hs
  obtain ⟨hmono, hdel⟩ := Sys.recv_delivers_complete_prefix (PRecv.wOk_pow k hk) hw hwk hinv hp n
    (fun j x hx hrel hj => Sys.recvdW_of_recvd hinv j x hx (hok j x hx hrel hj)) hstep
  obtain ⟨f1, f2, -⟩ := stepS_recv_frame hstep
  have hfull : Sys.runS (Sys.initS w (2^k) b a m) (sops ++ [.recv]) = .ok s' := by
    rw [HcSys.runS_append, hs, PRecv.bindR_ok]; exact runS_single _ _ _ hstep
  refine ⟨hfull, f2, f1, hmono, ?_⟩
  intro j x hx hrel hj
  obtain ⟨e, he, hu⟩ := hdel j x (by rw [← f2]; exact hx) hrel hj
  obtain ⟨em, hem, hd⟩ := C01_sys_delivered_payload w k b a m hw hk hb ham _ s' hfull e he
  obtain ⟨em', hem', _, _, _, hch, _⟩ := C01_sys_delivered_is_emitted w k b a m (by omega) hk hb _ s' hfull e he
  rw [hu, hx] at hem hem'
  cases hem
  cases hem'
  exact ⟨e, he, hu, hch, hd⟩

/-- **"Completely received" is stable** (`Sys`). In every reachable state `s` (`w ≤ 2^16`, `k ≤ 19`,
`b < 2^20`), for every value `(n, id)` in the ghost list `syncs` — recorded by an earlier `sync` step,
which is only taken while `Sys.SyncOk` holds: every Reliable packet emitted so far completely received —
every Reliable packet emitted at a position `< n` is STILL completely received (`Sys.Recvd s x`: in the
log, or passed by the receive window base, or in the receive window with its entry flag), whatever steps
(datagrams in any order, `receive`, acknowledgements, further emissions, `resync`) were taken since. -/
theorem C09_sys_recorded_sync_stable (w k b a m : Nat) (hw : w ≤ 2^16) (hk : k ≤ 19) (hb : b < 2^20)
    (sops : List Sys.SOp) (s : Sys.Sys) (hs : Sys.runS (Sys.initS w (2^k) b a m) sops = .ok s) (n id : Nat)
    (hmem : (n, id) ∈ s.syncs) (j : Nat) (x : Emitted) (hx : s.hist.emitted[j]? = some x)
    (hrel : x.mode = .reliable) (hj : j < n) : Sys.Recvd s x :=
  sys_recorded_sync_recvd w k b a m hw hk hb sops s hs n id hmem j x hx hrel hj

/-- **Stability on the pair.** Hypotheses as in `C09_hc_gate_then_receive` for the run `sched1` ending
in `h1` with the gate open (`SyncCfg`, allocation condition, `Guarded`, `IdsNodup h1.wireAB`,
`A.is_send_pending() = false`); `sched2` is ANY continuation from `h1` that is `Guarded`, ending in
`hm`. Then there are an attribution `log` of the payloads `B.receive` has returned up to `hm` and the
emission history `em` of `hm` (`Attributed hm log em`), `h1.em` is a prefix of `em`, and every Reliable
packet `x` emitted in `h1` (position `j`) has a log entry with `uid = j` — it was already handed to the
application — or `RecvdP hm x`: `B`'s receive window base has passed it, or it sits in `B`'s receive
window with its entry flag. Nothing the network or either side does after the gate opened can make `B`
lose a completely received Reliable packet. -/
theorem C09_hc_gate_complete_stable (ops : FloatOps F) (cA cB : Config) (nowA nowB : Nat) (rngA rngB : Rng)
    (k : Nat) (hc : SyncCfg cA cB k) (ham : allocCeil cA.txAllocLimit ≤ allocCeil cB.rxAllocLimit)
    (sched1 sched2 : List POp) (h1 hm : HcPair F)
    (hg1 : Guarded ops (initP ops cA cB nowA nowB rngA rngB) sched1)
    (hrun1 : runP ops (initP ops cA cB nowA nowB rngA rngB) sched1 = .ok h1)
    (hn : IdsNodup h1.wireAB) (hidle : isSendPending h1.A = false)
    (hg2 : Guarded ops h1 sched2) (hrun2 : runP ops h1 sched2 = .ok hm) :
    ∃ (log : List LogE) (em : List Emitted), Attributed hm log em ∧ h1.em <+: em ∧
      ∀ j x, h1.em[j]? = some x → x.mode = .reliable → (∃ e ∈ log, e.uid = j) ∨ RecvdP hm x :=
  gate_stable ops cA cB nowA nowB rngA rngB k hc ham sched1 sched2 h1 hm hg1 hrun1 hn hidle hg2 hrun2

/-- **Gate open, any continuation, then `receive` of the peer.** `sched1` is a `Guarded` run from two
fresh half connections (`SyncCfg cA cB k`, `allocCeil cA.txAllocLimit ≤ allocCeil cB.rxAllocLimit`)
ending in `h1`, without a reused frame id (`IdsNodup h1.wireAB`), and `A.is_send_pending() = false` in
`h1`: the flush gate is open, the Disconnect request is sent now. `sched2` is ANY `Guarded` continuation
from `h1` (frames in any order, lost, duplicated; steps, flushes, `receive` calls; further `A.send`
calls) ending in `hm`. Then `B.receive` in `hm` does not trap, and in the state `h2` after it there are
an attribution `log` of the payloads returned by ALL of `B`'s `receive` calls (`h2.outs`) and the
emission history `em` of `h2` (`HcFlush.Attributed h2 log em`: byte-exact, at most once, per-channel
order) such that
* `h1.em <+: em` and `h1.sent <+: h2.sent` — the histories of `h1` are prefixes of those of `h2`
  (`uid` = position means the same packet in both);
* `h1.sent.filter notTS = (h1.em.map toQ).filter notTS` — every `A.send` call before the gate opened
  that is not TimeSensitive had been emitted when it opened;
* every Reliable packet `x = h1.em[j]` has a log entry `e` with `e.uid = j`, `e.chan = x.channelId`,
  `e.data = some x.data`: it was returned by one of `B`'s `receive` calls — before the gate opened,
  between, or by the last one — byte-exact, exactly once (`Attributed.once`);
* for every channel `c`: the Reliable payloads submitted on `c` before the gate opened, in submission
  order, are a subsequence of the payloads delivered on `c`.
Nothing is claimed about packets submitted after the gate opened (`C09_hc_gate_later_example`). The
hypothesis `IdsNodup` is needed only up to `h1`; it follows from `IdsNodup` of any later wire
(`C09_hc_gate_then_later_receive_run`). -/
theorem C09_hc_gate_then_later_receive (ops : FloatOps F) (cA cB : Config) (nowA nowB : Nat) (rngA rngB : Rng)
    (k : Nat) (hc : SyncCfg cA cB k) (ham : allocCeil cA.txAllocLimit ≤ allocCeil cB.rxAllocLimit)
    (sched1 sched2 : List POp) (h1 hm : HcPair F)
    (hg1 : Guarded ops (initP ops cA cB nowA nowB rngA rngB) sched1)
    (hrun1 : runP ops (initP ops cA cB nowA nowB rngA rngB) sched1 = .ok h1)
    (hn : IdsNodup h1.wireAB) (hidle : isSendPending h1.A = false)
    (hg2 : Guarded ops h1 sched2) (hrun2 : runP ops h1 sched2 = .ok hm) :
    ∃ h2, stepP ops hm .recvB = .ok h2 ∧
      runP ops (initP ops cA cB nowA nowB rngA rngB) (sched1 ++ sched2 ++ [.recvB]) = .ok h2 ∧
      ∃ (log : List LogE) (em : List Emitted), Attributed h2 log em ∧
        h1.em <+: em ∧ h1.sent <+: h2.sent ∧
        h1.sent.filter notTS = (h1.em.map Emitted.toQ).filter notTS ∧
        (∀ j x, h1.em[j]? = some x → x.mode = .reliable →
          ∃ e ∈ log, e.uid = j ∧ e.chan = x.channelId ∧ e.data = some x.data) ∧
        ∀ c, ((h1.sent.filter (fun q => decide (q.mode = .reliable ∧ q.channelId = c))).map QEntry.data).Sublist
          ((log.filter (fun e => decide (e.chan = c))).filterMap LogE.data) := by
  have hfull : runP ops (initP ops cA cB nowA nowB rngA rngB) (sched1 ++ sched2) = .ok hm := by
    rw [runP_append, hrun1, PRecv.bindR_ok]; exact hrun2
  have him := C01.C01_hc_reach ops cA cB nowA nowB rngA rngB hc.pc _ hm hfull
  obtain ⟨h2, hstep⟩ := recvB_ok ops him
  refine ⟨h2, hstep, ?_, gate_then_later_receive ops cA cB nowA nowB rngA rngB k hc ham sched1 sched2 h1 hm h2
    hg1 hrun1 hn hidle hg2 hrun2 hstep⟩
  rw [runP_append, hfull, PRecv.bindR_ok]
  show PRecv.bindR (stepP ops hm .recvB) (fun h' => runP ops h' []) = _
  rw [hstep, PRecv.bindR_ok]
  rfl

/-- The same for ONE run `sched1 ++ sched2 ++ [.recvB]` that is `Guarded`, ends in `h2` and has not
reused a frame id up to `h2`; the gate is open at the end of `sched1`. -/
theorem C09_hc_gate_then_later_receive_run (ops : FloatOps F) (cA cB : Config) (nowA nowB : Nat)
    (rngA rngB : Rng) (k : Nat) (hc : SyncCfg cA cB k)
    (ham : allocCeil cA.txAllocLimit ≤ allocCeil cB.rxAllocLimit)
    (sched1 sched2 : List POp) (h1 h2 : HcPair F)
    (hg : Guarded ops (initP ops cA cB nowA nowB rngA rngB) (sched1 ++ sched2 ++ [.recvB]))
    (hrun1 : runP ops (initP ops cA cB nowA nowB rngA rngB) sched1 = .ok h1)
    (hidle : isSendPending h1.A = false)
    (hrun2 : runP ops (initP ops cA cB nowA nowB rngA rngB) (sched1 ++ sched2 ++ [.recvB]) = .ok h2)
    (hn : IdsNodup h2.wireAB) :
    ∃ (log : List LogE) (em : List Emitted), Attributed h2 log em ∧
      h1.em <+: em ∧ h1.sent <+: h2.sent ∧
      h1.sent.filter notTS = (h1.em.map Emitted.toQ).filter notTS ∧
      (∀ j x, h1.em[j]? = some x → x.mode = .reliable →
        ∃ e ∈ log, e.uid = j ∧ e.chan = x.channelId ∧ e.data = some x.data) ∧
      ∀ c, ((h1.sent.filter (fun q => decide (q.mode = .reliable ∧ q.channelId = c))).map QEntry.data).Sublist
        ((log.filter (fun e => decide (e.chan = c))).filterMap LogE.data) :=
  gate_then_later_receive_run ops cA cB nowA nowB rngA rngB k hc ham sched1 sched2 h1 h2 hg hrun1 hidle hrun2 hn

/-! ## The flush gate of the endpoints -/

/-- **An open flush gate, then the peer's `receive` at any later point (client).** If `Client::step`, on
the half connection `hcOf ops`, ends in `closing` without having started there, then after the timers of
that step the connection was `active` with half connection `hh` and `signal = now`, or `signal = flush`
and `HcGate.GateReceivesLater ops hh`: `hh.is_send_pending() = false`, and for every `SyncReach` pair
state `hp` whose `A` has the transmit side of `hh`, every `Guarded` continuation of the run from `hp`
followed by `B.receive` leaves `HcGate.LaterComplete hp h2` — every Reliable packet submitted on the
connection before the disconnect request was first transmitted has been returned by the peer's
`receive`, byte-exact, exactly once, in per-channel order. -/
theorem C09_gate_open_then_later_receive_client (ops : FloatOps F) (c c' : Client (HalfConn.State F))
    (nowNs : Nat) (arrivals sent : List (List Nat)) (evs : List CEvent)
    (h : c.step (hcOf ops) nowNs arrivals = .ok (c', sent, evs))
    (hnc : ¬ c.state.isClosing) (hcl : c'.state.isClosing) :
    ∃ (c3 : Client (HalfConn.State F)) (ln : Nat) (hh : HalfConn.State F) (t : Nat)
      (sig : Option DisconnectMode) (pre : List (List Nat)),
      c3.state = .active ln hh t sig ∧ sent = pre ++ [discReq] ∧
      (sig = some .now ∨ (sig = some .flush ∧ GateReceivesLater ops hh)) := by
  obtain ⟨c3, ln, hh, t, sig, _, _, pre, h1, h2, _, _, _, h6⟩ :=
    C09_flush_gate_client (hcOf ops) c c' nowNs arrivals sent evs h hnc hcl
  refine ⟨c3, ln, hh, t, sig, pre, h1, h6, ?_⟩
  rcases h2 with h2 | ⟨h2, h3⟩
  · exact .inl h2
  · exact .inr ⟨h2, gateReceivesLater_of_not_pending ops hh h3⟩

/-- **An open flush gate, then the peer's `receive` at any later point (server).** As for the client,
for one iteration of `step_active_clients` that sends anything. -/
theorem C09_gate_open_then_later_receive_server (ops : FloatOps F) (nowMs nowNs : Nat)
    (acc acc' : Server (HalfConn.State F) × List (Nat × List Nat)) (hw : acc.1.WF) (cid : Nat)
    (h : Server.stepActiveStep (hcOf ops) nowMs nowNs acc cid = .ok acc') (hsent : acc'.2 ≠ acc.2) :
    ∃ (c : RClient (HalfConn.State F)) (hh : HalfConn.State F) (t : Nat) (sig : Option DisconnectMode),
      acc.1.byCid cid = some c ∧ c.state = .active hh t sig ∧ acc'.2 = acc.2 ++ [(c.address, discReq)] ∧
      acc'.1.find c.address = some { c with state := .closing } ∧
      (sig = some .now ∨ (sig = some .flush ∧ GateReceivesLater ops hh)) := by
  obtain ⟨evs, _, hcase⟩ := C09_flush_gate_server (hcOf ops) nowMs nowNs acc acc' hw cid h
  rcases hcase with ⟨_, he⟩ | ⟨c, hh, t, sig, hb, _, hst, hc2⟩
  · exact absurd (by rw [he]) hsent
  · rcases hc2 with ⟨hg, _, _, _, _, hs, hf, _⟩ | ⟨_, _, _, _, _, _, _, hs, _⟩
    · refine ⟨c, hh, t, sig, hb, hst, hs, hf, ?_⟩
      rcases hg with hg | ⟨hg, hp⟩
      · exact .inl hg
      · exact .inr ⟨hg, gateReceivesLater_of_not_pending ops hh hp⟩
    · exact absurd hs hsent

/-! ## Non-vacuity -/

/-- A continuation after the gate opened (end of `hcGateSched`): `A` sends an Unreliable and a further
Reliable packet and flushes (frame 1, LOST: never delivered); `B` steps; the network delivers frame 0 a
second time (refused by `B`'s frame window); `B` flushes. -/
def hcGateLaterSched : List POp :=
  [.sendA [7] 1 .unreliable, .sendA [8,8] 0 .reliable, .stepA 1000000000, .flushA, .stepB 2000000000,
   .deliverAB 0, .flushB]

/-- The whole run `hcGateSched ++ hcGateLaterSched ++ [.recvB]` passes the executable `Guarded` test and
reuses no frame id; at the end of `hcGateSched` the gate is open and nothing has been handed to `B`'s
application; at the end three packets have been emitted, `B.receive` has returned exactly `[1,2,3]` —
the Reliable packet submitted before the gate opened — and not the packets submitted afterwards (their
frame was lost: the theorem claims nothing about them). -/
theorem C09_hc_gate_later_example :
    guardedB CreditEx.exOps C01.hcExPair (hcGateSched ++ hcGateLaterSched ++ [.recvB]) = true ∧
    (match runP CreditEx.exOps C01.hcExPair hcGateSched with
     | .ok h1 => !isSendPending h1.A && decide (h1.outs = [] ∧ h1.em.length = 1)
     | .error _ => false) = true ∧
    (match runP CreditEx.exOps C01.hcExPair (hcGateSched ++ hcGateLaterSched ++ [.recvB]) with
     | .ok h2 => decide (h2.outs = [[1,2,3]] ∧ h2.em.length = 3 ∧ h2.sent.length = 3 ∧
         h2.wireAB.length = 2 ∧ IdsNodup h2.wireAB) && isSendPending h2.A
     | .error _ => false) = true := by
  refine ⟨by decide +kernel, by decide +kernel, by decide +kernel⟩

/-- The hypotheses of `C09_hc_gate_then_later_receive_run` (hence, by splitting the run, of
`C09_hc_gate_then_later_receive` and `C09_hc_gate_complete_stable`) hold for that run. -/
theorem C09_hc_gate_later_example_hyps :
    SyncCfg CreditEx.exCfg CreditEx.exCfg 4 ∧
    allocCeil CreditEx.exCfg.txAllocLimit ≤ allocCeil CreditEx.exCfg.rxAllocLimit ∧
    Guarded CreditEx.exOps C01.hcExPair (hcGateSched ++ hcGateLaterSched ++ [.recvB]) ∧
    ∃ h1 h2, runP CreditEx.exOps C01.hcExPair hcGateSched = .ok h1 ∧ isSendPending h1.A = false ∧
      runP CreditEx.exOps C01.hcExPair (hcGateSched ++ hcGateLaterSched ++ [.recvB]) = .ok h2 ∧
      IdsNodup h2.wireAB ∧ h2.outs = [[1,2,3]] := by
  obtain ⟨hgb, hex1, hex2⟩ := C09_hc_gate_later_example
  refine ⟨C01.C01_hc_sync_example_hyps.1, Nat.le_refl _, C01.C01_hc_guarded_checker _ _ _ hgb, ?_⟩
  cases hr1 : runP CreditEx.exOps C01.hcExPair hcGateSched with
  | error t => rw [hr1] at hex1; cases hex1
  | ok h1 =>
    cases hr2 : runP CreditEx.exOps C01.hcExPair (hcGateSched ++ hcGateLaterSched ++ [.recvB]) with
    | error t => rw [hr2] at hex2; cases hex2
    | ok h2 =>
      rw [hr1] at hex1
      rw [hr2] at hex2
      simp only [Bool.and_eq_true, Bool.not_eq_true', decide_eq_true_eq] at hex1 hex2
      exact ⟨h1, h2, rfl, hex1.1, rfl, hex2.1.2.2.2.2, hex2.1.1⟩

/-- The hypotheses of `C09_sys_receive_delivers_complete_prefix` with a proper prefix: three Reliable
packets on one channel are emitted, the second and then the first arrive, the third does not. With
`n = 2` the hypothesis holds (`Recvd` for positions 0 and 1 — `emitted.take 2`, stated in this decidable
form — but not for 2: `SyncOk` fails); one `recv` step delivers
positions 0 and 1. The recorded `sync` value of `C09_sys_recorded_sync_stable`: a `sync` step taken when
two packets were emitted and received records `(2, 2)`, which is still in `syncs` — and positions 0, 1
are still `Recvd` — after a further emission and a `recv`. -/
example :
    (match Sys.runS (Sys.initS 4 (2^2) 0 100000 100000)
        [.enq [1] 0 .reliable 0, .enq [2] 0 .reliable 0, .enq [3] 0 .reliable 0, .emit 0, .emit 0,
         .deliver 1, .deliver 0, .sync, .emit 0] with
     | .ok s =>
       decide ((∀ x ∈ s.hist.emitted.take 2, x.mode = .reliable → Sys.Recvd s x) ∧
         ¬ Sys.SyncOk s ∧ s.syncs = [(2, 2)] ∧ s.rcv.log = [] ∧ s.hist.emitted.length = 3) &&
       (match Sys.stepS s .recv with
        | .ok s' => decide ((s'.rcv.log.map fun e => (e.uid, e.data)) = [(0, some [1]), (1, some [2])] ∧
            s'.syncs = [(2, 2)] ∧
            ∀ x ∈ s'.hist.emitted.take 2, x.mode = .reliable → Sys.Recvd s' x)
        | .error _ => false)
     | .error _ => false) = true := by decide +kernel

end Uflow.Props.C09
