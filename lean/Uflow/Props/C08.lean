import Uflow.Lemmas.EndpointEventsExamples

/-!
# C08 — the event stream is well-formed

Model: `Uflow.Endpoint` (`Uflow/Model/Endpoint.lean`); every theorem holds for every half connection
`hc : HC H`. Helper lemmas: `Uflow/Lemmas/EndpointClient*.lean`, `Uflow/Lemmas/EndpointEvents*.lean`.

Client monitor (`CPhase`, defined in `Uflow/Lemmas/EndpointClient.lean`):
`idle --connect--> conn --receive--> conn --disconnect | error timeout--> done`, `idle --error e--> done`,
everything else is rejected. `Compat state phase` links the client state to the monitor phase:
`pending ↔ idle`, `active`/`closing ↔ conn`, `closed ↔ done`, `fin ↔ idle or done`.
-/

namespace Uflow.Props.C08

open Uflow.Endpoint Uflow.Codec Uflow.Gen Uflow.HalfConn

variable {H : Type}

/-- `u32` (the model of `.min(u32::MAX as usize) as u32`) fits 32 bits. -/
theorem C08_u32_lt (x : Nat) : u32 x < 2^32 := by
  unfold u32; omega

/-! ## Client -/

/-- `C08_client_stream` (monitor form, any start state): the events delivered by any run from a state
with an empty event buffer are accepted by the monitor started in any phase compatible with the start
state, and the monitor ends in a phase compatible with the final state. -/
theorem C08_client_stream_monitor (hc : HC H) (ops : List COp) (c c' : Client H) (sent : List (List Nat))
    (evs : List CEvent) (h : Client.run hc c ops = .ok (c', sent, evs)) (he : c.eventsOut = [])
    (p : CPhase) (hp : Compat c.state p) :
    c'.eventsOut = [] ∧ ∃ p', p.run evs = some p' ∧ Compat c'.state p' :=
  Client.run_monitor hc ops c c' sent evs h he p hp

/-- `C08_client_stream`: the complete event list of any run of a client created by `Client.connect` is
* empty, or
* a single `error e` (handshake refused or timed out), or
* `connect`, then only `receive`s, then optionally one terminal event, which is `disconnect` or
  `error timeout` — and a terminal event has been delivered iff … the final state tells: still
  `active`/`closing` ⇒ none yet; `closed` ⇒ delivered.
In particular it matches `Connect? Receive* (Disconnect|Error)?`, `receive`/`disconnect` occur only
after `connect`, and nothing follows a terminal event. -/
theorem C08_client_stream (hc : HC H) (ep : EpConfig) (now : Nat) (rng : Rng) (ops : List COp)
    (c' : Client H) (sent : List (List Nat)) (evs : List CEvent)
    (h : Client.run hc (Client.connect ep now rng).1 ops = .ok (c', sent, evs)) :
    ((evs = [] ∧ ∀ ln hh t sig, c'.state ≠ .active ln hh t sig) ∨
     (∃ e, evs = [CEvent.error e] ∧ c'.state.terminal) ∨
     ∃ (pkts : List (List Nat)) (tail : List CEvent), evs = CEvent.connect :: (pkts.map CEvent.receive ++ tail) ∧
       ((tail = [] ∧ ((∃ ln hh t sig, c'.state = .active ln hh t sig) ∨ c'.state.isClosing)) ∨
        ((tail = [CEvent.disconnect] ∨ tail = [CEvent.error .timeout]) ∧ c'.state.terminal))) ∧
    ClientStreamRegex evs := by
  obtain ⟨-, p', hrun, hcompat⟩ := Client.run_monitor hc ops _ c' sent evs h rfl .idle (by simp [Client.connect, Compat])
  rcases CPhase.run_idle evs p' hrun with ⟨rfl, rfl⟩ | ⟨e, rfl, rfl⟩ | ⟨pkts, tail, rfl, ht⟩
  · refine ⟨Or.inl ⟨rfl, ?_⟩, [], [], [], rfl, Or.inl rfl, by simp, Or.inl rfl⟩
    intro ln hh t sig hs; rw [hs] at hcompat; cases hcompat
  · refine ⟨Or.inr (Or.inl ⟨e, rfl, ?_⟩), [], [], [CEvent.error e], rfl, Or.inl rfl, by simp, Or.inr (Or.inr ⟨e, rfl⟩)⟩
    cases hs : c'.state <;> rw [hs] at hcompat <;> simp [Compat] at hcompat
    · exact Or.inr ⟨_, rfl⟩
    · exact Or.inl rfl
  · refine ⟨Or.inr (Or.inr ⟨pkts, tail, rfl, ?_⟩), [CEvent.connect], pkts.map CEvent.receive, tail, by simp,
      Or.inr rfl, by simp, ?_⟩
    · rcases ht with ⟨rfl, rfl⟩ | ⟨ht, rfl⟩
      · refine Or.inl ⟨rfl, ?_⟩
        cases hs : c'.state <;> rw [hs] at hcompat <;> simp [Compat] at hcompat
        · exact Or.inl ⟨_, _, _, _, rfl⟩
        · exact Or.inr ⟨_, _, _, rfl⟩
      · refine Or.inr ⟨ht, ?_⟩
        cases hs : c'.state <;> rw [hs] at hcompat <;> simp [Compat] at hcompat
        · exact Or.inr ⟨_, rfl⟩
        · exact Or.inl rfl
    · rcases ht with ⟨rfl, _⟩ | ⟨rfl | rfl, _⟩
      · exact Or.inl rfl
      · exact Or.inr (Or.inl rfl)
      · exact Or.inr (Or.inr ⟨_, rfl⟩)

/-- After `closed` or `fin` the stream is empty: any run from such a state (empty event buffer)
delivers no event, stays in `closed`/`fin`, and sends only `disconnectAck` replies (nothing from `fin`). -/
theorem C08_client_quiet_after_terminal (hc : HC H) (ops : List COp) (c c' : Client H) (sent : List (List Nat))
    (evs : List CEvent) (ht : c.state.terminal) (he : c.eventsOut = [])
    (h : Client.run hc c ops = .ok (c', sent, evs)) :
    evs = [] ∧ c'.state.terminal ∧ (∀ b ∈ sent, b = discAck) ∧ (c.state = .fin → c'.state = .fin ∧ sent = []) := by
  obtain ⟨h1, -, h3, h4, h5⟩ := Client.run_terminal hc ops c c' sent evs ht he h
  exact ⟨h3, h1, h4, h5⟩

/-- Per-transition: every successful `handleFrame` is one of nine transitions — which events, from
which state, to which state, which reply. -/
theorem C08_client_handleFrame_cases (hc : HC H) (c c' : Client H) (f : Frame) (nowMs nowNs : Nat)
    (out : List (List Nat)) (h : c.handleFrame hc f nowMs nowNs = .ok (c', out)) :
    (c' = c ∧ out = []) ∨
    (∃ ln req rt rc sends n r p a, c.state = .pending ln req rt rc sends ∧ f = .synAck ln n r p a ∧
      c' = { c with eventsOut := c.eventsOut ++ [CEvent.connect],
                    state := .active ln
                      (sends.foldl (fun h (e : List Nat × Nat × SendMode) => hc.send h e.1 e.2.1 e.2.2)
                        (hc.new (hcConfig c.ep ln n r a) nowNs))
                      c.ep.activeTimeoutMs none } ∧
      out = [encode (.hsAck n)]) ∨
    (∃ ln hh t sig n r p a, c.state = .active ln hh t sig ∧ f = .synAck ln n r p a ∧ c' = c ∧
      out = [encode (.hsAck n)]) ∨
    (∃ ln req rt rc sends e, c.state = .pending ln req rt rc sends ∧ f = .hsError ln e ∧
      c' = { c with eventsOut := c.eventsOut ++ [CEvent.error (errOfHs e)], state := .fin } ∧ out = []) ∨
    (∃ ln hh t sig h' pkts, c.state = .active ln hh t sig ∧ f = .disconnect ∧ hc.receive hh = .ok (h', pkts) ∧
      c' = { c with eventsOut := c.eventsOut ++ pkts.map CEvent.receive ++ [CEvent.disconnect],
                    state := .closed (nowMs + CLIENT_CLOSED_TIMEOUT_MS) } ∧ out = [discAck]) ∨
    (∃ req rt rc, c.state = .closing req rt rc ∧ f = .disconnect ∧
      c' = { c with eventsOut := c.eventsOut ++ [CEvent.disconnect], state := .closed (nowMs + CLIENT_CLOSED_TIMEOUT_MS) } ∧
      out = [discAck]) ∨
    (∃ t, c.state = .closed t ∧ f = .disconnect ∧ c' = c ∧ out = [discAck]) ∨
    (∃ req rt rc, c.state = .closing req rt rc ∧ f = .disconnectAck ∧
      c' = { c with eventsOut := c.eventsOut ++ [CEvent.disconnect], state := .fin } ∧ out = []) ∨
    (∃ ln hh t sig h', c.state = .active ln hh t sig ∧ isTraffic f = true ∧ hc.dispatch hh f = .ok h' ∧
      c' = { c with state := .active ln h' (nowMs + c.ep.activeTimeoutMs) sig } ∧ out = []) :=
  Client.handleFrame_cases hc c c' f nowMs nowNs out h

/-- Per-transition: `handleEvents` delivers an event iff a timer of the state has run out
(`Client.expired`: retries of `pending`/`closing` exhausted, or activity deadline of `active` passed);
then it is exactly one `error timeout` and the state becomes `fin`. -/
theorem C08_client_handleEvents_cases (c : Client H) (nowMs : Nat) :
    (c.expired nowMs → c.handleEvents nowMs =
      ({ c with eventsOut := c.eventsOut ++ [CEvent.error .timeout], state := .fin }, [])) ∧
    (¬ c.expired nowMs → (c.handleEvents nowMs).1.eventsOut = c.eventsOut) :=
  ⟨Client.handleEvents_expired c nowMs, Client.handleEvents_not_expired c nowMs⟩

/-- Per-transition: `step_if_active` delivers only `receive` events, only from `active`, and ends in
`active` or `closing`; from any other state it does nothing. -/
theorem C08_client_stepPhase_cases (hc : HC H) (c c' : Client H) (nowMs nowNs : Nat) (out : List (List Nat))
    (h : c.stepPhase hc nowMs nowNs = .ok (c', out)) :
    (c' = c ∧ out = [] ∧ ∀ ln hh t sig, c.state ≠ .active ln hh t sig) ∨
    ∃ ln hh t sig, c.state = .active ln hh t sig ∧ ∃ pkts : List (List Nat),
      c'.eventsOut = c.eventsOut ++ pkts.map CEvent.receive ∧
      ((∃ h', c'.state = .active ln h' t sig) ∨ c'.state.isClosing) := by
  rcases CState.active_or_not c.state with ⟨ln, hh, t, sig, hs⟩ | hna'
  · refine Or.inr ⟨ln, hh, t, sig, hs, ?_⟩
    rw [Client.stepPhase_active hc c nowMs nowNs ln hh t sig hs] at h
    split at h
    · split at h <;> cases h
      exact ⟨_, rfl, Or.inr ⟨_, _, _, rfl⟩⟩
    · split at h
      · cases h
      · split at h <;> cases h
        exact ⟨_, rfl, Or.inl ⟨_, rfl⟩⟩
  · rw [Client.stepPhase_not_active hc c nowMs nowNs hna'] at h
    cases h; exact Or.inl ⟨rfl, rfl, hna'⟩

/-! ### Non-vacuity (client) -/

/-- A complete life: connect, two packets received, peer disconnects; later steps deliver nothing. -/
example : okAnd (Client.run echoHC exClientE
      [.send [1] 0 .reliable, .send [2, 3] 0 .reliable, .step 1000000 [exSynAck], .step 2000000 [encode .disconnect],
       .step 3000000 [encode .disconnect, exSynAck]])
    (fun r => decide (r.2.2 = [CEvent.connect, .receive [1], .receive [2, 3], .disconnect])) = true := by
  decide +kernel

/-- A terminal state with an empty buffer (hypotheses of `C08_client_quiet_after_terminal`). -/
example : ({ exClient with state := .closed 5 } : Client Unit).state.terminal ∧
    ({ exClient with state := .closed 5 } : Client Unit).eventsOut = [] := ⟨Or.inr ⟨5, rfl⟩, rfl⟩

/-- Monitor hypotheses: the fresh client is `pending`, compatible with `idle`. -/
example : exClient.eventsOut = [] ∧ Compat exClient.state .idle := ⟨rfl, rfl⟩

/-- `handleEvents`: an expired and a non-expired state. -/
example : exClient.expired 1999 = False ∧ ({ exClient with state := .active 7 () 100 none } : Client Unit).expired 100 := by
  constructor
  · simp [Client.expired, exClient, Client.connect, CLIENT_HANDSHAKE_RESEND_INTERVAL_MS]
  · simp [Client.expired]


/-! ## Server

Per-address monitor (`SPhase`, `Uflow/Lemmas/EndpointEventsMonitor.lean`):
`idle --connect a--> conn --receive a _--> conn --disconnect a | error a timeout--> idle`,
`idle --error a _--> idle` (a refused or timed-out handshake attempt of `a`); the application's own
`drop a` (label `SLabel.drop a`) returns to `idle` from any phase; everything else is rejected.
`s.phaseOf a` reads the phase of an address off the state: `conn` iff the map has an entry for `a` that
is `active` or `closing`. `Server.WF`: the global well-formedness invariant (addresses of the map
distinct, object identities distinct across map and detached objects, detached objects are `fin`,
`nextCid` fresh, every `active` entry is on the `active` list). `STr s evs s'`: `s'` is well-formed,
`s'.eventsOut = s.eventsOut ++ evs`, and for every address the events of that address lead the monitor
from `s.phaseOf a` to `s'.phaseOf a`. -/

/-- What `conn` means. -/
theorem C08_server_phase_conn_iff (s : Server H) (a : Nat) :
    s.phaseOf a = .conn ↔ ∃ c, s.find a = some c ∧ c.state.connected = true := by
  unfold Server.phaseOf
  cases hf : s.find a with
  | none => simp
  | some c =>
    simp only [RState.phase, Option.some.injEq, exists_eq_left']
    cases c.state.connected <;> simp

/-- The initial state is well-formed. -/
theorem C08_server_wf_init (cfg : SrvConfig) (now : Nat) (rng : Rng) : (Server.init cfg now rng : Server H).WF :=
  Server.WF.init cfg now rng

/-- `C08_server_stream`: in every run of a server (from `Server.init`), the state stays well-formed and,
for every address `a`, the events about `a` delivered by the steps — interleaved with the application's
own `drop a` calls — are accepted by the per-address monitor started `idle`, which ends in the phase
read off the final state. Hence per address: `Connect Receive* (Disconnect|Error(timeout))`, possibly
cut short by a `drop`, then nothing but refused-attempt errors until the next `Connect`; `receive` and
`disconnect` only while the entry is `active`/`closing`; exactly one terminal event per connection that
the server itself ends. -/
theorem C08_server_stream (hc : HC H) (cfg : SrvConfig) (now : Nat) (rng : Rng) (ops : List SOp)
    (s' : Server H) (sent : List (Nat × List Nat)) (ls : List SLabel)
    (h : Server.run hc (Server.init cfg now rng) ops = .ok (s', sent, ls)) :
    s'.WF ∧ s'.eventsOut = [] ∧ ∀ a, SPhase.runL .idle (lblOf a ls) = some (s'.phaseOf a) := by
  obtain ⟨h1, h2, -, -, h5⟩ := Server.run_monitor hc ops _ s' (Server.WF.init cfg now rng) rfl sent ls h
  exact ⟨h1, h2, h5⟩

/-- The same from any well-formed state with an empty event buffer: the monitor starts in the phase of
the initial state. -/
theorem C08_server_stream_general (hc : HC H) (ops : List SOp) (s s' : Server H) (hw : s.WF) (he : s.eventsOut = [])
    (sent : List (Nat × List Nat)) (ls : List SLabel) (h : Server.run hc s ops = .ok (s', sent, ls)) :
    s'.WF ∧ s'.eventsOut = [] ∧ ∀ a, (s.phaseOf a).runL (lblOf a ls) = some (s'.phaseOf a) := by
  obtain ⟨h1, h2, -, -, h5⟩ := Server.run_monitor hc ops s s' hw he sent ls h
  exact ⟨h1, h2, h5⟩

/-- One step (`Server.step`) from a well-formed state with an empty buffer. -/
theorem C08_server_step (hc : HC H) (s s' : Server H) (hw : s.WF) (he : s.eventsOut = []) (nowNs : Nat)
    (arrivals sent : List (Nat × List Nat)) (evs : List SEvent)
    (h : s.step hc nowNs arrivals = .ok (s', sent, evs)) :
    s'.WF ∧ s'.eventsOut = [] ∧ ∀ a, (s.phaseOf a).run (evsOf a evs) = some (s'.phaseOf a) := by
  obtain ⟨h1, h2, -, -, h5⟩ := Server.step_STr hc s s' hw he nowNs arrivals sent evs h
  exact ⟨h1, h2, h5⟩

/-! ### Per-transition lemmas (server): which events, from which state -/

/-- SYN: at most one event, `error addr e` with `e ≠ timeout`, only when `addr` has no entry; a new entry
is created only when `clients` has no entry for the address. -/
theorem C08_server_handleSyn (s : Server H) (hw : s.WF) (addr v n r p a nowMs : Nat) :
    ∃ evs, STr s evs (s.handleSyn addr v n r p a nowMs).1 ∧
      (evs = [] ∨ ((∃ ev, ev ≠ .timeout ∧ evs = [SEvent.error addr ev]) ∧ s.find addr = none ∧
        (s.handleSyn addr v n r p a nowMs).1.clients = s.clients)) ∧
      (∀ c, s.find addr = some c → s.handleSyn addr v n r p a nowMs = (s, [])) := by
  obtain ⟨evs, h1, h2⟩ := Server.handleSyn_STr s hw addr v n r p a nowMs
  refine ⟨evs, h1, h2, fun c hf => ?_⟩
  unfold Server.handleSyn; rw [hf]

/-- Handshake ACK: `connect` iff the entry is `pending` with the acknowledged nonce. -/
theorem C08_server_handleHsAck (hc : HC H) (s : Server H) (hw : s.WF) (addr na nowMs nowNs : Nat) :
    ∃ evs, STr s evs (s.handleHsAck hc addr na nowMs nowNs) ∧
      (evs = [] ∨ (evs = [SEvent.connect addr] ∧
        ∃ c ln rn r al rb, s.find addr = some c ∧ c.state = .pending ln rn r al rb ∧ na = ln)) :=
  Server.handleHsAck_STr hc s hw addr na nowMs nowNs

/-- Disconnect request: from `active`/`closing` the remaining packets then exactly one `disconnect`
(entry becomes `closed`); from any other state no event. -/
theorem C08_server_handleDisconnect (hc : HC H) (s s' : Server H) (hw : s.WF) (addr nowMs : Nat)
    (out : List (Nat × List Nat)) (h : s.handleDisconnect hc addr nowMs = .ok (s', out)) :
    ∃ evs, STr s evs s' ∧
      (evs = [] ∨ ∃ c, s.find addr = some c ∧ c.state.connected = true ∧
        ∃ pkts : List (List Nat), evs = pkts.map (SEvent.receive addr) ++ [SEvent.disconnect addr]) :=
  Server.handleDisconnect_STr hc s s' hw addr nowMs out h

/-- Disconnect ACK: exactly one `disconnect` iff the entry is `closing`; the entry is removed. -/
theorem C08_server_handleDisconnectAck (s : Server H) (hw : s.WF) (addr : Nat) :
    ∃ evs, STr s evs (s.handleDisconnectAck addr) ∧
      (evs = [] ∨ (evs = [SEvent.disconnect addr] ∧ ∃ c, s.find addr = some c ∧ c.state = .closing)) :=
  Server.handleDisconnectAck_STr s hw addr

/-- Data / sync / ack: never an event. -/
theorem C08_server_handleTraffic (hc : HC H) (s s' : Server H) (hw : s.WF) (addr : Nat) (f : Frame) (nowMs : Nat)
    (h : s.handleTraffic hc addr f nowMs = .ok s') : STr s [] s' :=
  Server.handleTraffic_STr hc s s' hw addr f nowMs h

/-- Any frame: a monitor-accepted transition without `error _ timeout`. -/
theorem C08_server_handleFrame (hc : HC H) (s s' : Server H) (hw : s.WF) (addr : Nat) (f : Frame) (nowMs nowNs : Nat)
    (out : List (Nat × List Nat)) (h : s.handleFrame hc addr f nowMs nowNs = .ok (s', out)) :
    ∃ evs, STr s evs s' ∧ ∀ a, SEvent.error a .timeout ∉ evs :=
  Server.handleFrame_STr hc s s' hw addr f nowMs nowNs out h

/-- Timers: at most one event, `error _ timeout`, exactly when the retry count of a `pending` handshake
(with `enableHandshakeErrors`) or of a `closing` entry is exhausted; `closed`/`fin`/detached objects emit
nothing. -/
theorem C08_server_handleTimer (s : Server H) (hw : s.WF) (t : Timer) (nowMs : Nat) :
    ∃ evs, STr s evs (s.handleTimer t nowMs).1 ∧
      (evs = [] ∨ ∃ c, s.byCid t.cid = some c ∧ c ∈ s.clients ∧ evs = [SEvent.error c.address .timeout] ∧
        t.count = 0 ∧
        (((∃ ln rn r al rb, c.state = .pending ln rn r al rb) ∧ t.kind = .resendSynAck) ∨
         (c.state = .closing ∧ t.kind = .resendDisconnect))) :=
  Server.handleTimer_STr s hw t nowMs

/-- Active-timeout loop, one iteration: nothing, or the remaining packets then `error timeout` for an
`active` entry whose deadline has passed; the entry is removed. -/
theorem C08_server_activeTimeoutStep (hc : HC H) (nowMs : Nat) (s s' : Server H) (hw : s.WF) (cid : Nat)
    (h : Server.activeTimeoutStep hc nowMs s cid = .ok s') :
    ∃ evs, STr s evs s' ∧
      ((evs = [] ∧ s' = s) ∨
       ∃ c hh t sig h' pkts, s.byCid cid = some c ∧ c ∈ s.clients ∧ c.state = .active hh t sig ∧ nowMs ≥ t ∧
         hc.receive hh = .ok (h', pkts) ∧
         evs = pkts.map (SEvent.receive c.address) ++ [SEvent.error c.address .timeout] ∧
         s'.clients = s.clients.filter (·.address ≠ c.address)) :=
  Server.activeTimeoutStep_STr hc nowMs s s' hw cid h

/-- `step_active_clients`, one iteration: only `receive`s, only for an `active` entry. -/
theorem C08_server_stepActiveStep (hc : HC H) (nowMs nowNs : Nat) (acc acc' : Server H × List (Nat × List Nat))
    (hw : acc.1.WF) (cid : Nat) (h : Server.stepActiveStep hc nowMs nowNs acc cid = .ok acc') :
    ∃ evs, STr acc.1 evs acc'.1 ∧
      ((evs = [] ∧ acc' = acc) ∨
       ∃ (c : RClient H) (hh : H) (t : Nat) (sig : Option DisconnectMode) (pkts : List (List Nat)), acc.1.byCid cid = some c ∧ c ∈ acc.1.clients ∧
         c.state = .active hh t sig ∧ evs = pkts.map (SEvent.receive c.address)) := by
  obtain ⟨evs, h1, h2⟩ := Server.stepActiveStep_STr hc nowMs nowNs acc acc' hw cid h
  refine ⟨evs, h1, ?_⟩
  rcases h2 with h2 | ⟨c, hh, t, sig, hb, hcm, hst, hcase⟩
  · exact Or.inl h2
  · rcases hcase with ⟨_, _, pkts, _, he, _⟩ | ⟨_, _, _, pkts, _, _, he, _⟩
    · exact Or.inr ⟨c, hh, t, sig, pkts, hb, hcm, hst, he⟩
    · exact Or.inr ⟨c, hh, t, sig, pkts, hb, hcm, hst, he⟩

/-- `drop`: no event; the address becomes `idle` (the only way a connection ends without a terminal
event). -/
theorem C08_server_drop (s : Server H) (hw : s.WF) (addr : Nat) :
    (s.drop addr).WF ∧ (s.drop addr).eventsOut = s.eventsOut ∧
    ∀ a, (s.drop addr).phaseOf a = if a = addr then .idle else s.phaseOf a := by
  obtain ⟨h1, h2, -, -, h5⟩ := Server.drop_tr s hw addr
  exact ⟨h1, h2, h5⟩

/-! ### Non-vacuity (server) -/

/-- A complete life of address 5: SYN, forged ACK (ignored), ACK, packets, peer disconnects. -/
example : okAnd (Server.run echoHC exServerE
      [.step 1000000 [(5, exSyn)], .step 2000000 [(5, exHsAckBad), (5, exHsAck)], .send 5 [1, 2] 0 .reliable,
       .step 3000000 [], .step 4000000 [(5, encode .disconnect)], .step 5000000 [(5, encode .disconnect)]])
    (fun r => decide (r.2.2 = [SLabel.ev (.connect 5), .ev (.receive 5 [1, 2]), .ev (.disconnect 5)])) = true := by
  decide +kernel

/-- A connection ended by `drop`, then a new attempt from the same address. -/
example : okAnd (Server.run trivHC exServer
      [.step 1000000 [(5, exSyn)], .step 2000000 [(5, exHsAck)], .drop 5, .step 3000000 [(5, exSyn)]])
    (fun r => decide (r.2.2 = [SLabel.ev (.connect 5), .drop 5] ∧ r.1.clients.length = 1)) = true := by
  decide +kernel

/-- A well-formed state with an empty buffer, and a successful step from it. -/
example : exServer.WF ∧ exServer.eventsOut = [] := ⟨Server.WF.init _ _ _, rfl⟩

example : okAnd (exServer.step trivHC 1000000 [(5, exSyn)]) (fun r => r.2.2 == []) = true := by decide +kernel

end Uflow.Props.C08
