import Uflow.Lemmas.EndpointEventsExamples

/-!
# C10 — timeouts

Model: `Uflow.Endpoint` (`Uflow/Model/Endpoint.lean`); every theorem holds for every half connection
`hc : HC H`. Helper lemmas: `Uflow/Lemmas/EndpointClient*.lean`, `Uflow/Lemmas/EndpointEvents*.lean`.

Vocabulary (lemma files): `c.nowMs nowNs = (nowNs - c.timeBase) / 10^6` (the clock of `Client.step`);
`hasTraffic arrivals` / `hasDisc arrivals`: some datagram (truncated to 1472 bytes) decodes to a
data/sync/ack frame / to a disconnect request; `c.deadlineAfter nowMs t arrivals =
if hasTraffic arrivals then nowMs + activeTimeoutMs else t`; `c.expired nowMs`: a timer of the state has
run out; `estScan ln arrivals`: `none` until the first SYN-ACK echoing `ln`, then `some tr` with `tr` =
"a data/sync/ack frame followed"; `c.estDeadline nowMs tr = if tr then nowMs + activeTimeoutMs else
activeTimeoutMs`; `Client.touch`, `Client.deadlineOf`, `Client.TInv`, `Client.runG`: the ghost "clock of
the last step that processed a data/sync/ack frame since the connection was established".

**Finding (F9, client).** The client initialises the activity deadline of a fresh connection to
`activeTimeoutMs` — an absolute clock value — instead of `now + activeTimeoutMs`. Hence
`C10_timeout_sound_client` is FALSE in its full form (`C10_timeout_sound_client_witness`); what holds is
`C10_timeout_sound_client_partial`.
-/

namespace Uflow.Props.C10

open Uflow.Endpoint Uflow.Codec Uflow.Gen Uflow.HalfConn

variable {H : Type}

/-- `u32` (the model of `.min(u32::MAX as usize) as u32`) fits 32 bits. -/
theorem C10_u32_lt (x : Nat) : u32 x < 2^32 := by
  unfold u32; omega

/-! ## Client: activity timeout -/

/-
FULL STATEMENT (false for the model, see the witness below):
`C10_timeout_sound_client`: `CEvent.error .timeout` from `active` is emitted only if
`nowMs ≥ timeoutTimeMs`, and `timeoutTimeMs = (time of the step that last processed a data/ack/sync
frame or established the connection) + activeTimeoutMs`.
-/

/-- `C10_timeout_sound_client_witness`: the full statement is FALSE. A client (timeBase 0,
`activeTimeoutMs = 15000`) whose handshake completes in a step at clock 20000 ms delivers `connect` and,
in the very same step, `error timeout` — although the SYN-ACK was just processed and
"time of establishment + activeTimeoutMs" is 35000 > 20000. -/
theorem C10_timeout_sound_client_witness :
    ∃ c' sent, exClient.step trivHC 20000000000 [exSynAck] = .ok (c', sent, [CEvent.connect, CEvent.error .timeout]) ∧
      decodesTo exSynAck (.synAck 7 9 500000 10000 100000) ∧
      (∃ req rt rc sends, exClient.state = .pending 7 req rt rc sends) ∧
      exClient.nowMs 20000000000 = 20000 ∧ exClient.ep.activeTimeoutMs = 15000 ∧
      exClient.nowMs 20000000000 < exClient.nowMs 20000000000 + exClient.ep.activeTimeoutMs := by
  obtain ⟨⟨c', sent, evs⟩, h, hp⟩ := okAnd_elim (r := exClient.step trivHC 20000000000 [exSynAck])
    (p := fun r => decide (r.2.2 = [CEvent.connect, CEvent.error .timeout])) (by decide +kernel)
  simp only [decide_eq_true_eq] at hp
  subst hp
  exact ⟨c', sent, h, by unfold decodesTo; decide +kernel, ⟨_, _, _, _, rfl⟩, by decide +kernel, rfl, by decide +kernel⟩

/-- Step-level soundness relative to the stored deadline (true): a step that starts `active` (deadline
`t`) and delivers `error timeout` did so because the clock of the step had reached the deadline as
refreshed by the arrivals of this step (`now + activeTimeoutMs` if a data/sync/ack frame arrived, else
`t`); no disconnect request arrived, the timeout is the only event of the step and the client is `fin`. -/
theorem C10_timeout_sound_client_step (hc : HC H) (c c' : Client H) (nowNs : Nat) (arrivals sent : List (List Nat))
    (evs : List CEvent) (ln : Nat) (hh : H) (t : Nat) (sig : Option DisconnectMode)
    (hs : c.state = .active ln hh t sig) (he : c.eventsOut = [])
    (h : c.step hc nowNs arrivals = .ok (c', sent, evs)) (hm : CEvent.error .timeout ∈ evs) :
    c.nowMs nowNs ≥ c.deadlineAfter (c.nowMs nowNs) t arrivals ∧ hasDisc arrivals = false ∧
    evs = [CEvent.error .timeout] ∧ c'.state = .fin := by
  obtain ⟨-, hcase⟩ := Client.step_active hc c c' nowNs arrivals sent evs ln hh t sig hs he h
  rcases hcase with ⟨h1, h2, h3, h4⟩ | ⟨_, _, _, _, _, _, _, _, _, rfl, _⟩ | ⟨_, _, _, _, _, _, _, _, _, _, rfl⟩ | ⟨_, _, _, rfl⟩
  · exact ⟨h2, h1, h4, h3⟩
  · simp at hm
  · simp at hm
  · simp at hm

/-- How a step writes the deadline: a step from `active` that stays `active` ends with deadline
`deadlineAfter` (refreshed to `now + activeTimeoutMs` iff a data/sync/ack frame arrived); a step that
starts `pending` (nonce `ln`) and ends `active` ends with `activeTimeoutMs` — absolute — unless a
data/sync/ack frame followed the SYN-ACK in the same step (then `now + activeTimeoutMs`). -/
theorem C10_deadline_step_client (hc : HC H) (c c' : Client H) (nowNs : Nat) (arrivals sent : List (List Nat))
    (evs : List CEvent) (he : c.eventsOut = []) (h : c.step hc nowNs arrivals = .ok (c', sent, evs))
    (ln' : Nat) (hh' : H) (t' : Nat) (sig' : Option DisconnectMode) (hs' : c'.state = .active ln' hh' t' sig') :
    (∀ ln hh t sig, c.state = .active ln hh t sig → t' = c.deadlineAfter (c.nowMs nowNs) t arrivals) ∧
    (∀ ln req rt rc sends, c.state = .pending ln req rt rc sends →
      ∃ tr, estScan ln arrivals = some tr ∧ t' = c.estDeadline (c.nowMs nowNs) tr) := by
  constructor
  · intro ln hh t sig hs
    obtain ⟨-, hcase⟩ := Client.step_active hc c c' nowNs arrivals sent evs ln hh t sig hs he h
    rcases hcase with ⟨_, _, hx, _⟩ | ⟨_, _, _, _, _, _, _, _, hx, _⟩ | ⟨_, _, _, _, _, _, _, _, _, hx, _⟩ | ⟨_, hx, _⟩
    · rw [hx] at hs'; cases hs'
    · rw [hx] at hs'; cases hs'
    · rw [hx] at hs'; cases hs'; rfl
    · exact absurd hs' (CState.terminal_not_active hx _ _ _ _)
  · intro ln req rt rc sends hs
    exact Client.step_pending_deadline hc c c' nowNs arrivals sent evs ln req rt rc sends hs h ln' hh' t' sig' hs'

/-- `C10_timeout_sound_client_partial` (the invariant that does hold): in every run from
`Client.connect`, whenever the client is `active`, its deadline is
`(clock of the step that last processed a data/ack/sync frame) + activeTimeoutMs`, OR no such frame has
been processed since the connection was established and the deadline is `activeTimeoutMs`. The ghost
`g'` is computed along the run by `Client.touch`. -/
theorem C10_timeout_sound_client_partial (hc : HC H) (ep : EpConfig) (now : Nat) (rng : Rng) (ops : List COp)
    (g0 : Option Nat) (c' : Client H) (g' : Option Nat)
    (h : Client.runG hc (Client.connect ep now rng).1 g0 ops = .ok (c', g')) :
    ∀ ln hh t sig, c'.state = .active ln hh t sig →
      (∃ g1, g' = some g1 ∧ t = g1 + c'.ep.activeTimeoutMs) ∨ (g' = none ∧ t = c'.ep.activeTimeoutMs) := by
  intro ln hh t sig hs
  have := (Client.runG_TInv hc ops _ c' g0 g' h rfl (by intro _ _ _ _ hs; cases hs)).1 ln hh t sig hs
  cases g' with
  | none => exact Or.inr ⟨rfl, this⟩
  | some g1 => exact Or.inl ⟨g1, rfl, this⟩

/-- … hence the timeout is sound for every connection that has processed at least one data/sync/ack
frame: `error timeout` from `active` is delivered only when the clock of the step is at least
`activeTimeoutMs` past the last such frame (the frames of the timing-out step included); for a
connection that has processed none, only when the clock has reached the absolute value
`activeTimeoutMs`. -/
theorem C10_timeout_sound_client_partial_sound (hc : HC H) (c c' : Client H) (g : Option Nat) (nowNs : Nat)
    (arrivals sent : List (List Nat)) (evs : List CEvent) (ln : Nat) (hh : H) (t : Nat) (sig : Option DisconnectMode)
    (hs : c.state = .active ln hh t sig) (he : c.eventsOut = []) (hi : c.TInv g)
    (h : c.step hc nowNs arrivals = .ok (c', sent, evs)) (hm : CEvent.error .timeout ∈ evs) :
    c.nowMs nowNs ≥ c.deadlineOf (c.touch g (.step nowNs arrivals)) ∧
    (∀ g1, c.touch g (.step nowNs arrivals) = some g1 → c.nowMs nowNs ≥ g1 + c.ep.activeTimeoutMs) := by
  obtain ⟨h1, -⟩ := C10_timeout_sound_client_step hc c c' nowNs arrivals sent evs ln hh t sig hs he h hm
  have ht := hi _ _ _ _ hs
  have key : c.nowMs nowNs ≥ c.deadlineOf (c.touch g (.step nowNs arrivals)) := by
    unfold Client.deadlineAfter at h1
    simp only [Client.touch, hs]
    cases htr : hasTraffic arrivals with
    | false =>
      rw [htr] at h1
      have h1' : c.nowMs nowNs ≥ t := h1
      show c.nowMs nowNs ≥ c.deadlineOf g
      rw [← ht]; exact h1'
    | true =>
      rw [htr] at h1
      exact h1
  refine ⟨key, fun g1 hg => ?_⟩
  rw [hg] at key
  exact key

/-- Every `error timeout` of a step (from whatever state) comes from `handle_events` finding a timer of
the post-arrival state run out. -/
theorem C10_timeout_origin_client (hc : HC H) (c c' : Client H) (nowNs : Nat) (arrivals sent : List (List Nat))
    (evs : List CEvent) (he : c.eventsOut = []) (h : c.step hc nowNs arrivals = .ok (c', sent, evs))
    (hm : CEvent.error .timeout ∈ evs) :
    ∃ c1 s1 c2 s2, c.flush hc = .ok (c1, s1) ∧ c1.arrivalsPhase hc (c.nowMs nowNs) nowNs arrivals = .ok (c2, s2) ∧
      c2.expired (c.nowMs nowNs) := by
  rcases Client.step_timeout_origin hc c c' nowNs arrivals sent evs h hm with hx | hx
  · rw [he] at hx; cases hx
  · exact hx

/-- `C10_timeout_prompt` (client): if after processing the arrivals of a step the state is `active` with
`nowMs ≥ timeoutTimeMs` (more generally: any timer of the state has run out), that same step delivers
`error timeout` right after the events of the arrivals and leaves the state (`fin`). -/
theorem C10_timeout_prompt_client (hc : HC H) (c c1 c2 : Client H) (nowNs : Nat) (arrivals s1 s2 : List (List Nat))
    (h1 : c.flush hc = .ok (c1, s1))
    (h2 : c1.arrivalsPhase hc (c.nowMs nowNs) nowNs arrivals = .ok (c2, s2))
    (hx : c2.expired (c.nowMs nowNs)) :
    c.step hc nowNs arrivals =
      .ok ({ c2 with eventsOut := [], state := .fin }, s1 ++ s2, c2.eventsOut ++ [CEvent.error .timeout]) :=
  Client.step_timeout_prompt hc c c1 c2 nowNs arrivals s1 s2 h1 h2 hx

/-- `C10_timeout_prompt`, stated on the inputs only: a successful step from `active` in which no
disconnect request arrives and whose clock has reached the (refreshed) deadline delivers exactly
`error timeout` and ends in `fin`. -/
theorem C10_timeout_prompt_client' (hc : HC H) (c c' : Client H) (nowNs : Nat) (arrivals sent : List (List Nat))
    (evs : List CEvent) (ln : Nat) (hh : H) (t : Nat) (sig : Option DisconnectMode)
    (hs : c.state = .active ln hh t sig) (he : c.eventsOut = [])
    (h : c.step hc nowNs arrivals = .ok (c', sent, evs))
    (hnd : hasDisc arrivals = false) (hge : c.nowMs nowNs ≥ c.deadlineAfter (c.nowMs nowNs) t arrivals) :
    evs = [CEvent.error .timeout] ∧ c'.state = .fin := by
  obtain ⟨-, hcase⟩ := Client.step_active hc c c' nowNs arrivals sent evs ln hh t sig hs he h
  rcases hcase with ⟨_, _, h3, h4⟩ | ⟨_, hlt, _⟩ | ⟨_, hlt, _⟩ | ⟨hd, _⟩
  · exact ⟨h4, h3⟩
  · omega
  · omega
  · rw [hnd] at hd; cases hd

/-! ## Client: handshake budget -/

/-- `C10_handshake_budget`: in any run of a client created by `Client.connect` (at `now`, sending the
SYN `req` once) in which no `connect` is delivered, everything sent afterwards is `k ≤ 10` more copies
of the SYN and nothing else; if `error timeout` is delivered then `k = 10` exactly (the SYN went out 11
times), it is the only event, the client is `fin`, and some step of the run had its clock at
`≥ 22000` ms after `connect` — no monotonicity of the step times is needed, since every resend at clock
`m ≥ resendTime` moves `resendTime` to `m + 2000`. -/
theorem C10_handshake_budget (hc : HC H) (ep : EpConfig) (now : Nat) (rng : Rng) (ops : List COp)
    (c' : Client H) (sent : List (List Nat)) (evs : List CEvent)
    (h : Client.run hc (Client.connect ep now rng).1 ops = .ok (c', sent, evs))
    (hnc : CEvent.connect ∉ evs) :
    ∃ req k, (Client.connect (H := H) ep now rng).2 = [req] ∧ sent = List.replicate k req ∧
      k ≤ CLIENT_HANDSHAKE_RESEND_COUNT ∧
      (CEvent.error .timeout ∈ evs →
        k = CLIENT_HANDSHAKE_RESEND_COUNT ∧ evs = [CEvent.error .timeout] ∧ c'.state = .fin ∧
        ∃ n a, COp.step n a ∈ ops ∧ (n - now) / 1000000 ≥ 22000) := by
  obtain ⟨k, hsent, hk, hcase⟩ := Client.run_pending hc ops _ c' sent evs _ _ _ _ _ rfl rfl h hnc
  refine ⟨_, k, rfl, hsent, hk, fun hm => ?_⟩
  rcases hcase with ⟨rfl, _⟩ | ⟨⟨e, rfl⟩, _⟩ | ⟨hev, hk', hfin, n, a, hmem, hn⟩
  · cases hm
  · simp only [List.mem_singleton] at hm
    injection hm with hm
    exact absurd hm.symm (errOfHs_ne_timeout e)
  · refine ⟨hk', hev, hfin, n, a, hmem, ?_⟩
    simpa [Client.nowMs, Client.connect, CLIENT_HANDSHAKE_RESEND_INTERVAL_MS, CLIENT_HANDSHAKE_RESEND_COUNT] using hn

/-- General form (any `pending` state, with its current timer and remaining count). -/
theorem C10_handshake_budget_general (hc : HC H) (ops : List COp) (c c' : Client H) (sent : List (List Nat))
    (evs : List CEvent) (ln : Nat) (req : List Nat) (rt rc : Nat) (sends : List (List Nat × Nat × SendMode))
    (hs : c.state = .pending ln req rt rc sends) (he : c.eventsOut = [])
    (h : Client.run hc c ops = .ok (c', sent, evs)) (hnc : CEvent.connect ∉ evs) :
    ∃ k, sent = List.replicate k req ∧ k ≤ rc ∧
      ((evs = [] ∧ ((∃ rt' sends', c'.state = .pending ln req rt' (rc - k) sends' ∧
          rt' ≥ rt + CLIENT_HANDSHAKE_RESEND_INTERVAL_MS * k) ∨ c'.state = .fin)) ∨
       ((∃ e, evs = [CEvent.error (errOfHs e)]) ∧ c'.state = .fin) ∨
       (evs = [CEvent.error .timeout] ∧ k = rc ∧ c'.state = .fin ∧
          ∃ n a, COp.step n a ∈ ops ∧ c.nowMs n ≥ rt + CLIENT_HANDSHAKE_RESEND_INTERVAL_MS * rc)) :=
  Client.run_pending hc ops c c' sent evs ln req rt rc sends hs he h hnc

/-! ### Non-vacuity (client) -/

/-- An `active` client whose deadline (15001) has passed at clock 16000: the step delivers the timeout. -/
example : okAnd (({ exClient with state := .active 7 () 15001 none } : Client Unit).step trivHC 16000000000 [])
    (fun r => decide (CEvent.error .timeout ∈ r.2.2)) = true := by decide +kernel

/-- A run that stays `active`: established at clock 1 (deadline 15000, ghost `none`), a sync frame at
clock 5000 (deadline 20000, ghost `some 5000`). -/
example : okAnd (Client.runG trivHC exClient none [.step 1000000 [exSynAck]])
    (fun r => match r.1.state with | .active _ _ t _ => t == 15000 && r.2 == none | _ => false) = true := by
  decide +kernel

example : okAnd (Client.runG trivHC exClient none [.step 1000000 [exSynAck], .step 5000000000 [encode (.sync none none)]])
    (fun r => match r.1.state with | .active _ _ t _ => t == 5000 + 15000 && r.2 == some 5000 | _ => false) = true := by
  decide +kernel

/-- Hypotheses of `C10_timeout_sound_client_partial_sound`: an active client satisfying `TInv`. -/
example : ({ exClient with state := .active 7 () 20000 none } : Client Unit).TInv (some 5000) := by
  intro ln hh t sig hs; cases hs; rfl

/-- The handshake times out: 10 resends (steps every 2 s), then the timeout at 22 s. -/
example : okAnd (Client.run trivHC exClient
      ((List.range 12).map fun i => COp.step ((i + 1) * 2000000000) []))
    (fun r => decide (r.2.2 = [CEvent.error .timeout] ∧ r.2.1.length = 10)) = true := by decide +kernel

/-- Hypotheses of `C10_timeout_prompt_client`: post-arrival state `active` and expired. -/
example : ∃ c1 s1 c2 s2, ({ exClient with state := .active 7 () 15001 none } : Client Unit).flush trivHC = .ok (c1, s1) ∧
    c1.arrivalsPhase trivHC 16000 16000000000 [] = .ok (c2, s2) ∧ c2.expired 16000 :=
  ⟨_, _, _, _, rfl, rfl, by simp [Client.expired]⟩


/-! ## Server

Vocabulary (`Uflow/Lemmas/EndpointEvents*.lean`): `s.nowMs nowNs` the clock of a step;
`s2.afterTimers nowMs` the state after the timer loop (`s2` being the state after flush and arrivals);
`Server.touchFrame`, `Server.framesGhost`, `Server.stepGhost`, `Server.touch`, `Server.runG`: the ghost
"per address, the clock of the step that last processed a data/sync/ack frame of, or established, the
connection of that address"; `Server.DInv s g`: the deadline of every `active` entry of the map is
`g address + activeTimeoutMs`. The server initialises the deadline correctly (`now + activeTimeoutMs`),
so the property holds at full strength. -/

/-- `handleTraffic` on an `active` entry sets its deadline to `nowMs + activeTimeoutMs`; on anything else
it is the identity. -/
theorem C10_deadline_handleTraffic_server (hc : HC H) (s s' : Server H) (hw : s.WF) (addr : Nat) (f : Frame) (nowMs : Nat)
    (h : s.handleTraffic hc addr f nowMs = .ok s') :
    (s' = s ∧ ∀ c hh t sig, s.find addr = some c → c.state ≠ .active hh t sig) ∨
    ∃ c hh t sig h', s.find addr = some c ∧ c.state = .active hh t sig ∧ hc.dispatch hh f = .ok h' ∧
      s'.find addr = some { c with state := .active h' (nowMs + s.cfg.ep.activeTimeoutMs) sig } ∧
      ∀ a, a ≠ addr → s'.find a = s.find a :=
  Server.handleTraffic_deadline hc s s' hw addr f nowMs h

/-- The handshake-completing ACK initialises the deadline to `nowMs + activeTimeoutMs`. -/
theorem C10_deadline_handleHsAck_server (hc : HC H) (s : Server H) (hw : s.WF) (addr na nowMs nowNs : Nat)
    (c : RClient H) (ln rn r al : Nat) (rb : List Nat) (hf : s.find addr = some c)
    (hst : c.state = .pending ln rn r al rb) (hna : na = ln) :
    (s.handleHsAck hc addr na nowMs nowNs).find addr =
      some { c with state := .active (hc.new (hcConfig s.cfg.ep ln rn r al) nowNs) (nowMs + s.cfg.ep.activeTimeoutMs) none } ∧
    (s.handleHsAck hc addr na nowMs nowNs).eventsOut = s.eventsOut ++ [SEvent.connect addr] ∧
    ∀ a, a ≠ addr → (s.handleHsAck hc addr na nowMs nowNs).find a = s.find a :=
  Server.handleHsAck_deadline hc s hw addr na nowMs nowNs c ln rn r al rb hf hst hna

/-- The deadline invariant: in every run from `Server.init`, the deadline of every `active` entry is
`(clock of the step that last processed a data/sync/ack frame of, or established, its connection)
+ activeTimeoutMs`. The ghost `g'` is computed along the run by `Server.touch` (per frame:
`Server.touchFrame`). -/
theorem C10_deadline_invariant_server (hc : HC H) (cfg : SrvConfig) (now : Nat) (rng : Rng) (ops : List SOp)
    (g0 : Nat → Nat) (s' : Server H) (g' : Nat → Nat)
    (h : Server.runG hc (Server.init cfg now rng) g0 ops = .ok (s', g')) :
    ∀ a c hh t sig, s'.find a = some c → c.state = .active hh t sig → t = g' a + s'.cfg.ep.activeTimeoutMs :=
  (Server.runG_DInv hc ops _ s' g0 g' h (Server.WF.init cfg now rng) rfl
    (by intro a c hh t sig hf; simp [Server.init, Server.find] at hf)).1

/-- `C10_timeout_sound_server` (full strength): every `error a timeout` delivered by a step from a
well-formed state satisfying the deadline invariant (i.e. any reachable state) was emitted either by the
timer loop (retry budget of a `pending` handshake or of a `closing` entry exhausted; the timer loop
emits nothing else), or by the active-timeout loop for an entry that was `active` after the arrivals and
timers of this step — and then the clock of the step is at least `activeTimeoutMs` past the clock of the
step that last processed a data/sync/ack frame of, or established, that connection (the frames of this
very step included: `stepGhost`). -/
theorem C10_timeout_sound_server (hc : HC H) (s s' : Server H) (hw : s.WF) (he : s.eventsOut = []) (g : Nat → Nat)
    (hi : s.DInv g) (nowNs : Nat) (arrivals sent : List (Nat × List Nat)) (evs : List SEvent)
    (h : s.step hc nowNs arrivals = .ok (s', sent, evs)) (a : Nat) (hm : SEvent.error a .timeout ∈ evs) :
    ∃ s1 o1 s2 o2, s.flushActive hc = .ok (s1, o1) ∧ s1.handleFrames hc arrivals (s.nowMs nowNs) nowNs = .ok (s2, o2) ∧
      ((∃ e3, (s2.afterTimers (s.nowMs nowNs)).eventsOut = s2.eventsOut ++ e3 ∧ SEvent.error a .timeout ∈ e3 ∧
          ∀ e ∈ e3, ∃ a', e = SEvent.error a' .timeout) ∨
       (∃ c hh t sig, (s2.afterTimers (s.nowMs nowNs)).find a = some c ∧ c.state = .active hh t sig ∧
          s.nowMs nowNs ≥ t ∧ t = s.stepGhost hc nowNs arrivals g a + s.cfg.ep.activeTimeoutMs)) := by
  obtain ⟨s1, o1, s2, o2, h1, h2, hcase⟩ := Server.step_timeout_origin hc s s' hw he nowNs arrivals sent evs h a hm
  refine ⟨s1, o1, s2, o2, h1, h2, ?_⟩
  rcases hcase with hx | ⟨c, hh, t, sig, hf, hst, hge⟩
  · exact Or.inl hx
  · obtain ⟨hi3, hcfg⟩ := Server.afterTimers_DInv hc s hw nowNs arrivals s1 o1 s2 o2 h1 h2 g hi
    have := hi3 a c hh t sig hf hst
    rw [hcfg] at this
    exact Or.inr ⟨c, hh, t, sig, hf, hst, hge, this⟩

/-- Loop level: every `error a timeout` emitted by the active-timeout loop belongs to an entry that was
`active` in the map when the loop started, with `nowMs ≥` its deadline; the entry is gone afterwards;
the loop emits nothing but `receive`s and these errors. -/
theorem C10_timeout_sound_server_loop (hc : HC H) (s s' : Server H) (hw : s.WF) (nowMs : Nat)
    (h : s.activeTimeouts hc nowMs = .ok s') :
    ∃ evs, s'.eventsOut = s.eventsOut ++ evs ∧
      (∀ e ∈ evs, (∃ a d, e = SEvent.receive a d) ∨ ∃ a, e = SEvent.error a .timeout) ∧
      ∀ a, SEvent.error a .timeout ∈ evs →
        ∃ c hh t sig, s.find a = some c ∧ c.state = .active hh t sig ∧ nowMs ≥ t ∧ s'.find a = none :=
  Server.activeTimeouts_sound hc s s' hw nowMs h

/-- `C10_timeout_prompt` (server): an entry that is `active` in the map after the arrivals and timers of a
step, with `nowMs ≥ timeoutTimeMs`, gets its `error timeout` in that same step (and, loop level, is
removed from the map by the active-timeout loop). -/
theorem C10_timeout_prompt_server (hc : HC H) (s s' : Server H) (hw : s.WF) (nowNs : Nat)
    (arrivals sent : List (Nat × List Nat)) (evs : List SEvent)
    (h : s.step hc nowNs arrivals = .ok (s', sent, evs))
    (s1 : Server H) (o1 : List (Nat × List Nat)) (s2 : Server H) (o2 : List (Nat × List Nat))
    (h1 : s.flushActive hc = .ok (s1, o1)) (h2 : s1.handleFrames hc arrivals (s.nowMs nowNs) nowNs = .ok (s2, o2))
    (c : RClient H) (hcm : c ∈ (s2.afterTimers (s.nowMs nowNs)).clients) (hh : H) (t : Nat)
    (sig : Option DisconnectMode) (hst : c.state = .active hh t sig) (hge : s.nowMs nowNs ≥ t) :
    SEvent.error c.address .timeout ∈ evs :=
  Server.step_timeout_prompt hc s s' hw nowNs arrivals sent evs h s1 o1 s2 o2 h1 h2 c hcm hh t sig hst hge

theorem C10_timeout_prompt_server_loop (hc : HC H) (s s' : Server H) (hw : s.WF) (nowMs : Nat) (c : RClient H)
    (hcm : c ∈ s.clients) (hh : H) (t : Nat) (sig : Option DisconnectMode) (hst : c.state = .active hh t sig)
    (hge : nowMs ≥ t) (h : s.activeTimeouts hc nowMs = .ok s') :
    ∃ evs, s'.eventsOut = s.eventsOut ++ evs ∧ SEvent.error c.address .timeout ∈ evs ∧ s'.find c.address = none :=
  Server.activeTimeouts_prompt hc s s' hw nowMs c hcm hh t sig hst hge h

/-! ### Non-vacuity (server) -/

/-- An established connection of address 5 (at clock 2) times out in the step at clock 15002 and not in
the one at clock 15001. -/
example : okAnd (Server.run trivHC exServer
      [.step 1000000 [(5, exSyn)], .step 2000000 [(5, exHsAck)], .step 15001000000 [], .step 15002000000 []])
    (fun r => decide (r.2.2 = [SLabel.ev (.connect 5), .ev (.error 5 .timeout)])) = true := by decide +kernel

example : okAnd (Server.run trivHC exServer
      [.step 1000000 [(5, exSyn)], .step 2000000 [(5, exHsAck)], .step 15001000000 []])
    (fun r => decide (r.2.2 = [SLabel.ev (.connect 5)])) = true := by decide +kernel

/-- The ghost run is defined and records the clock of the establishing step / of the last sync frame. -/
example : okAnd (Server.runG trivHC exServer (fun _ => 0)
      [.step 1000000 [(5, exSyn)], .step 2000000 [(5, exHsAck)], .step 7000000 [(5, encode (.sync none none))]])
    (fun r => r.2 5 == 7 && r.2 6 == 0) = true := by decide +kernel

/-- Hypotheses of `C10_timeout_sound_server`: the initial state is well-formed, has an empty buffer and
satisfies the invariant. -/
example : exServer.WF ∧ exServer.eventsOut = [] ∧ exServer.DInv (fun _ => 0) :=
  ⟨Server.WF.init _ _ _, rfl, by intro a c hh t sig hf; simp [exServer, Server.init, Server.find] at hf⟩

end Uflow.Props.C10
