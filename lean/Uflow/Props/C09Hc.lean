import Uflow.Lemmas.HcFlushPair
import Uflow.Lemmas.EpNoTrapHc
import Uflow.Props.C01Hc
import Uflow.Props.C09
import Uflow.Lemmas.ModesRun

/-!
# C09Hc — the flush gate of `disconnect()` and delivery: what `is_send_pending() = false` means

C09, first sentence: "After `disconnect()`, every Reliable packet submitted earlier is delivered to the
peer application before the peer sees Disconnect." `Props/C09.lean` proves the endpoint half: a
client / server with a pending flush-mode `disconnect()` transmits its disconnect request only in a
step in which `hc.isSendPending h = false` (`C09_flush_gate_client`, `C09_flush_gate_server`). This
file supplies the half-connection half, for the full model `Uflow.HalfConn`
(`src/half_connection/mod.rs`) in the pair `HcPair` of `Props/C01Hc.lean` (two half connections `A`
→ `B` over a lossy, duplicating, reordering, non-forging frame network; ghosts `sent` = the `A.send`
calls, `pend` = the packets `A`'s `emit_packet` returned, `outs` = the payloads `B.receive` returned,
`advB` = how far `B`'s packet receive window base has moved).

## What is proved

1. `C09_hc_not_pending_iff` — `is_send_pending() = false` is exactly: the packet sender's send queue,
   the pending queue and the resend queue are empty. **The send window is not consulted.**
   `C09_hc_sender_history` — for EVERY schedule, `A`'s packet sender is the result of a sequence of
   packet sender operations from `PacketSender::new` (`HcFlush.runP_psOps`) whose ghost history
   records exactly the `A.send` calls; so the sender theorems (C05, C02, C20) apply to it.
   `C09_hc_not_pending_means_acked_partial` — hence, for every schedule, `is_send_pending() = false`
   implies that every packet accepted by `A.send` that is not a TimeSensitive packet (those may have
   been dropped as stale) HAS BEEN EMITTED (assigned a sequence id and put into the send window), in
   submission order. `C09_hc_not_pending_resent_acked` — (one half connection, any event list) every
   fragment ever transmitted with the `resend` flag is then `Dead`: its packet left the send window or
   the fragment was acknowledged at FRAME level.
2. `C09_hc_left_window_delivered` — for every `Guarded` run (hypotheses of `C01_hc_delivery`): every
   packet that has LEFT `A`'s send window (emission position `< pend.length - A.ps.win.length`) has been
   passed by `B`'s packet receive window base, and if it is Reliable it was returned by one of `B`'s
   `receive` calls before — byte-exact, exactly once. (The send window base only passes acknowledged
   packets; an acknowledged base is a base `B` really had, `C01_hc_acks_genuine`; `B`'s base passes a
   Reliable packet only after handing it to the application,
   `C02_sys_reliable_delivered_before_passed`.)
   `C09_hc_flush_complete_partial` — if moreover `is_send_pending() = false` AND `A`'s send window is
   empty, then `HcFlush.FlushComplete`: EVERY Reliable packet submitted by `A.send` during the run has
   been returned by `B.receive`, byte-exact, exactly once, in per-channel submission order; every other
   emitted packet has been delivered or passed by `B`'s window; every non-TimeSensitive submission was
   emitted.
3. `C09_gate_open_means_delivered_client` / `_server` — composition with the flush gate of
   `Props/C09.lean` for the half connection `hcOf ops` (`Uflow/Lemmas/EpNoTrapHc.lean`, the driver's
   instance): when `Client.step` / one iteration of `step_active_clients` enters `closing` with
   `signal = flush`, the connection's half connection `hh` has `is_send_pending() = false`, hence
   whenever `hh` is (on its transmit side) the `A` component of a reachable guarded pair state with an
   empty send window, `FlushComplete` holds for that pair state: all Reliable data had ALREADY been
   handed to the peer application when the disconnect request was first transmitted.

## What is NOT true, and the exact missing link

The statement "`is_send_pending() = false` ⇒ every accepted packet has left the send window / every
Reliable packet has been returned by the peer's `receive`" is FALSE for the half connection on its
own: `C09_hc_flush_complete_witness` (= `C09_hc_not_pending_means_acked_witness`). `A` sends a Reliable
packet; its frame reaches `B`; `B`'s application has not called `receive` yet; `B.flush` acknowledges
the FRAME (the packet window base it reports is still the old one); `A`'s next `flush` pops the
acknowledged fragment from the resend queue. Now `is_send_pending() = false` — the flush gate of the
endpoint opens — while the packet sits, completely received, in `B`'s receive window: `outs = []`,
`A`'s send window still holds it. `is_send_pending` tests frame-level acknowledgement (the resend
queue), not packet-level acknowledgement (the send window).

So the gate guarantees "received by the peer's half connection", and the remaining step "handed to
the peer application before the peer sees Disconnect" is a property of the peer ENDPOINT, not of the
half connection: `Client::step` / `Server::step` call `receive` after handling the arrived frames of
EVERY step (`Props/C09.lean`, `C09_flush_gate_*`: the packets `hc.receive` returns are the last events
before the state changes), so the peer has called `receive` after the data frame and before it can
process a disconnect request that was transmitted later. LATER ADDITION (round 7): both halves of this step are now theorems —
`Props/C09Gate.lean` / `Props/C09GateLater.lean` (gate open, any guarded continuation, then ONE `receive` of the peer half
connection: every Reliable packet accepted before the gate opened is handed over; no empty-window hypothesis) and
`Props/C09Peer.lean` / `C09PeerSrv.lean` / `C09PeerSrvTrace.lean` (the peer endpoint dispatches every traffic frame that arrived
before a Disconnect frame, calls `receive`, reports those packets, then Disconnect); (a) below is `C01_hc_frame_acks_genuine`
(`Props/C01Hc.lean`, section 6). What is still not a single theorem is their composition in a model of two endpoints
over one network (not built here). The original note read: closing this needs: (a) frame acknowledgements are genuine — a fragment
is flagged acknowledged only if `B.handleDataFrame` accepted a frame containing it (not proved
anywhere; needs a frame-level freshness hypothesis for the 32-bit frame ids, cf. `Props/C01Hc.lean`);
(b) `receive` hands out every completely received packet whose Reliable predecessors are complete
(`C02_sys_deliverable`, `Props/C02Live.lean`). With the extra hypothesis `A.ps.win = []` (packet-level
acknowledgement, which the endpoint does not wait for) the statement holds as it stands: 2.

Helper lemmas: `Uflow/Lemmas/HcFlush{Ops,List,Deliver,Bytes,Init,Pair}.lean`. The proofs depend on the
schedule hypothesis `Guarded` only through `C01_hc_refines_sys`.
-/

namespace Uflow.Props.C09

open Uflow Uflow.Gen Uflow.Codec Uflow.HalfConn Uflow.PSend Uflow.HcSys Uflow.HcFlush Uflow.Endpoint
open Uflow.PRecv (LogE)
open Uflow.Rate (FloatOps)
open Uflow.EpNoTrap (hcOf)
open Uflow.Props.C01 (PairCfg)

variable {F : Type}

/-! ## 1. `is_send_pending` -/

/-- **`is_send_pending()`, exactly**: it is false iff the send queue of the packet sender
(`pending_count() == 0`), the pending queue and the resend queue are all empty. Nothing else is
tested; in particular not the send window (`base_id == next_id`). -/
theorem C09_hc_not_pending_iff (s : HalfConn.State F) :
    isSendPending s = false ↔ s.ps.queue = [] ∧ s.pending = [] ∧ s.resend = #[] :=
  not_pending_iff s

/-- **The packet sender of `A`, for every schedule.** `A.ps` is the result of a sequence `sops` of
packet sender operations (`enqueue_packet` / `emit_packet` / `acknowledge` / `acknowledge_fragment`)
from `PacketSender::new`, and the ghost history `hist` of that sequence (`PSend.runH`) has
* `hist.enqueued = sent`: the submitted packets are the `A.send` calls;
* `hist.emitted` parallel to `pend` (same length), `= old ++ wl` with `wl` the packets still in the
  send window (same payloads, position by position), `old` those that have left it;
* the emitted packets followed by the queued ones form a subsequence of `sent`, and the two agree on
  everything that is not TimeSensitive (the C05 order invariant): an accepted packet that is neither
  emitted nor queued is a TimeSensitive packet that was dropped as stale. -/
theorem C09_hc_sender_history (ops : FloatOps F) (cA cB : Config) (nowA nowB : Nat) (rngA rngB : Rng)
    (hc : PairCfg cA cB) (hw : cA.txPacketWindowSize < 2^20) (sched : List POp) (h : HcPair F)
    (hrun : runP ops (initP ops cA cB nowA nowB rngA rngB) sched = .ok h) :
    ∃ (sops : List Uflow.Props.C20.Op) (hist : Hist) (old wl : List Emitted),
      runH (PSend.init cA.txPacketWindowSize cA.txPacketBaseId cA.txAllocLimit) {} sops = .ok (h.A.ps, hist) ∧
      hist.enqueued = h.sent ∧ hist.emitted.length = h.pend.length ∧
      hist.emitted = old ++ wl ∧ wl.map Emitted.data = h.A.ps.win.map (fun w => w.packet.data) ∧
      (hist.emitted.map Emitted.toQ ++ h.A.ps.queue).Sublist h.sent ∧
      h.sent.filter notTS = (hist.emitted.map Emitted.toQ ++ h.A.ps.queue).filter notTS := by
  have hi0 := pairInv_init ops cA cB nowA nowB rngA rngB hc.txA hc.txB hc.rxB hc.winB
  have hi := pairInv_run ops sched hi0 hrun
  obtain ⟨newq, hq, hp⟩ := runP_psOps ops sched hi0 hrun
  obtain ⟨sops, hist, h1, h2, ⟨old, wl, hem, hwl⟩, _, h5⟩ := psOps_init _ _ _ h.A.ps _ hp
  have hinv := h5 hw hc.txA
  have hs : hist.enqueued = h.sent := by rw [h2, hq]; rfl
  refine ⟨sops, hist, old, wl, h1, hs, ?_, hem, (wdata_bytes hwl).2.2, ?_, ?_⟩
  · rw [← hinv.nuid, hi.a.nuid]
  · rw [← hs]; exact hinv.order.1
  · rw [← hs]; exact hinv.order.2

/-- **`is_send_pending() = false` means: everything accepted has been emitted** (for EVERY schedule).
If `A` reports no send pending, then the emitted packets (`hist.emitted`, parallel to `pend`) form a
subsequence of the `A.send` calls containing every call that is not TimeSensitive, in order: each such
packet was assigned a sequence id and entered the send window (and all its fragments have left the
pending queue, no fragment waits in the resend queue). It does NOT follow that the packets have left
the send window (`C09_hc_not_pending_means_acked_witness`); for those that have, see
`C09_hc_left_window_delivered`. -/
theorem C09_hc_not_pending_means_acked_partial (ops : FloatOps F) (cA cB : Config) (nowA nowB : Nat)
    (rngA rngB : Rng) (hc : PairCfg cA cB) (hw : cA.txPacketWindowSize < 2^20) (sched : List POp)
    (h : HcPair F) (hrun : runP ops (initP ops cA cB nowA nowB rngA rngB) sched = .ok h)
    (hidle : isSendPending h.A = false) :
    ∃ hist : Hist,
      (∃ sops, runH (PSend.init cA.txPacketWindowSize cA.txPacketBaseId cA.txAllocLimit) {} sops =
        .ok (h.A.ps, hist)) ∧
      hist.enqueued = h.sent ∧ hist.emitted.length = h.pend.length ∧
      (hist.emitted.map Emitted.toQ).Sublist h.sent ∧
      h.sent.filter notTS = (hist.emitted.map Emitted.toQ).filter notTS ∧
      (∀ q ∈ h.sent, q.mode ≠ .timeSensitive → ∃ x ∈ hist.emitted, x.toQ = q) ∧
      h.A.pending = [] ∧ h.A.resend = #[] := by
  obtain ⟨hq, hp, hr⟩ := (not_pending_iff h.A).mp hidle
  obtain ⟨sops, hist, old, wl, h1, h2, h3, _, _, h6, h7⟩ :=
    C09_hc_sender_history ops cA cB nowA nowB rngA rngB hc hw sched h hrun
  rw [hq, List.append_nil] at h6 h7
  refine ⟨hist, ⟨sops, h1⟩, h2, h3, h6, h7, ?_, hp, hr⟩
  intro q hqm hmode
  have : q ∈ h.sent.filter notTS := List.mem_filter.mpr ⟨hqm, by simp [notTS, hmode]⟩
  rw [h7] at this
  obtain ⟨x, hx, hxq⟩ := List.mem_map.mp (List.mem_filter.mp this).1
  exact ⟨x, hx, hxq⟩

/-- **What an empty resend queue means** (one half connection, ANY event list `Credit.Ev` with
arbitrary frame contents; `Modes.runT` = the run instrumented with the wire trace `tr` of the fragments
`flush` put into data frames, `Props/C12.lean`). If the half connection reports no send pending at the
end, every fragment that was ever transmitted with the `resend` flag — i.e. every transmitted fragment
of a Persistent or Reliable packet (`C12_emit_resend_flag`) — is `Dead`: its packet has left the send
window, or `acknowledge_fragment` has flagged the fragment (a FRAME containing it was acknowledged).
This is the acknowledgement `is_send_pending` waits for; it is not the packet-level acknowledgement
(receiver window base) that empties the send window. -/
theorem C09_hc_not_pending_resent_acked (ops : FloatOps F) (c : Config) (now : Nat) (rng : Rng)
    (evs : List Uflow.Credit.Ev) (s' : HalfConn.State F) (tr : List Uflow.Wire.Push)
    (h : Uflow.Modes.runT ops (HalfConn.init ops c now rng) evs = .ok (s', tr))
    (hidle : isSendPending s' = false) :
    ∀ x ∈ tr, x.resend = true → PSend.Dead s'.ps x.uid x.fid := by
  intro x hx hr
  have hspec := Uflow.Modes.runT_gspec ops evs _ s' tr (Uflow.Modes.ginv_init ops c now rng) h
  rcases hspec.sched x hx hr with ⟨r, hmem, _⟩ | hd
  · rw [((not_pending_iff s').mp hidle).2.2] at hmem
    simp at hmem
  · exact hd

/-! ## 2. Delivery -/

/-- **What has left the send window has been delivered** (every `Guarded` run; hypotheses as in
`C01_hc_delivery`). There are an attribution `log` of the payloads returned by `B.receive` and the list
`em` of emitted packets (`HcFlush.Attributed`: `log.map data = outs.map some`, `em` parallel to `pend`
and a subsequence of the `A.send` calls, no position logged twice, every log entry carries channel and
payload of the emitted packet at its position, per-channel order) such that for every emission
position `j` that has left `A`'s send window (`j < pend.length - A.ps.win.length`):
* `B`'s packet receive window base has passed it (`j < advB`), and
* if the packet is Reliable, a log entry with `uid = j` carries its payload — it was returned by one of
  `B`'s `receive` calls, byte-exact (and only once, `Attributed.once`). -/
theorem C09_hc_left_window_delivered (ops : FloatOps F) (cA cB : Config) (nowA nowB : Nat) (rngA rngB : Rng)
    (hc : PairCfg cA cB) (hb : cA.txPacketBaseId = cB.rxPacketBaseId)
    (hw : cA.txPacketWindowSize ≤ 2^16) (k : Nat) (hk : k ≤ 19) (hW : cB.rxPacketWindowSize = 2^k)
    (ham : allocCeil cA.txAllocLimit ≤ allocCeil cB.rxAllocLimit)
    (sched : List POp) (h : HcPair F)
    (hg : Guarded ops (initP ops cA cB nowA nowB rngA rngB) sched)
    (hrun : runP ops (initP ops cA cB nowA nowB rngA rngB) sched = .ok h) :
    ∃ (log : List LogE) (em : List Emitted), Attributed h log em ∧
      ∀ j, j < h.pend.length - h.A.ps.win.length →
        j < h.advB ∧ ∀ x, em[j]? = some x → x.mode = .reliable →
          ∃ e ∈ log, e.uid = j ∧ e.chan = x.channelId ∧ e.data = some x.data := by
  obtain ⟨sops, s, hs, hr⟩ := C01.C01_hc_refines_sys ops cA cB nowA nowB rngA rngB hc hb sched h hg hrun
  rw [hW] at hs
  exact ⟨s.rcv.log, s.hist.emitted, attributed_of_rel _ k _ _ _ hw hk hc.txA ham sops s hs h hr,
    fun j hj => left_window_of_rel _ k _ _ _ hw hk hc.txA ham sops s hs h hr j hj⟩

/-- **Flush completeness** — PARTIAL: with the additional hypothesis `A.ps.win = []`. For every
`Guarded` run, if in the final state `A` reports no send pending AND `A`'s send window is empty, then
`HcFlush.FlushComplete h`: there are an attribution `log` of the payloads returned by `B.receive` and
the list `em` of emitted packets with
* `sent.filter notTS = (em.map toQ).filter notTS` — every non-TimeSensitive `A.send` call was emitted;
* `advB = em.length` — `B`'s receive window base has passed every emitted packet (each Persistent /
  Unreliable / TimeSensitive one was delivered or passed);
* every Reliable `em[j]` has a log entry `e` with `e.uid = j`, `e.data = some em[j].data` — returned by
  `B.receive`, byte-exact, exactly once (`Attributed.once`);
* for every channel `c`: Reliable payloads submitted on `c` ⊑ payloads delivered on `c` ⊑ payloads
  submitted on `c` (subsequences, in order).
Missing for the full statement (without `A.ps.win = []`): it is false, `C09_hc_flush_complete_witness`;
see the file header for the exact link. -/
theorem C09_hc_flush_complete_partial (ops : FloatOps F) (cA cB : Config) (nowA nowB : Nat)
    (rngA rngB : Rng) (hc : PairCfg cA cB) (hb : cA.txPacketBaseId = cB.rxPacketBaseId)
    (hw : cA.txPacketWindowSize ≤ 2^16) (k : Nat) (hk : k ≤ 19) (hW : cB.rxPacketWindowSize = 2^k)
    (ham : allocCeil cA.txAllocLimit ≤ allocCeil cB.rxAllocLimit)
    (sched : List POp) (h : HcPair F)
    (hg : Guarded ops (initP ops cA cB nowA nowB rngA rngB) sched)
    (hrun : runP ops (initP ops cA cB nowA nowB rngA rngB) sched = .ok h)
    (hidle : isSendPending h.A = false) (hwin : h.A.ps.win = []) : FlushComplete h := by
  obtain ⟨sops, s, hs, hr⟩ := C01.C01_hc_refines_sys ops cA cB nowA nowB rngA rngB hc hb sched h hg hrun
  rw [hW] at hs
  exact flushComplete_of_rel _ k _ _ _ hw hk hc.txA ham sops s hs h hr ((not_pending_iff h.A).mp hidle).1 hwin

/-- **`is_send_pending() = false` does not imply delivery to the peer application** (nor that the
packets have left the send window). The schedule: `A.send([1,2,3], channel 0, Reliable)`, `flush`
(frame 0), the frame is delivered to `B` (no `B.receive`), `B.flush` emits an ack frame — it
acknowledges frame 0, its packet window base is still 0 —, the ack frame is delivered to `A`, `A.flush`
pops the acknowledged fragment from the resend queue. The schedule is `Guarded`; in the final state
`A.is_send_pending() = false`, but `outs = []` (nothing was handed to `B`'s application), `advB = 0`,
the packet is still in `A`'s send window, and it sits completely received in `B`'s receive window (one
more `B.receive` returns it). -/
theorem C09_hc_flush_complete_witness :
    guardedB CreditEx.exOps C01.hcExPair
      [.sendA [1,2,3] 0 .reliable, .stepA 0, .stepB 0, .flushA, .deliverAB 0,
       .stepB 1000000000, .flushB, .deliverBA 0, .flushA] = true ∧
    (match runP CreditEx.exOps C01.hcExPair
        [.sendA [1,2,3] 0 .reliable, .stepA 0, .stepB 0, .flushA, .deliverAB 0,
         .stepB 1000000000, .flushB, .deliverBA 0, .flushA] with
     | .ok h =>
       !isSendPending h.A &&
       decide (h.sent.map (fun q => (q.data, q.mode)) = [([1,2,3], SendMode.reliable)] ∧ h.pend.length = 1 ∧
         h.outs = [] ∧ h.advB = 0 ∧ h.A.ps.win.length = 1 ∧ h.fed.length = 1 ∧ h.acks = [0]) &&
       (match stepP CreditEx.exOps h .recvB with
        | .ok h' => decide (h'.outs = [[1,2,3]])
        | .error _ => false)
     | .error _ => false) = true := by
  refine ⟨by decide +kernel, by decide +kernel⟩

/-- The same run refutes the second half of "not pending means acknowledged": the accepted packet has
been emitted but has not left the send window. -/
theorem C09_hc_not_pending_means_acked_witness :
    (match runP CreditEx.exOps C01.hcExPair
        [.sendA [1,2,3] 0 .reliable, .stepA 0, .stepB 0, .flushA, .deliverAB 0,
         .stepB 1000000000, .flushB, .deliverBA 0, .flushA] with
     | .ok h => !isSendPending h.A && decide (h.A.ps.win.length = 1 ∧ h.A.ps.baseId ≠ h.A.ps.nextId)
     | .error _ => false) = true := by decide +kernel

/-! ## 3. The flush gate of the endpoints -/

/-- `hp` is the final state of a `Guarded` run of a pair whose configurations satisfy the hypotheses
of `C09_hc_flush_complete_partial` / `C01_hc_delivery`. -/
def GuardedReach (ops : FloatOps F) (hp : HcPair F) : Prop :=
  ∃ (cA cB : Config) (nowA nowB : Nat) (rngA rngB : Rng) (k : Nat) (sched : List POp),
    PairCfg cA cB ∧ cA.txPacketBaseId = cB.rxPacketBaseId ∧ cA.txPacketWindowSize ≤ 2^16 ∧ k ≤ 19 ∧
    cB.rxPacketWindowSize = 2^k ∧ allocCeil cA.txAllocLimit ≤ allocCeil cB.rxAllocLimit ∧
    Guarded ops (initP ops cA cB nowA nowB rngA rngB) sched ∧
    runP ops (initP ops cA cB nowA nowB rngA rngB) sched = .ok hp

/-- The transmit side of `a` is that of `b`: same packet sender, pending queue and resend queue (the
endpoints re-seed the random number generator of a half connection at every `flush`, so full equality
is not the right notion). -/
def SameTx (a b : HalfConn.State F) : Prop := a.ps = b.ps ∧ a.pending = b.pending ∧ a.resend = b.resend

theorem SameTx.isSendPending {a b : HalfConn.State F} (h : SameTx a b) : isSendPending a = isSendPending b := by
  unfold HalfConn.isSendPending
  rw [h.1, h.2.1, h.2.2]

/-- What an open flush gate gives for a half connection `hh`: `is_send_pending() = false`, and for
every reachable guarded pair state whose `A` has the transmit side of `hh` and an empty send window,
flush completeness. -/
def GateDelivered (ops : FloatOps F) (hh : HalfConn.State F) : Prop :=
  isSendPending hh = false ∧
  ∀ hp : HcPair F, GuardedReach ops hp → SameTx hp.A hh → hp.A.ps.win = [] → FlushComplete hp

theorem gateDelivered_of_not_pending (ops : FloatOps F) (hh : HalfConn.State F)
    (h : isSendPending hh = false) : GateDelivered ops hh := by
  refine ⟨h, ?_⟩
  rintro hp ⟨cA, cB, nowA, nowB, rngA, rngB, k, sched, hc, hb, hw, hk, hW, ham, hg, hrun⟩ hs hwin
  exact C09_hc_flush_complete_partial ops cA cB nowA nowB rngA rngB hc hb hw k hk hW ham sched hp hg hrun
    (by rw [hs.isSendPending]; exact h) hwin

/-- **An open flush gate means the data was delivered (client)** — PARTIAL in the same sense as
`C09_hc_flush_complete_partial`. If `Client::step`, on the half connection `hcOf ops`, ends in
`closing` without having started there, then (`C09_flush_gate_client`) after the timers of that step
the connection was `active` with half connection `hh` and `signal = now`, or `signal = flush` and
`GateDelivered ops hh`: `hh.is_send_pending() = false`, and whenever `hh` is (on its transmit side) the
`A` component of a reachable guarded pair state with an empty send window, every Reliable packet
submitted on that connection had ALREADY been returned by the peer's `receive` — byte-exact, exactly
once, in per-channel order (`FlushComplete`) — when the disconnect request, the last datagram of this
step, was first transmitted. -/
theorem C09_gate_open_means_delivered_client (ops : FloatOps F) (c c' : Client (HalfConn.State F))
    (nowNs : Nat) (arrivals sent : List (List Nat)) (evs : List CEvent)
    (h : c.step (hcOf ops) nowNs arrivals = .ok (c', sent, evs))
    (hnc : ¬ c.state.isClosing) (hcl : c'.state.isClosing) :
    ∃ (c3 : Client (HalfConn.State F)) (ln : Nat) (hh : HalfConn.State F) (t : Nat)
      (sig : Option DisconnectMode) (pre : List (List Nat)),
      c3.state = .active ln hh t sig ∧ sent = pre ++ [discReq] ∧
      (sig = some .now ∨ (sig = some .flush ∧ GateDelivered ops hh)) := by
  obtain ⟨c3, ln, hh, t, sig, _, _, pre, h1, h2, _, _, _, h6⟩ :=
    C09_flush_gate_client (hcOf ops) c c' nowNs arrivals sent evs h hnc hcl
  refine ⟨c3, ln, hh, t, sig, pre, h1, h6, ?_⟩
  rcases h2 with h2 | ⟨h2, h3⟩
  · exact .inl h2
  · exact .inr ⟨h2, gateDelivered_of_not_pending ops hh h3⟩

/-- **An open flush gate means the data was delivered (server)** — PARTIAL, as for the client. If one
iteration of `step_active_clients` (`Server.stepActiveStep`) on the half connection `hcOf ops` sends
anything, it is the disconnect request of an `active` entry `c` with half connection `hh`, and either
`signal = now`, or `signal = flush` and `GateDelivered ops hh`. -/
theorem C09_gate_open_means_delivered_server (ops : FloatOps F) (nowMs nowNs : Nat)
    (acc acc' : Server (HalfConn.State F) × List (Nat × List Nat)) (hw : acc.1.WF) (cid : Nat)
    (h : Server.stepActiveStep (hcOf ops) nowMs nowNs acc cid = .ok acc') (hsent : acc'.2 ≠ acc.2) :
    ∃ (c : RClient (HalfConn.State F)) (hh : HalfConn.State F) (t : Nat) (sig : Option DisconnectMode),
      acc.1.byCid cid = some c ∧ c.state = .active hh t sig ∧ acc'.2 = acc.2 ++ [(c.address, discReq)] ∧
      acc'.1.find c.address = some { c with state := .closing } ∧
      (sig = some .now ∨ (sig = some .flush ∧ GateDelivered ops hh)) := by
  obtain ⟨evs, _, hcase⟩ := C09_flush_gate_server (hcOf ops) nowMs nowNs acc acc' hw cid h
  rcases hcase with ⟨_, he⟩ | ⟨c, hh, t, sig, hb, _, hst, hc2⟩
  · exact absurd (by rw [he]) hsent
  · rcases hc2 with ⟨hg, _, _, _, _, hs, hf, _⟩ | ⟨_, _, _, _, _, _, _, hs, _⟩
    · refine ⟨c, hh, t, sig, hb, hst, hs, hf, ?_⟩
      rcases hg with hg | ⟨hg, hp⟩
      · exact .inl hg
      · exact .inr ⟨hg, gateDelivered_of_not_pending ops hh hp⟩
    · exact absurd hs hsent

/-! ## 4. Non-vacuity -/

/-- The schedule of `C01_hc_example` followed by one more `flush` of `A` (which pops the acknowledged
fragment of the last packet from the resend queue). -/
def hcExIdleSched : List POp := C01.hcExSched ++ [.flushA]

/-- The run exists, `A` reports no send pending and its send window is empty; `B.receive` returned the
four payloads. -/
theorem C09_hc_example :
    (match runP CreditEx.exOps C01.hcExPair hcExIdleSched with
     | .ok h => !isSendPending h.A && decide (h.A.ps.win = [] ∧ h.pend.length = 4 ∧ h.advB = 4 ∧
         h.outs = [[1,2,3], List.replicate 20 7, [9], [4,4]] ∧
         h.sent.map (fun q => (q.data.length, q.mode)) =
           [(3, SendMode.reliable), (20, .unreliable), (1, .reliable), (2, .persistent)])
     | .error _ => false) = true := by decide +kernel

/-- The hypotheses of `C09_hc_flush_complete_partial`, `C09_hc_left_window_delivered`,
`C09_hc_sender_history` and `C09_hc_not_pending_means_acked_partial` hold for that run; its final state
is `GuardedReach`. -/
theorem C09_hc_example_hyps :
    ∃ h, runP CreditEx.exOps C01.hcExPair hcExIdleSched = .ok h ∧
      Guarded CreditEx.exOps C01.hcExPair hcExIdleSched ∧ isSendPending h.A = false ∧ h.A.ps.win = [] ∧
      0 < h.pend.length - h.A.ps.win.length ∧ GuardedReach CreditEx.exOps h := by
  have hex := C09_hc_example
  have hgd : Guarded CreditEx.exOps C01.hcExPair hcExIdleSched :=
    C01.C01_hc_guarded_checker _ _ _ (by decide +kernel)
  obtain ⟨c1, c2, c3, c4, c5, c6, _, _⟩ := C01.C01_hc_example_hyps
  cases hr : runP CreditEx.exOps C01.hcExPair hcExIdleSched with
  | error t => rw [hr] at hex; cases hex
  | ok h =>
    rw [hr] at hex
    simp only [Bool.and_eq_true, Bool.not_eq_true', decide_eq_true_eq] at hex
    obtain ⟨hidle, hwin, hlen, _⟩ := hex
    refine ⟨h, rfl, hgd, hidle, hwin, by rw [hwin, hlen]; decide, ?_⟩
    exact ⟨_, _, _, _, _, _, 4, hcExIdleSched, c1, c2, c3, c5, c4, c6, hgd, hr⟩

/-- The hypotheses of `C09_hc_not_pending_resent_acked`: a Reliable packet is sent and flushed (frame
0), an ack frame acknowledging frame 0 (packet window base still 0) arrives, the next flush pops the
fragment from the resend queue: the instrumented run exists, its trace has one push with
`resend = true`, the half connection is idle, the packet is still in the send window with fragment 0
flagged. -/
example :
    (match Uflow.Modes.runT CreditEx.exOps (HalfConn.init CreditEx.exOps CreditEx.exCfg 0 { fifo := [], state := 0 })
        [.send [1,2,3] 0 .reliable, .step 0, .flush,
         .ackFrame 1 0 [{ baseId := 0, bitfield := 1, nonce := true }], .flush] with
     | .ok (s, tr) => !isSendPending s &&
         decide (tr.map (fun x => (x.uid, x.fid, x.resend)) = [(0, 0, true)] ∧
           s.ps.win.map (fun w => w.packet.acked) = [[0]])
     | .error _ => false) = true := by decide +kernel

/-- Endpoint configuration of the examples. -/
def exGateEp : EpConfig :=
  { maxSendRate := 1000000, maxReceiveRate := 1000000, maxPacketSize := 1000, maxReceiveAlloc := 100000,
    keepalive := true, keepaliveIntervalMs := 1000, activeTimeoutMs := 15000 }

/-- Example client on `hcOf exOps`: connected (SYN-ACK received), then `disconnect(flush)`. -/
def exGateClient : Client (HalfConn.State Nat) :=
  match Client.run (hcOf CreditEx.exOps) (Client.connect exGateEp 0 ⟨[55], 1⟩).1
      [.step 1000000 [encode (.synAck 55 88 1000000 1000 100000)], .disconnect .flush] with
  | .ok (c, _, _) => c
  | .error _ => (Client.connect exGateEp 0 ⟨[55], 1⟩).1

/-- The hypotheses of `C09_gate_open_means_delivered_client`: the next step of `exGateClient` (nothing
to send) enters `closing`. -/
theorem C09_gate_example_client :
    ¬ exGateClient.state.isClosing ∧
    ∃ c' sent evs, exGateClient.step (hcOf CreditEx.exOps) 2000000 [] = .ok (c', sent, evs) ∧
      c'.state.isClosing := by
  have h1 : (match exGateClient.state with | .active .. => true | _ => false) = true := by decide +kernel
  have h2 : (match exGateClient.step (hcOf CreditEx.exOps) 2000000 [] with
      | .ok (c', _, _) => (match c'.state with | .closing .. => true | _ => false)
      | .error _ => false) = true := by decide +kernel
  constructor
  · rintro ⟨req, rt, rc, he⟩
    rw [he] at h1
    cases h1
  · cases hs : exGateClient.step (hcOf CreditEx.exOps) 2000000 [] with
    | error t => rw [hs] at h2; cases h2
    | ok r =>
      obtain ⟨c', sent, evs⟩ := r
      rw [hs] at h2
      refine ⟨c', sent, evs, rfl, ?_⟩
      simp only at h2
      cases hst : c'.state with
      | closing req rt rc => exact ⟨req, rt, rc, rfl⟩
      | _ => rw [hst] at h2; cases h2

/-- Example server on `hcOf exOps`: one client (address 7) has completed the handshake (decoded frames
fed to `handle_frame`), then `disconnect(7, flush)`. -/
def exGateServer : Server (HalfConn.State Nat) :=
  let s0 : Server (HalfConn.State Nat) := Server.init
    { maxTotalConnections := 4, maxActiveConnections := 2, enableHandshakeErrors := true, ep := exGateEp }
    0 ⟨[77, 88], 1⟩
  let feed (s : Server (HalfConn.State Nat)) (f : Frame) : Server (HalfConn.State Nat) :=
    match s.handleFrame (hcOf CreditEx.exOps) 7 f 1 1000000 with
    | .ok (s', _) => s'
    | .error _ => s
  (feed (feed s0 (.syn PROTOCOL_VERSION 5 1000000 1000 100000)) (.hsAck 77)).disconnect 7 .flush

/-- The hypotheses of `C09_gate_open_means_delivered_server`: the state is well formed and the
iteration for object 0 sends the disconnect request. -/
theorem C09_gate_example_server :
    exGateServer.WF ∧
    ∃ acc', Server.stepActiveStep (hcOf CreditEx.exOps) 2 2000000 (exGateServer, []) 0 = .ok acc' ∧
      acc'.2 ≠ ([] : List (Nat × List Nat)) := by
  have h2 : (match Server.stepActiveStep (hcOf CreditEx.exOps) 2 2000000 (exGateServer, []) 0 with
      | .ok acc' => decide (acc'.2.length = 1)
      | .error _ => false) = true := by decide +kernel
  have hdet : exGateServer.detached = [] := by decide +kernel
  refine ⟨⟨by decide +kernel, by decide +kernel, (by rw [hdet]; intro d hd; cases hd), by decide +kernel,
    by decide +kernel⟩, ?_⟩
  cases hs : Server.stepActiveStep (hcOf CreditEx.exOps) 2 2000000 (exGateServer, []) 0 with
  | error t => rw [hs] at h2; cases h2
  | ok acc' =>
    rw [hs] at h2
    simp only [decide_eq_true_eq] at h2
    refine ⟨acc', rfl, ?_⟩
    intro he
    rw [he] at h2
    cases h2

end Uflow.Props.C09
