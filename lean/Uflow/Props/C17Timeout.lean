import Uflow.Lemmas.EpSlotEx

/-!
# C17 / C10 — an active timeout releases the slot, whatever the disconnect signal

Model: `Uflow.Endpoint` (`Server::step`: `handle_events` second half = the active-timeout loop, which runs BEFORE
`step_active_clients`); every theorem holds for every half connection `hc : HC H`. Helper lemmas:
`Uflow/Lemmas/EpSlot.lean`. This file lives in the `EndpointEvents*` import chain (`Server.WF`, the C08 monitor, the
C10 promptness lemmas `Server.step_timeout_prompt` / `Server.activeTimeouts_prompt`, which are what
`C10_timeout_prompt_server(_loop)` quote). `Props/C17.lean` (`C17_release`, `C17_refuse`) lives in the other chain
(`EndpointServer*`, its own `SOp` / `Server.find_some`), which cannot be imported together with this one; the
counting facts needed here are therefore proved directly (`C17_timeout_release_counts`, sharper than `C17_release`:
both counts drop by exactly one).

Vocabulary: `s.nowMs nowNs` — the clock of a step; `s.phaseOf a` — the monitor phase of `a` (`idle`: no
`active`/`closing` entry); `RState.occupies` — `pending` or `active`, what `activeCount` counts.
-/

namespace Uflow.Props.C17

open Uflow.Endpoint Uflow.Codec Uflow.Gen Uflow.HalfConn

variable {H : Type}

/-- `C17_timeout_releases_slot` (whole `Server.step`): a well-formed server, the entry of `a` is `active` with ANY
disconnect signal `sig` (`none`, `some .flush`, `some .now`) and deadline `t ≤` the clock of the step, and nothing
arrives from `a` in that step (the peer is silent; datagrams from other addresses are arbitrary). Then
`error a timeout` is among the events of the step, and afterwards `a` is `idle`: it has no `active` entry — and no
`closing` one either, i.e. the timeout wins over the disconnect that `step_active_clients` would otherwise have
started or kept waiting for (`sig = some .flush` with `isSendPending` true for ever included), because the
active-timeout loop runs first and removes the entry. -/
theorem C17_timeout_releases_slot (hc : HC H) (s s' : Server H) (hw : s.WF) (nowNs a : Nat)
    (arr sent : List (Nat × List Nat)) (evs : List SEvent) (c : RClient H) (hh : H) (t : Nat)
    (sig : Option DisconnectMode) (hf : s.find a = some c) (hst : c.state = .active hh t sig)
    (hge : s.nowMs nowNs ≥ t) (hsil : ∀ y ∈ arr, y.1 ≠ a)
    (h : s.step hc nowNs arr = .ok (s', sent, evs)) :
    SEvent.error a .timeout ∈ evs ∧ s'.WF ∧ s'.eventsOut = [] ∧ s'.phaseOf a = .idle ∧
    (∀ c' h' t' sig', s'.find a = some c' → c'.state ≠ .active h' t' sig') :=
  Server.step_timeout_releases hc s s' hw nowNs a arr sent evs c hh t sig hf hst hge hsil h

/-- The iteration of the active-timeout loop that does it: for an `active` object whose deadline has passed the
signal plays no role — `hc.receive` drains the half connection, the packets are reported as `receive` events, then
`error timeout`, and the object is `finish`ed (removed from the map). -/
theorem C17_timeout_ignores_signal (hc : HC H) (nowMs : Nat) (s : Server H) (cid : Nat) (c : RClient H) (hh : H)
    (t : Nat) (sig : Option DisconnectMode) (hb : s.byCid cid = some c) (hst : c.state = .active hh t sig)
    (hge : nowMs ≥ t) :
    Server.activeTimeoutStep hc nowMs s cid =
      match hc.receive hh with
      | .error e => .error e
      | .ok (_, pkts) =>
        .ok (({ s with eventsOut := s.eventsOut ++ pkts.map (SEvent.receive c.address) ++
                [SEvent.error c.address .timeout] } : Server H).finish c) :=
  Server.activeTimeoutStep_due hc nowMs s cid c hh t sig hb hst hge

/-- Loop level (`Server.activeTimeouts_prompt`, quoted by `C10_timeout_prompt_server_loop`): the loop emits
`error timeout` for such an entry and its address has no entry afterwards. -/
theorem C17_timeout_loop_releases (hc : HC H) (s s' : Server H) (hw : s.WF) (nowMs : Nat) (c : RClient H)
    (hcm : c ∈ s.clients) (hh : H) (t : Nat) (sig : Option DisconnectMode) (hst : c.state = .active hh t sig)
    (hge : nowMs ≥ t) (h : s.activeTimeouts hc nowMs = .ok s') :
    ∃ evs, s'.eventsOut = s.eventsOut ++ evs ∧ SEvent.error c.address .timeout ∈ evs ∧ s'.find c.address = none :=
  Server.activeTimeouts_prompt hc s s' hw nowMs c hcm hh t sig hst hge h

/-- `C17_timeout_release_counts`: `finish` of an entry of the map that occupies a slot (`pending` or `active`):
both occupancy counts read by the SYN handler — the number of entries and `activeCount` — drop by exactly one,
and the address is free. -/
theorem C17_timeout_release_counts (s : Server H) (hw : s.WF) (c : RClient H) (hcm : c ∈ s.clients)
    (ho : c.state.occupies = true) :
    (s.finish c).clients.length + 1 = s.clients.length ∧ (s.finish c).activeCount + 1 = s.activeCount ∧
    (s.finish c).find c.address = none := by
  obtain ⟨h1, h2⟩ := Server.finish_counts s hw c hcm ho
  refine ⟨h1, h2, ?_⟩
  rw [Server.find_finish, if_pos rfl]

/-- `C17_slot_reusable`: in a state within its limits (`C17_inv`: entries `≤ max_total`, `activeCount ≤ max_active`)
— possibly full, so that a SYN is refused (`C17_refuse`) — once an occupying entry has been `finish`ed (by the
active timeout above), a SYN with the right version and acceptable sizes from any address `b` without an entry is
accepted: the SYN-ACK is sent to `b` and a `pending` entry is created. -/
theorem C17_slot_reusable (s : Server H) (hw : s.WF) (c : RClient H) (hcm : c ∈ s.clients)
    (ho : c.state.occupies = true) (hl1 : s.clients.length ≤ s.cfg.maxTotalConnections)
    (hl2 : s.activeCount ≤ s.cfg.maxActiveConnections) (b n r p al nowMs : Nat) (hfb : s.find b = none)
    (h3 : ¬ al < s.cfg.ep.maxPacketSize) (h4 : ¬ p > s.cfg.ep.maxReceiveAlloc) :
    ∃ ln, ((s.finish c).handleSyn b PROTOCOL_VERSION n r p al nowMs).2 =
        [(b, encode (.synAck n ln (u32 s.cfg.ep.maxReceiveRate) (u32 s.cfg.ep.maxPacketSize)
          (u32 s.cfg.ep.maxReceiveAlloc)))] ∧
      ∃ c', ((s.finish c).handleSyn b PROTOCOL_VERSION n r p al nowMs).1.find b = some c' ∧
        ∃ ln rn rr a' rb, c'.state = .pending ln rn rr a' rb := by
  obtain ⟨h1, h2⟩ := Server.finish_counts s hw c hcm ho
  have hcfg : (s.finish c).cfg = s.cfg := by rw [Server.finish_eq hcm]
  have hfb' : (s.finish c).find b = none := by
    rw [Server.find_finish]; split
    · rfl
    · exact hfb
  obtain ⟨e1, e2⟩ := Server.handleSyn_accepts (s.finish c) b n r p al nowMs hfb'
    (by rw [hcfg]; omega) (by rw [hcfg]; omega) (by rw [hcfg]; exact h3) (by rw [hcfg]; exact h4)
  rw [hcfg] at e1
  exact ⟨_, e1, e2⟩

/-! ### Non-vacuity -/

/-- `max_active = 1`. Address 5 connects, the application calls `disconnect(flush)`, the half connection (`pendHC`)
reports send-pending for ever, the peer is silent. Meanwhile a SYN from 6 is refused (`serverFull`). At clock 15002
(deadline `2 + 15000`) the step reports `error 5 timeout` — no `disconnect` request was ever sent to 5 — and the SYN
from 6 in the next step gets a SYN-ACK. -/
example : okAnd (Server.run pendHC oneServer
      [.step 1000000 [(5, exSyn)], .step 2000000 [(5, exHsAck)], .disconnect 5 .flush, .step 3000000 [(6, exSyn)],
       .step 15002000000 [], .step 15003000000 [(6, exSyn)]])
    (fun r => decide (r.2.2 = [SLabel.ev (.connect 5), .ev (.error 6 .serverFull), .ev (.error 5 .timeout)] ∧
      r.2.1.map (fun x => (x.1, decode x.2)) =
        [(5, some (.synAck 9 7 1000000 10000 100000)), (6, some (.hsError 9 .serverFull)),
         (6, some (.synAck 9 9 1000000 10000 100000))])) = true := by
  decide +kernel

/-- Hypotheses of `C17_timeout_releases_slot` on that run: before the timeout step the entry of 5 is `active` with
signal `some .flush` and deadline 15002. -/
example : okAnd (Server.run pendHC oneServer
      [.step 1000000 [(5, exSyn)], .step 2000000 [(5, exHsAck)], .disconnect 5 .flush, .step 3000000 [(6, exSyn)]])
    (fun r => (match r.1.find 5 with
      | some c => (match c.state with
        | .active _ t sig => decide (t = 15002 ∧ sig = some .flush)
        | _ => false)
      | none => false) && decide (r.1.activeCount = 1 ∧ r.1.nowMs 15002000000 = 15002)) = true := by
  decide +kernel

end Uflow.Props.C17
