import Uflow.Lemmas.EpPeerSrv4
import Uflow.Lemmas.EpPeerConn2Ex

/-!
# C07 — the server side of a connection starts from a fresh half connection

Model: `Uflow.Endpoint` (`Server::handle_handshake_syn`, `handle_handshake_ack`); every theorem holds for every half
connection `hc : HC H`. Helper lemmas: `Uflow/Lemmas/EpPeerSrv4.lean` (and `EpPeerSrv3*.lean` for the call trace).

`hcConfig ep localNonce remoteNonce remoteMaxRecvRate remoteMaxRecvAlloc` (`Uflow/Model/Endpoint.lean`) is
```
{ txFrameWindowSize := MAX_FRAME_WINDOW_SIZE, rxFrameWindowSize := MAX_FRAME_WINDOW_SIZE,
  txFrameBaseId := localNonce, rxFrameBaseId := remoteNonce,
  txPacketWindowSize := MAX_PACKET_WINDOW_SIZE, rxPacketWindowSize := MAX_PACKET_WINDOW_SIZE,
  txPacketBaseId := localNonce % PACKET_ID_SPAN, rxPacketBaseId := remoteNonce % PACKET_ID_SPAN,
  txBandwidthLimit := min (ep.maxSendRate % 2^32) remoteMaxRecvRate,
  txAllocLimit := remoteMaxRecvAlloc, rxAllocLimit := ep.maxReceiveAlloc,
  keepaliveIntervalMs := if ep.keepalive then some ep.keepaliveIntervalMs else none }
```
so: tx frame / packet base ids from the server's own nonce (drawn when the SYN was accepted), rx base ids from the
SYN's nonce, the send rate limit = min(server `max_send_rate`, the SYN's `max_receive_rate`), `txAllocLimit` = the
SYN's `max_receive_alloc`, `rxAllocLimit` and keepalive from the server's endpoint configuration; the SYN's
`max_packet_size` is only checked (`C07_server_pending_records_syn` hypotheses), not recorded.
-/

namespace Uflow.Props.C07

open Uflow.Endpoint Uflow.Codec Uflow.Gen Uflow.HalfConn

variable {H : Type}

/-- An accepted SYN `(version, n, r, p, al)` creates the `pending` entry
`pending localNonce n r al reply`: it records the SYN's nonce `n`, `max_receive_rate` `r` and `max_receive_alloc` `al`
(and the server nonce `localNonce = rng.next % 2^32` it answers with); the configuration is unchanged. -/
theorem C07_server_pending_records_syn (s : Server H) (addr n r p al nowMs : Nat) (hf : s.find addr = none)
    (h1 : s.clients.length < s.cfg.maxTotalConnections) (h2 : s.activeCount < s.cfg.maxActiveConnections)
    (h3 : ¬ al < s.cfg.ep.maxPacketSize) (h4 : ¬ p > s.cfg.ep.maxReceiveAlloc) :
    ∃ c, (s.handleSyn addr PROTOCOL_VERSION n r p al nowMs).1.find addr = some c ∧
      c.state = .pending (s.rng.next.1 % 2^32) n r al
        (encode (.synAck n (s.rng.next.1 % 2^32) (u32 s.cfg.ep.maxReceiveRate) (u32 s.cfg.ep.maxPacketSize)
          (u32 s.cfg.ep.maxReceiveAlloc))) ∧
      (s.handleSyn addr PROTOCOL_VERSION n r p al nowMs).1.cfg = s.cfg :=
  Server.handleSyn_records s addr n r p al nowMs hf h1 h2 h3 h4

/-- `C07_server_connection_starts_fresh` (single transition): a handshake ACK `hsAck na` from `a` whose entry is
`pending ln rn r al _` is accepted iff `na = ln`. Then the entry becomes `active` with half connection exactly
`hc.new (hcConfig s.cfg.ep ln rn r al) nowNs` — no `send`, no `dispatch`, nothing else applied to it — deadline
`nowMs + activeTimeoutMs`, no disconnect signal; exactly one `connect a` event is appended, nothing is sent, the
other entries are untouched. Otherwise nothing changes. -/
theorem C07_server_connection_starts_fresh (hc : HC H) (s s' : Server H) (hw : s.WF) (a na nowMs nowNs : Nat)
    (out : List (Nat × List Nat)) (c : RClient H) (ln rn r al : Nat) (rb : List Nat)
    (hf : s.find a = some c) (hst : c.state = .pending ln rn r al rb)
    (h : s.handleFrame hc a (.hsAck na) nowMs nowNs = .ok (s', out)) :
    (na = ln ∧
      s'.find a = some { c with state := (.active (hc.new (hcConfig s.cfg.ep ln rn r al) nowNs)
        (nowMs + s.cfg.ep.activeTimeoutMs) none) } ∧
      s'.eventsOut = s.eventsOut ++ [SEvent.connect a] ∧ out = [] ∧ (∀ b, b ≠ a → s'.find b = s.find b) ∧ s'.WF) ∨
    (na ≠ ln ∧ s' = s ∧ out = []) :=
  Server.handleFrame_hsAck_pending hc s s' hw a na nowMs nowNs out c ln rn r al rb hf hst h

/-- … and `connect a` is reported by the ACK handler in no other situation. -/
theorem C07_server_connect_only_from_pending (hc : HC H) (s : Server H) (hw : s.WF) (a na nowMs nowNs : Nat)
    (hne : (s.handleHsAck hc a na nowMs nowNs).eventsOut ≠ s.eventsOut) :
    ∃ c ln rn r al rb, s.find a = some c ∧ c.state = .pending ln rn r al rb ∧ na = ln := by
  obtain ⟨evs, t, hsh⟩ := Server.handleHsAck_STr hc s hw a na nowMs nowNs
  rcases hsh with rfl | ⟨-, x⟩
  · exact absurd (by simpa using t.events) hne
  · exact x

/-- `C09_peer_server_trace_from_handshake`: the step in which the handshake ACK of `a` is accepted — arrivals
`pre ++ (a, b) :: post`, `b` decoding to `hsAck ln`, the entry of `a` being `pending ln rn r al _` in the state `xa`
the datagram loop has reached before that datagram (after the step's flush `h1` and the datagrams `pre`, `hpre`) —
followed by any run `ops`, without another `connect a` (neither in the rest of that step, `after`, nor in the run).
The events of the step are `xa.eventsOut ++ connect a :: after`, and there is a call list `calls` such that
* its replay from the FRESH half connection `hc.new (hcConfig xa.cfg.ep ln rn r al) nowNs` succeeds, and the
  `receive a` payloads delivered after the `connect a` (rest of the step, then the run) are exactly the outputs of
  its `receive` calls, in order;
* its `dispatch` calls are a prefix of the traffic frames from `a` that arrived after the ACK — later in the same
  step (`trafficAt a post`) or in later steps (`trafficAtOps a ops`);
* its `send` calls are a prefix of the application's `send a …` calls of the run;
* if the entry is still `active` at the end, its half connection is the result of the replay and both prefixes are
  the whole lists. (`xa.cfg = s.cfg`: the configuration never changes.) -/
theorem C09_peer_server_trace_from_handshake (hc : HC H) (a : Nat) (s s' s'' : Server H) (nowNs : Nat)
    (pre : List (Nat × List Nat)) (b : List Nat) (post sent : List (Nat × List Nat)) (evs : List SEvent)
    (h : s.step hc nowNs (pre ++ (a, b) :: post) = .ok (s', sent, evs))
    (s1 : Server H) (o1 : List (Nat × List Nat)) (xa : Server H) (oa : List (Nat × List Nat))
    (h1 : s.flushActive hc = .ok (s1, o1))
    (hpre : pre.foldlM (Server.frameStep hc (s.nowMs nowNs) nowNs) (s1, []) = .ok (xa, oa)) (hwa : xa.WF)
    (c : RClient H) (ln rn r al : Nat) (rb : List Nat) (hf : xa.find a = some c)
    (hst : c.state = .pending ln rn r al rb) (hb : decodesTo b (.hsAck ln))
    (ops : List SOp) (sent2 : List (Nat × List Nat)) (ls : List SLabel)
    (h2 : Server.run hc s' ops = .ok (s'', sent2, ls)) (hnc2 : SLabel.ev (.connect a) ∉ ls) :
    ∃ (after : List SEvent), evs = xa.eventsOut ++ SEvent.connect a :: after ∧
      (SEvent.connect a ∉ after →
        ∃ (calls : List HCall) (hf : H),
          replay hc (hc.new (hcConfig xa.cfg.ep ln rn r al) nowNs) calls = .ok (hf, recvAt a after ++ recvAtL a ls) ∧
          dispatched calls <+: trafficAt a post ++ trafficAtOps a ops ∧
          sendsOf calls <+: sendsAtOps a ops ∧
          (∀ c' h' t' sig', s''.find a = some c' → c'.state = .active h' t' sig' →
            h' = hf ∧ dispatched calls = trafficAt a post ++ trafficAtOps a ops ∧ sendsOf calls = sendsAtOps a ops)) := by
  obtain ⟨after, cs1, e, w, he, cc⟩ :=
    Server.step_from_handshake hc a s s' nowNs pre b post sent evs h s1 o1 xa oa h1 hpre hwa c ln rn r al rb hf hst hb
  refine ⟨after, e, fun hnc => ?_⟩
  rcases cc with cc | t1
  · exact absurd cc hnc
  · obtain ⟨-, -, cs2, t2⟩ := Server.run_AT hc a ops s' s'' sent2 ls w he h2 hnc2
    obtain ⟨hf', rp, d, sd, ex⟩ := (t1.trans t2).act _ rfl
    refine ⟨cs1 ++ cs2, hf', rp, d, by simpa using sd, fun c' h' t' sig' hf2 hst2 => ?_⟩
    obtain ⟨x1, x2, x3⟩ := ex h' (Server.hcAt_active hf2 hst2)
    exact ⟨x1, x2, by simpa using x3⟩

/-! ### Non-vacuity -/

/-- Address 5: SYN; then in one step a data frame (ignored: still `pending`), the handshake ACK, a data frame; then
another data frame in the next step. With `rxHC` (one packet per dispatched data frame): `connect 5`, then exactly
the packets of the frames that arrived AFTER the ACK, `[2]` and `[3]`. -/
example : okAnd (Server.run rxHC exServerE
      [.step 1000000 [(5, exSyn)], .step 2000000 [(5, exData 1), (5, exHsAck), (5, exData 2)], .step 3000000 [(5, exData 3)]])
    (fun r => decide (r.2.2 = [SLabel.ev (.connect 5), .ev (.receive 5 [2]), .ev (.receive 5 [3])])) = true := by
  decide +kernel

/-- After the SYN the entry of 5 is `pending 7 9 500000 100000 _` (the SYN's nonce 9, rate 500000, alloc 100000;
server nonce 7). -/
example : okAnd (Server.run logHC (Server.init exCfg 0 exRng : Server (List (List Nat × Nat × SendMode))) [.step 1000000 [(5, exSyn)]])
    (fun r => match r.1.find 5 with
      | some c => (match c.state with
        | .pending ln rn rr al _ => decide (ln = 7 ∧ rn = 9 ∧ rr = 500000 ∧ al = 100000)
        | _ => false)
      | none => false) = true := by
  decide +kernel

/-- The ACK `hsAck 7` in the step at clock 2 makes it `active` with the fresh half connection (`logHC` records its
`send` calls: none), deadline `2 + 15000`, no signal. -/
example : okAnd (Server.run logHC (Server.init exCfg 0 exRng : Server (List (List Nat × Nat × SendMode))) [.step 1000000 [(5, exSyn)], .step 2000000 [(5, exHsAck)]])
    (fun r => (match r.1.find 5 with
      | some c => (match c.state with
        | .active h t sig => decide (h = [] ∧ t = 15002 ∧ sig = none)
        | _ => false)
      | none => false) && decide (r.2.2 = [SLabel.ev (.connect 5)])) = true := by
  decide +kernel

end Uflow.Props.C07
