import Uflow.Model.Heap

/-! # C19 — heap discipline of the hand-built assembly buffer

What is a theorem here and what is not is spelled out in DESIGN.md 6/C19: the allocator contract can
only be broken where the code leaves safe Rust; the one such place that builds an owned heap object is
`FragmentBuffer::finalize`. -/

namespace Uflow.Props.C19

open Uflow Uflow.Gen Uflow.PRecv Uflow.Heap

/-- Every sequence of writes keeps `total_size` within the backing buffer
(the `debug_assert!(self.total_size <= self.buffer.len())` of `finalize`), given that it holds
fragment-wise: a fragment is at most `MAX_FRAGMENT_SIZE` bytes (the decoder's bound, C04). -/
def Wf (b : FragBuf) : Prop :=
  b.totalSize + b.remaining * MAX_FRAGMENT_SIZE ≤ b.numFragments * MAX_FRAGMENT_SIZE

theorem C19_wf_new (n : Nat) : Wf (FragBuf.new n) := by
  simp [Wf, FragBuf.new]

theorem C19_wf_write (b b' : FragBuf) (i : Nat) (d : List Nat) (hd : d.length ≤ MAX_FRAGMENT_SIZE)
    (h : Wf b) (hw : b.write i d = .ok b') : Wf b' := by
  unfold FragBuf.write at hw
  split at hw
  · cases hw
  · split at hw
    · cases hw; exact h
    · split at hw
      · cases hw
      · split at hw
        · cases hw
        · cases hw
          simp only [Wf] at h ⊢
          have : b.remaining ≠ 0 := by assumption
          have hr : b.remaining = (b.remaining - 1) + 1 := by omega
          rw [hr] at h
          simp only [MAX_FRAGMENT_SIZE] at *
          omega

theorem write_numFragments (b b' : FragBuf) (i : Nat) (d : List Nat) (hw : b.write i d = .ok b') :
    b'.numFragments = b.numFragments := by
  unfold FragBuf.write at hw
  split at hw
  · cases hw
  · split at hw
    · cases hw; rfl
    · split at hw
      · cases hw
      · split at hw
        · cases hw
        · cases hw; rfl

instance instDecidableEqExcept {ε α : Type} [DecidableEq ε] [DecidableEq α] : DecidableEq (Except ε α)
  | .ok a, .ok b =>
    if h : a = b then isTrue (by rw [h]) else isFalse (by intro h'; cases h'; exact h rfl)
  | .error a, .error b =>
    if h : a = b then isTrue (by rw [h]) else isFalse (by intro h'; cases h'; exact h rfl)
  | .ok _, .error _ => isFalse (by intro h; cases h)
  | .error _, .ok _ => isFalse (by intro h; cases h)

/-- Writes, in any order and with any repetition, from a fresh buffer. -/
def writes (b : FragBuf) : List (Nat × List Nat) → R FragBuf
  | [] => .ok b
  | (i, d) :: rest => match b.write i d with
    | .error t => .error t
    | .ok b' => writes b' rest

theorem C19_wf_writes (ws : List (Nat × List Nat)) (b b' : FragBuf)
    (hd : ∀ w ∈ ws, w.2.length ≤ MAX_FRAGMENT_SIZE) (h : Wf b) (hw : writes b ws = .ok b') : Wf b' := by
  induction ws generalizing b with
  | nil => simp [writes] at hw; cases hw; exact h
  | cons w rest ih =>
    obtain ⟨i, d⟩ := w
    simp only [writes] at hw
    split at hw
    · cases hw
    · rename_i b1 hb1
      exact ih b1 (fun w hw' => hd w (List.mem_cons_of_mem _ hw')) (C19_wf_write b b1 i d (hd (i, d) List.mem_cons_self) h hb1) hw

/-- **Layout theorem.** The box in which an assembled packet is handed to the application is dropped
with exactly the layout of its block, for every number of fragments and every history of writes
(any order, any repetition, complete or not). -/
theorem C19_finalize_layout (n : Nat) (ws : List (Nat × List Nat)) (b : FragBuf)
    (hd : ∀ w ∈ ws, w.2.length ≤ MAX_FRAGMENT_SIZE) (hw : writes (FragBuf.new n) ws = .ok b) :
    (deliveredBox b).dropOk = true ∧ (deliveredBox b).len = b.totalSize := by
  have hwf := C19_wf_writes ws (FragBuf.new n) b hd (C19_wf_new n) hw
  have hn : ∀ (ws : List (Nat × List Nat)) (b0 : FragBuf), writes b0 ws = .ok b → b.numFragments = b0.numFragments := by
    intro ws
    induction ws with
    | nil => intro b0 h; simp [writes] at h; cases h; rfl
    | cons w rest ih =>
      intro b0 h
      obtain ⟨i, d⟩ := w
      simp only [writes] at h
      split at h
      · cases h
      · rename_i b1 hb1
        rw [ih b1 h, write_numFragments b0 b1 i d hb1]
  have hle : b.totalSize ≤ b.numFragments * MAX_FRAGMENT_SIZE := by
    have := hwf; simp only [Wf] at this; omega
  simp only [deliveredBox, finalizeBox, allocBox, BoxU8.dropOk]
  rw [Nat.min_eq_left hle]
  simp

/-- The ledger function used by the driver agrees with the theorem's box for complete packets. -/
theorem C19_boxOfDelivered_ok (len : Nat) : (boxOfDelivered len).dropOk = true := by
  simp only [boxOfDelivered, finalizeBox, allocBox, BoxU8.dropOk]
  simp

/-- **The defect that was there (F11)**: re-boxing the same block with a shorter length breaks the
contract exactly when the packet length is not the full buffer size… -/
theorem C19_raw_mismatch (n total : Nat) :
    (finalizeRaw (allocBox (n * MAX_FRAGMENT_SIZE)) total).dropOk = true ↔ total = n * MAX_FRAGMENT_SIZE := by
  simp [finalizeRaw, allocBox, BoxU8.dropOk]

/-- …for instance for the 1449-byte packet (two fragments, 1448 + 1 bytes). -/
def witnessBuf : FragBuf :=
  { numFragments := 2, frags := [(0, List.replicate 1448 7), (1, [9])], remaining := 0, totalSize := 1449 }

theorem C19_raw_mismatch_witness :
    writes (FragBuf.new 2) [(0, List.replicate 1448 7), (1, [9])] = .ok witnessBuf ∧ witnessBuf.remaining = 0 ∧
      (finalizeRaw (allocBox (witnessBuf.numFragments * MAX_FRAGMENT_SIZE)) witnessBuf.totalSize).dropOk = false := by
  refine ⟨by decide +kernel, rfl, by decide +kernel⟩

/-- Non-vacuity of the layout theorem: the same packet (fragments out of order, one repeated) through the current `finalize`. -/
theorem C19_layout_example :
    writes (FragBuf.new 2) [(1, [9]), (0, List.replicate 1448 7), (1, [5])] =
      .ok { numFragments := 2, frags := [(1, [9]), (0, List.replicate 1448 7)], remaining := 0, totalSize := 1449 } ∧
    (deliveredBox { numFragments := 2, frags := [(1, [9]), (0, List.replicate 1448 7)], remaining := 0, totalSize := 1449 }).block.size = 1449 := by
  refine ⟨by decide +kernel, by decide +kernel⟩

end Uflow.Props.C19
