import Uflow.Lemmas.HcAgeMain
import Uflow.Lemmas.HcAgeFrames
import Uflow.Props.C01Hc

/-!
# C01Age — the schedule hypothesis `Guarded` from ONE network hypothesis: no frame is delivered too old

`Props/C01Hc.lean` proves in-order / at-most-once / byte-exact / never-skipped delivery for the pair
`HcPair` of half connections under the schedule hypothesis `Guarded`, whose clauses `FreshDg`,
`FreshAck`, `FreshSync` are packet-level GHOST conditions (emission positions against unwrapped window
bases); they were discharged only for runs that emit fewer than `2^19` packets
(`C01_hc_guarded_of_few_full`). This file discharges all three, for runs of ANY length (any number of
wraps of the 20-bit packet ids), from one hypothesis about the network:

**`HcAge.AgeOk ops D x sched`** — along the age-instrumented run (`HcAge.runG`, which replays `runP`
and stamps every frame of `wireBA`; `HcAge.runG_erase`):
* `deliverAB k`: the `k`-th frame of `wireAB` is handed to `B` only while `A` has emitted at most `D`
  packets since the `flush` that emitted the frame returned: `pend.length ≤ wireT[k] + D`
  (`wireT` = the existing emission stamps of `HcPair`);
* `deliverBA k`: the `k`-th frame of `wireBA` is handed to `A` only while `B`'s packet receive window
  base has moved at most `D` ids since the `flush` of `B` that emitted the frame:
  `advB ≤ tBA[k] + D` (`tBA` = the new ghost stamps of `HcAge.Aged`).
Any `D` with `D + w + 2^k < 2^20` works (`w` = `A`'s send window, `2^k` = `B`'s receive window); for
every configuration allowed by `SyncCfg` (`w ≤ 2^16`, `k ≤ 19`) `D = 2^18` works: **a frame may be
delayed until the sender has emitted a quarter of a million further packets.**

## Results
* `C01_hc_guarded_of_age` — `AgeOk` ⇒ `Guarded`, for every run that does not reuse frame ids
  (`IdsNodup`, i.e. at most `2^32` data frames, `C01_hc_ids_nodup`); `C01_hc_guarded_of_age_2_18`.
* `C01_hc_delivery_aged` — the conclusions of `C01_hc_delivery` with `Guarded` replaced by `AgeOk`;
  `C01_hc_sync_ok_aged` — `SyncOkP` whenever `A`'s transmit queues are empty, likewise.
* `C01_hc_age_stamps` — the ghost invariant behind it (`HcAge.AgeInv`), for every such run: every
  datagram of a data frame with stamp `T` is a fragment of the packet at an emission position `i` with
  `T ≤ i + w` (it was in `A`'s send window when the frame was built: `HcAge.flush_specL`, the chain of
  `Lemmas/HcSysEmit.lean` re-run with positions, using `HcCov.WinUids`); a sync frame with stamp `T`
  carrying `id` is recorded as `(T, id)` in `syncs`; an ack frame with stamp `a` carries a base `pb` with
  `(a, pb)` in `bases`.
* `C01_hc_age_checker` — executable test `HcAge.ageOkB`; examples.

## The arithmetic
`advB ≤ pend.length` and `pend.length - A.win.length ≤ advB` (`SInv.hi`, `SInv.lo`).
`FreshDg`: `advB + 2^k ≤ pend.length + 2^k ≤ T + D + 2^k ≤ i + w + D + 2^k ≤ i + 2^20`.
`FreshSync`: `advB + 2^k ≤ T + D + 2^k < T + 2^20`.
`FreshAck`: `(pend.length - win.length) + w ≤ advB + w ≤ a + D + w < a + 2^20`.

## What is NOT proved: the frame-count form
The age is measured in PACKETS emitted since (resp. ids the receive base moved), which is what the
existing stamps record, not in FRAMES sent since. The link "between the emission of a frame and a later
state `A` has emitted at most `127 ×` (data frames put on `wireAB` since) `+ 1` packets" — a data frame
carries at most 127 datagrams (`WireOk.data`), `Wire.refill` calls `PSend.emit` only when the pending
queue is empty, so all but the newest emitted packet have a fragment in some data frame — is not proved
here: `pendingInner` can drop a pending entry without transmitting it (packet no longer in the send
window / fragment acknowledged), and excluding that for a never-transmitted packet needs the receiver
side (`B`'s base cannot pass a packet none of whose fragments was ever sent). With that link, `AgeOk D`
follows from "at most `(D - 1) / 127` data frames were sent since": `C01_hc_guarded_of_frame_age_partial`
takes the link as an explicit (decidable, testable) hypothesis `HcAge.LinkOp` at every `deliverAB` step
(`2^18` packets = 2064 data frames).
-/

namespace Uflow.Props.C01

open Uflow Uflow.Gen Uflow.Codec Uflow.HalfConn Uflow.PSend Uflow.Sys Uflow.HcSys Uflow.HcAge
open Uflow.PRecv (LogE)
open Uflow.Rate (FloatOps)
open Uflow.HcFrm (IdsNodup)

variable {F : Type}

/-- **`AgeOk` implies `Guarded`** — runs of any length. `SyncCfg cA cB k` (valid ids, same initial packet
id, send window `w ≤ 2^16`, `w ≤ 2^k` = receive window, `k ≤ 19`, `FrmCfg`), `D + w + 2^k < 2^20`, the
run exists and reuses no frame id, and the network never hands over a frame that is more than `D`
packets old (`HcAge.AgeOk`, see the file header). Then the schedule is `Guarded`: every theorem of
`Props/C01Hc.lean`, `Props/C09Hc.lean`, `Props/C09Gate.lean` … stated for `Guarded` runs applies. -/
theorem C01_hc_guarded_of_age (ops : FloatOps F) (cA cB : Config) (nowA nowB : Nat) (rngA rngB : Rng)
    (k : Nat) (hc : SyncCfg cA cB k) (D : Nat) (hD : D + cA.txPacketWindowSize + 2^k < 2^20)
    (sched : List POp) (h : HcPair F)
    (hrun : runP ops (initP ops cA cB nowA nowB rngA rngB) sched = .ok h) (hn : IdsNodup h.wireAB)
    (hage : AgeOk ops D (aged0 (initP ops cA cB nowA nowB rngA rngB)) sched) :
    Guarded ops (initP ops cA cB nowA nowB rngA rngB) sched :=
  (guarded_of_age ops hc.shyp hD sched
    (full_init ops cA cB nowA nowB rngA rngB k hc.pc.txA hc.pc.txB hc.pc.rxB hc.base hc.hW hc.frm)
    (ageInv_init ops _ cA cB nowA nowB rngA rngB) hage hrun hn).1

/-- The same with the concrete bound `D = 2^18 = 262144`, which is admissible for EVERY configuration
satisfying `SyncCfg` (`2^18 + 2^16 + 2^19 < 2^20`). -/
theorem C01_hc_guarded_of_age_2_18 (ops : FloatOps F) (cA cB : Config) (nowA nowB : Nat) (rngA rngB : Rng)
    (k : Nat) (hc : SyncCfg cA cB k) (sched : List POp) (h : HcPair F)
    (hrun : runP ops (initP ops cA cB nowA nowB rngA rngB) sched = .ok h) (hn : IdsNodup h.wireAB)
    (hage : AgeOk ops (2^18) (aged0 (initP ops cA cB nowA nowB rngA rngB)) sched) :
    Guarded ops (initP ops cA cB nowA nowB rngA rngB) sched := by
  have h1 := hc.hw
  have h2 : 2^k ≤ 2^19 := Nat.pow_le_pow_right (by decide) hc.hk
  exact C01_hc_guarded_of_age ops cA cB nowA nowB rngA rngB k hc (2^18) (by omega) sched h hrun hn hage

/-- **What the stamps mean** (the ghost invariant `HcAge.AgeInv`, for every aged run without reused
frame ids): the instrumented run exists and erases to the run, and in its final state `x` (`x.h = h`)
* every datagram `d` of a data frame `wireAB[j]` with stamp `wireT[j] = T` is a fragment of the packet at
  an emission position `i` with `T ≤ i + w` (and `i < T`, `FrmInv` / `Genuine`);
* a sync frame `wireAB[j]` with stamp `T` carrying the packet id `id` is recorded: `(T, id) ∈ syncs`;
* `tBA` runs parallel to `wireBA`, and an ack frame `wireBA[j]` with stamp `tBA[j] = a` carries a packet
  window base `pb` (as encoded) with `(a, pb) ∈ bases`. -/
theorem C01_hc_age_stamps (ops : FloatOps F) (cA cB : Config) (nowA nowB : Nat) (rngA rngB : Rng)
    (k : Nat) (hc : SyncCfg cA cB k) (D : Nat) (hD : D + cA.txPacketWindowSize + 2^k < 2^20)
    (sched : List POp) (h : HcPair F)
    (hrun : runP ops (initP ops cA cB nowA nowB rngA rngB) sched = .ok h) (hn : IdsNodup h.wireAB)
    (hage : AgeOk ops D (aged0 (initP ops cA cB nowA nowB rngA rngB)) sched) :
    ∃ x, runG ops (aged0 (initP ops cA cB nowA nowB rngA rngB)) sched = .ok x ∧ x.h = h ∧
      AgeInv cA.txPacketWindowSize x := by
  obtain ⟨_, _, _, x, _, hx, he, _, hA⟩ := guarded_of_age ops hc.shyp hD sched
    (full_init ops cA cB nowA nowB rngA rngB k hc.pc.txA hc.pc.txB hc.pc.rxB hc.base hc.hW hc.frm)
    (ageInv_init ops _ cA cB nowA nowB rngA rngB) hage hrun hn
  exact ⟨x, hx, he, hA⟩

/-- **Delivery for every aged run**: the conclusions of `C01_hc_delivery` — one common attribution `log`
/ `em` of the payloads returned by `B.receive`: in order per channel, at most once, byte-exact, Reliable
packets never skipped — with the schedule hypothesis `Guarded` replaced by the network hypothesis
`AgeOk ops D` (`D + w + 2^k < 2^20`), for runs of any length that do not reuse frame ids. -/
theorem C01_hc_delivery_aged (ops : FloatOps F) (cA cB : Config) (nowA nowB : Nat) (rngA rngB : Rng)
    (k : Nat) (hc : SyncCfg cA cB k) (ham : allocCeil cA.txAllocLimit ≤ allocCeil cB.rxAllocLimit)
    (D : Nat) (hD : D + cA.txPacketWindowSize + 2^k < 2^20) (sched : List POp) (h : HcPair F)
    (hrun : runP ops (initP ops cA cB nowA nowB rngA rngB) sched = .ok h) (hn : IdsNodup h.wireAB)
    (hage : AgeOk ops D (aged0 (initP ops cA cB nowA nowB rngA rngB)) sched) :
    ∃ (log : List LogE) (em : List Emitted),
      log.map LogE.data = h.outs.map some ∧
      (em.map Emitted.toQ).Sublist h.sent ∧
      (∀ c, ((log.filter (fun e => decide (e.chan = c))).filterMap LogE.data).Sublist
        ((h.sent.filter (fun q => decide (q.channelId = c))).map QEntry.data)) ∧
      log.Pairwise (fun x y => x.uid ≠ y.uid) ∧
      (∀ e ∈ log, ∃ x, em[e.uid]? = some x ∧ e.chan = x.channelId ∧ e.data = some x.data) ∧
      ∀ (l1 : List LogE) (e : LogE) (l2 : List LogE), log = l1 ++ e :: l2 →
        ∀ (j : Nat) (x : Emitted), em[j]? = some x → x.mode = .reliable → x.channelId = e.chan →
          j < e.uid → ∃ e' ∈ l1, e'.uid = j ∧ e'.chan = e.chan :=
  C01_hc_delivery ops cA cB nowA nowB rngA rngB hc.pc hc.base hc.hw k hc.hk hc.hW ham sched h
    (C01_hc_guarded_of_age ops cA cB nowA nowB rngA rngB k hc D hD sched h hrun hn hage) hrun

/-- `C01_hc_sync_ok` for aged runs: whenever `A`'s resend queue and pending queue are empty, every
Reliable packet `A` has emitted has been completely received by `B` (`SyncOkP`). -/
theorem C01_hc_sync_ok_aged (ops : FloatOps F) (cA cB : Config) (nowA nowB : Nat) (rngA rngB : Rng)
    (k : Nat) (hc : SyncCfg cA cB k) (D : Nat) (hD : D + cA.txPacketWindowSize + 2^k < 2^20)
    (sched : List POp) (h : HcPair F)
    (hrun : runP ops (initP ops cA cB nowA nowB rngA rngB) sched = .ok h) (hn : IdsNodup h.wireAB)
    (hage : AgeOk ops D (aged0 (initP ops cA cB nowA nowB rngA rngB)) sched) :
    h.A.resend.size = 0 → h.A.pending.length = 0 → SyncOkP h :=
  (C01_hc_sync_ok ops cA cB nowA nowB rngA rngB k hc sched h
    (C01_hc_guarded_of_age ops cA cB nowA nowB rngA rngB k hc D hD sched h hrun hn hage) hrun hn).1

/-- An executable sufficient test for the network hypothesis: `HcAge.ageOkB` runs the instrumented
schedule and evaluates the age condition of every step. -/
theorem C01_hc_age_checker (ops : FloatOps F) (D : Nat) (x : Aged F) (sched : List POp)
    (hb : ageOkB ops D x sched = true) : AgeOk ops D x sched := ageOkB_sound ops D sched x hb

/-- Erasure: the instrumentation does not change the run. -/
theorem C01_hc_age_erase (ops : FloatOps F) (sched : List POp) (h : HcPair F) :
    (runG ops (aged0 h) sched).map Aged.h = runP ops h sched := runG_erase ops sched (aged0 h)

/-- **Frame-count form** — PARTIAL: the link from frames to packets is a HYPOTHESIS. If at every
`deliverAB k` step at most `Dfr` DATA FRAMES had been put on `wireAB` after frame `k`
(`HcAge.framesAfter`), and the link `HcAge.LinkOp` holds there — since the `flush` that emitted frame `k`
returned, `A` has emitted at most `127 × framesAfter + 1` packets —, and every `deliverBA` step satisfies
the age condition of `AgeOk ops D` (`HcAge.FrameAgeOk`), with `127 * Dfr + 1 ≤ D` and
`D + w + 2^k < 2^20`, then the schedule is `Guarded`. Missing for the unconditional statement: a proof of
`LinkOp` for every reachable state (see the file header); everything else is proved. -/
theorem C01_hc_guarded_of_frame_age_partial (ops : FloatOps F) (cA cB : Config) (nowA nowB : Nat)
    (rngA rngB : Rng) (k : Nat) (hc : SyncCfg cA cB k) (Dfr D : Nat) (hfr : 127 * Dfr + 1 ≤ D)
    (hD : D + cA.txPacketWindowSize + 2^k < 2^20) (sched : List POp) (h : HcPair F)
    (hrun : runP ops (initP ops cA cB nowA nowB rngA rngB) sched = .ok h) (hn : IdsNodup h.wireAB)
    (hage : FrameAgeOk ops Dfr D (aged0 (initP ops cA cB nowA nowB rngA rngB)) sched) :
    Guarded ops (initP ops cA cB nowA nowB rngA rngB) sched :=
  C01_hc_guarded_of_age ops cA cB nowA nowB rngA rngB k hc D hD sched h hrun hn
    (ageOk_of_frameAgeOk ops hfr sched _ hage)

/-! ## Non-vacuity -/

/-- The three example schedules of `Props/C01Hc.lean` (a lost frame, duplicated frames / datagrams /
acknowledgements; a sync frame that moves `B`'s window; a sync frame skipping a lost Unreliable packet)
satisfy `AgeOk` with `D = 2^18` — and already with `D = 2`: no frame is delivered after more than two
further packets were emitted. The condition is not vacuous: `hcExSched` violates it for `D = 1` (frame 0
is delivered after the second `flush` emitted two more packets). -/
theorem C01_hc_age_examples :
    ageOkB CreditEx.exOps (2^18) (aged0 hcExPair) hcExSched = true ∧
    ageOkB CreditEx.exOps 2 (aged0 hcExPair) hcExSched = true ∧
    ageOkB CreditEx.exOps 1 (aged0 hcExPair) hcExSched = false ∧
    ageOkB CreditEx.exOps (2^18) (aged0 hcExPair) hcSyncSched = true ∧
    ageOkB CreditEx.exOps (2^18) (aged0 hcExPair) hcResyncSched = true := by
  refine ⟨by decide +kernel, by decide +kernel, by decide +kernel, by decide +kernel, by decide +kernel⟩

/-- The stamps of the run `hcExSched`: the four frames of `wireAB` were emitted when 1, 3, 4, 4 packets
had been emitted; the two ack frames of `wireBA` when `B`'s base had moved 3 and 4 ids. -/
theorem C01_hc_age_example_stamps :
    (match runG CreditEx.exOps (aged0 hcExPair) hcExSched with
     | .ok x => decide (x.h.wireT = [1, 3, 4, 4] ∧ x.tBA = [3, 4] ∧ x.h.pend.length = 4 ∧ x.h.advB = 4)
     | .error _ => false) = true := by decide +kernel

/-- The hypotheses of `C01_hc_guarded_of_age`, `C01_hc_guarded_of_age_2_18`, `C01_hc_delivery_aged`,
`C01_hc_age_stamps`, `C01_hc_sync_ok_aged` hold for `hcExSched`: `SyncCfg` for the example configuration,
the allocation condition, `2 + 16 + 2^4 < 2^20`, the run exists, no frame id is reused, `AgeOk` with
`D = 2` and with `D = 2^18`. -/
theorem C01_hc_age_example_hyps :
    SyncCfg CreditEx.exCfg CreditEx.exCfg 4 ∧
    allocCeil CreditEx.exCfg.txAllocLimit ≤ allocCeil CreditEx.exCfg.rxAllocLimit ∧
    2 + CreditEx.exCfg.txPacketWindowSize + 2^4 < 2^20 ∧
    AgeOk CreditEx.exOps 2 (aged0 hcExPair) hcExSched ∧
    AgeOk CreditEx.exOps (2^18) (aged0 hcExPair) hcExSched ∧
    ∃ h, runP CreditEx.exOps hcExPair hcExSched = .ok h ∧ IdsNodup h.wireAB := by
  obtain ⟨e1, e2, -, -, -⟩ := C01_hc_age_examples
  obtain ⟨hcfg, hx, -⟩ := C01_hc_sync_example_hyps
  refine ⟨hcfg, Nat.le_refl _, by decide, C01_hc_age_checker _ _ _ _ e2, C01_hc_age_checker _ _ _ _ e1, ?_⟩
  cases hr : runP CreditEx.exOps hcExPair hcExSched with
  | error t => rw [hr] at hx; cases hx
  | ok h =>
    rw [hr] at hx
    simp only [decide_eq_true_eq] at hx
    exact ⟨h, rfl, hx.1⟩

/-- The hypotheses of `C01_hc_guarded_of_frame_age_partial` for the example schedules: with `Dfr = 2064`,
`D = 2^18` (`127 * 2064 + 1 ≤ 2^18`) — and already with `Dfr = 1` — the frame-count age condition AND
the link `LinkOp` hold at every step (executable test `HcAge.frameAgeOkB`); `hcExSched` violates the
frame-count condition for `Dfr = 0`. -/
theorem C01_hc_frame_age_examples :
    127 * 2064 + 1 ≤ 2^18 ∧
    FrameAgeOk CreditEx.exOps 2064 (2^18) (aged0 hcExPair) hcExSched ∧
    FrameAgeOk CreditEx.exOps 1 (2^18) (aged0 hcExPair) hcExSched ∧
    frameAgeOkB CreditEx.exOps 0 (2^18) (aged0 hcExPair) hcExSched = false ∧
    FrameAgeOk CreditEx.exOps 2064 (2^18) (aged0 hcExPair) hcSyncSched ∧
    FrameAgeOk CreditEx.exOps 2064 (2^18) (aged0 hcExPair) hcResyncSched :=
  ⟨by decide, frameAgeOkB_sound _ _ _ _ _ (by decide +kernel), frameAgeOkB_sound _ _ _ _ _ (by decide +kernel),
    by decide +kernel, frameAgeOkB_sound _ _ _ _ _ (by decide +kernel),
    frameAgeOkB_sound _ _ _ _ _ (by decide +kernel)⟩

end Uflow.Props.C01
