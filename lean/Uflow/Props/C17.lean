import Uflow.Lemmas.EndpointServerExample

/-!
# C17 — the server enforces `max_total_connections` / `max_active_connections`

Model: `Uflow/Model/Endpoint.lean`. Runs (`SRun`, `Reachable`, `SOp`, `Server.apply`) are defined in
`Uflow/Lemmas/EndpointServerRun.lean`, the global invariant `Server.WF` in
`Uflow/Lemmas/EndpointServerBasic.lean`, the outcomes of `handleSyn` (`Server.refuse`,
`Server.accept`, `Server.full`) in `Uflow/Lemmas/EndpointServerSyn.lean`. All theorems hold for every
half-connection behaviour `hc`.
-/

namespace Uflow.Props.C17

open Uflow.Endpoint Uflow.Codec Uflow.Gen

variable {H : Type}

/-- `u32` (the model of `.min(u32::MAX as usize) as u32`) fits 32 bits. -/
theorem C17_u32_lt (x : Nat) : u32 x < 2^32 := by
  unfold u32; omega

/-- **C17_inv.** In every server state reachable from `Server.init cfg ..` by any sequence of
`step` / `flush` / `drop` / `disconnect` / `send` calls (any arrivals, any times, any half-connection
behaviour) the configuration is unchanged, the number of pending-or-active entries is at most
`max_active_connections` and the size of the address map at most `max_total_connections`.
(The limits need not even be `≥ 1`.) The state is also globally well-formed (`Server.WF`). -/
theorem C17_inv (hc : HC H) (cfg : SrvConfig) (s : Server H) (hr : Reachable hc cfg s) :
    s.cfg = cfg ∧ s.activeCount ≤ cfg.maxActiveConnections ∧ s.clients.length ≤ cfg.maxTotalConnections ∧ s.WF := by
  obtain ⟨rx, tx, ev, hr⟩ := hr
  have := SRun.inv hc cfg
    (fun s => s.cfg = cfg ∧ s.activeCount ≤ cfg.maxActiveConnections ∧ s.clients.length ≤ cfg.maxTotalConnections)
    (fun now rng => ⟨rfl, Nat.zero_le _, Nat.zero_le _⟩)
    (fun s s' _ hp hq => ⟨hq.cfg.trans hp.1, Nat.le_trans hq.cnt hp.2.1, Nat.le_trans hq.len hp.2.2⟩)
    (fun s addr n r a nowMs _ hp _ hfull => by
      obtain ⟨h1, h2, h3⟩ := s.accept_counts addr n r a nowMs
      unfold Server.full at hfull
      rw [hp.1] at hfull
      rw [h1, h2, h3]
      exact ⟨hp.1, by omega, by omega⟩)
    (fun s addr c ln rn rate alloc reply nowMs nowNs hw hp hf hst => by
      obtain ⟨h1, h2⟩ := Server.activate_counts hc hw (Server.find_some hf).1 hst nowMs nowNs
      rw [h1, h2]
      exact ⟨(Server.activate_cfg ..).trans hp.1, hp.2.1, hp.2.2⟩)
    (fun s _ hp => hp) hr
  exact ⟨this.2.1, this.2.2.1, this.2.2.2, this.1⟩

/-- `handleSyn` adds an entry only when both counts are strictly below their limits; the entry is
pending, appended for the sender's address, and both counts grow by exactly one. -/
theorem C17_syn_adds_only_below (s : Server H) (addr v n r p a nowMs : Nat)
    (hch : (s.handleSyn addr v n r p a nowMs).1.clients ≠ s.clients) :
    s.clients.length < s.cfg.maxTotalConnections ∧ s.activeCount < s.cfg.maxActiveConnections ∧
    s.find addr = none ∧
    (s.handleSyn addr v n r p a nowMs).1.clients = s.clients ++ [s.newEntry addr n r a] ∧
    (s.newEntry addr n r a).state.isPending = true ∧
    (s.handleSyn addr v n r p a nowMs).1.clients.length = s.clients.length + 1 ∧
    (s.handleSyn addr v n r p a nowMs).1.activeCount = s.activeCount + 1 := by
  rcases s.handleSyn_cases addr v n r p a nowMs with ⟨_, he⟩ | ⟨_, e, ev, he⟩ | ⟨hf, _, hfull, _, _, he⟩
  · rw [he] at hch; exact absurd rfl hch
  · rw [he] at hch; exact absurd rfl hch
  · rw [he]
    obtain ⟨h1, h2, _⟩ := s.accept_counts addr n r a nowMs
    unfold Server.full at hfull
    exact ⟨by omega, by omega, hf, rfl, rfl, h1, h2⟩

/-- No frame other than an accepted SYN adds an entry or makes a non-counted entry counted:
for every frame from every address, either neither count grows (and every pending entry afterwards
is an unmodified pending entry from before), or the frame is a SYN from an unknown address accepted
while the server was not full. -/
theorem C17_frame_counts (hc : HC H) (s s' : Server H) (hw : s.WF) (addr : Nat) (f : Frame) (nowMs nowNs : Nat)
    (sent : List (Nat × List Nat)) (hr : s.handleFrame hc addr f nowMs nowNs = .ok (s', sent)) :
    (s'.clients.length ≤ s.clients.length ∧ s'.activeCount ≤ s.activeCount ∧
      ∀ c ∈ s'.clients, c.state.isPending = true → c ∈ s.clients)
    ∨ (∃ v n r p a, f = .syn v n r p a ∧ s.find addr = none ∧ ¬ s.full ∧ s' = s.accept addr n r a nowMs) := by
  obtain ⟨_, hq | ⟨v, n, r, p, a, h1, h2, h3, h4, _⟩ | ⟨c, na, rn, rate, alloc, reply, _, hf, hst, hs', _⟩⟩ :=
    Server.handleFrame_wq hc hw addr f nowMs nowNs hr
  · exact Or.inl ⟨hq.len, hq.cnt, hq.pendSub⟩
  · exact Or.inr ⟨v, n, r, p, a, h1, h2, h3, h4⟩
  · obtain ⟨h1, h2⟩ := Server.activate_counts hc hw (Server.find_some hf).1 hst nowMs nowNs
    refine Or.inl ⟨by rw [hs', h1]; exact Nat.le_refl _, by rw [hs', h2]; exact Nat.le_refl _, ?_⟩
    rw [hs']
    exact Server.activate_pendSub hc hw (Server.find_some hf).1 na rn rate alloc nowMs nowNs

/-- The handshake ACK turns the pending entry active: neither count changes. -/
theorem C17_hsAck_counts (hc : HC H) (s : Server H) (hw : s.WF) (addr na nowMs nowNs : Nat) :
    (s.handleHsAck hc addr na nowMs nowNs).clients.length = s.clients.length ∧
    (s.handleHsAck hc addr na nowMs nowNs).activeCount = s.activeCount :=
  Server.handleHsAck_counts hc hw addr na nowMs nowNs

/-- All the other phases of `step` and the API calls never increase either count. -/
theorem C17_other_ops_counts (hc : HC H) (s : Server H) (hw : s.WF) :
    (∀ s' sent, s.flushActive hc = .ok (s', sent) → s'.clients.length ≤ s.clients.length ∧ s'.activeCount ≤ s.activeCount) ∧
    (∀ fuel nowMs sent, (Server.runTimers fuel s nowMs sent).1.clients.length ≤ s.clients.length ∧
        (Server.runTimers fuel s nowMs sent).1.activeCount ≤ s.activeCount) ∧
    (∀ nowMs s', s.activeTimeouts hc nowMs = .ok s' → s'.clients.length ≤ s.clients.length ∧ s'.activeCount ≤ s.activeCount) ∧
    (s.retain.clients.length ≤ s.clients.length ∧ s.retain.activeCount ≤ s.activeCount) ∧
    (∀ nowMs nowNs s' sent, s.stepActive hc nowMs nowNs = .ok (s', sent) →
        s'.clients.length ≤ s.clients.length ∧ s'.activeCount ≤ s.activeCount) ∧
    (∀ addr, (s.drop addr).clients.length ≤ s.clients.length ∧ (s.drop addr).activeCount ≤ s.activeCount) ∧
    (∀ addr m, (s.disconnect addr m).clients.length ≤ s.clients.length ∧ (s.disconnect addr m).activeCount ≤ s.activeCount) ∧
    (∀ addr d ch m, (s.send hc addr d ch m).clients.length ≤ s.clients.length ∧ (s.send hc addr d ch m).activeCount ≤ s.activeCount) := by
  refine ⟨?_, ?_, ?_, ?_, ?_, ?_, ?_, ?_⟩
  · intro s' sent h; have := (Server.flushActive_wq hc hw h).2; exact ⟨this.len, this.cnt⟩
  · intro fuel nowMs sent; have := (Server.runTimers_wq fuel hw nowMs sent).2; exact ⟨this.len, this.cnt⟩
  · intro nowMs s' h; have := (Server.activeTimeouts_wq hc hw nowMs h).2; exact ⟨this.len, this.cnt⟩
  · have := (Server.retain_wq hw).2; exact ⟨this.len, this.cnt⟩
  · intro nowMs nowNs s' sent h; have := (Server.stepActive_wq hc hw nowMs nowNs h).2; exact ⟨this.len, this.cnt⟩
  · intro addr; have := (Server.drop_wq hw addr).2; exact ⟨this.len, this.cnt⟩
  · intro addr m; have := (Server.disconnect_wq hw addr m).2; exact ⟨this.len, this.cnt⟩
  · intro addr d ch m; have := (Server.send_wq hc hw addr d ch m).2; exact ⟨this.len, this.cnt⟩

/-- **C17_refuse.** A SYN with the right version from an address without an entry, arriving when the
server is full (`clients.len() ≥ max_total ∨ active_count ≥ max_active`), leaves the map (and every
other part of the state except possibly one queued `Error(ServerFull)` event) unchanged and sends
exactly one `hsError nonce serverFull` frame, to that address. -/
theorem C17_refuse (s : Server H) (addr n r p a nowMs : Nat) (hf : s.find addr = none)
    (hfull : s.clients.length ≥ s.cfg.maxTotalConnections ∨ s.activeCount ≥ s.cfg.maxActiveConnections) :
    (s.handleSyn addr PROTOCOL_VERSION n r p a nowMs).2 = [(addr, encode (.hsError n .serverFull))] ∧
    (s.handleSyn addr PROTOCOL_VERSION n r p a nowMs).1 = s.refuse addr .serverFull ∧
    (s.refuse addr .serverFull).clients = s.clients ∧ (s.refuse addr .serverFull).detached = s.detached ∧
    (s.refuse addr .serverFull).active = s.active ∧ (s.refuse addr .serverFull).timers = s.timers ∧
    (s.refuse addr .serverFull).nextCid = s.nextCid ∧
    (s.refuse addr .serverFull).eventsOut =
      (if s.cfg.enableHandshakeErrors then s.eventsOut ++ [SEvent.error addr .serverFull] else s.eventsOut) := by
  rw [Server.handleSyn_full hf n r p a nowMs hfull]
  exact ⟨rfl, rfl, rfl, rfl, rfl, rfl, rfl, rfl⟩

/-- The same at the level of `handleFrame`. -/
theorem C17_refuse_frame (hc : HC H) (s : Server H) (addr n r p a nowMs nowNs : Nat) (hf : s.find addr = none)
    (hfull : s.clients.length ≥ s.cfg.maxTotalConnections ∨ s.activeCount ≥ s.cfg.maxActiveConnections) :
    s.handleFrame hc addr (.syn PROTOCOL_VERSION n r p a) nowMs nowNs =
      .ok (s.refuse addr .serverFull, [(addr, encode (.hsError n .serverFull))]) := by
  simp only [Server.handleFrame]
  rw [Server.handleSyn_full hf n r p a nowMs hfull]
  rfl

/-- **C17_release.** `finish` removes the entry of the object's address from the map: neither count
increases, the map gets strictly shorter when the object was in it, and the address is free again. -/
theorem C17_release (s : Server H) (c : RClient H) :
    (s.finish c).clients.length ≤ s.clients.length ∧ (s.finish c).activeCount ≤ s.activeCount ∧
    (c ∈ s.clients → (s.finish c).clients.length < s.clients.length) ∧
    (s.finish c).find c.address = none :=
  ⟨(s.finish_quiet c).len, (s.finish_quiet c).cnt, s.finish_length_lt c, s.finish_find c⟩

/-- `drop` of an address with an entry releases it. -/
theorem C17_release_drop (s : Server H) (addr : Nat) (c : RClient H) (hf : s.find addr = some c) :
    (s.drop addr).clients.length < s.clients.length ∧ (s.drop addr).activeCount ≤ s.activeCount ∧
    (s.drop addr).find addr = none := by
  obtain ⟨hm, ha⟩ := Server.find_some hf
  unfold Server.drop
  rw [hf]
  subst ha
  exact ⟨s.finish_length_lt c hm, (s.finish_quiet c).cnt, s.finish_find c⟩

/-! ### non-vacuity -/

/-- a dummy half connection over `Unit` -/
def hc0 : HC Unit :=
  { new := fun _ _ => (), send := fun _ _ _ _ => (), dispatch := fun _ _ => .ok (), step := fun _ _ => .ok (),
    flush := fun _ r => .ok ((), r, []), receive := fun _ => .ok ((), []), isSendPending := fun _ => false,
    sendBufferSize := fun _ => 0 }

def ep0 : EpConfig :=
  { maxSendRate := 1000000, maxReceiveRate := 1000000, maxPacketSize := 1000, maxReceiveAlloc := 100000,
    keepalive := true, keepaliveIntervalMs := 1000, activeTimeoutMs := 15000 }

def cfg0 : SrvConfig := { maxTotalConnections := 1, maxActiveConnections := 1, enableHandshakeErrors := true, ep := ep0 }

/-- a full server: one closed entry, limit one -/
def sFull : Server Unit :=
  { (Server.init cfg0 0 ⟨[], 1⟩ : Server Unit) with clients := [{ cid := 0, address := 7, state := .closed }], nextCid := 1 }

example : Reachable hc0 cfg0 (Server.init cfg0 0 ⟨[], 1⟩ : Server Unit) := ⟨[], [], [], SRun.init 0 ⟨[], 1⟩⟩

example : sFull.find 9 = none ∧
    (sFull.clients.length ≥ sFull.cfg.maxTotalConnections ∨ sFull.activeCount ≥ sFull.cfg.maxActiveConnections) := by
  decide

example : sFull.find 7 = some { cid := 0, address := 7, state := .closed } := rfl

/-- a concrete run (kernel-evaluated, `Uflow/Lemmas/EndpointServerExample.lean`) reaching a state
with one active connection -/
example : ∃ s : Server Unit, Reachable Ex.hc0 Ex.cfg0 s ∧ s.activeCount = 1 := by
  obtain ⟨s1, s2, sent1, sent2, h1, h2, _, _, _, _, h7, _⟩ := Ex.run
  have r1 := SRun.op Ex.op1 (SRun.init (hc := Ex.hc0) (cfg := Ex.cfg0) 0 ⟨[77], 1⟩) h1
  have r2 := SRun.op Ex.op2 r1 h2
  exact ⟨s2, ⟨_, _, _, r2⟩, h7⟩

end Uflow.Props.C17
