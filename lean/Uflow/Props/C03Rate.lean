import Uflow.Lemmas.RateErr

/-!
# C03 (rate controller part) — when can `SendRateComp::step` trap?

`RateInv s now` (defined in `Uflow/Lemmas/RateInv.lean`):
* `mode ≠ awaitSend → recvSet ≠ []`
* `mode = eqn _ → rttS.isSome`
* every entry of `recvSet` has `ts ≤ now`
* `mode = slowStart (some t) → t ≤ now`

Under `RateInv`, `step` returns `.ok` unless the bisection `tcpInv` runs out of its fuel
(`Trap.hang`). `RateInv` holds for `init`, and is preserved by `notifyFrameSent` / `step` when time
does not run backwards (for EVERY ceiling `maxSendRate`: the slow-start doubling is
`send_rate.saturating_mul(2)`, which cannot overflow).

Residual assumption on the float operations (NOT proved for IEEE binary64, to be discharged
outside): `BisectConverges ops := BisectWithin ops bisectFuel ops.zero ops.one`, i.e. whatever
halves are chosen, bisecting `[0,1]` reaches within 2200 halvings a bracket whose midpoint `feq`s
one of its ends.

Model revision: the slow-start doubling is `self.send_rate.saturating_mul(2)` (it was `2 * self.send_rate`,
which overflowed `u32` for ceilings `≥ 2^31`: the former finding `C03_rate_overflow_witness`, repaired in the
Rust code). `C03_rate_saturate_example` is that run: with a ceiling of `2^31` (or `u32::MAX`) a saturated
initial rate (RTT sample 0) followed by a slow-start doubling now returns; the doubling saturates at
`u32::MAX` and is capped to the ceiling. Consequently the hypothesis `maxSendRate < 2^31` and the invariant
component `2 * sendRate ≤ u32max` of the previous revision are gone.

FINDINGS (`…_witness`):
* `C03_rate_time_witness`: a clock going backwards traps (u64 subtraction).
* `C03_rate_hang_witness`: without `BisectConverges` the bisection hangs.
-/

namespace Uflow.Props.C03

open Uflow.Rate Uflow.Gen

variable {F : Type}

/-- **C03_rate_notrap**: under `RateInv`, `step` returns, or else the bisection ran out of fuel
(feedback with a loss increase in slow start). -/
theorem C03_rate_notrap (ops : FloatOps F) (s : State F) (now : Nat) (fb : Option (Feedback F))
    (h : RateInv s now) :
    (∃ v, step ops s now fb = .ok v) ∨
    (step ops s now fb = .error .hang ∧ ∃ fb' ld, fb = some fb' ∧ s.mode = .slowStart ld ∧
      lossInc ops s fb' = true ∧
      tcpInv ops (rttOf ops s fb') (ssTarget ops s fb' ld) bisectFuel ops.zero ops.one
        = .error .hang) :=
  step_notrap fb h

/-- With `BisectConverges ops`, no trap at all. -/
theorem C03_rate_notrap_conv (ops : FloatOps F) (s : State F) (now : Nat)
    (fb : Option (Feedback F)) (hconv : BisectConverges ops) (h : RateInv s now) :
    ∃ v, step ops s now fb = .ok v :=
  step_notrap_conv fb hconv h

example : BisectConverges Ex.okOps ∧
    RateInv (Ex.st (.slowStart (some 0)) 20000 100000 [⟨u32max, 0, true⟩] (some 10)) 50 := by
  refine ⟨Ex.mkOps_converges _ _ _, ?_, ?_, ?_, ?_⟩
  · intro _; exact List.cons_ne_nil _ _
  · intro tcp h; cases h
  · intro e he
    change e ∈ [_] at he
    simp only [List.mem_singleton] at he
    subst he
    decide
  · intro t h
    change Mode.slowStart (some 0) = _ at h
    cases h
    decide

/-- **Every trap of `step` for an arbitrary state** (no invariant assumed): never `panic`,
`index` or `assert`; `overflow` only when the clock runs backwards (a `u64` time subtraction); see
`step_error_cases`. -/
theorem C03_rate_error_cases (ops : FloatOps F) (s : State F) (now : Nat)
    (fb : Option (Feedback F)) (t : Trap) (h : step ops s now fb = .error t) :
    (t = .overflow ∧ ∃ fb', fb = some fb' ∧ fb'.rateLimited = true ∧ ∃ e ∈ s.recvSet, now < e.ts) ∨
    (t = .overflow ∧ ∃ fb' t0, fb = some fb' ∧ s.mode = .slowStart (some t0) ∧
      lossInc ops s fb' = false ∧ now < t0) ∨
    (t = .unwrap ∧ fb = none ∧ (∃ exp, s.nofeedbackExp = some exp ∧ exp ≤ now) ∧
      ∃ tcp, s.mode = .eqn tcp ∧ (s.rttS = none ∨ s.recvSet = [])) ∨
    (t = .hang ∧ ∃ fb' ld, fb = some fb' ∧ s.mode = .slowStart ld ∧ lossInc ops s fb' = true ∧
      tcpInv ops (rttOf ops s fb') (ssTarget ops s fb' ld) bisectFuel ops.zero ops.one
        = .error .hang) :=
  step_error_cases h

example : step Ex.okOps (Ex.st (.eqn 5) 23 100000 [] (some 1000)) 10 none = .error .unwrap := rfl

/-! ## preservation of `RateInv` -/

theorem C03_rate_inv_init (ops : FloatOps F) (m now : Nat) : RateInv (init ops m) now :=
  RateInv_init ops m now

theorem C03_rate_inv_sent (s : State F) (now now' : Nat) (h : RateInv s now) (hle : now ≤ now') :
    RateInv (notifyFrameSent s now') now' :=
  RateInv_sent (h.mono hle)

theorem C03_rate_inv_step (ops : FloatOps F) (s s' : State F) (now now' : Nat)
    (fb : Option (Feedback F)) (r : Option F) (h : RateInv s now) (hle : now ≤ now')
    (hs : step ops s now' fb = .ok (s', r)) :
    RateInv s' now' ∧ s'.maxSendRate = s.maxSendRate :=
  ⟨RateInv_step (h.mono hle) hs, step_maxSendRate hs⟩

example : ∃ s' r, step Ex.okOps
    (Ex.st (.slowStart (some 0)) 20000 100000 [⟨u32max, 0, true⟩] (some 10)) 50
    (some (Ex.fb 10 30000 9)) = .ok (s', r) ∧ s'.mode = .eqn 10000 := ⟨_, _, rfl, rfl⟩

/-! ## runs from `init` -/

/-- **No trap over runs**: any ceiling `m`, non-decreasing event times, converging
bisection. -/
theorem C03_rate_run_notrap (ops : FloatOps F) (m : Nat) (evs : List (Event F))
    (hconv : BisectConverges ops) (hnd : nondecreasing 0 evs = true) :
    ∃ s', run ops (init ops m) evs = .ok s' :=
  run_notrap_conv hconv (RateInv_init ops m 0) hnd

/-- Without the assumption on the bisection the only possible trap of a run is `hang`. -/
theorem C03_rate_run_only_hang (ops : FloatOps F) (m : Nat) (evs : List (Event F)) (t : Trap)
    (hnd : nondecreasing 0 evs = true)
    (h : run ops (init ops m) evs = .error t) : t = .hang :=
  run_error_hang (RateInv_init ops m 0) hnd h

/-- The invariant holds in every state reached by such a run. -/
theorem C03_rate_run_inv (ops : FloatOps F) (m : Nat) (evs : List (Event F)) (s' : State F)
    (hnd : nondecreasing 0 evs = true)
    (h : run ops (init ops m) evs = .ok s') : ∃ t, RateInv s' t :=
  let ⟨t, _, hinv⟩ := run_RateInv (RateInv_init ops m 0) hnd h
  ⟨t, hinv⟩

example : BisectConverges Ex.okOps ∧
    nondecreasing 0 ([.sent 0, .step 10 (some (Ex.fb 10 5000 0)), .step 30 (some (Ex.fb 10 9000 20)),
      .step 100000 none] : List (Event Nat)) = true :=
  ⟨Ex.mkOps_converges _ _ _, by decide⟩

/-! ## the bisection -/

/-- `tcpInv` returns whenever the bracket bisects to a fixpoint within the fuel, whatever halves
are chosen (a property of `mid`/`feq` only). -/
theorem C03_tcpInv_terminates (ops : FloatOps F) (n : Nat) (a b : F) (h : BisectWithin ops n a b)
    (rtt : F) (target : Nat) : ∃ p, tcpInv ops rtt target n a b = .ok p :=
  tcpInv_ok_of_within h rtt target

/-- Path-wise: if the iterations actually performed reach within the fuel a bracket `[a',b']` with
`feq (mid b' a') a' ∨ feq (mid b' a') b'`, `tcpInv` returns that midpoint. -/
theorem C03_tcpInv_terminates_path (ops : FloatOps F) (rtt : F) (target k fuel : Nat)
    (a b a' b' : F) (hn : Narrows ops rtt target k a b a' b') (hk : k < fuel)
    (hs : (ops.feq (ops.mid b' a') a' || ops.feq (ops.mid b' a') b') = true) :
    tcpInv ops rtt target fuel a b = .ok (ops.mid b' a') :=
  tcpInv_ok_of_path hn hk hs

/-- the only trap of `tcpInv` is `hang` (fuel exhausted). -/
theorem C03_tcpInv_only_hang (ops : FloatOps F) (rtt : F) (target fuel : Nat) (a b : F) (t : Trap)
    (h : tcpInv ops rtt target fuel a b = .error t) : t = .hang :=
  tcpInv_error ops rtt target fuel a b t h

example : BisectWithin Ex.okOps bisectFuel 0 1000 := Ex.mkOps_converges _ _ _

example : ∃ a' b', Narrows Ex.okOps 10 10000 1 0 1000 a' b' :=
  ⟨0, 500, .down (by decide) (by decide) (by decide) (.refl _ _)⟩

/-! ## witnesses -/

/-- The run that used to overflow `u32` in the slow-start doubling (`2 * self.send_rate`, before the
repair to `self.send_rate.saturating_mul(2)`): ceiling `2^31`, an RTT sample of 0 (initial rate
`(4380.0/0.0) as u32 = u32::MAX`, capped to `2^31`) and one more feedback a round trip later. It now
returns; the doubled rate saturates and is capped to the ceiling again. The same holds with the
ceiling `u32::MAX`. -/
theorem C03_rate_saturate_example :
    (∃ s', run Ex.satOps (init Ex.satOps (2^31))
        [.sent 0, .step 10 (some (Ex.fb 0 5000 0)), .step 20 (some (Ex.fb 0 5000 0))] = .ok s' ∧
      s'.sendRate = 2^31 ∧ s'.mode = .slowStart (some 20)) ∧
    (∃ s', run Ex.satOps (init Ex.satOps u32max)
        [.sent 0, .step 10 (some (Ex.fb 0 5000 0)), .step 20 (some (Ex.fb 0 5000 0))] = .ok s' ∧
      s'.sendRate = u32max ∧ s'.mode = .slowStart (some 20)) :=
  ⟨⟨_, rfl, by decide +kernel, by decide +kernel⟩, ⟨_, rfl, by decide +kernel, by decide +kernel⟩⟩

/-- A clock going backwards traps (`now_ms - e.timestamp_ms` in `rate_limited_update`). -/
theorem C03_rate_time_witness :
    ∃ (ops : FloatOps Nat) (evs : List (Event Nat)), BisectConverges ops ∧
      run ops (init ops 100000) evs = .error .overflow :=
  ⟨Ex.okOps, [.sent 10, .step 5 (some (Ex.fb 10 5000 0 true))],
    Ex.mkOps_converges _ _ _, trapOf_eq_some (by decide +kernel)⟩

/-- Without `BisectConverges` the bisection can run out of fuel: float operations whose midpoint
never compares equal to an end and whose throughput equation never reaches the target. -/
theorem C03_rate_hang_witness :
    ∃ (ops : FloatOps Nat) (evs : List (Event Nat)),
      nondecreasing 0 evs = true ∧ run ops (init ops 100000) evs = .error .hang :=
  ⟨Ex.hangOps, [.sent 0, .step 10 (some (Ex.fb 10 5000 500))], by decide,
    trapOf_eq_some (by decide +kernel)⟩

end Uflow.Props.C03
