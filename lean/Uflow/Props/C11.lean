import Uflow.Model.HalfConn
import Uflow.Lemmas.SyncEmit
import Uflow.Lemmas.SyncData
import Uflow.Lemmas.SyncAck
import Uflow.Lemmas.SyncFlush
import Uflow.Lemmas.SyncOps
import Uflow.Lemmas.PRecvRun
import Uflow.Lemmas.CreditEx
import Uflow.Lemmas.SyncEx

/-!
# C11 (liveness; see DESIGN.md 6/C11 for what is and is not a theorem)

Liveness as a whole is not a theorem. What is proved here are the per-step facts that make up the
mechanism by which `src/half_connection/mod.rs` recovers from any loss pattern:

1. `C11_sync_emitted` — `emit_sync_frame` sends exactly one sync frame after `max(rto, 2 s)` without a
   data or sync frame, carrying the next frame id when frames are unacknowledged and the next packet
   id when the packet window is non-empty and nothing awaits (re)sending (or nothing: keepalive);
2. `C11_sync_handled`, `C11_sync_answered` — `handle_sync_frame` resynchronises both receive windows
   and sets `sync_reply` in every case; the next `emit_ack_frames` with non-negative credit sends an
   ack frame carrying both window bases and clears the flag (with negative credit the reply is
   postponed, not dropped);
3. `C11_ack_advances` — `handle_ack_frame` moves both send windows to the acknowledged bases;
4. `C11_sync_rearmed` — every data frame and every sync frame re-arms the sync timer; only `flush`
   touches timer and owed reply (`C11_only_flush_touches_sync`); the frame becomes due by time alone
   (`C11_sync_becomes_due`) and a flush never withholds it except for lack of credit
   (`C11_sync_emitted_flush`);
5. `C11_full_window_cycle` — the three steps composed for two half connections.

Vocabulary (`Uflow/Lemmas/SyncEmit.lean`, `SyncAck.lean`, namespace `Uflow.SyncCycle`), for a half
connection state `s`:
* `elapsed s = s.nowMs - s.syncTimeoutBase`, `timeout s = max s.rtoMs MIN_SYNC_TIMEOUT_MS`;
* `FramesUnacked s` : `s.fq.logNext ≠ s.fq.winBase` (`frame_queue.next_id() != frame_queue.base_id()`);
* `PacketsIdle s` : `s.ps.nextId ≠ s.ps.baseId ∧ s.resend.size = 0 ∧ s.pending.length = 0`;
* `KeepaliveDue s` : `∃ k, s.keepalive = some k ∧ k ≤ elapsed s`;
* `SyncDue s` : `timeout s ≤ elapsed s ∧ (FramesUnacked s ∨ PacketsIdle s ∨ KeepaliveDue s)`;
* `syncNextFrame s`, `syncNextPacket s` : the two optional fields; `syncBytes s` : the encoded frame;
* `IsAck fb pb E f` : `f = encode (.ack fb pb gs)` for some `gs` of at most 161 groups, all from `E`;
* `FrameAdv q nb` : `wsub32 nb q.winBase ≠ 0 ∧ wsub32 nb q.winBase ≤ wsub32 q.logNext q.winBase`
  (`can_advance_transfer_window`); `PacketAdv ps rb` : `rb < 2^20 ∧ pidSub rb ps.baseId ≤ pidSub
  ps.nextId ps.baseId`.
-/

namespace Uflow.Props.C11

open Uflow Uflow.Gen Uflow.Codec Uflow.HalfConn Uflow.SyncCycle Uflow.CreditEx Uflow.SyncEx
open Uflow.Credit (Ev exec)
open Uflow.Rate (FloatOps)

variable {F : Type}

/-- The sync timeout is never shorter than `MIN_SYNC_TIMEOUT_MS` and never shorter than the RTO. -/
theorem C11_sync_timeout_ge (rto : Nat) :
    Uflow.Gen.MIN_SYNC_TIMEOUT_MS ≤ max rto Uflow.Gen.MIN_SYNC_TIMEOUT_MS ∧ rto ≤ max rto Uflow.Gen.MIN_SYNC_TIMEOUT_MS := by
  constructor <;> omega

/-! ## 1. The sync frame is emitted -/

/-- `emit_sync_frame`, exactly. With the clock not behind the timer base
(`sync_timeout_base_ms ≤ time_now_ms`; otherwise the subtraction overflows, `C11_sync_clock_trap`):
* if the sync frame is due (`SyncDue`) and the credit is non-negative, exactly one frame
  `syncBytes s` is handed to the sink, its 14 bytes are debited, the timer is re-armed
  (`syncTimeoutBase := nowMs`), nothing else changes, and `emit_frames` goes on;
* if it is due and the credit is negative, nothing is sent, nothing changes, and `emit_frames` stops
  (the frame stays due: `SyncDue` does not depend on the credit);
* if it is not due, nothing is sent and nothing changes.
Note that the keepalive is only sent once *both* `timeout` and the keepalive interval have elapsed. -/
theorem C11_sync_emitted (s : State F) (hclk : s.syncTimeoutBase ≤ s.nowMs) :
    (SyncDue s → 0 ≤ s.flushAlloc →
      emitSyncFrame s = .ok ({ s with flushAlloc := s.flushAlloc - 14, syncTimeoutBase := s.nowMs },
        [syncBytes s], .cont)) ∧
    (SyncDue s → s.flushAlloc < 0 → emitSyncFrame s = .ok (s, [], .stop)) ∧
    (¬ SyncDue s → emitSyncFrame s = .ok (s, [], .cont)) := by
  have h := emitSyncFrame_eq s hclk
  refine ⟨fun hd hc => ?_, fun hd hc => ?_, fun hd => ?_⟩
  · rw [h, if_pos hd, if_neg (by omega), syncBytes_length]; rfl
  · rw [h, if_pos hd, if_pos hc]
  · rw [h, if_neg hd]


/-! Non-vacuity (`Uflow/Lemmas/SyncEx.lean`, instance `exOps : FloatOps Nat`, frame windows of 2 frames,
keepalive 5 s). `exA`: two Unreliable packets sent in two flushes at 0 s and 1 s (frames 0, 1 in flight:
the frame window is full), then a `step` at 4 s. -/

/-- Due, with credit: both ids are carried; the model sends `syncBytes exA`, re-arms and debits 14. -/
example : exA.syncTimeoutBase ≤ exA.nowMs ∧ SyncDue exA ∧ 0 ≤ exA.flushAlloc ∧
    FramesUnacked exA ∧ PacketsIdle exA ∧ FrameQ.canPush exA.fq = false ∧
    (exA.nowMs, exA.syncTimeoutBase, timeout exA) = (4000, 1000, 2000) ∧
    outOk (emitSyncFrame exA) = [syncBytes exA] ∧
    exA1.syncTimeoutBase = 4000 ∧ exA1.flushAlloc = exA.flushAlloc - 14 := by decide +kernel

/-- Due, without credit (hypotheses of the second clause). -/
example : SyncDue { exA with flushAlloc := -1 } ∧ ({ exA with flushAlloc := -1 } : State Nat).flushAlloc < 0 ∧
    outOk (emitSyncFrame { exA with flushAlloc := -1 }) = [] := by decide +kernel

/-- Not due: one second after the last data frame (frames are in flight, but `elapsed = 1000 < 2000`);
and an idle connection before the keepalive interval. -/
example : ¬ SyncDue exAearly ∧ FramesUnacked exAearly ∧ exAearly.syncTimeoutBase ≤ exAearly.nowMs ∧
    outOk (emitSyncFrame exAearly) = [] := by decide +kernel

/-- Keepalive: nothing in flight, 6 s ≥ 5 s: the frame carries no id. -/
example : SyncDue exIdle ∧ ¬ FramesUnacked exIdle ∧ ¬ PacketsIdle exIdle ∧ KeepaliveDue exIdle ∧
    0 ≤ exIdle.flushAlloc ∧ exIdle.syncTimeoutBase ≤ exIdle.nowMs ∧
    decode (syncBytes exIdle) = some (.sync none none) ∧
    outOk (emitSyncFrame exIdle) = [syncBytes exIdle] := by decide +kernel

/-- The content of the sync frame: it decodes (`Frame::read`) to a sync frame whose
`next_frame_id` is present iff frames are unacknowledged, and is then the sender's next frame id, and
whose `next_packet_id` is present iff the packet window is non-empty while the resend and pending
queues are empty, and is then the sender's next packet id. (The two ids are `u32` fields in Rust;
the model needs the range assumption because its ids are `Nat`.) -/
theorem C11_sync_frame_content (s : State F) (hf : s.fq.logNext < 2^32) (hp : s.ps.nextId < 2^32) :
    decode (syncBytes s) = some (.sync (syncNextFrame s) (syncNextPacket s)) ∧
    (∀ x, syncNextFrame s = some x ↔ FramesUnacked s ∧ x = s.fq.logNext) ∧
    (syncNextFrame s = none ↔ ¬ FramesUnacked s) ∧
    (∀ x, syncNextPacket s = some x ↔ PacketsIdle s ∧ x = s.ps.nextId) ∧
    (syncNextPacket s = none ↔ ¬ PacketsIdle s) :=
  ⟨decode_syncBytes s hf hp, syncNextFrame_some_iff s, syncNextFrame_none_iff s,
   syncNextPacket_some_iff s, syncNextPacket_none_iff s⟩


example : exA.fq.logNext < 2^32 ∧ exA.ps.nextId < 2^32 ∧
    decode (syncBytes exA) = some (.sync (some 2) (some 2)) ∧
    syncNextFrame exA = some exA.fq.logNext ∧ syncNextPacket exA = some exA.ps.nextId := by
  decide +kernel

/-- If the clock is behind the timer base, `time_now_ms - sync_timeout_base_ms` overflows (a panic
with overflow checks). The base is only ever set to `time_now_ms`, so this needs a clock that runs
backwards. -/
theorem C11_sync_clock_trap (s : State F) (h : s.nowMs < s.syncTimeoutBase) :
    emitSyncFrame s = .error .overflow :=
  emitSyncFrame_overflow s h


example : ({ exA with syncTimeoutBase := 5000 } : State Nat).nowMs <
    ({ exA with syncTimeoutBase := 5000 } : State Nat).syncTimeoutBase := by decide +kernel

/-! ## 2. The sync frame is answered -/

/-- `handle_sync_frame`, exactly: the frame-ack window is resynchronised to `next_frame_id` (if
present), the packet receiver to `next_packet_id` (if present), and `sync_reply` is set in every
case; nothing else changes. The only way it can fail is a trap inside
`PacketReceiver::resynchronize` (excluded by `C11_sync_handled_total`). -/
theorem C11_sync_handled (s : State F) (nf np : Option Nat) :
    handleSyncFrame s nf np =
      match np with
      | none => .ok { s with aq := (match nf with | some id => s.aq.resynchronize id | none => s.aq),
                             syncReply := true }
      | some pid =>
        (PRecv.resynchronize s.pr pid).map fun pr =>
          { s with aq := (match nf with | some id => s.aq.resynchronize id | none => s.aq),
                   pr := pr, syncReply := true } := by
  rw [HcFrame.handleSyncFrame_eq]
  exact syncFrameCore_spec s _ nf np


/-- `exB`: the peer's half connection, which has received nothing (`aq.baseId = 0`, `pr.baseId = 0`).
Handling `Sync { Some(2), Some(2) }` moves both bases to 2 and sets `sync_reply`. -/
example : isOk (handleSyncFrame exB (some 2) (some 2)) = true ∧
    (exB.aq.baseId, exB.pr.baseId, exB.syncReply) = (0, 0, false) ∧
    (exB1.aq.baseId, exB1.pr.baseId, exB1.syncReply) = (2, 2, true) ∧
    exB1.aq = exB.aq.resynchronize 2 ∧ PRecv.resynchronize exB.pr 2 = .ok exB1.pr := by
  decide +kernel

/-- Under the packet receiver's invariant `PRecv.Inv` (which holds initially and is preserved by every
receiver operation, C03/C06), `handle_sync_frame` never traps: every sync frame that arrives makes
the receiver owe a reply. -/
theorem C11_sync_handled_total (W M : Nat) (s : State F) (hinv : PRecv.Inv W M s.pr)
    (nf np : Option Nat) :
    ∃ s', handleSyncFrame s nf np = .ok s' ∧ s'.syncReply = true ∧ PRecv.Inv W M s'.pr := by
  rw [C11_sync_handled]
  cases np with
  | none => exact ⟨_, rfl, rfl, hinv⟩
  | some pid =>
    obtain ⟨pr, hpr, hinv'⟩ := PRecv.resynchronize_inv hinv pid
    simp only [hpr, Except.map]
    exact ⟨_, rfl, rfl, hinv'⟩


/-- The invariant holds for `exB`'s packet receiver (it is still the initial one). -/
example : PRecv.Inv 16 (allocCeil 100000) exB.pr := by
  have h : exB.pr = PRecv.init 16 0 100000 := by decide +kernel
  rw [h]
  exact PRecv.inv_init 16 _ 100000 (by decide) (by decide)

/-- `FrameAckQueue::resynchronize`: the window base jumps to the sender's next frame id if that is
ahead by at least one and at most the window size; otherwise nothing changes. -/
theorem C11_ackq_resynchronize (q : FrameQ.AckQ) (id : Nat) :
    (0 < wsub32 id q.baseId ∧ wsub32 id q.baseId ≤ q.size →
      q.resynchronize id = { q with baseId := id }) ∧
    (¬ (0 < wsub32 id q.baseId ∧ wsub32 id q.baseId ≤ q.size) → q.resynchronize id = q) := by
  unfold FrameQ.AckQ.resynchronize FrameQ.AckQ.advance
  generalize wsub32 id q.baseId = d
  simp only [gt_iff_lt]
  exact ⟨fun h => by rw [if_pos h], fun h => by rw [if_neg h]⟩


/-- Both cases: 2 is within `exB`'s window of 2 frames, 5 is not. -/
example : (0 < wsub32 2 exB.aq.baseId ∧ wsub32 2 exB.aq.baseId ≤ exB.aq.size) ∧
    ¬ (0 < wsub32 5 exB.aq.baseId ∧ wsub32 5 exB.aq.baseId ≤ exB.aq.size) ∧
    (exB.aq.resynchronize 2).baseId = 2 ∧ (exB.aq.resynchronize 5).baseId = 0 := by decide +kernel

/-- `emit_ack_frames` with a sync reply owed (`sync_reply = true`) and non-negative credit: at least
one ack frame is sent, every ack frame sent carries the receiver's current frame window base
`s.aq.baseId` and packet window base `s.pr.baseId` (and at most 161 groups from the ack queue),
`sync_reply` is cleared, and neither window base changes. -/
theorem C11_sync_answered (s : State F) (hr : s.syncReply = true) (hc : 0 ≤ s.flushAlloc) :
    (emitAckFrames s).2.1 ≠ [] ∧
    (∀ f ∈ (emitAckFrames s).2.1, IsAck s.aq.baseId s.pr.baseId s.aq.entries f) ∧
    (emitAckFrames s).1.syncReply = false ∧
    (emitAckFrames s).1.aq.baseId = s.aq.baseId ∧ (emitAckFrames s).1.pr = s.pr :=
  ⟨(emitAckFrames_reply s hr hc).1, (emitAckFrames_keep s).2, (emitAckFrames_reply s hr hc).2,
   (emitAckFrames_keep s).1.aqBase, (emitAckFrames_keep s).1.pr⟩


/-- `exB1` (= `exB` after the sync frame): one ack frame `Ack { 2, 2, [] }` is sent. -/
example : exB1.syncReply = true ∧ 0 ≤ exB1.flushAlloc ∧
    (emitAckFrames exB1).2.1 = [encode (.ack exB1.aq.baseId exB1.pr.baseId [])] ∧
    (emitAckFrames exB1).2.1.map decode = [some (.ack 2 2 [])] ∧
    (emitAckFrames exB1).1.syncReply = false := by decide +kernel

/-- Such an ack frame decodes (`Frame::read`) to `Ack { frame_window_base_id, packet_window_base_id,
frame_acks }` with exactly these bases (range assumptions as in `C11_sync_frame_content`). -/
theorem C11_ack_frame_content (fb pb : Nat) (E : List AckGroup) (f : List Nat)
    (h : IsAck fb pb E f) (hfb : fb < 2^32) (hpb : pb < 2^32) (hE : ∀ g ∈ E, AckGroupOk g) :
    ∃ gs, decode f = some (.ack fb pb gs) ∧ ∀ g ∈ gs, g ∈ E :=
  h.decode hfb hpb hE


example : IsAck 2 2 exB1.aq.entries (encode (.ack 2 2 [])) ∧ (2 : Nat) < 2^32 ∧
    ∀ g ∈ exB1.aq.entries, AckGroupOk g := by
  refine ⟨⟨[], rfl, by decide, fun g hg => nomatch hg⟩, by decide, ?_⟩
  have h : exB1.aq.entries = [] := by decide +kernel
  rw [h]
  exact fun g hg => nomatch hg

/-- With negative credit the reply is only postponed: nothing is sent, nothing changes (in
particular `sync_reply` stays set), `emit_frames` stops. -/
theorem C11_sync_answer_postponed (s : State F) (hr : s.syncReply = true) (hc : s.flushAlloc < 0) :
    emitAckFrames s = (s, [], .stop) :=
  emitAckFrames_postponed s hr hc


example : ({ exB1 with flushAlloc := -1 } : State Nat).syncReply = true ∧
    ({ exB1 with flushAlloc := -1 } : State Nat).flushAlloc < 0 ∧
    (emitAckFrames { exB1 with flushAlloc := -1 }).2.1 = [] ∧
    (emitAckFrames { exB1 with flushAlloc := -1 }).1.syncReply = true := by decide +kernel

/-- At the level of `HalfConnection::flush`: a flush that starts with a reply owed and non-negative
credit hands an ack frame with the two window bases to the sink first, and no reply is owed
afterwards. -/
theorem C11_sync_answered_flush (s s' : State F) (out : List (List Nat))
    (h : flush s = .ok (s', out)) (hr : s.syncReply = true) (hc : 0 ≤ s.flushAlloc) :
    s'.syncReply = false ∧
    ∃ f rest, out = f :: rest ∧ IsAck s.aq.baseId s.pr.baseId s.aq.entries f :=
  flush_reply s s' out h hr hc


example : isOk (flush exB1) = true ∧ exB1.syncReply = true ∧ 0 ≤ exB1.flushAlloc ∧
    (flushOf exB1).2 = [encode (.ack 2 2 [])] ∧ (flushOf exB1).1.syncReply = false := by
  decide +kernel

/-! ## 3. The ack frame advances the sender's windows -/

/-- `handle_ack_frame` (when it does not trap) and the two send windows, for arbitrary ack groups:
* the frame window base becomes `fb` iff `fb` is ahead of it by at least one and at most the number
  of frames in flight (`FrameAdv`), and is unchanged otherwise; next frame id and window size never
  change;
* the packet window base becomes `pb` if `pb` is a valid id within `base_id ..= next_id`
  (`PacketAdv`), and is unchanged otherwise; next packet id and window size never change;
* queues, credit, clocks, the sync timer and the receive side are untouched (`SideKeep`). -/
theorem C11_ack_advances (s s' : State F) (fb pb : Nat) (acks : List AckGroup)
    (h : handleAckFrame s fb pb acks = .ok s') :
    SideKeep s s' ∧
    s'.fq.logNext = s.fq.logNext ∧ s'.fq.winSize = s.fq.winSize ∧
    s'.ps.nextId = s.ps.nextId ∧ s'.ps.windowSize = s.ps.windowSize ∧
    (FrameAdv s.fq fb → s'.fq.winBase = fb) ∧ (¬ FrameAdv s.fq fb → s'.fq.winBase = s.fq.winBase) ∧
    (PacketAdv s.ps pb → s'.ps.baseId = pb) ∧ (¬ PacketAdv s.ps pb → s'.ps.baseId = s.ps.baseId) := by
  obtain ⟨h1, h2, h3, h4, h5, h6, h7, h8⟩ := handleAckFrame_windows s s' fb pb acks h
  exact ⟨h1, h2.logNext, h2.winSize, h3, h4, h5, h6, h7, h8⟩


/-- `exA1` (= `exA` after its sync frame; frames 0, 1 and packets 0, 1 in flight) handles
`Ack { 2, 2, [] }`: both bases move to 2; `Ack { 1, 1, [] }` moves them to 1; 0 (stale) and 3 (beyond
the next id) are not admissible. -/
example : isOk (handleAckFrame exA1 2 2 []) = true ∧ FrameAdv exA1.fq 2 ∧ PacketAdv exA1.ps 2 ∧
    (exA1.fq.winBase, exA1.fq.logNext, exA1.ps.baseId, exA1.ps.nextId) = (0, 2, 0, 2) ∧
    (exA2.fq.winBase, exA2.fq.logNext, exA2.ps.baseId, exA2.ps.nextId) = (2, 2, 2, 2) ∧
    FrameAdv exA1.fq 1 ∧ PacketAdv exA1.ps 1 ∧
    ¬ FrameAdv exA1.fq 0 ∧ ¬ FrameAdv exA1.fq 3 ∧ ¬ PacketAdv exA1.ps 3 ∧
    ¬ PacketAdv exA1.ps (2^20 + 1) := by decide +kernel

/-- The frame window reopens: an ack frame whose frame window base is the sender's next frame id
(the answer to a sync frame, `C11_full_window_cycle`) leaves no frame in flight, so
`FrameQueue::can_push` holds (for a non-zero window size). -/
theorem C11_window_reopens_frames (s s' : State F) (pb : Nat) (acks : List AckGroup)
    (h : handleAckFrame s s.fq.logNext pb acks = .ok s') :
    wsub32 s'.fq.logNext s'.fq.winBase = 0 ∧ (0 < s.fq.winSize → FrameQ.canPush s'.fq = true) := by
  obtain ⟨_, hn, hsz, _, _, ha, hna, _, _⟩ := C11_ack_advances s s' _ pb acks h
  have h0 : wsub32 s'.fq.logNext s'.fq.winBase = 0 := by
    by_cases hadv : FrameAdv s.fq s.fq.logNext
    · rw [ha hadv, hn]; unfold wsub32; omega
    · rw [hna hadv, hn]
      unfold FrameAdv at hadv
      generalize wsub32 s.fq.logNext s.fq.winBase = d at hadv ⊢
      omega
  refine ⟨h0, fun hw => ?_⟩
  unfold FrameQ.canPush
  rw [h0, hsz]
  exact decide_eq_true hw


example : isOk (handleAckFrame exA1 exA1.fq.logNext 2 []) = true ∧ 0 < exA1.fq.winSize ∧
    FrameQ.canPush exA1.fq = false ∧ FrameQ.canPush exA2.fq = true := by decide +kernel

/-- The packet window reopens: an ack frame whose packet window base is the sender's next packet id
(a valid id) empties the packet window, so `emit_packet` is no longer window limited and the next
sync frame carries no packet id. -/
theorem C11_window_reopens_packets (s s' : State F) (fb : Nat) (acks : List AckGroup)
    (hv : s.ps.nextId < PACKET_ID_SPAN)
    (h : handleAckFrame s fb s.ps.nextId acks = .ok s') :
    s'.ps.baseId = s'.ps.nextId ∧ pidSub s'.ps.nextId s'.ps.baseId = 0 ∧ ¬ PacketsIdle s' := by
  obtain ⟨_, _, _, hn, _, _, _, ha, _⟩ := C11_ack_advances s s' fb _ acks h
  have hb : s'.ps.baseId = s'.ps.nextId := by
    rw [ha ⟨hv, Nat.le_refl _⟩, hn]
  refine ⟨hb, ?_, fun hi => hi.1 hb.symm⟩
  rw [hb]
  simp only [PACKET_ID_SPAN] at hv
  unfold pidSub
  simp only [PACKET_ID_SPAN]
  omega


example : exA1.ps.nextId < PACKET_ID_SPAN ∧ isOk (handleAckFrame exA1 2 exA1.ps.nextId []) = true ∧
    PacketsIdle exA1 ∧ ¬ PacketsIdle exA2 ∧ exA2.ps.baseId = exA2.ps.nextId := by decide +kernel

/-- A stale or out-of-range ack frame (no groups, neither base admissible) changes nothing at all.
(For the frame part alone see also `C15_window_stale_noop`.) -/
theorem C11_ack_stale_noop (s : State F) (fb pb : Nat) (hf : ¬ FrameAdv s.fq fb)
    (hp : ¬ PacketAdv s.ps pb) : handleAckFrame s fb pb [] = .ok s :=
  handleAckFrame_stale s fb pb hf hp


example : ¬ FrameAdv exA1.fq 0 ∧ ¬ PacketAdv exA1.ps 3 ∧ ¬ FrameAdv exA2.fq 2 ∧ ¬ FrameAdv exA2.fq 1 := by
  decide +kernel

/-! ## 4. The sync timer is re-armed -/

/-- `emit_data_frames`: the clock is untouched; if at least one data frame is sent the sync timer is
re-armed (`sync_timeout_base_ms = time_now_ms`), otherwise it is unchanged; everything sent is a
data frame. So a sync frame is only ever sent `max(rto, 2 s)` after the last data or sync frame. -/
theorem C11_sync_rearmed_data (s s' : State F) (out : List (List Nat)) (st : Stage)
    (h : emitDataFrames s = .ok (s', out, st)) :
    s'.nowMs = s.nowMs ∧ (out ≠ [] → s'.syncTimeoutBase = s.nowMs) ∧
    (out = [] → s'.syncTimeoutBase = s.syncTimeoutBase) ∧
    (∀ f ∈ out, ∃ id n dgs, f = encode (.data id n dgs)) := by
  have hi := emitDataFrames_sync s s' out st h
  exact ⟨hi.now, hi.armed, hi.quiet, hi.data⟩


/-- `exAfirst` (a packet queued, credit 0, clock 0 ms, timer base 0) sends one data frame; `exA` (window
full, nothing queued) sends none and keeps its timer base 1000. -/
example : isOk (emitDataFrames exAfirst) = true ∧ (outOk (emitDataFrames exAfirst)).length = 1 ∧
    isOk (emitDataFrames exA) = true ∧ outOk (emitDataFrames exA) = [] ∧
    (fstOk exA (emitDataFrames exA)).syncTimeoutBase = 1000 := by decide +kernel

/-- `emit_sync_frame` (when it does not trap): either nothing is sent and nothing changes, or the one
sync frame is sent and the timer is re-armed, so the cycle repeats every `timeout` while nothing is
acknowledged. -/
theorem C11_sync_rearmed_sync (s s' : State F) (out : List (List Nat)) (st : Stage)
    (h : emitSyncFrame s = .ok (s', out, st)) :
    (out = [] ∧ s' = s) ∨
    (out = [syncBytes s] ∧ s'.syncTimeoutBase = s.nowMs ∧ s'.nowMs = s.nowMs ∧
      ¬ (timeout s' ≤ elapsed s' ∧ 0 < timeout s')) := by
  obtain ⟨_, hcase⟩ := emitSyncFrame_ok s s' out st h
  rcases hcase with ⟨h1, h2, _, _⟩ | ⟨h1, _, _, _, rfl⟩
  · exact Or.inl ⟨h1, h2⟩
  · refine Or.inr ⟨h1, rfl, rfl, ?_⟩
    simp only [elapsed, timeout, Nat.sub_self]
    omega

/-- Only `flush` touches the sync machinery. Every other operation of a half connection (`step`,
`send`, `receive`, the three frame handlers; `Ev`/`exec` of `Uflow/Lemmas/CreditRun.lean`) hands no
frame to the sink, leaves the sync timer base and the keepalive interval unchanged, and keeps an owed
sync reply owed. So the timer cannot be pushed forward by incoming traffic, the reply cannot be
forgotten, and (frames acting only through the three handlers) a sync or ack frame that is lost has no
effect on the peer at all. -/
theorem C11_only_flush_touches_sync (ops : FloatOps F) (s s' : State F) (ev : Ev)
    (out : List (List Nat)) (hev : ev ≠ .flush) (h : exec ops s ev = .ok (s', out)) :
    out = [] ∧ s'.syncTimeoutBase = s.syncTimeoutBase ∧ s'.keepalive = s.keepalive ∧
    (s.syncReply = true → s'.syncReply = true) :=
  exec_timer ops s s' ev out hev h

example : Ev.step 5000000000 ≠ .flush ∧ isOk (exec exOps exB1 (.step 5000000000)) = true ∧
    exB1.syncReply = true ∧ Ev.ackFrame 2 2 [] ≠ .flush ∧
    isOk (exec exOps exA1 (.ackFrame 2 2 [])) = true := by decide +kernel

/-- `HalfConnection::flush` as a whole: the frames handed to the sink are the ack frames followed by
data and sync frames (`rest`); if `rest` is non-empty the sync timer is re-armed to the current time,
otherwise it is unchanged (ack frames never re-arm it). -/
theorem C11_sync_rearmed (s s' : State F) (out : List (List Nat)) (h : flush s = .ok (s', out)) :
    ∃ rest, out = (emitAckFrames s).2.1 ++ rest ∧ s'.nowMs = s.nowMs ∧
      (rest ≠ [] → s'.syncTimeoutBase = s.nowMs) ∧
      (rest = [] → s'.syncTimeoutBase = s.syncTimeoutBase) ∧
      (∀ f ∈ rest, (∃ id n dgs, f = encode (.data id n dgs)) ∨ ∃ nf np, f = encode (.sync nf np)) :=
  flush_rearm s s' out h


/-- A flush that sends a data frame (`exAfirst`: a packet queued, at 0 s) and a flush that sends the
sync frame (`exA`, at 4 s) both re-arm the timer; a flush that sends only an ack frame (`exB1`) does
not. -/
example : isOk (flush exAfirst) = true ∧ (flushOf exAfirst).2.length = 1 ∧
    (emitAckFrames exAfirst).2.1 = [] ∧ (flushOf exAfirst).2.map (fun f => (decode f).isSome) = [true] ∧
    isOk (flush exA) = true ∧ (flushOf exA).2 = [syncBytes exA] ∧
    (exA.syncTimeoutBase, (flushOf exA).1.syncTimeoutBase, exA.nowMs) = (1000, 4000, 4000) ∧
    (flushOf exB1).2.length = 1 ∧ (flushOf exB1).1.syncTimeoutBase = exB1.syncTimeoutBase ∧
    exB1.syncTimeoutBase ≠ exB1.nowMs := by decide +kernel

/-- The sync frame becomes due by the passage of time alone: `HalfConnection::step` keeps the frames
in flight in flight and the timer base where it is (only `flush` moves it,
`C11_only_flush_touches_sync`), so once the clock handed to `step` has passed
`sync_timeout_base_ms + max(rto, 2 s)` (`rto` being the rate controller's estimate before the step,
or `INITIAL_RTO_ESTIMATE_MS`) the state after the step satisfies `SyncDue`; the next flush with credit
then sends a frame (`C11_sync_emitted_flush`). -/
theorem C11_sync_becomes_due (ops : FloatOps F) (s s' : State F) (now : Nat)
    (h : step ops s now = .ok s') (hun : FramesUnacked s)
    (hlate : s.syncTimeoutBase + max (s.rate.rtoMs.getD INITIAL_RTO_ESTIMATE_MS) MIN_SYNC_TIMEOUT_MS
      ≤ (now - s.timeBase) / 1000000) :
    SyncDue s' ∧ FramesUnacked s' ∧ s'.syncTimeoutBase = s.syncTimeoutBase ∧
    s'.syncTimeoutBase ≤ s'.nowMs := by
  have hnow := (HcFrame.step_frame ops s s' now h).2.2.2.2.2.2
  have hstb := (step_timer ops s s' now h).stb
  obtain ⟨⟨hl, hb⟩, hrto⟩ := step_ids ops s s' now h
  have hun' : FramesUnacked s' := by
    show s'.fq.logNext ≠ s'.fq.winBase
    rw [hl, hb]; exact hun
  refine ⟨⟨?_, Or.inl hun'⟩, hun', hstb, by omega⟩
  simp only [timeout, elapsed, hnow, hstb, hrto]
  omega

/-- `exApre` (frames 0, 1 in flight, last data frame at 1000 ms) and a `step` at 4 s. -/
example : isOk (step exOps exApre 4000000000) = true ∧ FramesUnacked exApre ∧
    exApre.syncTimeoutBase + max (exApre.rate.rtoMs.getD INITIAL_RTO_ESTIMATE_MS) MIN_SYNC_TIMEOUT_MS
      ≤ (4000000000 - exApre.timeBase) / 1000000 ∧
    ¬ SyncDue exApre := by decide +kernel

/-- No silent skip, at the level of `HalfConnection::flush`: in a state with unacknowledged frames
whose sync timeout has elapsed, a (non-trapping) flush either ends out of credit
(`flush_alloc < 0`, refilled by later `step`s, C13) or hands at least one data or sync frame to the sink
after its ack frames and re-arms the timer. In particular there is no state with frames in flight in
which the sync frame is withheld for any reason other than the rate limit. -/
theorem C11_sync_emitted_flush (s s' : State F) (out : List (List Nat))
    (h : flush s = .ok (s', out)) (hto : timeout s ≤ elapsed s) (hun : FramesUnacked s) :
    s'.flushAlloc < 0 ∨
    ∃ rest, out = (emitAckFrames s).2.1 ++ rest ∧ rest ≠ [] ∧ s'.syncTimeoutBase = s.nowMs :=
  flush_sync_progress s s' out h hto hun

/-- Both outcomes: `exA` (credit 3000) sends the sync frame; with credit −1 nothing is sent. -/
example : isOk (flush exA) = true ∧ timeout exA ≤ elapsed exA ∧ FramesUnacked exA ∧
    (flushOf exA).2 = [syncBytes exA] ∧ (flushOf exA).1.syncTimeoutBase = exA.nowMs ∧
    0 ≤ (flushOf exA).1.flushAlloc ∧
    isOk (flush { exA with flushAlloc := -1 }) = true ∧
    (flushOf { exA with flushAlloc := -1 }).2 = [] ∧
    (flushOf { exA with flushAlloc := -1 }).1.flushAlloc < 0 := by decide +kernel

/-! ## 5. The cycle, composed -/

/-- A full frame window has frames in flight. -/
theorem C11_full_window_unacked (q : FrameQ.State) (h : FrameQ.canPush q = false) (hw : 0 < q.winSize) :
    wsub32 q.logNext q.winBase ≠ 0 ∧ q.logNext ≠ q.winBase := by
  unfold FrameQ.canPush at h
  have h0 : wsub32 q.logNext q.winBase ≠ 0 := by
    generalize wsub32 q.logNext q.winBase = d at h
    simp only [decide_eq_false_iff_not, Nat.not_lt] at h
    omega
  refine ⟨h0, fun he => h0 ?_⟩
  rw [he]; unfold wsub32; omega

/-- The cycle for two half connections: `A` the sender side of one endpoint, `B` the receiver side of
the other. Assumptions: `A` has frames in flight (`wsub32 logNext winBase ≠ 0`, in particular when
its frame window is full, `C11_full_window_unacked`), its sync timeout has elapsed, its credit is
non-negative; `B`'s frame-ack window base is at most one window behind `A`'s next frame id (true
whether `B` received all, some or none of `A`'s frames, as long as both use the same window size).
All acks so far may have been lost. Then:
1. `A` emits exactly one sync frame, which decodes to `Sync { next_frame_id: Some(A.next), .. }`;
2. when `B` handles it (no trap, cf. `C11_sync_handled_total`) it owes a reply and its frame window
   base is `A`'s next frame id; with non-negative credit its next `emit_ack_frames` sends at least one
   ack frame, and every ack frame it sends is `Ack { frame_window_base_id: A.next, .. }`;
3. when `A` handles any ack frame with that frame window base (whatever its packet base and groups;
   no trap), `A`'s frame window is open again: `can_push` holds. -/
theorem C11_full_window_cycle (A B : State F)
    (hAn : A.fq.logNext < 2^32) (hAp : A.ps.nextId < 2^32) (hBb : B.aq.baseId < 2^32)
    (hclk : A.syncTimeoutBase ≤ A.nowMs) (hto : timeout A ≤ elapsed A)
    (hun : wsub32 A.fq.logNext A.fq.winBase ≠ 0) (hw : 0 < A.fq.winSize)
    (hcred : 0 ≤ A.flushAlloc)
    (hrel : wsub32 A.fq.logNext B.aq.baseId ≤ B.aq.size) :
    ∃ A1 np,
      emitSyncFrame A = .ok (A1, [syncBytes A], .cont) ∧
      decode (syncBytes A) = some (.sync (some A.fq.logNext) np) ∧
      A1.syncTimeoutBase = A.nowMs ∧
      ∀ B1, handleSyncFrame B (some A.fq.logNext) np = .ok B1 →
        B1.syncReply = true ∧ B1.aq.baseId = A.fq.logNext ∧
        (0 ≤ B.flushAlloc →
          (emitAckFrames B1).2.1 ≠ [] ∧
          ∀ f ∈ (emitAckFrames B1).2.1, IsAck A.fq.logNext B1.pr.baseId B1.aq.entries f) ∧
        ∀ pb acks A2, handleAckFrame A1 A.fq.logNext pb acks = .ok A2 →
          FrameQ.canPush A2.fq = true := by
  have hne : A.fq.logNext ≠ A.fq.winBase := by
    intro he; apply hun; rw [he]; unfold wsub32; omega
  have hdue : SyncDue A := ⟨hto, Or.inl hne⟩
  have hnf : syncNextFrame A = some A.fq.logNext := (syncNextFrame_some_iff A _).mpr ⟨hne, rfl⟩
  refine ⟨_, syncNextPacket A, (C11_sync_emitted A hclk).1 hdue hcred, ?_, rfl, ?_⟩
  · rw [decode_syncBytes A hAn hAp, hnf]
  · intro B1 hB
    rw [C11_sync_handled] at hB
    -- the frame-ack window base after resynchronisation
    have hbase : (B.aq.resynchronize A.fq.logNext).baseId = A.fq.logNext := by
      by_cases hd : 0 < wsub32 A.fq.logNext B.aq.baseId
      · rw [(C11_ackq_resynchronize B.aq A.fq.logNext).1 ⟨hd, hrel⟩]
      · rw [(C11_ackq_resynchronize B.aq A.fq.logNext).2 (fun hh => hd hh.1)]
        unfold wsub32 at hd
        omega
    have hB1 : B1.syncReply = true ∧ B1.aq = B.aq.resynchronize A.fq.logNext ∧
        B1.flushAlloc = B.flushAlloc := by
      cases hnp : syncNextPacket A with
      | none =>
        rw [hnp] at hB
        simp only [Except.ok.injEq] at hB
        subst hB
        exact ⟨rfl, rfl, rfl⟩
      | some pid =>
        rw [hnp] at hB
        simp only at hB
        cases hr : PRecv.resynchronize B.pr pid with
        | error t => rw [hr] at hB; cases hB
        | ok pr =>
          rw [hr] at hB
          simp only [Except.map, Except.ok.injEq] at hB
          subst hB
          exact ⟨rfl, rfl, rfl⟩
    obtain ⟨hrep, haq, hfa⟩ := hB1
    have hb1 : B1.aq.baseId = A.fq.logNext := by rw [haq]; exact hbase
    refine ⟨hrep, hb1, fun hc => ?_, fun pb acks A2 hA2 => ?_⟩
    · obtain ⟨h1, h2, _⟩ := C11_sync_answered B1 hrep (by rw [hfa]; exact hc)
      rw [hb1] at h2
      exact ⟨h1, h2⟩
    · exact (C11_window_reopens_frames
        ({ A with flushAlloc := A.flushAlloc - 14, syncTimeoutBase := A.nowMs }) A2 pb acks hA2).2 hw

/-- Non-vacuity: `A = exA` (frame window of 2 full, every frame lost), `B = exB` (received nothing).
All hypotheses hold, no step traps, and the window is open at the end (`exA2`). -/
example : exA.fq.logNext < 2^32 ∧ exA.ps.nextId < 2^32 ∧ exB.aq.baseId < 2^32 ∧
    exA.syncTimeoutBase ≤ exA.nowMs ∧ timeout exA ≤ elapsed exA ∧
    FrameQ.canPush exA.fq = false ∧ wsub32 exA.fq.logNext exA.fq.winBase ≠ 0 ∧ 0 < exA.fq.winSize ∧
    0 ≤ exA.flushAlloc ∧ wsub32 exA.fq.logNext exB.aq.baseId ≤ exB.aq.size ∧ 0 ≤ exB.flushAlloc ∧
    isOk (handleSyncFrame exB (some exA.fq.logNext) (syncNextPacket exA)) = true ∧
    isOk (handleAckFrame exA1 exA.fq.logNext 2 []) = true ∧
    FrameQ.canPush exA2.fq = true := by decide +kernel

end Uflow.Props.C11
