import Uflow.Model.HalfConn

/-! # C11 (liveness; see DESIGN.md 6/C11 for what is and is not a theorem) -/

namespace Uflow.Props.C11

open Uflow Uflow.HalfConn

/-- The sync timeout is never shorter than `MIN_SYNC_TIMEOUT_MS` and never shorter than the RTO. -/
theorem C11_sync_timeout_ge (rto : Nat) :
    Uflow.Gen.MIN_SYNC_TIMEOUT_MS ≤ max rto Uflow.Gen.MIN_SYNC_TIMEOUT_MS ∧ rto ≤ max rto Uflow.Gen.MIN_SYNC_TIMEOUT_MS := by
  constructor <;> omega

end Uflow.Props.C11
