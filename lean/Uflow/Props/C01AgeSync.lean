import Uflow.Lemmas.HcAgeSyncMain
import Uflow.Lemmas.HcAgeLink
import Uflow.Props.C01Age

/-!
# C01AgeSync — the schedule hypothesis `Guarded` from a FRAME-COUNT hypothesis (corrected form)

`Props/C01AgeFrames.lean` refutes the count of DATA frames as a bound on the packet ids consumed
(TimeSensitive packets receive ids without ever being transmitted; a sync frame moves `B`'s base past a
whole send window of them). This file proves the corrected, coarser statement: count EVERY frame appended
to `wireAB` (data, sync, ack) and pay `w` ids (`w` = `A`'s send window) per frame.

**`HcAge.FramesOk ops Dfr D x sched`**: along the age-instrumented run,
* `deliverAB k`: the `k`-th frame of `wireAB` is handed to `B` only while at most `Dfr` frames have been
  appended to `wireAB` after it: `wireAB.length ≤ k + 1 + Dfr`;
* `deliverBA k`: as in `AgeOk ops D` — `B`'s receive window base has moved at most `D` ids since `B.flush`
  emitted the frame (`advB ≤ tBA[k] + D`).

## Results
* `C01_hc_guarded_of_frame_age` — if `w * (Dfr + 1) ≤ D` and `D + w + 2^k < 2^20`, `FramesOk` implies
  `Guarded` (and `AgeOk ops D`), for runs of any length that do not reuse frame ids;
  `C01_hc_delivery_frame_aged` — the conclusions of `C01_hc_delivery`.
* Numeric corollaries: `C01_hc_guarded_of_frame_age_lib` — for the library's window sizes
  (`MAX_PACKET_WINDOW_SIZE = 4096`: `w ≤ 2^12`, `k = 12`): `Dfr = 250` frames, `D = 251 · 4096`;
  `C01_hc_guarded_of_frame_age_any` — for EVERY configuration allowed by `SyncCfg` (`w ≤ 2^16`, `k ≤ 19`):
  `Dfr = 5` frames, `D = 6 · 2^16`. The bound is coarse by necessity of the proof, not of the protocol:
  see below.
* `C01_hc_frame_stamps` — the invariant (`HcAge.SyncInv`) for every such run: `B`'s unwrapped `end_id`
  (hence `advB`) is at most the largest emission stamp on `wireAB`; consecutive frames of `wireAB` have
  stamps at most `w` apart (`topT wireT ≤ wireT[k] + w · (frames after k)`); every datagram of a data frame
  with stamp `T` has an emission position `i` with `i < T ≤ i + w`.

## The argument
`B` learns packet ids only from frames: `handle_datagram` raises `end_id` at most to one past the
datagram's id, `receive` never moves the base past `end_id`, `resynchronize id` moves base and `end_id` at
most to `id` (`Lemmas/HcAgeSyncRecv.lean`); a datagram of a frame with stamp `T` has a position `< T`, a
sync frame with stamp `T` names position `T`; so `advB ≤ topT wireT`. `A` assigns ids only while its send
window has room and the base of the send window is at most `advB` (`SInv.lo`): `pend.length ≤ advB + w ≤
topT wireT + w`. So a `flush` that puts a frame on the wire stamps it with at most `topT wireT + w`, and
any number of frameless flushes consume at most `w` ids in total.

## What is not proved
The finer bound `127` ids per data frame + `w` per id-carrying sync frame (conjectured in
`Props/C01AgeFrames.lean`) would need an accounting of `dfePush` calls through `flush`; it is not
attempted. With the present bound every frame — even an ack frame — is charged a full send window.
-/

namespace Uflow.Props.C01

open Uflow Uflow.Gen Uflow.Codec Uflow.HalfConn Uflow.PSend Uflow.Sys Uflow.HcSys Uflow.HcAge
open Uflow.PRecv (LogE)
open Uflow.Rate (FloatOps)
open Uflow.HcFrm (IdsNodup)

variable {F : Type}

/-- **Frame-count age implies `Guarded`** — runs of any length. `SyncCfg cA cB k`; `w * (Dfr + 1) ≤ D` and
`D + w + 2^k < 2^20` (`w = cA.txPacketWindowSize`); the run exists and reuses no frame id; every
`deliverAB k` happens while at most `Dfr` frames (of any kind) have been appended to `wireAB` after index
`k`, every `deliverBA k` while `B`'s base has moved at most `D` ids since the frame was emitted
(`HcAge.FramesOk`). Then the schedule is `Guarded`, and it satisfies the packet-stamp hypothesis
`AgeOk ops D` of `Props/C01Age.lean`. -/
theorem C01_hc_guarded_of_frame_age (ops : FloatOps F) (cA cB : Config) (nowA nowB : Nat) (rngA rngB : Rng)
    (k : Nat) (hc : SyncCfg cA cB k) (Dfr D : Nat) (hDfr : cA.txPacketWindowSize * (Dfr + 1) ≤ D)
    (hD : D + cA.txPacketWindowSize + 2^k < 2^20) (sched : List POp) (h : HcPair F)
    (hrun : runP ops (initP ops cA cB nowA nowB rngA rngB) sched = .ok h) (hn : IdsNodup h.wireAB)
    (hfr : FramesOk ops Dfr D (aged0 (initP ops cA cB nowA nowB rngA rngB)) sched) :
    Guarded ops (initP ops cA cB nowA nowB rngA rngB) sched ∧
    AgeOk ops D (aged0 (initP ops cA cB nowA nowB rngA rngB)) sched := by
  obtain ⟨g, a, _⟩ := guarded_of_framesAll ops hc.shyp hDfr hD sched
    (full_init ops cA cB nowA nowB rngA rngB k hc.pc.txA hc.pc.txB hc.pc.rxB hc.base hc.hW hc.frm)
    (ageInv_init ops _ cA cB nowA nowB rngA rngB) (syncInv_init ops _ cA cB nowA nowB rngA rngB) hfr hrun hn
  exact ⟨g, a⟩

/-- The library's window sizes (`MAX_PACKET_WINDOW_SIZE = 4096` for both directions): send window
`≤ 2^12`, receive window `2^12`. A frame may be delivered while at most **250 frames** were sent after it
(`D = 251 · 4096 = 1028096`; `1028096 + 4096 + 4096 < 2^20`). -/
theorem C01_hc_guarded_of_frame_age_lib (ops : FloatOps F) (cA cB : Config) (nowA nowB : Nat)
    (rngA rngB : Rng) (hc : SyncCfg cA cB 12) (hw : cA.txPacketWindowSize ≤ 2^12) (sched : List POp)
    (h : HcPair F) (hrun : runP ops (initP ops cA cB nowA nowB rngA rngB) sched = .ok h)
    (hn : IdsNodup h.wireAB)
    (hfr : FramesOk ops 250 (251 * 4096) (aged0 (initP ops cA cB nowA nowB rngA rngB)) sched) :
    Guarded ops (initP ops cA cB nowA nowB rngA rngB) sched :=
  (C01_hc_guarded_of_frame_age ops cA cB nowA nowB rngA rngB 12 hc 250 (251 * 4096)
    (by have := Nat.mul_le_mul_right 251 hw; omega) (by omega) sched h hrun hn hfr).1

/-- Every configuration allowed by `SyncCfg` (`w ≤ 2^16`, `k ≤ 19`): a frame may be delivered while at
most **5 frames** were sent after it (`D = 6 · 2^16`; `6 · 2^16 + 2^16 + 2^19 < 2^20`). -/
theorem C01_hc_guarded_of_frame_age_any (ops : FloatOps F) (cA cB : Config) (nowA nowB : Nat)
    (rngA rngB : Rng) (k : Nat) (hc : SyncCfg cA cB k) (sched : List POp)
    (h : HcPair F) (hrun : runP ops (initP ops cA cB nowA nowB rngA rngB) sched = .ok h)
    (hn : IdsNodup h.wireAB)
    (hfr : FramesOk ops 5 (6 * 2^16) (aged0 (initP ops cA cB nowA nowB rngA rngB)) sched) :
    Guarded ops (initP ops cA cB nowA nowB rngA rngB) sched := by
  have h1 := hc.hw
  have h2 : 2^k ≤ 2^19 := Nat.pow_le_pow_right (by decide) hc.hk
  exact (C01_hc_guarded_of_frame_age ops cA cB nowA nowB rngA rngB k hc 5 (6 * 2^16)
    (by have := Nat.mul_le_mul_right 6 h1; omega) (by omega) sched h hrun hn hfr).1

/-- **Delivery for every frame-aged run**: the conclusions of `C01_hc_delivery` (one common attribution:
in order per channel, at most once, byte-exact, Reliable packets never skipped) with `Guarded` replaced
by the frame-count hypothesis `FramesOk`. -/
theorem C01_hc_delivery_frame_aged (ops : FloatOps F) (cA cB : Config) (nowA nowB : Nat) (rngA rngB : Rng)
    (k : Nat) (hc : SyncCfg cA cB k) (ham : allocCeil cA.txAllocLimit ≤ allocCeil cB.rxAllocLimit)
    (Dfr D : Nat) (hDfr : cA.txPacketWindowSize * (Dfr + 1) ≤ D)
    (hD : D + cA.txPacketWindowSize + 2^k < 2^20) (sched : List POp) (h : HcPair F)
    (hrun : runP ops (initP ops cA cB nowA nowB rngA rngB) sched = .ok h) (hn : IdsNodup h.wireAB)
    (hfr : FramesOk ops Dfr D (aged0 (initP ops cA cB nowA nowB rngA rngB)) sched) :
    ∃ (log : List LogE) (em : List Emitted),
      log.map LogE.data = h.outs.map some ∧
      (em.map Emitted.toQ).Sublist h.sent ∧
      (∀ c, ((log.filter (fun e => decide (e.chan = c))).filterMap LogE.data).Sublist
        ((h.sent.filter (fun q => decide (q.channelId = c))).map QEntry.data)) ∧
      log.Pairwise (fun x y => x.uid ≠ y.uid) ∧
      (∀ e ∈ log, ∃ x, em[e.uid]? = some x ∧ e.chan = x.channelId ∧ e.data = some x.data) ∧
      ∀ (l1 : List LogE) (e : LogE) (l2 : List LogE), log = l1 ++ e :: l2 →
        ∀ (j : Nat) (x : Emitted), em[j]? = some x → x.mode = .reliable → x.channelId = e.chan →
          j < e.uid → ∃ e' ∈ l1, e'.uid = j ∧ e'.chan = e.chan :=
  C01_hc_delivery ops cA cB nowA nowB rngA rngB hc.pc hc.base hc.hw k hc.hk hc.hW ham sched h
    (C01_hc_guarded_of_frame_age ops cA cB nowA nowB rngA rngB k hc Dfr D hDfr hD sched h hrun hn hfr).1 hrun

/-- **What the stamps bound** (`HcAge.SyncInv`, for every frame-aged run without reused frame ids): in the
final state `x` of the instrumented run (`x.h = h`)
* `advB + pidSub end_id base_id ≤ topT wireT`: `B`'s unwrapped `end_id`, hence its window base, is at most
  the largest emission stamp of a frame on `wireAB`;
* `topT wireT ≤ wireT[k] + w · (wireT.length − (k + 1))`: consecutive frames are at most `w` ids apart;
* every datagram of a data frame with stamp `T` is a fragment of the packet at a position `i` with
  `i < T ≤ i + w`. -/
theorem C01_hc_frame_stamps (ops : FloatOps F) (cA cB : Config) (nowA nowB : Nat) (rngA rngB : Rng)
    (k : Nat) (hc : SyncCfg cA cB k) (Dfr D : Nat) (hDfr : cA.txPacketWindowSize * (Dfr + 1) ≤ D)
    (hD : D + cA.txPacketWindowSize + 2^k < 2^20) (sched : List POp) (h : HcPair F)
    (hrun : runP ops (initP ops cA cB nowA nowB rngA rngB) sched = .ok h) (hn : IdsNodup h.wireAB)
    (hfr : FramesOk ops Dfr D (aged0 (initP ops cA cB nowA nowB rngA rngB)) sched) :
    ∃ x, runG ops (aged0 (initP ops cA cB nowA nowB rngA rngB)) sched = .ok x ∧ x.h = h ∧
      SyncInv cA.txPacketWindowSize x ∧ h.pend.length ≤ h.advB + cA.txPacketWindowSize := by
  obtain ⟨_, _, _, s', x, _, hx, he, hF, _, hS⟩ := guarded_of_framesAll ops hc.shyp hDfr hD sched
    (full_init ops cA cB nowA nowB rngA rngB k hc.pc.txA hc.pc.txB hc.pc.rxB hc.base hc.hW hc.frm)
    (ageInv_init ops _ cA cB nowA nowB rngA rngB) (syncInv_init ops _ cA cB nowA nowB rngA rngB) hfr hrun hn
  exact ⟨x, hx, he, hS, (pfacts_of_full hc.shyp hF).win⟩

/-- Executable test for the frame-count hypothesis. -/
theorem C01_hc_frames_checker (ops : FloatOps F) (Dfr D : Nat) (x : Aged F) (sched : List POp)
    (hb : framesOkB ops Dfr D x sched = true) : FramesOk ops Dfr D x sched := framesOkB_sound ops Dfr D sched x hb

/-! ## Non-vacuity -/

/-- The example schedules of `Props/C01Hc.lean` and the two refutation runs of `Props/C01AgeFrames.lean`
(extended by the late `deliverAB 0`) satisfy `FramesOk` with `Dfr = 1` (`D = 2 · 16 = 32` for the example
send window 16) — in the cycle run exactly one frame, the sync frame, was sent after frame 0 —; `hcExSched`
and the cycle run violate it for `Dfr = 0`. -/
theorem C01_hc_frames_examples :
    framesOkB CreditEx.exOps 1 32 (aged0 hcExPair) hcExSched = true ∧
    framesOkB CreditEx.exOps 0 32 (aged0 hcExPair) hcExSched = false ∧
    framesOkB CreditEx.exOps 1 32 (aged0 hcExPair) hcSyncSched = true ∧
    framesOkB CreditEx.exOps 1 32 (aged0 hcExPair) hcResyncSched = true ∧
    framesOkB CreditEx.exOps 1 32 (aged0 hcExPair) (cycleSched ++ [.deliverAB 0]) = true ∧
    framesOkB CreditEx.exOps 0 32 (aged0 hcExPair) (cycleSched ++ [.deliverAB 0]) = false ∧
    framesOkB CreditEx.exOps 0 16 (aged0 hcExPair) (linkWitSched ++ [.deliverAB 0]) = true := by
  refine ⟨by decide +kernel, by decide +kernel, by decide +kernel, by decide +kernel, by decide +kernel,
    by decide +kernel, by decide +kernel⟩

/-- The hypotheses of `C01_hc_guarded_of_frame_age`, `C01_hc_delivery_frame_aged`, `C01_hc_frame_stamps`
for `hcExSched` with `Dfr = 1`, `D = 32`: `SyncCfg`, the allocation condition, `16 * 2 ≤ 32`,
`32 + 16 + 2^4 < 2^20`, the run exists, no frame id reused, `FramesOk`. -/
theorem C01_hc_frames_example_hyps :
    SyncCfg CreditEx.exCfg CreditEx.exCfg 4 ∧
    allocCeil CreditEx.exCfg.txAllocLimit ≤ allocCeil CreditEx.exCfg.rxAllocLimit ∧
    CreditEx.exCfg.txPacketWindowSize * (1 + 1) ≤ 32 ∧ 32 + CreditEx.exCfg.txPacketWindowSize + 2^4 < 2^20 ∧
    FramesOk CreditEx.exOps 1 32 (aged0 hcExPair) hcExSched ∧
    ∃ h, runP CreditEx.exOps hcExPair hcExSched = .ok h ∧ IdsNodup h.wireAB := by
  obtain ⟨hcfg, _, _, _, _, hx⟩ := C01_hc_age_example_hyps
  exact ⟨hcfg, Nat.le_refl _, by decide, by decide,
    C01_hc_frames_checker _ _ _ _ _ C01_hc_frames_examples.1, hx⟩

end Uflow.Props.C01
