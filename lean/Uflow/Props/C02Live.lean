import Uflow.Props.C01Sys
import Uflow.Lemmas.SysLiveThm

/-!
# C02Live — the liveness half of C02 on the composed system: deliverability / no permanent stall

C02: "… Provided the network eventually lets frames through and both applications keep calling
`step()`, every Reliable packet is delivered exactly once within bounded time, after which the sender
reports nothing pending and a send buffer size of zero."

The safety half (in order, at most once, never skipped, payload exact) is `Props/C01Sys.lean`. A
temporal "eventually" over infinite fair schedules is not expressed in this development; its core is
a statement about every REACHABLE state of the system `Uflow.Sys` (sender `PSend` + ghost network +
receiver `PRecv`, `Lemmas/SysDefs.lean`), which is proved here:

* **no reachable state is a permanent stall** — from every state reachable by ANY schedule (arbitrary
  finite prefix of loss, duplication, reordering, stale acknowledgements, sync frames: the `sync` /
  `resync` steps of `Sys`), ONE more round in which the
  network lets through every datagram emitted so far (`redeliverAll`; what the sender's resend timers
  achieve for the fragments of unacknowledged Persistent / Reliable packets, C12) followed by one
  `receive` call delivers every emitted Reliable packet byte-exact and moves the receive window base
  past every emitted packet (`C02_sys_deliverable`);
* **quiescence** — if then the acknowledgement carrying that base reaches the sender, the send
  window is empty, the allocation counter is 0 and `send_buffer_size` is down to the bytes still
  waiting in the send queue (`C02_sys_quiescent`).

"Exactly once" is this "at least once" together with `C01_sys_at_most_once`; "within bounded time" is
the bound of ONE round. What the round delivers is the datagrams of `net`, i.e. of all packets that
were given a sequence id (`emit_packet`); packets still in the send queue are outside the statement
(moving them into the window is the flush / credit loop of the half connection, C13 / C14).

`C02_sys_resync_passes_no_reliable`: a `resync` step never moves the window base past a Reliable
packet (sync values are recorded under the sender-side guard `SyncOk`).

New invariants (all proved for every reachable state, `Sys.linv_run`): `window_ready` is live (if a
received entry passes the test of the window pass, the flag is set — with the honest leads of this
sender the window pass leaves no such entry behind), every received entry lies before `end_id`, a
closed assembly entry has its entry flag, every logged packet of the current window still has its
entry flag, and `net` holds every fragment of every emitted packet. Also new: the datagrams of the
honest sender pass `datagram_is_valid` (`Sys.genuine_valid`).

Parameters: send window `w ≤ 2^16` (leads exact) and `w ≤ 2^k` = receive window (the library uses the
same `MAX_PACKET_WINDOW_SIZE` for both; with `w > 2^k` one round is not enough,
`C02_sys_deliverable_needs_window_witness`), `k ≤ 19`, initial id `b < 2^20`, allocation ceilings
`allocCeil a ≤ allocCeil m` (otherwise a Reliable packet can be refused, `C02_sys_refused_witness`,
`C02_sys_deliverable_needs_alloc_witness`).
-/

namespace Uflow.Props.C02

open Uflow Uflow.Gen Uflow.Codec Uflow.PSend Uflow.PRecv Uflow.Frag Uflow.Sys
open Uflow.Props.C01Sys

/-- One redelivery round: the network hands every datagram emitted so far (every fragment of every
packet `emit_packet` has returned, in emission order) to the receiver's `handle_datagram` once more,
then the receiving application calls `receive`. -/
def redeliverAll (s : Sys) : List SOp := (List.range s.net.length).map SOp.deliver ++ [SOp.recv]

/-- Every state of a system run with `w ≤ 2^16` satisfies the liveness invariant `Sys.LInv`
(`Uflow/Lemmas/SysLiveRun.lean`). -/
theorem C02_sys_reach_live (w k b a m : Nat) (hw : w ≤ 2^16) (hk : k ≤ 19) (hb : b < 2^20) (ops : List SOp)
    (s' : Sys) (h : runS (initS w (2^k) b a m) ops = .ok s') : LInv (2^k) s' :=
  linv_run (wOk_pow k hk) hw ops (sinv_init w (2^k) b a m (Nat.two_pow_pos k) hb) (pinv_init w (2^k) b a m)
    (linv_init w (2^k) b a m) h

/-- **Deliverability: no reachable state is a permanent stall.** Let `s` be ANY state reachable from
`PacketSender::new(w, b, a)` / `PacketReceiver::new(2^k, b, m)` by any list of steps (enqueue, emit,
datagrams delivered in any order any number of times or never, `receive` calls, acknowledgements of
any earlier receiver base in any order). Then one redelivery round `redeliverAll s` from `s`
* does not trap (the `Fresh` guard never refuses a datagram of a packet the receive window has not
  passed, `Sys.deliver_step`; datagrams of older packets are ignored by `handle_datagram`);
* leaves the sender, the histories and the network unchanged (`snd`, `hist`, `net`);
* moves the receive window base past every emitted packet: `adv = number of emitted packets`
  (so `receive`'s window pass is never stuck: `window_ready` was set and the pass ran to the end);
* has delivered EVERY emitted Reliable packet to the application, byte-exact: the log (the
  concatenated outputs of `receive`, `C01_sys_log_is_receive_output`) has an entry with its unwrapped
  id and its payload — at most one (`C01_sys_at_most_once`), in channel order (`C01_sys_in_order`);
* and every emitted packet of ANY mode that the window had not already passed before the round
  (`s.rcv.adv ≤ j`) was delivered byte-exact, except a non-Reliable packet `j` such that a LATER
  packet of its channel had already been delivered before the round (delivering `j` now would break
  the channel order, C01; `handle_datagram` drops it as behind `channel.base_id`). -/
theorem C02_sys_deliverable (w k b a m : Nat) (hwk : w ≤ 2^k) (hw : w ≤ 2^16) (hk : k ≤ 19) (hb : b < 2^20)
    (ham : allocCeil a ≤ allocCeil m) (ops : List SOp) (s : Sys)
    (h : runS (initS w (2^k) b a m) ops = .ok s) :
    ∃ s', runS s (redeliverAll s) = .ok s' ∧
      s'.snd = s.snd ∧ s'.hist = s.hist ∧ s'.net = s.net ∧
      s'.seen = s.seen ++ [(s'.rcv.adv, s'.rcv.st.baseId)] ∧
      s'.rcv.adv = s.hist.emitted.length ∧
      (∀ j x, s.hist.emitted[j]? = some x → x.mode = .reliable →
        ∃ e ∈ s'.rcv.log, e.uid = j ∧ e.data = some x.data) ∧
      (∀ j x, s.hist.emitted[j]? = some x → s.rcv.adv ≤ j →
        (∃ e ∈ s'.rcv.log, e.uid = j ∧ e.data = some x.data) ∨
        (x.mode ≠ .reliable ∧ ∃ e ∈ s.rcv.log, e.chan = x.channelId ∧ j < e.uid)) := by
  have hs := C01_sys_reach w k b a m (by omega) hk hb ops s h
  have hp := C02_sys_reach_delivery w k b a m hw hk hb ops s h
  have hl := C02_sys_reach_live w k b a m hw hk hb ops s h
  obtain ⟨s', hr, g1, g2, -, g4, g5, g6, -, g8, g9⟩ := round_all (wOk_pow k hk) hw hwk hs hp hl
  have hfull : runS (initS w (2^k) b a m) (ops ++ redeliverAll s) = .ok s' := by
    rw [runS_append _ _ _ s h]; exact hr
  have hpay := C01_sys_delivered_payload w k b a m hw hk hb ham _ s' hfull
  have key : ∀ j x, s.hist.emitted[j]? = some x → (∃ e ∈ s'.rcv.log, e.uid = j) →
      ∃ e ∈ s'.rcv.log, e.uid = j ∧ e.data = some x.data := by
    intro j x hx ⟨e, he, hu⟩
    obtain ⟨em, hem, hd⟩ := hpay e he
    rw [hu, g2, hx] at hem
    cases hem
    exact ⟨e, he, hu, hd⟩
  refine ⟨s', hr, g1, g2, g4, g5, g6, ?_, ?_⟩
  · intro j x hx hrel
    exact key j x hx (g8 j x hx hrel)
  · intro j x hx hj
    rcases g9 j x hx hj with h1 | h2
    · exact Or.inl (key j x hx h1)
    · exact Or.inr h2

/-- **A `resync` step passes no Reliable packet at all** (`w ≤ 2^16`). By
`C02_sys_resync_keeps_reliable` a Reliable packet a `resync` step passes is already in the log; by the
liveness invariant (`LInv.lg`) a logged packet of the current window still has its entry flag, and
`resynchronize` stops at the first slot with an entry flag. So if a `resync` step moves the receive
window base from `s.rcv.adv` to `s'.rcv.adv`, no Reliable packet was emitted at a position in between:
the step only skips Unreliable / TimeSensitive / Persistent packets that have not been (completely)
received — what sync frames are for ("preventing the send/receive windows from desynchronizing in the
event that many unreliable packets are dropped"). -/
theorem C02_sys_resync_passes_no_reliable (w k b a m : Nat) (hw : w ≤ 2^16) (hk : k ≤ 19) (hb : b < 2^20)
    (ops : List SOp) (s : Sys) (h : runS (initS w (2^k) b a m) ops = .ok s) (s' : Sys) (kk : Nat)
    (hs : stepS s (.resync kk) = .ok s') (j : Nat) (x : Emitted) (hx : s.hist.emitted[j]? = some x)
    (h1 : s.rcv.adv ≤ j) (h2 : j < s'.rcv.adv) : x.mode ≠ .reliable := by
  intro hrel
  obtain ⟨e, he, hu⟩ := C02_sys_resync_keeps_reliable w k b a m hw hk hb ops s h s' kk hs j x hx hrel h1 h2
  have hinv := C01_sys_reach w k b a m (by omega) hk hb ops s h
  have hl := C02_sys_reach_live w k b a m hw hk hb ops s h
  have hW := wOk_pow k hk
  have hen := hl.lg e he (by omega)
  simp only [stepS] at hs
  split at hs
  · cases hs; omega
  · rename_i n id hk'
    split at hs
    · rename_i hfresh
      rw [stepT_resync] at hs
      cases hr : resynchronize s.rcv.st id with
      | error t => rw [hr] at hs; cases hs
      | ok st' =>
        rw [hr, bindR_ok, bindR_ok] at hs
        cases hs
        have h2' : j < s.rcv.adv + pidSub st'.baseId s.rcv.st.baseId := h2
        rcases resync_cases (by omega) hinv n id (List.mem_of_getElem? hk') hfresh st' hr with
          rfl | ⟨nb, hnb, hle, hδ, hadv, hno⟩
        · rw [pidSub_self] at h2'; omega
        · have F := advanceWindow_facts hW hinv.rcv.inv hinv.rcv.ord nb hnb hδ hadv
          rw [F.base] at h2'
          have hseq := hinv.rcv.gi.gseq e he
          have hWle := hW.le
          have hoff : pidSub e.seq s.rcv.st.baseId = e.uid - s.rcv.adv := by
            rw [hseq, hinv.rcv.gi.gbase]
            exact seq_off b s.rcv.adv e.uid (by omega) (by omega)
          have := hno e.seq (by rw [hseq]; exact Nat.mod_lt _ (by decide)) (by rw [hoff]; omega)
          rw [this] at hen
          cases hen
    · cases hs; omega

/-- Payload bytes of the packets waiting in the send queue (`qBytes`, C20). -/
def queuedBytes (s : Sys) : Nat := (s.snd.queue.map (·.data.length)).sum

/-- **Quiescence: "after which the sender reports nothing pending and a send buffer size of zero".**
After the round of `C02_sys_deliverable`, let the acknowledgement carrying the receiver's newest
window base (the last entry of `seen`, recorded by the `receive` of the round) reach the sender:
`ack (s'.seen.length - 1)`. Then
* the step is not refused: the entry exists, carries the unwrapped base `number of emitted packets`,
  and satisfies the network guard `AckFresh`; `acknowledge` does not trap;
* the send window is empty (`win = []`, `base_id = next_id`): no emitted packet awaits an
  acknowledgement, nothing is left to resend;
* the allocation counter is back to 0 and `send_buffer_size` (`totalSize`) equals the payload bytes
  still waiting in the send queue, which the round did not touch; in particular, if the send queue is
  empty, `pending_count() = 0` and `send_buffer_size() = 0`.
(Packets still in the send queue are not covered: emitting them is the flush / credit loop's
business; each `emit` brings the system back to a state to which `C02_sys_deliverable` applies.) -/
theorem C02_sys_quiescent (w k b a m : Nat) (hwk : w ≤ 2^k) (hw : w ≤ 2^16) (hk : k ≤ 19) (hb : b < 2^20)
    (ham : allocCeil a ≤ allocCeil m) (ops : List SOp) (s : Sys)
    (h : runS (initS w (2^k) b a m) ops = .ok s) :
    ∃ s' s'', runS s (redeliverAll s) = .ok s' ∧
      (∃ rb, s'.seen[s'.seen.length - 1]? = some (s.hist.emitted.length, rb)) ∧
      AckFresh s' s.hist.emitted.length ∧
      stepS s' (.ack (s'.seen.length - 1)) = .ok s'' ∧
      runS s (redeliverAll s ++ [SOp.ack s.seen.length]) = .ok s'' ∧
      s''.snd.win = [] ∧ s''.snd.baseId = s''.snd.nextId ∧ s''.snd.alloc = 0 ∧
      s''.snd.queue = s.snd.queue ∧ s''.snd.totalSize = queuedBytes s ∧
      (s.snd.queue = [] → s''.snd.pendingCount = 0 ∧ s''.snd.totalSize = 0) ∧
      s''.hist = s.hist ∧ s''.rcv = s'.rcv := by
  obtain ⟨s', hr, g1, g2, g3, g4, g5, -, -⟩ := C02_sys_deliverable w k b a m hwk hw hk hb ham ops s h
  have hfull : runS (initS w (2^k) b a m) (ops ++ redeliverAll s) = .ok s' := by
    rw [runS_append _ _ _ s h]; exact hr
  have hs' := C01_sys_reach w k b a m (by omega) hk hb _ s' hfull
  obtain ⟨⟨sops, hso⟩, -⟩ := C01_sys_projects w k b a m _ s' hfull
  have hacc : PSend.Inv s'.snd := by
    have hst := runH_state (PSend.init w b a) {} sops
    rw [hso] at hst
    exact Uflow.Props.C20.C20_inv w b a sops s'.snd hst.symm
  have hlen : s'.seen.length - 1 = s.seen.length := by rw [g4]; simp
  have hk' : s'.seen[s'.seen.length - 1]? = some (s.hist.emitted.length, s'.rcv.st.baseId) := by
    rw [hlen, g4, List.getElem?_append_right (Nat.le_refl _), Nat.sub_self, g5]
    rfl
  have hk'' : s'.seen[s'.seen.length - 1]? = some (s'.hist.emitted.length, s'.rcv.st.baseId) := by
    rw [g2]; exact hk'
  obtain ⟨hfresh, s'', hst, a1, a2, a3, a4, a5, a6, a7, -⟩ := ack_newest hw hs' hacc _ _ hk''
  rw [g2] at hfresh
  refine ⟨s', s'', hr, ⟨_, hk'⟩, hfresh, hst, ?_, a1, ?_, a3, by rw [a2, g1], ?_, ?_, by rw [a6, g2], a7⟩
  · rw [runS_append _ _ s s' hr, runS, ← hlen, hst, bindR_ok, runS]
  · rw [a5]
    -- `acknowledge` leaves `next_id` alone
    have hn := hs'.snd.hinv.nid
    have hs'' := sinv_step (wOk_pow k hk) (by omega : w < 2^20) hs' _ hst
    have hn'' := hs''.snd.hinv.nid
    rw [hn, hn'', a6]
  · rw [a4, g1]; rfl
  · intro hq
    have hq'' : s''.snd.queue = [] := by rw [a2, g1]; exact hq
    refine ⟨by show s''.snd.queue.length = 0; rw [hq'']; rfl, ?_⟩
    rw [a4, g1, hq]; rfl

/-! ## Witnesses for the hypotheses -/

/-- `allocCeil a ≤ allocCeil m` is needed (cf. `C02_sys_refused_witness`): sender limit 100000,
receiver limit 1000. A Reliable packet of 1500 bytes is emitted and nothing arrives; the redelivery
round hands both fragments over, `try_add` refuses the packet, and `receive` takes it out of the
window without delivering it (`data = none`). -/
theorem C02_sys_deliverable_needs_alloc_witness :
    (match runS (initS 2 (2^1) 0 100000 1000) [.enq (List.replicate 1500 7) 0 .reliable 0, .emit 0] with
     | .ok s =>
       (match runS s (redeliverAll s) with
        | .ok s' => decide (s'.rcv.adv = 1 ∧ (s'.rcv.log.map fun e => (e.uid, e.data)) = [(0, none)] ∧
            (s.hist.emitted.map fun x => (x.mode, x.data.length)) = [(.reliable, 1500)])
        | .error _ => false)
     | .error _ => false) = true := by decide +kernel

/-- `w ≤ 2^k` is needed for ONE round to suffice: send window 4, receive window 2. Three Reliable
packets are emitted and nothing arrives. In the round the third packet lies outside the receive
window and is dropped; after the round the base has passed two of three packets (a second round,
after the window has moved, delivers the third). -/
theorem C02_sys_deliverable_needs_window_witness :
    (match runS (initS 4 (2^1) 0 100000 100000)
        [.enq [1] 0 .reliable 0, .enq [2] 0 .reliable 0, .enq [3] 0 .reliable 0, .emit 0, .emit 0, .emit 0] with
     | .ok s =>
       (match runS s (redeliverAll s) with
        | .ok s' =>
          (match runS s' (redeliverAll s') with
           | .ok s'' => decide (s.hist.emitted.length = 3 ∧ s'.rcv.adv = 2 ∧
               (s'.rcv.log.map fun e => (e.uid, e.data)) = [(0, some [1]), (1, some [2])] ∧
               s''.rcv.adv = 3 ∧
               (s''.rcv.log.map fun e => (e.uid, e.data)) = [(0, some [1]), (1, some [2]), (2, some [3])])
           | .error _ => false)
        | .error _ => false)
     | .error _ => false) = true := by decide +kernel

/-! ## Non-vacuity -/

/-- A lossy prefix with send window 2 = receive window `2^1`, initial id `2^20 - 1` (the ids wrap
after one packet): Reliable `A = [1, 1]` (channel 0), Reliable `B` of 1500 bytes (two fragments,
channel 1), Unreliable `C = [3]` (channel 0). `A` and `B` are emitted; the second fragment of `B`
arrives first, then `A`; `receive` delivers `A`, its acknowledgement lets `C` be emitted; the second
fragment of `B` arrives again and `C` arrives — the first fragment of `B` is lost every time, and no
`receive` follows. -/
def liveOps : List SOp :=
  [ .enq [1, 1] 0 .reliable 0, .enq (List.replicate 1500 7) 1 .reliable 0, .enq [3] 0 .unreliable 0,
    .emit 0, .emit 0, .emit 0, .deliver 2, .deliver 0, .recv, .ack 1, .emit 0, .deliver 2, .deliver 3 ]

/-- The prefix ends in a state where `B` is stuck half assembled and `C` waits in the window: one
packet delivered, two in the send window, four datagrams in the network. -/
theorem C02_live_example_state :
    (match runS (initS 2 (2^1) (2^20 - 1) 100000 100000) liveOps with
     | .ok s => decide (s.rcv.adv = 1 ∧ (s.rcv.log.map fun e => (e.uid, e.data)) = [(0, some [1, 1])] ∧
         s.snd.win.length = 2 ∧ (s.hist.emitted.map fun x => (x.mode, x.data.length)) =
           [(.reliable, 2), (.reliable, 1500), (.unreliable, 1)] ∧
         (s.net.map fun x => (x.1, x.2.fragmentId)) = [(0, 0), (1, 0), (1, 1), (2, 0)] ∧
         s.seen = [(0, 2^20 - 1), (1, 0)] ∧ s.snd.alloc = 2897 ∧ s.snd.totalSize = 1501)
     | .error _ => false) = true := by decide +kernel

/-- The hypotheses of `C02_sys_deliverable` / `C02_sys_quiescent` hold for that run. -/
example : ∃ s, runS (initS 2 (2^1) (2^20 - 1) 100000 100000) liveOps = .ok s ∧ (2 : Nat) ≤ 2^1 ∧
    (2 : Nat) ≤ 2^16 ∧ (1 : Nat) ≤ 19 ∧ 2^20 - 1 < 2^20 ∧ allocCeil 100000 ≤ allocCeil 100000 := by
  have h := C02_live_example_state
  cases hr : runS (initS 2 (2^1) (2^20 - 1) 100000 100000) liveOps with
  | error t => rw [hr] at h; cases h
  | ok s => exact ⟨s, rfl, by decide, by decide, by decide, by decide, Nat.le_refl _⟩

/-- The conclusions of the two theorems, computed on that state: the round delivers `B` (reassembled
byte-exact, the duplicate fragment ignored) and `C`, the base passes all three packets (across the id
wrap), and the acknowledgement of the new base `(3, 2)` empties the send window and zeroes the
counters. -/
theorem C02_live_example_round :
    (match runS (initS 2 (2^1) (2^20 - 1) 100000 100000) liveOps with
     | .ok s =>
       (match runS s (redeliverAll s) with
        | .ok s' =>
          (match stepS s' (.ack (s'.seen.length - 1)) with
           | .ok s'' =>
             decide (s'.rcv.adv = 3 ∧ s'.rcv.adv = s.hist.emitted.length ∧
               (s'.rcv.log.map fun e => (e.uid, e.data)) =
                 [(0, some [1, 1]), (1, some (List.replicate 1500 7)), (2, some [3])] ∧
               s'.seen = [(0, 2^20 - 1), (1, 0), (3, 2)] ∧ AckFresh s' 3 ∧
               s''.snd.win = [] ∧ s''.snd.alloc = 0 ∧ s''.snd.totalSize = 0 ∧ s''.snd.pendingCount = 0 ∧
               s''.snd.baseId = 2 ∧ s''.snd.nextId = 2)
           | .error _ => false)
        | .error _ => false)
     | .error _ => false) = true := by decide +kernel

/-- The exception in the last clause of `C02_sys_deliverable` occurs: Reliable `R` (channel 1),
Unreliable `U1`, `U2` (channel 0), window 4. Only `U2` arrives and is delivered (its channel has no
Reliable parent); the window cannot move (`R` is missing). In the round `R` is delivered and `U1` is
dropped as behind its channel's base id — a later packet of its channel was delivered before the
round; the base passes all three. -/
theorem C02_live_example_skipped :
    (match runS (initS 4 (2^2) 0 100000 100000)
        [.enq [1] 1 .reliable 0, .enq [2] 0 .unreliable 0, .enq [3] 0 .unreliable 0, .emit 0, .emit 0, .emit 0,
         .deliver 2, .recv] with
     | .ok s =>
       (match runS s (redeliverAll s) with
        | .ok s' => decide (s.rcv.adv = 0 ∧ (s.rcv.log.map fun e => (e.uid, e.chan, e.data)) = [(2, 0, some [3])] ∧
            s'.rcv.adv = 3 ∧
            (s'.rcv.log.map fun e => (e.uid, e.chan, e.data)) = [(2, 0, some [3]), (0, 1, some [1])] ∧
            (s.hist.emitted.map fun x => (x.mode, x.channelId)) =
              [(.reliable, 1), (.unreliable, 0), (.unreliable, 0)])
        | .error _ => false)
     | .error _ => false) = true := by decide +kernel

end Uflow.Props.C02
