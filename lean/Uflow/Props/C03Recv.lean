import Uflow.Props.C06

/-!
# C03 (receiver part) — no datagram sequence, `receive` or `resynchronize` call can crash or hang
the packet receiver

Model: `Uflow.PRecv`. `R α = Except Trap α`; every Rust panic (unwrap, index, arithmetic overflow)
and every loop that cannot terminate (`Trap.hang`) is an `.error`. The receiver is driven by an
arbitrary list of `PRecv.Op`: datagrams with ANY field values (validity is checked by
`datagramIsValid` itself), `recv`, and `resync id` with ANY `id`.
-/

namespace Uflow.Props.C03

open Uflow Uflow.PRecv

/-- C03 for the packet receiver: a hostile run never traps. -/
theorem C03_precv_notrap (W b m : Nat) (hW : 0 < W) (hb : b < 2^20) (ops : List Op) :
    ∃ s', run (init W b m) ops = .ok s' := by
  obtain ⟨s', h, -⟩ := run_init_inv W b m hW hb ops
  exact ⟨s', h⟩

/-- The same, one trap kind at a time (no unwrap / index / overflow / assert / panic / hang). -/
theorem C03_precv_no_trap_kind (W b m : Nat) (hW : 0 < W) (hb : b < 2^20) (ops : List Op) (t : Trap) :
    run (init W b m) ops ≠ .error t := by
  obtain ⟨s', h⟩ := C03_precv_notrap W b m hW hb ops
  rw [h]
  intro hc
  cases hc

/-- Layered form: every operation, from every state satisfying the receiver invariant
(`PRecv.Inv`: distinct slot keys `< W`, per-slot consistency, `alloc` = sum of entry allocations
`≤ maxAlloc`, per-channel `count` = number of flagged slots of the channel, 64 channels, ids
`< 2^20`), returns `.ok` and re-establishes the invariant. -/
theorem C03_precv_step (W M : Nat) (s : State) (hinv : Inv W M s) (op : Op) :
    ∃ s', stepOp s op = .ok s' ∧ Inv W M s' :=
  stepOp_inv hinv op

/-- Each of the three entry points separately. -/
theorem C03_precv_handleDatagram (W M : Nat) (s : State) (hinv : Inv W M s) (d : Codec.Datagram) :
    ∃ s', handleDatagram s d = .ok s' ∧ Inv W M s' :=
  handleDatagram_inv hinv d

theorem C03_precv_receive (W M : Nat) (s : State) (hinv : Inv W M s) :
    ∃ s' out, receive s = .ok (s', out) ∧ Inv W M s' :=
  receive_inv hinv

theorem C03_precv_resynchronize (W M : Nat) (s : State) (hinv : Inv W M s) (id : Nat) :
    ∃ s', resynchronize s id = .ok s' ∧ Inv W M s' :=
  resynchronize_inv hinv id

/-- Non-vacuity: the invariant holds initially … -/
example : Inv 8 (allocCeil 6000) (init 8 C06.exBase 6000) := inv_init 8 _ 6000 (by decide) (by decide)

/-- … and in a non-trivial reachable state (the one of the first example of `Props/C06.lean`, which
holds a completed 3-fragment packet, a closed over-limit entry and three more packets). -/
example : ∃ s', run (init 8 C06.exBase 6000) (C06.exScript.take 9) = .ok s' ∧
    Inv 8 (allocCeil 6000) s' :=
  run_init_inv 8 _ 6000 (by decide) (by decide) _

/-- … and the concrete hostile script of `Props/C06.lean` (3-fragment packet, duplicate, over-limit
claim `fragmentIdLast = 65535`, cross-channel-parent packet, invalid channel, `recv`, `resync` with
an id `≥ 2^20` and one in range) indeed runs to `.ok`, by evaluation. -/
example : (match run (init 8 C06.exBase 6000) C06.exScript with
    | .ok s' => decide (s'.baseId = 4 ∧ s'.endId = 5)
    | .error _ => false) = true := by decide +kernel

/-- Every prefix of the script runs to `.ok` as well. -/
example : ((List.range 14).all fun k =>
    match run (init 8 C06.exBase 6000) (C06.exScript.take k) with
    | .ok _ => true
    | .error _ => false) = true := by decide +kernel

end Uflow.Props.C03
