import Uflow.Lemmas.EpCeilRun
import Uflow.Lemmas.EpCeilTxHc
import Uflow.Lemmas.EpCeilEx
import Uflow.Props.C13Bound

/-!
# C13 (endpoints) — the negotiated ceiling, end to end

`Props/C13Bound.lean` bounds the bytes a half connection created by `HalfConn.init ops cfg now rng`
emits by `cfg.txBandwidthLimit × (Δt + RTT) + one frame`. This file connects `cfg.txBandwidthLimit` to
the handshake of the endpoints (`src/server/mod.rs`, `handle_handshake_syn` / `handle_handshake_ack`:
`tx_bandwidth_limit: (max_send_rate as u32).min(remote max_receive_rate)`; `src/client/mod.rs`,
`handle_handshake_syn_ack`: the same with the SYN-ACK's field).

Model: `Uflow.Endpoint` over the half-connection model `hcOf ops` (`= Driver.hcInst` for
`ops = floatOps`, `Props/C03EpInst.lean`). `runS` / `Client.run`, `SOp` / `COp`, `sopsOk` / `copsOk` are
those of `Props/C03Ep.lean` (step times non-decreasing, `send` within its assertions; arrivals are
ARBITRARY datagrams). `% 2^32` is the truncating cast `max_send_rate as u32`; `u32 x = min x (2^32−1)`
is `.min(u32::MAX as usize) as u32`.

Vocabulary (`Uflow.EpCeil`, `Uflow/Lemmas/EpCeil*.lean`):

* `sopsArrivals sops` / `copsArrivals cops`: all datagrams handed to the endpoint by the `step`s of the
  run, in order. `SynFrom rx a n r al`: some `(a, bytes) ∈ rx` parses (after truncation to the
  1472-byte receive buffer) to a SYN with nonce `n`, `max_receive_rate = r`, `max_receive_alloc = al`.
  `SynAckIn rx _ n r al`: some `bytes ∈ rx` parses to a SYN-ACK with server nonce `n`, rate `r`,
  alloc `al`.
* `GEv`: what an endpoint does to one half connection — a `Credit.Ev` event (`step`, `flush`, `send`,
  `receive`, a data / ack / sync frame) or `rng r`: the endpoints pass THEIR generator to every
  `flush` (`hcOf.flush h rng = HalfConn.flush { h with rng := rng }`), so a flush is the two events
  `rng r, ev flush`. `grun ops s gevs = .ok (s', out, c)`: final state, frames handed to the frame
  sink, credit granted (`Credit.run` with generator replacements). `erase gevs`: the `Credit.Ev`s.
* `Proj ops ep h ln n r al t0 gevs out c`: `ln < 2^32`,
  `grun ops (HalfConn.init ops (hcConfig ep ln n r al) t0 rng0) gevs = .ok (h, out, c)`,
  `evsOk t0 (erase gevs)` (C03's side condition: step times non-decreasing from `t0`, sends within the
  assertions) and `lastNow h = endTime t0 (erase gevs)`. `rng0 = ⟨[], 0⟩` is the generator
  `hcOf.new` starts with.
* `sentTo a k tx = (tx.drop k).filter (·.1 = a)`: the datagrams of the log `tx` from position `k` on
  that are addressed to `a`; `toAddr a out = out.map (a, ·)`.

The invariant behind everything (`SInvA` / `CInvA` with `InvC`, `Lemmas/EpCeilSrv.lean`,
`EpCeilCli.lean`, `EpCeilHc.lean`): the endpoint configuration never changes; every pending entry of
the server for address `a` stores the nonce / rate / alloc of a SYN received from `a`; every ACTIVE
half connection for address `a` is a `Proj` for such a SYN (for the client: for a received SYN-ACK).
It is threaded through every phase of `Server::step` / `Client::step` and every API call.

For the SERVER the projection is tied to the wire (`C13_ep_connection_projects`): the frames `out`
of the projection are EXACTLY the datagrams the run sent to the connection's address from a position
`k` of the `sent` log on (in the proof `k` is the length of the log when `handle_handshake_ack` created
the half connection). This uses a second, log-indexed invariant
(`CoreT` with `InvT`, `Lemmas/EpCeilTx*.lean`) whose threading shows, from the address uniqueness of
`Server.WF`, that the server sends nothing else to the address of an active connection (a SYN from it is
ignored, timers concern pending / closing objects, the `disconnect` / `disconnect-ack` that end the
connection leave the `Active` state).

**Partial items** (suffix `_partial`): `C13_ep_client_projects_partial`,
`C13_ep_client_wire_bound_partial`. Proved: the client's half connection IS the result of an event
list `gevs` run from `HalfConn.init` of the negotiated configuration, `out` being the frames returned
by its `flush` events (which `Client::step` / `Client::flush` hand to the socket), and `out` obeys the
numeric bound over every stretch. Not proved: the relation between `out` and the client's `sent` log.
The identity that holds for the server is FALSE for the client (`C13_ep_client_hsack_witness`): an
`Active` client answers every SYN-ACK carrying its nonce with a 9-byte handshake ACK
(`C07_client_dup_synAck_resends_ack`), outside the half connection and hence outside the rate limiter;
so the log after activation is an interleaving of `out` with one handshake ACK per such SYN-ACK
received. Missing link: a log-indexed `CInvA` stating exactly that interleaving.
-/

namespace Uflow.Props.C13

open Uflow Uflow.Gen Uflow.Codec Uflow.HalfConn Uflow.Endpoint Uflow.EpNoTrap Uflow.EpCeil Uflow.Credit
open Uflow.CreditBound Uflow.CreditEx
open Uflow.Rate (FloatOps BisectConverges)
open Uflow.HcInv (lastNow evsOk LossOk)

variable {F : Type}

/-! ## 1. The ceiling of every connection of a server -/

/-- **Server.** In every run of a `Server` from `Server::bind` (`sopsOk`: clock monotone, `send`s
within their assertions; arbitrary datagrams from arbitrary addresses), which cannot trap (C03), every
connection object in `Active` state — with half connection `h`, for peer address `c.address` — has

`h.rate.maxSendRate = min (cfg.ep.maxSendRate % 2^32) r`

where `r` is the `max_receive_rate` field of a SYN (nonce `n`, alloc `al`) that was really delivered
from THAT address during the run (`SynFrom`): the value `handle_handshake_syn` stored in the pending
entry and `handle_handshake_ack` passed to `HalfConnection::new`. Moreover (C14 along the run), if
this ceiling is at least one frame per second, `send_rate ≤ max_send_rate`. -/
theorem C13_ep_server_ceiling (ops : FloatOps F) (hconv : BisectConverges ops) (hloss : LossOk ops)
    (cfg : SrvConfig) (now : Nat) (rng : Rng) (sops : List SOp) (hops : sopsOk 0 sops = true) :
    ∃ s' sent evs, runS (hcOf ops) (Server.init cfg now rng) sops = .ok (s', sent, evs) ∧
      ∀ c ∈ s'.clients ++ s'.detached, ∀ h t sig, c.state = .active h t sig →
        ∃ n r al, SynFrom (sopsArrivals sops) c.address n r al ∧
          h.rate.maxSendRate = min (cfg.ep.maxSendRate % 2^32) r ∧
          (MSS ≤ min (cfg.ep.maxSendRate % 2^32) r → h.rate.sendRate ≤ h.rate.maxSendRate) := by
  obtain ⟨s', sent, evs, hr, hi⟩ := srv_run_invC ops hconv hloss cfg now rng sops hops
  refine ⟨s', sent, evs, hr, ?_⟩
  intro c hc h t sig hst
  obtain ⟨ln, n, r, al, t0, gevs, out, cr, hp, p⟩ := hi.active hc hst
  exact ⟨n, r, al, hp, p.ceiling.1, p.ceiling.2⟩

/-! ## 2. The ceiling of a client -/

/-- **Client.** In every run of a `Client` from `Client::connect ep` (`copsOk`; arbitrary datagrams),
if the client is `Active` with half connection `h`, then
`h.rate.maxSendRate = min (ep.maxSendRate % 2^32) r` where `r` is the `max_receive_rate` field of a
SYN-ACK that was really delivered during the run (`SynAckIn`), and `send_rate ≤ max_send_rate` if that
ceiling is at least one frame per second. -/
theorem C13_ep_client_ceiling (ops : FloatOps F) (hconv : BisectConverges ops) (hloss : LossOk ops)
    (ep : EpConfig) (now : Nat) (rng : Rng) (cops : List COp) (hops : copsOk 0 cops = true) :
    ∃ c' sent evs, Client.run (hcOf ops) (Client.connect ep now rng).1 cops = .ok (c', sent, evs) ∧
      ∀ ln0 h t sig, c'.state = .active ln0 h t sig →
        ∃ n r al, SynAckIn (copsArrivals cops) 0 n r al ∧
          h.rate.maxSendRate = min (ep.maxSendRate % 2^32) r ∧
          (MSS ≤ min (ep.maxSendRate % 2^32) r → h.rate.sendRate ≤ h.rate.maxSendRate) := by
  obtain ⟨c', sent, evs, hr, hi⟩ := cli_run_invC ops hconv hloss ep now rng cops hops
  refine ⟨c', sent, evs, hr, ?_⟩
  intro ln0 h t sig hst
  obtain ⟨ln, n, r, al, t0, gevs, out, cr, hp, p⟩ := hi.active hst
  exact ⟨n, r, al, hp, p.ceiling.1, p.ceiling.2⟩

/-! ## 3. What the endpoints advertise -/

/-- **Advertised `max_receive_rate`.** For any half-connection implementation `hc`:

1. `Client::connect ep` sends exactly one datagram, `synOf ep nonce` (`nonce` a `u32`), which the peer
   parses to a SYN whose `max_receive_rate` field is `u32 ep.maxReceiveRate`;
2. after any run, a client that is still `Pending` stores exactly that datagram as its request, and the
   only datagrams its handshake timer (`handle_events`) sends are that request: every resend is the
   same SYN;
3. in every well-formed server state (`Server.WF` holds in every reachable state, C07), the SYN-ACK
   stored in a pending entry — sent by `handle_handshake_syn`, resent by `handle_event` — parses to a
   SYN-ACK whose `max_receive_rate` field is `u32 s.cfg.ep.maxReceiveRate`;
4. so does the SYN-ACK `s.synAckBytes nonce` that `handle_handshake_syn` builds for an accepted SYN. -/
theorem C13_ep_advertised {H : Type} (hc : HC H) :
    (∀ (ep : EpConfig) (now : Nat) (rng : Rng),
      (Client.connect ep now rng : Client H × List (List Nat)).2 = [synOf ep (connectNonce rng)] ∧
      decode ((synOf ep (connectNonce rng)).take MAX_FRAME_SIZE) =
        some (.syn PROTOCOL_VERSION (connectNonce rng) (u32 ep.maxReceiveRate) (u32 ep.maxPacketSize)
          (u32 ep.maxReceiveAlloc))) ∧
    (∀ (ep : EpConfig) (now : Nat) (rng : Rng) (cops : List COp) (c' : Client H) (sent : List (List Nat))
      (evs : List CEvent), Client.run hc (Client.connect ep now rng).1 cops = .ok (c', sent, evs) →
      ∀ ln req rt rc sends, c'.state = .pending ln req rt rc sends →
        req = synOf ep (connectNonce rng) ∧ ∀ nowMs, ∀ x ∈ (c'.handleEvents nowMs).2, x = synOf ep (connectNonce rng)) ∧
    (∀ (s : Server H), s.WF → ∀ c ∈ s.clients, ∀ ln rn r al reply, c.state = .pending ln rn r al reply →
      decode (reply.take MAX_FRAME_SIZE) =
        some (.synAck (rn % 2^32) ln (u32 s.cfg.ep.maxReceiveRate) (u32 s.cfg.ep.maxPacketSize)
          (u32 s.cfg.ep.maxReceiveAlloc))) ∧
    (∀ (s : Server H) (nonce : Nat),
      decode ((s.synAckBytes nonce).take MAX_FRAME_SIZE) =
        some (.synAck (nonce % 2^32) s.drawNonce (u32 s.cfg.ep.maxReceiveRate) (u32 s.cfg.ep.maxPacketSize)
          (u32 s.cfg.ep.maxReceiveAlloc))) := by
  refine ⟨fun ep now rng => ⟨(connect_emits ep now rng).1, decode_synOf ep _ (Nat.mod_lt _ (by decide))⟩,
    ?_, fun s hw c hc ln rn r al reply hst => reply_decodes hw hc hst, fun s nonce => synAckBytes_decodes s nonce⟩
  intro ep now rng cops c' sent evs hr ln req rt rc sends hst
  have hp : c'.state.pendingWith ln req := ⟨rt, rc, sends, hst⟩
  obtain ⟨_, hreq⟩ := run_request hc ep now rng cops c' sent evs hr ln req hp
  refine ⟨hreq, fun nowMs x hx => ?_⟩
  rw [← hreq]
  exact resend_is_request c' nowMs ln req hp x hx

/-- The SYN-ACK of an accepted SYN: `handle_handshake_syn`, for a SYN it accepts (address without an
entry, right version, server not full, configuration acceptable), sends `s.synAckBytes n` to the
address and creates a pending entry that stores the SYN's nonce, `max_receive_rate` `r` and
`max_receive_alloc` together with those bytes. -/
theorem C13_ep_syn_accepted {H : Type} (s : Server H) (addr n r p a nowMs : Nat) (hf : s.find addr = none)
    (hfull : ¬ s.full) (h1 : ¬ a < s.cfg.ep.maxPacketSize) (h2 : ¬ p > s.cfg.ep.maxReceiveAlloc) :
    s.handleSyn addr PROTOCOL_VERSION n r p a nowMs = (s.accept addr n r a nowMs, [(addr, s.synAckBytes n)]) ∧
    (s.accept addr n r a nowMs).clients = s.clients ++ [s.newEntry addr n r a] ∧
    (s.newEntry addr n r a).address = addr ∧
    (s.newEntry addr n r a).state = .pending s.drawNonce n r a (s.synAckBytes n) :=
  ⟨(handleSyn_accept_emits hf n r p a nowMs hfull h1 h2).1, rfl, rfl, rfl⟩

/-! ## 4. An honest pair -/

/-- **The negotiated ceilings of an honest pair.** A server run ends with an `Active` connection
object `c` (half connection `h`); a client run from `Client::connect epC` ends `Active` (half
connection `hK`). Suppose

* every datagram from `c.address` among the server's arrivals that parses to a SYN is the SYN this
  client built (`synOf epC (connectNonce rngC)`, cf. `C13_ep_advertised` 1–2), and
* every datagram among the client's arrivals that parses to a SYN-ACK was built by a server with
  configuration `cfg` (`sS.synAckBytes nonce` for some server state `sS`, cf. `C13_ep_advertised` 3–4).

Then the server→client ceiling is `min (cfg.ep.maxSendRate % 2^32) (u32 epC.maxReceiveRate)` and the
client→server ceiling is `min (epC.maxSendRate % 2^32) (u32 cfg.ep.maxReceiveRate)`: each direction is
limited by `min(local max_send_rate, peer max_receive_rate)`. -/
theorem C13_ep_negotiated (ops : FloatOps F) (hconv : BisectConverges ops) (hloss : LossOk ops)
    (cfg : SrvConfig) (nowS : Nat) (rngS : Rng) (sops : List SOp) (hsops : sopsOk 0 sops = true)
    (epC : EpConfig) (nowC : Nat) (rngC : Rng) (cops : List COp) (hcops : copsOk 0 cops = true)
    (s' : Server (State F)) (sentS : List (Nat × List Nat)) (evsS : List SEvent)
    (hrS : runS (hcOf ops) (Server.init cfg nowS rngS) sops = .ok (s', sentS, evsS))
    (c' : Client (State F)) (sentC : List (List Nat)) (evsC : List CEvent)
    (hrC : Client.run (hcOf ops) (Client.connect epC nowC rngC).1 cops = .ok (c', sentC, evsC))
    (c : RClient (State F)) (hc : c ∈ s'.clients ++ s'.detached) (h : State F) (t : Nat)
    (sig : Option DisconnectMode) (hst : c.state = .active h t sig)
    (ln0 : Nat) (hK : State F) (tK : Nat) (sigK : Option DisconnectMode) (hstK : c'.state = .active ln0 hK tK sigK)
    (honestS : ∀ bytes, (c.address, bytes) ∈ sopsArrivals sops → ∀ v n r p al,
      decode (bytes.take MAX_FRAME_SIZE) = some (.syn v n r p al) → bytes = synOf epC (connectNonce rngC))
    (honestC : ∀ bytes ∈ copsArrivals cops, ∀ na n r p al,
      decode (bytes.take MAX_FRAME_SIZE) = some (.synAck na n r p al) →
      ∃ (sS : Server (State F)) (nonce : Nat), sS.cfg = cfg ∧ bytes = sS.synAckBytes nonce) :
    h.rate.maxSendRate = min (cfg.ep.maxSendRate % 2^32) (u32 epC.maxReceiveRate) ∧
    hK.rate.maxSendRate = min (epC.maxSendRate % 2^32) (u32 cfg.ep.maxReceiveRate) := by
  obtain ⟨s2, sent2, evs2, hr2, hS⟩ := C13_ep_server_ceiling ops hconv hloss cfg nowS rngS sops hsops
  rw [hrS] at hr2
  simp only [Except.ok.injEq, Prod.mk.injEq] at hr2
  obtain ⟨rfl, _, _⟩ := hr2
  obtain ⟨c2, sentc2, evsc2, hrc2, hC⟩ := C13_ep_client_ceiling ops hconv hloss epC nowC rngC cops hcops
  rw [hrC] at hrc2
  simp only [Except.ok.injEq, Prod.mk.injEq] at hrc2
  obtain ⟨rfl, _, _⟩ := hrc2
  obtain ⟨n, r, al, ⟨bytes, v, p, hmem, hdec⟩, hmax, _⟩ := hS c hc h t sig hst
  obtain ⟨nK, rK, alK, ⟨bytesK, naK, pK, hmemK, hdecK⟩, hmaxK, _⟩ := hC ln0 hK tK sigK hstK
  constructor
  · have hb := honestS bytes hmem v n r p al hdec
    have hn : connectNonce rngC < 2^32 := Nat.mod_lt _ (by decide)
    rw [hb, decode_synOf epC (connectNonce rngC) hn] at hdec
    simp only [Option.some.injEq, Frame.syn.injEq] at hdec
    rw [hmax, ← hdec.2.2.1]
  · obtain ⟨sS, nonce, hcfg, hb⟩ := honestC bytesK hmemK naK nK rK pK alK hdecK
    rw [hb, synAckBytes_decodes sS nonce] at hdecK
    simp only [Option.some.injEq, Frame.synAck.injEq] at hdecK
    rw [hmaxK, ← hdecK.2.2.1, hcfg]

/-! ## 5. The connection's half connection as an event list, and the numeric bound -/

/-- **Projection of a server run onto one connection.** In every server run, the half connection `h`
of every `Active` connection object is the result of an event list: there are a local nonce `ln`, a
SYN `(n, r, al)` really delivered from `c.address`, a creation time `t0` and events `gevs` (frames
dispatched to the connection, `step`, `flush` with the server's generator, `receive`, `send`) with

`grun ops (HalfConn.init ops (hcConfig cfg.ep ln n r al) t0 rng0) gevs = .ok (h, out, cr)`,

the events satisfying C03's side conditions; and there is a position `k` of the log `sent` of all
datagrams the run sent such that the datagrams sent to `c.address` from `k` on are exactly the frames
`out`, in order: `(sent.drop k).filter (·.1 = c.address) = out.map (c.address, ·)`. So
`C13_ep_gwire_bound` applies verbatim to what the server puts on the wire for this connection. -/
theorem C13_ep_connection_projects (ops : FloatOps F) (hconv : BisectConverges ops)
    (hloss : LossOk ops) (cfg : SrvConfig) (now : Nat) (rng : Rng) (sops : List SOp)
    (hops : sopsOk 0 sops = true) :
    ∃ s' sent evs, runS (hcOf ops) (Server.init cfg now rng) sops = .ok (s', sent, evs) ∧
      ∀ c ∈ s'.clients ++ s'.detached, ∀ h t sig, c.state = .active h t sig →
        ∃ ln n r al t0 gevs out cr k, SynFrom (sopsArrivals sops) c.address n r al ∧
          Proj ops cfg.ep h ln n r al t0 gevs out cr ∧
          k ≤ sent.length ∧ sentTo c.address k sent = toAddr c.address out := by
  obtain ⟨s', sent, evs, hr, _, hi⟩ := srv_run_invT ops hconv hloss cfg now rng sops hops
  exact ⟨s', sent, evs, hr, fun c hc h t sig hst => hi.active hc hst⟩

/-- The same for a client run (the events include the `send`s queued while the client was pending,
replayed right after creation). PARTIAL: nothing is said about the client's `sent` log (see the header). -/
theorem C13_ep_client_projects_partial (ops : FloatOps F) (hconv : BisectConverges ops) (hloss : LossOk ops)
    (ep : EpConfig) (now : Nat) (rng : Rng) (cops : List COp) (hops : copsOk 0 cops = true) :
    ∃ c' sent evs, Client.run (hcOf ops) (Client.connect ep now rng).1 cops = .ok (c', sent, evs) ∧
      ∀ ln0 h t sig, c'.state = .active ln0 h t sig →
        ∃ ln n r al t0 gevs out cr, SynAckIn (copsArrivals cops) 0 n r al ∧
          Proj ops ep h ln n r al t0 gevs out cr := by
  obtain ⟨c', sent, evs, hr, hi⟩ := cli_run_invC ops hconv hloss ep now rng cops hops
  exact ⟨c', sent, evs, hr, fun ln0 h t sig hst => hi.active hst⟩

/-- **The numeric bound for the half connection of an endpoint** (`C13_wire_bound` with the
generator replacements of the endpoints). A half connection created at `t0` from the handshake values
`(ln, n, r, al)` by an endpoint with configuration `ep`, whose ceiling
`m = min (ep.maxSendRate % 2^32) r` is at least one frame per second, executes
`pre1 ++ step t1 :: pre2 ++ evs` (`pre2` without `step`; steps at most `K.maxDt` apart). Then the run
splits at states `p` (before `step t1`), `q`, `s`, and the frames `o3` handed to the frame sink during
`evs` satisfy

`bytes o3 · 10⁹ ≤ m × ((time of the last step in evs − t1) + RTT) + 1472.5·10⁹ + v(frac) + k·eps`

with `RTT = M.rttNs p.rate.rttS`, under `FillOk ops eps` / `FillMaxOk ops` (see `C13Bound.lean`). -/
theorem C13_ep_gwire_bound (ops : FloatOps F) {eps : Nat} (K : FillOk ops eps) (M : FillMaxOk ops)
    (ep : EpConfig) (ln n r al t0 : Nat) (hm : MSS ≤ min (ep.maxSendRate % 2^32) r)
    (hR : min (ep.maxSendRate % 2^32) r ≤ K.maxRate) (pre1 pre2 evs : List GEv) (t1 : Nat)
    (h : State F) (out : List (List Nat)) (c : Int)
    (hrun : grun ops (init ops (hcConfig ep ln n r al) t0 rng0) (pre1 ++ .ev (.step t1) :: pre2 ++ evs) =
      .ok (h, out, c))
    (hok : ∀ ev ∈ erase (pre1 ++ .ev (.step t1) :: pre2 ++ evs), ev.Ok)
    (ht : stepsOk K.maxDt t0 (erase (pre1 ++ .ev (.step t1) :: pre2 ++ evs)) = true)
    (hns : ∀ ev ∈ erase pre2, ∀ t, ev ≠ .step t) :
    ∃ (p q s : State F) (o1 o2 o3 : List (List Nat)) (c1 c2 c3 : Int),
      grun ops (init ops (hcConfig ep ln n r al) t0 rng0) pre1 = .ok (p, o1, c1) ∧ step ops p t1 = .ok q ∧
      grun ops q pre2 = .ok (s, o2, c2) ∧ grun ops s evs = .ok (h, o3, c3) ∧ out = o1 ++ o2 ++ o3 ∧
      bytes o3 * 1000000000 ≤
        min (ep.maxSendRate % 2^32) r * ((endTime t1 (erase evs) - t1) + M.rttNs p.rate.rttS) + 1472500000000 +
          K.v s.flushFrac + nSteps (erase evs) * eps ∧
      K.v s.flushFrac < 1000000000 :=
  gwire_init ops K M ep ln n r al t0 hm hR pre1 pre2 evs t1 h out c hrun hok ht hns

/-- The same from an ARBITRARY state `p` satisfying `BInv K m p` — which every active half connection
of an endpoint does, for `m` its negotiated ceiling (`C13_ep_binv`): `p --step t0--> q --pre2--> s
--gevs--> s'`. -/
theorem C13_ep_gwire_bound_from (ops : FloatOps F) {eps : Nat} (K : FillOk ops eps) (M : FillMaxOk ops) (m : Nat)
    (hmin : MINIMUM_RATE ≤ m) (hR : m ≤ K.maxRate) (pre2 gevs : List GEv) (t0 : Nat)
    (hok2 : ∀ ev ∈ erase pre2, ev.Ok) (hok3 : ∀ ev ∈ erase gevs, ev.Ok)
    (p q s s' : State F) (hip : BInv K m p)
    (ht0 : lastNow p ≤ t0 ∧ t0 - lastNow p ≤ K.maxDt)
    (ht3 : stepsOk K.maxDt t0 (erase gevs) = true)
    (hns : ∀ ev ∈ erase pre2, ∀ t, ev ≠ .step t)
    (o2 out : List (List Nat)) (c2 c : Int)
    (h2 : step ops p t0 = .ok q)
    (h3 : grun ops q pre2 = .ok (s, o2, c2))
    (h4 : grun ops s gevs = .ok (s', out, c)) :
    bytes out * 1000000000 ≤
      m * ((endTime t0 (erase gevs) - t0) + M.rttNs p.rate.rttS) + 1472500000000 +
        K.v s.flushFrac + nSteps (erase gevs) * eps ∧
    K.v s.flushFrac < 1000000000 ∧ BInv K m s' :=
  gwire_split ops K M m hmin hR pre2 gevs t0 hok2 hok3 p q s s' hip ht0 ht3 hns o2 out c2 c h2 h3 h4

/-- `BInv` (the invariant of `C13Bound.lean`: sender well-formed, `send_rate ≤ max_send_rate = m`,
carried fraction admissible) holds for a projected half connection whose ceiling is at least one frame
per second, if the `step`s of the projection were at most `K.maxDt` apart. -/
theorem C13_ep_binv (ops : FloatOps F) {eps : Nat} (K : FillOk ops eps) (ep : EpConfig) (h : State F)
    (ln n r al t0 : Nat) (gevs : List GEv) (out : List (List Nat)) (c : Int)
    (p : Proj ops ep h ln n r al t0 gevs out c) (hm : MSS ≤ min (ep.maxSendRate % 2^32) r)
    (hR : min (ep.maxSendRate % 2^32) r ≤ K.maxRate) (ht : stepsOk K.maxDt t0 (erase gevs) = true) :
    BInv K (min (ep.maxSendRate % 2^32) r) h :=
  p.binv K hm hR ht

/-- **The bound inside a server run** (composition of the projection with `C13_ep_gwire_bound`): for
every `Active` connection of a server run there are a SYN `(n, r, al)` delivered from its address, a
projection `gevs`, `out` and a log position `k` such that the datagrams sent to the connection's
address from `k` on are exactly `out`, and for EVERY way of writing `gevs` as
`pre1 ++ step t1 :: pre2 ++ evs` (`pre2` without `step`, steps at most `K.maxDt` apart) `out` is
`o1 ++ o2 ++ o3` and the LAST datagrams `o3` — those the server sent to that address during `evs` —
obey `bytes o3 ≤ ceiling × (Δt + RTT) + 1472.5 bytes + fraction + k·eps` with the ceiling
`min (cfg.ep.maxSendRate % 2^32) r`, provided that ceiling is at least one frame per second and inside
the domain of `K`. -/
theorem C13_ep_server_wire_bound (ops : FloatOps F) (hconv : BisectConverges ops) (hloss : LossOk ops)
    {eps : Nat} (K : FillOk ops eps) (M : FillMaxOk ops)
    (cfg : SrvConfig) (now : Nat) (rng : Rng) (sops : List SOp) (hops : sopsOk 0 sops = true) :
    ∃ s' sent evs, runS (hcOf ops) (Server.init cfg now rng) sops = .ok (s', sent, evs) ∧
      ∀ c ∈ s'.clients ++ s'.detached, ∀ h t sig, c.state = .active h t sig →
        ∃ ln n r al t0 gevs out cr k, SynFrom (sopsArrivals sops) c.address n r al ∧
          Proj ops cfg.ep h ln n r al t0 gevs out cr ∧
          k ≤ sent.length ∧ sentTo c.address k sent = toAddr c.address out ∧
          (MSS ≤ min (cfg.ep.maxSendRate % 2^32) r → min (cfg.ep.maxSendRate % 2^32) r ≤ K.maxRate →
            stepsOk K.maxDt t0 (erase gevs) = true →
            ∀ pre1 pre2 evs t1, gevs = pre1 ++ .ev (.step t1) :: pre2 ++ evs →
              (∀ ev ∈ erase pre2, ∀ t, ev ≠ .step t) →
              ∃ (p q s : State F) (o1 o2 o3 : List (List Nat)) (c1 c2 c3 : Int),
                grun ops (init ops (hcConfig cfg.ep ln n r al) t0 rng0) pre1 = .ok (p, o1, c1) ∧
                step ops p t1 = .ok q ∧ grun ops q pre2 = .ok (s, o2, c2) ∧
                grun ops s evs = .ok (h, o3, c3) ∧ out = o1 ++ o2 ++ o3 ∧
                bytes o3 * 1000000000 ≤
                  min (cfg.ep.maxSendRate % 2^32) r * ((endTime t1 (erase evs) - t1) + M.rttNs p.rate.rttS) +
                    1472500000000 + K.v s.flushFrac + nSteps (erase evs) * eps ∧
                K.v s.flushFrac < 1000000000) := by
  obtain ⟨s', sent, evs, hr, _, hi⟩ := srv_run_invT ops hconv hloss cfg now rng sops hops
  refine ⟨s', sent, evs, hr, ?_⟩
  intro c hc h t sig hst
  obtain ⟨ln, n, r, al, t0, gevs, out, cr, k, hp, p, hk, hlink⟩ := hi.active hc hst
  refine ⟨ln, n, r, al, t0, gevs, out, cr, k, hp, p, hk, hlink, ?_⟩
  intro hm hR ht pre1 pre2 evs' t1 hg hns
  subst hg
  exact gwire_init ops K M cfg.ep ln n r al t0 hm hR pre1 pre2 evs' t1 h out cr p.run
    (evsOk_ok _ _ p.ok) ht hns

/-- The same inside a client run, for the frames `out` returned by the `flush` events of the
projection. PARTIAL: nothing is said about the client's `sent` log (see the header). -/
theorem C13_ep_client_wire_bound_partial (ops : FloatOps F) (hconv : BisectConverges ops) (hloss : LossOk ops)
    {eps : Nat} (K : FillOk ops eps) (M : FillMaxOk ops)
    (ep : EpConfig) (now : Nat) (rng : Rng) (cops : List COp) (hops : copsOk 0 cops = true) :
    ∃ c' sent evs, Client.run (hcOf ops) (Client.connect ep now rng).1 cops = .ok (c', sent, evs) ∧
      ∀ ln0 h t sig, c'.state = .active ln0 h t sig →
        ∃ ln n r al t0 gevs out cr, SynAckIn (copsArrivals cops) 0 n r al ∧
          Proj ops ep h ln n r al t0 gevs out cr ∧
          (MSS ≤ min (ep.maxSendRate % 2^32) r → min (ep.maxSendRate % 2^32) r ≤ K.maxRate →
            stepsOk K.maxDt t0 (erase gevs) = true →
            ∀ pre1 pre2 evs t1, gevs = pre1 ++ .ev (.step t1) :: pre2 ++ evs →
              (∀ ev ∈ erase pre2, ∀ t, ev ≠ .step t) →
              ∃ (p q s : State F) (o1 o2 o3 : List (List Nat)) (c1 c2 c3 : Int),
                grun ops (init ops (hcConfig ep ln n r al) t0 rng0) pre1 = .ok (p, o1, c1) ∧
                step ops p t1 = .ok q ∧ grun ops q pre2 = .ok (s, o2, c2) ∧
                grun ops s evs = .ok (h, o3, c3) ∧ out = o1 ++ o2 ++ o3 ∧
                bytes o3 * 1000000000 ≤
                  min (ep.maxSendRate % 2^32) r * ((endTime t1 (erase evs) - t1) + M.rttNs p.rate.rttS) +
                    1472500000000 + K.v s.flushFrac + nSteps (erase evs) * eps ∧
                K.v s.flushFrac < 1000000000) := by
  obtain ⟨c', sent, evs, hr, hi⟩ := cli_run_invC ops hconv hloss ep now rng cops hops
  refine ⟨c', sent, evs, hr, ?_⟩
  intro ln0 h t sig hst
  obtain ⟨ln, n, r, al, t0, gevs, out, cr, hp, p⟩ := hi.active hst
  refine ⟨ln, n, r, al, t0, gevs, out, cr, hp, p, ?_⟩
  intro hm hR ht pre1 pre2 evs' t1 hg hns
  subst hg
  exact gwire_init ops K M ep ln n r al t0 hm hR pre1 pre2 evs' t1 h out cr p.run
    (evsOk_ok _ _ p.ok) ht hns

/-! ## 5b. The client's handshake ACKs are not rate limited -/

/-- **Witness: the server-side identity "datagrams sent since activation = frames of the half
connection" is false for the client, and so is the bound for ALL bytes the client sends.** The client
`exCliL` is `Active` since 1 ms with ceiling `min 1000000 1472 = 1472` B/s and nothing queued. In one
`step` at the same instant (no time elapsed, no RTT estimate) in which 170 copies of its SYN-ACK
arrive — anyone who saw the SYN-ACK can replay it — it sends 170 handshake ACKs, 1530 bytes, more than
`1472 × (0 + 0) + 1472.5 + 1` bytes; none of them comes from the half connection (its `flush` emits
nothing here): `exHsAckChk` evaluates
`exCliL.step hcN 1000000 (List.replicate 170 synAckL)` and checks `sent.length = 170`, total length
`1530`, every datagram `= encode (.hsAck 88)`, and the ceiling afterwards still `1472`. The ACK (9 bytes) is smaller than the SYN-ACK (25 bytes) that triggers it, so this is
not an amplification vector; but the bytes a client transmits are bounded by the C13 expression only
up to `9 × (number of SYN-ACKs with its nonce received while active)`. -/
theorem C13_ep_client_hsack_witness :
    Uflow.EpCeil.Ex.cRateOf Uflow.EpCeil.Ex.exCliL = some (1472, 1472) ∧
    Uflow.EpCeil.Ex.exHsAckChk = true ∧
    ¬ (1530 * 1000000000 ≤ 1472 * (0 + 0) + 1472500000000 + 1000000000) :=
  ⟨Uflow.EpCeil.Ex.exHsAckChk_true.1, Uflow.EpCeil.Ex.exHsAckChk_true.2, by decide⟩

/-! ## 6. Non-vacuity -/

open Uflow.EpNoTrap.Ex Uflow.EpCeil.Ex

set_option maxRecDepth 100000

/-- The hypotheses of the run theorems are satisfiable (`exOps`, the example operation lists of C03Ep). -/
example : BisectConverges exOps ∧ LossOk exOps ∧ sopsOk 0 (.step 1000000 exHandshakeC :: exSrvOps) = true ∧
    copsOk 0 exCliOps = true :=
  ⟨exOps_converges, exOps_lossOk, by decide +kernel, by decide +kernel⟩

/-- **Concrete ceilings.** The server of the examples has `max_send_rate = 1000000`. Client 7's SYN
advertises `max_receive_rate = 500000`, client 8's `2000000`. After the two handshakes (`exSrvC`: the
state `handle_frames` reaches from `Server::bind` on the four encoded datagrams) the half connection
for 7 has `max_send_rate = 500000 = min 1000000 500000` and the one for 8 has
`1000000 = min 1000000 2000000`; both start with `send_rate = MSS = 1472`. -/
theorem C13_ep_example_server :
    (∃ sent, exSrv0.handleFrames hcN exHandshakeC 1 1000000 = .ok (exSrvC, sent)) ∧
    rateOf exSrvC 7 = some (min (cfg0.ep.maxSendRate % 2^32) 500000, 1472) ∧
    rateOf exSrvC 8 = some (min (cfg0.ep.maxSendRate % 2^32) 2000000, 1472) ∧
    min (cfg0.ep.maxSendRate % 2^32) 500000 = 500000 ∧ min (cfg0.ep.maxSendRate % 2^32) 2000000 = 1000000 :=
  ⟨exSrvC_from_bytes, by decide +kernel, by decide +kernel, by decide, by decide⟩

/-- The invariant behind the theorems, on the concrete state: `exSrvC` satisfies `SInvA` for the SYNs
of the four datagrams, hence (`SInvA.active`) both connections are projections of SYNs delivered
from their own address. -/
example : SInvA cfg0.ep (SynFrom exHandshakeC) (InvC exOps cfg0.ep (SynFrom exHandshakeC)) lastNow 1000000 exSrvC := by
  obtain ⟨sent, hr⟩ := exSrvC_from_bytes
  have harr : ArrOk (SynFrom exHandshakeC) exHandshakeC := fun x hx v n r p a hd => ⟨x.2, v, p, hx, hd⟩
  obtain ⟨r, hr', hi⟩ := EpCeil.handleFrames_ok (hcOf_okA exOps exOps_converges exOps_lossOk cfg0.ep _)
    (SInvA.init cfg0 0 ⟨[77, 88], 1⟩ 1000000) exHandshakeC 1 harr
  have : r = (exSrvC, sent) := by
    have := hr'.symm.trans hr
    simpa using this
  rw [this] at hi
  exact hi

/-- The log-indexed invariant behind `C13_ep_connection_projects` on the concrete state: with the log
`sent` of the four handshake datagrams' replies, `exSrvC` satisfies `CoreT` with `InvT` (both
connections: `out = []`, nothing sent to them since they became active); and one `send` + `flush` from
there puts exactly one datagram for address 7 on the wire. -/
example : ∃ sent, exSrv0.handleFrames hcN exHandshakeC 1 1000000 = .ok (exSrvC, sent) ∧ exSrvC.WF ∧
    CoreT cfg0.ep (SynFrom exHandshakeC) (InvT exOps cfg0.ep (SynFrom exHandshakeC)) lastNow 1000000 sent exSrvC := by
  obtain ⟨sent, hr⟩ := exSrvC_from_bytes
  have harr : ArrOk (SynFrom exHandshakeC) exHandshakeC := fun x hx v n r p a hd => ⟨x.2, v, p, hx, hd⟩
  obtain ⟨r, hr', hw, hi⟩ := handleFrames_coreT (hcOf_okT exOps exOps_converges exOps_lossOk cfg0.ep _)
    (tx := []) (Server.init_WF cfg0 0 ⟨[77, 88], 1⟩) (CoreT.init cfg0 0 ⟨[77, 88], 1⟩ 1000000 []) exHandshakeC 1 harr
  have : r = (exSrvC, sent) := by
    have := hr'.symm.trans hr
    simpa using this
  rw [this] at hi hw
  exact ⟨sent, hr, hw, by simpa using hi⟩

example : (match runS hcN exSrvC [.send 7 [1, 2, 3] 0 .reliable, .flush] with
    | .ok (_, sent, _) => decide ((sentTo 7 0 sent).length = 1 ∧ (sentTo 8 0 sent).length = 0)
    | .error _ => false) = true := by decide +kernel

/-- The client of the examples (`max_send_rate = 1000000`) after a SYN-ACK advertising
`max_receive_rate = 300000`: `max_send_rate` of its half connection is `300000`. -/
theorem C13_ep_example_client :
    cRateOf exCliC = some (min (ep0.maxSendRate % 2^32) 300000, 1472) ∧
    min (ep0.maxSendRate % 2^32) 300000 = 300000 :=
  ⟨by decide +kernel, by decide⟩

/-- The hypotheses of `C13_ep_gwire_bound` are satisfiable: `exactOps`, an endpoint with
`max_send_rate = 2^32 + 1472` (truncated to `1472` by the cast) and a peer advertising `5000`:
ceiling `min 1472 5000 = 1472`; the run is `send 2896 bytes; step 0; (rng; flush; step)…` with the
server's generator handed to every flush. -/
example : ∃ (ep : EpConfig) (gevs : List GEv),
    MSS ≤ min (ep.maxSendRate % 2^32) 5000 ∧
    min (ep.maxSendRate % 2^32) 5000 ≤ (exactFillOk 1472 1000000000).maxRate ∧
    (∀ ev ∈ erase gevs, ev.Ok) ∧ stepsOk 1000000000 0 (erase gevs) = true ∧
    (match grun exactOps (init exactOps (hcConfig ep 7 9 5000 100000) 0 rng0) gevs with
     | .ok (_, out, _) => decide (bytes out = 1472)
     | .error _ => false) = true :=
  ⟨{ ep0 with maxSendRate := 2^32 + 1472 },
   [.ev (.send (List.replicate 2896 1) 0 .reliable), .ev (.step 0), .rng ⟨[1], 5⟩, .ev .flush,
    .ev (.step 500000000), .rng ⟨[], 9⟩, .ev .flush, .ev (.step 998913044), .rng ⟨[0], 1⟩, .ev .flush],
   by decide, by decide, by decide +kernel, by decide +kernel, by decide +kernel⟩

end Uflow.Props.C13
