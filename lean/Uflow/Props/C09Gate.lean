import Uflow.Lemmas.HcGateMain

/-!
# C09Gate — the flush gate of `disconnect()` and delivery: gate open, then ONE `receive` of the peer

C09, first sentence: "After `disconnect()`, every Reliable packet submitted earlier is delivered to the
peer application before the peer sees Disconnect." `Props/C09.lean` proves that the endpoint transmits
its disconnect request only in a step in which `is_send_pending() = false` (the flush gate);
`Props/C09Hc.lean` proves what that means for the pair `HcPair` of half connections `A` → `B`
(`Props/C01Hc.lean`): send queue, pending queue and resend queue are empty, and — by
`C01_hc_sync_ok` — every Reliable packet `A` has emitted has been COMPLETELY RECEIVED by `B`'s packet
receiver (`SyncOkP`: `B`'s receive window base passed it, or its slot in `B`'s receive window has the
entry flag). `C09_hc_flush_complete_witness` shows that this does not yet mean "handed to `B`'s
application": `B` must still call `receive`.

This file supplies that missing link.

* `C09_sys_receive_delivers_complete_reliable` — the receiver-side fact, on the packet-layer system
  `Sys` (`Lemmas/SysDefs.lean`): in every reachable state in which every Reliable emitted packet is
  completely received (`Sys.SyncOk`), ONE `recv` step (`PacketReceiver::receive`) puts every Reliable
  emitted packet into the delivery log, with its channel and its payload. Proof
  (`Sys.recv_delivers_complete`, `Lemmas/HcGateSys.lean`): by strong induction on the emission position;
  a completely received packet the delivery pass does NOT take out of the window is blocked by its
  channel parent lead, which (honest sender, `blocked_parent`) names an earlier Reliable packet of its
  channel at or beyond the channel's base id; that packet is completely received by `SyncOk`, hence —
  induction — in the log after the pass, so the channel's base id is beyond it: contradiction. The
  ready flags cannot hide a packet (`Done`, from the invariant `Rdy` of `PInv`).
* `C09_hc_gate_then_receive` — the pair: in the final state `h` of a `Guarded` run that reuses no frame
  id, if `A.is_send_pending() = false`, then `B.receive` (`stepP ops h .recvB`) succeeds, and in the
  state `h'` after it EVERY Reliable packet `A.send` accepted during the run has been returned by
  `B.receive` — byte-exact, exactly once, in per-channel submission order; every non-TimeSensitive
  submission was emitted. No hypothesis on `A`'s send window (contrast `C09_hc_flush_complete_partial`).
* `C09_gate_open_then_receive_client` / `_server` — composition with the flush gate of the endpoints
  for the driver's half connection `hcOf ops`: when `Client.step` / one iteration of
  `step_active_clients` enters `closing` with `signal = flush`, then for every reachable pair state
  whose `A` has the transmit side of the connection's half connection, the peer's next `receive`
  returns everything Reliable that is still outstanding.

What is still not modelled: two ENDPOINTS over one network. That the peer endpoint calls `receive`
after handling the data frames and before it handles a disconnect request transmitted later is a
property of `Client::step` / `Server::step` (`receive` is called at the end of EVERY step,
`C09_flush_gate_*`), not of the half connection; the clause `advB = em.length` of `FlushComplete` (the
receive window base passed every emitted packet) is NOT claimed — it is false here: a lost Unreliable
packet emitted last is never passed (`C09_hc_gate_base_not_passed_witness`).

Helper lemmas: `Uflow/Lemmas/HcGate{Sys,Pair,Main}.lean`.
-/

namespace Uflow.Props.C09

open Uflow Uflow.Gen Uflow.Codec Uflow.HalfConn Uflow.PSend Uflow.HcSys Uflow.HcFlush Uflow.HcGate
open Uflow.Endpoint
open Uflow.PRecv (LogE)
open Uflow.Rate (FloatOps)
open Uflow.EpNoTrap (hcOf)
open Uflow.Props.C01 (SyncCfg)
open Uflow.HcFrm (IdsNodup)

variable {F : Type}

/-- **`receive` hands out every completely received Reliable packet** (packet-layer system `Sys`:
`PSend` → ghost datagram network → `PRecv`). Let `s` be ANY state reachable from
`PacketSender::new(w, b, a)` / `PacketReceiver::new(2^k, b, m)` (`w ≤ 2^16`, `w ≤ 2^k`, `k ≤ 19`,
`b < 2^20`, `allocCeil a ≤ allocCeil m`) in which every Reliable emitted packet is completely received
(`Sys.SyncOk s`: in the log, or passed by the receive window base, or in the receive window with its
entry flag). Then after ONE `recv` step (`s'`): the sender and the histories are unchanged, the log only
grew, and every Reliable emitted packet `x` (emission position `j`) has a log entry with `uid = j`, the
channel of `x` and the payload of `x` — it was returned by `receive`, byte-exact (at most once:
`C01_sys_at_most_once`). No redelivery round is needed (contrast `C02_sys_deliverable`). -/
theorem C09_sys_receive_delivers_complete_reliable (w k b a m : Nat) (hwk : w ≤ 2^k) (hw : w ≤ 2^16)
    (hk : k ≤ 19) (hb : b < 2^20) (ham : allocCeil a ≤ allocCeil m) (sops : List Sys.SOp) (s s' : Sys.Sys)
    (hs : Sys.runS (Sys.initS w (2^k) b a m) sops = .ok s) (hok : Sys.SyncOk s)
    (hstep : Sys.stepS s .recv = .ok s') :
    Sys.runS (Sys.initS w (2^k) b a m) (sops ++ [.recv]) = .ok s' ∧ s'.hist = s.hist ∧ s'.snd = s.snd ∧
    (∀ e ∈ s.rcv.log, e ∈ s'.rcv.log) ∧
    ∀ j x, s'.hist.emitted[j]? = some x → x.mode = .reliable →
      ∃ e ∈ s'.rcv.log, e.uid = j ∧ e.chan = x.channelId ∧ e.data = some x.data :=
  sys_recv_delivers w k b a m hwk hw hk hb ham sops s s' hs hok hstep

/-- **Gate open, then one `receive` of the peer: every Reliable packet has been handed to the peer
application.** Hypotheses: `SyncCfg cA cB k` (valid initial ids, same initial packet id,
`A`'s send window `≤ 2^16` and `≤ 2^k` = `B`'s receive window, `k ≤ 19`, `FrmCfg cA`),
`allocCeil cA.txAllocLimit ≤ allocCeil cB.rxAllocLimit`; `h` is the final state of a run of the pair
from two fresh half connections whose schedule is `Guarded` (the freshness hypotheses of
`C01_hc_refines_sys`) and which has not reused a 32-bit frame id (`IdsNodup h.wireAB`, true while `A`
has sent at most `2^32` data frames: `C01_hc_ids_nodup`); `A.is_send_pending() = false` in `h` — the
flush gate of the endpoint is open. Nothing is assumed about `A`'s send window or about acknowledgements
having reached `A` at packet level.

Then `B.receive` does not trap (`stepP ops h .recvB = .ok h'`; this is the run extended by `.recvB`,
which is again `Guarded`), it changes neither `A` nor the record `sent` of `A.send` calls, and in `h'`
there are an attribution `log` of the payloads returned by `B.receive` (`h'.outs`) and the list `em` of
emitted packets (`HcFlush.Attributed`: `log.map data = outs.map some`, `em` parallel to `pend` and a
subsequence of the `A.send` calls, no position logged twice, every log entry carries channel and payload
of the emitted packet at its position, per-channel order) with
* `sent.filter notTS = (em.map toQ).filter notTS` — every `A.send` call that is not TimeSensitive was
  emitted (in order);
* every Reliable `em[j]` has a log entry `e` with `e.uid = j`, `e.chan = em[j].channelId`,
  `e.data = some em[j].data` — returned by one of `B`'s `receive` calls, byte-exact, exactly once
  (`Attributed.once`);
* for every channel `c`: the Reliable payloads submitted on `c`, in submission order, are a subsequence
  of the payloads delivered on `c` (which by `Attributed.order` are a subsequence of all payloads
  submitted on `c`).
This is `HcFlush.FlushComplete h'` without its clause `advB = em.length`, which does not hold here
(`C09_hc_gate_base_not_passed_witness`). -/
theorem C09_hc_gate_then_receive (ops : FloatOps F) (cA cB : Config) (nowA nowB : Nat) (rngA rngB : Rng)
    (k : Nat) (hc : SyncCfg cA cB k) (ham : allocCeil cA.txAllocLimit ≤ allocCeil cB.rxAllocLimit)
    (sched : List POp) (h : HcPair F)
    (hg : Guarded ops (initP ops cA cB nowA nowB rngA rngB) sched)
    (hrun : runP ops (initP ops cA cB nowA nowB rngA rngB) sched = .ok h)
    (hn : IdsNodup h.wireAB) (hidle : isSendPending h.A = false) :
    ∃ h', stepP ops h .recvB = .ok h' ∧
      runP ops (initP ops cA cB nowA nowB rngA rngB) (sched ++ [.recvB]) = .ok h' ∧
      Guarded ops (initP ops cA cB nowA nowB rngA rngB) (sched ++ [.recvB]) ∧
      h'.A = h.A ∧ h'.sent = h.sent ∧
      ∃ (log : List LogE) (em : List Emitted), Attributed h' log em ∧
        h'.sent.filter notTS = (em.map Emitted.toQ).filter notTS ∧
        (∀ j x, em[j]? = some x → x.mode = .reliable →
          ∃ e ∈ log, e.uid = j ∧ e.chan = x.channelId ∧ e.data = some x.data) ∧
        ∀ c, ((h'.sent.filter (fun q => decide (q.mode = .reliable ∧ q.channelId = c))).map QEntry.data).Sublist
          ((log.filter (fun e => decide (e.chan = c))).filterMap LogE.data) := by
  obtain ⟨h', h1, h2, h3, h4, h5, -, h7⟩ :=
    gate_then_receive ops cA cB nowA nowB rngA rngB k hc ham sched h hg hrun hn hidle
  exact ⟨h', h1, h2, h3, h4, h5, h7⟩

/-- The same with the hypotheses in the form of the task statement: the run extended by `.recvB` is
given (`Guarded`, result `h'`); every Reliable packet `A.send` accepted has then been returned by
`B.receive`. -/
theorem C09_hc_gate_then_receive_run (ops : FloatOps F) (cA cB : Config) (nowA nowB : Nat) (rngA rngB : Rng)
    (k : Nat) (hc : SyncCfg cA cB k) (ham : allocCeil cA.txAllocLimit ≤ allocCeil cB.rxAllocLimit)
    (sched : List POp) (h h' : HcPair F)
    (hg : Guarded ops (initP ops cA cB nowA nowB rngA rngB) (sched ++ [.recvB]))
    (hrun : runP ops (initP ops cA cB nowA nowB rngA rngB) sched = .ok h)
    (hn : IdsNodup h.wireAB) (hidle : isSendPending h.A = false)
    (hstep : runP ops (initP ops cA cB nowA nowB rngA rngB) (sched ++ [.recvB]) = .ok h') :
    ∃ (log : List LogE) (em : List Emitted), Attributed h' log em ∧
      h'.sent.filter notTS = (em.map Emitted.toQ).filter notTS ∧
      ∀ j x, em[j]? = some x → x.mode = .reliable → ∃ e ∈ log, e.uid = j ∧ e.data = some x.data := by
  have hg' : Guarded ops (initP ops cA cB nowA nowB rngA rngB) sched := by
    clear hrun hstep
    generalize initP ops cA cB nowA nowB rngA rngB = h0 at hg
    induction sched generalizing h0 with
    | nil => trivial
    | cons op rest ih => exact ⟨hg.1, fun h1 hs => ih h1 (hg.2 h1 hs)⟩
  obtain ⟨h'', -, h2, -, -, -, log, em, a1, a2, a3, -⟩ :=
    C09_hc_gate_then_receive ops cA cB nowA nowB rngA rngB k hc ham sched h hg' hrun hn hidle
  rw [hstep] at h2
  cases h2
  refine ⟨log, em, a1, a2, ?_⟩
  intro j x hx hrel
  obtain ⟨e, he, hu, -, hd⟩ := a3 j x hx hrel
  exact ⟨e, he, hu, hd⟩

/-! ## The flush gate of the endpoints -/

/-- **An open flush gate, then the peer's `receive` (client).** If `Client::step`, on the half
connection `hcOf ops`, ends in `closing` without having started there, then (`C09_flush_gate_client`)
after the timers of that step the connection was `active` with half connection `hh` and `signal = now`,
or `signal = flush` and `HcGate.GateReceives ops hh`: `hh.is_send_pending() = false`, and for EVERY pair
state `hp` that is the final state of a `Guarded`, frame-id-fresh run under `SyncCfg`
(`HcGate.SyncReach`) and whose `A` has the transmit side of `hh` (`SameTx`: same packet sender, pending
queue and resend queue), the peer's next `receive` (`stepP ops hp .recvB`) succeeds, leaves `A` and
`sent` alone, and afterwards every Reliable packet submitted on that connection has been returned by the
peer's `receive` — byte-exact, exactly once, in per-channel order (`HcGate.GateComplete`). No hypothesis
on the send window. -/
theorem C09_gate_open_then_receive_client (ops : FloatOps F) (c c' : Client (HalfConn.State F))
    (nowNs : Nat) (arrivals sent : List (List Nat)) (evs : List CEvent)
    (h : c.step (hcOf ops) nowNs arrivals = .ok (c', sent, evs))
    (hnc : ¬ c.state.isClosing) (hcl : c'.state.isClosing) :
    ∃ (c3 : Client (HalfConn.State F)) (ln : Nat) (hh : HalfConn.State F) (t : Nat)
      (sig : Option DisconnectMode) (pre : List (List Nat)),
      c3.state = .active ln hh t sig ∧ sent = pre ++ [discReq] ∧
      (sig = some .now ∨ (sig = some .flush ∧ GateReceives ops hh)) := by
  obtain ⟨c3, ln, hh, t, sig, _, _, pre, h1, h2, _, _, _, h6⟩ :=
    C09_flush_gate_client (hcOf ops) c c' nowNs arrivals sent evs h hnc hcl
  refine ⟨c3, ln, hh, t, sig, pre, h1, h6, ?_⟩
  rcases h2 with h2 | ⟨h2, h3⟩
  · exact .inl h2
  · exact .inr ⟨h2, gateReceives_of_not_pending ops hh h3⟩

/-- **An open flush gate, then the peer's `receive` (server).** If one iteration of
`step_active_clients` (`Server.stepActiveStep`) on the half connection `hcOf ops` sends anything, it is
the disconnect request of an `active` entry `c` with half connection `hh`, and either `signal = now`, or
`signal = flush` and `HcGate.GateReceives ops hh` (as for the client). -/
theorem C09_gate_open_then_receive_server (ops : FloatOps F) (nowMs nowNs : Nat)
    (acc acc' : Server (HalfConn.State F) × List (Nat × List Nat)) (hw : acc.1.WF) (cid : Nat)
    (h : Server.stepActiveStep (hcOf ops) nowMs nowNs acc cid = .ok acc') (hsent : acc'.2 ≠ acc.2) :
    ∃ (c : RClient (HalfConn.State F)) (hh : HalfConn.State F) (t : Nat) (sig : Option DisconnectMode),
      acc.1.byCid cid = some c ∧ c.state = .active hh t sig ∧ acc'.2 = acc.2 ++ [(c.address, discReq)] ∧
      acc'.1.find c.address = some { c with state := .closing } ∧
      (sig = some .now ∨ (sig = some .flush ∧ GateReceives ops hh)) := by
  obtain ⟨evs, _, hcase⟩ := C09_flush_gate_server (hcOf ops) nowMs nowNs acc acc' hw cid h
  rcases hcase with ⟨_, he⟩ | ⟨c, hh, t, sig, hb, _, hst, hc2⟩
  · exact absurd (by rw [he]) hsent
  · rcases hc2 with ⟨hg, _, _, _, _, hs, hf, _⟩ | ⟨_, _, _, _, _, _, _, hs, _⟩
    · refine ⟨c, hh, t, sig, hb, hst, hs, hf, ?_⟩
      rcases hg with hg | ⟨hg, hp⟩
      · exact .inl hg
      · exact .inr ⟨hg, gateReceives_of_not_pending ops hh hp⟩
    · exact absurd hs hsent

/-! ## Non-vacuity -/

/-- The schedule of `C09_hc_flush_complete_witness`: `A` sends Reliable `[1,2,3]`; its frame reaches
`B`; `B` acknowledges the FRAME without having called `receive`; `A.flush` pops the acknowledged
fragment from the resend queue. -/
def hcGateSched : List POp :=
  [.sendA [1,2,3] 0 .reliable, .stepA 0, .stepB 0, .flushA, .deliverAB 0,
   .stepB 1000000000, .flushB, .deliverBA 0, .flushA]

/-- The run exists; at its end the gate is open (`is_send_pending() = false`) while nothing has been
handed to `B`'s application and the packet is still in `A`'s send window; no frame id was reused. The
run extended by `.recvB` passes the executable `Guarded` test and ends with `outs = [[1,2,3]]`. -/
theorem C09_hc_gate_example :
    (match runP CreditEx.exOps C01.hcExPair hcGateSched with
     | .ok h => !isSendPending h.A &&
         decide (h.outs = [] ∧ h.advB = 0 ∧ h.A.ps.win.length = 1 ∧ IdsNodup h.wireAB ∧ SyncOkP h)
     | .error _ => false) = true ∧
    guardedB CreditEx.exOps C01.hcExPair (hcGateSched ++ [.recvB]) = true ∧
    (match runP CreditEx.exOps C01.hcExPair (hcGateSched ++ [.recvB]) with
     | .ok h' => decide (h'.outs = [[1,2,3]] ∧ h'.advB = 1 ∧
         h'.sent.map (fun q => (q.data, q.mode)) = [([1,2,3], SendMode.reliable)])
     | .error _ => false) = true := by
  refine ⟨by decide +kernel, by decide +kernel, by decide +kernel⟩

/-- The hypotheses of `C09_hc_gate_then_receive` (and of `C09_hc_gate_then_receive_run`) hold for that
run; its final state is `HcGate.SyncReach`. -/
theorem C09_hc_gate_example_hyps :
    SyncCfg CreditEx.exCfg CreditEx.exCfg 4 ∧
    allocCeil CreditEx.exCfg.txAllocLimit ≤ allocCeil CreditEx.exCfg.rxAllocLimit ∧
    Guarded CreditEx.exOps C01.hcExPair (hcGateSched ++ [.recvB]) ∧
    ∃ h, runP CreditEx.exOps C01.hcExPair hcGateSched = .ok h ∧
      Guarded CreditEx.exOps C01.hcExPair hcGateSched ∧ IdsNodup h.wireAB ∧
      isSendPending h.A = false ∧ h.outs = [] ∧ SyncReach CreditEx.exOps h := by
  obtain ⟨hex, hgb, -⟩ := C09_hc_gate_example
  have hcfg := C01.C01_hc_sync_example_hyps.1
  have hgd : Guarded CreditEx.exOps C01.hcExPair hcGateSched :=
    C01.C01_hc_guarded_checker _ _ _ (by decide +kernel)
  refine ⟨hcfg, Nat.le_refl _, C01.C01_hc_guarded_checker _ _ _ hgb, ?_⟩
  cases hr : runP CreditEx.exOps C01.hcExPair hcGateSched with
  | error t => rw [hr] at hex; cases hex
  | ok h =>
    rw [hr] at hex
    simp only [Bool.and_eq_true, Bool.not_eq_true', decide_eq_true_eq] at hex
    obtain ⟨hidle, hout, _, _, hn, _⟩ := hex
    exact ⟨h, rfl, hgd, hn, hidle, hout,
      ⟨_, _, _, _, _, _, 4, hcGateSched, hcfg, Nat.le_refl _, hgd, hr, hn⟩⟩

/-- The hypotheses of `C09_sys_receive_delivers_complete_reliable`: two Reliable packets on one channel
are emitted, the SECOND arrives first, then the first; nothing has been received yet. `SyncOk` holds
(both slots have the entry flag), the log is empty; one `recv` step delivers both, in order. -/
example :
    (match Sys.runS (Sys.initS 4 (2^2) 0 100000 100000)
        [.enq [1] 0 .reliable 0, .enq [2] 0 .reliable 0, .emit 0, .emit 0, .deliver 1, .deliver 0] with
     | .ok s =>
       decide (Sys.SyncOk s ∧ s.rcv.log = [] ∧ s.rcv.adv = 0 ∧ s.hist.emitted.length = 2) &&
       (match Sys.stepS s .recv with
        | .ok s' => decide ((s'.rcv.log.map fun e => (e.uid, e.data)) = [(0, some [1]), (1, some [2])])
        | .error _ => false)
     | .error _ => false) = true := by decide +kernel

/-- The clause `advB = em.length` of `FlushComplete` is not a consequence of the gate plus `receive`:
`A` sends an Unreliable packet whose only frame is lost. `A.is_send_pending() = false` (Unreliable
fragments never enter the resend queue), the schedule extended by `.recvB` is `Guarded`, and after
`B.receive` one packet has been emitted while `B`'s receive window base has not moved. -/
theorem C09_hc_gate_base_not_passed_witness :
    guardedB CreditEx.exOps C01.hcExPair [.sendA [1] 0 .unreliable, .stepA 0, .stepB 0, .flushA, .recvB] = true ∧
    (match runP CreditEx.exOps C01.hcExPair [.sendA [1] 0 .unreliable, .stepA 0, .stepB 0, .flushA] with
     | .ok h => !isSendPending h.A && decide (IdsNodup h.wireAB) &&
         (match stepP CreditEx.exOps h .recvB with
          | .ok h' => decide (h'.em.length = 1 ∧ h'.advB = 0 ∧ h'.outs = [])
          | .error _ => false)
     | .error _ => false) = true := by
  refine ⟨by decide +kernel, by decide +kernel⟩

end Uflow.Props.C09
