import Uflow.Lemmas.CodecExact
import Uflow.Lemmas.CrcSyndrome
import Uflow.Lemmas.CrcHD4

/-!
C16 — the CRC rejects every pattern of 1–4 flipped bits in an accepted frame of at most
`MAX_FRAME_SIZE` bytes (Hamming distance 5 of the generator at 11776 bits).

`C16_reject_flips3` (1–3 bits) is checked by the kernel alone; `C16_reject_flips` (1–4 bits)
additionally depends on the single `native_decide` in `Uflow/Lemmas/CrcHD4.lean`.
Helper lemmas live in `Uflow/Lemmas/Crc{Linear,HD,HD4Def,HD4,Syndrome}.lean`.
-/

namespace Uflow.Props.C16

open Uflow.Codec Uflow.Gen Uflow.Crc

/-- A flipped frame is rejected as soon as the xor of the syndromes of the flipped positions is
nonzero. -/
theorem reject_of_syndrome (bs : List Nat) (f : Frame) (hdec : decode bs = some f)
    (hbytes : ∀ b ∈ bs, b < 256) (ps : List Nat) (hp : ∀ p ∈ ps, p < 8 * bs.length)
    (hne : ∀ L, bs.length = L + 4 → xorU (ps.map (qpos L)) ≠ 0#32) :
    decode (ps.foldl flipBit bs) = none := by
  obtain ⟨ty, payload, c0, c1, c2, c3, hbs, hcrc, _⟩ := decode_some_shape bs f hdec
  subst hbs
  have h0 : c0 < 256 := hbytes c0 (by simp)
  have h1 : c1 < 256 := hbytes c1 (by simp)
  have h2 : c2 < 256 := hbytes c2 (by simp)
  have h3 : c3 < 256 := hbytes c3 (by simp)
  have hlen : ((ty :: payload) ++ [c0, c1, c2, c3]).length = (ty :: payload).length + 4 := by simp
  have hres := residual_eq_zero (ty :: payload) c0 c1 c2 c3 hcrc
  obtain ⟨body', d0, d1, d2, d3, hf, hr⟩ :=
    foldl_flipBit_residual ps (ty :: payload) c0 c1 c2 c3 h0 h1 h2 h3
      (by intro p hpm; rw [← hlen]; exact hp p hpm)
  rw [hres, BitVec.zero_xor] at hr
  cases hd : decode (ps.foldl flipBit ((ty :: payload) ++ [c0, c1, c2, c3])) with
  | none => rfl
  | some f' =>
    obtain ⟨ty', payload', e0, e1, e2, e3, hbs', hcrc', _⟩ := decode_some_shape _ f' hd
    rw [hf] at hbs'
    obtain ⟨hb, hc⟩ := List.append_inj' hbs' rfl
    cases hc
    subst hb
    rw [residual_eq_zero _ _ _ _ _ hcrc'] at hr
    exact absurd hr.symm (hne _ hlen)

theorem qpos_ne (L p p' : Nat) (hp : p < 8 * (L + 4)) (hp' : p' < 8 * (L + 4)) (h : p ≠ p') :
    qpos L p ≠ qpos L p' := fun e => h (qpos_inj L p p' hp hp' e)

/-- kernel-only (no native_decide): up to three flipped bits -/
theorem C16_reject_flips3 (bs : List Nat) (f : Frame) (hdec : decode bs = some f)
    (hlen : bs.length ≤ MAX_FRAME_SIZE) (hbytes : ∀ b ∈ bs, b < 256)
    (ps : List Nat) (hnd : ps.Nodup) (h1 : 1 ≤ ps.length) (h3 : ps.length ≤ 3)
    (hp : ∀ p ∈ ps, p < 8 * bs.length) : decode (ps.foldl flipBit bs) = none := by
  apply reject_of_syndrome bs f hdec hbytes ps hp
  intro L hL
  have hN : 8 * (L + 4) ≤ hdBits := by unfold hdBits; rw [← hL]; unfold MAX_FRAME_SIZE at hlen; omega
  rw [hL] at hp
  match ps, hnd, h1, h3, hp with
  | [a], _, _, _, _ =>
    simp only [List.map, xorU, BitVec.xor_zero]
    exact u_ne_zero _
  | [a, b], hnd, _, _, hp =>
    simp only [List.map, xorU, BitVec.xor_zero]
    have hab : a ≠ b := by intro e; subst e; simp at hnd
    have ha := hp a (by simp)
    have hb := hp b (by simp)
    exact u_xor2_ne_zero _ _ (qpos_ne L a b ha hb hab)
      (Nat.lt_of_lt_of_le (qpos_lt L a ha) hN) (Nat.lt_of_lt_of_le (qpos_lt L b hb) hN)
  | [a, b, c], _, _, _, _ =>
    simp only [List.map, xorU, BitVec.xor_zero, ← BitVec.xor_assoc]
    exact u_xor3_ne_zero _ _ _

/-- full statement: up to four flipped bits; uses exactly one `native_decide` (in
    `Uflow/Lemmas/CrcHD4.lean`) for the weight-4 enumeration -/
theorem C16_reject_flips (bs : List Nat) (f : Frame) (hdec : decode bs = some f)
    (hlen : bs.length ≤ MAX_FRAME_SIZE) (hbytes : ∀ b ∈ bs, b < 256)
    (ps : List Nat) (hnd : ps.Nodup) (h1 : 1 ≤ ps.length) (h4 : ps.length ≤ 4)
    (hp : ∀ p ∈ ps, p < 8 * bs.length) : decode (ps.foldl flipBit bs) = none := by
  by_cases h3 : ps.length ≤ 3
  · exact C16_reject_flips3 bs f hdec hlen hbytes ps hnd h1 h3 hp
  · apply reject_of_syndrome bs f hdec hbytes ps hp
    intro L hL
    have hN : 8 * (L + 4) ≤ hdBits := by
      unfold hdBits; rw [← hL]; unfold MAX_FRAME_SIZE at hlen; omega
    rw [hL] at hp
    match ps, hnd, h4, h3, hp with
    | [_], _, _, h3, _ => exact absurd (by simp) h3
    | [_, _], _, _, h3, _ => exact absurd (by simp) h3
    | [_, _, _], _, _, h3, _ => exact absurd (by simp) h3
    | [a, b, c, d], hnd, _, _, hp =>
      simp only [List.map, xorU, BitVec.xor_zero, ← BitVec.xor_assoc]
      have ha := hp a (by simp)
      have hb := hp b (by simp)
      have hc := hp c (by simp)
      have hd := hp d (by simp)
      simp only [List.nodup_cons, List.mem_cons, List.not_mem_nil, or_false, not_or] at hnd
      obtain ⟨⟨hab, hac, had⟩, ⟨hbc, hbd⟩, hcd, _⟩ := hnd
      exact u_xor4_ne_zero _ _ _ _ (qpos_ne L a b ha hb hab) (qpos_ne L a c ha hc hac)
        (qpos_ne L a d ha hd had) (qpos_ne L b c hb hc hbc) (qpos_ne L b d hb hd hbd)
        (qpos_ne L c d hc hd hcd)
        (Nat.lt_of_lt_of_le (qpos_lt L a ha) hN) (Nat.lt_of_lt_of_le (qpos_lt L b hb) hN)
        (Nat.lt_of_lt_of_le (qpos_lt L c hc) hN) (Nat.lt_of_lt_of_le (qpos_lt L d hd) hN)

end Uflow.Props.C16
