import Uflow.Props.C06
import Uflow.Props.C05
import Uflow.Lemmas.HcMemSend
import Uflow.Lemmas.CreditEx
import Uflow.Lemmas.HcMemEpCli
import Uflow.Lemmas.HcMemEpEx

/-!
# C06 for a whole half connection (and for the endpoints)

`Uflow/Props/C06.lean` bounds the memory of the packet receiver `PRecv`, of the frame acknowledgement queue
`FrameQ.AckQ` and of the packet sender `PSend`, each driven ALONE by an arbitrary sequence of its own
operations. Here the statements are lifted to `HalfConn` (`src/half_connection/mod.rs`): every event of a
half connection — a data / ack / sync frame with ARBITRARY contents, `send`, `receive`, `flush`, `step`
(`Credit.Ev`, run by `HcInv.runEvs`) — acts on the components `pr`, `aq`, `ps` only through the
component operations, so the component of every half-connection run is a component run
(`C06_hc_recv_projection`, `C06_hc_ackq_projection`, `C06_hc_send_projection`) and the component
bounds hold in every state a half connection can reach, whatever the peer sends and whatever the
application does (in particular if it never calls `receive`).

No invariant and no side condition on the events is assumed: the theorems speak about every run that
does not trap (`runEvs … = .ok …`); `C03_hc_run_no_trap` shows that runs within the API preconditions
never trap.
-/

namespace Uflow.Props.C06

open Uflow Uflow.Gen Uflow.Codec Uflow.HalfConn Uflow.Credit Uflow.HcMem
open Uflow.HcInv (runEvs)
open Uflow.Rate (FloatOps)

variable {F : Type}

/-! ## Packet receiver -/

/-- **C06 (1), projection.** The packet receiver of every half-connection run is a run of the packet
receiver alone, from `PRecv.init` with the configured window size, base id and allocation limit:
the datagrams of every data frame that passes the frame window test become `dg` operations (in
order), a sync frame carrying a packet id becomes `resync`, `receive` becomes `recv`; no other event
touches the receiver. -/
theorem C06_hc_recv_projection (ops : FloatOps F) (cfg : Config) (now : Nat) (rng : Rng)
    (evs : List Ev) (s : State F) (out : List (List Nat))
    (h : runEvs ops (init ops cfg now rng) evs = .ok (s, out)) :
    ∃ rops, PRecv.run (PRecv.init cfg.rxPacketWindowSize cfg.rxPacketBaseId cfg.rxAllocLimit) rops
      = .ok s.pr :=
  runEvs_pr ops evs _ s out h

/-- The bound on the receiver memory of a half connection configured with `max_receive_alloc = m`
and a receive window of `W` packets: the allocation counter is exact and within the
fragment-rounded limit, the bytes actually held (assembly buffers at their allocated size plus
undelivered payloads) are within the counter, every slot holding data or an assembly is charged
for it, and the tables do not grow. -/
structure RecvBounded (W m : Nat) (pr : PRecv.State) : Prop where
  alloc_eq : pr.alloc = (pr.slots.map fun p => asmAlloc p.2.asm).sum
  nodup : (pr.slots.map (·.1)).Nodup
  alloc_le : pr.alloc ≤ allocCeil m
  max_eq : pr.maxAlloc = allocCeil m
  held_le : PRecv.held pr ≤ pr.alloc
  data : ∀ p ∈ pr.slots, ∀ d, p.2.data = some d → ∃ a, p.2.asm = .closed a ∧ d.length ≤ a
  active : ∀ p ∈ pr.slots, ∀ a chan wpl cpl last buf, p.2.asm = .active a chan wpl cpl last buf →
    a = (last + 1) * 1448
  slots_le : pr.slots.length ≤ W
  chans : pr.chans.length = 64
  flags : pr.readyFlags.length = 64

/-- The receiver invariant (`Uflow/Lemmas/PRecvInv.lean`) for the limit `⌈m⌉` gives the bound. -/
theorem recvBounded_of_inv {W m : Nat} {pr : PRecv.State} (hinv : PRecv.Inv W (allocCeil m) pr) :
    RecvBounded W m pr where
  alloc_eq := by
    have : asmAlloc = PRecv.aAlloc := by funext a; cases a <;> rfl
    rw [this]; exact hinv.aeq
  nodup := hinv.nodup
  alloc_le := hinv.ale
  max_eq := hinv.mal
  held_le := hinv.held_le
  data := by
    intro p hp d hd
    have hs := hinv.slot_of_mem p hp
    have hf : p.2.dataFlag = true := by
      cases hb : p.2.dataFlag with
      | true => rfl
      | false => rw [hs.nodata hb] at hd; cases hd
    obtain ⟨-, a, ha, hlen⟩ := hs.flagged hf
    exact ⟨a, ha, hlen d hd⟩
  active := by
    intro p hp a chan wpl cpl last buf ha
    have hs := (hinv.slot_of_mem p hp).asm
    rw [ha] at hs
    exact hs.1
  slots_le := hinv.slots_length_le
  chans := hinv.clen
  flags := hinv.rlen

/-- The component theorems of `C06.lean`, collected. -/
theorem recvBounded_of_run (W b m : Nat) (hW : 0 < W) (hb : b < 2^20) (rops : List PRecv.Op)
    (pr : PRecv.State) (h : PRecv.run (PRecv.init W b m) rops = .ok pr) : RecvBounded W m pr := by
  obtain ⟨a1, a2, a3, a4⟩ := C06_recv_alloc W b m hW hb rops pr h
  obtain ⟨b1, b2, b3, b4⟩ := C06_recv_held W b m hW hb rops pr h
  obtain ⟨c1, c2, c3⟩ := C06_recv_state_bounded W b m hW hb rops pr h
  exact ⟨a1, a2, b2, a4, b1, b3, b4, c1, c2, c3⟩

/-- **C06 (2), receiver memory of a half connection.** For EVERY half-connection run — data frames
with arbitrary contents (fragment counts up to 65535, sequence ids inside or outside the window,
packets that never complete), sync frames with arbitrary ids, the application never calling
`receive` — the receiver's allocation counter never exceeds `⌈rxAllocLimit / 1448⌉ · 1448`, the
bytes actually held never exceed the counter, and there are at most `rxPacketWindowSize` slots and
64 channel entries. Only `0 < rxPacketWindowSize` and `rxPacketBaseId < 2^20` are assumed
(`HcInv.CfgOk`; the endpoints use 4096 and a nonce reduced mod `2^20`). -/
theorem C06_hc_recv_bounded (ops : FloatOps F) (cfg : Config) (now : Nat) (rng : Rng)
    (hW : 0 < cfg.rxPacketWindowSize) (hb : cfg.rxPacketBaseId < 2^20)
    (evs : List Ev) (s : State F) (out : List (List Nat))
    (h : runEvs ops (init ops cfg now rng) evs = .ok (s, out)) :
    RecvBounded cfg.rxPacketWindowSize cfg.rxAllocLimit s.pr := by
  obtain ⟨rops, hr⟩ := C06_hc_recv_projection ops cfg now rng evs s out h
  exact recvBounded_of_run _ _ _ hW hb rops s.pr hr

/-- The headline inequality of `C06_hc_recv_bounded`. -/
theorem C06_hc_recv_held_le (ops : FloatOps F) (cfg : Config) (now : Nat) (rng : Rng)
    (hW : 0 < cfg.rxPacketWindowSize) (hb : cfg.rxPacketBaseId < 2^20)
    (evs : List Ev) (s : State F) (out : List (List Nat))
    (h : runEvs ops (init ops cfg now rng) evs = .ok (s, out)) :
    PRecv.held s.pr ≤ allocCeil cfg.rxAllocLimit ∧ s.pr.slots.length ≤ cfg.rxPacketWindowSize := by
  have hb := C06_hc_recv_bounded ops cfg now rng hW hb evs s out h
  exact ⟨Nat.le_trans hb.held_le hb.alloc_le, hb.slots_le⟩

/-! ## Frame acknowledgement queue -/

/-- **C06 (3), projection.** The acknowledgement queue of every half-connection run is a run of the
queue alone from `AckQ.init rxFrameWindowSize rxFrameBaseId`: every data frame is one `markSeen`
(any id), `flush` pops groups (`emit_ack_frames`), every sync frame carrying a frame id is one
`resync`; no other event touches the queue. The number of `resync` operations is the number of such
sync frames (`isFrameSync`). -/
theorem C06_hc_ackq_projection (ops : FloatOps F) (cfg : Config) (now : Nat) (rng : Rng)
    (evs : List Ev) (s : State F) (out : List (List Nat))
    (h : runEvs ops (init ops cfg now rng) evs = .ok (s, out)) :
    ∃ aops, s.aq = AckQB.run (FrameQ.AckQ.init cfg.rxFrameWindowSize cfg.rxFrameBaseId) aops ∧
      aops.countP AckQB.isResync = evs.countP isFrameSync :=
  runEvs_aq ops evs _ s out h

/-- **C06 (3), pending acknowledgements of a half connection.** In every half-connection run in which
the number `r` of sync frames carrying a frame id satisfies `(r + 2) * rxFrameWindowSize ≤ 2^32`
(for the library's window of 4096 frames: at most `2^20 - 2` sync frames), at most
`⌈rxFrameWindowSize / 32⌉` acknowledgement groups are pending (128 for the library), whatever data
frames arrive and however rarely `flush` is called. (`C06_ackq_unbounded_under_wrap_witness`: the
budget cannot be dropped.) -/
theorem C06_hc_ackq_bounded (ops : FloatOps F) (cfg : Config) (now : Nat) (rng : Rng)
    (h0 : 0 < cfg.rxFrameWindowSize) (h1 : cfg.rxFrameWindowSize ≤ 2^31)
    (evs : List Ev) (hbud : (evs.countP isFrameSync + 2) * cfg.rxFrameWindowSize ≤ 2^32)
    (s : State F) (out : List (List Nat))
    (h : runEvs ops (init ops cfg now rng) evs = .ok (s, out)) :
    s.aq.entries.length ≤ (cfg.rxFrameWindowSize - 1) / 32 + 1 := by
  obtain ⟨aops, ha, hc⟩ := C06_hc_ackq_projection ops cfg now rng evs s out h
  rw [ha]
  exact C06_ackq_bounded_sync_budget _ _ h0 h1 aops (by rw [hc]; exact hbud)

/-- The same with the budget counted over ALL sync frames. -/
theorem C06_hc_ackq_bounded_sync (ops : FloatOps F) (cfg : Config) (now : Nat) (rng : Rng)
    (h0 : 0 < cfg.rxFrameWindowSize) (h1 : cfg.rxFrameWindowSize ≤ 2^31)
    (evs : List Ev) (hbud : (evs.countP isSync + 2) * cfg.rxFrameWindowSize ≤ 2^32)
    (s : State F) (out : List (List Nat))
    (h : runEvs ops (init ops cfg now rng) evs = .ok (s, out)) :
    s.aq.entries.length ≤ (cfg.rxFrameWindowSize - 1) / 32 + 1 := by
  refine C06_hc_ackq_bounded ops cfg now rng h0 h1 evs ?_ s out h
  have := isFrameSync_le evs
  exact Nat.le_trans (Nat.mul_le_mul_right _ (by omega)) hbud

/-! ## Packet sender -/

/-- **C06 (4), projection.** The packet sender of every half-connection run is a run of the packet
sender alone (`PSend.runH`, the runs of C05 / C20) from `PSend.init` with the configured window size,
base id and the peer's allocation limit: `send` is `enqueue_packet`, `flush` is a sequence of
`emit_packet(flush_id)`, an ack frame is some `acknowledge_fragment`s followed by one
`acknowledge(packet_base_id)`. -/
theorem C06_hc_send_projection (ops : FloatOps F) (cfg : Config) (now : Nat) (rng : Rng)
    (evs : List Ev) (s : State F) (out : List (List Nat))
    (h : runEvs ops (init ops cfg now rng) evs = .ok (s, out)) :
    ∃ sops hist, PSend.runH (PSend.init cfg.txPacketWindowSize cfg.txPacketBaseId cfg.txAllocLimit) {}
        sops = .ok (s.ps, hist) ∧
      Props.C20.run (PSend.init cfg.txPacketWindowSize cfg.txPacketBaseId cfg.txAllocLimit) sops
        = .ok s.ps := by
  obtain ⟨sops, hs⟩ := runEvs_ps ops evs _ s out h
  obtain ⟨hist, hh⟩ := runH_of_run _ _ {} sops hs
  exact ⟨sops, hist, hh, hs⟩

/-- **C06 (4), the sender of a half connection respects the advertised limits.** In every
half-connection run the fragment-rounded bytes of the packets outstanding (sent, not yet
acknowledged by the receiver's window base) never exceed the peer's advertised limit
`⌈txAllocLimit / 1448⌉ · 1448`, and at most `txPacketWindowSize` packets are outstanding
(`= sub(next_id, base_id)`), whatever ack frames arrive (forged base ids, replays). -/
theorem C06_hc_send_respects_limit (ops : FloatOps F) (cfg : Config) (now : Nat) (rng : Rng)
    (hw : cfg.txPacketWindowSize < 2^20) (hb : cfg.txPacketBaseId < 2^20)
    (evs : List Ev) (s : State F) (out : List (List Nat))
    (h : runEvs ops (init ops cfg now rng) evs = .ok (s, out)) :
    s.ps.alloc ≤ allocCeil cfg.txAllocLimit ∧ s.ps.maxAlloc = allocCeil cfg.txAllocLimit ∧
    s.ps.win.length ≤ cfg.txPacketWindowSize ∧ s.ps.windowSize = cfg.txPacketWindowSize ∧
    s.ps.win.length = pidSub s.ps.nextId s.ps.baseId := by
  obtain ⟨sops, hist, hh, hs⟩ := C06_hc_send_projection ops cfg now rng evs s out h
  have hm : s.ps.maxAlloc = allocCeil cfg.txAllocLimit := run_maxAlloc sops _ _ hs
  have ha := C05.C05_alloc_bound _ _ _ sops s.ps hist hh
  obtain ⟨w1, w2, w3, _⟩ := C05.C05_window_bound _ _ cfg.txAllocLimit hw hb sops s.ps hist hh
  exact ⟨by rw [← hm]; exact ha, hm, w3, w1, w2⟩

/-! ## Non-vacuity (half connection)

`exOps : FloatOps Nat`, `exCfg` (windows 16, base ids 0, allocation limits 100000) and
`exS0 = init exOps exCfg 0 ⟨[], 0⟩` are those of `Uflow/Lemmas/CreditEx.lean`. -/

open Uflow.CreditEx

/-- A datagram of the example script. -/
def exHcDg (seq chan frag last : Nat) (data : List Nat) : Datagram :=
  { sequenceId := seq, channelId := chan, windowParentLead := 0, channelParentLead := 0,
    fragmentId := frag, fragmentIdLast := last, data := data }

/-- A hostile script for one half connection: the first fragment of a 3-fragment packet that is never
completed, a datagram claiming 65536 fragments, a small packet, a sequence id outside the packet
window, a frame id outside the frame window, a duplicate fragment id, a sync frame moving the frame
window, a datagram on channel 70 and a fragment `1/1`; the application never calls `receive`; two
packets are sent (3 fragments and 1 fragment), flushed (first flush: acknowledgements only, no send
credit yet); a forged ack frame (packet base `2^20 + 7`, wrong nonce), the genuine one, a data frame
outside the moved window, a sync frame with packet id `2^31`. -/
def exHcMem : List Ev :=
  [ .dataFrame 0 true [exHcDg 0 0 0 2 (List.replicate 1448 1), exHcDg 1 3 0 65535 (List.replicate 1448 2)],
    .dataFrame 1 false [exHcDg 2 1 0 0 [5, 6, 7], exHcDg 100 1 0 0 [9]],
    .dataFrame 5000 true [exHcDg 3 1 0 0 [1]],
    .dataFrame 14 true [exHcDg 0 0 2 2 [4, 4]],
    .syncFrame (some 20) (some 0),
    .dataFrame 21 false [exHcDg 4 70 0 0 [1], exHcDg 5 2 1 1 (List.replicate 10 3)],
    .send (List.replicate 3000 9) 1 .reliable, .send [1, 2, 3] 2 .unreliable,
    .step 0, .flush, .step 1000000000, .flush,
    .ackFrame 1 (2^20 + 7) [{ baseId := 0, bitfield := 1, nonce := false }],
    .ackFrame 1 1 [{ baseId := 0, bitfield := 1, nonce := true }],
    .dataFrame 53 true [exHcDg 6 2 0 0 [8]],
    .syncFrame none (some (2^31)) ]

/-- The hypotheses of `C06_hc_recv_bounded`, `C06_hc_ackq_bounded`, `C06_hc_send_respects_limit` hold
for the example configuration and script (one sync frame carries a frame id, two sync frames in
all). -/
example : 0 < exCfg.rxPacketWindowSize ∧ exCfg.rxPacketBaseId < 2^20 ∧
    0 < exCfg.rxFrameWindowSize ∧ exCfg.rxFrameWindowSize ≤ 2^31 ∧
    exHcMem.countP isFrameSync = 1 ∧ exHcMem.countP isSync = 2 ∧
    (exHcMem.countP isFrameSync + 2) * exCfg.rxFrameWindowSize ≤ 2^32 ∧
    (exHcMem.countP isSync + 2) * exCfg.rxFrameWindowSize ≤ 2^32 ∧
    exCfg.txPacketWindowSize < 2^20 ∧ exCfg.txPacketBaseId < 2^20 := by decide

/-- The script runs (it is within the API preconditions: `C03_hc_run_no_trap`), and, evaluating the
model: the receiver holds 7243 bytes in 4 slots although the application never called `receive`
(4344 of them for the packet that never completes), three frames were emitted, the ack queue is
empty after the flush and its window moved to 22. -/
example : (match runEvs exOps exS0 exHcMem with
    | .ok (s, out) => decide (out.length = 3 ∧ s.pr.alloc = 7243 ∧ PRecv.held s.pr = 7243 ∧
        s.pr.slots.length = 4 ∧ s.pr.alloc ≤ allocCeil exCfg.rxAllocLimit ∧
        s.aq.entries.length = 0 ∧ s.aq.baseId = 22 ∧ s.ps.alloc = 0 ∧ s.ps.win.length = 0)
    | .error _ => false) = true := by decide +kernel

/-- After the second flush (before the ack frames) the sender has one packet of 3 fragments
outstanding: `alloc = 3 · 1448 ≤ ⌈100000 / 1448⌉ · 1448`; before the flush one acknowledgement group
is pending (bound `⌈16 / 32⌉ = 1`). -/
example : (match runEvs exOps exS0 (exHcMem.take 12) with
    | .ok (s, _) => decide (s.ps.alloc = 4344 ∧ s.ps.win.length = 1 ∧
        s.ps.alloc ≤ allocCeil exCfg.txAllocLimit ∧ s.ps.win.length ≤ exCfg.txPacketWindowSize)
    | .error _ => false) = true ∧
    (match runEvs exOps exS0 (exHcMem.take 11) with
    | .ok (s, _) => decide (s.aq.entries.length = 1 ∧
        s.aq.entries.length ≤ (exCfg.rxFrameWindowSize - 1) / 32 + 1)
    | .error _ => false) = true := by decide +kernel

/-- The theorems applied to the example run. -/
example : ∃ s out, runEvs exOps exS0 exHcMem = .ok (s, out) ∧
    RecvBounded 16 100000 s.pr ∧ s.aq.entries.length ≤ (16 - 1) / 32 + 1 ∧
    s.ps.alloc ≤ allocCeil 100000 ∧ s.ps.win.length ≤ 16 := by
  have hd : (match runEvs exOps exS0 exHcMem with
      | .ok _ => true
      | .error _ => false) = true := by decide +kernel
  cases hr : runEvs exOps exS0 exHcMem with
  | error t => rw [hr] at hd; cases hd
  | ok v =>
    obtain ⟨s, out⟩ := v
    have hr' : runEvs exOps (init exOps exCfg 0 { fifo := [], state := 0 }) exHcMem = .ok (s, out) := hr
    have h4 := C06_hc_send_respects_limit exOps exCfg 0 _ (by decide) (by decide) exHcMem s out hr'
    exact ⟨s, out, rfl, C06_hc_recv_bounded exOps exCfg 0 _ (by decide) (by decide) exHcMem s out hr',
      C06_hc_ackq_bounded exOps exCfg 0 _ (by decide) (by decide) exHcMem (by decide) s out hr',
      h4.1, h4.2.2.1⟩

/-! ## Endpoints: the memory a server / client holds per connection is bounded by ITS OWN configuration

`Server` / `Client` (`Uflow/Model/Endpoint.lean`) run over the half connection `hcOf fops`
(`Uflow/Lemmas/EpNoTrapHc.lean`, the driver's instance for arbitrary float operations). Runs are those of
C03Ep: `runS` / `Client.run` over lists of API operations, every `step` carrying ARBITRARY datagrams
(arbitrary source addresses and bytes). The endpoints create half connections with
`hcConfig ep …`, whose `rxAllocLimit` is the endpoint's own `max_receive_alloc` and whose receive
window is 4096 packets — nothing the peer announces in the handshake enters the receiver's limits
(`pin_hcConfig`). The number of connections is bounded by `max_total_connections` (`C17_inv`). -/

open Uflow.Endpoint Uflow.EpNoTrap Uflow.EpMem
open Uflow.Rate (BisectConverges)
open Uflow.HcInv (LossOk lastNow)

theorem hcOf_newAgrees (fops : FloatOps F) (A : Nat) :
    NewAgrees (hcOf fops) (fun c now => (hcOf fops).new (pin A c) now) A := by
  intro ep ln rn rate alloc now hA
  subst hA
  rfl

/-- The per-connection bound for a server state: every connection object that is active (in the map or
detached but still referenced) has a half connection whose receiver satisfies `RecvBounded` for the
window of 4096 packets and the limit `A`. -/
def SrvRecvBounded (A : Nat) (s : Server (HalfConn.State F)) : Prop :=
  ∀ c ∈ s.clients ++ s.detached, ∀ h t sig, c.state = .active h t sig →
    RecvBounded MAX_PACKET_WINDOW_SIZE A h.pr

theorem srvRecvBounded_of_inv {A T : Nat} {s : Server (HalfConn.State F)}
    (hi : SrvInv (InvA A) lastNow T s) : SrvRecvBounded A s := by
  intro c hc h t sig hst
  have := hi.inv.core c hc
  rw [hst] at this
  exact recvBounded_of_inv this.1.2

/-- Server runs from any state satisfying the (strengthened) invariant. -/
theorem C06_server_recv_bounded_from (fops : FloatOps F) (hconv : BisectConverges fops)
    (hloss : LossOk fops) {T : Nat} {s : Server (HalfConn.State F)}
    (hi : SrvInv (InvA s.cfg.ep.maxReceiveAlloc) lastNow T s) (ops : List SOp)
    (hops : sopsOk T ops = true) :
    ∃ s' sent evs, runS (hcOf fops) s ops = .ok (s', sent, evs) ∧ s'.cfg = s.cfg ∧
      SrvInv (InvA s.cfg.ep.maxReceiveAlloc) lastNow (sopsTime T ops) s' ∧
      SrvRecvBounded s.cfg.ep.maxReceiveAlloc s' := by
  obtain ⟨s', sent, evs, hr, hi', hc⟩ := runS_congr (hcOf_newAgrees fops _)
    (hcA_ok fops hconv hloss s.cfg.ep.maxReceiveAlloc) ops hi rfl hops
  exact ⟨s', sent, evs, hr, hc, hi', srvRecvBounded_of_inv hi'⟩

/-- **C06 (5), server.** From `Server::bind`, for EVERY sequence of API operations within their
preconditions (`sopsOk`: non-decreasing step times, `send` within its assertions) — every `step` with
arbitrary datagrams from arbitrary addresses — the run does not trap, the configuration is unchanged,
and every active connection's receiver satisfies `RecvBounded 4096 cfg.ep.maxReceiveAlloc`: its
allocation counter and the bytes it actually holds (assembly buffers and undelivered packets) are at
most `⌈max_receive_alloc / 1448⌉ · 1448` and it has at most 4096 slots — no matter what the peers
send and whether the application ever drains the events. -/
theorem C06_server_recv_bounded (fops : FloatOps F) (hconv : BisectConverges fops) (hloss : LossOk fops)
    (cfg : SrvConfig) (now : Nat) (rng : Rng) (ops : List SOp) (hops : sopsOk 0 ops = true) :
    ∃ s' sent evs, runS (hcOf fops) (Server.init cfg now rng) ops = .ok (s', sent, evs) ∧ s'.cfg = cfg ∧
      SrvRecvBounded cfg.ep.maxReceiveAlloc s' := by
  obtain ⟨s', sent, evs, hr, hc, _, hb⟩ := C06_server_recv_bounded_from fops hconv hloss
    (s := Server.init cfg now rng) (T := 0) (SrvInv.init cfg now rng 0) ops hops
  exact ⟨s', sent, evs, hr, hc, hb⟩

/-- The headline inequality for the server. -/
theorem C06_server_recv_held_le (fops : FloatOps F) (hconv : BisectConverges fops) (hloss : LossOk fops)
    (cfg : SrvConfig) (now : Nat) (rng : Rng) (ops : List SOp) (hops : sopsOk 0 ops = true) :
    ∃ s' sent evs, runS (hcOf fops) (Server.init cfg now rng) ops = .ok (s', sent, evs) ∧
      ∀ c ∈ s'.clients ++ s'.detached, ∀ h t sig, c.state = .active h t sig →
        PRecv.held h.pr ≤ allocCeil cfg.ep.maxReceiveAlloc ∧ h.pr.slots.length ≤ MAX_PACKET_WINDOW_SIZE := by
  obtain ⟨s', sent, evs, hr, _, hb⟩ := C06_server_recv_bounded fops hconv hloss cfg now rng ops hops
  refine ⟨s', sent, evs, hr, fun c hc h t sig hst => ?_⟩
  have := hb c hc h t sig hst
  exact ⟨Nat.le_trans this.held_le this.alloc_le, this.slots_le⟩

/-- The bound for a client state. -/
def CliRecvBounded (A : Nat) (c : Client (HalfConn.State F)) : Prop :=
  ∀ ln h t sig, c.state = .active ln h t sig → RecvBounded MAX_PACKET_WINDOW_SIZE A h.pr

theorem connect_ep (ep : EpConfig) (now : Nat) (rng : Rng) :
    (Client.connect ep now rng : Client (HalfConn.State F) × List (List Nat)).1.ep = ep := by
  unfold Client.connect
  rfl

/-- **C06 (5), client.** From `Client::connect`, for every sequence of API operations within their
preconditions, with arbitrary datagrams in every `step`: once connected, the receiver of the client's
half connection satisfies `RecvBounded 4096 ep.maxReceiveAlloc`. -/
theorem C06_client_recv_bounded (fops : FloatOps F) (hconv : BisectConverges fops) (hloss : LossOk fops)
    (ep : EpConfig) (now : Nat) (rng : Rng) (ops : List COp) (hops : copsOk 0 ops = true) :
    ∃ c' sent evs, Client.run (hcOf fops) (Client.connect ep now rng).1 ops = .ok (c', sent, evs) ∧
      c'.ep = ep ∧ CliRecvBounded ep.maxReceiveAlloc c' := by
  obtain ⟨c', sent, evs, hr, hi, he⟩ := cRun_congr (hcOf_newAgrees fops ep.maxReceiveAlloc)
    (hcA_ok fops hconv hloss ep.maxReceiveAlloc) ops
    (c := (Client.connect ep now rng).1) (T := 0) (connect_inv ep now rng 0) (by rw [connect_ep]) hops
  refine ⟨c', sent, evs, hr, he.trans (connect_ep ep now rng), ?_⟩
  intro ln h t sig hst
  have hs : CStOk (InvA ep.maxReceiveAlloc) lastNow (copsTime 0 ops) c'.state := hi
  rw [hst] at hs
  exact recvBounded_of_inv hs.1.2

/-! ### Non-vacuity (endpoints)

`hcN = hcOf exOps`, `cfg0` (`max_receive_alloc = 100000`), the handshake datagrams `exHandshake` of two
clients (addresses 7 and 8), the connected server `exSrv2` they lead to (`exSrv2_from_bytes`) and
`exCli0`, `synAck` are those of `Uflow/Lemmas/EpNoTrapEx.lean`. -/

open Uflow.EpNoTrap.Ex

-- payloads are encoded / decoded by the kernel
set_option maxRecDepth 100000

/-- The last fragment (of 3) of the packet client 7 sends after `dgGood`; the packet is never completed
(the receiver allocates `3 · 1448` bytes for it). -/
def exFrag2 : Datagram :=
  { sequenceId := 6, channelId := 1, windowParentLead := 0, channelParentLead := 0,
    fragmentId := 2, fragmentIdLast := 2, data := [1, 2, 3] }

/-- A server script from `Server::bind`: the handshakes of two clients arrive as datagrams in the first
step; in the second, client 7 sends a complete packet, a fragment of a packet it never completes, and
hostile data / ack / sync frames. -/
def exSrvMem : List SOp :=
  [.step 1000000 exHandshake,
   .step 3000000 [(7, goodData), (7, encode (.data 6 true [exFrag2])), (7, hostileData), (7, hostileAck),
                  (7, hostileSync)],
   .flush]

/-- The side condition holds for the script, hence (by the theorem) it runs from `Server::bind` and every
active connection is within the bound. -/
example : sopsOk 0 exSrvMem = true ∧
    ∃ s' sent evs, runS hcN (Server.init cfg0 0 ⟨[77, 88], 1⟩) exSrvMem = .ok (s', sent, evs) ∧
      s'.cfg = cfg0 ∧ SrvRecvBounded 100000 s' :=
  ⟨by decide +kernel,
   C06_server_recv_bounded exOps exOps_converges exOps_lossOk cfg0 0 _ exSrvMem (by decide +kernel)⟩

/-- The strengthened invariant in a concrete non-trivial state: the connected server `exSrv2` (two
active connections; reached from the fresh server by the handshake datagrams). -/
example : SrvInv (InvA (F := Nat) exSrv2.cfg.ep.maxReceiveAlloc) lastNow 1000000 exSrv2 ∧
    exSrv2.clients.length = 2 := by
  refine ⟨?_, by decide +kernel⟩
  rw [Uflow.EpMem.Ex.exSrv2_invA.2]
  exact Uflow.EpMem.Ex.exSrv2_invA.1

/-- From that state, by the theorem, the second and third operation of the script run within the bound;
evaluating the model, the run is not trivial: the connection of client 7 holds the `3 · 1448` bytes
allocated for the incomplete packet (the complete one was delivered to the application), within
`⌈100000 / 1448⌉ · 1448 = 101360`; the connection of client 8 holds nothing. -/
example : (∃ s' sent evs, runS hcN exSrv2 (exSrvMem.drop 1) = .ok (s', sent, evs) ∧
      SrvRecvBounded exSrv2.cfg.ep.maxReceiveAlloc s') ∧
    (match runS hcN exSrv2 (exSrvMem.drop 1) with
     | .ok (s, _, _) =>
       decide (s.clients.length = 2 ∧ s.cfg.ep.maxReceiveAlloc = 100000) &&
       s.clients.all (fun c => match c.state with
         | .active h _ _ => decide (h.pr.alloc = (if c.address = 7 then 4344 else 0) ∧
             PRecv.held h.pr ≤ h.pr.alloc ∧ h.pr.alloc ≤ allocCeil 100000 ∧ allocCeil 100000 = 101360)
         | _ => false)
     | .error _ => false) = true := by
  refine ⟨?_, by decide +kernel⟩
  have hi : SrvInv (InvA (F := Nat) exSrv2.cfg.ep.maxReceiveAlloc) lastNow 1000000 exSrv2 := by
    rw [Uflow.EpMem.Ex.exSrv2_invA.2]
    exact Uflow.EpMem.Ex.exSrv2_invA.1
  obtain ⟨s', sent, evs, hr, _, _, hb⟩ := C06_server_recv_bounded_from exOps exOps_converges exOps_lossOk
    hi (exSrvMem.drop 1) (by decide +kernel)
  exact ⟨s', sent, evs, hr, hb⟩

/-- A client script: connect, the SYN-ACK, then a complete packet and a fragment of an
incomplete one from the server. -/
def exCliMem : List COp :=
  [.step 1000000 [synAck],
   .step 2000000 [cGoodData, encode (.data 89 true [{ exFrag2 with sequenceId := 89 }]), cHostileData,
                  hostileAck, hostileSync]]

example : copsOk 0 exCliMem = true := by decide +kernel

example : (match Client.run hcN exCli0 exCliMem with
    | .ok (c, _, _) =>
      (match c.state with
       | .active _ h _ _ => decide (h.pr.alloc = 4344 ∧ PRecv.held h.pr ≤ h.pr.alloc ∧
           h.pr.alloc ≤ allocCeil ep0.maxReceiveAlloc)
       | _ => false)
    | .error _ => false) = true := by decide +kernel

example : ∃ c' sent evs, Client.run hcN exCli0 exCliMem = .ok (c', sent, evs) ∧ c'.ep = ep0 ∧
    CliRecvBounded 100000 c' :=
  C06_client_recv_bounded exOps exOps_converges exOps_lossOk ep0 0 _ exCliMem (by decide +kernel)

end Uflow.Props.C06
