import Uflow.Lemmas.EpCeilCliTxHc
import Uflow.Lemmas.EpCeilCliTxEx
import Uflow.Props.C13Ep

/-!
# C13 (endpoints) — the exact statement for the CLIENT's wire

`Props/C13Ep.lean` ties the frames of a server connection's half connection to the server's `sent`
log, and shows (`C13_ep_client_hsack_witness`, known finding F23) that the same identity is false for
the client: an `Active` client answers every SYN-ACK carrying its nonce with a 9-byte handshake ACK
written directly to the socket (`src/client/mod.rs`, `handle_handshake_syn_ack` in state `Active`;
model `Client.handleFrame`, `.synAck` case in state `.active`). This file proves what IS true, exactly.

Vocabulary (`Uflow.EpCeil`, `Uflow/Lemmas/EpCeilCliTx*.lean`), besides that of `C13Ep.lean`:

* `hsAckBytes n = encode (.hsAck n)`: the handshake ACK datagram for server nonce `n` (9 bytes).
* `saNonce ln b`: `some n` iff the datagram `b` parses (after truncation to the 1472-byte receive
  buffer) to a SYN-ACK whose `nonce_ack` is `ln` and whose server nonce is `n`.
  `saNonces ln rx = rx.filterMap (saNonce ln)`: the server nonces of the SYN-ACKs acknowledging `ln`
  among the datagrams `rx`, in arrival order.
* `Interleave a b w`: `w` is a merge of the lists `a` and `b`, each in its own order (inductive;
  `Interleave.length_eq`, `Interleave.bytes_eq`: lengths and byte counts add up;
  `Interleave.eq_of_right_nil`: with `b = []`, `w = a`; `Interleave.filter_split`; `Interleave.mem_iff`).
* `XEv`, the TRACE of an active client: `g e` — the endpoint does `e : GEv` to its half connection
  (`step`, `flush` with the client's generator, `send`, `receive`, a dispatched data / ack / sync frame);
  the frames returned go on the wire — or `sa n` — a SYN-ACK carrying the client's nonce arrived and
  was answered with `hsAckBytes n`; the half connection is not touched.
  `xrun ops s tr = .ok (s', w)`: final state and EVERYTHING written to the socket, in order.
  `xerase tr : List GEv` is the projection of `C13Ep.lean`, `xnonces tr` the nonces of the `sa` items,
  `xacks tr = (xnonces tr).map hsAckBytes`.

The invariant behind the theorems (`CInvX` with `InvX`, log- and arrival-indexed, threaded through
every phase of `Client::step` and every API call): an `Active` client with nonce `ln` has received
`rx1 ++ b :: rx2` where `b` is the SYN-ACK that activated it, has sent `pre ++ hsAckBytes n :: post`
where that datagram is the ACK sent at activation, and `post` is what a trace `tr` wrote to the socket
from `HalfConn.init` of the negotiated configuration, with `xnonces tr = saNonces ln rx2`.

No partial items: all four goals (projection, tight bound, honest bound, non-vacuity) are proved.
-/

namespace Uflow.Props.C13

open Uflow Uflow.Gen Uflow.Codec Uflow.HalfConn Uflow.Endpoint Uflow.EpNoTrap Uflow.EpCeil Uflow.Credit
open Uflow.CreditBound Uflow.CreditEx
open Uflow.Rate (FloatOps BisectConverges)
open Uflow.HcInv (lastNow evsOk LossOk)

variable {F : Type}

/-! ## 1. The client's log since activation -/

/-- **Projection of a client run, tied to the wire.** In every run of a `Client` from
`Client::connect ep` (`copsOk`: clock monotone, `send`s within their assertions; ARBITRARY datagrams),
which cannot trap (C03), if the client ends `Active` with local nonce `ln` and half connection `h`:

* the arrivals of the run are `rx1 ++ b :: rx2` where `b` is the SYN-ACK that activated the client: it
  parses to `synAck ln n r p al` (so `SynAckIn … n r al` as in `C13_ep_client_projects_partial`);
* `h` is a projection `Proj ops ep h ln n r al t0 (xerase tr) out cr` — the SAME local nonce `ln` —
  of a trace `tr` (the events include the `send`s queued while pending, replayed after creation);
* there is a log position `k`, `1 ≤ k ≤ sent.length`, with `sent[k-1] = hsAckBytes n` the handshake
  ACK `handle_handshake_syn_ack` sent at activation, such that the datagrams sent from `k` on are
  exactly what the trace wrote: `xrun … tr = .ok (h, sent.drop k)`;
* `sent.drop k` is an INTERLEAVING of `out` (the frames returned by the `flush` events of the half
  connection) with `acks = (saNonces ln rx2).map hsAckBytes`: one handshake ACK `encode (.hsAck n')`
  for EVERY datagram that arrived after `b` and parses to a SYN-ACK with `nonce_ack = ln`, `n'` being
  that datagram's server nonce, in arrival order — no more, no fewer (`xnonces tr = saNonces ln rx2`).
  The ACK sent at activation is at position `k - 1`, before the stretch, and is not counted.

`C13_ep_client_acks_spec` spells out the elements and the length of `acks`. -/
theorem C13_ep_client_projects (ops : FloatOps F) (hconv : BisectConverges ops) (hloss : LossOk ops)
    (ep : EpConfig) (now : Nat) (rng : Rng) (cops : List COp) (hops : copsOk 0 cops = true) :
    ∃ c' sent evs, Client.run (hcOf ops) (Client.connect ep now rng).1 cops = .ok (c', sent, evs) ∧
      ∀ ln h t sig, c'.state = .active ln h t sig →
        ∃ n r p al t0 tr out cr k rx1 b rx2,
          copsArrivals cops = rx1 ++ b :: rx2 ∧
          decode (b.take MAX_FRAME_SIZE) = some (.synAck ln n r p al) ∧
          SynAckIn (copsArrivals cops) 0 n r al ∧
          Proj ops ep h ln n r al t0 (xerase tr) out cr ∧
          1 ≤ k ∧ k ≤ sent.length ∧ sent[k - 1]? = some (hsAckBytes n) ∧
          xrun ops (init ops (hcConfig ep ln n r al) t0 rng0) tr = .ok (h, sent.drop k) ∧
          xnonces tr = saNonces ln rx2 ∧
          Interleave out ((saNonces ln rx2).map hsAckBytes) (sent.drop k) :=
  cli_run_projects ops hconv hloss ep now rng cops hops

/-- **What the handshake ACKs are.** For any datagrams `rx` (take `rx2`, the arrivals after the
activating SYN-ACK): every element of `acks = (saNonces ln rx).map hsAckBytes` is
`encode (.hsAck n')` for the server nonce `n'` of some datagram of `rx` that parses to a SYN-ACK
carrying the client's own nonce `ln`; and `acks.length` EQUALS the number of such datagrams in `rx`
(in particular `≤ rx.length`). -/
theorem C13_ep_client_acks_spec (ln : Nat) (rx : List (List Nat)) :
    (∀ a ∈ (saNonces ln rx).map hsAckBytes, ∃ b ∈ rx, ∃ n' r p al,
      decode (b.take MAX_FRAME_SIZE) = some (.synAck ln n' r p al) ∧ a = encode (.hsAck n')) ∧
    ((saNonces ln rx).map hsAckBytes).length = (rx.filter fun b => (saNonce ln b).isSome).length ∧
    (rx.filter fun b => (saNonce ln b).isSome).length ≤ rx.length :=
  saNonces_spec ln rx

/-- The byte count of the client's log since activation: the frames of the half connection plus
9 bytes per SYN-ACK carrying its nonce received since (`Interleave.bytes_eq`, `encode_hsAck_length`). -/
theorem C13_ep_client_bytes (out w : List (List Nat)) (ns : List Nat)
    (h : Interleave out (ns.map hsAckBytes) w) : bytes w = bytes out + 9 * ns.length := by
  rw [h.bytes_eq]
  clear h
  congr 1
  unfold bytes
  induction ns with
  | nil => rfl
  | cons n rest ih => simp only [List.map_cons, List.sum_cons, List.length_cons, hsAckBytes_length, ih]; omega

/-! ## 2. The tight bound -/

/-- **The C13 bound for everything an `Active` client puts on the wire.** With the data of
`C13_ep_client_projects`: if the ceiling `m = min (ep.maxSendRate % 2^32) r` is at least one frame per
second and inside the domain of `K`, and the `step`s are at most `K.maxDt` apart, then for EVERY way
of writing the trace as `pre1 ++ step t1 :: pre2 ++ evs` (`pre2` without `step`) the run splits at
states `p` (before `step t1`), `q`, `s`; the log since activation is `w1 ++ w2 ++ w3` with `w3` the
datagrams written to the socket during `evs`; `w3` is an interleaving of `o3` (the frames the half
connection emitted during `evs`) with the handshake ACKs `xacks evs` of the stretch, and

`bytes w3 · 10⁹ ≤ m × ((time of the last step in evs − t1) + RTT) + 1472.5·10⁹ + v(frac) + k·eps
                 + 9 · 10⁹ × (number of SYN-ACKs carrying its nonce answered during evs)`.

The first line is the C13 bound of `C13_ep_server_wire_bound`; the excess is exactly the unmetered
handshake ACKs (F23). The SYN-ACKs of the stretch are the LAST `(xnonces evs).length` entries of
`saNonces ln rx2`. -/
theorem C13_ep_client_wire_bound (ops : FloatOps F) (hconv : BisectConverges ops) (hloss : LossOk ops)
    {eps : Nat} (K : FillOk ops eps) (M : FillMaxOk ops)
    (ep : EpConfig) (now : Nat) (rng : Rng) (cops : List COp) (hops : copsOk 0 cops = true) :
    ∃ c' sent evs, Client.run (hcOf ops) (Client.connect ep now rng).1 cops = .ok (c', sent, evs) ∧
      ∀ ln h t sig, c'.state = .active ln h t sig →
        ∃ n r p al t0 tr out cr k rx1 b rx2,
          copsArrivals cops = rx1 ++ b :: rx2 ∧
          decode (b.take MAX_FRAME_SIZE) = some (.synAck ln n r p al) ∧
          Proj ops ep h ln n r al t0 (xerase tr) out cr ∧
          1 ≤ k ∧ k ≤ sent.length ∧ sent[k - 1]? = some (hsAckBytes n) ∧
          xrun ops (init ops (hcConfig ep ln n r al) t0 rng0) tr = .ok (h, sent.drop k) ∧
          xnonces tr = saNonces ln rx2 ∧
          (MSS ≤ min (ep.maxSendRate % 2^32) r → min (ep.maxSendRate % 2^32) r ≤ K.maxRate →
            stepsOk K.maxDt t0 (erase (xerase tr)) = true →
            ∀ pre1 pre2 evs t1, tr = pre1 ++ .g (.ev (.step t1)) :: pre2 ++ evs →
              (∀ ev ∈ erase (xerase pre2), ∀ t, ev ≠ .step t) →
              ∃ (p q s : State F) (w1 w2 w3 o3 : List (List Nat)) (c3 : Int),
                xrun ops (init ops (hcConfig ep ln n r al) t0 rng0) pre1 = .ok (p, w1) ∧
                step ops p t1 = .ok q ∧ xrun ops q pre2 = .ok (s, w2) ∧ xrun ops s evs = .ok (h, w3) ∧
                sent.drop k = w1 ++ w2 ++ w3 ∧
                saNonces ln rx2 = xnonces (pre1 ++ .g (.ev (.step t1)) :: pre2) ++ xnonces evs ∧
                grun ops s (xerase evs) = .ok (h, o3, c3) ∧ Interleave o3 (xacks evs) w3 ∧
                bytes w3 * 1000000000 ≤
                  min (ep.maxSendRate % 2^32) r * ((endTime t1 (erase (xerase evs)) - t1) + M.rttNs p.rate.rttS) +
                    1472500000000 + K.v s.flushFrac + nSteps (erase (xerase evs)) * eps +
                    9 * 1000000000 * (xnonces evs).length ∧
                K.v s.flushFrac < 1000000000) := by
  obtain ⟨c', sent, evs, hr, hi⟩ := cli_run_projects ops hconv hloss ep now rng cops hops
  refine ⟨c', sent, evs, hr, ?_⟩
  intro ln h t sig hst
  obtain ⟨n, r, p, al, t0, tr, out, cr, k, rx1, b, rx2, e2, hd, _, pj, k1, k2, k3, hx, hn, _⟩ := hi ln h t sig hst
  refine ⟨n, r, p, al, t0, tr, out, cr, k, rx1, b, rx2, e2, hd, pj, k1, k2, k3, hx, hn, ?_⟩
  intro hm hR ht pre1 pre2 evs' t1 hg hns
  subst hg
  obtain ⟨p', q, s, w1, w2, w3, o3, c3, x1, hstep, x2, x3, hw, g3, i3, hb, hfrac⟩ :=
    xwire_init ops K M ep ln n r al t0 hm hR pre1 pre2 evs' t1 h out (sent.drop k) cr pj.run hx
      (evsOk_ok _ _ pj.ok) ht hns
  exact ⟨p', q, s, w1, w2, w3, o3, c3, x1, hstep, x2, x3, hw, by rw [← hn, xnonces_append], g3, i3, hb, hfrac⟩

/-! ## 3. The honest case -/

/-- **The plain C13 bound for an honest peer.** Suppose no SYN-ACK among the arrivals of the run is
followed by another datagram that parses to a SYN-ACK acknowledging the same nonce (the honest,
duplicate-free case: the server sends its SYN-ACK once, or stops resending once it has the ACK, and
nobody replays it). Then for a client that ends `Active` the handshake-ACK list is empty: the
datagrams sent from position `k` on (right after the ACK sent at activation, `sent[k-1]`) are EXACTLY
the frames `out` of the projection — the identity `C13_ep_connection_projects` has for the server —
and the C13 bound of `C13_ep_server_wire_bound` holds verbatim for everything the client puts on the
wire: for every split `pre1 ++ step t1 :: pre2 ++ evs` of the projection's events,
`sent.drop k = o1 ++ o2 ++ o3` and `bytes o3 ≤ m × (Δt + RTT) + 1472.5 bytes + fraction + k·eps`. -/
theorem C13_ep_client_wire_bound_honest (ops : FloatOps F) (hconv : BisectConverges ops) (hloss : LossOk ops)
    {eps : Nat} (K : FillOk ops eps) (M : FillMaxOk ops)
    (ep : EpConfig) (now : Nat) (rng : Rng) (cops : List COp) (hops : copsOk 0 cops = true)
    (hhon : ∀ (na : Nat) (rx1 : List (List Nat)) (b : List Nat) (rx2 : List (List Nat)),
      copsArrivals cops = rx1 ++ b :: rx2 →
      (∃ n r p al, decode (b.take MAX_FRAME_SIZE) = some (.synAck na n r p al)) → saNonces na rx2 = []) :
    ∃ c' sent evs, Client.run (hcOf ops) (Client.connect ep now rng).1 cops = .ok (c', sent, evs) ∧
      ∀ ln h t sig, c'.state = .active ln h t sig →
        ∃ n r al t0 gevs out cr k, SynAckIn (copsArrivals cops) 0 n r al ∧
          Proj ops ep h ln n r al t0 gevs out cr ∧
          1 ≤ k ∧ k ≤ sent.length ∧ sent[k - 1]? = some (hsAckBytes n) ∧ sent.drop k = out ∧
          (MSS ≤ min (ep.maxSendRate % 2^32) r → min (ep.maxSendRate % 2^32) r ≤ K.maxRate →
            stepsOk K.maxDt t0 (erase gevs) = true →
            ∀ pre1 pre2 evs t1, gevs = pre1 ++ .ev (.step t1) :: pre2 ++ evs →
              (∀ ev ∈ erase pre2, ∀ t, ev ≠ .step t) →
              ∃ (p q s : State F) (o1 o2 o3 : List (List Nat)) (c1 c2 c3 : Int),
                grun ops (init ops (hcConfig ep ln n r al) t0 rng0) pre1 = .ok (p, o1, c1) ∧
                step ops p t1 = .ok q ∧ grun ops q pre2 = .ok (s, o2, c2) ∧
                grun ops s evs = .ok (h, o3, c3) ∧ sent.drop k = o1 ++ o2 ++ o3 ∧
                bytes o3 * 1000000000 ≤
                  min (ep.maxSendRate % 2^32) r * ((endTime t1 (erase evs) - t1) + M.rttNs p.rate.rttS) +
                    1472500000000 + K.v s.flushFrac + nSteps (erase evs) * eps ∧
                K.v s.flushFrac < 1000000000) := by
  obtain ⟨c', sent, evs, hr, hi⟩ := cli_run_projects ops hconv hloss ep now rng cops hops
  refine ⟨c', sent, evs, hr, ?_⟩
  intro ln h t sig hst
  obtain ⟨n, r, p, al, t0, tr, out, cr, k, rx1, b, rx2, e2, hd, hsa, pj, k1, k2, k3, hx, hn, _⟩ := hi ln h t sig hst
  have hnil : xnonces tr = [] := by rw [hn]; exact hhon ln rx1 b rx2 e2 ⟨n, r, p, al, hd⟩
  have hout : sent.drop k = out := xrun_no_acks ops tr _ h _ out cr hnil hx pj.run
  refine ⟨n, r, al, t0, xerase tr, out, cr, k, hsa, pj, k1, k2, k3, hout, ?_⟩
  intro hm hR ht pre1 pre2 evs' t1 hg hns
  have hrun := pj.run
  have hok := evsOk_ok _ _ pj.ok
  rw [hg] at hrun hok ht
  obtain ⟨p', q, s, o1, o2, o3, c1, c2, c3, g1, hstep, g2, g3, ho, hb, hfrac⟩ :=
    gwire_init ops K M ep ln n r al t0 hm hR pre1 pre2 evs' t1 h out cr hrun hok ht hns
  exact ⟨p', q, s, o1, o2, o3, c1, c2, c3, g1, hstep, g2, g3, by rw [hout, ho], hb, hfrac⟩

/-! ## 4. Non-vacuity -/

open Uflow.EpNoTrap.Ex Uflow.EpCeil.Ex

/-- **The extra term is attained** (the situation of `C13_ep_client_hsack_witness`, as a run from
`Client::connect`). `exHsOps = [step 1 ms [synAckL], step 1 ms (170 × synAckL)]` on the client of the
examples (nonce 55): the hypotheses of the run theorems hold (`exOps`, `copsOk`); the run is trap free
and ends `Active` with nonce 55 and ceiling 1472 B/s; the arrivals are `[] ++ synAckL :: rx2` with
`rx2` the 170 copies, `(saNonces 55 rx2).length = 170`; `sent[0]` is the activation ACK (`k = 1`) and
the 170 datagrams after it are all `hsAckBytes 88`, `1530 = 0 + 9 × 170` bytes: the half connection
emitted nothing, zero time elapsed, and the plain C13 expression `1472 × (0 + 0) + 1472.5 + 1` is
exceeded while the bound of `C13_ep_client_wire_bound` (with `+ 9 × 170`) holds. -/
theorem C13_ep_client_hsack_attained :
    BisectConverges exOps ∧ LossOk exOps ∧ copsOk 0 exHsOps = true ∧ exHsRunChk = true ∧
    copsArrivals exHsOps = [] ++ synAckL :: List.replicate 170 synAckL ∧
    (saNonces 55 (List.replicate 170 synAckL)).length = 170 ∧
    ¬ (1530 * 1000000000 ≤ 1472 * (0 + 0) + 1472500000000 + 1000000000) ∧
    1530 * 1000000000 ≤ 1472 * (0 + 0) + 1472500000000 + 1000000000 + 9 * 1000000000 * 170 :=
  ⟨exOps_converges, exOps_lossOk, exHsRunChk_true.2, exHsRunChk_true.1, exHs_nonces.2, exHs_nonces.1,
    by decide, by decide⟩

/-- **An honest run with a data exchange.** `exHonOps = [step 1 ms [synAck], send [1,2,3], step 2 ms
[a data frame of the server], flush, step 3 ms []]`: `copsOk`; the arrivals satisfy the hypothesis
`hhon` of `C13_ep_client_wire_bound_honest`; the run is trap free, ends `Active` with nonce 55, delivers
`connect` and `receive [4,5,6]`, and sends exactly the activation ACK (9 bytes) followed by one data
frame of the half connection (19 bytes): `sent.drop 1 = out`. -/
theorem C13_ep_client_honest_example :
    copsOk 0 exHonOps = true ∧ exHonRunChk = true ∧
    (∀ (na : Nat) (rx1 : List (List Nat)) (b : List Nat) (rx2 : List (List Nat)),
      copsArrivals exHonOps = rx1 ++ b :: rx2 →
      (∃ n r p al, decode (b.take MAX_FRAME_SIZE) = some (.synAck na n r p al)) → saNonces na rx2 = []) :=
  ⟨exHonRunChk_true.2, exHonRunChk_true.1, exHon_honest⟩

/-- `C13_ep_client_projects` applied to the honest example run (which ends `Active`, so the
conclusion is not vacuous): the log after the activation ACK IS the projection's `out`. -/
example : ∃ c' sent evs, Client.run hcN (Client.connect ep0 0 ⟨[55], 1⟩).1 exHonOps = .ok (c', sent, evs) ∧
    ∀ ln h t sig, c'.state = .active ln h t sig →
      ∃ n r al t0 tr out cr k, Proj exOps ep0 h ln n r al t0 (xerase tr) out cr ∧ 1 ≤ k ∧ k ≤ sent.length ∧
        sent[k - 1]? = some (hsAckBytes n) ∧ sent.drop k = out := by
  obtain ⟨c', sent, evs, hr, hi⟩ := C13_ep_client_projects exOps exOps_converges exOps_lossOk ep0 0 ⟨[55], 1⟩
    exHonOps exHonRunChk_true.2
  refine ⟨c', sent, evs, hr, fun ln h t sig hst => ?_⟩
  obtain ⟨n, r, p, al, t0, tr, out, cr, k, rx1, b, rx2, e2, hd, _, pj, k1, k2, k3, hx, hn, _⟩ := hi ln h t sig hst
  have hnil : xnonces tr = [] := by rw [hn]; exact exHon_honest ln rx1 b rx2 e2 ⟨n, r, p, al, hd⟩
  exact ⟨n, r, al, t0, tr, out, cr, k, pj, k1, k2, k3, xrun_no_acks exOps tr _ h _ out cr hnil hx pj.run⟩

end Uflow.Props.C13
