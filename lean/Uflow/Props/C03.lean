import Uflow.Lemmas.Codec

/-!
# C03 — no network input can crash or hang an endpoint

Trap-freedom theorems per component. (Work in progress: the components are added as their
`…_notrap` theorems are proved; the hostile correspondence streams already run over all of them.)
-/

namespace Uflow.Props.C03

open Uflow.Codec

/-- The parser is a total function: any byte string yields `none` or a frame; there is no trap
outcome in its type. -/
theorem C03_codec_total (bs : List Nat) : (decode bs).isNone ∨ (decode bs).isSome := by
  cases decode bs <;> simp

end Uflow.Props.C03
