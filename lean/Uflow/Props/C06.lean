import Uflow.Lemmas.PSend
import Uflow.Lemmas.PRecvRun
import Uflow.Lemmas.AckQInv
import Uflow.Lemmas.AckQWitness

/-! # C06 — receiver memory bounded; senders respect the advertised limits (theorems being added) -/

namespace Uflow.Props.C06

open Uflow Uflow.PSend

/-- A packet is assigned an id only if the fragment-rounded bytes outstanding stay within the
peer's (fragment-rounded) limit. -/
theorem C06_emit_alloc_le (s s' : State) (f : Nat) (r : Option (Pending × Bool))
    (h : emit s f = .ok (s', r)) (hle : s.alloc ≤ s.maxAlloc) : s'.alloc ≤ s'.maxAlloc := by
  unfold emit at h
  split at h
  · exact absurd h (by simp)
  · rename_i q t hd
    simp only at h
    cases q with
    | nil => simp only [Except.ok.injEq, Prod.mk.injEq] at h; obtain ⟨hs, _⟩ := h; subst hs; exact hle
    | cons e rest =>
      simp only at h
      split at h
      · simp only [Except.ok.injEq, Prod.mk.injEq] at h; obtain ⟨hs, _⟩ := h; subst hs; exact hle
      · split at h
        · simp only [Except.ok.injEq, Prod.mk.injEq] at h; obtain ⟨hs, _⟩ := h; subst hs; exact hle
        · split at h
          · exact absurd h (by simp)
          · simp only [Except.ok.injEq, Prod.mk.injEq] at h
            obtain ⟨hs, _⟩ := h; subst hs
            simp only
            omega

/-! ## Receiver (`Uflow.PRecv`, `packet_receiver` + `assembly_window`)

The receiver is driven by an arbitrary (hostile) sequence of operations `PRecv.Op`
(`dg d` = `handle_datagram` with any field values, `recv` = `receive`, `resync id` =
`resynchronize` with any `id`) from `PRecv.init W b m`. Only `0 < W` and `b < 2^20` are needed
(in the library `W` is a power of two `≤ 4096`). -/

/-- Bytes charged to `alloc` for one assembly-window entry. -/
def asmAlloc : PRecv.Asm → Nat
  | .opened => 0
  | .closed a => a
  | .active a _ _ _ _ _ => a

/-- The example script of the non-vacuity checks: a cross-channel-parent packet, a 3-fragment packet
(with a duplicate fragment carrying different bytes), an over-limit claim `fragmentIdLast = 65535`,
an invalid channel, a sequence id `≥ 2^32`, `recv`, `resync` with an id `≥ 2^20` and one in range.
The window starts two ids before the 20-bit wrap-around. -/
def exBase : Nat := 2^20 - 2

def exFrag (k : Nat) (data : List Nat) : Codec.Datagram :=
  { sequenceId := exBase, channelId := 5, windowParentLead := 0, channelParentLead := 0,
    fragmentId := k, fragmentIdLast := 2, data := data }

def exScript : List PRecv.Op :=
  [ .dg { sequenceId := 0, channelId := 7, windowParentLead := 1, channelParentLead := 2,
          fragmentId := 0, fragmentIdLast := 0, data := [1, 2, 3] },
    .dg (exFrag 0 (List.replicate 1448 1)),
    .dg (exFrag 2 (List.replicate 7 3)),
    .dg (exFrag 0 (List.replicate 1448 4)),
    .dg { sequenceId := exBase + 1, channelId := 9, windowParentLead := 0, channelParentLead := 0,
          fragmentId := 0, fragmentIdLast := 65535, data := List.replicate 1448 9 },
    .dg { sequenceId := 1, channelId := 64, windowParentLead := 0, channelParentLead := 0,
          fragmentId := 0, fragmentIdLast := 0, data := [] },
    .dg { sequenceId := 2^32 + 1, channelId := 3, windowParentLead := 0, channelParentLead := 0,
          fragmentId := 0, fragmentIdLast := 0, data := [8] },
    .dg (exFrag 1 (List.replicate 1448 2)),
    .dg { sequenceId := 4, channelId := 3, windowParentLead := 2, channelParentLead := 0,
          fragmentId := 0, fragmentIdLast := 0, data := [5, 5] },
    .recv,
    .resync (2^20 + 5),
    .resync 4,
    .recv ]

/-- C06 (1): `alloc` is exactly the sum of the allocations of the assembly entries (the slot keys
being distinct) and never exceeds the fragment-rounded limit. -/
theorem C06_recv_alloc (W b m : Nat) (hW : 0 < W) (hb : b < 2^20) (ops : List PRecv.Op)
    (s' : PRecv.State) (h : PRecv.run (PRecv.init W b m) ops = .ok s') :
    s'.alloc = (s'.slots.map fun p => asmAlloc p.2.asm).sum ∧
    (s'.slots.map (·.1)).Nodup ∧
    s'.alloc ≤ s'.maxAlloc ∧ s'.maxAlloc = allocCeil m := by
  obtain ⟨s1, h1, hinv⟩ := PRecv.run_init_inv W b m hW hb ops
  rw [h1] at h
  cases h
  refine ⟨?_, hinv.nodup, ?_, hinv.mal⟩
  · have : asmAlloc = PRecv.aAlloc := by funext a; cases a <;> rfl
    rw [this]
    exact hinv.aeq
  · rw [hinv.mal]; exact hinv.ale

/-- C06 (2): the bytes held (assembly buffers at their allocated size plus undelivered payloads) are
within `alloc`, hence within `⌈m/1448⌉·1448`; a slot holding data is `closed a` with
`data.length ≤ a`, and an `active` slot is charged `(last+1)·1448`. -/
theorem C06_recv_held (W b m : Nat) (hW : 0 < W) (hb : b < 2^20) (ops : List PRecv.Op)
    (s' : PRecv.State) (h : PRecv.run (PRecv.init W b m) ops = .ok s') :
    PRecv.held s' ≤ s'.alloc ∧ s'.alloc ≤ allocCeil m ∧
    (∀ p ∈ s'.slots, ∀ d, p.2.data = some d → ∃ a, p.2.asm = .closed a ∧ d.length ≤ a) ∧
    (∀ p ∈ s'.slots, ∀ a chan wpl cpl last buf, p.2.asm = .active a chan wpl cpl last buf →
      a = (last + 1) * 1448) := by
  obtain ⟨s1, h1, hinv⟩ := PRecv.run_init_inv W b m hW hb ops
  rw [h1] at h
  cases h
  refine ⟨hinv.held_le, hinv.ale, ?_, ?_⟩
  · intro p hp d hd
    have hs := hinv.slot_of_mem p hp
    have hf : p.2.dataFlag = true := by
      cases hb : p.2.dataFlag with
      | true => rfl
      | false => rw [hs.nodata hb] at hd; cases hd
    obtain ⟨-, a, ha, hlen⟩ := hs.flagged hf
    exact ⟨a, ha, hlen d hd⟩
  · intro p hp a chan wpl cpl last buf ha
    have hs := (hinv.slot_of_mem p hp).asm
    rw [ha] at hs
    exact hs.1

/-- C06 (3): the receiver's tables do not grow: at most one stored slot per window index, 64 channels. -/
theorem C06_recv_state_bounded (W b m : Nat) (hW : 0 < W) (hb : b < 2^20) (ops : List PRecv.Op)
    (s' : PRecv.State) (h : PRecv.run (PRecv.init W b m) ops = .ok s') :
    s'.slots.length ≤ W ∧ s'.chans.length = 64 ∧ s'.readyFlags.length = 64 := by
  obtain ⟨s1, h1, hinv⟩ := PRecv.run_init_inv W b m hW hb ops
  rw [h1] at h
  cases h
  exact ⟨hinv.slots_length_le, hinv.clen, hinv.rlen⟩

/-- Non-vacuity: the hostile script runs (up to the completed 3-fragment packet, before `recv`) to a
state that holds data, within the bounds. -/
example : (match PRecv.run (PRecv.init 8 exBase 6000) (exScript.take 9) with
    | .ok s' => decide (0 < PRecv.held s' ∧ PRecv.held s' ≤ s'.alloc ∧ s'.alloc ≤ allocCeil 6000 ∧
        s'.alloc = (s'.slots.map fun p => asmAlloc p.2.asm).sum ∧ s'.slots.length ≤ 8)
    | .error _ => false) = true := by decide +kernel

/-- Non-vacuity: the whole script. -/
example : (match PRecv.run (PRecv.init 8 exBase 6000) exScript with
    | .ok s' => decide (PRecv.held s' ≤ s'.alloc ∧ s'.alloc ≤ allocCeil 6000 ∧
        s'.alloc = (s'.slots.map fun p => asmAlloc p.2.asm).sum ∧ s'.slots.length ≤ 8 ∧
        s'.chans.length = 64 ∧ s'.readyFlags.length = 64)
    | .error _ => false) = true := by decide +kernel

/-- Non-vacuity of the hypotheses of the three theorems (`8` is a power of two `≤ 4096`). -/
example : ∃ s', PRecv.run (PRecv.init 8 exBase 6000) exScript = .ok s' ∧ (0 : Nat) < 8 ∧ exBase < 2^20 := by
  obtain ⟨s', h, -⟩ := PRecv.run_init_inv 8 exBase 6000 (by decide) (by decide) exScript
  exact ⟨s', h, by decide, by decide⟩

/-! ## Frame acknowledgement queue (`FrameQ.AckQ`, `frame_ack_queue.rs`)

The receiving half connection keeps a queue of acknowledgement groups (`AckGroup`: a base frame id and a 32-bit
mask) that have not been sent yet. The queue is driven by `AckQB.Op`: `markSeen id nonce` (`mark_seen`, once per
received data frame, any `id`), `pop` (`emit_ack_frames` takes the first group), `resync id` (`resynchronize`,
once per sync frame carrying a frame id, any `id`). `AckQB.run` folds `AckQB.step` over a list of operations.

Frame ids are `u32` with wrapping arithmetic. The bound below needs one hypothesis about wrap-around, stated on
the ghost-instrumented queue `AckQB.TQ` (the same queue where the window base and every pending group also
carry their unwrapped, true id — `C06_ackq_ghost_erase`): an accepted data frame is less than `2^32` ahead (true
distance) of every group still pending (`AckQB.NoWrap`). `C06_ackq_unbounded_under_wrap_witness` shows that the
hypothesis cannot be dropped; `C06_ackq_bounded_sync_budget` replaces it by a ghost-free condition. -/

open Uflow.FrameQ Uflow.AckQB in
/-- The instrumented queue is the model queue plus ghost tags: forgetting the tags commutes with every run. -/
theorem C06_ackq_ghost_erase (size base : Nat) (ops : List AckQB.Op) :
    ((TQ.init size base).run ops).erase = AckQB.run (AckQ.init size base) ops := by
  rw [run_erase]; rfl

open Uflow.FrameQ Uflow.AckQB in
/-- C06 (4): whatever data / sync frames arrive and whenever acknowledgements are sent, the number of pending
acknowledgement groups never exceeds `⌈size / 32⌉ = (size - 1) / 32 + 1` (128 for the library's window of 4096
frames), provided no accepted data frame is `2^32` or more ahead of a group still pending (`NoWrap`). `size` is
the receive window size (`0 < size ≤ 2^31`). -/
theorem C06_ackq_bounded (size base : Nat) (h0 : 0 < size) (h1 : size ≤ 2^31) (ops : List AckQB.Op)
    (hnw : NoWrap (TQ.init size base) ops) :
    (AckQB.run (AckQ.init size base) ops).entries.length ≤ (size - 1) / 32 + 1 := by
  have hinv := (Inv.init size base).run h0 h1 ops hnw
  rw [← C06_ackq_ghost_erase, erase_length]
  exact hinv.length_le h0

open Uflow.FrameQ Uflow.AckQB in
/-- C06 (4'), without ghost state: the same bound for every run in which the number `r` of sync frames
(`resync` operations) satisfies `(r + 2) * size ≤ 2^32` — in particular for every run without sync frames, and
for the library's window size 4096 for every run with at most `2^20 - 2` sync frames. (Each sync frame moves the
window by at most `size`, so the id space cannot be walked around.) -/
theorem C06_ackq_bounded_sync_budget (size base : Nat) (h0 : 0 < size) (h1 : size ≤ 2^31) (ops : List AckQB.Op)
    (hb : (ops.countP isResync + 2) * size ≤ 2^32) :
    (AckQB.run (AckQ.init size base) ops).entries.length ≤ (size - 1) / 32 + 1 := by
  refine C06_ackq_bounded size base h0 h1 ops ?_
  refine noWrap_of_budget (Inv.init size base) h0 h1 ops 0 (near_init size base 0) ?_
  rw [Nat.add_mul] at hb; omega

open Uflow.FrameQ Uflow.AckQB in
/-- Known finding F3 (the defect repaired by the `while let Some(first_entry) = …` loop of `mark_seen`): with
`mark_seen` as it was (`markSeenOld`), `n` data frames whose ids are 32 apart (`farFrames`), all inside the
window when they arrive, leave `n` pending groups — for every `n`, window size `≥ 32` and window base. -/
theorem C06_ackq_unbounded_without_drop_witness (size base : Nat) (h : 32 ≤ size) (n : Nat) :
    (runOld (AckQ.init size base) (farFrames base n)).entries.length = n :=
  (runOld_farFrames size base h n).len

open Uflow.FrameQ Uflow.AckQB in
/-- The wrap-around hypothesis of `C06_ackq_bounded` is necessary, also after the repair: `wrapOps size n` is a
data frame with id 0 followed by `n` laps, each lap being a data frame with id 32, then `(2^32 - 33) / size` sync
frames that walk the receive window once around the 32-bit id space, then a data frame with id 0 again. The
frame that comes back to id 0 is not a whole window ahead of the *first* pending group (wrapped distance 0), so
nothing is dropped, and it is not within 32 of the *last* one, so a new group is appended: after `n` laps
`2 n + 1` groups are pending, for every window size `33 ≤ size ≤ 2^31`. (About `2^20` sync frames per lap for the
library's window size, with no acknowledgement frame sent meanwhile.) -/
theorem C06_ackq_unbounded_under_wrap_witness (size : Nat) (h0 : 33 ≤ size) (h1 : size ≤ 2^31) (n : Nat) :
    (AckQB.run (AckQ.init size 0) (wrapOps size n)).entries.length = 2 * n + 1 :=
  (wrapOps_inv size h0 h1 n).len

/-- A hostile script for the non-vacuity checks: window of 64 frames starting three ids before the 32-bit
wrap-around; ids 32 apart, a duplicate, an id outside the window, sync frames (one of them out of range), pops. -/
def exAckOps : List AckQB.Op :=
  [ .markSeen (2^32 - 3) true, .markSeen (2^32 - 2) false, .markSeen (2^32 - 2) true, .markSeen 29 true,
    .markSeen 5000 false, .resync 70, .markSeen 93 false, .pop, .markSeen 125 true, .markSeen 157 true,
    .resync (2^31), .resync 200, .markSeen 263 false, .pop, .pop, .pop, .pop, .markSeen 264 true ]

open Uflow.FrameQ Uflow.AckQB in
/-- Non-vacuity of `C06_ackq_bounded`: the hypotheses hold for the script, -/
example : (0 : Nat) < 64 ∧ 64 ≤ 2^31 ∧ NoWrap (TQ.init 64 (2^32 - 3)) exAckOps := by decide +kernel

open Uflow.FrameQ Uflow.AckQB in
/-- the bound `(64 - 1) / 32 + 1 = 2` is reached on the way and the queue is not empty at the end. -/
example : ((AckQB.run (AckQ.init 64 (2^32 - 3)) (exAckOps.take 10)).entries.length = 2 ∧
    (AckQB.run (AckQ.init 64 (2^32 - 3)) exAckOps).entries.length = 1) := by decide +kernel

open Uflow.FrameQ Uflow.AckQB in
/-- Non-vacuity of `C06_ackq_bounded_sync_budget`: three sync frames, window 64. -/
example : (exAckOps.countP isResync + 2) * 64 ≤ 2^32 := by decide +kernel

open Uflow.FrameQ Uflow.AckQB in
/-- The wrap witness violates exactly the ghost hypothesis (window `2^31`: one sync frame per lap), and the
queue it builds, `[0, 32, 0]`, is not one the no-wrap invariant allows. -/
example : ¬ NoWrap (TQ.init (2^31) 0) (wrapOps (2^31) 1) ∧
    (AckQB.run (AckQ.init (2^31) 0) (wrapOps (2^31) 1)).entries.map (·.baseId) = [0, 32, 0] := by decide +kernel

open Uflow.FrameQ Uflow.AckQB in
/-- The F3 witness on a concrete instance: 5 frames, 5 groups, window 64 (bound 2 after the repair). -/
example : (runOld (AckQ.init 64 7) (farFrames 7 5)).entries.map (·.baseId) = [7, 39, 71, 103, 135] ∧
    ((farFrames 7 5).foldl (fun q id => q.markSeen id false) (AckQ.init 64 7)).entries.map (·.baseId) = [103, 135] := by
  decide +kernel

end Uflow.Props.C06
