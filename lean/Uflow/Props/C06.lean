import Uflow.Lemmas.PSend

/-! # C06 — receiver memory bounded; senders respect the advertised limits (theorems being added) -/

namespace Uflow.Props.C06

open Uflow Uflow.PSend

/-- A packet is assigned an id only if the fragment-rounded bytes outstanding stay within the
peer's (fragment-rounded) limit. -/
theorem C06_emit_alloc_le (s s' : State) (f : Nat) (r : Option (Pending × Bool))
    (h : emit s f = .ok (s', r)) (hle : s.alloc ≤ s.maxAlloc) : s'.alloc ≤ s'.maxAlloc := by
  unfold emit at h
  split at h
  · exact absurd h (by simp)
  · rename_i q t hd
    simp only at h
    cases q with
    | nil => simp only [Except.ok.injEq, Prod.mk.injEq] at h; obtain ⟨hs, _⟩ := h; subst hs; exact hle
    | cons e rest =>
      simp only at h
      split at h
      · simp only [Except.ok.injEq, Prod.mk.injEq] at h; obtain ⟨hs, _⟩ := h; subst hs; exact hle
      · split at h
        · simp only [Except.ok.injEq, Prod.mk.injEq] at h; obtain ⟨hs, _⟩ := h; subst hs; exact hle
        · split at h
          · exact absurd h (by simp)
          · simp only [Except.ok.injEq, Prod.mk.injEq] at h
            obtain ⟨hs, _⟩ := h; subst hs
            simp only
            omega

end Uflow.Props.C06
