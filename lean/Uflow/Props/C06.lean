import Uflow.Lemmas.PSend
import Uflow.Lemmas.PRecvRun

/-! # C06 — receiver memory bounded; senders respect the advertised limits (theorems being added) -/

namespace Uflow.Props.C06

open Uflow Uflow.PSend

/-- A packet is assigned an id only if the fragment-rounded bytes outstanding stay within the
peer's (fragment-rounded) limit. -/
theorem C06_emit_alloc_le (s s' : State) (f : Nat) (r : Option (Pending × Bool))
    (h : emit s f = .ok (s', r)) (hle : s.alloc ≤ s.maxAlloc) : s'.alloc ≤ s'.maxAlloc := by
  unfold emit at h
  split at h
  · exact absurd h (by simp)
  · rename_i q t hd
    simp only at h
    cases q with
    | nil => simp only [Except.ok.injEq, Prod.mk.injEq] at h; obtain ⟨hs, _⟩ := h; subst hs; exact hle
    | cons e rest =>
      simp only at h
      split at h
      · simp only [Except.ok.injEq, Prod.mk.injEq] at h; obtain ⟨hs, _⟩ := h; subst hs; exact hle
      · split at h
        · simp only [Except.ok.injEq, Prod.mk.injEq] at h; obtain ⟨hs, _⟩ := h; subst hs; exact hle
        · split at h
          · exact absurd h (by simp)
          · simp only [Except.ok.injEq, Prod.mk.injEq] at h
            obtain ⟨hs, _⟩ := h; subst hs
            simp only
            omega

/-! ## Receiver (`Uflow.PRecv`, `packet_receiver` + `assembly_window`)

The receiver is driven by an arbitrary (hostile) sequence of operations `PRecv.Op`
(`dg d` = `handle_datagram` with any field values, `recv` = `receive`, `resync id` =
`resynchronize` with any `id`) from `PRecv.init W b m`. Only `0 < W` and `b < 2^20` are needed
(in the library `W` is a power of two `≤ 4096`). -/

/-- Bytes charged to `alloc` for one assembly-window entry. -/
def asmAlloc : PRecv.Asm → Nat
  | .opened => 0
  | .closed a => a
  | .active a _ _ _ _ _ => a

/-- The example script of the non-vacuity checks: a cross-channel-parent packet, a 3-fragment packet
(with a duplicate fragment carrying different bytes), an over-limit claim `fragmentIdLast = 65535`,
an invalid channel, a sequence id `≥ 2^32`, `recv`, `resync` with an id `≥ 2^20` and one in range.
The window starts two ids before the 20-bit wrap-around. -/
def exBase : Nat := 2^20 - 2

def exFrag (k : Nat) (data : List Nat) : Codec.Datagram :=
  { sequenceId := exBase, channelId := 5, windowParentLead := 0, channelParentLead := 0,
    fragmentId := k, fragmentIdLast := 2, data := data }

def exScript : List PRecv.Op :=
  [ .dg { sequenceId := 0, channelId := 7, windowParentLead := 1, channelParentLead := 2,
          fragmentId := 0, fragmentIdLast := 0, data := [1, 2, 3] },
    .dg (exFrag 0 (List.replicate 1448 1)),
    .dg (exFrag 2 (List.replicate 7 3)),
    .dg (exFrag 0 (List.replicate 1448 4)),
    .dg { sequenceId := exBase + 1, channelId := 9, windowParentLead := 0, channelParentLead := 0,
          fragmentId := 0, fragmentIdLast := 65535, data := List.replicate 1448 9 },
    .dg { sequenceId := 1, channelId := 64, windowParentLead := 0, channelParentLead := 0,
          fragmentId := 0, fragmentIdLast := 0, data := [] },
    .dg { sequenceId := 2^32 + 1, channelId := 3, windowParentLead := 0, channelParentLead := 0,
          fragmentId := 0, fragmentIdLast := 0, data := [8] },
    .dg (exFrag 1 (List.replicate 1448 2)),
    .dg { sequenceId := 4, channelId := 3, windowParentLead := 2, channelParentLead := 0,
          fragmentId := 0, fragmentIdLast := 0, data := [5, 5] },
    .recv,
    .resync (2^20 + 5),
    .resync 4,
    .recv ]

/-- C06 (1): `alloc` is exactly the sum of the allocations of the assembly entries (the slot keys
being distinct) and never exceeds the fragment-rounded limit. -/
theorem C06_recv_alloc (W b m : Nat) (hW : 0 < W) (hb : b < 2^20) (ops : List PRecv.Op)
    (s' : PRecv.State) (h : PRecv.run (PRecv.init W b m) ops = .ok s') :
    s'.alloc = (s'.slots.map fun p => asmAlloc p.2.asm).sum ∧
    (s'.slots.map (·.1)).Nodup ∧
    s'.alloc ≤ s'.maxAlloc ∧ s'.maxAlloc = allocCeil m := by
  obtain ⟨s1, h1, hinv⟩ := PRecv.run_init_inv W b m hW hb ops
  rw [h1] at h
  cases h
  refine ⟨?_, hinv.nodup, ?_, hinv.mal⟩
  · have : asmAlloc = PRecv.aAlloc := by funext a; cases a <;> rfl
    rw [this]
    exact hinv.aeq
  · rw [hinv.mal]; exact hinv.ale

/-- C06 (2): the bytes held (assembly buffers at their allocated size plus undelivered payloads) are
within `alloc`, hence within `⌈m/1448⌉·1448`; a slot holding data is `closed a` with
`data.length ≤ a`, and an `active` slot is charged `(last+1)·1448`. -/
theorem C06_recv_held (W b m : Nat) (hW : 0 < W) (hb : b < 2^20) (ops : List PRecv.Op)
    (s' : PRecv.State) (h : PRecv.run (PRecv.init W b m) ops = .ok s') :
    PRecv.held s' ≤ s'.alloc ∧ s'.alloc ≤ allocCeil m ∧
    (∀ p ∈ s'.slots, ∀ d, p.2.data = some d → ∃ a, p.2.asm = .closed a ∧ d.length ≤ a) ∧
    (∀ p ∈ s'.slots, ∀ a chan wpl cpl last buf, p.2.asm = .active a chan wpl cpl last buf →
      a = (last + 1) * 1448) := by
  obtain ⟨s1, h1, hinv⟩ := PRecv.run_init_inv W b m hW hb ops
  rw [h1] at h
  cases h
  refine ⟨hinv.held_le, hinv.ale, ?_, ?_⟩
  · intro p hp d hd
    have hs := hinv.slot_of_mem p hp
    have hf : p.2.dataFlag = true := by
      cases hb : p.2.dataFlag with
      | true => rfl
      | false => rw [hs.nodata hb] at hd; cases hd
    obtain ⟨-, a, ha, hlen⟩ := hs.flagged hf
    exact ⟨a, ha, hlen d hd⟩
  · intro p hp a chan wpl cpl last buf ha
    have hs := (hinv.slot_of_mem p hp).asm
    rw [ha] at hs
    exact hs.1

/-- C06 (3): the receiver's tables do not grow: at most one stored slot per window index, 64 channels. -/
theorem C06_recv_state_bounded (W b m : Nat) (hW : 0 < W) (hb : b < 2^20) (ops : List PRecv.Op)
    (s' : PRecv.State) (h : PRecv.run (PRecv.init W b m) ops = .ok s') :
    s'.slots.length ≤ W ∧ s'.chans.length = 64 ∧ s'.readyFlags.length = 64 := by
  obtain ⟨s1, h1, hinv⟩ := PRecv.run_init_inv W b m hW hb ops
  rw [h1] at h
  cases h
  exact ⟨hinv.slots_length_le, hinv.clen, hinv.rlen⟩

/-- Non-vacuity: the hostile script runs (up to the completed 3-fragment packet, before `recv`) to a
state that holds data, within the bounds. -/
example : (match PRecv.run (PRecv.init 8 exBase 6000) (exScript.take 9) with
    | .ok s' => decide (0 < PRecv.held s' ∧ PRecv.held s' ≤ s'.alloc ∧ s'.alloc ≤ allocCeil 6000 ∧
        s'.alloc = (s'.slots.map fun p => asmAlloc p.2.asm).sum ∧ s'.slots.length ≤ 8)
    | .error _ => false) = true := by decide +kernel

/-- Non-vacuity: the whole script. -/
example : (match PRecv.run (PRecv.init 8 exBase 6000) exScript with
    | .ok s' => decide (PRecv.held s' ≤ s'.alloc ∧ s'.alloc ≤ allocCeil 6000 ∧
        s'.alloc = (s'.slots.map fun p => asmAlloc p.2.asm).sum ∧ s'.slots.length ≤ 8 ∧
        s'.chans.length = 64 ∧ s'.readyFlags.length = 64)
    | .error _ => false) = true := by decide +kernel

/-- Non-vacuity of the hypotheses of the three theorems (`8` is a power of two `≤ 4096`). -/
example : ∃ s', PRecv.run (PRecv.init 8 exBase 6000) exScript = .ok s' ∧ (0 : Nat) < 8 ∧ exBase < 2^20 := by
  obtain ⟨s', h, -⟩ := PRecv.run_init_inv 8 exBase 6000 (by decide) (by decide) exScript
  exact ⟨s', h, by decide, by decide⟩

end Uflow.Props.C06
