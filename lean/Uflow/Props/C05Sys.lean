import Uflow.Lemmas.SysIdealThm
import Uflow.Props.C01Sys
import Uflow.Props.C05

/-!
# C05Sys — the ideal network: every packet delivered, global order preserved

Property C05 for the composed system `Uflow.Sys` (sender → ghost network → receiver, see
`Uflow/Lemmas/SysDefs.lean` and `Uflow/Props/C01Sys.lean`): when the network neither loses,
duplicates nor reorders datagrams, the receiving application sees the emitted packets exactly once
and in exactly the order of emission, ACROSS ALL CHANNELS; and the emitted packets are the submitted
packets minus dropped TimeSensitive ones (`C05_emit_order`).

## Ideal schedules — the GENERAL form is proved

`Ideal w W b a m ops` (`idealB`, a Boolean that can be evaluated) restricts the `deliver` steps of
the schedule `ops` run from `initS w W b a m`, and excludes `resync` steps:
* the `deliver` steps of `ops` are `deliver 0, deliver 1, deliver 2, …` in this order — every datagram
  is handed over at most once, in network (= emission) order, none is skipped;
* a `deliver k` step is taken only when datagram `k` exists (`k < net.length` at that moment);
* `ops` contains no `resync` step (`Sys.NoResync`). The `Sys` network does not order sync frames
  relative to datagrams, so a `resync` step may overtake the datagrams emitted before its sync value
  was recorded and make the receive window pass Unreliable packets that are still in flight — which
  an ideal (FIFO) network never does: there a sync frame arrives after every datagram sent before it,
  all packets it covers are completely received, and `resynchronize` is a no-op. Ideal schedules are
  therefore kept `resync`-free (the sender-side `sync` steps are allowed and harmless).
The delay between emission and delivery is arbitrary (any number of other steps in between), and the
steps `enq`, `emit`, `recv` and `ack` are interleaved ARBITRARILY: in particular acknowledgements may
be lost, duplicated, reordered and delayed (`ack k` for any recorded receiver base, any number of
times, in any order). `C05_sys_ideal_spec` is the declarative reading of the Boolean checker.
"Lossless" is expressed at the end of the run: `delivers ops = s'.net.length` (every datagram of the
network has been handed over), and `settled ops` says a `recv` came after the last `deliver`.

The `Fresh` guard of `stepS` never refuses a datagram of an ideal schedule (`C05_sys_ideal_fresh`);
the `AckFresh` guard can only turn an `ack` into a no-op, which is a lost acknowledgement.

Hypotheses beyond those of C01Sys (`w ≤ 2^16`, receive window `2^k`, `k ≤ 19`, `b < 2^20`):
* `w ≤ 2^k` — the send window is not larger than the receive window (needed:
  `C05_sys_window_witness`); the library uses the same constant for both;
* `allocCeil a ≤ allocCeil m` — the sender's allocation limit is not above the receiver's (needed:
  `C05_sys_alloc_witness`); the handshake makes each side's `tx_alloc_limit` the peer's advertised
  `rx_alloc_limit`.

Out of scope: whether every submitted packet is eventually EMITTED (send queue / credit / window
liveness, which needs the acknowledgements to arrive) — the theorems speak about the packets that
`emit_packet` has returned.
-/

namespace Uflow.Props.C05

open Uflow Uflow.Gen Uflow.Codec Uflow.PSend Uflow.PRecv Uflow.Frag Uflow.Sys

/-! ## Ideal schedules -/

/-- Boolean checker: `ops`, run from `initS w W b a m`, is the schedule of a FIFO, lossless-so-far,
duplication-free network (`Sys.idealFrom`, `Uflow/Lemmas/SysIdealDefs.lean`). -/
def idealB (w W b a m : Nat) (ops : List SOp) : Bool :=
  idealFrom (initS w W b a m) 0 ops && noResyncB ops

/-- `ops` is an ideal schedule for the system started with `PacketSender::new(w, b, a)` and
`PacketReceiver::new(W, b, m)`. -/
def Ideal (w W b a m : Nat) (ops : List SOp) : Prop := idealB w W b a m ops = true

instance (w W b a m : Nat) (ops : List SOp) : Decidable (Ideal w W b a m ops) := by
  unfold Ideal; infer_instance

/-- There has been a `recv` step after the last `deliver` step of `ops` (or no `deliver` at all). -/
def settled (ops : List SOp) : Bool := settledFrom true ops

/-- **What `Ideal` means.** A schedule is ideal iff for every `deliver k` step in it that the run
reaches, `k` is the number of `deliver` steps before it (so the `deliver` steps are
`deliver 0, deliver 1, …`: network order, no repeats, no gaps) and datagram `k` is in the network at
that moment, and it contains no `resync` step. Nothing is required of the other steps (`enq`, `emit`,
`recv`, `ack`, `sync`). For schedules without `resync` steps this is the characterisation that held
before `Sys` had sync frames. -/
theorem C05_sys_ideal_spec (w W b a m : Nat) (ops : List SOp) :
    Ideal w W b a m ops ↔
      (∀ pre k post s1, ops = pre ++ .deliver k :: post → runS (initS w W b a m) pre = .ok s1 →
        k = delivers pre ∧ k < s1.net.length) ∧ NoResync ops := by
  unfold Ideal idealB
  rw [Bool.and_eq_true, idealFrom_iff, noResyncB_iff]
  constructor
  · intro ⟨h, hn⟩
    refine ⟨fun pre k post s1 h1 h2 => ?_, hn⟩
    have := h pre k post s1 h1 h2
    omega
  · intro ⟨h, hn⟩
    refine ⟨fun pre k post s1 h1 h2 => ?_, hn⟩
    have := h pre k post s1 h1 h2
    omega

/-- Every state of an ideal run satisfies the system invariants of C01Sys / C02 (`SInv`, `PInv`,
`AInv`) and the ideal-run invariant `Sys.IInv` (`Uflow/Lemmas/SysIdealInv.lean`): `delivers ops`
datagrams have been handed over, they are all fragments of the first `C` emitted packets and the first
`f` fragments of packet `C`; the receiver has completely received exactly the packets before `C`, has
seen nothing of the packets after `C`, holds the first `f` fragments of packet `C` in its assembly
window, and has taken the packets `0, …, log.length - 1` out of the window, in this order. -/
theorem C05_sys_ideal_reach (w k b a m : Nat) (hw : w ≤ 2^16) (hk : k ≤ 19) (hwk : w ≤ 2^k) (hb : b < 2^20)
    (ham : allocCeil a ≤ allocCeil m) (ops : List SOp) (hid : Ideal w (2^k) b a m ops) (s' : Sys)
    (h : runS (initS w (2^k) b a m) ops = .ok s') :
    IdealSt b w (2^k) (allocCeil m) (allocCeil a) s' (delivers ops) (settled ops) := by
  unfold Ideal idealB at hid
  rw [Bool.and_eq_true, noResyncB_iff] at hid
  have := idealSt_run (wOk_pow k hk) hw hwk ham ops (idealSt_init w (2^k) b a m (Nat.two_pow_pos k) hb) hid.1
    hid.2 h
  rw [Nat.zero_add] at this
  exact this

/-- **The `Fresh` guard never refuses a datagram of an ideal network.** After an ideal run, if the
network still holds a datagram that has not been handed over, the next one in order
(`net[delivers ops]`) belongs to a packet the receive window base has not passed, and `Fresh` holds
for it: the `deliver` step that an ideal schedule takes next is not turned into a no-op by the guard
of `stepS`. (No 20-bit wrap-around hypothesis is needed for datagrams in ideal runs.) -/
theorem C05_sys_ideal_fresh (w k b a m : Nat) (hw : w ≤ 2^16) (hk : k ≤ 19) (hwk : w ≤ 2^k) (hb : b < 2^20)
    (ham : allocCeil a ≤ allocCeil m) (ops : List SOp) (hid : Ideal w (2^k) b a m ops) (s' : Sys)
    (h : runS (initS w (2^k) b a m) ops = .ok s') (hn : delivers ops < s'.net.length) :
    ∃ i d, s'.net[delivers ops]? = some (i, d) ∧ s'.rcv.adv ≤ i ∧ Fresh s' i := by
  have hst := C05_sys_ideal_reach w k b a m hw hk hwk hb ham ops hid s' h
  obtain ⟨C, f, I⟩ := hst.iinv
  obtain ⟨d, h1, h2⟩ := iinv_next (wOk_pow k hk) hst.sinv I hn
  exact ⟨C, d, h1, Nat.le_trans I.advK I.kC, h2⟩

/-! ## The theorems -/

/-- **Ideal network, at every point of the run: exactly once, in global order, nothing skipped,
nothing invented.** After any ideal run (any interleaving of submissions, `emit_packet` calls with any
flush ids, deliveries with arbitrary delay, `receive` calls and acknowledgements; multi-fragment
packets; bursts exceeding the windows; any initial sequence id) the log of the receiver — the
concatenation of everything the `receive` calls have taken out of the receive window, across ALL
channels —
* consists of the packets emitted at positions `0, 1, …, log.length - 1` in exactly this order
  (no packet twice, none skipped, none out of place),
* contains no passed-over entry (`data = none`, a packet refused for lack of memory): every entry was
  handed to the sink,
* so the payloads handed to the receiving application, in the order it sees them, are the payloads of
  a PREFIX of the emitted packets, and they arrive on the channels they were sent on. -/
theorem C05_sys_ideal_prefix (w k b a m : Nat) (hw : w ≤ 2^16) (hk : k ≤ 19) (hwk : w ≤ 2^k) (hb : b < 2^20)
    (ham : allocCeil a ≤ allocCeil m) (ops : List SOp) (hid : Ideal w (2^k) b a m ops) (s' : Sys)
    (h : runS (initS w (2^k) b a m) ops = .ok s') :
    s'.rcv.log.map LogE.uid = List.range s'.rcv.log.length ∧
    (∀ e ∈ s'.rcv.log, e.data ≠ none) ∧
    s'.rcv.log.length ≤ s'.hist.emitted.length ∧
    s'.rcv.log.filterMap LogE.data = (s'.hist.emitted.map Emitted.data).take s'.rcv.log.length ∧
    s'.rcv.log.map LogE.chan = (s'.hist.emitted.map Emitted.channelId).take s'.rcv.log.length := by
  have hst := C05_sys_ideal_reach w k b a m hw hk hwk hb ham ops hid s' h
  obtain ⟨h1, h2, h3, -⟩ := idealSt_log hst
  refine ⟨h1, hst.ainv.ld, h2, ?_, ?_⟩
  · rw [← List.map_take]
    apply filterMap_of_map_some
    have := congrArg (List.map Prod.snd) h3
    simpa [List.map_map, Function.comp_def] using this
  · rw [← List.map_take]
    have := congrArg (List.map Prod.fst) h3
    simpa [List.map_map, Function.comp_def] using this

/-- **Ideal network, lossless: every emitted packet is delivered.** If moreover every datagram of the
network has been handed over (`delivers ops = s'.net.length`: nothing lost, nothing still in flight)
and a `receive` call came after the last delivery (`settled ops`), the payloads handed to the
receiving application are the payloads of ALL emitted packets, each exactly once, in emission order,
on the channels they were sent on. -/
theorem C05_sys_ideal_complete (w k b a m : Nat) (hw : w ≤ 2^16) (hk : k ≤ 19) (hwk : w ≤ 2^k) (hb : b < 2^20)
    (ham : allocCeil a ≤ allocCeil m) (ops : List SOp) (hid : Ideal w (2^k) b a m ops) (s' : Sys)
    (h : runS (initS w (2^k) b a m) ops = .ok s')
    (hall : delivers ops = s'.net.length) (hset : settled ops = true) :
    s'.rcv.log.length = s'.hist.emitted.length ∧
    s'.rcv.log.filterMap LogE.data = s'.hist.emitted.map Emitted.data ∧
    s'.rcv.log.map LogE.chan = s'.hist.emitted.map Emitted.channelId := by
  have hst := C05_sys_ideal_reach w k b a m hw hk hwk hb ham ops hid s' h
  obtain ⟨-, -, -, h4⟩ := idealSt_log hst
  have hlen := h4 hset hall
  obtain ⟨-, -, -, p4, p5⟩ := C05_sys_ideal_prefix w k b a m hw hk hwk hb ham ops hid s' h
  refine ⟨hlen, ?_, ?_⟩
  · rw [p4, hlen, ← List.length_map (f := Emitted.data), List.take_length]
  · rw [p5, hlen, ← List.length_map (f := Emitted.channelId), List.take_length]

/-- **C05, ideal network (headline).** Under the hypotheses of `C05_sys_ideal_complete`:
the sequence of `(channel, payload)` pairs the receiving application sees is the sequence of
`(channel, payload)` pairs of the emitted packets, and the emitted packets followed by the packets
still waiting in the send queue are the submitted packets `(data, channel, mode, flush id)` in
submission order with only TimeSensitive entries removed (`PSend.OnlyTSRemoved`, `C05_emit_order`).
So every Unreliable, Persistent or Reliable packet that has left the send queue is delivered exactly
once, at its place in the global submission order, and a TimeSensitive packet is either delivered at
its place or was dropped by the sender — nothing else happens. (That a packet does leave the send
queue is the liveness of the sender — window, allocation and credit — and is not claimed here.) -/
theorem C05_sys_ideal (w k b a m : Nat) (hw : w ≤ 2^16) (hk : k ≤ 19) (hwk : w ≤ 2^k) (hb : b < 2^20)
    (ham : allocCeil a ≤ allocCeil m) (ops : List SOp) (hid : Ideal w (2^k) b a m ops) (s' : Sys)
    (h : runS (initS w (2^k) b a m) ops = .ok s')
    (hall : delivers ops = s'.net.length) (hset : settled ops = true) :
    ((s'.rcv.log.filterMap LogE.data = s'.hist.emitted.map Emitted.data ∧
      s'.rcv.log.map LogE.chan = s'.hist.emitted.map Emitted.channelId) ∧
     (∀ e ∈ s'.rcv.log, e.data ≠ none)) ∧
    OnlyTSRemoved (s'.hist.emitted.map Emitted.toQ ++ s'.snd.queue) s'.hist.enqueued ∧
    (s'.hist.emitted.map Emitted.toQ ++ s'.snd.queue).filter (fun q => decide (q.mode ≠ .timeSensitive)) =
      s'.hist.enqueued.filter (fun q => decide (q.mode ≠ .timeSensitive)) := by
  obtain ⟨-, c2, c3⟩ := C05_sys_ideal_complete w k b a m hw hk hwk hb ham ops hid s' h hall hset
  obtain ⟨-, p2, -⟩ := C05_sys_ideal_prefix w k b a m hw hk hwk hb ham ops hid s' h
  have hst := C05_sys_ideal_reach w k b a m hw hk hwk hb ham ops hid s' h
  have hord := hst.sinv.snd.hinv.order
  exact ⟨⟨⟨c2, c3⟩, p2⟩, onlyTSRemoved_of_sublist _ _ hord.1 hord.2, hord.2.symm⟩

/-! ## The hypotheses are needed -/

/-- **`Ideal` matters (reordering across channels).** Two packets on different channels, the first
Reliable (so the window waits for it), delivered in the wrong order (`deliver 1` before `deliver 0`:
not an ideal schedule): both are handed to the application exactly once and each channel is in order
(C01), but the application sees `[2]` before `[1]` although `[1]` was submitted and emitted first —
the global order is a property of the ideal network only. -/
theorem C05_sys_reorder_witness :
    idealB 2 (2^1) 0 100000 100000
      [.enq [1] 0 .reliable 0, .enq [2] 1 .unreliable 0, .emit 0, .emit 0, .deliver 1, .recv, .deliver 0, .recv] = false ∧
    (match runS (initS 2 (2^1) 0 100000 100000)
        [.enq [1] 0 .reliable 0, .enq [2] 1 .unreliable 0, .emit 0, .emit 0, .deliver 1, .recv, .deliver 0, .recv] with
     | .ok s => decide (s.rcv.log.filterMap LogE.data = [[2], [1]] ∧ s.hist.emitted.map Emitted.data = [[1], [2]])
     | .error _ => false) = true := by
  refine ⟨by decide +kernel, by decide +kernel⟩

/-- **`Ideal` matters (a reordered Unreliable packet is lost).** The same schedule with two Unreliable
packets: after `[2]` has been delivered the window base passes the id of `[1]`, and when its datagram
arrives late it is discarded: `[1]` is never delivered although every datagram of the network was
handed to the receiver exactly once. -/
theorem C05_sys_late_witness :
    idealB 2 (2^1) 0 100000 100000
      [.enq [1] 0 .unreliable 0, .enq [2] 1 .unreliable 0, .emit 0, .emit 0, .deliver 1, .recv, .deliver 0, .recv] = false ∧
    (match runS (initS 2 (2^1) 0 100000 100000)
        [.enq [1] 0 .unreliable 0, .enq [2] 1 .unreliable 0, .emit 0, .emit 0, .deliver 1, .recv, .deliver 0, .recv] with
     | .ok s => decide (s.rcv.log.filterMap LogE.data = [[2]] ∧ s.hist.emitted.map Emitted.data = [[1], [2]] ∧
         s.net.length = 2)
     | .error _ => false) = true := by
  refine ⟨by decide +kernel, by decide +kernel⟩

/-- **`w ≤ 2^k` is needed.** Send window 4, receive window 2, an IDEAL schedule in which every
datagram is handed over and `receive` is called afterwards: the third packet of a burst of three lies
outside the receive window when it arrives and is discarded, the fourth is delivered — the log
`[1], [2], [4]` is not a prefix of the emitted packets `[1], [2], [3], [4]`, an Unreliable packet is
lost on an ideal network. -/
theorem C05_sys_window_witness :
    idealB 4 (2^1) 0 100000 100000
      [.enq [1] 0 .unreliable 0, .enq [2] 0 .unreliable 0, .enq [3] 0 .unreliable 0, .enq [4] 0 .unreliable 0,
       .emit 0, .emit 0, .emit 0, .deliver 0, .deliver 1, .deliver 2, .recv, .emit 0, .deliver 3, .recv] = true ∧
    (match runS (initS 4 (2^1) 0 100000 100000)
        [.enq [1] 0 .unreliable 0, .enq [2] 0 .unreliable 0, .enq [3] 0 .unreliable 0, .enq [4] 0 .unreliable 0,
         .emit 0, .emit 0, .emit 0, .deliver 0, .deliver 1, .deliver 2, .recv, .emit 0, .deliver 3, .recv] with
     | .ok s => decide (s.rcv.log.filterMap LogE.data = [[1], [2], [4]] ∧
         s.hist.emitted.map Emitted.data = [[1], [2], [3], [4]] ∧ s.net.length = 4)
     | .error _ => false) = true := by
  refine ⟨by decide +kernel, by decide +kernel⟩

/-- **`allocCeil a ≤ allocCeil m` is needed** (the run of `C02_sys_refused_witness`, which is an ideal
schedule): sender limit 100000, receiver limit 1000. Both fragments of a Reliable packet of 1500 bytes
arrive in order; `try_add` refuses the packet for lack of memory, `receive` takes it out of the window
without handing anything to the sink: the application sees nothing although the network was ideal. -/
theorem C05_sys_alloc_witness :
    idealB 8 (2^3) 0 100000 1000
      [.enq (List.replicate 1500 7) 0 .reliable 0, .emit 0, .deliver 0, .deliver 1, .recv] = true ∧
    (match runS (initS 8 (2^3) 0 100000 1000)
        [.enq (List.replicate 1500 7) 0 .reliable 0, .emit 0, .deliver 0, .deliver 1, .recv] with
     | .ok s => decide (s.rcv.log.filterMap LogE.data = [] ∧ (s.rcv.log.map LogE.data) = [none] ∧
         (s.hist.emitted.map fun x => x.data.length) = [1500] ∧ s.net.length = 2)
     | .error _ => false) = true := by
  refine ⟨by decide +kernel, by decide +kernel⟩

/-! ## Non-vacuity -/

/-- An ideal schedule: send window 2, receive window `2 = 2^1`, initial id `2^20 - 2` (the ids wrap
after two packets), three channels. Submitted: Reliable `A = [1, 1]` (channel 0), TimeSensitive `T = [9]`
(channel 0, queued for flush 0 and dropped by `emit_packet(1)`), Unreliable `B` of 1500 bytes = two
fragments (channel 1), Unreliable `C = [3]` (channel 0), Persistent `D = [4]` (channel 2). The burst
exceeds the send window (two `emit` steps return nothing until acknowledgements arrive); `receive` is
called between the two fragments of `B`; datagrams are delayed by other steps; one acknowledgement
arrives out of order (`ack 0` after `ack 3`). -/
def exIdeal : List SOp :=
  [ .enq [1, 1] 0 .reliable 0, .enq [9] 0 .timeSensitive 0, .enq (List.replicate 1500 7) 1 .unreliable 0,
    .enq [3] 0 .unreliable 0, .enq [4] 2 .persistent 1,
    .emit 1, .emit 1, .deliver 0, .emit 1, .emit 1, .recv, .deliver 1, .recv, .deliver 2, .ack 1,
    .emit 1, .deliver 3, .recv, .ack 3, .ack 0, .emit 1, .deliver 4, .recv, .recv ]

/-- The schedule is ideal, hands over all five datagrams, ends with `recv`, and the run ends as the
theorems say: the log is `A, B, C, D` with unwrapped ids `0, 1, 2, 3` (sequence ids `2^20-2, 2^20-1,
0, 1`) on channels `0, 1, 0, 2`, the payloads are byte-exact, `T` is the only submitted packet
missing. -/
theorem C05_sys_ideal_example :
    idealB 2 (2^1) (2^20 - 2) 100000 100000 exIdeal = true ∧ delivers exIdeal = 5 ∧ settled exIdeal = true ∧
    (match runS (initS 2 (2^1) (2^20 - 2) 100000 100000) exIdeal with
     | .ok s =>
       decide ((s.rcv.log.map fun e => (e.chan, e.uid, e.seq)) =
         [(0, 0, 2^20 - 2), (1, 1, 2^20 - 1), (0, 2, 0), (2, 3, 1)]) &&
       decide (s.rcv.log.filterMap LogE.data = [[1, 1], List.replicate 1500 7, [3], [4]]) &&
       decide (s.hist.emitted.map Emitted.data = [[1, 1], List.replicate 1500 7, [3], [4]]) &&
       decide ((s.hist.enqueued.map fun q => (q.mode, q.data.length)) =
         [(.reliable, 2), (.timeSensitive, 1), (.unreliable, 1500), (.unreliable, 1), (.persistent, 1)]) &&
       decide (s.net.length = 5 ∧ s.snd.queue = [])
     | .error _ => false) = true := by
  refine ⟨by decide +kernel, by decide, by decide, by decide +kernel⟩

/-- The hypotheses of `C05_sys_ideal_prefix`, `C05_sys_ideal_complete` and `C05_sys_ideal` hold for
that run. -/
example : ∃ s', runS (initS 2 (2^1) (2^20 - 2) 100000 100000) exIdeal = .ok s' ∧
    Ideal 2 (2^1) (2^20 - 2) 100000 100000 exIdeal ∧ delivers exIdeal = s'.net.length ∧
    settled exIdeal = true ∧ (2 : Nat) ≤ 2^16 ∧ (1 : Nat) ≤ 19 ∧ (2 : Nat) ≤ 2^1 ∧ 2^20 - 2 < 2^20 ∧
    allocCeil 100000 ≤ allocCeil 100000 := by
  obtain ⟨h1, h2, h3, h4⟩ := C05_sys_ideal_example
  cases hr : runS (initS 2 (2^1) (2^20 - 2) 100000 100000) exIdeal with
  | error t => rw [hr] at h4; cases h4
  | ok s =>
    rw [hr] at h4
    simp only [Bool.and_eq_true, decide_eq_true_eq] at h4
    exact ⟨s, rfl, h1, by rw [h2, h4.2.1], h3, by decide, by decide, by decide, by decide, Nat.le_refl _⟩

/-- The hypotheses of `C05_sys_ideal_fresh` hold for the first seven steps of that run: two packets
(three datagrams) are in the network, none has been handed over. -/
example : Ideal 2 (2^1) (2^20 - 2) 100000 100000 (exIdeal.take 7) ∧
    (match runS (initS 2 (2^1) (2^20 - 2) 100000 100000) (exIdeal.take 7) with
     | .ok s => decide (delivers (exIdeal.take 7) < s.net.length ∧ s.net.length = 3)
     | .error _ => false) = true := by
  refine ⟨by decide +kernel, by decide +kernel⟩

end Uflow.Props.C05
