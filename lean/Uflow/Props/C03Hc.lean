import Uflow.Lemmas.HcInvRun
import Uflow.Lemmas.CreditEx
import Uflow.Lemmas.RateErr
import Uflow.Lemmas.RateEx
import Uflow.Model.Endpoint

/-!
# C03 (one half connection) — no frame from the network, and no API call within its documented
preconditions, makes a `HalfConnection` panic or hang

Model: `Uflow.HalfConn` (`src/half_connection/mod.rs`, `emit.rs`, `resend_queue.rs`,
`pending_queue.rs`) composed of the packet sender, packet receiver, frame queue, frame ack queue and
rate controller. `R α = Except Trap α`; every Rust panic site (unwrap, slice/array index, checked
arithmetic, explicit `panic!`) and every loop without a bound (`Trap.hang`) is an `.error`.

`HcInv s` (`Uflow/Lemmas/HcInvDef.lean`) is the conjunction of
* `PSend.PsInv` — counters equal the sums they stand for, `baseId < 2^20`,
  `nextId = (baseId + |window|) mod 2^20`, `|window| ≤ windowSize < 2^20`, 64 channel slots, every
  channel id `< 64`, `lastFragmentId * 1448 ≤ data.len()` for every packet in the window;
* `Credit.PsOk` — queued packets `≤ MAX_PACKET_SIZE`, windowed packets slice into fragments `≤ 1448`;
* every entry `(uid, fid)` of the pending / resend queue has `uid < nextUid` and, if its packet is still
  in the window, `fid ≤ lastFragmentId` (`PSend.FragOk`);
* `FrameQ.WInv` (C15) and `FrameQ.FqTime`: no send time / ack time / feedback time after `nowMs`;
* `PRecv.Inv W M` (C03Recv) for some `W`, `M`;
* `Rate.RateInv` (C03Rate) at `nowMs`;
* `syncTimeoutBase ≤ nowMs` and `nowMs = (lastNow - timeBase) / 10^6` where `lastNow` is the time of the
  last `step` (of creation before the first).

Hypotheses that remain (witnesses of their necessity at the end of the file):
* on the configuration: `CfgOk` — `Endpoint.hcConfig` satisfies all of it (`C03_hc_cfg_endpoint`); there is
  no condition on the bandwidth limit any more: the slow-start doubling is `send_rate.saturating_mul(2)`
  (`C03_hc_bandwidth_example` is the run that trapped with `2 * send_rate` at a limit of `2^31`);
* `send`: `channel_id < CHANNEL_COUNT` (`C03_hc_channel_witness`) and `data.len() ≤ MAX_PACKET_SIZE` (no
  witness: it is the documented precondition; the proof uses it for the frame-size accounting on which
  the termination argument of the resend loop rests), both asserted by the public `send`;
* `step now`: `now ≥` the time of the previous `step` / of creation (`C03_hc_clock_witness`);
* on the float operations: `BisectConverges ops` (C03Rate, `C03_rate_hang_witness`) and `LossOk ops`
  (`∀ p, ¬ (loss_rate([]) > p)`; for IEEE: `compute_loss_rate` of no intervals is `0.0`;
  `C03_hc_step_reset_witness`).
No hypothesis at all is needed on the contents of data / ack / sync frames.
-/

namespace Uflow.Props.C03

open Uflow Uflow.Gen Uflow.Codec Uflow.HalfConn Uflow.Credit Uflow.HcInv
open Uflow.Rate (FloatOps BisectConverges)

variable {F : Type}

/-- (a) The invariant holds for a fresh half connection, for every valid configuration. -/
theorem C03_hc_init (ops : FloatOps F) (cfg : Config) (now : Nat) (rng : Rng) (hc : CfgOk cfg) :
    HcInv (init ops cfg now rng) ∧ lastNow (init ops cfg now rng) = now :=
  ⟨hcInv_init ops cfg now rng hc, rfl⟩

/-- The configuration built by the endpoints (`Endpoint.hcConfig`: frame and packet windows 4096,
packet base ids reduced mod `2^20`) is valid provided the local nonce is a `u32`; the negotiated
bandwidth limit `min max_send_rate rate` is arbitrary. -/
theorem C03_hc_cfg_endpoint (ep : Endpoint.EpConfig) (localNonce remoteNonce rate alloc : Nat)
    (hn : localNonce < 2^32) :
    CfgOk (Endpoint.hcConfig ep localNonce remoteNonce rate alloc) where
  txFrameBase := hn
  txFrameWin := by show MAX_FRAME_WINDOW_SIZE + MAX_FRAME_WINDOW_SIZE < 2^31; decide
  txPacketBase := by show localNonce % PACKET_ID_SPAN < 2^20; exact Nat.mod_lt _ (by decide)
  txPacketWin := by show MAX_PACKET_WINDOW_SIZE < 2^20; decide
  rxPacketBase := by show remoteNonce % PACKET_ID_SPAN < 2^20; exact Nat.mod_lt _ (by decide)
  rxPacketWin := by show 0 < MAX_PACKET_WINDOW_SIZE; decide

/-- (b1) `handle_data_frame`: a data frame with ANY frame id, nonce and datagrams (any field values,
e.g. `fragment_id > fragment_id_last`, channel `≥ 64`, sequence id `≥ 2^20`) returns and keeps the
invariant. -/
theorem C03_hc_handleDataFrame (s : State F) (id : Nat) (nonce : Bool) (dgs : List Datagram)
    (h : HcInv s) :
    ∃ s', handleDataFrame s id nonce dgs = .ok s' ∧ HcInv s' ∧ lastNow s' = lastNow s :=
  handleDataFrame_ok s id nonce dgs h

/-- (b2) `handle_ack_frame`: an ack frame with ANY frame base id, ANY packet base id (`≥ 2^20`, outside
the window, …) and ANY ack groups (unknown frames, wrong nonces, replays) returns and keeps the
invariant: no `unwrap` on an empty window slot, no underflow of `alloc` / `total_size`, no endless
`while base_id != receiver_base_id`. -/
theorem C03_hc_handleAckFrame (s : State F) (fb pb : Nat) (acks : List AckGroup) (h : HcInv s) :
    ∃ s', handleAckFrame s fb pb acks = .ok s' ∧ HcInv s' ∧ lastNow s' = lastNow s :=
  handleAckFrame_ok s fb pb acks h

/-- (b3) `handle_sync_frame`: a sync frame with ANY ids returns and keeps the invariant. -/
theorem C03_hc_handleSyncFrame (s : State F) (nf np : Option Nat) (h : HcInv s) :
    ∃ s', handleSyncFrame s nf np = .ok s' ∧ HcInv s' ∧ lastNow s' = lastNow s :=
  handleSyncFrame_ok s nf np h

/-- (c1) `send` within the preconditions asserted by the public API keeps the invariant (`send`
itself cannot trap; a channel id `≥ 64` would make a later `flush` index out of bounds). -/
theorem C03_hc_send (s : State F) (data : List Nat) (chan : Nat) (mode : SendMode) (h : HcInv s)
    (hlen : data.length ≤ MAX_PACKET_SIZE) (hch : chan < CHANNEL_COUNT) :
    HcInv (send s data chan mode) ∧ lastNow (send s data chan mode) = lastNow s :=
  send_ok s data chan mode h hlen hch

/-- (c2) `receive` returns and keeps the invariant. -/
theorem C03_hc_receive (s : State F) (h : HcInv s) :
    ∃ s' out, receive s = .ok (s', out) ∧ HcInv s' ∧ lastNow s' = lastNow s :=
  receive_ok s h

/-- (c3) `flush` returns and keeps the invariant: `PendingPacket::datagram` never slices out of
range, `emit_packet` never indexes a missing channel, the resend loop and the pending loops end
within their fuel (every resend either drops an entry or consumes send credit; every pending
iteration pops an entry or a queued packet), `resend_queue.pop().unwrap()` finds its entry,
`now_ms - sync_timeout_base_ms` does not underflow. -/
theorem C03_hc_flush (s : State F) (h : HcInv s) :
    ∃ s' out, flush s = .ok (s', out) ∧ HcInv s' ∧ lastNow s' = lastNow s :=
  flush_ok s h

/-- (c4) `step` with a clock that has not run backwards returns and keeps the invariant, for float
operations satisfying `BisectConverges` and `LossOk`. -/
theorem C03_hc_step (ops : FloatOps F) (hconv : BisectConverges ops) (hloss : LossOk ops)
    (s : State F) (now : Nat) (h : HcInv s) (hclock : lastNow s ≤ now) :
    ∃ s', step ops s now = .ok s' ∧ HcInv s' ∧ lastNow s' = now :=
  step_ok ops hconv hloss s now h hclock

/-- One event of `Credit.Ev` (any frame, `send`, `receive`, `step`, `flush`). -/
theorem C03_hc_exec (ops : FloatOps F) (hconv : BisectConverges ops) (hloss : LossOk ops)
    (s : State F) (ev : Ev) (h : HcInv s) (hev : evOk (lastNow s) ev = true) :
    ∃ s' out, exec ops s ev = .ok (s', out) ∧ HcInv s' ∧ lastNow s' = evTime (lastNow s) ev :=
  exec_ok ops hconv hloss s ev h hev

/-- **C03 for one half connection**: from a fresh half connection, every list of events — data, ack
and sync frames with ARBITRARY contents, `send` within the API preconditions, `receive`, `flush`, and
`step` with non-decreasing times (`evsOk`) — runs to `.ok`; the invariant holds in the final state. -/
theorem C03_hc_run_no_trap (ops : FloatOps F) (hconv : BisectConverges ops) (hloss : LossOk ops)
    (cfg : Config) (now : Nat) (rng : Rng) (hc : CfgOk cfg) (evs : List Ev)
    (hev : evsOk now evs = true) :
    ∃ s' out, runEvs ops (init ops cfg now rng) evs = .ok (s', out) ∧ HcInv s' :=
  runEvs_ok ops hconv hloss evs _ (hcInv_init ops cfg now rng hc) hev

/-- No trap of any kind. -/
theorem C03_hc_run_no_trap_kind (ops : FloatOps F) (hconv : BisectConverges ops) (hloss : LossOk ops)
    (cfg : Config) (now : Nat) (rng : Rng) (hc : CfgOk cfg) (evs : List Ev)
    (hev : evsOk now evs = true) (t : Trap) :
    runEvs ops (init ops cfg now rng) evs ≠ .error t := by
  obtain ⟨s', out, h, _⟩ := C03_hc_run_no_trap ops hconv hloss cfg now rng hc evs hev
  rw [h]; intro hc; cases hc

/-- The same for the run function of C13 (`Credit.run`). -/
theorem C03_hc_creditRun_no_trap (ops : FloatOps F) (hconv : BisectConverges ops)
    (hloss : LossOk ops) (cfg : Config) (now : Nat) (rng : Rng) (hc : CfgOk cfg) (evs : List Ev)
    (hev : evsOk now evs = true) : ∃ r, Credit.run ops (init ops cfg now rng) evs = .ok r :=
  creditRun_ok ops hconv hloss evs _ (hcInv_init ops cfg now rng hc) hev

/-! ## Non-vacuity

`exOps : FloatOps Nat`, `exCfg` (windows 16, base ids 0) and `exS0 = init exOps exCfg 0 ⟨[], 0⟩` are
those of `Uflow/Lemmas/CreditEx.lean`. -/

open Uflow.CreditEx

theorem exOps_converges : BisectConverges exOps :=
  .stop (by decide)

theorem exOps_lossOk : LossOk exOps := fun _ => rfl

example : CfgOk exCfg := by decide

/-- A hostile script: two packets are sent and a first flush emits frame 0; then an ack frame with
packet base id `2^20 + 5` and frame base id beyond the log, an ack group naming 32 frames that were
never sent, a sync frame with packet id `2^31`, a data frame whose datagram has
`fragment_id = 7 > fragment_id_last = 3`, a valid data frame, `receive`, the genuine ack of frame 0
(first with the right, then with the wrong nonce), and three more step/flush rounds (the first of
which processes the feedback: the rate controller goes to `slowStart (some 100)`). -/
def exHostile : List Ev :=
  [.send (List.replicate 100 7) 0 .reliable, .send (List.replicate 3000 9) 1 .unreliable, .step 0, .flush,
   .ackFrame 5 (2^20+5) [{ baseId := 0, bitfield := 1, nonce := false }],
   .ackFrame 0 7 [{ baseId := 1000, bitfield := 0xFFFFFFFF, nonce := false }],
   .syncFrame (some 12345) (some (2^31)),
   .dataFrame 0 true [{ sequenceId := 0, channelId := 0, windowParentLead := 0, channelParentLead := 0,
                        fragmentId := 7, fragmentIdLast := 3, data := [1, 2, 3] }],
   .dataFrame 1 false [{ sequenceId := 0, channelId := 0, windowParentLead := 0, channelParentLead := 0,
                         fragmentId := 0, fragmentIdLast := 0, data := [1, 2, 3] }],
   .receive,
   .ackFrame 1 1 [{ baseId := 0, bitfield := 1, nonce := true }],
   .ackFrame 1 1 [{ baseId := 0, bitfield := 1, nonce := false }],
   .step 100000000, .flush,
   .step 3000000000, .flush, .step 3000000000, .flush]

/-- The hypotheses of `C03_hc_run_no_trap` hold for the script … -/
example : evsOk 0 exHostile = true := by decide +kernel

/-- … hence it runs, in a state satisfying the invariant … -/
example : ∃ s' out, runEvs exOps exS0 exHostile = .ok (s', out) ∧ HcInv s' :=
  C03_hc_run_no_trap exOps exOps_converges exOps_lossOk exCfg 0 _ (by decide) exHostile
    (by decide +kernel)

/-- … and, evaluating the model, the run is not trivial: 5 frames are emitted, the reliable packet
has been acknowledged (window base 1), the unreliable one is partly in flight, the receiver delivered
the valid packet (base 1), the rate controller left its initial state through a feedback. -/
example : (match runEvs exOps exS0 exHostile with
    | .ok (s, out) => decide (out.length = 5 ∧ s.ps.baseId = 1 ∧ s.ps.nextId = 2 ∧ s.pr.baseId = 1 ∧
        s.rate.mode = .slowStart (some 100) ∧ s.nowMs = 3000)
    | .error _ => false) = true := by decide +kernel

/-- `HcInv` in a concrete non-trivial state (after the first flush: two packets in the window, three
fragments pending, one scheduled for resending, one frame in the log, negative credit); the clock
hypothesis of `C03_hc_step` holds there for `now = 100000000`. -/
example : ∃ s out, runEvs exOps exS0 (exHostile.take 4) = .ok (s, out) ∧ HcInv s ∧
    s.ps.win.length = 2 ∧ s.pending.length = 3 ∧ s.resend.size = 1 ∧ s.fq.frames.length = 1 ∧
    s.flushAlloc = -119 ∧ lastNow s ≤ 100000000 := by
  obtain ⟨s, out, h, hi⟩ := C03_hc_run_no_trap exOps exOps_converges exOps_lossOk exCfg 0
    { fifo := [], state := 0 } (by decide) (exHostile.take 4) (by decide +kernel)
  have hd : (match runEvs exOps exS0 (exHostile.take 4) with
      | .ok (s, _) => decide (s.ps.win.length = 2 ∧ s.pending.length = 3 ∧ s.resend.size = 1 ∧
          s.fq.frames.length = 1 ∧ s.flushAlloc = -119 ∧ lastNow s ≤ 100000000)
      | .error _ => false) = true := by decide +kernel
  have h' : runEvs exOps exS0 (exHostile.take 4) = .ok (s, out) := h
  rw [h'] at hd
  exact ⟨s, out, h', hi, of_decide_eq_true hd⟩

/-- Each hostile frame alone, applied to the state after the first flush (`HcInv` holds there by
`C03_hc_run_no_trap`): the ack with packet base id `2^20 + 5` and the sync frame with packet id
`2^31` leave the sender / receiver untouched. -/
example : (match runEvs exOps exS0 (exHostile.take 4) with
    | .ok (s, _) =>
      (match handleAckFrame s 5 (2^20+5) [{ baseId := 0, bitfield := 1, nonce := false }] with
       | .ok s' => decide (s'.ps = s.ps ∧ s'.fq = s.fq)
       | .error _ => false) &&
      (match handleSyncFrame s (some 12345) (some (2^31)) with
       | .ok s' => decide (s'.pr = s.pr)
       | .error _ => false) &&
      (match handleAckFrame s 0 7 [{ baseId := 1000, bitfield := 0xFFFFFFFF, nonce := false }] with
       | .ok s' => decide (s'.ps = s.ps ∧ s'.fq = s.fq)
       | .error _ => false)
    | .error _ => false) = true := by decide +kernel

/-! ## Witnesses: the hypotheses cannot be dropped -/

/-- Float operations violating `LossOk` only: as `exOps`, but the loss rate of every history
(also the empty one) is `1 > 0`. -/
def badLossOps : FloatOps Nat := { exOps with lossRate := fun _ => 1 }

/-- **Reachable from the network for SOME float operations**: without `LossOk`, the first genuine
ack frame makes the next `step` panic: the feedback reports a "loss increase" although the loss
interval queue is empty, slow start is left, and `reset_loss_rate` indexes `entries[0]` of the empty
queue (`Trap.index`) — although the bisection converges, the configuration is valid and the clock
is monotone. With IEEE arithmetic `compute_loss_rate` of an empty history is `0.0` and `0.0 > 0.0` is
false, so the real code is not affected; the assumption is on `FloatOps`. -/
theorem C03_hc_step_reset_witness :
    ∃ (ops : FloatOps Nat) (evs : List Ev), BisectConverges ops ∧ CfgOk exCfg ∧ evsOk 0 evs = true ∧
      runEvs ops (init ops exCfg 0 { fifo := [], state := 0 }) evs = .error .index :=
  ⟨badLossOps,
   [.send (List.replicate 100 7) 0 .reliable, .step 0, .flush,
    .ackFrame 1 1 [{ baseId := 0, bitfield := 1, nonce := true }], .step 100000000],
   .stop (by decide), by decide, by decide +kernel, Rate.trapOf_eq_some (by decide +kernel)⟩

/-- Float operations as `exOps` but with a saturated initial rate (`(4380.0 / rtt) as u32 = u32::MAX` for an
RTT sample of 0 ms). -/
def satInitOps : FloatOps Nat := { exOps with initRate := fun _ => 2^32 - 1 }

/-- The script that made the unrepaired code overflow (`2 * self.send_rate` in the slow-start doubling,
formerly `C03_hc_bandwidth_witness`): a first acknowledged frame sets the send rate to the limit and the
acknowledgement of a second frame one round trip later doubles it. -/
def exDoubling : List Ev :=
  [.send (List.replicate 100 7) 0 .reliable, .step 0, .flush,
   .ackFrame 1 1 [{ baseId := 0, bitfield := 1, nonce := true }],
   .step 100000000,
   .send (List.replicate 100 7) 0 .reliable, .flush,
   .ackFrame 2 2 [{ baseId := 1, bitfield := 1, nonce := true }],
   .ackFrame 2 2 [{ baseId := 1, bitfield := 1, nonce := false }],
   .step 300000000]

/-- **No bound on `txBandwidthLimit` is needed** (cf. `C03_rate_saturate_example`): with a limit of `2^31`
— `Endpoint.hcConfig` takes the minimum of the local `max_send_rate` and the rate announced by the peer in
the handshake, both `u32` — and with the limit `u32::MAX`, `exDoubling` runs to `.ok`: the slow-start
doubling `send_rate.saturating_mul(2)` saturates and is capped to the limit again (rate controller in
`slowStart (some 300)`, i.e. the doubling branch was taken). With `2 * send_rate` this run trapped
(`Trap.overflow`). `CfgOk` holds for both configurations, so this is an instance of
`C03_hc_run_no_trap`. -/
theorem C03_hc_bandwidth_example :
    BisectConverges satInitOps ∧ LossOk satInitOps ∧ evsOk 0 exDoubling = true ∧
    CfgOk { exCfg with txBandwidthLimit := 2^31 } ∧ CfgOk { exCfg with txBandwidthLimit := 2^32 - 1 } ∧
    (match runEvs satInitOps
        (init satInitOps { exCfg with txBandwidthLimit := 2^31 } 0 { fifo := [], state := 0 }) exDoubling with
     | .ok (s, _) => decide (s.rate.sendRate = 2^31 ∧ s.rate.mode = .slowStart (some 300))
     | .error _ => false) = true ∧
    (match runEvs satInitOps
        (init satInitOps { exCfg with txBandwidthLimit := 2^32 - 1 } 0 { fifo := [], state := 0 })
        exDoubling with
     | .ok (s, _) => decide (s.rate.sendRate = 2^32 - 1 ∧ s.rate.mode = .slowStart (some 300))
     | .error _ => false) = true :=
  ⟨.stop (by decide), fun _ => rfl, by decide +kernel, by decide, by decide, by decide +kernel,
    by decide +kernel⟩

/-- A clock running backwards makes `step` trap (`now_ms - last_send_time` in `get_feedback`). -/
theorem C03_hc_clock_witness :
    ∃ (evs : List Ev), runEvs exOps exS0 evs = .error .overflow :=
  ⟨[.send (List.replicate 100 7) 0 .reliable, .step 5000000000, .flush,
    .ackFrame 1 1 [{ baseId := 0, bitfield := 1, nonce := true }], .step 0],
   Rate.trapOf_eq_some (by decide +kernel)⟩

/-- A `send` on channel 64 (excluded by the assertion in the public `send`) makes the next `flush`
index `channels[64]`. -/
theorem C03_hc_channel_witness :
    ∃ (evs : List Ev), runEvs exOps exS0 evs = .error .index :=
  ⟨[.send [1, 2, 3] 64 .reliable, .step 0, .flush], Rate.trapOf_eq_some (by decide +kernel)⟩

end Uflow.Props.C03
