import Uflow.Lemmas.EndpointClientExamples

/-!
# C07 (client half) — connections only after a nonce-validated handshake

Model: `Uflow.Endpoint.Client` (`Uflow/Model/Endpoint.lean`); every theorem holds for every half
connection `hc : HC H`. Helper lemmas: `Uflow/Lemmas/EndpointClient*.lean`.

Vocabulary (defined in the lemma files):
* `COp`, `Client.apply`, `Client.run`: API calls (`step`, `send`, `disconnect`, `flush`) and runs.
* `decodesTo b f`: the datagram `b`, as read into the 1472-byte receive buffer, decodes to `f`.
* `CState.pendingWith s ln req`: `s = .pending ln req _ _ _`.
-/

namespace Uflow.Props.C07Client

open Uflow.Endpoint Uflow.Codec Uflow.Gen Uflow.HalfConn

variable {H : Type}

/-! ## `C07_client_connect_sound` -/

/-- Frame level: a frame handler that adds `connect` to the event buffer was processing a SYN-ACK whose
`nonceAck` equals the `localNonce` of the `pending` state. -/
theorem C07_client_connect_sound (hc : HC H) (c c' : Client H) (f : Frame) (nowMs nowNs : Nat)
    (out : List (List Nat)) (h : c.handleFrame hc f nowMs nowNs = .ok (c', out))
    (hm : CEvent.connect ∈ c'.eventsOut) :
    CEvent.connect ∈ c.eventsOut ∨
    ∃ ln req rt rc sends n r p a, c.state = .pending ln req rt rc sends ∧ f = .synAck ln n r p a :=
  Client.handleFrame_connect hc c c' f nowMs nowNs out h hm

/-- The handshake-completing transition itself: `pending ln` + SYN-ACK echoing `ln` ⇒ one `connect`,
state `active` with the configuration derived from the frame, and the ACK carrying the server nonce. -/
theorem C07_client_connect_transition (hc : HC H) (c : Client H) (nowMs nowNs : Nat)
    (ln : Nat) (req : List Nat) (rt rc : Nat) (sends : List (List Nat × Nat × SendMode))
    (hs : c.state = .pending ln req rt rc sends) (n r p a : Nat) :
    c.handleFrame hc (.synAck ln n r p a) nowMs nowNs =
      .ok ({ c with eventsOut := c.eventsOut ++ [CEvent.connect],
                    state := .active ln
                      (sends.foldl (fun h (e : List Nat × Nat × SendMode) => hc.send h e.1 e.2.1 e.2.2)
                        (hc.new (hcConfig c.ep ln n r a) nowNs))
                      c.ep.activeTimeoutMs none },
           [encode (.hsAck n)]) := by
  rw [Client.handleFrame_pending hc c _ nowMs nowNs ln req rt rc sends hs]; simp

/-- Step level: a `Client.step` that delivers `connect` started in `pending ln …`, one of the datagrams
it read decodes to a SYN-ACK with `nonceAck = ln`, `connect` is delivered exactly once by that step and
the client is no longer `pending` afterwards. -/
theorem C07_client_connect_sound_step (hc : HC H) (c c' : Client H) (nowNs : Nat) (arrivals sent : List (List Nat))
    (evs : List CEvent) (h : c.step hc nowNs arrivals = .ok (c', sent, evs)) (he : c.eventsOut = [])
    (hm : CEvent.connect ∈ evs) :
    (∃ ln req rt rc sends, c.state = .pending ln req rt rc sends ∧
      ∃ b ∈ arrivals, ∃ n r p a, decodesTo b (.synAck ln n r p a)) ∧
    evs.count CEvent.connect = 1 ∧ evs.head? = some CEvent.connect ∧
    ∀ ln req, ¬ c'.state.pendingWith ln req := by
  rcases Client.step_connect hc c c' nowNs arrivals sent evs h hm with hx | ⟨ln, req, rt, rc, sends, hs, hw⟩
  · rw [he] at hx; cases hx
  refine ⟨⟨ln, req, rt, rc, sends, hs, hw⟩, ?_⟩
  obtain ⟨-, p', hrun, hcompat⟩ := Client.apply_monitor hc c c' (.step nowNs arrivals) sent evs h he .idle
    (by simp [Compat, hs])
  rcases CPhase.run_idle evs p' hrun with ⟨rfl, _⟩ | ⟨e, rfl, _⟩ | ⟨pkts, tail, rfl, ht⟩
  · cases hm
  · simp at hm
  · have hp' : p' ≠ .idle := by rcases ht with ⟨_, rfl⟩ | ⟨_, rfl⟩ <;> simp
    refine ⟨?_, rfl, ?_⟩
    · have h0 : ∀ l : List (List Nat), List.count CEvent.connect (l.map CEvent.receive) = 0 := by
        intro l; induction l with
        | nil => rfl
        | cons x xs ih => simpa [List.count_cons] using ih
      rcases ht with ⟨rfl, _⟩ | ⟨rfl | rfl, _⟩ <;> simp [List.count_append, h0]
    · intro ln' req' ⟨_, _, _, hs'⟩
      rw [hs'] at hcompat
      exact hp' hcompat

/-- No transition leads back to `pending`: if the client is `pending` (nonce `ln`, request `req`) after
any sequence of API calls, it was `pending` with the same nonce and request before. Together with
`C07_client_connect_sound_step` (`connect` leaves `pending`): at most one `connect` per client. -/
theorem C07_client_no_return_to_pending (hc : HC H) (ops : List COp) (c c' : Client H) (sent : List (List Nat))
    (evs : List CEvent) (h : Client.run hc c ops = .ok (c', sent, evs))
    (ln : Nat) (req : List Nat) (hp : c'.state.pendingWith ln req) : c.state.pendingWith ln req :=
  Client.run_pending_back hc ops c c' sent evs h ln req hp

/-- Run level: in every run of a client created by `Client.connect`, `connect` is delivered at most
once, and only as the very first event. -/
theorem C07_client_connect_at_most_once (hc : HC H) (ep : EpConfig) (now : Nat) (rng : Rng) (ops : List COp)
    (c' : Client H) (sent : List (List Nat)) (evs : List CEvent)
    (h : Client.run hc (Client.connect ep now rng).1 ops = .ok (c', sent, evs)) :
    evs.count CEvent.connect ≤ 1 ∧ (CEvent.connect ∈ evs → evs.head? = some CEvent.connect) := by
  obtain ⟨-, p', hrun, -⟩ := Client.run_monitor hc ops _ c' sent evs h rfl .idle (by simp [Client.connect, Compat])
  have h0 : ∀ l : List (List Nat), List.count CEvent.connect (l.map CEvent.receive) = 0 := by
    intro l; induction l with
    | nil => rfl
    | cons x xs ih => simpa [List.count_cons] using ih
  rcases CPhase.run_idle evs p' hrun with ⟨rfl, _⟩ | ⟨e, rfl, _⟩ | ⟨pkts, tail, rfl, ht⟩
  · simp
  · simp
  · refine ⟨?_, fun _ => rfl⟩
    rcases ht with ⟨rfl, _⟩ | ⟨rfl | rfl, _⟩ <;> simp [List.count_append, h0]

/-! ## `C07_forged_noop`, client half -/

/-- A SYN-ACK whose `nonceAck` is not the client's own nonce is a no-op in every state
(`closing`/`closed`/`fin` have no nonce: every SYN-ACK is a no-op there). -/
theorem C07_client_forged_synAck_noop (hc : HC H) (c : Client H) (nowMs nowNs na n r p a : Nat)
    (hp : ∀ ln req rt rc sends, c.state = .pending ln req rt rc sends → na ≠ ln)
    (ha : ∀ ln hh t sig, c.state = .active ln hh t sig → na ≠ ln) :
    c.handleFrame hc (.synAck na n r p a) nowMs nowNs = .ok (c, []) := by
  cases hs : c.state with
  | fin => exact Client.handleFrame_fin hc c _ nowMs nowNs hs
  | closed t => rw [Client.handleFrame_closed hc c _ nowMs nowNs t hs]; simp
  | closing req rt rc => rw [Client.handleFrame_closing hc c _ nowMs nowNs req rt rc hs]
  | pending ln req rt rc sends =>
    rw [Client.handleFrame_pending hc c _ nowMs nowNs ln req rt rc sends hs]
    simp [hp ln req rt rc sends hs]
  | active ln hh t sig =>
    rw [Client.handleFrame_active hc c _ nowMs nowNs ln hh t sig hs]
    simp [ha ln hh t sig hs]

/-- A handshake-error frame that does not echo the nonce of a `pending` client is a no-op in every
state. -/
theorem C07_client_forged_hsError_noop (hc : HC H) (c : Client H) (nowMs nowNs na : Nat) (e : HsError)
    (hp : ∀ ln req rt rc sends, c.state = .pending ln req rt rc sends → na ≠ ln) :
    c.handleFrame hc (.hsError na e) nowMs nowNs = .ok (c, []) := by
  cases hs : c.state with
  | fin => exact Client.handleFrame_fin hc c _ nowMs nowNs hs
  | closed t => rw [Client.handleFrame_closed hc c _ nowMs nowNs t hs]; simp
  | closing req rt rc => rw [Client.handleFrame_closing hc c _ nowMs nowNs req rt rc hs]
  | pending ln req rt rc sends =>
    rw [Client.handleFrame_pending hc c _ nowMs nowNs ln req rt rc sends hs]
    simp [hp ln req rt rc sends hs]
  | active ln hh t sig => rw [Client.handleFrame_active hc c _ nowMs nowNs ln hh t sig hs]

/-- A matching SYN-ACK while already `active` only re-sends the ACK: state and events unchanged. -/
theorem C07_client_dup_synAck_resends_ack (hc : HC H) (c : Client H) (nowMs nowNs : Nat)
    (ln : Nat) (hh : H) (t : Nat) (sig : Option DisconnectMode) (hs : c.state = .active ln hh t sig)
    (n r p a : Nat) :
    c.handleFrame hc (.synAck ln n r p a) nowMs nowNs = .ok (c, [encode (.hsAck n)]) := by
  rw [Client.handleFrame_active hc c _ nowMs nowNs ln hh t sig hs]; simp

/-- Frames only a server handles (`syn`, `hsAck`) are no-ops for the client in every state. -/
theorem C07_client_server_frames_noop (hc : HC H) (c : Client H) (nowMs nowNs : Nat) :
    (∀ v n r p a, c.handleFrame hc (.syn v n r p a) nowMs nowNs = .ok (c, [])) ∧
    (∀ na, c.handleFrame hc (.hsAck na) nowMs nowNs = .ok (c, [])) :=
  ⟨fun _ _ _ _ _ => rfl, fun _ => rfl⟩

/-! ## `C07_refusal`, client half -/

/-- An error frame echoing the nonce of a `pending` client delivers `error` with the matching error
type and ends the client (`fin`); nothing is sent. -/
theorem C07_client_refusal (hc : HC H) (c : Client H) (nowMs nowNs : Nat)
    (ln : Nat) (req : List Nat) (rt rc : Nat) (sends : List (List Nat × Nat × SendMode))
    (hs : c.state = .pending ln req rt rc sends) (e : HsError) :
    c.handleFrame hc (.hsError ln e) nowMs nowNs =
      .ok ({ c with eventsOut := c.eventsOut ++ [CEvent.error (errOfHs e)], state := .fin }, []) := by
  rw [Client.handleFrame_pending hc c _ nowMs nowNs ln req rt rc sends hs]; simp

/-- The mapping of wire errors to `ErrorType`. -/
theorem C07_client_refusal_map :
    errOfHs .version = .version ∧ errOfHs .config = .config ∧ errOfHs .serverFull = .serverFull :=
  ⟨rfl, rfl, rfl⟩

/-- Byte level: a `pending` client whose step reads exactly the server's error datagram
`errFrame ln e` delivers exactly `[error (errOfHs e)]`, sends nothing and is `fin`. -/
theorem C07_client_refusal_step (hc : HC H) (c : Client H) (nowNs : Nat)
    (ln : Nat) (req : List Nat) (rt rc : Nat) (sends : List (List Nat × Nat × SendMode))
    (hs : c.state = .pending ln req rt rc sends) (he : c.eventsOut = []) (hln : ln < 2^32) (e : HsError) :
    c.step hc nowNs [errFrame ln e] =
      .ok ({ c with state := .fin }, [], [CEvent.error (errOfHs e)]) := by
  have hdec : decode ((errFrame ln e).take MAX_FRAME_SIZE) = some (.hsError ln e) := by
    have hlen : (errFrame ln e).length = 10 := by
      simp [errFrame, encode, withCrc, encodeBody, be32]
    rw [List.take_of_length_le (by rw [hlen]; simp [MAX_FRAME_SIZE])]
    exact decode_encode _ hln
  have hna : ∀ ln hh t sig, c.state ≠ .active ln hh t sig := by intro _ _ _ _ h; rw [hs] at h; cases h
  rw [Client.step_eq, Client.flush_not_active hc c hna]
  simp only [Client.arrivalsPhase, List.foldlM_cons, List.foldlM_nil, Client.frameStep, hdec, bind, Except.bind,
    C07_client_refusal hc c _ nowNs ln req rt rc sends hs e, pure, Except.pure]
  rw [Client.handleEvents_fin _ _ rfl, Client.stepPhase_not_active hc _ _ nowNs (by intro _ _ _ _ h; cases h)]
  simp [he]

/-! ## Non-vacuity -/

/-- `C07_client_connect_sound` / `_step` / `_transition`: the example client (nonce 7) completes the
handshake on the SYN-ACK echoing 7. -/
example : ∃ c' sent evs, exClient.step trivHC 1000000 [exSynAck] = .ok (c', sent, evs) ∧
    exClient.eventsOut = [] ∧ CEvent.connect ∈ evs := by
  obtain ⟨a, h, hp⟩ := okAnd_elim (r := exClient.step trivHC 1000000 [exSynAck])
    (p := fun r => decide (CEvent.connect ∈ r.2.2)) (by decide +kernel)
  exact ⟨a.1, a.2.1, a.2.2, h, rfl, by simpa using hp⟩

example : ∃ c' out, exClient.handleFrame trivHC (.synAck 7 9 500000 10000 100000) 1 1000000 = .ok (c', out) ∧
    CEvent.connect ∈ c'.eventsOut := ⟨_, _, rfl, by simp⟩

example : ∃ ln req rt rc sends, exClient.state = .pending ln req rt rc sends := ⟨_, _, _, _, _, rfl⟩

/-- `C07_client_no_return_to_pending` / `_connect_at_most_once`: a run in which the client is still
`pending` at the end, and one which delivers `connect`. -/
example : ∃ c' sent evs, Client.run trivHC exClient [.step 1000000 [], .send [1, 2] 0 .reliable] = .ok (c', sent, evs) ∧
    ∃ ln req, c'.state.pendingWith ln req := ⟨_, _, _, rfl, _, _, _, _, _, rfl⟩

example : okAnd (Client.run trivHC exClient [.step 1000000 [exSynAck], .step 2000000 [exSynAck]])
    (fun r => decide (r.2.2 = [CEvent.connect])) = true := by decide +kernel

/-- Forged frames: hypotheses hold for the example client and any nonce other than 7. -/
example : ∀ ln req rt rc sends, exClient.state = .pending ln req rt rc sends → 8 ≠ ln := by
  intro ln req rt rc sends h; cases h; decide

/-- `C07_client_dup_synAck_resends_ack`: an `active` client. -/
example : ∃ ln hh t sig, ({ exClient with state := .active 7 () 15001 none } : Client Unit).state = .active ln hh t sig :=
  ⟨_, _, _, _, rfl⟩

/-- `C07_client_refusal_step`: the example client is refused with `serverFull`. -/
example : okAnd (exClient.step trivHC 1000000 [errFrame 7 .serverFull])
    (fun r => decide (r.2.2 = [CEvent.error .serverFull] ∧ r.2.1 = [])) = true := by decide +kernel

end Uflow.Props.C07Client
