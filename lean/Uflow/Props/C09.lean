import Uflow.Lemmas.EndpointEventsExamples
import Uflow.Lemmas.EndpointEventsBudget

/-!
# C09 — disconnect: retry budget and flush gate

Model: `Uflow.Endpoint` (`Uflow/Model/Endpoint.lean`); every theorem holds for every half connection
`hc : HC H`. Helper lemmas: `Uflow/Lemmas/EndpointClient*.lean`, `Uflow/Lemmas/EndpointEvents*.lean`.

Vocabulary (lemma files): `discGate hc sig h` — the condition of `step_if_active` for sending the
disconnect request: `sig = some .now`, or `sig = some .flush` and `hc.isSendPending h = false`;
`CState.isClosing`, `CState.terminal` (`closed` or `fin`); `c.nowMs nowNs` the clock of a step.
-/

namespace Uflow.Props.C09

open Uflow.Endpoint Uflow.Codec Uflow.Gen Uflow.HalfConn

variable {H : Type}

/-- `u32` (the model of `.min(u32::MAX as usize) as u32`) fits 32 bits. -/
theorem C09_u32_lt (x : Nat) : u32 x < 2^32 := by
  unfold u32; omega

/-! ## Client -/

/-- The gate, spelled out. -/
theorem C09_discGate_iff (hc : HC H) (sig : Option DisconnectMode) (h : H) :
    discGate hc sig h = true ↔ sig = some .now ∨ (sig = some .flush ∧ hc.isSendPending h = false) := by
  unfold discGate
  cases sig with
  | none => simp
  | some m => cases m <;> simp

/-- `C09_flush_gate` (client): a step that ends in `closing` without having started there went through
the gate: after the timers of that step the connection was `active` with `signal = some .now`, or
`signal = some .flush ∧ isSendPending = false`; the packets the half connection could deliver at that
moment (`hc.receive`) are the last events of the step (appended before the state changed); the state is
`closing discReq (now + 2000) 10` and the disconnect request is the last datagram sent. -/
theorem C09_flush_gate_client (hc : HC H) (c c' : Client H) (nowNs : Nat) (arrivals sent : List (List Nat))
    (evs : List CEvent) (h : c.step hc nowNs arrivals = .ok (c', sent, evs))
    (hnc : ¬ c.state.isClosing) (hcl : c'.state.isClosing) :
    ∃ (c3 : Client H) (ln : Nat) (hh : H) (t : Nat) (sig : Option DisconnectMode) (h' : H) (pkts pre : List (List Nat)),
      c3.state = .active ln hh t sig ∧
      (sig = some .now ∨ (sig = some .flush ∧ hc.isSendPending hh = false)) ∧
      hc.receive hh = .ok (h', pkts) ∧ evs = c3.eventsOut ++ pkts.map CEvent.receive ∧
      c'.state = .closing discReq (c.nowMs nowNs + CLIENT_DISCONNECT_RESEND_INTERVAL_MS) CLIENT_DISCONNECT_RESEND_COUNT ∧
      sent = pre ++ [discReq] := by
  obtain ⟨c3, ln, hh, t, sig, h', pkts, pre, h1, h2, h3, h4, h5, h6⟩ :=
    Client.step_enters_closing hc c c' nowNs arrivals sent evs h hnc hcl
  exact ⟨c3, ln, hh, t, sig, h', pkts, pre, h1, (C09_discGate_iff hc sig hh).mp h2, h3, h4, h5, h6⟩

/-- … and `closing` is entered by no API call other than `step` (`send`, `disconnect`, `flush` never
send the request). -/
theorem C09_only_step_enters_closing (hc : HC H) (c c' : Client H) (op : COp) (sent : List (List Nat))
    (evs : List CEvent) (h : c.apply hc op = .ok (c', sent, evs))
    (hnc : ¬ c.state.isClosing) (hcl : c'.state.isClosing) : ∃ n a, op = .step n a :=
  Client.apply_enters_closing hc c c' op sent evs h hnc hcl

/-- The gate from the inputs: a step from `active` either times out, or is closed by the peer, or —
exactly when the gate holds for the half connection as left by the arrivals — sends the request as its
last datagram and delivers what `hc.receive` returns, or stays `active` (gate false). -/
theorem C09_flush_gate_client_active (hc : HC H) (c c' : Client H) (nowNs : Nat) (arrivals sent : List (List Nat))
    (evs : List CEvent) (ln : Nat) (hh : H) (t : Nat) (sig : Option DisconnectMode)
    (hs : c.state = .active ln hh t sig) (he : c.eventsOut = [])
    (h : c.step hc nowNs arrivals = .ok (c', sent, evs)) :
    (c'.state = .fin ∧ evs = [CEvent.error .timeout]) ∨
    (∃ h2 h3 pkts pre, discGate hc sig h2 = true ∧ hc.receive h2 = .ok (h3, pkts) ∧
      c'.state = .closing discReq (c.nowMs nowNs + CLIENT_DISCONNECT_RESEND_INTERVAL_MS) CLIENT_DISCONNECT_RESEND_COUNT ∧
      evs = pkts.map CEvent.receive ∧ sent = pre ++ [discReq]) ∨
    (∃ h2 h3 h4 pkts, discGate hc sig h2 = false ∧ hc.step h2 nowNs = .ok h3 ∧ hc.receive h3 = .ok (h4, pkts) ∧
      c'.state = .active ln h4 (c.deadlineAfter (c.nowMs nowNs) t arrivals) sig ∧ evs = pkts.map CEvent.receive) ∨
    (c'.state.terminal ∧ ∃ pkts : List (List Nat), evs = pkts.map CEvent.receive ++ [CEvent.disconnect]) := by
  obtain ⟨-, hcase⟩ := Client.step_active hc c c' nowNs arrivals sent evs ln hh t sig hs he h
  rcases hcase with ⟨_, _, h3, h4⟩ | ⟨_, _, hx⟩ | ⟨_, _, hx⟩ | ⟨_, hx⟩
  · exact Or.inl ⟨h3, h4⟩
  · exact Or.inr (Or.inl hx)
  · exact Or.inr (Or.inr (Or.inl hx))
  · exact Or.inr (Or.inr (Or.inr hx))

/-- `C09_retry_budget` (client), general form: any run from `closing req rt rc` (empty event buffer)
sends `k ≤ rc` further copies of the request followed only by `disconnectAck` replies, and
* either nothing has been delivered yet and the client is still `closing` with `rc - k` retries left, or
* exactly one `disconnect` was delivered (ack or crossing request) and the client is `closed`/`fin`, or
* exactly one `error timeout` was delivered, after exactly `rc` re-sends, the client is `fin`, and some
  step of the run had its clock `≥ rt + 2000 * rc`.
The event list of the whole run has at most one element: nothing is delivered afterwards. -/
theorem C09_retry_budget_client (hc : HC H) (ops : List COp) (c c' : Client H) (sent : List (List Nat))
    (evs : List CEvent) (req : List Nat) (rt rc : Nat) (hs : c.state = .closing req rt rc) (he : c.eventsOut = [])
    (h : Client.run hc c ops = .ok (c', sent, evs)) :
    ∃ k acks, sent = List.replicate k req ++ acks ∧ k ≤ rc ∧ (∀ b ∈ acks, b = discAck) ∧
      ((evs = [] ∧ acks = [] ∧ ∃ rt', c'.state = .closing req rt' (rc - k) ∧
          rt' ≥ rt + CLIENT_DISCONNECT_RESEND_INTERVAL_MS * k) ∨
       (evs = [CEvent.disconnect] ∧ c'.state.terminal) ∨
       (evs = [CEvent.error .timeout] ∧ k = rc ∧ acks = [] ∧ c'.state = .fin ∧
          ∃ n a, COp.step n a ∈ ops ∧ c.nowMs n ≥ rt + CLIENT_DISCONNECT_RESEND_INTERVAL_MS * rc)) :=
  Client.run_closing hc ops c c' sent evs req rt rc hs he h

/-- `C09_retry_budget` (client), from the moment of entering `closing` at clock `t0` (the entering step
has sent the request once, `C09_flush_gate_client`): at most 10 more copies, i.e. `1 + 10` in total;
`error timeout` only after all 10 and not before `t0 + 22000` ms. -/
theorem C09_retry_budget_client_entered (hc : HC H) (ops : List COp) (c c' : Client H) (sent : List (List Nat))
    (evs : List CEvent) (t0 : Nat)
    (hs : c.state = .closing discReq (t0 + CLIENT_DISCONNECT_RESEND_INTERVAL_MS) CLIENT_DISCONNECT_RESEND_COUNT)
    (he : c.eventsOut = []) (h : Client.run hc c ops = .ok (c', sent, evs)) :
    ∃ k acks, sent = List.replicate k discReq ++ acks ∧ k ≤ 10 ∧ (∀ b ∈ acks, b = discAck) ∧
      (evs = [] ∨ evs = [CEvent.disconnect] ∨ evs = [CEvent.error .timeout]) ∧
      (evs = [CEvent.error .timeout] → k = 10 ∧ acks = [] ∧ c'.state = .fin ∧
        ∃ n a, COp.step n a ∈ ops ∧ c.nowMs n ≥ t0 + 22000) := by
  obtain ⟨k, acks, h1, h2, h3, hcase⟩ := Client.run_closing hc ops c c' sent evs _ _ _ hs he h
  refine ⟨k, acks, h1, h2, h3, ?_, ?_⟩
  · rcases hcase with ⟨hx, _⟩ | ⟨hx, _⟩ | ⟨hx, _⟩
    · exact Or.inl hx
    · exact Or.inr (Or.inl hx)
    · exact Or.inr (Or.inr hx)
  · intro hev
    rcases hcase with ⟨hx, _⟩ | ⟨hx, _⟩ | ⟨_, x2, x3, x4, n, a, hm, hn⟩
    · rw [hx] at hev; cases hev
    · rw [hx] at hev; cases hev
    · exact ⟨x2, x3, x4, n, a, hm, ge_22000_of_ge hn⟩

/-! ### Non-vacuity (client) -/

/-- Flush gate: with something queued (`echoHC` reports send-pending until `receive` drains… here: while
its queue is non-empty) a `flush` disconnect does not fire; a `now` disconnect does. -/
example : okAnd (Client.run echoHC exClientE [.step 1000000 [exSynAck], .send [5] 0 .reliable, .disconnect .flush, .step 2000000 []])
    (fun r => match r.1.state with | .closing .. => false | _ => true) = true := by decide +kernel

example : okAnd (Client.run echoHC exClientE [.step 1000000 [exSynAck], .send [5] 0 .reliable, .disconnect .now, .step 2000000 []])
    (fun r => match r.1.state with
      | .closing req rt rc => decide (req = discReq ∧ rt = 2002 ∧ rc = 10 ∧ r.2.2 = [CEvent.connect, .receive [5]])
      | _ => false) = true := by decide +kernel

/-- Retry budget: 10 resends every 2 s, timeout at 22 s after entering. -/
example : okAnd (Client.run trivHC ({ exClient with state := .closing discReq 2000 10 } : Client Unit)
      ((List.range 12).map fun i => COp.step ((i + 1) * 2000000000) []))
    (fun r => decide (r.2.2 = [CEvent.error .timeout] ∧ r.2.1 = List.replicate 10 discReq)) = true := by
  decide +kernel

/-- … or the acknowledgement ends it earlier with `disconnect`. -/
example : okAnd (Client.run trivHC ({ exClient with state := .closing discReq 2000 10 } : Client Unit)
      [.step 2000000000 [], .step 3000000000 [encode .disconnectAck], .step 90000000000 []])
    (fun r => decide (r.2.2 = [CEvent.disconnect] ∧ r.2.1 = [discReq])) = true := by decide +kernel


/-! ## Server

Vocabulary (`Uflow/Lemmas/EndpointEventsStep.lean`): `sDiscGate hc sig h` — the condition of
`step_active_clients` for sending the disconnect request; `discTimer cid nowMs` — the timer
`{cid, resendDisconnect, time := nowMs + 2000, count := 10}`; `Server.stepActiveStep` — one iteration of
`step_active_clients`. -/

/-- The server-side gate, spelled out. -/
theorem C09_sDiscGate_iff (hc : HC H) (sig : Option DisconnectMode) (h : H) :
    sDiscGate hc sig h = true ↔ sig = some .now ∨ (sig = some .flush ∧ hc.isSendPending h = false) := by
  unfold sDiscGate
  cases sig with
  | none => simp
  | some m => cases m <;> simp

/-- `C09_flush_gate` (server): one iteration of `step_active_clients` on an `active` entry sends the
disconnect request exactly when `signal = some .now`, or `signal = some .flush ∧ isSendPending = false`;
then the packets the half connection can deliver at that moment (`hc.receive`) are appended to the events
(before the state changes), the entry becomes `closing`, the request is the last datagram sent, and the
retry timer is armed with count 10, 2000 ms ahead. Otherwise the entry stays `active` (same deadline,
same signal) and nothing is sent. On anything but an `active` entry the iteration does nothing. -/
theorem C09_flush_gate_server (hc : HC H) (nowMs nowNs : Nat) (acc acc' : Server H × List (Nat × List Nat))
    (hw : acc.1.WF) (cid : Nat) (h : Server.stepActiveStep hc nowMs nowNs acc cid = .ok acc') :
    ∃ evs, acc'.1.eventsOut = acc.1.eventsOut ++ evs ∧
      ((evs = [] ∧ acc' = acc) ∨
       ∃ c hh t sig, acc.1.byCid cid = some c ∧ c ∈ acc.1.clients ∧ c.state = .active hh t sig ∧
         (((sig = some .now ∨ (sig = some .flush ∧ hc.isSendPending hh = false)) ∧
            ∃ h' pkts, hc.receive hh = .ok (h', pkts) ∧
            evs = pkts.map (SEvent.receive c.address) ∧ acc'.2 = acc.2 ++ [(c.address, discReq)] ∧
            acc'.1.find c.address = some { c with state := .closing } ∧
            acc'.1.timers = tPush acc.1.timers (discTimer c.cid nowMs)) ∨
          (¬ (sig = some .now ∨ (sig = some .flush ∧ hc.isSendPending hh = false)) ∧
            ∃ h1 h2 pkts, hc.step hh nowNs = .ok h1 ∧ hc.receive h1 = .ok (h2, pkts) ∧
            evs = pkts.map (SEvent.receive c.address) ∧ acc'.2 = acc.2 ∧
            acc'.1.find c.address = some { c with state := .active h2 t sig }))) := by
  obtain ⟨evs, t, hcase⟩ := Server.stepActiveStep_STr hc nowMs nowNs acc acc' hw cid h
  refine ⟨evs, t.events, ?_⟩
  rcases hcase with hx | ⟨c, hh, tt, sig, hb, hcm, hst, hc2⟩
  · exact Or.inl hx
  · refine Or.inr ⟨c, hh, tt, sig, hb, hcm, hst, ?_⟩
    rcases hc2 with ⟨hg, hx⟩ | ⟨hg, hx⟩
    · exact Or.inl ⟨(C09_sDiscGate_iff hc sig hh).mp hg, hx⟩
    · refine Or.inr ⟨fun hcon => ?_, hx⟩
      rw [(C09_sDiscGate_iff hc sig hh).mpr hcon] at hg
      cases hg

/-- `C09_retry_budget` (server), the timer chain — PARTIAL (per-transition form). The
`resendDisconnect` timer armed on entering `closing` (`C09_flush_gate_server`: count 10, after the request
has been sent once) behaves as follows when it fires for an entry that is still `closing`:
* count `k > 0`: the request is sent once more and the timer re-armed with count `k - 1`, 2000 ms later;
* count `0`: no request; the entry gets exactly one `error timeout` and is removed from the map.
So the chain of firings sends the request at most 10 more times (`1 + 10` in total) and ends with the
timeout, unless the entry left `closing` before. -/
theorem C09_retry_budget_server_partial (s : Server H) (t : Timer) (nowMs : Nat) (c : RClient H)
    (hb : s.byCid t.cid = some c) (hst : c.state = .closing) (hk : t.kind = .resendDisconnect) :
    (t.count > 0 → s.handleTimer t nowMs =
      ({ s with timers := tPush s.timers { t with count := t.count - 1, time := nowMs + SERVER_DISCONNECT_RESEND_INTERVAL_MS } },
       [(c.address, discReq)])) ∧
    (t.count = 0 → s.handleTimer t nowMs =
      (({ s with eventsOut := s.eventsOut ++ [SEvent.error c.address .timeout] } : Server H).finish c, [])) :=
  Server.handleTimer_closing s t nowMs c hb hst hk

/-- … and a timer that fires after its entry has left `closing` (closed by `disconnect`/`disconnectAck`,
dropped, or gone) does nothing: no request, no event (`C08`: nothing is emitted for that connection
afterwards). -/
theorem C09_stale_timer_noop (s : Server H) (t : Timer) (nowMs : Nat) (hk : t.kind = .resendDisconnect)
    (h : s.byCid t.cid = none ∨ ∃ c, s.byCid t.cid = some c ∧ c.state ≠ .closing) :
    s.handleTimer t nowMs = (s, []) := by
  apply Server.handleTimer_stale
  rcases h with h | ⟨c, hb, hnc⟩
  · exact Or.inl h
  · refine Or.inr ⟨c, hb, ?_⟩
    cases hst : c.state with
    | pending ln rn r al rb => exact Or.inr (Or.inr (Or.inr (Or.inr ⟨⟨_, _, _, _, _, rfl⟩, by rw [hk]; decide⟩)))
    | active hh tt sig => exact Or.inr (Or.inl ⟨_, _, _, rfl⟩)
    | closing => exact absurd hst hnc
    | closed => exact Or.inr (Or.inr (Or.inr (Or.inl ⟨rfl, by rw [hk]; decide⟩)))
    | fin => exact Or.inl rfl

/-- The terminal event of a `closing` entry, exactly once: the only transitions out of `closing` are
the acknowledgement / crossing request (one `disconnect`, `C08_server_handleDisconnectAck` /
`C08_server_handleDisconnect`), the exhausted timer (one `error timeout`, above) and the application's
`drop`; the monitor theorem `C08_server_stream` then guarantees that nothing else is delivered for that
address until a new `connect`. Stated here for the two frame handlers. -/
theorem C09_closing_terminal_event_server (hc : HC H) (s : Server H) (hw : s.WF) (addr nowMs : Nat) (c : RClient H)
    (hf : s.find addr = some c) (hst : c.state = .closing) :
    (∃ s', s.handleDisconnect hc addr nowMs = .ok (s', [(addr, discAck)]) ∧
      s'.eventsOut = s.eventsOut ++ [SEvent.disconnect addr] ∧
      s'.find addr = some { c with state := .closed }) ∧
    ((s.handleDisconnectAck addr).eventsOut = s.eventsOut ++ [SEvent.disconnect addr] ∧
      (s.handleDisconnectAck addr).find addr = none) := by
  obtain ⟨hcm, hca⟩ := Server.find_some hf
  constructor
  · have e : s.handleDisconnect hc addr nowMs = .ok
        (({ (s.put { c with state := .closed }) with
            eventsOut := (s.put { c with state := .closed }).eventsOut ++ [SEvent.disconnect addr],
            timers := tPush (s.put { c with state := .closed }).timers { cid := c.cid, kind := .closedTimeout, time := nowMs + SERVER_CLOSED_TIMEOUT_MS, count := 0 } } : Server H),
         [(addr, discAck)]) := by
      unfold Server.handleDisconnect; rw [hf]; simp only [hst]
    refine ⟨_, e, ?_, ?_⟩
    · rw [Server.put_state_eq hcm]
    · have h1 : ∀ a, Server.find ({ (s.put { c with state := .closed }) with
            eventsOut := (s.put { c with state := .closed }).eventsOut ++ [SEvent.disconnect addr],
            timers := tPush (s.put { c with state := .closed }).timers { cid := c.cid, kind := .closedTimeout, time := nowMs + SERVER_CLOSED_TIMEOUT_MS, count := 0 } } : Server H) a =
          (s.put { c with state := .closed }).find a := fun _ => rfl
      rw [h1, Server.find_put (c' := { c with state := .closed }) hw hcm rfl rfl, if_pos hca.symm]
  · have e : s.handleDisconnectAck addr =
        ({ s with eventsOut := s.eventsOut ++ [SEvent.disconnect addr] } : Server H).finish c := by
      unfold Server.handleDisconnectAck; rw [hf]; simp only [hst]
    rw [e]
    have hcm' : c ∈ ({ s with eventsOut := s.eventsOut ++ [SEvent.disconnect addr] } : Server H).clients := hcm
    refine ⟨by rw [Server.finish_eq hcm'], ?_⟩
    rw [Server.find_finish, if_pos hca.symm]


/-! ### The server's retry budget along runs

Vocabulary (`Uflow/Lemmas/EndpointEventsTimers.lean`, `…Budget.lean`): `Server.TIe` — the timer invariant
"no `resendDisconnect` timer exists for the identity of an entry that is still `pending`/`active`, and
all timer identities are below `nextCid`"; `Trk s a cid n` — the entry of address `a` is the object
`cid`, it is `closing`, the heap holds exactly one `resendDisconnect` timer of `cid`, and its count is
`n`; `Left s cid` — the object `cid` is no longer `closing` (nor `pending`/`active`) in the map, for
good; `cntReq a sent` — number of datagrams `(a, discReq)` in `sent`. The heap (`tPush`/`tPop`) is
proved to be a multiset of timers (`tPush_perm`, `tPop_perm` in `EndpointEventsHeap.lean`). -/

/-- The timer invariant holds in every reachable state. -/
theorem C09_server_timer_invariant (hc : HC H) (cfg : SrvConfig) (now : Nat) (rng : Rng) (ops : List SOp)
    (s' : Server H) (sent : List (Nat × List Nat)) (ls : List SLabel)
    (h : Server.run hc (Server.init cfg now rng) ops = .ok (s', sent, ls)) : s'.TIe :=
  Server.run_TIe hc ops _ s' (Server.WF.init cfg now rng) rfl (Server.TIe.init cfg now rng) sent ls h

/-- Entering `closing` (the gate of `step_active_clients`, from a well-formed state satisfying the timer
invariant) sends the request once and starts the budget: the new `closing` entry has exactly one retry
timer, of count 10. -/
theorem C09_enter_closing_server (hc : HC H) (nowMs nowNs : Nat) (acc acc' : Server H × List (Nat × List Nat))
    (hw : acc.1.WF) (hi : acc.1.TIe) (cid0 : Nat) (h : Server.stepActiveStep hc nowMs nowNs acc cid0 = .ok acc')
    (c : RClient H) (hh : H) (t : Nat) (sig : Option DisconnectMode) (hb : acc.1.byCid cid0 = some c)
    (hst : c.state = .active hh t sig) (hg : sDiscGate hc sig hh = true) :
    Trk acc'.1 c.address c.cid SERVER_DISCONNECT_RESEND_COUNT ∧ acc'.2 = acc.2 ++ [(c.address, discReq)] :=
  Server.stepActiveStep_enter_Trk hc nowMs nowNs acc acc' hw hi cid0 h c hh t sig hb hst hg

/-- `C09_retry_budget` (server), run level: take any well-formed state (empty event buffer, timer
invariant) in which the entry of `a` is the object `cid`, `closing`, with its unique retry timer at count
`n` (right after entering: `n = 10`, and the request has been sent once). After ANY run, either
* the same object is still `closing` with its unique timer at count `n'`, and
  `(requests sent to a during the run) + n' = n` — so at most `n` (≤ 10) more requests, `1 + 10` in total; or
* the object has left `closing` for good (by `disconnect`/`disconnectAck` → one `disconnect` event, by the
  timer firing at count 0 → one `error timeout`, exactly when all `n` re-sends have happened, or by `drop`);
  by `C08_server_stream` nothing more is delivered for that connection. -/
theorem C09_retry_budget_server (hc : HC H) (ops : List SOp) (s s' : Server H) (hw : s.WF) (he : s.eventsOut = [])
    (hi : s.TIe) (a cid n : Nat) (hk : Trk s a cid n) (sent : List (Nat × List Nat)) (ls : List SLabel)
    (h : Server.run hc s ops = .ok (s', sent, ls)) :
    (∃ n', Trk s' a cid n' ∧ cntReq a sent + n' = n) ∨ Left s' cid :=
  (Server.run_KStep hc ops s s' hw he hi a cid sent ls h).1 n hk

/-- Once the object has left `closing` it never comes back (in any run). -/
theorem C09_left_forever_server (hc : HC H) (ops : List SOp) (s s' : Server H) (hw : s.WF) (he : s.eventsOut = [])
    (hi : s.TIe) (cid : Nat) (hl : Left s cid) (sent : List (Nat × List Nat)) (ls : List SLabel)
    (h : Server.run hc s ops = .ok (s', sent, ls)) : Left s' cid :=
  hl.of_TStep (Server.run_KStep hc ops s s' hw he hi 0 cid sent ls h).2

/-- One firing of the (unique) retry timer of the tracked object: with count `n > 0` exactly one request
goes to `a` and the count becomes `n - 1`; with count `0` the object leaves (`error timeout`, see
`C09_retry_budget_server_partial`); a firing of any other timer sends nothing to `a`. -/
theorem C09_timer_firing_server (s : Server H) (hw : s.WF) (a cid : Nat) (t : Timer) (h' : Array Timer)
    (hp : tPop s.timers = some (t, h')) (nowMs n : Nat) (hk : Trk s a cid n) :
    (∃ n', Trk (({ s with timers := h' } : Server H).handleTimer t nowMs).1 a cid n' ∧
      cntReq a (({ s with timers := h' } : Server H).handleTimer t nowMs).2 + n' = n) ∨
    Left (({ s with timers := h' } : Server H).handleTimer t nowMs).1 cid :=
  Server.timerIter_KStep s hw a cid t h' hp nowMs n hk

/-! ### Non-vacuity (server) -/

/-- Hypotheses of `C09_retry_budget_server`: a reachable state in which address 5 (object 0) is `closing`
and tracked with count 10. -/
example : ∃ s : Server Unit, s.WF ∧ s.eventsOut = [] ∧ s.TIe ∧ Trk s 5 0 10 := by
  obtain ⟨⟨s, sent, ls⟩, h, hp⟩ := okAnd_elim
    (r := Server.run trivHC exServer [.step 1000000 [(5, exSyn)], .step 2000000 [(5, exHsAck)], .disconnect 5 .now, .step 3000000 []])
    (p := fun r => (match r.1.find 5 with
        | some c => c.cid == 0 && (match c.state with | .closing => true | _ => false)
        | none => false) && (rdCount r.1.timers 0 == 1 &&
      r.1.timers.toList.all (fun t => !isRD 0 t || t.count == 10))) (by decide +kernel)
  obtain ⟨hwf, he, -⟩ := Server.run_monitor trivHC _ exServer s (Server.WF.init _ _ _) rfl sent ls h
  have hti := Server.run_TIe trivHC _ exServer s (Server.WF.init _ _ _) rfl (Server.TIe.init _ _ _) sent ls h
  rw [Bool.and_eq_true, Bool.and_eq_true] at hp
  obtain ⟨hp1, hp2, hp3⟩ := hp
  refine ⟨s, hwf, he, hti, hwf, ?_, by simpa using hp2, fun t ht hrd => ?_⟩
  · simp only at hp1
    cases hf : s.find 5 with
    | none => rw [hf] at hp1; cases hp1
    | some c =>
      rw [hf] at hp1
      simp only [Bool.and_eq_true, beq_iff_eq] at hp1
      refine ⟨c, rfl, hp1.1, ?_⟩
      have h2 := hp1.2
      cases hst : c.state <;> rw [hst] at h2 <;> first | rfl | cases h2
  · rw [List.all_eq_true] at hp3
    have := hp3 t ht
    rw [hrd] at this
    simpa using this


/-- Flush gate: a `now` disconnect fires in the next step; the retries follow every 2 s (the request is
sent 11 times in total: datagrams 3..13 of the run), then `error timeout` at 22 s. -/
example : okAnd (Server.run trivHC exServer
      ([.step 1000000 [(5, exSyn)], .step 2000000 [(5, exHsAck)], .disconnect 5 .now, .step 3000000 []] ++
       (List.range 12).map fun i => SOp.step (3000000 + (i + 1) * 2000000000) []))
    (fun r => decide (r.2.2 = [SLabel.ev (.connect 5), .ev (.error 5 .timeout)] ∧
      (r.2.1.filter (· == (5, discReq))).length = 11)) = true := by decide +kernel

/-- … or the acknowledgement ends it earlier with `disconnect`. -/
example : okAnd (Server.run trivHC exServer
      [.step 1000000 [(5, exSyn)], .step 2000000 [(5, exHsAck)], .disconnect 5 .now, .step 3000000 [],
       .step 2003000000 [], .step 2004000000 [(5, encode .disconnectAck)], .step 90000000000 []])
    (fun r => decide (r.2.2 = [SLabel.ev (.connect 5), .ev (.disconnect 5)] ∧
      (r.2.1.filter (· == (5, discReq))).length = 2)) = true := by decide +kernel

/-- A `flush` disconnect waits while the half connection reports pending data. -/
example : okAnd (Server.run echoHC exServerE
      [.step 1000000 [(5, exSyn)], .step 2000000 [(5, exHsAck)], .send 5 [1] 0 .reliable, .disconnect 5 .flush])
    (fun r => match r.1.find 5 with
      | some c => (match c.state with | .active h _ sig => echoHC.isSendPending h && sig == some .flush | _ => false)
      | none => false) = true := by decide +kernel

end Uflow.Props.C09
