import Uflow.Model.HalfConn
import Uflow.Lemmas.SysThm
import Uflow.Lemmas.SysPassInv
import Uflow.Lemmas.SysPassAlloc
import Uflow.Props.C01

/-!
# C01Sys — per-channel ordering end to end: sender → datagram network → receiver

The two halves of the ordering property (sender: `Props/C05.lean`, `Props/C02.lean`; receiver:
`Props/C01.lean`, `Props/C02Recv.lean`) and the reassembly theorems (`Props/C04.lean`) are composed
through a lossy, duplicating, reordering datagram network.

## The system (`Uflow/Lemmas/SysDefs.lean`)

A state `Sys` consists of
* `snd : PSend.State`, `hist : PSend.Hist` — the packet sender with the ghost history of C05;
* `pend` — ghost: the `PendingPacket`s returned by `emit_packet`, in emission order;
* `net` — ghost network: for every packet `p` returned by `emit_packet`, at emission position `i`,
  the datagrams `(i, p.datagram 0), …, (i, p.datagram p.lastFragmentId)`. All fragments enter the
  network at once (the real code sends them over several frames and resends them, which only gives
  the network fewer choices); nothing is ever removed;
* `rcv : PRecv.G` — the receiver with the ghosts of C01 (`adv`: distance the window base has moved,
  `log`: every packet taken out of the receive window, with unwrapped id `uid`);
* `seen` — ghost: `(adv, base_id)` of the receiver initially and after every `receive` / `resync`;
* `syncs` — ghost: `(number of packets emitted so far, next_id)` of the sender at every `sync` step:
  the values the `next_packet_id` field of a sync frame can carry.

Steps `SOp` (`stepS`; each is the existing model function, through `PSend.stepH` / `PRecv.stepT`):
* `enq data chan mode flush` — `enqueue_packet`, refused (no-op) if `data.length > MAX_PACKET_SIZE`
  (the `debug_assert` of `enqueue_packet`);
* `emit flush` — `emit_packet(flush)`;
* `deliver k` — `handle_datagram` on the `k`-th datagram of `net`: any datagram, any number of times,
  in any order (loss = never chosen), subject to `Fresh` below;
* `recv` — `receive`;
* `ack k` — the sender's `acknowledge(rb)` where `rb` is the `k`-th entry of `seen`: any base id the
  receiver had at some earlier or the current time, in any order, any number of times, subject to
  `AckFresh` below;
* `sync` — the sender puts a sync frame carrying `next_packet_id = Some(next_id)` on the wire: the
  pair `(emitted so far, next_id)` is appended to `syncs`. The step is only taken when the ghost guard
  `SyncOk` holds (a no-op otherwise): every Reliable packet emitted so far has been completely
  received (`Recvd`: it is in the log, or the receive window base has passed it, or its slot in the
  receive window has the entry flag). This is what the frame layer has to discharge:
  `emit_sync_frame` sends `next_packet_id` only when the resend queue and the pending queue are empty,
  i.e. every fragment of every Reliable / Persistent packet still in the send window has been
  acknowledged at frame level. Nothing is required of Unreliable, TimeSensitive or Persistent packets;
* `resync k` — the receiver's `resynchronize(id)` where `id` is the `k`-th entry of `syncs`: any
  recorded sync value, in any order, any number of times, arbitrarily late, subject to `SyncFresh`
  below. The new base is recorded in `seen`.
A schedule without `sync` / `resync` steps runs exactly as before these two steps were added (the
other cases of `stepS` are unchanged; `C01_sys_projects`). `acknowledge_fragment` is not part of the
system (no step reads the fragment flags).

## The network hypotheses

Sequence ids have 20 bits, so a datagram or acknowledgement delayed for about `2^20` packets is
indistinguishable from a current one. The weakest conditions under which the proofs go through are
taken as guards of the `deliver` / `ack` steps (a step violating its guard is a no-op):
* `Fresh s i := s.rcv.adv + W ≤ i + 2^20` — a datagram of the packet at emission position `i` is
  handed to the receiver only while the receive window base is less than `2^20 - W` ids beyond that
  packet;
* `AckFresh s a := (packets that left the send window) + w < a + 2^20` — an acknowledgement carrying
  the receiver base with unwrapped value `a` is handed to the sender only while the send window base
  is less than `2^20 - w` ids beyond it;
* `SyncFresh s n := s.rcv.adv + W < n + 2^20` — a sync frame carrying the sender's next id with
  unwrapped value `n` is handed to the receiver only while the receive window base is less than
  `2^20 - W` ids beyond it (a stale sync frame, `n < adv`, is then ignored by `resynchronize`).
All three follow from "at most `2^19` packets were emitted after it" (`C01_sys_fresh_of_recent`,
`C01_sys_syncfresh_of_recent`), and
`Fresh` holds automatically in runs without acknowledgements when `w + W ≤ 2^20`
(`C01_sys_fresh_automatic_noack`). In the real system datagrams and acknowledgements travel in
frames; a frame older than the newest one seen is discarded and at most 4096 frames are outstanding,
while `w, W ≤ 4096`.

Parameters of all theorems: `w` send window (`< 2^20`; the library asserts `≤ 4096`), receive window
`2^k` with `k ≤ 19`, common initial id `b < 2^20`, allocation limits `a`, `m` (arbitrary).
-/

namespace Uflow.Props.C01Sys

open Uflow Uflow.Gen Uflow.Codec Uflow.PSend Uflow.PRecv Uflow.Frag Uflow.Sys

/-! ## The system is made of the existing models -/

/-- The sender component (with its history) of every system run is a plain sender run `PSend.runH`
(the object of C05 / C02), and the receiver component is a plain instrumented receiver run
`PRecv.runT` (the object of C01 / C02Recv): all theorems of those files apply to `s'.snd, s'.hist` and
`s'.rcv`. The receiver run contains a `resynchronize` call only if the system schedule contains a
`resync` step (`Sys.NoResync ops`: it does not). -/
theorem C01_sys_projects (w k b a m : Nat) (ops : List SOp) (s' : Sys)
    (h : runS (initS w (2^k) b a m) ops = .ok s') :
    (∃ sops, runH (PSend.init w b a) {} sops = .ok (s'.snd, s'.hist)) ∧
    (∃ rops, (NoResync ops → ∀ op ∈ rops, ∀ id, op ≠ .resync id) ∧ runT (initG (2^k) b m) rops = .ok s'.rcv) := by
  obtain ⟨h1, rops, h2, h3⟩ := reach_run ops (reach_init w (2^k) b a m) h
  exact ⟨h1, rops, fun hn => h2 ⟨trivial, hn⟩, h3⟩

/-- Every state of a system run satisfies the system invariant `Sys.SInv`
(`Uflow/Lemmas/SysInv.lean`), which contains the sender invariant `HInv`, the receiver invariants
`Inv`, `Ord`, `GI` and the content invariant `CInv` of the receive window. -/
theorem C01_sys_reach (w k b a m : Nat) (hw : w < 2^20) (hk : k ≤ 19) (hb : b < 2^20) (ops : List SOp)
    (s' : Sys) (h : runS (initS w (2^k) b a m) ops = .ok s') : SInv b w (2^k) (allocCeil m) s' :=
  sinv_run (wOk_pow k hk) hw ops (sinv_init w (2^k) b a m (Nat.two_pow_pos k) hb) h

/-- The log is the record of what `receive` returned: a `recv` step of the system appends to the log
exactly the packets of that `receive` call, and the payload list the call hands to the sink is the
list of `data` fields of the appended entries; no other step changes the log. So
`C01_sys_in_order` / `C01_sys_delivered_is_emitted` speak about the concatenation of all payload
lists returned by `receive`. -/
theorem C01_sys_log_is_receive_output (s s' : Sys) (op : SOp) (h : stepS s op = .ok s') :
    (op = .recv → ∃ out, receive s.rcv.st = .ok (s'.rcv.st, out) ∧
      out = (s'.rcv.log.drop s.rcv.log.length).filterMap LogE.data ∧
      s.rcv.log = s'.rcv.log.take s.rcv.log.length) ∧
    (op ≠ .recv → s'.rcv.log = s.rcv.log) := by
  cases op with
  | recv =>
    refine ⟨fun _ => ?_, fun hne => absurd rfl hne⟩
    simp only [stepS] at h
    cases hg : stepT s.rcv .recv with
    | error t => rw [hg] at h; cases h
    | ok g =>
      rw [hg, bindR_ok] at h
      cases h
      exact C01.C01_log_is_receive_output s.rcv g hg
  | enq d c m f =>
    refine ⟨fun hc => (by cases hc), fun _ => ?_⟩
    simp only [stepS] at h
    split at h
    · simp only [stepH, bindR_ok] at h; cases h; rfl
    · cases h; rfl
  | emit f =>
    refine ⟨fun hc => (by cases hc), fun _ => ?_⟩
    simp only [stepS] at h
    cases hr : stepH s.snd s.hist (.emit f) with
    | error t => rw [hr] at h; cases h
    | ok r => rw [hr, bindR_ok] at h; cases h; rfl
  | deliver k =>
    refine ⟨fun hc => (by cases hc), fun _ => ?_⟩
    simp only [stepS] at h
    split at h
    · cases h; rfl
    · rename_i i d hk
      split at h
      · rw [stepT_dg] at h
        cases hd : handleDatagram s.rcv.st d with
        | error t => rw [hd] at h; cases h
        | ok st' => rw [hd, bindR_ok, bindR_ok] at h; cases h; rfl
      · cases h; rfl
  | ack k =>
    refine ⟨fun hc => (by cases hc), fun _ => ?_⟩
    simp only [stepS] at h
    split at h
    · cases h; rfl
    · rename_i a' rb hk
      split at h
      · cases hr : stepH s.snd s.hist (.ack rb) with
        | error t => rw [hr] at h; cases h
        | ok r => rw [hr, bindR_ok] at h; cases h; rfl
      · cases h; rfl
  | sync =>
    refine ⟨fun hc => (by cases hc), fun _ => ?_⟩
    simp only [stepS] at h
    split at h
    · cases h; rfl
    · cases h; rfl
  | resync k =>
    refine ⟨fun hc => (by cases hc), fun _ => ?_⟩
    simp only [stepS] at h
    split at h
    · cases h; rfl
    · rename_i n id hk
      split at h
      · rw [stepT_resync] at h
        cases hd : resynchronize s.rcv.st id with
        | error t => rw [hd] at h; cases h
        | ok st' => rw [hd, bindR_ok, bindR_ok] at h; cases h; rfl
      · cases h; rfl

/-! ## 2. The link between the two sides -/

/-- The ghost lists are what they are meant to be, and the windows are nested:
* `pend` and `hist.emitted` run in parallel; the `i`-th packet has identity `i`, sequence id
  `packet_id::add(b, i)`, the fragment count `PendingPacket::new` computes, and the same payload,
  channel and parent leads in both lists;
* every datagram of the network is `p.datagram fid` (`fid ≤ p.lastFragmentId`) of the packet `p` at
  the emission position it is tagged with;
* the receive window base never runs ahead of the sender's next id (`adv ≤ number emitted`) and the
  send window base never runs ahead of the receive window base; both bases and the next id are the
  20-bit images of these unwrapped counters. -/
theorem C01_sys_link (w k b a m : Nat) (hw : w < 2^20) (hk : k ≤ 19) (hb : b < 2^20) (ops : List SOp)
    (s' : Sys) (h : runS (initS w (2^k) b a m) ops = .ok s') :
    s'.pend.length = s'.hist.emitted.length ∧
    (∀ (i : Nat) (p : Pending), s'.pend[i]? = some p →
      p.uid = i ∧ p.sequenceId = pidAdd b i ∧ p.lastFragmentId = numFragments p.data.length - 1 ∧
      ∃ e : Emitted, s'.hist.emitted[i]? = some e ∧ e.uid = i ∧ e.data = p.data ∧
        e.channelId = p.channelId ∧ e.sequenceId = p.sequenceId ∧
        e.windowParentLead = p.windowParentLead ∧ e.channelParentLead = p.channelParentLead) ∧
    (∀ (i : Nat) (d : Datagram), (i, d) ∈ s'.net →
      ∃ (p : Pending) (fid : Nat), s'.pend[i]? = some p ∧ fid ≤ p.lastFragmentId ∧ p.datagram fid = .ok d) ∧
    s'.rcv.adv ≤ s'.hist.emitted.length ∧
    s'.hist.emitted.length - s'.snd.win.length ≤ s'.rcv.adv ∧
    s'.snd.win.length ≤ w ∧
    s'.rcv.st.baseId = pidAdd b s'.rcv.adv ∧
    s'.snd.nextId = pidAdd b s'.hist.emitted.length ∧
    s'.snd.baseId = pidAdd b (s'.hist.emitted.length - s'.snd.win.length) := by
  have hs := C01_sys_reach w k b a m hw hk hb ops s' h
  obtain ⟨-, w2, w3, -, -⟩ := hinv_win hs.snd.hinv hw
  refine ⟨hs.snd.plen, ?_, ?_, hs.hi, hs.lo, w2, ?_, hs.snd.hinv.nid, w3⟩
  · intro i p hp
    obtain ⟨hwf, e, he, e1, e2, e3, e4, e5, e6⟩ := hs.snd.plink i p hp
    obtain ⟨i1, i2, -⟩ := hs.snd.hinv.ids i e he
    exact ⟨by rw [← e6]; exact i1, by rw [← e3]; exact i2, hwf, e, he, i1, e1, e2, e3, e4, e5⟩
  · intro i d hm
    obtain ⟨p, hp, fid, hfid, hd⟩ := hs.snd.net i d hm
    exact ⟨p, fid, hp, hfid, hd⟩
  · rw [hs.rcv.gi.gbase]
    simp only [pidAdd, PACKET_ID_SPAN]
    omega

/-! ## 3. Main theorems -/

/-- **Every delivered packet is an emitted packet, byte-exact and correctly attributed.** A log entry
`e` (a packet `receive` took out of the receive window; `e.data = some x` iff `x` was handed to the
sink) with unwrapped id `e.uid` is the packet `em` the sender emitted at position `e.uid`: same
sequence id (`packet_id::add(b, uid)`), same channel, same parent leads, and the payload handed to
the application is `em.data` — the bytes that were submitted (reassembled from fragments of that one
packet only, C04). Together with `C05_emit_order` (`em` is a submitted packet), nothing is delivered
that was not submitted on that channel. -/
theorem C01_sys_delivered_is_emitted (w k b a m : Nat) (hw : w < 2^20) (hk : k ≤ 19) (hb : b < 2^20)
    (ops : List SOp) (s' : Sys) (h : runS (initS w (2^k) b a m) ops = .ok s') :
    ∀ e ∈ s'.rcv.log, ∃ em : Emitted, s'.hist.emitted[e.uid]? = some em ∧ em.uid = e.uid ∧
      e.seq = em.sequenceId ∧ e.seq = pidAdd b e.uid ∧ e.chan = em.channelId ∧
      e.cpl = em.channelParentLead ∧ e.wpl = em.windowParentLead ∧
      (∀ x, e.data = some x → x = em.data) := by
  intro e he
  have hs := C01_sys_reach w k b a m hw hk hb ops s' h
  obtain ⟨p, hp, c1, c2, c3, c4⟩ := hs.log e he
  obtain ⟨-, em, hem, e1, e2, e3, e4, e5, -⟩ := hs.snd.plink e.uid p hp
  obtain ⟨i1, i2, -⟩ := hs.snd.hinv.ids e.uid em hem
  have hseq : e.seq = pidAdd b e.uid := by
    rw [hs.rcv.gi.gseq e he]
    simp only [pidAdd, PACKET_ID_SPAN]
    omega
  refine ⟨em, hem, i1, by rw [hseq, i2], hseq, by rw [c1, e2], by rw [c2, e5], by rw [c3, e4], ?_⟩
  intro x hx
  rcases c4 with c4 | c4
  · rw [c4] at hx; cases hx
  · rw [c4] at hx; cases hx; exact e1.symm

/-- **At most once, end to end**: no emitted packet is taken out of the receive window twice (two
different log positions never carry the same unwrapped id, whatever the channel). -/
theorem C01_sys_at_most_once (w k b a m : Nat) (hw : w < 2^20) (hk : k ≤ 19) (hb : b < 2^20)
    (ops : List SOp) (s' : Sys) (h : runS (initS w (2^k) b a m) ops = .ok s') :
    s'.rcv.log.Pairwise (fun x y => x.uid ≠ y.uid) := by
  have hs := C01_sys_reach w k b a m hw hk hb ops s' h
  refine List.Pairwise.imp_of_mem ?_ hs.rcv.gi.gord
  intro x y hx hy hxy heq
  obtain ⟨px, hpx, cx, -⟩ := hs.log x hx
  obtain ⟨py, hpy, cy, -⟩ := hs.log y hy
  rw [heq, hpy] at hpx
  cases hpx
  have := hxy (by rw [cx, cy])
  omega

/-- **Per channel, in submission order.** For every channel `c`, the payloads handed to the
application on `c`, in delivery order (the `data` fields of the log entries of channel `c`; by
`C01_log_is_receive_output` these are the payload lists returned by the `receive` calls), form a
subsequence of the payloads submitted on `c` with `enqueue_packet`, in submission order. So on each
channel nothing is reordered, duplicated or invented; packets may be missing (lost, still in flight,
dropped TimeSensitive packets, or passed over for exceeding the receive allocation limit). -/
theorem C01_sys_in_order (w k b a m : Nat) (hw : w < 2^20) (hk : k ≤ 19) (hb : b < 2^20)
    (ops : List SOp) (s' : Sys) (h : runS (initS w (2^k) b a m) ops = .ok s') (c : Nat) :
    ((s'.rcv.log.filter (fun e => decide (e.chan = c))).filterMap LogE.data).Sublist
      ((s'.hist.enqueued.filter (fun q => decide (q.channelId = c))).map QEntry.data) := by
  have hs := C01_sys_reach w k b a m hw hk hb ops s' h
  have hdel := C01_sys_delivered_is_emitted w k b a m hw hk hb ops s' h
  -- deliveries of channel `c` are a subsequence of the emitted packets of channel `c`
  have h1 : ((s'.rcv.log.filter (fun e => decide (e.chan = c))).filterMap LogE.data).Sublist
      ((s'.hist.emitted.filter (fun x => decide (x.channelId = c))).map Emitted.data) := by
    apply reported_sublist _ LogE.uid LogE.data s'.hist.emitted Emitted.data
    · refine List.Pairwise.imp_of_mem ?_ (hs.rcv.gi.gord.filter _)
      intro x y hx hy hxy
      have cx := (List.mem_filter.mp hx).2
      have cy := (List.mem_filter.mp hy).2
      simp only [decide_eq_true_eq] at cx cy
      exact hxy (by rw [cx, cy])
    · intro e he
      obtain ⟨hel, hec⟩ := List.mem_filter.mp he
      simp only [decide_eq_true_eq] at hec
      obtain ⟨em, hem, -, -, -, hch, -, -, hdata⟩ := hdel e hel
      refine ⟨em, hem, by simp only [decide_eq_true_eq]; rw [← hch, hec], ?_⟩
      cases hd : e.data with
      | none => exact Or.inl rfl
      | some x => exact Or.inr (by rw [hdata x hd])
  -- emitted packets of channel `c` are a subsequence of the submitted packets of channel `c`
  have h2 : ((s'.hist.emitted.filter (fun x => decide (x.channelId = c))).map Emitted.data).Sublist
      ((s'.hist.enqueued.filter (fun q => decide (q.channelId = c))).map QEntry.data) := by
    have hsub : (s'.hist.emitted.map Emitted.toQ).Sublist s'.hist.enqueued :=
      (List.sublist_append_left _ _).trans hs.snd.hinv.order.1
    have := (hsub.filter (fun q => decide (q.channelId = c))).map QEntry.data
    rw [List.filter_map, List.map_map] at this
    exact this
  exact h1.trans h2

/-! ## C02 end to end -/

/-- **A Reliable packet is not skipped on its channel** (`w ≤ 2^16`, so that the 16-bit parent leads
are exact, `C02_leads_exact`). Let `x` be a Reliable packet emitted at position `j` on some channel,
and let `e` be a packet of the same channel, emitted later (`j < e.uid`), that `receive` takes out of
the receive window. Then `x` was taken out of the window earlier (an earlier log entry has unwrapped
id `j`; by `C01_sys_delivered_is_emitted` it carries `x`'s payload unless `x` exceeded the receive
allocation limit), or the receive window base had already moved beyond `x` when `e` was taken
(`j < e.wb`). The window base moves only in `receive`, and only past packets for which a received
packet's `window_parent_lead` — exact for this honest sender — says that no Reliable packet is
pending (`C02_window_advance_justified`); in this system it passes a Reliable packet only after that
packet has been completely received (`C02_sys_window_waits_for_reliable`), so the hostile-lead and
`resynchronize` witnesses of `Props/C02Recv.lean` do not arise. -/
theorem C02_sys_no_skip (w k b a m : Nat) (hw : w ≤ 2^16) (hk : k ≤ 19) (hb : b < 2^20)
    (ops : List SOp) (s' : Sys) (h : runS (initS w (2^k) b a m) ops = .ok s')
    (l1 : List LogE) (e : LogE) (l2 : List LogE) (hl : s'.rcv.log = l1 ++ e :: l2)
    (j : Nat) (x : Emitted) (hx : s'.hist.emitted[j]? = some x) (hrel : x.mode = .reliable)
    (hch : x.channelId = e.chan) (hj : j < e.uid) :
    (∃ e' ∈ l1, e'.uid = j ∧ e'.chan = e.chan) ∨ j < e.wb := by
  have hs := C01_sys_reach w k b a m (by omega) hk hb ops s' h
  rcases no_skip_aux hw hs l1.length l1 e l2 rfl hl j x hx hrel hch hj with ⟨e', he', hu⟩ | hwb
  · left
    refine ⟨e', he', hu, ?_⟩
    obtain ⟨em, hem, -, -, -, hc, -⟩ := C01_sys_delivered_is_emitted w k b a m (by omega) hk hb ops s' h e'
      (by rw [hl]; exact List.mem_append.mpr (Or.inl he'))
    rw [hu, hx] at hem
    cases hem
    rw [hc, hch]
  · exact Or.inr hwb

/-- **The receive window waits for Reliable packets** (`w ≤ 2^16`). If a `receive` call moves the
window base past the id of a Reliable emitted packet `x` (emission position `j`, sequence id
`packet_id::add(b, j)`), then that packet had been completely received: the entry flag of its slot
was set, which `handle_datagram` does only when `try_add` has returned the reassembled packet. So with
this (honest) sender the situation of `C02_overtake_witness_hostile_lead` — the base passing a
Reliable packet that never arrived — cannot occur, although the network may lose, duplicate and
reorder datagrams at will. (Not proved here: that a completely received Reliable packet is also taken
out — handed to the sink — before the base passes it; this is the completeness of the delivery pass of
`receive`, which none of the receiver theorems covers. It is proved below:
`C02_sys_reliable_taken_before_passed`, `C02_sys_reliable_delivered_before_passed`,
`C02_sys_no_skip_full`.) -/
theorem C02_sys_window_waits_for_reliable (w k b a m : Nat) (hw : w ≤ 2^16) (hk : k ≤ 19) (hb : b < 2^20)
    (ops : List SOp) (s : Sys) (h : runS (initS w (2^k) b a m) ops = .ok s) (s' : Sys)
    (hs : stepS s .recv = .ok s') (j : Nat) (x : Emitted) (hx : s.hist.emitted[j]? = some x)
    (hrel : x.mode = .reliable) (h1 : s.rcv.adv ≤ j) (h2 : j < s'.rcv.adv) :
    (getSlot s.rcv.st (widx s.rcv.st (pidAdd b j))).entryFlag = true := by
  have hinv := C01_sys_reach w k b a m (by omega) hk hb ops s h
  rw [widx_eq hinv.rcv.inv, getSlot_eq]
  exact window_waits (wOk_pow k hk) hw hinv hs j x hx hrel h1 h2

/-- Every state of a system run with `w ≤ 2^16` satisfies the delivery invariant `Sys.PInv`
(`Uflow/Lemmas/SysPassInv.lean`): the `channel_ready_flags` are live (an undelivered packet that passes
the delivery test of `receive` has its channel's flag set), and every Reliable emitted packet the
receive window base has passed is in the log. The core is the completeness of the delivery pass of
`receive` (`Sys.deliverLoopT_done`): with live ready flags and honest channel parent leads, the pass
leaves no packet behind that passes its test. -/
theorem C02_sys_reach_delivery (w k b a m : Nat) (hw : w ≤ 2^16) (hk : k ≤ 19) (hb : b < 2^20) (ops : List SOp)
    (s' : Sys) (h : runS (initS w (2^k) b a m) ops = .ok s') : PInv (2^k) s' :=
  pinv_run (wOk_pow k hk) hw ops (sinv_init w (2^k) b a m (Nat.two_pow_pos k) hb) (pinv_init w (2^k) b a m) h

/-- **Every Reliable packet the receive window has passed was taken out of the window first**
(`w ≤ 2^16`). If the receive window base has moved past the emission position `j` of a Reliable
emitted packet `x` (`j < s'.rcv.adv`), the log contains an entry with unwrapped id `j`: `receive` took
the packet out of the window — it did not reach the branch of `advance_window` that drops the data of
a slot whose data flag is still set ("its sender violated the parent lead rules"). The entry's
payload is `x.data`, handed to the sink, unless the packet exceeded the receiver's allocation limit
(`data = none`); `C02_sys_reliable_delivered_before_passed` excludes that when the sender's limit is
not above the receiver's. -/
theorem C02_sys_reliable_taken_before_passed (w k b a m : Nat) (hw : w ≤ 2^16) (hk : k ≤ 19) (hb : b < 2^20)
    (ops : List SOp) (s' : Sys) (h : runS (initS w (2^k) b a m) ops = .ok s')
    (j : Nat) (x : Emitted) (hx : s'.hist.emitted[j]? = some x) (hrel : x.mode = .reliable)
    (hj : j < s'.rcv.adv) :
    ∃ e ∈ s'.rcv.log, e.uid = j ∧ e.chan = x.channelId ∧ (e.data = none ∨ e.data = some x.data) := by
  have hp := C02_sys_reach_delivery w k b a m hw hk hb ops s' h
  obtain ⟨e, he, hu⟩ := hp.passed j x hx hrel hj
  obtain ⟨em, hem, -, -, -, hc, -, -, hdata⟩ :=
    C01_sys_delivered_is_emitted w k b a m (by omega) hk hb ops s' h e he
  rw [hu, hx] at hem
  cases hem
  refine ⟨e, he, hu, hc, ?_⟩
  cases hd : e.data with
  | none => exact Or.inl rfl
  | some y => exact Or.inr (by rw [hdata y hd])

/-- **A Reliable packet is never skipped on its channel** (`w ≤ 2^16`): `C02_sys_no_skip` without its
second alternative. Let `x` be a Reliable packet emitted at position `j` on some channel, and let `e`
be a packet of the same channel, emitted later (`j < e.uid`), that `receive` takes out of the receive
window. Then an EARLIER log entry `e'` has unwrapped id `j` (and `x`'s channel): `x` was taken out of
the window before `e`. (`e'.data` is `x`'s payload, `C01_sys_delivered_is_emitted`, unless `x` exceeded
the receive allocation limit.) -/
theorem C02_sys_no_skip_full (w k b a m : Nat) (hw : w ≤ 2^16) (hk : k ≤ 19) (hb : b < 2^20)
    (ops : List SOp) (s' : Sys) (h : runS (initS w (2^k) b a m) ops = .ok s')
    (l1 : List LogE) (e : LogE) (l2 : List LogE) (hl : s'.rcv.log = l1 ++ e :: l2)
    (j : Nat) (x : Emitted) (hx : s'.hist.emitted[j]? = some x) (hrel : x.mode = .reliable)
    (hch : x.channelId = e.chan) (hj : j < e.uid) :
    ∃ e' ∈ l1, e'.uid = j ∧ e'.chan = e.chan := by
  rcases C02_sys_no_skip w k b a m hw hk hb ops s' h l1 e l2 hl j x hx hrel hch hj with hearly | hwb
  · exact hearly
  · have hp := C02_sys_reach_delivery w k b a m hw hk hb ops s' h
    obtain ⟨e', he', hu⟩ := hp.hist l1 e l2 hl j x hx hrel hwb
    refine ⟨e', he', hu, ?_⟩
    obtain ⟨em, hem, -, -, -, hc, -⟩ := C01_sys_delivered_is_emitted w k b a m (by omega) hk hb ops s' h e'
      (by rw [hl]; exact List.mem_append.mpr (Or.inl he'))
    rw [hu, hx] at hem
    cases hem
    rw [hc, hch]

/-- Every state of a system run with `w ≤ 2^16` in which the sender's allocation ceiling is not above
the receiver's (`allocCeil a ≤ allocCeil m`; in the library the sender's limit `tx_alloc_limit` IS the
receiver's advertised limit) satisfies the allocation invariant `Sys.AInv`
(`Uflow/Lemmas/SysPassAlloc.lean`): every assembly entry of the receive window belongs to a packet
that is still in the send window and is charged at most the sender's `alloc_size` for it, so the
receiver's `alloc` never exceeds the sender's (C05 / C06: at most the ceiling) and `try_add` never
takes its "exceeds the allocation limit" branch. -/
theorem C02_sys_reach_alloc (w k b a m : Nat) (hw : w ≤ 2^16) (hk : k ≤ 19) (hb : b < 2^20)
    (ham : allocCeil a ≤ allocCeil m) (ops : List SOp)
    (s' : Sys) (h : runS (initS w (2^k) b a m) ops = .ok s') : AInv (2^k) (allocCeil a) s' :=
  ainv_run (wOk_pow k hk) hw ham ops (sinv_init w (2^k) b a m (Nat.two_pow_pos k) hb) (pinv_init w (2^k) b a m)
    (ainv_init w (2^k) b a m) h

/-- **With an honest sender no packet is passed over for exceeding the allocation limit**
(`w ≤ 2^16`, `allocCeil a ≤ allocCeil m`): every log entry carries the payload of the emitted packet
with its unwrapped id — every packet `receive` takes out of the window is handed to the sink,
byte-exact. (Without the hypothesis on the limits it fails: `C02_sys_refused_witness`.) -/
theorem C01_sys_delivered_payload (w k b a m : Nat) (hw : w ≤ 2^16) (hk : k ≤ 19) (hb : b < 2^20)
    (ham : allocCeil a ≤ allocCeil m) (ops : List SOp) (s' : Sys)
    (h : runS (initS w (2^k) b a m) ops = .ok s') :
    ∀ e ∈ s'.rcv.log, ∃ em : Emitted, s'.hist.emitted[e.uid]? = some em ∧ e.data = some em.data := by
  intro e he
  have ha := C02_sys_reach_alloc w k b a m hw hk hb ham ops s' h
  obtain ⟨em, hem, -, -, -, -, -, -, hdata⟩ :=
    C01_sys_delivered_is_emitted w k b a m (by omega) hk hb ops s' h e he
  refine ⟨em, hem, ?_⟩
  cases hd : e.data with
  | none => exact absurd hd (ha.ld e he)
  | some y => rw [hdata y hd]

/-- **Every Reliable packet the receive window has passed was delivered to the application,
byte-exact** (`w ≤ 2^16`, `allocCeil a ≤ allocCeil m`). If the receive window base has moved past the
emission position `j` of a Reliable emitted packet `x` (`j < s'.rcv.adv`), the log contains an entry
with unwrapped id `j` whose payload — handed to the sink by that `receive` call — is `x.data`. So in
this system `advance_window` never drops the data of a Reliable packet, and a Reliable packet is
never lost: the base (and with it, through the acknowledgements, the send window) waits until it has
been completely received (`C02_sys_window_waits_for_reliable`) AND delivered. -/
theorem C02_sys_reliable_delivered_before_passed (w k b a m : Nat) (hw : w ≤ 2^16) (hk : k ≤ 19)
    (hb : b < 2^20) (ham : allocCeil a ≤ allocCeil m) (ops : List SOp) (s' : Sys)
    (h : runS (initS w (2^k) b a m) ops = .ok s')
    (j : Nat) (x : Emitted) (hx : s'.hist.emitted[j]? = some x) (hrel : x.mode = .reliable)
    (hj : j < s'.rcv.adv) :
    ∃ e ∈ s'.rcv.log, e.uid = j ∧ e.data = some x.data := by
  obtain ⟨e, he, hu, -, -⟩ := C02_sys_reliable_taken_before_passed w k b a m hw hk hb ops s' h j x hx hrel hj
  obtain ⟨em, hem, hd⟩ := C01_sys_delivered_payload w k b a m hw hk hb ham ops s' h e he
  rw [hu, hx] at hem
  cases hem
  exact ⟨e, he, hu, hd⟩

/-- The hypothesis on the allocation limits is needed: sender limit 100000, receiver limit 1000
(ceiling 1448). A Reliable packet of 1500 bytes (two fragments, allocation size 2896) is emitted and
both fragments arrive; `try_add` refuses it, `receive` takes it out of the window without handing
anything to the sink (`data = none`) and the window base passes it. -/
theorem C02_sys_refused_witness :
    (match runS (initS 8 (2^3) 0 100000 1000)
        [.enq (List.replicate 1500 7) 0 .reliable 0, .emit 0, .deliver 0, .deliver 1, .recv] with
     | .ok s => decide (s.rcv.adv = 1 ∧ (s.rcv.log.map fun e => (e.uid, e.data)) = [(0, none)] ∧
         (s.hist.emitted.map fun x => (x.mode, x.data.length)) = [(.reliable, 1500)])
     | .error _ => false) = true := by decide +kernel

/-! ## Sync frames: `sync` / `resync` -/

/-- **Recorded sync values are genuine**: every entry `(n, id)` of `syncs` was the sender's
`next_id` at a moment when `n ≤` (number of packets emitted by now) packets had been emitted:
`id = packet_id::add(b, n)`. So a `resync` step hands the receiver only ids the sender could have put
into the `next_packet_id` field of a sync frame. -/
theorem C01_sys_syncs_genuine (w k b a m : Nat) (hw : w < 2^20) (hk : k ≤ 19) (hb : b < 2^20)
    (ops : List SOp) (s' : Sys) (h : runS (initS w (2^k) b a m) ops = .ok s') :
    ∀ n id, (n, id) ∈ s'.syncs → n ≤ s'.hist.emitted.length ∧ id = pidAdd b n := by
  intro n id hm
  obtain ⟨h1, h2⟩ := (C01_sys_reach w k b a m hw hk hb ops s' h).syncs n id hm
  refine ⟨h1, ?_⟩
  rw [h2]
  simp only [pidAdd, PACKET_ID_SPAN]
  omega

/-- **What a recorded sync value certifies** (`w ≤ 2^16`). If `(n, id)` is in `syncs` — the guard
`SyncOk` held when the sender's next id was `n` — then at every later time every Reliable packet
emitted before `n` is completely received (`Recvd`): it is in the log, or the receive window base has
passed it (and then it is in the log as well, `C02_sys_reliable_taken_before_passed`), or it lies in
the receive window with its entry flag set. (`handle_datagram` never clears an entry flag; `receive` /
`resynchronize` clear it only when the window base passes the slot.) -/
theorem C02_sys_synced_reliable_received (w k b a m : Nat) (hw : w ≤ 2^16) (hk : k ≤ 19) (hb : b < 2^20)
    (ops : List SOp) (s' : Sys) (h : runS (initS w (2^k) b a m) ops = .ok s')
    (n id : Nat) (hm : (n, id) ∈ s'.syncs) (j : Nat) (x : Emitted) (hx : s'.hist.emitted[j]? = some x)
    (hrel : x.mode = .reliable) (hj : j < n) : Recvd s' x := by
  have hs := C01_sys_reach w k b a m (by omega) hk hb ops s' h
  have hp := C02_sys_reach_delivery w k b a m hw hk hb ops s' h
  have := hp.sync n id hm j x hx hrel hj
  unfold Recvd
  rw [(hs.snd.hinv.ids j x hx).1, widx_eq hs.rcv.inv, getSlot_eq, hs.rcv.inv.wsz]
  exact this

/-- **A `resync` step never skips a Reliable packet** (`w ≤ 2^16`). `resynchronize(id)` moves the
window base over ids whose slots have no entry flag, up to the first slot with an entry flag or to
`id`. If a `resync` step moves the base past the emission position `j` of a Reliable emitted packet
(`s.rcv.adv ≤ j < s'.rcv.adv`), that packet is already in the log: `receive` took it out of the window
before. (With the liveness invariant it follows that no such `j` exists at all:
`C02_sys_resync_passes_no_reliable` in `Props/C02Live.lean`.) The log itself is not changed by a
`resync` step (`C01_sys_log_is_receive_output`), and the new base is at most the recorded sync value.
So the `resynchronize` witness of `Props/C02Recv.lean` (`C02_overtake_witness_resync`) — a hostile id
making the base pass a Reliable packet that never arrived — does not arise with sync values recorded
under `SyncOk`. -/
theorem C02_sys_resync_keeps_reliable (w k b a m : Nat) (hw : w ≤ 2^16) (hk : k ≤ 19) (hb : b < 2^20)
    (ops : List SOp) (s : Sys) (h : runS (initS w (2^k) b a m) ops = .ok s) (s' : Sys) (kk : Nat)
    (hs : stepS s (.resync kk) = .ok s') (j : Nat) (x : Emitted) (hx : s.hist.emitted[j]? = some x)
    (hrel : x.mode = .reliable) (h1 : s.rcv.adv ≤ j) (h2 : j < s'.rcv.adv) :
    ∃ e ∈ s.rcv.log, e.uid = j := by
  have hinv := C01_sys_reach w k b a m (by omega) hk hb ops s h
  have hp := C02_sys_reach_delivery w k b a m hw hk hb ops s h
  have hW := wOk_pow k hk
  simp only [stepS] at hs
  split at hs
  · cases hs; omega
  · rename_i n id hk'
    split at hs
    · rename_i hfresh
      rw [stepT_resync] at hs
      cases hr : resynchronize s.rcv.st id with
      | error t => rw [hr] at hs; cases hs
      | ok st' =>
        rw [hr, bindR_ok, bindR_ok] at hs
        cases hs
        have hmem := List.mem_of_getElem? hk'
        have h2' : j < s.rcv.adv + pidSub st'.baseId s.rcv.st.baseId := h2
        rcases resync_cases (by omega) hinv n id hmem hfresh st' hr with rfl | ⟨nb, hnb, hle, hδ, hadv, hno⟩
        · rw [pidSub_self] at h2'; omega
        · have F := advanceWindow_facts hW hinv.rcv.inv hinv.rcv.ord nb hnb hδ hadv
          rw [F.base] at h2'
          exact resync_rel_logged hW hinv hp n id hmem nb hle hδ hno j x hx hrel h1 h2'
    · cases hs; omega

/-- `SyncFresh` from "recent", as `C01_sys_fresh_of_recent`: a sync value `n` after which fewer than
`2^19` packets have been emitted satisfies `SyncFresh`. -/
theorem C01_sys_syncfresh_of_recent (w k b a m : Nat) (hw : w ≤ 2^19) (hk : k ≤ 19) (hb : b < 2^20)
    (ops : List SOp) (s' : Sys) (h : runS (initS w (2^k) b a m) ops = .ok s') :
    ∀ n, s'.hist.emitted.length < n + 2^19 → SyncFresh s' n := by
  have hs := C01_sys_reach w k b a m (by omega) hk hb ops s' h
  have hW : 2^k ≤ 2^19 := Nat.pow_le_pow_right (by decide) hk
  intro n hn
  unfold SyncFresh
  rw [hs.rcv.inv.wsz]
  have := hs.hi
  omega

/-! ## The network hypotheses -/

/-- "Recent" implies fresh: a datagram of a packet after which fewer than `2^19` packets have been
emitted satisfies `Fresh`; an acknowledgement of a receiver base `a` after which fewer than `2^19`
packets have been emitted satisfies `AckFresh` (for `w ≤ 2^19`). -/
theorem C01_sys_fresh_of_recent (w k b a m : Nat) (hw : w ≤ 2^19) (hk : k ≤ 19) (hb : b < 2^20)
    (ops : List SOp) (s' : Sys) (h : runS (initS w (2^k) b a m) ops = .ok s') :
    (∀ i, s'.hist.emitted.length < i + 2^19 → Fresh s' i) ∧
    (∀ x, s'.hist.emitted.length < x + 2^19 → AckFresh s' x) := by
  have hs := C01_sys_reach w k b a m (by omega) hk hb ops s' h
  have hW : 2^k ≤ 2^19 := Nat.pow_le_pow_right (by decide) hk
  constructor
  · intro i hi
    unfold Fresh
    rw [hs.rcv.inv.wsz]
    have := hs.hi
    omega
  · intro x hx
    unfold AckFresh
    rw [hs.snd.hinv.wsz]
    omega

/-- **Without acknowledgements no network hypothesis is needed** when `w + W ≤ 2^20`: in a run
without `ack` steps nothing leaves the send window, at most `w` packets are ever emitted, and every
datagram of the network is `Fresh` at all times — the `deliver` guard never refuses. The theorems
above then hold for an unrestricted (lossy, duplicating, reordering) network, including across the
20-bit wrap-around of the ids. -/
theorem C01_sys_fresh_automatic_noack (w k b a m : Nat) (hwW : w + 2^k ≤ 2^20) (hk : k ≤ 19) (hb : b < 2^20)
    (ops : List SOp) (hno : ∀ op ∈ ops, isAck op = false) (s' : Sys)
    (h : runS (initS w (2^k) b a m) ops = .ok s') :
    s'.snd.win.length = s'.hist.emitted.length ∧ s'.hist.emitted.length ≤ w ∧ ∀ i, Fresh s' i := by
  have hpos : 0 < 2^k := Nat.two_pow_pos k
  have hw : w < 2^20 := by omega
  have hs := C01_sys_reach w k b a m hw hk hb ops s' h
  have hn := noack_run (wOk_pow k hk) hw ops (sinv_init w (2^k) b a m hpos hb) rfl hno h
  obtain ⟨-, w2, -⟩ := hinv_win hs.snd.hinv hw
  refine ⟨hn, by omega, ?_⟩
  intro i
  unfold Fresh
  rw [hs.rcv.inv.wsz]
  have := hs.hi
  omega

/-! ## 4. Non-vacuity -/

/-- A concrete run: send window 8, receive window `8 = 2^3`, initial id `2^20 - 2` (the ids wrap
after two packets). Channel 0: Reliable `A = [1, 1]`, TimeSensitive `T = [9]` (queued for flush 0,
dropped by `emit_packet(1)`), Unreliable `C = [3]`; channel 1: Unreliable `B` of 1500 bytes (two
fragments). The network delivers `C` first, then the second fragment of `B` twice, then its first
fragment, then `A` twice; an acknowledgement of the final receiver base frees the send window;
Persistent `D = [4]` follows. -/
def exOps : List SOp :=
  [ .enq [1, 1] 0 .reliable 0, .enq [9] 0 .timeSensitive 0, .enq (List.replicate 1500 7) 1 .unreliable 0,
    .enq [3] 0 .unreliable 0, .emit 1, .emit 1, .emit 1,
    .deliver 3, .deliver 2, .deliver 2, .recv, .deliver 1, .recv, .deliver 0, .deliver 0, .recv,
    .ack 3, .enq [4] 0 .persistent 1, .emit 1, .deliver 4, .recv ]

/-- The run exists (the hypotheses of all theorems are satisfiable: `8 < 2^20`, `8 ≤ 2^16`, `3 ≤ 19`,
`2^20 - 2 < 2^20`) and ends as expected: `C` waits for its Reliable channel parent `A` although it
arrived first, the duplicates are delivered once, `B` is reassembled byte-exact from fragments
arriving in the wrong order, `T` is never delivered, the ids wrap from `2^20 - 1` to `0`, and the
acknowledgement moves the send window base to the receiver's (`win.length = 1` after `D`). Log
entries: (channel, sequence id, unwrapped id, window base then, channel parent lead), then the payloads. -/
theorem C01_sys_example :
    (match runS (initS 8 (2^3) (2^20 - 2) 100000 100000) exOps with
     | .ok s =>
       decide ((s.rcv.log.map fun e => (e.chan, e.seq, e.uid, e.wb, e.cpl)) =
          [(1, 2^20 - 1, 1, 0, 0), (0, 2^20 - 2, 0, 0, 0), (0, 0, 2, 0, 2), (0, 1, 3, 3, 0)]) &&
       decide ((s.rcv.log.map fun e => e.data) =
          [some (List.replicate 1500 7), some [1, 1], some [3], some [4]]) &&
       decide (s.rcv.adv = 4 ∧ s.snd.baseId = 1 ∧ s.snd.win.length = 1) &&
       decide ((s.net.map fun x => (x.1, x.2.sequenceId, x.2.fragmentId, x.2.fragmentIdLast)) =
           [(0, 2^20 - 2, 0, 0), (1, 2^20 - 1, 0, 1), (1, 2^20 - 1, 1, 1), (2, 0, 0, 0), (3, 1, 0, 0)]) &&
       decide (s.seen = [(0, 2^20 - 2), (0, 2^20 - 2), (0, 2^20 - 2), (3, 1), (4, 2)]) &&
       decide ((s.hist.enqueued.map (·.data.length)) = [2, 1, 1500, 1, 1]) &&
       decide ((s.hist.emitted.map (·.data.length)) = [2, 1500, 1, 1])
     | .error _ => false) = true := by decide +kernel

/-- The hypotheses of the theorems hold for that run. -/
example : ∃ s', runS (initS 8 (2^3) (2^20 - 2) 100000 100000) exOps = .ok s' ∧ (8 : Nat) < 2^20 ∧
    (8 : Nat) ≤ 2^16 ∧ (3 : Nat) ≤ 19 ∧ 2^20 - 2 < 2^20 := by
  have h := C01_sys_example
  cases hr : runS (initS 8 (2^3) (2^20 - 2) 100000 100000) exOps with
  | error t => rw [hr] at h; cases h
  | ok s => exact ⟨s, rfl, by decide, by decide, by decide, by decide⟩

/-- In that run the guards were never the reason for a refusal: every datagram of the network is
`Fresh` and every recorded receiver base is `AckFresh` in the final state (hypotheses of
`C01_sys_fresh_of_recent`: 4 packets emitted). The hypotheses of `C02_sys_no_skip` hold for the log
entry of `C` (`l1` = the entries of `B` and `A`, `j = 0`, `x = A`): its first alternative holds, `A`
was taken out before `C`. -/
example :
    (match runS (initS 8 (2^3) (2^20 - 2) 100000 100000) exOps with
     | .ok s =>
       decide ((∀ x ∈ s.net, Fresh s x.1) ∧ (∀ y ∈ s.seen, AckFresh s y.1) ∧
         (s.hist.emitted.map fun x => (x.mode, x.channelId)) =
           [(.reliable, 0), (.unreliable, 1), (.unreliable, 0), (.persistent, 0)] ∧
         ((s.rcv.log.drop 2).map fun e => (e.uid, e.chan)) = [(2, 0), (3, 0)] ∧
         ((s.rcv.log.take 2).map fun e => (e.uid, e.chan)) = [(1, 1), (0, 0)])
     | .error _ => false) = true := by decide +kernel

/-- The third `receive` of that run (hypotheses of `C02_sys_window_waits_for_reliable`): it moves the
window base from unwrapped 0 to 3, past the Reliable packet `A` at position 0, whose slot has the
entry flag. -/
example :
    (match runS (initS 8 (2^3) (2^20 - 2) 100000 100000) (exOps.take 15) with
     | .ok s =>
       (match stepS s .recv with
        | .ok s' =>
          decide (s.rcv.adv = 0 ∧ s'.rcv.adv = 3 ∧ (s.hist.emitted.map (·.mode))[0]? = some .reliable ∧
            (getSlot s.rcv.st (widx s.rcv.st (pidAdd (2^20 - 2) 0))).entryFlag = true)
        | .error _ => false)
     | .error _ => false) = true := by decide +kernel

/-- The prefix of the run without the acknowledgement (hypotheses of
`C01_sys_fresh_automatic_noack`: `8 + 2^3 ≤ 2^20`, no `ack` step). -/
example : (8 : Nat) + 2^3 ≤ 2^20 ∧ (∀ op ∈ exOps.take 16, isAck op = false) ∧
    (match runS (initS 8 (2^3) (2^20 - 2) 100000 100000) (exOps.take 16) with
     | .ok s => s.rcv.log.length == 3 && s.snd.win.length == 3
     | .error _ => false) = true := by
  refine ⟨by decide, by decide, by decide +kernel⟩

/-- Hypotheses of `C02_sys_reach_alloc`, `C01_sys_delivered_payload`,
`C02_sys_reliable_delivered_before_passed` and `C02_sys_reliable_taken_before_passed` for the run
`exOps`: equal limits (`allocCeil 100000 ≤ allocCeil 100000`), the window base has passed position 0
(`adv = 4`), the packet emitted there (`A = [1, 1]`) is Reliable, and the log has an entry with
unwrapped id 0 and payload `[1, 1]`. -/
example : allocCeil 100000 ≤ allocCeil 100000 ∧
    (match runS (initS 8 (2^3) (2^20 - 2) 100000 100000) exOps with
     | .ok s =>
       decide (0 < s.rcv.adv ∧ (s.hist.emitted.map fun x => (x.mode, x.data))[0]? = some (.reliable, [1, 1]) ∧
         (s.rcv.log.map fun e => (e.uid, e.data))[1]? = some (0, some [1, 1]))
     | .error _ => false) = true := by
  refine ⟨Nat.le_refl _, by decide +kernel⟩

/-- Hypotheses of `C02_sys_no_skip_full` for that run, in the case the first alternative of
`C02_sys_no_skip` does not cover by itself: `e` = the entry of `D` (unwrapped id 3, channel 0, taken
when the window base was at 3), `j = 0` (`A`, Reliable, channel 0, `0 < e.wb`); the earlier entry
with unwrapped id 0 is the second entry of the log. -/
example :
    (match runS (initS 8 (2^3) (2^20 - 2) 100000 100000) exOps with
     | .ok s =>
       decide (((s.rcv.log.drop 3).map fun e => (e.uid, e.chan, e.wb)) = [(3, 0, 3)] ∧
         ((s.rcv.log.take 3).map fun e => (e.uid, e.chan)) = [(1, 1), (0, 0), (2, 0)] ∧
         (s.hist.emitted.map fun x => (x.mode, x.channelId))[0]? = some (.reliable, 0))
     | .error _ => false) = true := by decide +kernel

/-- A run with sync frames: send window 8, receive window `8 = 2^3`. Channel 0: Reliable `R = [1]`,
Unreliable `U = [2]`, Unreliable `V = [3]`. All three are emitted; only `R` arrives. A `sync` at this
point is refused (the guard `SyncOk` fails: `R` is Reliable and its entry flag is not set yet — it is
set by the `deliver`), after `deliver 0` it is taken and records `(3, 3)`. `receive` delivers `R` and
moves the base to 1 (`U`, `V` are missing and nothing says they are not Reliable). The `resync` then
moves the base from 1 to 3, past the two lost Unreliable packets, without a `receive`; the late
datagram of `U` is ignored. A new Reliable packet `[4]` follows and is delivered. -/
def syncOps : List SOp :=
  [ .enq [1] 0 .reliable 0, .enq [2] 0 .unreliable 0, .enq [3] 0 .unreliable 0, .emit 0, .emit 0, .emit 0,
    .sync, .deliver 0, .sync, .recv, .resync 0, .deliver 1, .recv,
    .enq [4] 0 .reliable 0, .emit 0, .deliver 3, .recv ]

/-- The run exists and ends as described: one recorded sync value `(3, 3)` (the first `sync` was
refused), `seen` has the bases after the two first `receive` calls / the `resync` / the last
`receive`, the log holds `R` and `[4]` (unwrapped ids 0 and 3; `U` and `V` were never delivered), and
the hypotheses of `C02_sys_resync_keeps_reliable` / `C02_sys_synced_reliable_received` are satisfiable
(the `resync` moved the base from 1 to 3; the Reliable packet at position 0 is in the log). -/
theorem C01_sys_sync_example :
    (match runS (initS 8 (2^3) 0 100000 100000) syncOps with
     | .ok s =>
       decide (s.syncs = [(3, 3)] ∧ s.seen = [(0, 0), (1, 1), (3, 3), (3, 3), (4, 4)] ∧
         (s.rcv.log.map fun e => (e.uid, e.data)) = [(0, some [1]), (3, some [4])] ∧ s.rcv.adv = 4 ∧
         (s.hist.emitted.map (·.mode)) = [.reliable, .unreliable, .unreliable, .reliable])
     | .error _ => false) = true ∧
    (match runS (initS 8 (2^3) 0 100000 100000) (syncOps.take 10) with
     | .ok s =>
       (match stepS s (.resync 0) with
        | .ok s' => decide (s.rcv.adv = 1 ∧ s'.rcv.adv = 3 ∧ s'.rcv.log = s.rcv.log ∧ SyncFresh s 3)
        | .error _ => false)
     | .error _ => false) = true ∧
    (match runS (initS 8 (2^3) 0 100000 100000) (syncOps.take 6) with
     | .ok s => decide (¬ SyncOk s)
     | .error _ => false) = true := by
  refine ⟨by decide +kernel, by decide +kernel, by decide +kernel⟩

/-- Hypotheses of `C02_overtake`-style reasoning do not apply, but the sender-side guard matters:
without it (a sync value recorded while a Reliable packet is missing) the `resynchronize` of the
receiver model does skip that packet — `Props/C02Recv.lean`, `C02_overtake_witness_resync`. In `Sys`
the `sync` step is refused in that situation (third component of `C01_sys_sync_example`). -/
example : (8 : Nat) ≤ 2^16 ∧ (3 : Nat) ≤ 19 ∧ (0 : Nat) < 2^20 := by decide

end Uflow.Props.C01Sys
