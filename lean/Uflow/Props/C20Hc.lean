import Uflow.Lemmas.HcFlushInit
import Uflow.Lemmas.CreditEx
import Uflow.Props.C01Hc

/-!
# C20Hc — `send_buffer_size()` of a half connection is exact and returns to zero

`Props/C20.lean` proves the accounting of `PacketSender::total_size` for the packet sender `PSend`
alone, over arbitrary sequences of its four operations (`C20.Op`: `enqueue_packet`, `emit_packet`,
`acknowledge`, `acknowledge_fragment`). This file lifts it to the full half connection
`Uflow.HalfConn` (`src/half_connection/mod.rs`): `HalfConnection::send_buffer_size()` is
`HalfConn.sendBufferSize s = s.ps.totalSize`, and a half connection is driven by arbitrary event lists
`Credit.Ev` (`HcInv.runEvs`: `step`, `flush`, `send`, `receive`, and data / sync / ack frames with
ARBITRARY contents — forged acknowledgements included).

The lift (`Uflow/Lemmas/HcFlushOps.lean`, `HcFlush.exec_psOps`): every event changes the packet
sender `ps` only through packet sender operations — `send` is one `enqueue` stamped with the current
flush id, `flush` is a chain of `emit(flush_id)` calls (`HcSys.flush_spec`), an ack frame is some
`acknowledge_fragment` calls followed by one `acknowledge`, and `step`, `receive`, data and sync frames
leave `ps` alone. So after any run the packet sender is the result of a `C20.run` from
`PacketSender::new`, and every theorem about `PSend` operation sequences applies (C20, C05, C02 sender
side), with the ghost history `hist` (`PSend.runH`) whose submitted list is the list of `send` calls.

Hypotheses of the run theorems: `tx_packet_base_id < 2^20` (a valid packet id; `HalfConnection::new`
is called with `nonce % PACKET_ID_SPAN`), and every `send` event carries at most `MAX_PACKET_SIZE` bytes
(`Ev.Ok`, the precondition `Endpoint::send` checks) — these are what `HcSys.flush_spec` needs; the
frames are unconstrained.

`C20_hc_zero_witness`: "no send pending" (`is_send_pending() = false`) does NOT imply a zero buffer
size — `is_send_pending` does not look at the send window (see `Props/C09Hc.lean`); the exact
statements are `C20_hc_zero` (queue and window empty) and `C20_hc_idle`.
-/

namespace Uflow.Props.C20

open Uflow Uflow.Gen Uflow.Codec Uflow.HalfConn Uflow.PSend Uflow.HcSys Uflow.HcFlush
open Uflow.Credit (Ev exec)
open Uflow.HcInv (runEvs)
open Uflow.Rate (FloatOps)

variable {F : Type}

/-- **A half connection acts on its packet sender only through packet sender operations.** After any
event list from a fresh half connection, the packet sender `s'.ps` is the result of a `C20.run` (a
sequence of `enqueue_packet` / `emit_packet` / `acknowledge` / `acknowledge_fragment`) from
`PacketSender::new`; run with the ghost history (`PSend.runH`), the same sequence records as submitted
exactly the `send` calls of the event list, each with the flush id current at the call
(`HcFlush.sendsOf`). -/
theorem C20_hc_projects (ops : FloatOps F) (c : Config) (now : Nat) (rng : Rng)
    (hb : c.txPacketBaseId < 2^20) (evs : List Ev) (hok : ∀ ev ∈ evs, ev.Ok) (s' : State F)
    (out : List (List Nat)) (hr : runEvs ops (HalfConn.init ops c now rng) evs = .ok (s', out)) :
    ∃ (sops : List Op) (hist : Hist),
      run (PSend.init c.txPacketWindowSize c.txPacketBaseId c.txAllocLimit) sops = .ok s'.ps ∧
      runH (PSend.init c.txPacketWindowSize c.txPacketBaseId c.txAllocLimit) {} sops = .ok (s'.ps, hist) ∧
      hist.enqueued = sendsOf ops (HalfConn.init ops c now rng) evs := by
  have hA : AInv [] (HalfConn.init ops c now rng).ps := ainv_init _ _ _ hb
  obtain ⟨_, hp⟩ := runEvs_psOps ops evs _ s' out hA hok hr
  obtain ⟨sops, hist, h1, h2, _, h4, _⟩ := psOps_init _ _ _ s'.ps _ hp
  exact ⟨sops, hist, h4, h1, h2⟩

/-- **Exactness for the half connection**: after any event list (any interleaving of `send`, `flush`,
`step`, `receive` and frames with arbitrary contents) that the half connection survives,
`send_buffer_size()` equals the payload bytes still in the send queue plus the payload bytes of the
packets in the send window — accepted by `send` and neither acknowledged (passed by the window base)
nor dropped as stale TimeSensitive packets (`C20_hc_exact` spells this out in terms of the `send`
calls) — and the allocation counter equals the fragment-rounded bytes of the window. -/
theorem C20_hc (ops : FloatOps F) (c : Config) (now : Nat) (rng : Rng)
    (hb : c.txPacketBaseId < 2^20) (evs : List Ev) (hok : ∀ ev ∈ evs, ev.Ok) (s' : State F)
    (out : List (List Nat)) (hr : runEvs ops (HalfConn.init ops c now rng) evs = .ok (s', out)) :
    sendBufferSize s' = qBytes s'.ps.queue + wBytes s'.ps.win ∧ s'.ps.alloc = wAlloc s'.ps.win := by
  obtain ⟨sops, _, h1, _, _⟩ := C20_hc_projects ops c now rng hb evs hok s' out hr
  exact C20_inv _ _ _ sops s'.ps h1

/-- **Exactness in terms of the `send` calls** (`tx_packet_window_size < 2^20`; the library asserts
`≤ 4096`). Let `sends` be the `send` calls of the run, in order. There are the emitted packets
`hist.emitted = old ++ wl` (`old`: those that have left the send window, `wl`: those still in it, one
per window entry, same payloads) such that
* the emitted packets followed by the queued ones form a subsequence of `sends`, and the two lists
  agree on everything that is not TimeSensitive: the only accepted packets that are neither emitted nor
  still queued are TimeSensitive packets dropped as stale;
* `send_buffer_size()` = bytes of the queued packets + bytes of the packets `wl`. -/
theorem C20_hc_exact (ops : FloatOps F) (c : Config) (now : Nat) (rng : Rng)
    (hb : c.txPacketBaseId < 2^20) (hw : c.txPacketWindowSize < 2^20) (evs : List Ev)
    (hok : ∀ ev ∈ evs, ev.Ok) (s' : State F) (out : List (List Nat))
    (hr : runEvs ops (HalfConn.init ops c now rng) evs = .ok (s', out)) :
    ∃ (hist : Hist) (old wl : List Emitted),
      hist.enqueued = sendsOf ops (HalfConn.init ops c now rng) evs ∧
      hist.emitted = old ++ wl ∧ wl.map Emitted.data = s'.ps.win.map (fun w => w.packet.data) ∧
      (hist.emitted.map Emitted.toQ ++ s'.ps.queue).Sublist hist.enqueued ∧
      hist.enqueued.filter notTS = (hist.emitted.map Emitted.toQ ++ s'.ps.queue).filter notTS ∧
      sendBufferSize s' = qBytes s'.ps.queue + (wl.map fun e => e.data.length).sum := by
  have hA : AInv [] (HalfConn.init ops c now rng).ps := ainv_init _ _ _ hb
  obtain ⟨_, hp⟩ := runEvs_psOps ops evs _ s' out hA hok hr
  obtain ⟨sops, hist, _, h2, ⟨old, wl, hem, hwl⟩, h4, h5⟩ := psOps_init _ _ _ s'.ps _ hp
  have hinv := h5 hw hb
  obtain ⟨b1, _, b3⟩ := wdata_bytes hwl
  refine ⟨hist, old, wl, h2, hem, b3, hinv.order.1, hinv.order.2, ?_⟩
  rw [← b1]
  exact (C20_inv _ _ _ sops s'.ps h4).1

/-- **Never underflows, for the half connection**: in every state a half connection reaches, the two
packet sender operations that subtract from the counters (`emit_packet`, which drops stale
TimeSensitive packets, and `acknowledge`, which drops acknowledged packets) do not underflow — for any
flush id and any (genuine or forged) receiver base id the next `flush` / ack frame may bring. -/
theorem C20_hc_no_underflow (ops : FloatOps F) (c : Config) (now : Nat) (rng : Rng)
    (hb : c.txPacketBaseId < 2^20) (evs : List Ev) (hok : ∀ ev ∈ evs, ev.Ok) (s' : State F)
    (out : List (List Nat)) (hr : runEvs ops (HalfConn.init ops c now rng) evs = .ok (s', out)) :
    (∀ f, PSend.emit s'.ps f ≠ .error .overflow) ∧ (∀ rb, PSend.acknowledge s'.ps rb ≠ .error .overflow) := by
  have hi : PSend.Inv s'.ps := C20_hc ops c now rng hb evs hok s' out hr
  exact ⟨fun f => emit_no_overflow s'.ps f hi, fun rb => acknowledge_no_overflow s'.ps rb hi⟩

/-- **Returns to zero**: nothing queued and nothing in the send window means `send_buffer_size() = 0`. -/
theorem C20_hc_zero (ops : FloatOps F) (c : Config) (now : Nat) (rng : Rng)
    (hb : c.txPacketBaseId < 2^20) (evs : List Ev) (hok : ∀ ev ∈ evs, ev.Ok) (s' : State F)
    (out : List (List Nat)) (hr : runEvs ops (HalfConn.init ops c now rng) evs = .ok (s', out))
    (hq : s'.ps.queue = []) (hwin : s'.ps.win = []) : sendBufferSize s' = 0 := by
  have := (C20_hc ops c now rng hb evs hok s' out hr).1
  simpa [hq, hwin, qBytes, wBytes] using this

/-- **When nothing is pending** (`is_send_pending() = false`: send queue, pending queue and resend
queue empty) `send_buffer_size()` is the payload of the packets still in the send window — emitted,
all fragments out of the transmit queues (`Props/C09Hc.lean`, `C09_hc_not_pending_resent_acked`), but
not yet passed by the receiver's window base. It is not zero in general (`C20_hc_zero_witness`). -/
theorem C20_hc_idle (ops : FloatOps F) (c : Config) (now : Nat) (rng : Rng)
    (hb : c.txPacketBaseId < 2^20) (evs : List Ev) (hok : ∀ ev ∈ evs, ev.Ok) (s' : State F)
    (out : List (List Nat)) (hr : runEvs ops (HalfConn.init ops c now rng) evs = .ok (s', out))
    (hidle : isSendPending s' = false) : sendBufferSize s' = wBytes s'.ps.win := by
  have hq : s'.ps.queue = [] := ((not_pending_iff s').mp hidle).1
  have := (C20_hc ops c now rng hb evs hok s' out hr).1
  simpa [hq, qBytes] using this

/-! ## The sending side of a pair -/

/-- The same for the sending half connection `A` of the pair of `Props/C01Hc.lean`, for EVERY
schedule of the adversarial frame network: `A.send_buffer_size()` is the payload still queued plus the
payload in the send window; it is zero when both are empty. -/
theorem C20_hc_pair (ops : FloatOps F) (cA cB : Config) (nowA nowB : Nat) (rngA rngB : Rng)
    (hc : C01.PairCfg cA cB) (sched : List POp) (h : HcPair F)
    (hrun : runP ops (initP ops cA cB nowA nowB rngA rngB) sched = .ok h) :
    sendBufferSize h.A = qBytes h.A.ps.queue + wBytes h.A.ps.win ∧
    (h.A.ps.queue = [] → h.A.ps.win = [] → sendBufferSize h.A = 0) := by
  have hi := pairInv_init ops cA cB nowA nowB rngA rngB hc.txA hc.txB hc.rxB hc.winB
  obtain ⟨newq, _, hp⟩ := runP_psOps ops sched hi hrun
  obtain ⟨sops, _, _, _, _, h4, _⟩ := psOps_init _ _ _ h.A.ps _ hp
  have := (C20_inv _ _ _ sops h.A.ps h4).1
  refine ⟨this, fun hq hw => ?_⟩
  show h.A.ps.totalSize = 0
  simpa [hq, hw, qBytes, wBytes] using this

/-- **`is_send_pending() = false` does not mean `send_buffer_size() = 0`.** `A` sends Reliable
`[1,2,3]` and flushes; the frame reaches `B`, whose application has not called `receive` yet; `B`
acknowledges the FRAME (its packet window base is still 0); `A`'s next flush pops the acknowledged
fragment from the resend queue. Now `A`'s send queue, pending queue and resend queue are empty —
`is_send_pending()` is false — but the packet is still in `A`'s send window (only `B`'s window base
passing it removes it) and `send_buffer_size()` is 3. -/
theorem C20_hc_zero_witness :
    (match runP CreditEx.exOps C01.hcExPair
        [.sendA [1,2,3] 0 .reliable, .stepA 0, .stepB 0, .flushA, .deliverAB 0,
         .stepB 1000000000, .flushB, .deliverBA 0, .flushA] with
     | .ok h => !isSendPending h.A && decide (sendBufferSize h.A = 3 ∧ h.A.ps.win.length = 1 ∧
         h.A.ps.queue = [])
     | .error _ => false) = true := by decide +kernel

/-! ## Non-vacuity -/

/-- The hypotheses hold for the run `CreditEx.exEvs` of the example half connection (a Reliable, a
3-fragment Unreliable and a TimeSensitive packet, three steps with flushes): the base id is 0, the
packets are small, the run succeeds. At the end the TimeSensitive packet has been dropped, the other
two are in the send window (3100 bytes), nothing is queued. -/
theorem C20_hc_example :
    CreditEx.exCfg.txPacketBaseId < 2^20 ∧ CreditEx.exCfg.txPacketWindowSize < 2^20 ∧
    (∀ ev ∈ CreditEx.exEvs, ev.Ok) ∧
    (match runEvs CreditEx.exOps (HalfConn.init CreditEx.exOps CreditEx.exCfg 0 { fifo := [], state := 0 })
        CreditEx.exEvs with
     | .ok (s, _) => decide (sendBufferSize s = 3100 ∧ s.ps.queue = [] ∧ s.ps.win.length = 2 ∧
         (sendsOf CreditEx.exOps (HalfConn.init CreditEx.exOps CreditEx.exCfg 0 { fifo := [], state := 0 })
           CreditEx.exEvs).map (fun q => q.data.length) = [100, 3000, 3])
     | .error _ => false) = true := by
  refine ⟨by decide, by decide, by decide +kernel, by decide +kernel⟩

/-- `C20_hc_zero` / `C20_hc_idle`: the run of `C01_hc_example` extended by one `flush` of `A` ends with
`A`'s queues and send window empty, `is_send_pending() = false` and `send_buffer_size() = 0`. -/
theorem C20_hc_zero_example :
    (match runP CreditEx.exOps C01.hcExPair (C01.hcExSched ++ [.flushA]) with
     | .ok h => !isSendPending h.A && decide (sendBufferSize h.A = 0 ∧ h.A.ps.win = [] ∧ h.A.ps.queue = [] ∧
         h.sent.length = 4)
     | .error _ => false) = true := by decide +kernel

end Uflow.Props.C20
