import Uflow.Lemmas.EndpointServerExample

/-!
# C18 — no amplification towards addresses that never completed a handshake

Model: `Uflow/Model/Endpoint.lean`. Ghost counters: a run `SRun hc cfg s rx tx ev`
(`Uflow/Lemmas/EndpointServerRun.lean`) carries the list `rx` of all datagrams handed to
`Server.step`, the list `tx` of all datagrams sent and the list `ev` of all events delivered;
`bytesOf a l` is the total length of the datagrams of `l` with address `a`. "`a` never had an
`active` entry" is expressed observably as "no `connect a` event was ever delivered" (an entry
becomes active exactly when `connect` is emitted, see C07); it implies `s.NoAct a` (no object of `a`
is `active`/`closing`/`closed`). `s.phi a` is the number of SYN-ACK resends the timers still owe to
pending objects of `a`. All theorems hold for every half-connection behaviour `hc`.
-/

namespace Uflow.Props.C18

open Uflow.Endpoint Uflow.Codec Uflow.Gen

variable {H : Type}

/-- `u32` (the model of `.min(u32::MAX as usize) as u32`) fits 32 bits. -/
theorem C18_u32_lt (x : Nat) : u32 x < 2^32 := by
  unfold u32; omega

/-- **C18_ratio (with the owed resends).** For every run and every address `a` to which no `connect`
event was ever delivered: no object of `a` is or was active, and
`1472 * tx a + 1472 * 25 * (resends still owed to a) ≤ 275 * rx a`. -/
theorem C18_ratio_owed (hc : HC H) (cfg : SrvConfig) (s : Server H) (rx tx : List (Nat × List Nat)) (ev : List SEvent)
    (hr : SRun hc cfg s rx tx ev) (a : Nat) (hnc : SEvent.connect a ∉ ev) :
    s.NoAct a ∧ 1472 * bytesOf a tx + 36800 * s.phi a ≤ 275 * bytesOf a rx := by
  obtain ⟨_, hin | h⟩ := hr.G a
  · rw [hr.eventsOut_nil, List.append_nil] at hin
    exact absurd hin hnc
  · exact h

/-- **C18_ratio.** For every run (any sequence of `step` / `flush` / `drop` / `disconnect` / `send`,
any arrivals and times) and every address `a` that never had an active entry (no `connect a`):
`1472 * tx a ≤ 25 * (1 + SERVER_HANDSHAKE_RESEND_COUNT) * rx a`. -/
theorem C18_ratio (hc : HC H) (cfg : SrvConfig) (s : Server H) (rx tx : List (Nat × List Nat)) (ev : List SEvent)
    (hr : SRun hc cfg s rx tx ev) (a : Nat) (hnc : SEvent.connect a ∉ ev) :
    1472 * bytesOf a tx ≤ (25 * (1 + SERVER_HANDSHAKE_RESEND_COUNT)) * bytesOf a rx := by
  have := (C18_ratio_owed hc cfg s rx tx ev hr a hnc).2
  simp only [SERVER_HANDSHAKE_RESEND_COUNT]
  omega

/-- Hence the server sends strictly less to such an address than it received from it. -/
theorem C18_ratio_strict (hc : HC H) (cfg : SrvConfig) (s : Server H) (rx tx : List (Nat × List Nat)) (ev : List SEvent)
    (hr : SRun hc cfg s rx tx ev) (a : Nat) (hnc : SEvent.connect a ∉ ev) (hpos : 0 < bytesOf a tx) :
    bytesOf a tx < bytesOf a rx := by
  have := C18_ratio hc cfg s rx tx ev hr a hnc
  simp only [SERVER_HANDSHAKE_RESEND_COUNT] at this
  omega

/-! ### the ingredients, stated separately -/

/-- Frame lengths: SYN 1472 (`MAX_FRAME_SIZE`), SYN-ACK 25, handshake error 10. -/
theorem C18_frame_lengths :
    (∀ v n r p a, (encode (.syn v n r p a)).length = 1472) ∧
    (∀ na n r p a, (encode (.synAck na n r p a)).length = 25) ∧
    (∀ na e, (encode (.hsError na e)).length = 10) :=
  ⟨encode_syn_length, encode_synAck_length, encode_hsError_length⟩

/-- A datagram that (after truncation to the 1472-byte receive buffer) decodes to a SYN has at least
1472 bytes. -/
theorem C18_syn_datagram_full (bytes : List Nat) (v n r p al : Nat)
    (hd : decode (bytes.take MAX_FRAME_SIZE) = some (.syn v n r p al)) : 1472 ≤ bytes.length :=
  syn_datagram_length hd

/-- Only a SYN triggers a send towards an address without (formerly) active object: any other frame
from anybody sends nothing to `a`; a SYN sends at most 25 bytes, and only to its sender. -/
theorem C18_only_syn_triggers (hc : HC H) (s s' : Server H) (a : Nat) (hna : s.NoAct a) (addr : Nat) (f : Frame)
    (nowMs nowNs : Nat) (sent : List (Nat × List Nat))
    (hr : s.handleFrame hc addr f nowMs nowNs = .ok (s', sent)) :
    bytesOf a sent = 0 ∨ ((∃ v n r p al, f = .syn v n r p al) ∧ addr = a ∧ bytesOf a sent ≤ 25) :=
  Server.handleFrame_sent hc a hna addr f nowMs nowNs hr

/-- Each SYN yields nothing (entry exists), one 10-byte error frame (refused), or one 25-byte SYN-ACK
together with one pending entry and a resend timer with count 10 (accepted). -/
theorem C18_syn_outcomes (s : Server H) (addr v n r p a nowMs : Nat) :
    ((∃ c, s.find addr = some c) ∧ s.handleSyn addr v n r p a nowMs = (s, []))
    ∨ (s.find addr = none ∧ ∃ e ev, s.handleSyn addr v n r p a nowMs = (s.refuse addr ev, [(addr, errFrame n e)]) ∧
        (errFrame n e).length = 10 ∧ (s.refuse addr ev).clients = s.clients ∧ (s.refuse addr ev).timers = s.timers)
    ∨ (s.find addr = none ∧
        s.handleSyn addr v n r p a nowMs = (s.accept addr n r a nowMs, [(addr, s.synAckBytes n)]) ∧
        (s.synAckBytes n).length = 25 ∧
        (s.accept addr n r a nowMs).clients = s.clients ++ [s.newEntry addr n r a] ∧
        (s.accept addr n r a nowMs).timers = tPush s.timers
          { cid := s.nextCid, kind := .resendSynAck, time := nowMs + SERVER_HANDSHAKE_RESEND_INTERVAL_MS,
            count := SERVER_HANDSHAKE_RESEND_COUNT }) := by
  rcases s.handleSyn_cases addr v n r p a nowMs with ⟨h1, he⟩ | ⟨h1, e, ev, he⟩ | ⟨h1, _, _, _, _, he⟩
  · exact Or.inl ⟨h1, he⟩
  · exact Or.inr (Or.inl ⟨h1, e, ev, he, encode_hsError_length _ _, rfl, rfl⟩)
  · exact Or.inr (Or.inr ⟨h1, he, encode_synAck_length .., rfl, rfl⟩)

/-- An accepted SYN from `addr` adds exactly `SERVER_HANDSHAKE_RESEND_COUNT` owed resends for `addr`
and none for any other address. -/
theorem C18_accept_owed (s : Server H) (hw : s.WF) (addr n r al nowMs a : Nat) :
    (s.accept addr n r al nowMs).phi a = (if addr = a then SERVER_HANDSHAKE_RESEND_COUNT else 0) + s.phi a :=
  Server.phi_accept hw addr n r al nowMs a

/-- A due timer: what it sends to an address `a` without (formerly) active object is paid for by the
decrease of the owed resends (a SYN-ACK resend of 25 bytes costs one unit; at count 0 nothing is sent). -/
theorem C18_timer_accounting (s : Server H) (hw : s.WF) (t : Timer) (hp : Array Timer)
    (hpop : tPop s.timers = some (t, hp)) (nowMs a : Nat) (hna : s.NoAct a) :
    1472 * bytesOf a (({ s with timers := hp } : Server H).handleTimer t nowMs).2 +
      36800 * (({ s with timers := hp } : Server H).handleTimer t nowMs).1.phi a ≤ 36800 * s.phi a := by
  have := Server.popTimer_acc hw hpop nowMs a hna
  omega

/-- No operation other than frames and timers sends anything to such an address. -/
theorem C18_other_sends (hc : HC H) (s : Server H) (hw : s.WF) (a : Nat) (hna : s.NoAct a) :
    (∀ s' sent, s.flushActive hc = .ok (s', sent) → bytesOf a sent = 0) ∧
    (∀ nowMs nowNs s' sent, s.stepActive hc nowMs nowNs = .ok (s', sent) → bytesOf a sent = 0) :=
  ⟨fun _ _ h => (Server.flushActive_wqs hc hw h).2 a hna,
   fun nowMs nowNs _ _ h => (Server.stepActive_wqs hc hw nowMs nowNs h).2 a hna⟩

/-- **C18_undersized_ignored.** A datagram shorter than 1472 bytes from an address without an entry
changes nothing and sends nothing. -/
theorem C18_undersized_ignored (hc : HC H) (s : Server H) (a : Nat) (bytes : List Nat) (nowMs nowNs : Nat)
    (hlen : bytes.length < 1472) (hf : s.find a = none) :
    s.handleFrames hc [(a, bytes)] nowMs nowNs = .ok (s, []) := by
  rw [Server.handleFrames_single]
  cases hd : decode (bytes.take MAX_FRAME_SIZE) with
  | none => rfl
  | some f =>
    simp only
    apply Server.handleFrame_unknown_nonsyn hc hf
    intro v n r p al hfe
    subst hfe
    have := syn_datagram_length hd
    omega

/-! ### non-vacuity -/

/-- a dummy half connection over `Unit` -/
def hc0 : HC Unit :=
  { new := fun _ _ => (), send := fun _ _ _ _ => (), dispatch := fun _ _ => .ok (), step := fun _ _ => .ok (),
    flush := fun _ r => .ok ((), r, []), receive := fun _ => .ok ((), []), isSendPending := fun _ => false,
    sendBufferSize := fun _ => 0 }

def ep0 : EpConfig :=
  { maxSendRate := 1000000, maxReceiveRate := 1000000, maxPacketSize := 1000, maxReceiveAlloc := 100000,
    keepalive := true, keepaliveIntervalMs := 1000, activeTimeoutMs := 15000 }

def cfg0 : SrvConfig := { maxTotalConnections := 4, maxActiveConnections := 2, enableHandshakeErrors := true, ep := ep0 }

def s0 : Server Unit := Server.init cfg0 0 ⟨[77], 1⟩

example : SRun hc0 cfg0 s0 [] [] [] ∧ SEvent.connect 7 ∉ ([] : List SEvent) := ⟨SRun.init 0 ⟨[77], 1⟩, by simp⟩

example : s0.find 7 = none ∧ ([3, 1, 2] : List Nat).length < 1472 := by decide

example : s0.WF ∧ s0.NoAct 7 := ⟨Server.init_WF _ _ _, fun c hc => by simp [s0, Server.init] at hc⟩

/-- a concrete run (kernel-evaluated, `Uflow/Lemmas/EndpointServerExample.lean`): address 7 sent a
1472-byte SYN and got the 25-byte SYN-ACK, address 9 sent 3 junk bytes and got nothing; neither has a
`connect` event: the hypotheses of `C18_ratio` / `C18_ratio_strict` hold with `0 < tx 7`. -/
example : ∃ (s : Server Unit) (rx tx : List (Nat × List Nat)) (ev : List SEvent),
    SRun Ex.hc0 Ex.cfg0 s rx tx ev ∧ SEvent.connect 7 ∉ ev ∧ SEvent.connect 9 ∉ ev ∧
    bytesOf 7 tx = 25 ∧ bytesOf 7 rx = 1472 ∧ bytesOf 9 tx = 0 ∧ bytesOf 9 rx = 3 := by
  obtain ⟨s1, s2, sent1, sent2, h1, h2, h3, h4, _⟩ := Ex.run
  have r1 := SRun.op Ex.op1 (SRun.init (hc := Ex.hc0) (cfg := Ex.cfg0) 0 ⟨[77], 1⟩) h1
  exact ⟨s1, _, _, _, r1, by simp, by simp, by simpa using h3, Ex.rx1_bytes.1, by simpa using h4, Ex.rx1_bytes.2⟩

end Uflow.Props.C18
