import Uflow.Model.Endpoint

/-! # C18 (theorems on the endpoint model are being added) -/

namespace Uflow.Props.C18

open Uflow.Endpoint

/-- `u32` (the model of `.min(u32::MAX as usize) as u32`) fits 32 bits. -/
theorem C18_u32_lt (x : Nat) : u32 x < 2^32 := by
  unfold u32; omega

end Uflow.Props.C18
