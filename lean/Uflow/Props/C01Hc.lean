import Uflow.Lemmas.HcSysSim
import Uflow.Lemmas.HcSysFew
import Uflow.Lemmas.HcSysCheck
import Uflow.Lemmas.HcSysSync
import Uflow.Lemmas.CreditEx
import Uflow.Props.C01Sys

/-!
# C01Hc — the half-connection layer refines the packet-layer system

`Props/C01Sys.lean` proves per-channel in-order, at-most-once, byte-exact delivery and "Reliable
packets are never skipped" for the composed packet-layer system `Sys` (`PSend` → ghost datagram
network → `PRecv`). This file ties that system to the full half connections `Uflow.HalfConn`
(`src/half_connection/mod.rs`, `emit.rs`): what travels between two half connections are *frames*
built by `flush` (`emit_frames`) and taken apart by `handle_data_frame` / `handle_ack_frame` /
`handle_sync_frame`; the packet sender / receiver only ever see what these functions hand them.

## The pair (`Uflow/Lemmas/HcSysDefs.lean`)

`HcPair F`: two `HalfConn.State F`, `A` and `B`, and the two wires `wireAB`, `wireBA` — every byte
string `A.flush` / `B.flush` has handed to its frame sink, in order; nothing is ever removed. Steps
`POp` (`stepP`, each a call of the model function):
* `sendA data chan mode` — `A.send`, refused (no-op) if `data.len() > MAX_PACKET_SIZE` (the
  precondition `Endpoint::send` checks; same convention as the `enq` step of `Sys`);
* `flushA`, `stepA now`, `flushB`, `stepB now`, `recvB` — `flush`, `step`, `receive`;
* `deliverAB k` — the network hands the `k`-th frame of `wireAB` to `B`: the bytes are truncated to
  `MAX_FRAME_SIZE` (the receive buffer of `handle_frames` / `Client::step`; the identity on emitted
  frames, `PairInv.lab` / `lba`), then `dispatch` = parse with `Codec.decode` (`Frame::read`), then
  data → `handleDataFrame`, sync → `handleSyncFrame`, ack → `handleAckFrame`, anything else ignored
  (as `handle_frame` of the endpoints); `deliverBA k` likewise for `A`. Any emitted frame, any number
  of times, in any order; frames that were never emitted cannot be delivered (no forgery). `k` out of
  range is a no-op.

Ghost fields (write-only): `sent` (the `A.send` calls), `pend` (the packets `A`'s `PSend.emit`
returned, `C01_hc_pend_is_emit_history`), `em` (the same packets with their send modes, the ghost replay
`HcSys.replayEmit` of the `emit` calls of each `flush`), `fed` (the datagrams `B.handleDataFrame` handed
to `PRecv.handleDatagram`), `acks` (the base ids `A.handleAckFrame` handed to `PSend.acknowledge`),
`advB` / `bases` (the packet receive window base of `B`, unwrapped / every value it had), `outs` (the
payloads `B.receive` returned, concatenated), `syncs` (for every sync frame carrying a packet id that
`A.flush` emitted while `SyncOkP` held: the number of packets emitted so far and that id — the `syncs`
list of `Sys`). `C01_hc_dispatch` states what `dispatch` does to the packet sender and receiver in terms
of `fedBy` / `ackBy`, the functions that feed `fed` / `acks`.

## Results

1. `C01_hc_datagrams_genuine`, `C01_hc_wire_genuine` — for EVERY schedule: `B`'s packet receiver only
   ever sees fragment datagrams `p.datagram fid` (`fid ≤ p.lastFragmentId`) of packets `p` that `A`'s
   `PSend.emit` returned, i.e. elements of the `Sys` network built from `A`'s emissions.
2. `C01_hc_acks_genuine` — for EVERY schedule: every base id `A`'s `PSend.acknowledge` is called
   with is a base id `B`'s packet receiver had (an entry of `bases`, which corresponds to the `seen`
   list of `Sys`). Nothing else in `A` touches the packet sender except `enqueue` (in `send`), the
   `emit` calls of `flush`, and `ackFragment` (`C01_hc_dispatch`, `C01_hc_pend_is_emit_history`).
3. `C01_hc_refines_sys` — refinement: every run of the pair whose schedule satisfies `Guarded` maps to
   a run `Sys.runS` from `Sys.initS` related by `HcSys.Rel`: the `Sys` sender is `A.ps` with the
   per-fragment acknowledgement flags erased (`acknowledge_fragment` is not a `Sys` step and no `Sys`
   step reads the flags), the `Sys` receiver is `B.pr`, `Sys.pend = pend`, `Sys.hist.emitted = em`,
   `Sys.hist.enqueued = sent`, the payloads in `Sys.rcv.log` are `outs`. A sync frame carrying a packet
   id maps to the `sync` step of `Sys` when `A.flush` emits it and to a `resync` step when it is
   delivered to `B`.
4. `C01_hc_in_order`, `C01_hc_at_most_once`, `C01_hc_byte_exact`, `C02_hc_no_skip` — the conclusions of
   `C01_sys_in_order`, `C01_sys_at_most_once` (+ `C01_sys_delivered_is_emitted`),
   `C01_sys_delivered_payload`, `C02_sys_no_skip_full` for the payloads returned by `B.receive`, with
   "submitted" = the `A.send` calls; `C01_hc_delivery` gives them for one common attribution.
5. `C01_hc_example` — a concrete run with a lost frame, a duplicated frame, a duplicated datagram and
   a duplicated acknowledgement; `C01_hc_resync_witness`, `C01_hc_sync_example` — runs in which a sync
   frame moves `B`'s packet window; all their schedules satisfy `Guarded`.
6. Sync frames (section 6): `C01_hc_frame_acks_genuine` (a fragment is marked acknowledged in `A` only
   if its datagram was handed to `B`'s packet receiver), `C01_hc_ids_nodup` (the side condition
   `IdsNodup` — no frame id reused — holds while `A` has sent at most `2^32` data frames),
   `C01_hc_sender_idle` (resend queue and pending
   queue empty ⇒ every fragment of every Reliable packet in the send window is acknowledged),
   `C01_hc_sync_ok` (hence `SyncOkP` holds whenever `emit_sync_frame` sends a packet id, and every such
   frame is recorded in `syncs`), `C01_hc_guarded_of_few_full` / `C01_hc_delivery_few` (for runs with
   fewer than `2^19` emitted packets NO schedule hypothesis remains).

## The schedule hypothesis of 3 and 4 (`Guarded`, `OpOk`)

* `FreshDg`: a data frame accepted by `B`'s frame window test carries only datagrams for which the
  `Fresh` guard of `Sys` holds (emission position less than `2^20 - W` ids behind `B`'s window base);
* `FreshAck`: an ack frame handed to `A` carries a base id for which the `AckFresh` guard of `Sys`
  holds;
* a sync frame handed to `B` carries no packet id, or one on which `PRecv.resynchronize` does nothing
  in `B`'s current state, or one for which `FreshSync` holds: it is recorded in `syncs` (emitted by
  `A.flush` while `SyncOkP` held: every Reliable packet emitted so far completely received by `B`) and
  the `SyncFresh` guard of `Sys` holds for it.

All three are network hypotheses of `C01Sys` about the 20-bit sequence ids. They are NOT derivable
from the frame window test of `handleDataFrame` alone: `AckQ.contains` is a sliding window test on
32-bit wrapping frame ids, so a frame delayed for `2^32` frames is accepted again; an analogous
frame-level freshness hypothesis would be needed, and the link from frame ids to packet positions (at
most 127 datagrams per frame) is not proved here.

The former gap — `Sys` had no `resynchronize` step, so runs in which a delivered sync frame moved `B`'s
packet window were outside 3 and 4 — is closed: `Sys` has the steps `sync` (under the ghost guard
`SyncOk`) and `resync`, and the guard is discharged from the half connections (`C01_hc_sync_ok`) for
every `Guarded` run that does not reuse the 32-bit frame ids (`IdsNodup`; holds while `A` has sent at
most `2^32` data frames, `C01_hc_ids_nodup`; the run may emit any number of packets, with any number of
wraps of the 20-bit packet ids): `emit_sync_frame` sends `next_packet_id` only when the resend queue and the
pending queue are empty, then every fragment of every Reliable packet in the send window is
acknowledged at frame level (`C01_hc_sender_idle`), so a data frame carrying it, emitted after the
packet, was accepted by `B` and its datagrams handed to `B`'s packet receiver
(`C01_hc_frame_acks_genuine` at the level of datagram values; `HcSys.Full.gotA` at the level of packet
identities, using the emission stamps `wireT` of the frames and the freshness clause `FreshDg`), which
keeps every fragment it was handed until the packet is complete (`Sys.gotR_step`, `Sys.gotR_all`). So
the membership in `syncs` required by `FreshSync` (i.e. `SyncOkP` at emission) is true for EVERY sync
frame with a packet id on the wire of such a run, and `FreshSync` is a pure freshness condition like
`FreshDg` / `FreshAck`. `C01_hc_guarded_of_few_full`: in runs that emit fewer than `2^19` packets
(`w ≤ 2^16`, `w ≤ W`) all clauses hold automatically.
`C01_hc_guarded_checker` gives an executable sufficient test.
-/

namespace Uflow.Props.C01

open Uflow Uflow.Gen Uflow.Codec Uflow.HalfConn Uflow.PSend Uflow.Sys Uflow.HcSys
open Uflow.PRecv (LogE)
open Uflow.Rate (FloatOps)

variable {F : Type}

/-- Side conditions on the two configurations for 1 and 2: valid (20-bit) initial packet ids, a
non-empty receive window. (`HalfConnection::new` is called with ids `0`.) -/
structure PairCfg (cA cB : Config) : Prop where
  txA : cA.txPacketBaseId < 2^20
  txB : cB.txPacketBaseId < 2^20
  rxB : cB.rxPacketBaseId < 2^20
  winB : 0 < cB.rxPacketWindowSize

instance (cA cB : Config) : Decidable (PairCfg cA cB) :=
  if h : cA.txPacketBaseId < 2^20 ∧ cB.txPacketBaseId < 2^20 ∧ cB.rxPacketBaseId < 2^20 ∧
      0 < cB.rxPacketWindowSize then isTrue ⟨h.1, h.2.1, h.2.2.1, h.2.2.2⟩
  else isFalse fun h' => h ⟨h'.1, h'.2, h'.3, h'.4⟩

/-! ## 0. The invariant and the ghosts -/

/-- Every reachable state of the pair satisfies `HcSys.PairInv` (`Uflow/Lemmas/HcSysInv.lean`), for
every schedule. -/
theorem C01_hc_reach (ops : FloatOps F) (cA cB : Config) (nowA nowB : Nat) (rngA rngB : Rng)
    (hc : PairCfg cA cB) (sched : List POp) (h : HcPair F)
    (hrun : runP ops (initP ops cA cB nowA nowB rngA rngB) sched = .ok h) : PairInv h :=
  pairInv_run ops sched (pairInv_init ops cA cB nowA nowB rngA rngB hc.txA hc.txB hc.rxB hc.winB) hrun

/-- **The ghost `pend` is the emission history.** In a reachable state, a `flush` of `A` changes
`A`'s packet sender exactly by a chain of calls `PSend.emit · flushId` (`HcSys.Emits`: each call
starts from the state the previous one returned), and the packets these calls returned, in call
order, are what the step appends to `pend`. `flush` does not touch the packet receiver. -/
theorem C01_hc_pend_is_emit_history (ops : FloatOps F) (cA cB : Config) (nowA nowB : Nat)
    (rngA rngB : Rng) (hc : PairCfg cA cB) (sched : List POp) (h h' : HcPair F)
    (hrun : runP ops (initP ops cA cB nowA nowB rngA rngB) sched = .ok h)
    (hs : stepP ops h .flushA = .ok h') :
    ∃ l, Emits h.A.flushId h.A.ps h'.A.ps l ∧ h'.pend = h.pend ++ l ∧ h'.A.pr = h.A.pr := by
  have hi := C01_hc_reach ops cA cB nowA nowB rngA rngB hc sched h hrun
  simp only [stepP] at hs
  cases hf : flush h.A with
  | error t => rw [hf] at hs; cases hs
  | ok r =>
    obtain ⟨a', out⟩ := r
    rw [hf, PRecv.bindR_ok] at hs
    cases hs
    obtain ⟨l, hem, _, hpr, _⟩ := flush_spec h.A a' out hi.a hf
    exact ⟨l, hem, by show h.pend ++ newPackets h.A.ps a'.ps = _; rw [(hem.newPackets hi.a).2], hpr⟩

/-- **What delivering a frame does** (`HcSys.DView`): `dispatch s bytes = .ok s'` is one of
* nothing (`s' = s`; the bytes do not parse as a data / sync / ack frame);
* a data frame: `ps` unchanged, `pr` is `PRecv.handleDatagram` folded over `fedBy s bytes` — the
  datagrams of the frame if its id passes the frame window test, none otherwise;
* a sync frame: `ps` unchanged, `pr` is `PRecv.resynchronize` with the packet id of the frame, if any;
* an ack frame: `pr` unchanged, `ps` is some `ackFragment` calls (`FragSteps`) followed by exactly one
  `PSend.acknowledge` with the packet window base of the frame, which is `ackBy bytes`.
`step` changes neither `ps` nor `pr` (`HcSys.step_spec`), `receive` only `pr`, `send` only `ps`. -/
theorem C01_hc_dispatch (s s' : HalfConn.State F) (bytes : List Nat) (h : dispatch s bytes = .ok s') :
    DView s s' bytes := dispatch_view s s' bytes h

/-! ## 1. Datagrams are genuine -/

/-- **Every datagram `B`'s `handleDataFrame` hands to `PRecv.handleDatagram` is a fragment datagram
of a packet `A`'s `PSend.emit` returned earlier**: for every schedule (loss, duplication, reordering
of frames in both directions, any interleaving with `send` / `step` / `flush` / `receive`), every
`d ∈ fed` is `p.datagram fid` with `fid ≤ p.lastFragmentId` for the packet `p` at some position `i` of
the emission history `pend` — exactly the elements `(i, d)` of the network of `Sys`. -/
theorem C01_hc_datagrams_genuine (ops : FloatOps F) (cA cB : Config) (nowA nowB : Nat)
    (rngA rngB : Rng) (hc : PairCfg cA cB) (sched : List POp) (h : HcPair F)
    (hrun : runP ops (initP ops cA cB nowA nowB rngA rngB) sched = .ok h) :
    ∀ d ∈ h.fed, ∃ (i : Nat) (p : Pending) (fid : Nat),
      h.pend[i]? = some p ∧ fid ≤ p.lastFragmentId ∧ p.datagram fid = .ok d := by
  intro d hd
  obtain ⟨i, p, fid, h1, h2, h3⟩ := (C01_hc_reach ops cA cB nowA nowB rngA rngB hc sched h hrun).fed d hd
  exact ⟨i, p, fid, h1, h2, h3⟩

/-- The same for the wire: every byte string `A.flush` ever emitted that parses as a data frame
parses to a list of such datagrams, each representable on the wire (`Codec.DatagramOk`), and the
packets of the emission history are well formed (`HcSys.PendOk`: identity = position, channel `< 64`,
20-bit sequence id, 16-bit parent leads, `lastFragmentId = numFragments - 1`). -/
theorem C01_hc_wire_genuine (ops : FloatOps F) (cA cB : Config) (nowA nowB : Nat)
    (rngA rngB : Rng) (hc : PairCfg cA cB) (sched : List POp) (h : HcPair F)
    (hrun : runP ops (initP ops cA cB nowA nowB rngA rngB) sched = .ok h) :
    (∀ bytes ∈ h.wireAB, ∀ id nonce dgs, decode bytes = some (.data id nonce dgs) →
      ∀ d ∈ dgs, Genuine h.pend d ∧ DatagramOk d) ∧
    (∀ i p, h.pend[i]? = some p → PendOk i p) := by
  have hi := C01_hc_reach ops cA cB nowA nowB rngA rngB hc sched h hrun
  refine ⟨?_, hi.a.pok⟩
  intro bytes hb id nonce dgs hd d hm
  have hg := wire_decode_data (hi.wab bytes hb) (fun d hg => genuine_ok hi.a d hg) id nonce dgs hd d hm
  exact ⟨hg, genuine_ok hi.a d hg⟩

/-! ## 2. Acknowledgements are genuine -/

/-- **Every base id `A`'s `handleAckFrame` passes to `PSend.acknowledge` is a base id `B`'s packet
receiver had**: for every schedule, every `pb ∈ acks` occurs in `bases` — the record of
`B.pr.baseId` at creation and after every step that can change it (`receive`, and the delivery of a
frame: a sync frame resynchronizes). `bases` always contains the current base of `B`, with the
current unwrapped value `advB`, and all its entries are valid 20-bit ids. In particular `A` is never
told to acknowledge a packet `B`'s window has not passed. -/
theorem C01_hc_acks_genuine (ops : FloatOps F) (cA cB : Config) (nowA nowB : Nat)
    (rngA rngB : Rng) (hc : PairCfg cA cB) (sched : List POp) (h : HcPair F)
    (hrun : runP ops (initP ops cA cB nowA nowB rngA rngB) sched = .ok h) :
    (∀ pb ∈ h.acks, ∃ a, (a, pb) ∈ h.bases) ∧ (h.advB, h.B.pr.baseId) ∈ h.bases ∧
      ∀ x ∈ h.bases, x.2 < 2^20 := by
  have hi := C01_hc_reach ops cA cB nowA nowB rngA rngB hc sched h hrun
  exact ⟨hi.acks, hi.cur, hi.blt⟩

/-- The same for the wire: every byte string `B.flush` ever emitted that parses as an ack frame
carries a base id `B`'s packet receiver had. -/
theorem C01_hc_ack_wire_genuine (ops : FloatOps F) (cA cB : Config) (nowA nowB : Nat)
    (rngA rngB : Rng) (hc : PairCfg cA cB) (sched : List POp) (h : HcPair F)
    (hrun : runP ops (initP ops cA cB nowA nowB rngA rngB) sched = .ok h) :
    ∀ bytes ∈ h.wireBA, ∀ fb pb acks, decode bytes = some (.ack fb pb acks) → ∃ a, (a, pb) ∈ h.bases := by
  have hi := C01_hc_reach ops cA cB nowA nowB rngA rngB hc sched h hrun
  intro bytes hb fb pb acks hd
  obtain ⟨pb', ⟨a, ha⟩, he⟩ := wire_decode_ack (hi.wba bytes hb) fb pb acks hd
  have := hi.blt _ ha
  simp only [] at this
  rw [he, Nat.mod_eq_of_lt (by omega)]
  exact ⟨a, ha⟩

/-! ## 3. Refinement -/

/-- **The half-connection pair refines the packet-layer system.** If the two configurations use the
same initial packet id and every step of the schedule satisfies its side condition (`Guarded`: the
`Fresh` / `AckFresh` / `SyncFresh` guards of `Sys` for the delivered datagrams / base ids / recorded
sync values), then the run of the pair is matched by a run of `Sys` from
`initS w W b a m` — `w`, `a` = `A`'s transmit packet window and allocation limit, `W`, `m` = `B`'s
receive packet window and allocation limit, `b` the common initial packet id — ending in a state
related by `HcSys.Rel`: `s.snd = erase A.ps` (`A.ps` with `acked := []` in every window entry),
`s.rcv.st = B.pr`, `s.pend = pend`, `s.hist.enqueued = sent`, the payloads of `s.rcv.log` are `outs`.
The proof is a step-by-step simulation (`HcSys.sim_step`): `sendA` ↦ `enq`, `flushA` ↦ one `emit` per
`PSend.emit` call, followed by `sync` if `SyncOkP` holds afterwards; `deliverAB` of an accepted data
frame ↦ one `deliver` per datagram, of a `FreshSync` sync frame ↦ `resync`; `recvB` ↦ `recv`;
`deliverBA` of an ack frame ↦ `ack`; all other steps ↦ no step. -/
theorem C01_hc_refines_sys (ops : FloatOps F) (cA cB : Config) (nowA nowB : Nat) (rngA rngB : Rng)
    (hc : PairCfg cA cB) (hb : cA.txPacketBaseId = cB.rxPacketBaseId) (sched : List POp) (h : HcPair F)
    (hg : Guarded ops (initP ops cA cB nowA nowB rngA rngB) sched)
    (hrun : runP ops (initP ops cA cB nowA nowB rngA rngB) sched = .ok h) :
    ∃ sops s, runS (initS cA.txPacketWindowSize cB.rxPacketWindowSize cA.txPacketBaseId
        cA.txAllocLimit cB.rxAllocLimit) sops = .ok s ∧ Rel h s :=
  sim_run ops sched (pairInv_init ops cA cB nowA nowB rngA rngB hc.txA hc.txB hc.rxB hc.winB)
    (rel_init ops cA cB nowA nowB rngA rngB hb) hg hrun

/-- An executable sufficient test for the schedule hypothesis: `HcSys.guardedB` runs the schedule
and evaluates the side condition of every step. -/
theorem C01_hc_guarded_checker (ops : FloatOps F) (h : HcPair F) (sched : List POp)
    (hb : guardedB ops h sched = true) : Guarded ops h sched := guardedB_sound ops sched h hb

/-- **With fewer than `2^19` emitted packets the freshness hypotheses are automatic.** If the run
emits fewer than `2^19` packets in total (`pend.length < 2^19` at the end; `w ≤ 2^19`), the clauses
`FreshDg` / `FreshAck` of `Guarded` and the freshness part of `FreshSync` hold at every step — every
delivered datagram is a fragment of an emitted packet (1), every delivered base id is a recorded base
of `B` (2), and the 20-bit ids cannot have wrapped. Only the resynchronization clause without its
freshness part remains (`HcSys.GuardedR`: a delivered sync frame carries no packet id, or does nothing,
or is recorded in `syncs`); `C01_hc_guarded_of_few_full` removes it as well. -/
theorem C01_hc_guarded_of_few (ops : FloatOps F) (cA cB : Config) (nowA nowB : Nat) (rngA rngB : Rng)
    (hc : PairCfg cA cB) (hb : cA.txPacketBaseId = cB.rxPacketBaseId)
    (hw : cA.txPacketWindowSize ≤ 2^19) (k : Nat) (hk : k ≤ 19) (hW : cB.rxPacketWindowSize = 2^k)
    (sched : List POp) (h : HcPair F)
    (hg : GuardedR ops (initP ops cA cB nowA nowB rngA rngB) sched)
    (hrun : runP ops (initP ops cA cB nowA nowB rngA rngB) sched = .ok h)
    (hfew : h.pend.length < 2^19) : Guarded ops (initP ops cA cB nowA nowB rngA rngB) sched := by
  have hrel := rel_init ops cA cB nowA nowB rngA rngB hb
  rw [hW] at hrel
  exact guarded_of_few ops _ k _ _ _ hw hk hc.txA sched [] rfl
    (pairInv_init ops cA cB nowA nowB rngA rngB hc.txA hc.txB hc.rxB hc.winB) hrel hg hrun hfew

/-! ## 4. The headline results for the pair -/

/-- Emitted packets of `Sys` and the emission history, position by position. -/
theorem C01_hc_emitted_pend (w k b a m : Nat) (hw : w < 2^20) (hk : k ≤ 19) (hb : b < 2^20)
    (sops : List SOp) (s : Sys) (hrun : runS (initS w (2^k) b a m) sops = .ok s) (i : Nat)
    (em : Emitted) (he : s.hist.emitted[i]? = some em) :
    ∃ p, s.pend[i]? = some p ∧ em.data = p.data ∧ em.channelId = p.channelId ∧
      em.sequenceId = p.sequenceId := by
  obtain ⟨hlen, hlink, _⟩ := C01Sys.C01_sys_link w k b a m hw hk hb sops s hrun
  have hi : i < s.pend.length := by rw [hlen]; exact (List.getElem?_eq_some_iff.mp he).1
  obtain ⟨_, _, _, e, he', _, h1, h2, h3, _⟩ := hlink i s.pend[i] (List.getElem?_eq_getElem hi)
  rw [he] at he'
  cases he'
  exact ⟨s.pend[i], List.getElem?_eq_getElem hi, h1, h2, h3⟩

/-- **Per channel, in submission order, for the half-connection pair.** For every guarded run there
is an attribution `log` of the payloads returned by `B.receive` (`log.filterMap LogE.data = outs`: one
entry per packet taken out of `B`'s receive window, `data = none` for a packet passed over for
exceeding the allocation limit) such that, for every channel `c`, the payloads of the entries of
channel `c`, in delivery order, form a subsequence of the payloads submitted on `c` by `A.send`, in
submission order: nothing is reordered, duplicated or invented on a channel. -/
theorem C01_hc_in_order (ops : FloatOps F) (cA cB : Config) (nowA nowB : Nat) (rngA rngB : Rng)
    (hc : PairCfg cA cB) (hb : cA.txPacketBaseId = cB.rxPacketBaseId)
    (hw : cA.txPacketWindowSize < 2^20) (k : Nat) (hk : k ≤ 19) (hW : cB.rxPacketWindowSize = 2^k)
    (sched : List POp) (h : HcPair F)
    (hg : Guarded ops (initP ops cA cB nowA nowB rngA rngB) sched)
    (hrun : runP ops (initP ops cA cB nowA nowB rngA rngB) sched = .ok h) :
    ∃ log : List LogE, log.filterMap LogE.data = h.outs ∧
      ∀ c, ((log.filter (fun e => decide (e.chan = c))).filterMap LogE.data).Sublist
        ((h.sent.filter (fun q => decide (q.channelId = c))).map QEntry.data) := by
  obtain ⟨sops, s, hs, hr⟩ := C01_hc_refines_sys ops cA cB nowA nowB rngA rngB hc hb sched h hg hrun
  rw [hW] at hs
  refine ⟨s.rcv.log, hr.log, fun c => ?_⟩
  have := C01Sys.C01_sys_in_order _ k _ _ _ hw hk hc.txA sops s hs c
  rw [hr.enq] at this
  exact this

/-- **At most once, correctly attributed, for the half-connection pair.** The attribution `log` of
the payloads returned by `B.receive` never contains the same emitted packet twice (`uid` = emission
position), and every entry is the packet `A`'s `PSend.emit` returned at that position: same channel,
same sequence id, and a payload handed to the application is that packet's payload. -/
theorem C01_hc_at_most_once (ops : FloatOps F) (cA cB : Config) (nowA nowB : Nat) (rngA rngB : Rng)
    (hc : PairCfg cA cB) (hb : cA.txPacketBaseId = cB.rxPacketBaseId)
    (hw : cA.txPacketWindowSize < 2^20) (k : Nat) (hk : k ≤ 19) (hW : cB.rxPacketWindowSize = 2^k)
    (sched : List POp) (h : HcPair F)
    (hg : Guarded ops (initP ops cA cB nowA nowB rngA rngB) sched)
    (hrun : runP ops (initP ops cA cB nowA nowB rngA rngB) sched = .ok h) :
    ∃ log : List LogE, log.filterMap LogE.data = h.outs ∧
      log.Pairwise (fun x y => x.uid ≠ y.uid) ∧
      ∀ e ∈ log, ∃ p, h.pend[e.uid]? = some p ∧ e.chan = p.channelId ∧ e.seq = p.sequenceId ∧
        ∀ x, e.data = some x → x = p.data := by
  obtain ⟨sops, s, hs, hr⟩ := C01_hc_refines_sys ops cA cB nowA nowB rngA rngB hc hb sched h hg hrun
  rw [hW] at hs
  refine ⟨s.rcv.log, hr.log, C01Sys.C01_sys_at_most_once _ k _ _ _ hw hk hc.txA sops s hs, ?_⟩
  intro e he
  obtain ⟨em, hem, _, h1, _, h2, _, _, h3⟩ :=
    C01Sys.C01_sys_delivered_is_emitted _ k _ _ _ hw hk hc.txA sops s hs e he
  obtain ⟨p, hp, d1, d2, d3⟩ := C01_hc_emitted_pend _ k _ _ _ hw hk hc.txA sops s hs e.uid em hem
  rw [hr.pend] at hp
  exact ⟨p, hp, by rw [h2, d2], by rw [h1, d3], fun x hx => by rw [h3 x hx, d1]⟩

/-- **Byte-exact, for the half-connection pair** (`w ≤ 2^16`; `A`'s allocation ceiling not above
`B`'s — in the library `A`'s `tx_alloc_limit` is `B`'s advertised limit). Every packet `B.receive`
takes out of the receive window is handed to the application, and the bytes are those of the packet
`A`'s `PSend.emit` returned at that position (which are the bytes submitted: `C01_hc_in_order`). -/
theorem C01_hc_byte_exact (ops : FloatOps F) (cA cB : Config) (nowA nowB : Nat) (rngA rngB : Rng)
    (hc : PairCfg cA cB) (hb : cA.txPacketBaseId = cB.rxPacketBaseId)
    (hw : cA.txPacketWindowSize ≤ 2^16) (k : Nat) (hk : k ≤ 19) (hW : cB.rxPacketWindowSize = 2^k)
    (ham : allocCeil cA.txAllocLimit ≤ allocCeil cB.rxAllocLimit)
    (sched : List POp) (h : HcPair F)
    (hg : Guarded ops (initP ops cA cB nowA nowB rngA rngB) sched)
    (hrun : runP ops (initP ops cA cB nowA nowB rngA rngB) sched = .ok h) :
    ∃ log : List LogE, log.filterMap LogE.data = h.outs ∧ log.map LogE.data = h.outs.map some ∧
      ∀ e ∈ log, ∃ p, h.pend[e.uid]? = some p ∧ e.data = some p.data := by
  obtain ⟨sops, s, hs, hr⟩ := C01_hc_refines_sys ops cA cB nowA nowB rngA rngB hc hb sched h hg hrun
  rw [hW] at hs
  have hall : ∀ e ∈ s.rcv.log, ∃ p, h.pend[e.uid]? = some p ∧ e.data = some p.data := by
    intro e he
    obtain ⟨em, hem, hd⟩ := C01Sys.C01_sys_delivered_payload _ k _ _ _ hw hk hc.txA ham sops s hs e he
    obtain ⟨p, hp, d1, _⟩ := C01_hc_emitted_pend _ k _ _ _ (by omega) hk hc.txA sops s hs e.uid em hem
    rw [hr.pend] at hp
    exact ⟨p, hp, by rw [hd, d1]⟩
  refine ⟨s.rcv.log, hr.log, ?_, hall⟩
  rw [← hr.log]
  have : ∀ l : List LogE, (∀ e ∈ l, ∃ x, e.data = some x) →
      l.map LogE.data = (l.filterMap LogE.data).map some := by
    intro l
    induction l with
    | nil => intro _; rfl
    | cons e l ih =>
      intro hl
      obtain ⟨x, hx⟩ := hl e (List.mem_cons_self ..)
      rw [List.map_cons, List.filterMap_cons, hx, List.map_cons,
        ih (fun e' he' => hl e' (List.mem_cons_of_mem _ he'))]
  exact this _ (fun e he => by obtain ⟨p, _, hd⟩ := hall e he; exact ⟨_, hd⟩)

/-- **A Reliable packet is never skipped on its channel, for the half-connection pair**
(`w ≤ 2^16`). There are an attribution `log` of the payloads returned by `B.receive` and a list `em`
of the emitted packets with their send modes — `em` runs parallel to `pend` and its queue entries
(`Emitted.toQ`: data, channel, mode, flush id) form a subsequence of the `A.send` calls — such that:
if a Reliable packet `x` was emitted at position `j` on the channel of a log entry `e` emitted later
(`j < e.uid`), then an EARLIER log entry has emission position `j` (and that channel): `x` was taken
out of `B`'s receive window before `e`. -/
theorem C02_hc_no_skip (ops : FloatOps F) (cA cB : Config) (nowA nowB : Nat) (rngA rngB : Rng)
    (hc : PairCfg cA cB) (hb : cA.txPacketBaseId = cB.rxPacketBaseId)
    (hw : cA.txPacketWindowSize ≤ 2^16) (k : Nat) (hk : k ≤ 19) (hW : cB.rxPacketWindowSize = 2^k)
    (sched : List POp) (h : HcPair F)
    (hg : Guarded ops (initP ops cA cB nowA nowB rngA rngB) sched)
    (hrun : runP ops (initP ops cA cB nowA nowB rngA rngB) sched = .ok h) :
    ∃ (log : List LogE) (em : List Emitted), log.filterMap LogE.data = h.outs ∧
      (em.map Emitted.toQ).Sublist h.sent ∧ em.length = h.pend.length ∧
      (∀ (i : Nat) (x : Emitted), em[i]? = some x → ∃ p : Pending, h.pend[i]? = some p ∧ x.data = p.data ∧
        x.channelId = p.channelId ∧ x.sequenceId = p.sequenceId) ∧
      ∀ (l1 : List LogE) (e : LogE) (l2 : List LogE), log = l1 ++ e :: l2 →
        ∀ (j : Nat) (x : Emitted), em[j]? = some x → x.mode = .reliable → x.channelId = e.chan →
          j < e.uid → ∃ e' ∈ l1, e'.uid = j ∧ e'.chan = e.chan := by
  obtain ⟨sops, s, hs, hr⟩ := C01_hc_refines_sys ops cA cB nowA nowB rngA rngB hc hb sched h hg hrun
  rw [hW] at hs
  have hw' : cA.txPacketWindowSize < 2^20 := by omega
  have hinv := C01Sys.C01_sys_reach _ k _ _ _ hw' hk hc.txA sops s hs
  refine ⟨s.rcv.log, s.hist.emitted, hr.log, ?_, ?_, ?_, ?_⟩
  · rw [← hr.enq]
    exact (List.sublist_append_left _ _).trans hinv.snd.hinv.order.1
  · rw [hr.elen, hr.pend]
  · intro i x hx
    obtain ⟨p, hp, d⟩ := C01_hc_emitted_pend _ k _ _ _ hw' hk hc.txA sops s hs i x hx
    rw [hr.pend] at hp
    exact ⟨p, hp, d⟩
  · intro l1 e l2 hl j x hx hrel hch hj
    exact C01Sys.C02_sys_no_skip_full _ k _ _ _ hw hk hc.txA sops s hs l1 e l2 hl j x hx hrel hch hj

/-- **All of 4 for one common attribution** (`w ≤ 2^16`, `allocCeil a ≤ allocCeil m`): there are a
`Sys` run related to the final state of the pair by `Rel` and hence one `log` / `em` for which the
conclusions of `C01_hc_in_order`, `C01_hc_at_most_once`, `C01_hc_byte_exact` and `C02_hc_no_skip`
hold simultaneously (every theorem of `Props/C01Sys.lean`, `Props/C05Sys.lean` applies to that run). -/
theorem C01_hc_delivery (ops : FloatOps F) (cA cB : Config) (nowA nowB : Nat) (rngA rngB : Rng)
    (hc : PairCfg cA cB) (hb : cA.txPacketBaseId = cB.rxPacketBaseId)
    (hw : cA.txPacketWindowSize ≤ 2^16) (k : Nat) (hk : k ≤ 19) (hW : cB.rxPacketWindowSize = 2^k)
    (ham : allocCeil cA.txAllocLimit ≤ allocCeil cB.rxAllocLimit)
    (sched : List POp) (h : HcPair F)
    (hg : Guarded ops (initP ops cA cB nowA nowB rngA rngB) sched)
    (hrun : runP ops (initP ops cA cB nowA nowB rngA rngB) sched = .ok h) :
    ∃ (log : List LogE) (em : List Emitted),
      log.map LogE.data = h.outs.map some ∧
      (em.map Emitted.toQ).Sublist h.sent ∧
      (∀ c, ((log.filter (fun e => decide (e.chan = c))).filterMap LogE.data).Sublist
        ((h.sent.filter (fun q => decide (q.channelId = c))).map QEntry.data)) ∧
      log.Pairwise (fun x y => x.uid ≠ y.uid) ∧
      (∀ e ∈ log, ∃ x, em[e.uid]? = some x ∧ e.chan = x.channelId ∧ e.data = some x.data) ∧
      ∀ (l1 : List LogE) (e : LogE) (l2 : List LogE), log = l1 ++ e :: l2 →
        ∀ (j : Nat) (x : Emitted), em[j]? = some x → x.mode = .reliable → x.channelId = e.chan →
          j < e.uid → ∃ e' ∈ l1, e'.uid = j ∧ e'.chan = e.chan := by
  obtain ⟨sops, s, hs, hr⟩ := C01_hc_refines_sys ops cA cB nowA nowB rngA rngB hc hb sched h hg hrun
  rw [hW] at hs
  have hw' : cA.txPacketWindowSize < 2^20 := by omega
  have hinv := C01Sys.C01_sys_reach _ k _ _ _ hw' hk hc.txA sops s hs
  have hall : ∀ e ∈ s.rcv.log, ∃ x, s.hist.emitted[e.uid]? = some x ∧ e.chan = x.channelId ∧
      e.data = some x.data := by
    intro e he
    obtain ⟨em, hem, hd⟩ := C01Sys.C01_sys_delivered_payload _ k _ _ _ hw hk hc.txA ham sops s hs e he
    obtain ⟨em', hem', _, _, _, hch, _⟩ :=
      C01Sys.C01_sys_delivered_is_emitted _ k _ _ _ hw' hk hc.txA sops s hs e he
    rw [hem] at hem'
    cases hem'
    exact ⟨em, hem, hch, hd⟩
  refine ⟨s.rcv.log, s.hist.emitted, ?_, ?_, ?_, ?_, hall, ?_⟩
  · rw [← hr.log]
    have : ∀ l : List LogE, (∀ e ∈ l, ∃ x, e.data = some x) →
        l.map LogE.data = (l.filterMap LogE.data).map some := by
      intro l
      induction l with
      | nil => intro _; rfl
      | cons e l ih =>
        intro hl
        obtain ⟨x, hx⟩ := hl e (List.mem_cons_self ..)
        rw [List.map_cons, List.filterMap_cons, hx, List.map_cons,
          ih (fun e' he' => hl e' (List.mem_cons_of_mem _ he'))]
    exact this _ (fun e he => by obtain ⟨x, _, _, hd⟩ := hall e he; exact ⟨_, hd⟩)
  · rw [← hr.enq]
    exact (List.sublist_append_left _ _).trans hinv.snd.hinv.order.1
  · intro c
    have := C01Sys.C01_sys_in_order _ k _ _ _ hw' hk hc.txA sops s hs c
    rw [hr.enq] at this
    exact this
  · exact C01Sys.C01_sys_at_most_once _ k _ _ _ hw' hk hc.txA sops s hs
  · intro l1 e l2 hl j x hx hrel hch hj
    exact C01Sys.C02_sys_no_skip_full _ k _ _ _ hw hk hc.txA sops s hs l1 e l2 hl j x hx hrel hch hj

/-! ## 5. Non-vacuity -/

/-- Two fresh half connections with the example configuration of `Uflow/Lemmas/CreditEx.lean`
(packet and frame windows 16, initial ids 0, allocation limits 100000) over `exOps : FloatOps Nat`. -/
def hcExPair : HcPair Nat :=
  initP CreditEx.exOps CreditEx.exCfg CreditEx.exCfg 0 0 { fifo := [], state := 0 } { fifo := [], state := 1 }

/-- A schedule. `A` sends Reliable `[1,2,3]` on channel 0 and flushes (frame 0); it sends a 20-byte
Unreliable packet on channel 1 and Reliable `[9]` on channel 0 and flushes one second later (frame 1:
the resent fragment of the first packet and the two new packets). The network delivers frame 0, then
frame 1 TWICE (the copy is refused by `B`'s frame window; the datagram of `[1,2,3]` reaches
`PRecv.handleDatagram` twice, through frames 0 and 1). `B` receives, flushes an ack frame, which is
delivered to `A` TWICE. `A` sends Persistent `[4,4]` on channel 2 and flushes (frame 2, LOST: never
delivered), resends it a second later (frame 3), which is delivered; `B` receives and acknowledges. -/
def hcExSched : List POp :=
  [ .sendA [1,2,3] 0 .reliable, .stepA 0, .stepB 0, .flushA,
    .sendA (List.replicate 20 7) 1 .unreliable, .sendA [9] 0 .reliable, .stepA 1000000000, .flushA,
    .deliverAB 0, .deliverAB 1, .deliverAB 1, .recvB,
    .stepB 1000000000, .flushB, .deliverBA 0, .deliverBA 0,
    .sendA [4,4] 2 .persistent, .stepA 2000000000, .flushA,
    .stepA 3000000000, .flushA, .deliverAB 3, .recvB, .flushB, .deliverBA 1 ]

/-- The run exists and ends as described: four frames from `A` (19, 52, 18, 18 bytes), two from `B`;
`B.receive` returned the four payloads once each, in submission order per channel; five datagrams
reached `B`'s packet receiver (sequence ids 0, 0, 1, 2, 3); `A`'s packet sender was acknowledged with
`B`'s bases 3, 3, 4 (all recorded in `bases`) and its send window is empty again. -/
theorem C01_hc_example :
    (match runP CreditEx.exOps hcExPair hcExSched with
     | .ok h =>
       decide (h.outs = [[1,2,3], List.replicate 20 7, [9], [4,4]]) &&
       decide (h.wireAB.map List.length = [19, 52, 18, 18] ∧ h.wireBA.map List.length = [24, 24]) &&
       decide (h.fed.map (fun d => (d.sequenceId, d.data.length)) = [(0, 3), (0, 3), (1, 20), (2, 1), (3, 2)]) &&
       decide (h.acks = [3, 3, 4] ∧ h.advB = 4 ∧ h.bases = [(0, 0), (0, 0), (0, 0), (0, 0), (3, 3), (3, 3), (4, 4)]) &&
       decide (h.pend.map (fun p => (p.uid, p.sequenceId, p.channelId, p.data.length)) =
         [(0, 0, 0, 3), (1, 1, 1, 20), (2, 2, 0, 1), (3, 3, 2, 2)]) &&
       decide (h.sent.map (fun q => q.data.length) = [3, 20, 1, 2] ∧ h.A.ps.win.length = 0)
     | .error _ => false) = true := by decide +kernel

/-- The hypotheses of all theorems of this file hold for that run: the configurations satisfy
`PairCfg`, use the same initial packet id, `16 ≤ 2^16`, `16 = 2^4` with `4 ≤ 19`, equal allocation
limits, the run exists, and its schedule is `Guarded` (by the executable test). -/
theorem C01_hc_example_hyps :
    PairCfg CreditEx.exCfg CreditEx.exCfg ∧
    CreditEx.exCfg.txPacketBaseId = CreditEx.exCfg.rxPacketBaseId ∧
    CreditEx.exCfg.txPacketWindowSize ≤ 2^16 ∧ CreditEx.exCfg.rxPacketWindowSize = 2^4 ∧ (4 : Nat) ≤ 19 ∧
    allocCeil CreditEx.exCfg.txAllocLimit ≤ allocCeil CreditEx.exCfg.rxAllocLimit ∧
    Guarded CreditEx.exOps hcExPair hcExSched ∧
    ∃ h, runP CreditEx.exOps hcExPair hcExSched = .ok h := by
  refine ⟨by decide, by decide, by decide, by decide, by decide, Nat.le_refl _, ?_, ?_⟩
  · exact C01_hc_guarded_checker _ _ _ (by decide +kernel)
  · have h := C01_hc_example
    cases hr : runP CreditEx.exOps hcExPair hcExSched with
    | error t => rw [hr] at h; cases h
    | ok s => exact ⟨s, rfl⟩

/-- The hypotheses of `C01_hc_guarded_of_few` for that run: `GuardedR` holds and four packets were
emitted; `16 ≤ 2^19`. -/
example : GuardedR CreditEx.exOps hcExPair hcExSched ∧ CreditEx.exCfg.txPacketWindowSize ≤ 2^19 ∧
    (match runP CreditEx.exOps hcExPair hcExSched with
     | .ok h => decide (h.pend.length < 2^19)
     | .error _ => false) = true :=
  ⟨guardedR_of_guarded _ _ _ C01_hc_example_hyps.2.2.2.2.2.2.1, by decide, by decide +kernel⟩

/-- The hypotheses of `C01_hc_pend_is_emit_history` and `C01_hc_dispatch`: after the first three
steps of that run `flushA` succeeds and emits one packet, and `B` dispatches the emitted frame. -/
example :
    (match runP CreditEx.exOps hcExPair (hcExSched.take 3) with
     | .ok h =>
       (match stepP CreditEx.exOps h .flushA with
        | .ok h' =>
          decide (h'.pend.length = h.pend.length + 1) &&
          (match h'.wireAB[0]? with
           | some bytes => (match dispatch h'.B bytes with | .ok _ => true | .error _ => false)
           | none => false)
        | .error _ => false)
     | .error _ => false) = true := by decide +kernel

/-- The schedule of `C01_hc_resync_witness`: `A` sends an Unreliable packet whose only data frame
(frame 0) is lost; after the sync timeout `A.flush` emits a sync frame carrying `next_packet_id = 1`
(frame 1), which is delivered. -/
def hcResyncSched : List POp :=
  [.sendA [5] 0 .unreliable, .stepA 0, .stepB 0, .flushA, .stepA 5000000000, .flushA, .deliverAB 1]

/-- **A run with a window-moving sync frame is covered.** In the run `hcResyncSched` the delivery of
the sync frame makes `B`'s packet receiver move its window base from 0 to 1 (`advB = 1`) without any
`receive` — the `resync` step of `Sys`. No Reliable packet had been emitted when the sync frame was
built, so `SyncOkP` held and the frame was recorded (`syncs = [(1, 1)]`); its delivery satisfies
`FreshSync`, the schedule is `Guarded` (by the executable test), and the refinement theorem and its
consequences apply to this run. (Before `Sys` had the `sync` / `resync` steps this run was outside
`Guarded`.) -/
theorem C01_hc_resync_witness :
    (match runP CreditEx.exOps hcExPair hcResyncSched with
     | .ok h =>
       decide (h.wireAB.length = 2 ∧ h.advB = 1 ∧ h.outs = [] ∧ h.fed = [] ∧
         (h.wireAB[1]?.map decode) = some (some (.sync (some 1) (some 1))) ∧
         h.syncs = [(1, 1)] ∧ h.em.map (·.mode) = [.unreliable] ∧
         h.bases = [(0, 0), (1, 1)]) &&
       guardedB CreditEx.exOps hcExPair hcResyncSched
     | .error _ => false) = true := by decide +kernel

/-- The refinement applied to that run: it is matched by a run of `Sys` (which contains a `sync` and
a `resync` step) ending in a state related by `Rel`, in particular with `s.rcv.adv = 1` and an empty
log. -/
theorem C01_hc_resync_witness_refines :
    ∃ h sops s, runP CreditEx.exOps hcExPair hcResyncSched = .ok h ∧
      runS (initS 16 16 0 100000 100000) sops = .ok s ∧ Rel h s ∧ s.rcv.adv = 1 ∧
      s.rcv.log.filterMap LogE.data = [] := by
  have hw := C01_hc_resync_witness
  cases hr : runP CreditEx.exOps hcExPair hcResyncSched with
  | error t => rw [hr] at hw; cases hw
  | ok h =>
    rw [hr] at hw
    simp only [Bool.and_eq_true, decide_eq_true_eq] at hw
    obtain ⟨⟨_, hadv, houts, _⟩, hg⟩ := hw
    obtain ⟨sops, s, hs, hrel⟩ := C01_hc_refines_sys CreditEx.exOps CreditEx.exCfg CreditEx.exCfg 0 0 _ _
      C01_hc_example_hyps.1 C01_hc_example_hyps.2.1 hcResyncSched h
      (C01_hc_guarded_checker _ _ _ hg) hr
    exact ⟨h, sops, s, rfl, hs, hrel, by rw [hrel.adv, hadv], by rw [hrel.log, houts]⟩

/-! ## 6. Sync frames: the guard `SyncOkP` is discharged from the half connections -/

open Uflow.HcFrm Uflow.HcCov in
/-- **Frame-level acknowledgements are genuine** (the frame-layer analogue of `C01_hc_acks_genuine`).
For EVERY schedule (loss, duplication, reordering of frames in both directions, any interleaving), as
long as no frame id has been reused on the `A → B` wire (`IdsNodup`: the ids of the data frames of
`wireAB` are pairwise distinct — true while `A` has sent at most `2^32` data frames,
`C01_hc_ids_nodup`; `FrmCfg`: `A`'s frame window configuration as in `HcInv.CfgOk`): if fragment `fid` of a packet in `A`'s send window is
marked acknowledged (`fid ∈ w.packet.acked`, set only by `acknowledge_fragment` from
`handle_ack_frame`), then the fragment datagram `w.packet.datagram fid` was handed to `B`'s packet
receiver (`d ∈ fed`): a data frame carrying it was delivered to `B` and passed `B`'s frame window
test. `A` never believes a fragment delivered that `B`'s `handle_datagram` has not been called with. -/
theorem C01_hc_frame_acks_genuine (ops : FloatOps F) (cA cB : Config) (nowA nowB : Nat) (rngA rngB : Rng)
    (hc : PairCfg cA cB) (hfc : FrmCfg cA) (sched : List POp) (h : HcPair F)
    (hrun : runP ops (initP ops cA cB nowA nowB rngA rngB) sched = .ok h) (hn : IdsNodup h.wireAB) :
    ∀ w ∈ h.A.ps.win, ∀ fid ∈ w.packet.acked, ∃ d, w.packet.datagram fid = .ok d ∧ d ∈ h.fed :=
  (frmInv_run ops sched (pairInv_init ops cA cB nowA nowB rngA rngB hc.txA hc.txB hc.rxB hc.winB)
    (frmInv_init ops cA cB nowA nowB rngA rngB hfc hc.txA) hrun hn).snd.acked

open Uflow.HcFrm in
/-- **Frame ids are not reused while at most `2^32` data frames have been sent** — the hypothesis
`IdsNodup` of the theorems of this section is discharged. For EVERY schedule: the data frames on the
`A → B` wire carry consecutive frame ids modulo `2^32` (`DataFrameEmitter` starts a frame with
`FrameLog::next_id()` only if the frame window has room for it, and `finalize` then pushes the log entry, the
only place where `next_id()` changes); so if `A` has put at most `2^32` data frames on the wire
(`dataId` = the frame id of a byte string that parses as a data frame), their ids are pairwise
distinct. -/
theorem C01_hc_ids_nodup (ops : FloatOps F) (cA cB : Config) (nowA nowB : Nat) (rngA rngB : Rng)
    (hc : PairCfg cA cB) (hfc : FrmCfg cA) (sched : List POp) (h : HcPair F)
    (hrun : runP ops (initP ops cA cB nowA nowB rngA rngB) sched = .ok h)
    (hlen : (h.wireAB.filterMap dataId).length ≤ 2^32) : IdsNodup h.wireAB :=
  (frmInv_run_few ops sched (pairInv_init ops cA cB nowA nowB rngA rngB hc.txA hc.txB hc.rxB hc.winB)
    (frmInv_init ops cA cB nowA nowB rngA rngB hfc hc.txA) hrun hlen).nodup hlen

open Uflow.HcCov in
/-- **What an empty resend queue and pending queue mean** — the sender-side condition of
`emit_sync_frame` for `next_packet_id`. For EVERY schedule: if `A`'s resend queue and pending queue
are both empty, every fragment of every Reliable packet still in `A`'s send window is marked
acknowledged. (`em` = the emission history with send modes; the mode of the packet with identity `uid`
is `em[uid].mode`. An entry leaves the pending queue when its fragment is sent — and then enters the
resend queue if the packet is Persistent / Reliable —, is acknowledged, or its packet has left the
window; it leaves the resend queue only when its fragment is acknowledged or its packet has left the
window.) -/
theorem C01_hc_sender_idle (ops : FloatOps F) (cA cB : Config) (nowA nowB : Nat) (rngA rngB : Rng)
    (hc : PairCfg cA cB) (sched : List POp) (h : HcPair F)
    (hrun : runP ops (initP ops cA cB nowA nowB rngA rngB) sched = .ok h)
    (hres : h.A.resend.size = 0) (hpen : h.A.pending.length = 0) :
    ∀ w ∈ h.A.ps.win, ∀ x, h.em[w.packet.uid]? = some x → x.mode = .reliable →
      ∀ f, f ≤ w.packet.lastFragmentId → f ∈ w.packet.acked :=
  cv_idle (cv_run ops sched (pairInv_init ops cA cB nowA nowB rngA rngB hc.txA hc.txB hc.rxB hc.winB)
    (cv_init ops cA nowA rngA) hrun) hres hpen

open Uflow.HcFrm in
/-- The hypotheses of the results below: those of `C01_hc_no_skip` (`w ≤ 2^16`, receive window `2^k`,
`k ≤ 19`, same initial packet id), the send window not larger than the receive window (`w ≤ 2^k`; the
library uses the same constant for both — with `w > 2^k` `B` acknowledges frames whose datagrams its
packet receiver drops as outside the receive window, and `A` stops resending them), and `FrmCfg`. -/
structure SyncCfg (cA cB : Config) (k : Nat) : Prop where
  pc : PairCfg cA cB
  base : cA.txPacketBaseId = cB.rxPacketBaseId
  hw : cA.txPacketWindowSize ≤ 2^16
  hk : k ≤ 19
  hW : cB.rxPacketWindowSize = 2^k
  hwk : cA.txPacketWindowSize ≤ 2^k
  frm : FrmCfg cA

theorem SyncCfg.shyp {cA cB : Config} {k : Nat} (h : SyncCfg cA cB k) :
    SHyp cA.txPacketWindowSize k cA.txPacketBaseId := ⟨h.hw, h.hk, h.pc.txA, h.hwk⟩

open Uflow.HcFrm in
/-- **`SyncOkP` is discharged.** In every `Guarded` run that does not reuse frame ids — of any length:
the 20-bit packet ids may wrap any number of times —: whenever `A`'s resend queue and pending queue are empty — in particular whenever
`emit_sync_frame` puts `next_packet_id` into a sync frame — every Reliable packet `A` has emitted has
been completely received by `B` (`SyncOkP`: the receive window base has passed it, or its slot in `B`'s
receive window has the entry flag). Consequently every sync frame on the `A → B` wire that carries a
packet id is recorded in the ghost list `syncs` (second part), i.e. the condition "`A.flush` emitted it
while `SyncOkP` held" in `FreshSync` is always true and `FreshSync` is a pure freshness condition like
`FreshDg` / `FreshAck`. -/
theorem C01_hc_sync_ok (ops : FloatOps F) (cA cB : Config) (nowA nowB : Nat) (rngA rngB : Rng) (k : Nat)
    (hc : SyncCfg cA cB k) (sched : List POp) (h : HcPair F)
    (hg : Guarded ops (initP ops cA cB nowA nowB rngA rngB) sched)
    (hrun : runP ops (initP ops cA cB nowA nowB rngA rngB) sched = .ok h)
    (hn : IdsNodup h.wireAB) :
    (h.A.resend.size = 0 → h.A.pending.length = 0 → SyncOkP h) ∧
    ∀ bytes ∈ h.wireAB, ∀ nf id, decode bytes = some (.sync nf (some id)) → ∃ n, (n, id) ∈ h.syncs := by
  obtain ⟨sops, s, _, hF⟩ := full_run ops hc.shyp sched
    (full_init ops cA cB nowA nowB rngA rngB k hc.pc.txA hc.pc.txB hc.pc.rxB hc.base hc.hW hc.frm) hg hrun hn
  exact ⟨fun h1 h2 => full_syncOk hc.shyp hF.pi hF.cv hF.wu hF.rel hF.reach hF.gotA h1 h2, hF.sy⟩

open Uflow.HcFrm in
/-- **With fewer than `2^19` emitted packets NO schedule hypothesis is needed.** If the run emits
fewer than `2^19` packets and does not reuse frame ids, its schedule is `Guarded` — whatever the
network does (loss, duplication, reordering, delay of data, ack and sync frames): the freshness
clauses hold because the 20-bit ids cannot have wrapped (`C01_hc_guarded_of_few`), and every sync
frame with a packet id handed to `B` is a recorded one (`C01_hc_sync_ok`). So `C01_hc_refines_sys`,
`C01_hc_in_order`, `C01_hc_at_most_once`, `C01_hc_byte_exact`, `C02_hc_no_skip`, `C01_hc_delivery`
apply to EVERY such run, including those in which sync frames move `B`'s packet window. -/
theorem C01_hc_guarded_of_few_full (ops : FloatOps F) (cA cB : Config) (nowA nowB : Nat) (rngA rngB : Rng)
    (k : Nat) (hc : SyncCfg cA cB k) (sched : List POp) (h : HcPair F)
    (hrun : runP ops (initP ops cA cB nowA nowB rngA rngB) sched = .ok h)
    (hn : IdsNodup h.wireAB) (hfew : h.pend.length < 2^19) :
    Guarded ops (initP ops cA cB nowA nowB rngA rngB) sched :=
  (full_run_few ops hc.shyp sched
    (full_init ops cA cB nowA nowB rngA rngB k hc.pc.txA hc.pc.txB hc.pc.rxB hc.base hc.hW hc.frm) hrun hn hfew).1

open Uflow.HcFrm in
/-- **Delivery for every schedule of a short run**: the conclusions of `C01_hc_delivery` — in order
per channel, at most once, byte-exact, Reliable packets never skipped, for one common attribution of
the payloads returned by `B.receive` — without any hypothesis on the schedule, for runs that emit
fewer than `2^19` packets and do not reuse frame ids (`allocCeil a ≤ allocCeil m` as in
`C01_hc_byte_exact`). -/
theorem C01_hc_delivery_few (ops : FloatOps F) (cA cB : Config) (nowA nowB : Nat) (rngA rngB : Rng)
    (k : Nat) (hc : SyncCfg cA cB k) (ham : allocCeil cA.txAllocLimit ≤ allocCeil cB.rxAllocLimit)
    (sched : List POp) (h : HcPair F)
    (hrun : runP ops (initP ops cA cB nowA nowB rngA rngB) sched = .ok h)
    (hn : IdsNodup h.wireAB) (hfew : h.pend.length < 2^19) :
    ∃ (log : List LogE) (em : List Emitted),
      log.map LogE.data = h.outs.map some ∧
      (em.map Emitted.toQ).Sublist h.sent ∧
      (∀ c, ((log.filter (fun e => decide (e.chan = c))).filterMap LogE.data).Sublist
        ((h.sent.filter (fun q => decide (q.channelId = c))).map QEntry.data)) ∧
      log.Pairwise (fun x y => x.uid ≠ y.uid) ∧
      (∀ e ∈ log, ∃ x, em[e.uid]? = some x ∧ e.chan = x.channelId ∧ e.data = some x.data) ∧
      ∀ (l1 : List LogE) (e : LogE) (l2 : List LogE), log = l1 ++ e :: l2 →
        ∀ (j : Nat) (x : Emitted), em[j]? = some x → x.mode = .reliable → x.channelId = e.chan →
          j < e.uid → ∃ e' ∈ l1, e'.uid = j ∧ e'.chan = e.chan :=
  C01_hc_delivery ops cA cB nowA nowB rngA rngB hc.pc hc.base hc.hw k hc.hk hc.hW ham sched h
    (C01_hc_guarded_of_few_full ops cA cB nowA nowB rngA rngB k hc sched h hrun hn hfew) hrun

instance (wire : List (List Nat)) : Decidable (HcFrm.IdsNodup wire) := by
  unfold HcFrm.IdsNodup; infer_instance

/-- The hypotheses of section 6 hold for the two example runs: `SyncCfg` for the example configuration
(`16 ≤ 2^16`, `16 = 2^4`, frame window `16 + 16 < 2^31`), no frame id is reused (at most `2^32` data
frames), few packets. -/
theorem C01_hc_sync_example_hyps :
    SyncCfg CreditEx.exCfg CreditEx.exCfg 4 ∧
    (match runP CreditEx.exOps hcExPair hcExSched with
     | .ok h => decide (HcFrm.IdsNodup h.wireAB ∧ (h.wireAB.filterMap HcFrm.dataId).length ≤ 2^32 ∧
         h.pend.length < 2^19)
     | .error _ => false) = true ∧
    (match runP CreditEx.exOps hcExPair hcResyncSched with
     | .ok h => decide (HcFrm.IdsNodup h.wireAB ∧ h.pend.length < 2^19 ∧ h.A.resend.size = 0 ∧
         h.A.pending.length = 0 ∧ SyncOkP h)
     | .error _ => false) = true := by
  refine ⟨⟨C01_hc_example_hyps.1, by decide, by decide, by decide, by decide, by decide,
    ⟨by decide, by decide⟩⟩, by decide +kernel, by decide +kernel⟩

/-- A run in which a sync frame skips a lost Unreliable packet behind a delivered Reliable one. `A`
sends Reliable `[1]` (frame 0), delivered, returned by `B.receive`, acknowledged (`B`'s ack frame is
delivered to `A`: the fragment is marked acknowledged and the packet leaves the send window). `A` sends
Unreliable `[2]` (frame 1, LOST). Five seconds later `A.flush` finds its resend queue and pending queue
empty and emits a sync frame with `next_packet_id = 2` (frame 2); `SyncOkP` holds — the only Reliable
packet emitted so far has been passed by `B`'s window base — so `(2, 2)` is recorded in `syncs`. Its
delivery moves `B`'s window base from 1 to 2 without a `receive`. `A` then sends Reliable `[3]` (frame
3), which is delivered and returned. -/
def hcSyncSched : List POp :=
  [ .sendA [1] 0 .reliable, .stepA 0, .stepB 0, .flushA, .deliverAB 0, .recvB, .stepB 1000000000, .flushB,
    .deliverBA 0, .sendA [2] 0 .unreliable, .stepA 1000000000, .flushA,
    .stepA 6000000000, .flushA, .deliverAB 2,
    .sendA [3] 0 .reliable, .stepA 7000000000, .flushA, .deliverAB 3, .recvB ]

/-- The run exists and ends as described; its schedule is `Guarded`, no frame id is reused, so all
theorems of this file apply to it (`[2]` is never delivered; `[1]`, `[3]` are, in order). -/
theorem C01_hc_sync_example :
    (match runP CreditEx.exOps hcExPair hcSyncSched with
     | .ok h =>
       decide (h.outs = [[1], [3]] ∧ h.advB = 3 ∧ h.syncs = [(2, 2)] ∧
         h.bases = [(0, 0), (0, 0), (1, 1), (2, 2), (2, 2), (3, 3)] ∧
         h.em.map (·.mode) = [.reliable, .unreliable, .reliable] ∧
         (h.wireAB[2]?.map decode) = some (some (.sync (some 2) (some 2))) ∧
         HcFrm.IdsNodup h.wireAB ∧ h.pend.length < 2^19) &&
       guardedB CreditEx.exOps hcExPair hcSyncSched
     | .error _ => false) = true := by decide +kernel

end Uflow.Props.C01
