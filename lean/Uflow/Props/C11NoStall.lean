import Uflow.Lemmas.NoStallRun

/-!
# C11 (no stall) — credit is never the reason for a permanent stall

Composition of C11Credit ("the credit recovers for every step cadence") with C02Prog ("a flush with
credit transmits what is due").

Vocabulary (`Uflow/Lemmas/NoStall*.lean`, `Uflow/Lemmas/FlushProg*.lean`, `Uflow/Lemmas/CreditLive*.lean`):
* `DataIn dg out` — some frame of `out` is a data frame carrying the datagram `dg`;
* `AckPassed s` — the ack stage of `flush` returns `.cont` and leaves credit `≥ 0`;
* `ResendQuiet ps nowMs h` — the resend loop finds nothing: popping dead heads (packet gone from the
  send window or fragment acknowledged, `Skipped`) off the heap `h` it reaches the empty heap or a live
  head with `nowMs < resendTime`;
* `PendQuiet ps flushId l` — the pending loop finds nothing: popping dead heads off `l` it reaches the
  end, or fragment 0 of a TimeSensitive packet queued for another flush (which clears the list);
* `EmitNone ps flushId` — `PSend.emit` hands out no packet (`C02_emit_refuses`: queue empty after
  dropping stale entries, packet window full, or allocation limit);
* `Quiet s` — `ResendQuiet s.ps s.nowMs s.resend ∧ PendQuiet s.ps s.flushId s.pending ∧
  EmitNone s.ps s.flushId`: NO live sendable entry exists as far as the loops look;
* `Sendable s` (C02Prog) — a live due resend head, or a live pending head, or an emittable packet;
* `okFlushStates ops s evs` — the states in which a `flush` of the run is called with credit `≥ 0`;
  `someFlushOk ops s evs = true ↔ okFlushStates ops s evs ≠ []`;
* `runEvs` (C03) — the run returning all frames handed to the sink; `UidLt` — part of `HcInv`;
* `cadenceF dt t n` — `n` rounds of `step` (every `dt` ns) followed by `flush`.
-/

namespace Uflow.Props.C11

open Uflow Uflow.Gen Uflow.Codec Uflow.HalfConn Uflow.Credit Uflow.CreditBound Uflow.CreditLive
open Uflow.FlushProg Uflow.NoStall
open Uflow.Rate (FloatOps)
open Uflow.HcInv (lastNow runEvs evsOk)
open Uflow.PSend (UidLt)

variable {F : Type}

/-! ## 1. Why a flush is silent -/

/-- **Why a flush is silent.** A successful `flush` that emits no data frame is explained by one of:
1. credit: the ack stage ended the flush (`.stop`: it ran out of credit) or left credit `< 0`;
2. the frame window is full;
3. the data stage was `Quiet`: following the resend loop past dead entries, every entry it reaches
   is not yet due (or the queue runs empty); following the pending loop, every entry is dead or an
   expired TimeSensitive fragment 0; and `PSend.emit` hands out nothing (`C02_emit_refuses`).
(`UidLt`: identities in the send window are below `nextUid`, part of `HcInv`.) The three cases are
causes, `Sendable` excludes the third (`C02_sendable_not_quiet`). -/
theorem C02_flush_silent_cases (s s' : State F) (out : List (List Nat)) (hu : UidLt s.ps)
    (h : flush s = .ok (s', out)) (hsil : ∀ dg, ¬ DataIn dg out) :
    ((emitAckFrames s).2.2 = .stop ∨ (emitAckFrames s).1.flushAlloc < 0) ∨
    FrameQ.canPush s.fq = false ∨ Quiet s := by
  by_cases hack : AckPassed s
  · right
    cases hcp : FrameQ.canPush s.fq with
    | false => exact .inl rfl
    | true =>
      rcases flush_cases s s' out hack hcp hu h with ⟨dg, hd⟩ | hq
      · exact absurd hd (hsil dg)
      · exact .inr hq
  · left
    unfold AckPassed at hack
    cases hst : (emitAckFrames s).2.2 with
    | stop => exact .inl rfl
    | cont => exact .inr (by rw [hst] at hack; simp only [true_and] at hack; omega)

/-- `Sendable` (C02Prog) and `Quiet` exclude each other. -/
theorem C02_sendable_not_quiet (s : State F) (hw : Sendable s) : ¬ Quiet s :=
  sendable_not_quiet s hw

/-! ## 2. Credit is never the reason for a permanent stall -/

/-- **C11: no credit stall.** For every `ops` with `FillLo ops eps` (and the two assumptions under
which C03 shows that runs do not trap), every state with `HcInv`, `LInv` and credit `≥ −1472`,
every event list `evs` (steps, flushes, sends, receives, frames from the network, within `evsOk`)
whose `step`s span `T = endTime − lastNow s` with
`MINIMUM_RATE · T ≥ (1472 + 1)·10⁹ + nSteps·eps`, followed by one more `flush`:
* the run does not trap;
* some `flush` of it (one of `evs` or the final one) is called with credit `≥ 0`
  (`someFlushOk`, equivalently `okFlushStates ≠ []`) — credit is not the reason;
* a data frame is handed to the sink during the run, or at EVERY flush called with credit `≥ 0`
  one of these held: the ack stage consumed the credit (`¬ AckPassed`), the frame window was full,
  or nothing was sendable (`Quiet`, see `C02_flush_silent_cases`). -/
theorem C11_no_credit_stall (ops : FloatOps F) (hconv : Rate.BisectConverges ops)
    (hloss : HcInv.LossOk ops) {eps : Nat} (L : FillLo ops eps) (m : Nat)
    (hmin : MINIMUM_RATE ≤ m) (hR : m ≤ L.maxRate) (hinit : ∀ rtt, MINIMUM_RATE ≤ ops.initRate rtt)
    (evs : List Ev) (s : State F) (hinv : HcInv.HcInv s) (hi : LInv L m s)
    (hA : -(MAX_FRAME_SIZE : Int) ≤ s.flushAlloc)
    (hok : evsOk (lastNow s) (evs ++ [.flush]) = true)
    (ht : stepsOk L.maxDt (lastNow s) evs = true)
    (hT : (MAX_FRAME_SIZE + 1) * G + nSteps evs * eps ≤
      MINIMUM_RATE * (endTime (lastNow s) evs - lastNow s)) :
    ∃ s' outs, runEvs ops s (evs ++ [.flush]) = .ok (s', outs) ∧
      someFlushOk ops s (evs ++ [.flush]) = true ∧
      okFlushStates ops s (evs ++ [.flush]) ≠ [] ∧
      ((∃ dg, DataIn dg outs) ∨ ∀ sf ∈ okFlushStates ops s (evs ++ [.flush]),
        ¬ AckPassed sf ∨ FrameQ.canPush sf.fq = false ∨ Quiet sf) :=
  no_credit_stall ops hconv hloss L m hmin hR hinit evs s hinv hi hA hok ht hT

/-- **Corollary.** If moreover at every flush called with credit `≥ 0` the ack stage passes, the
frame window is open and something is `Sendable`, a data frame is transmitted during the run. -/
theorem C11_no_credit_stall_sends (ops : FloatOps F) (hconv : Rate.BisectConverges ops)
    (hloss : HcInv.LossOk ops) {eps : Nat} (L : FillLo ops eps) (m : Nat)
    (hmin : MINIMUM_RATE ≤ m) (hR : m ≤ L.maxRate) (hinit : ∀ rtt, MINIMUM_RATE ≤ ops.initRate rtt)
    (evs : List Ev) (s : State F) (hinv : HcInv.HcInv s) (hi : LInv L m s)
    (hA : -(MAX_FRAME_SIZE : Int) ≤ s.flushAlloc)
    (hok : evsOk (lastNow s) (evs ++ [.flush]) = true)
    (ht : stepsOk L.maxDt (lastNow s) evs = true)
    (hT : (MAX_FRAME_SIZE + 1) * G + nSteps evs * eps ≤
      MINIMUM_RATE * (endTime (lastNow s) evs - lastNow s))
    (hgood : ∀ sf ∈ okFlushStates ops s (evs ++ [.flush]),
      AckPassed sf ∧ FrameQ.canPush sf.fq = true ∧ Sendable sf) :
    ∃ s' outs, runEvs ops s (evs ++ [.flush]) = .ok (s', outs) ∧ ∃ dg, DataIn dg outs := by
  obtain ⟨s', outs, hr, _, hne, hd⟩ :=
    no_credit_stall ops hconv hloss L m hmin hR hinit evs s hinv hi hA hok ht hT
  refine ⟨s', outs, hr, ?_⟩
  rcases hd with hd | hall
  · exact hd
  · exfalso
    obtain ⟨sf, hsf⟩ := List.exists_mem_of_ne_nil _ hne
    obtain ⟨h1, h2, h3⟩ := hgood sf hsf
    rcases hall sf hsf with h | h | h
    · exact h h1
    · rw [h2] at h; cases h
    · exact sendable_not_quiet sf h3 h

/-- **Wall-clock form, exact arithmetic.** From `negState exactOps` (ceiling 1472 B/s, credit
`−1472`, one fragment waiting to be re-sent, one pending): `step` at ANY cadence `dt` with a `flush`
after every step, for `n · dt ≥ 64.05 s` (`23 · n · dt ≥ 1473·10⁹`), plus a final `flush`. If at every
flush that finds credit `≥ 0` nothing is owed to acks beyond the credit (`AckPassed`), the frame
window is open and something is `Sendable` (e.g. a due resend), then a data frame is transmitted
within that time — whatever `dt` and `n`. -/
theorem C11_exact_transmits_within (dt n : Nat)
    (hT : (MAX_FRAME_SIZE + 1) * G ≤ MINIMUM_RATE * (n * dt))
    (hgood : ∀ sf ∈ okFlushStates exactOps (negState exactOps) (cadenceF dt 0 n ++ [.flush]),
      AckPassed sf ∧ FrameQ.canPush sf.fq = true ∧ Sendable sf) :
    ∃ s' outs, runEvs exactOps (negState exactOps) (cadenceF dt 0 n ++ [.flush]) = .ok (s', outs) ∧
      ∃ dg, DataIn dg outs := by
  obtain ⟨hA, hl⟩ := negState_exact_facts
  refine C11_no_credit_stall_sends exactOps exactOps_converges exactOps_lossOk (exactFillLo 1472 dt)
    1472 (by decide) (Nat.le_refl _) exactOps_initRate (cadenceF dt 0 n) _
    (negState_hcInv exactOps exactOps_converges exactOps_lossOk) (negState_exact_linv dt)
    (by rw [hA]; decide) (by rw [hl]; exact cadenceF_evsOk dt 0 n _ (fun _ => rfl))
    (by rw [hl]; exact cadenceF_stepsOk dt dt 0 n (Nat.le_refl _)) ?_ hgood
  rw [hl, cadenceF_endTime, cadenceF_nSteps]
  generalize n * dt = X at hT ⊢
  simp only [G, MAX_FRAME_SIZE, MINIMUM_RATE] at hT ⊢
  omega

/-! ## 3. Non-vacuity -/

/-- Summary of a state at a flush: credit, sync reply owed (0/1), ack groups queued, frame window
open (0/1), `nowMs`, `resendTime` of the head of the resend queue (`-1` if empty). -/
def flushInfo (s : State Nat) : List Int :=
  [s.flushAlloc, if s.syncReply then 1 else 0, s.aq.entries.length,
    if FrameQ.canPush s.fq then 1 else 0, s.nowMs,
    match s.resend[0]? with
    | some r => r.resendTime
    | none => -1]

/-- A concrete run meeting the hypotheses of `C11_no_credit_stall` (`exactOps`, `negState`): steps
at 0.3 s and 65 s, a flush after each, and the final flush. The flush at 0.3 s finds credit `−1031`;
exactly one flush finds credit `≥ 0` (the one at 65 s: credit 0, nothing owed to acks, window open,
the resend entry of fragment 0 — due since 150 ms — at the head of the resend queue), and it
transmits one data frame of 1472 bytes. -/
example :
    let evs : List Ev := [.step 300000000, .flush, .step 65000000000, .flush]
    evsOk (lastNow (negState exactOps)) (evs ++ [.flush]) = true ∧
    stepsOk 65000000000 (lastNow (negState exactOps)) evs = true ∧
    (MAX_FRAME_SIZE + 1) * G + nSteps evs * 0 ≤
      MINIMUM_RATE * (endTime (lastNow (negState exactOps)) evs - lastNow (negState exactOps)) ∧
    (okFlushStates exactOps (negState exactOps) (evs ++ [.flush])).map flushInfo =
      [[0, 0, 0, 1, 65000, 150]] ∧
    (match runEvs exactOps (negState exactOps) (evs ++ [.flush]) with
     | .ok (_, outs) => outs.map List.length
     | .error _ => []) = [1472] := by
  intro evs
  refine ⟨by decide +kernel, by decide +kernel, by decide +kernel, by decide +kernel,
    by decide +kernel⟩

end Uflow.Props.C11
