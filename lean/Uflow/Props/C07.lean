import Uflow.Lemmas.EndpointServerExample

/-!
# C07 — connections only after a nonce-validated handshake (server half, and the agreement of the
two half-connection configurations)

Model: `Uflow/Model/Endpoint.lean`. Vocabulary from `Uflow/Lemmas/EndpointServer*.lean`:
`Server.WF` (global invariant, holds in every reachable state: `SRun.WF`), `NoConn l` (no `connect`
event in `l`), `EvNC l l'` (`l'` = `l` followed by `connect`-free events), `Server.activate` (state
after a matching handshake ACK), `Server.accept` / `Server.refuse` / `Server.full` /
`Server.drawNonce` / `Server.synAckBytes` / `Server.newEntry` (outcomes of `handleSyn`), `SRun`
(runs with logs). All theorems hold for every half-connection behaviour `hc`.
The client half of C07 is in the other agent's files.
-/

namespace Uflow.Props.C07

open Uflow.Endpoint Uflow.Codec Uflow.Gen Uflow.HalfConn

variable {H : Type}

/-- `u32` (the model of `.min(u32::MAX as usize) as u32`) fits 32 bits. -/
theorem C07_u32_lt (x : Nat) : u32 x < 2^32 := by
  unfold u32; omega

/-! ## C07_server_connect_sound -/

/-- **Frame level.** Processing one frame from `addr` either appends only `connect`-free events, or
the frame is `.hsAck na`, the entry of `addr` is `pending` with `localNonce = na`, the SYN-ACK stored
in (and resent from) that entry is the encoding of `.synAck remoteNonce na ..`, exactly the one
event `connect addr` is appended, nothing is sent and the entry of `addr` becomes `active` with the
half connection built from the handshake values (so a second ACK finds no pending entry). -/
theorem C07_server_connect_sound_frame (hc : HC H) (s s' : Server H) (hw : s.WF) (addr : Nat) (f : Frame)
    (nowMs nowNs : Nat) (sent : List (Nat × List Nat))
    (hr : s.handleFrame hc addr f nowMs nowNs = .ok (s', sent)) :
    EvNC s.eventsOut s'.eventsOut ∨
    ∃ c na rn rate alloc, f = .hsAck na ∧ s.find addr = some c ∧ na < 2^32 ∧
      c.state = .pending na rn rate alloc (encode (.synAck rn na (u32 s.cfg.ep.maxReceiveRate)
        (u32 s.cfg.ep.maxPacketSize) (u32 s.cfg.ep.maxReceiveAlloc))) ∧
      s' = s.activate hc c na rn rate alloc nowMs nowNs ∧
      s'.eventsOut = s.eventsOut ++ [SEvent.connect addr] ∧ sent = [] ∧
      s'.find addr = some { c with state := (.active (hc.new (hcConfig s.cfg.ep na rn rate alloc) nowNs)
        (nowMs + s.cfg.ep.activeTimeoutMs) none) } :=
  Server.handleFrame_connect hc hw addr f nowMs nowNs hr

/-- **Step level (C07_server_connect_sound).** Every `connect a` delivered by `Server.step` was
emitted while processing a datagram `(a, bytes)` of this step's arrivals that decodes to `.hsAck na`,
at a moment (`s1`, after the preceding arrivals) when the entry of `a` was `pending` with
`localNonce = na` and stored the SYN-ACK `encode (.synAck remoteNonce na ..)`; that datagram
activated the entry and sent nothing. -/
theorem C07_server_connect_sound (hc : HC H) (s : Server H) (hw : s.WF) (he : NoConn s.eventsOut) (nowNs : Nat)
    (arrivals : List (Nat × List Nat)) (s' : Server H) (sent : List (Nat × List Nat)) (evs : List SEvent)
    (hr : s.step hc nowNs arrivals = .ok (s', sent, evs)) (a : Nat) (hin : SEvent.connect a ∈ evs) :
    ∃ s0 sent0 pre bytes post s1 sent1 c na rn rate alloc,
      s.flushActive hc = .ok (s0, sent0) ∧
      arrivals = pre ++ (a, bytes) :: post ∧
      s0.handleFrames hc pre ((nowNs - s.timeBase) / 1000000) nowNs = .ok (s1, sent1) ∧ s1.WF ∧
      decode (bytes.take MAX_FRAME_SIZE) = some (.hsAck na) ∧ na < 2^32 ∧
      s1.find a = some c ∧
      c.state = .pending na rn rate alloc (encode (.synAck rn na (u32 s.cfg.ep.maxReceiveRate)
        (u32 s.cfg.ep.maxPacketSize) (u32 s.cfg.ep.maxReceiveAlloc))) ∧
      s1.handleFrames hc [(a, bytes)] ((nowNs - s.timeBase) / 1000000) nowNs =
        .ok (s1.activate hc c na rn rate alloc ((nowNs - s.timeBase) / 1000000) nowNs, []) :=
  Server.step_connect hc hw he nowNs arrivals hr a hin

/-- The hypotheses of `C07_server_connect_sound` hold in every state of every run. -/
theorem C07_server_reachable_ok (hc : HC H) (cfg : SrvConfig) (s : Server H) (rx tx : List (Nat × List Nat))
    (ev : List SEvent) (hr : SRun hc cfg s rx tx ev) : s.WF ∧ NoConn s.eventsOut := by
  refine ⟨hr.WF, ?_⟩
  rw [hr.eventsOut_nil]
  exact NoConn.nil

/-- No other phase of `step` and no API call emits `connect`. -/
theorem C07_server_no_connect_elsewhere (hc : HC H) (s : Server H) (hw : s.WF) :
    (∀ s' sent, s.flushActive hc = .ok (s', sent) → EvNC s.eventsOut s'.eventsOut) ∧
    (∀ fuel nowMs sent, EvNC s.eventsOut (Server.runTimers fuel s nowMs sent).1.eventsOut) ∧
    (∀ nowMs s', s.activeTimeouts hc nowMs = .ok s' → EvNC s.eventsOut s'.eventsOut) ∧
    EvNC s.eventsOut s.retain.eventsOut ∧
    (∀ nowMs nowNs s' sent, s.stepActive hc nowMs nowNs = .ok (s', sent) → EvNC s.eventsOut s'.eventsOut) ∧
    (∀ addr, EvNC s.eventsOut (s.drop addr).eventsOut) ∧
    (∀ addr m, EvNC s.eventsOut (s.disconnect addr m).eventsOut) ∧
    (∀ addr d ch m, EvNC s.eventsOut (s.send hc addr d ch m).eventsOut) :=
  ⟨fun _ _ h => (Server.flushActive_wq hc hw h).2.ev,
   fun fuel nowMs sent => (Server.runTimers_wq fuel hw nowMs sent).2.ev,
   fun nowMs _ h => (Server.activeTimeouts_wq hc hw nowMs h).2.ev,
   (Server.retain_wq hw).2.ev,
   fun nowMs nowNs _ _ h => (Server.stepActive_wq hc hw nowMs nowNs h).2.ev,
   fun addr => (Server.drop_wq hw addr).2.ev,
   fun addr m => (Server.disconnect_wq hw addr m).2.ev,
   fun addr d ch m => (Server.send_wq hc hw addr d ch m).2.ev⟩

/-- The nonce of a pending entry is the one drawn from the RNG by `handleSyn` for a SYN from that
address, and it is the `nonce` field of the SYN-ACK sent to that address: an accepted SYN creates
the entry `pending drawNonce synNonce ..` whose stored reply is exactly the datagram sent. -/
theorem C07_server_nonce_origin (s : Server H) (addr n r a nowMs : Nat) :
    (s.newEntry addr n r a).address = addr ∧
    (s.newEntry addr n r a).state = .pending s.drawNonce n r a (s.synAckBytes n) ∧
    s.drawNonce = s.rng.next.1 % 2^32 ∧
    s.synAckBytes n = encode (.synAck n s.drawNonce (u32 s.cfg.ep.maxReceiveRate) (u32 s.cfg.ep.maxPacketSize)
      (u32 s.cfg.ep.maxReceiveAlloc)) ∧
    decode ((s.synAckBytes n).take MAX_FRAME_SIZE) = (if n < 2^32 then some (.synAck n s.drawNonce
      (u32 s.cfg.ep.maxReceiveRate) (u32 s.cfg.ep.maxPacketSize) (u32 s.cfg.ep.maxReceiveAlloc))
      else decode ((s.synAckBytes n).take MAX_FRAME_SIZE)) ∧
    (s.accept addr n r a nowMs).clients = s.clients ++ [s.newEntry addr n r a] := by
  refine ⟨rfl, rfl, rfl, rfl, ?_, rfl⟩
  split
  · rename_i hn
    exact decode_synAck _ _ _ _ _ hn s.drawNonce_lt (u32_lt _) (u32_lt _) (u32_lt _)
  · rfl

/-- Pending entries are created only by an accepted SYN and never modified: after any frame, a
pending entry is an unmodified pending entry from before, or the frame was a SYN from its address
accepted just now (and the SYN-ACK with its nonce was sent to that address). -/
theorem C07_server_pending_origin (hc : HC H) (s s' : Server H) (hw : s.WF) (addr : Nat) (f : Frame)
    (nowMs nowNs : Nat) (sent : List (Nat × List Nat))
    (hr : s.handleFrame hc addr f nowMs nowNs = .ok (s', sent)) (c : RClient H) (hc' : c ∈ s'.clients)
    (hp : c.state.isPending = true) :
    c ∈ s.clients ∨
    ∃ v n r p a, f = .syn v n r p a ∧ v = PROTOCOL_VERSION ∧ s.find addr = none ∧ c = s.newEntry addr n r a ∧
      sent = [(addr, s.synAckBytes n)] := by
  obtain ⟨_, hq | ⟨v, n, r, p, a, h1, h2, h3, h4, h5⟩ | ⟨c0, na, rn, rate, alloc, reply, _, hf, hst, hs', _⟩⟩ :=
    Server.handleFrame_wq hc hw addr f nowMs nowNs hr
  · exact Or.inl (hq.pendSub c hc' hp)
  · subst h4
    rcases List.mem_append.1 hc' with hm | hm
    · exact Or.inl hm
    · have hce : c = s.newEntry addr n r a := by simpa using hm
      subst h1
      simp only [Server.handleFrame, Except.ok.injEq] at hr
      rcases s.handleSyn_cases addr v n r p a nowMs with ⟨⟨c1, hc1⟩, _⟩ | ⟨_, e, ev, he⟩ | ⟨_, hv, _, _, _, _⟩
      · rw [h2] at hc1; cases hc1
      · rw [he] at hr
        have := congrArg (fun x : Server H × List (Nat × List Nat) => x.2) hr
        simp only [h5] at this
        have h6 := congrArg List.length (congrArg (List.map (fun x : Nat × List Nat => x.2.length)) this)
        simp only [List.map_cons, List.map_nil, List.length_cons, List.length_nil] at h6
        have h7 := congrArg (fun l : List (Nat × List Nat) => l.map (fun x => x.2.length)) this
        simp only [List.map_cons, List.map_nil, errFrame, encode_hsError_length, Server.synAckBytes,
          encode_synAck_length] at h7
        cases h7
      · exact Or.inr ⟨v, n, r, p, a, rfl, hv, h2, hce, h5⟩
  · rw [hs'] at hc'
    exact Or.inl (Server.activate_pendSub hc hw (Server.find_some hf).1 na rn rate alloc nowMs nowNs c hc' hp)

/-- **Provenance along runs.** In every state of every run, a pending entry `pending ln rn r al reply`
of address `a` satisfies: `ln < 2^32`; `reply` is the encoding of `.synAck rn ln ..` (so `ln` is its
`nonce` field); that datagram was sent to `a`; and a datagram from `a` was received that decodes to a
SYN carrying `rn`, `r`, `al` — the SYN for which `handleSyn` drew `ln`. -/
theorem C07_server_nonce_provenance (hc : HC H) (cfg : SrvConfig) (s : Server H) (rx tx : List (Nat × List Nat))
    (ev : List SEvent) (hr : SRun hc cfg s rx tx ev) (c : RClient H) (hcm : c ∈ s.clients)
    (ln rn r al : Nat) (reply : List Nat) (hst : c.state = .pending ln rn r al reply) :
    ln < 2^32 ∧
    reply = encode (.synAck rn ln (u32 cfg.ep.maxReceiveRate) (u32 cfg.ep.maxPacketSize) (u32 cfg.ep.maxReceiveAlloc)) ∧
    (c.address, reply) ∈ tx ∧
    ∃ bytes v p, (c.address, bytes) ∈ rx ∧ decode (bytes.take MAX_FRAME_SIZE) = some (.syn v rn r p al) := by
  have hcfg := (SRun.inv hc cfg (fun s => s.cfg = cfg) (fun _ _ => rfl) (fun _ _ _ hp hq => hq.cfg.trans hp)
    (fun _ _ _ _ _ _ _ hp _ _ => hp) (fun _ _ _ _ _ _ _ _ _ _ _ hp _ _ => (Server.activate_cfg ..).trans hp)
    (fun _ _ hp => hp) hr).2
  obtain ⟨h1, h2⟩ := hr.WF.replyOk c hcm ln rn r al reply hst
  obtain ⟨h3, h4⟩ := hr.prov c hcm ln rn r al reply hst
  rw [hcfg] at h2
  exact ⟨h1, h2, h3, h4⟩

/-- At most one `connect` per entry: once activated, the entry is `active`, and every further
handshake ACK from that address (whatever its nonce) is a no-op. -/
theorem C07_server_connect_once (hc : HC H) (s : Server H) (hw : s.WF) (addr : Nat) (c : RClient H)
    (hfind : s.find addr = some c) (ln rn rate alloc nowMs nowNs na nowMs' nowNs' : Nat) :
    (s.activate hc c ln rn rate alloc nowMs nowNs).handleFrame hc addr (.hsAck na) nowMs' nowNs' =
      .ok (s.activate hc c ln rn rate alloc nowMs nowNs, []) := by
  obtain ⟨hcm, haddr⟩ := Server.find_some hfind
  have hf := hw.activate_find hc hcm ln rn rate alloc nowMs nowNs
  rw [haddr] at hf
  apply Server.handleFrame_hsAck_noop
  rintro ⟨c', _, _, _, _, hf', hst'⟩
  rw [hf] at hf'
  cases hf'
  cases hst'

/-! ## C07_forged_noop (server half) -/

/-- In every server state a frame from `a` that is (i) a SYN while `a` already has an entry (in
whatever state), (ii) a handshake ACK whose nonce is not the `localNonce` of a pending entry of `a`
(wrong nonce, entry not pending, or no entry), (iii) a SYN-ACK or a handshake error — leaves the
whole server state (entries, events, timers, RNG) unchanged and sends nothing. -/
theorem C07_forged_noop_server (hc : HC H) (s : Server H) (a nowMs nowNs : Nat) :
    (∀ c v n r p al, s.find a = some c → s.handleFrame hc a (.syn v n r p al) nowMs nowNs = .ok (s, [])) ∧
    (∀ na, (¬ ∃ c rn rate alloc reply, s.find a = some c ∧ c.state = .pending na rn rate alloc reply) →
      s.handleFrame hc a (.hsAck na) nowMs nowNs = .ok (s, [])) ∧
    (∀ na n r p al, s.handleFrame hc a (.synAck na n r p al) nowMs nowNs = .ok (s, [])) ∧
    (∀ na e, s.handleFrame hc a (.hsError na e) nowMs nowNs = .ok (s, [])) :=
  ⟨fun _ v n r p al hf => Server.handleFrame_syn_known hc hf v n r p al nowMs nowNs,
   fun na hno => Server.handleFrame_hsAck_noop hc s a na nowMs nowNs hno,
   fun _ _ _ _ _ => rfl, fun _ _ => rfl⟩

/-- Special cases of (ii), spelled out: wrong nonce for a pending entry; entry not pending. -/
theorem C07_forged_ack_cases (hc : HC H) (s : Server H) (a na nowMs nowNs : Nat) (c : RClient H)
    (hf : s.find a = some c) :
    (∀ ln rn rate alloc reply, c.state = .pending ln rn rate alloc reply → na ≠ ln →
      s.handleFrame hc a (.hsAck na) nowMs nowNs = .ok (s, [])) ∧
    (c.state.isPending = false → s.handleFrame hc a (.hsAck na) nowMs nowNs = .ok (s, [])) := by
  constructor
  · intro ln rn rate alloc reply hst hne
    apply Server.handleFrame_hsAck_noop
    rintro ⟨c', _, _, _, _, hf', hst'⟩
    rw [hf] at hf'; cases hf'
    rw [hst] at hst'; cases hst'
    exact hne rfl
  · intro hnp
    apply Server.handleFrame_hsAck_noop
    rintro ⟨c', _, _, _, _, hf', hst'⟩
    rw [hf] at hf'; cases hf'
    rw [hst'] at hnp; cases hnp

/-- The same for whole datagrams: a datagram that does not decode is ignored. -/
theorem C07_undecodable_noop (hc : HC H) (s : Server H) (a : Nat) (bytes : List Nat) (nowMs nowNs : Nat)
    (hd : decode (bytes.take MAX_FRAME_SIZE) = none) :
    s.handleFrames hc [(a, bytes)] nowMs nowNs = .ok (s, []) := by
  rw [Server.handleFrames_single, hd]

/-! ## C07_refusal (server half) -/

/-- A SYN from an address without an entry is refused with exactly one error frame echoing the SYN's
nonce, no entry is created (the map, detached objects, timers, `nextCid`, RNG are unchanged; at most
an `error` event is queued when `enable_handshake_errors`):
* wrong version ⇒ `hsError nonce version`;
* right version, server full ⇒ `hsError nonce serverFull`;
* right version, not full, `max_receive_alloc < server.max_packet_size` or
  `max_packet_size > server.max_receive_alloc` ⇒ `hsError nonce config`. -/
theorem C07_refusal_server (s : Server H) (addr v n r p a nowMs : Nat) (hf : s.find addr = none) :
    (v ≠ PROTOCOL_VERSION →
      s.handleSyn addr v n r p a nowMs = (s.refuse addr .version, [(addr, encode (.hsError n .version))])) ∧
    (v = PROTOCOL_VERSION → s.full →
      s.handleSyn addr v n r p a nowMs = (s.refuse addr .serverFull, [(addr, encode (.hsError n .serverFull))])) ∧
    (v = PROTOCOL_VERSION → ¬ s.full → (a < s.cfg.ep.maxPacketSize ∨ p > s.cfg.ep.maxReceiveAlloc) →
      s.handleSyn addr v n r p a nowMs = (s.refuse addr .config, [(addr, encode (.hsError n .config))])) ∧
    (∀ ev, (s.refuse addr ev).clients = s.clients ∧ (s.refuse addr ev).detached = s.detached ∧
      (s.refuse addr ev).timers = s.timers ∧ (s.refuse addr ev).nextCid = s.nextCid ∧
      (s.refuse addr ev).rng = s.rng ∧ (s.refuse addr ev).active = s.active ∧
      (s.refuse addr ev).find addr = none ∧
      (s.refuse addr ev).eventsOut =
        (if s.cfg.enableHandshakeErrors then s.eventsOut ++ [SEvent.error addr ev] else s.eventsOut)) := by
  refine ⟨fun hv => Server.handleSyn_version hf v n r p a nowMs hv, ?_, ?_, ?_⟩
  · intro hv hfull; subst hv; exact Server.handleSyn_full hf n r p a nowMs hfull
  · intro hv hfull hcfg; subst hv; exact Server.handleSyn_config hf n r p a nowMs hfull hcfg
  · intro ev; exact ⟨rfl, rfl, rfl, rfl, rfl, rfl, hf, rfl⟩

/-- Conversely a SYN is accepted only with the right version, room, and compatible sizes. -/
theorem C07_accept_only_if (s : Server H) (addr v n r p a nowMs : Nat)
    (hch : (s.handleSyn addr v n r p a nowMs).1.clients ≠ s.clients) :
    v = PROTOCOL_VERSION ∧ s.find addr = none ∧ ¬ s.full ∧ ¬ a < s.cfg.ep.maxPacketSize ∧
    ¬ p > s.cfg.ep.maxReceiveAlloc ∧
    s.handleSyn addr v n r p a nowMs = (s.accept addr n r a nowMs, [(addr, s.synAckBytes n)]) := by
  rcases s.handleSyn_cases addr v n r p a nowMs with ⟨_, he⟩ | ⟨_, e, ev, he⟩ | ⟨hf, hv, hfull, h1, h2, he⟩
  · rw [he] at hch; exact absurd rfl hch
  · rw [he] at hch; exact absurd rfl hch
  · exact ⟨hv, hf, hfull, h1, h2, he⟩

/-! ## C07_agreement -/

/-- **C07_agreement (configurations).** Let the client (endpoint configuration `cep`, nonce `nc`)
and the server (`sep`, nonce `ns`) derive their half-connection configurations from the values
carried by the handshake frames: the server from the SYN fields `(nc, u32 cep.maxReceiveRate,
u32 cep.maxReceiveAlloc)`, the client from the SYN-ACK fields `(ns, u32 sep.maxReceiveRate,
u32 sep.maxReceiveAlloc)`. Then frame and packet id bases are mirrored, each side's send allocation
limit is the other's (clamped) receive allocation, and each side's bandwidth limit is the minimum
of its own send rate and the other's receive rate. -/
theorem C07_agreement (cep sep : EpConfig) (nc ns : Nat) :
    let C := hcConfig cep nc ns (u32 sep.maxReceiveRate) (u32 sep.maxReceiveAlloc)
    let S := hcConfig sep ns nc (u32 cep.maxReceiveRate) (u32 cep.maxReceiveAlloc)
    C.txFrameBaseId = S.rxFrameBaseId ∧ C.rxFrameBaseId = S.txFrameBaseId ∧
    C.txPacketBaseId = S.rxPacketBaseId ∧ C.rxPacketBaseId = S.txPacketBaseId ∧
    C.txPacketBaseId = nc % PACKET_ID_SPAN ∧ S.txPacketBaseId = ns % PACKET_ID_SPAN ∧
    C.txFrameWindowSize = S.rxFrameWindowSize ∧ C.rxFrameWindowSize = S.txFrameWindowSize ∧
    C.txPacketWindowSize = S.rxPacketWindowSize ∧ C.rxPacketWindowSize = S.txPacketWindowSize ∧
    C.txAllocLimit = u32 sep.maxReceiveAlloc ∧ S.txAllocLimit = u32 cep.maxReceiveAlloc ∧
    C.txAllocLimit = u32 S.rxAllocLimit ∧ S.txAllocLimit = u32 C.rxAllocLimit ∧
    C.txAllocLimit ≤ S.rxAllocLimit ∧ S.txAllocLimit ≤ C.rxAllocLimit ∧
    C.txBandwidthLimit = min (cep.maxSendRate % 2^32) (u32 sep.maxReceiveRate) ∧
    S.txBandwidthLimit = min (sep.maxSendRate % 2^32) (u32 cep.maxReceiveRate) := by
  intro C S
  refine ⟨rfl, rfl, rfl, rfl, rfl, rfl, rfl, rfl, rfl, rfl, rfl, rfl, rfl, rfl, ?_, ?_, rfl, rfl⟩
  · show u32 sep.maxReceiveAlloc ≤ sep.maxReceiveAlloc
    unfold u32; omega
  · show u32 cep.maxReceiveAlloc ≤ cep.maxReceiveAlloc
    unfold u32; omega

/-- The handshake frames carry these values: encoding and decoding them (through the 1472-byte
receive buffer) gives them back, because nonces and `u32`-clamped fields are below `2^32`. -/
theorem C07_agreement_frames (cep sep : EpConfig) (nc ns : Nat) (hnc : nc < 2^32) (hns : ns < 2^32) :
    decode ((encode (.syn PROTOCOL_VERSION nc (u32 cep.maxReceiveRate) (u32 cep.maxPacketSize)
        (u32 cep.maxReceiveAlloc))).take MAX_FRAME_SIZE) =
      some (.syn PROTOCOL_VERSION nc (u32 cep.maxReceiveRate) (u32 cep.maxPacketSize) (u32 cep.maxReceiveAlloc)) ∧
    decode ((encode (.synAck nc ns (u32 sep.maxReceiveRate) (u32 sep.maxPacketSize)
        (u32 sep.maxReceiveAlloc))).take MAX_FRAME_SIZE) =
      some (.synAck nc ns (u32 sep.maxReceiveRate) (u32 sep.maxPacketSize) (u32 sep.maxReceiveAlloc)) ∧
    decode ((encode (.hsAck ns)).take MAX_FRAME_SIZE) = some (.hsAck ns) :=
  ⟨decode_syn _ _ _ _ _ (by decide) hnc (u32_lt _) (u32_lt _) (u32_lt _),
   decode_synAck _ _ _ _ _ hnc hns (u32_lt _) (u32_lt _) (u32_lt _),
   decode_hsAck _ hns⟩

/-- **C07_agreement (the loss-free exchange in the model).** A client `connect`s (drawing `nc`); its
SYN datagram reaches a well-formed server that has no entry for `addr`, is not full and whose size
checks pass; the server's reply reaches the client; the client's ACK reaches the server. Then:
1. the server accepts, creating `pending ns nc (u32 cep.maxReceiveRate) (u32 cep.maxReceiveAlloc)`
   with `ns = s.drawNonce`, and sends the SYN-ACK `s.synAckBytes nc` to `addr`;
2. the client, on that datagram, emits `connect`, becomes `active` with
   `hc.new (hcConfig cep nc ns (u32 sep.maxReceiveRate) (u32 sep.maxReceiveAlloc))` and sends `hsAck ns`;
3. the server, on that datagram, activates the entry with
   `hc.new (hcConfig sep ns nc (u32 cep.maxReceiveRate) (u32 cep.maxReceiveAlloc))` (see
   `Server.activate`) and emits `connect addr`;
and the two configurations agree in the sense of `C07_agreement`. -/
theorem C07_agreement_exchange {HS HK : Type} (hcS : HC HS) (hcK : HC HK) (cep : EpConfig) (nowK : Nat) (rngK : Rng)
    (s : Server HS) (hw : s.WF) (addr nowMs nowNs nowMsK nowNsK nowMs' nowNs' : Nat)
    (hf : s.find addr = none) (hfull : ¬ s.full)
    (h1 : ¬ u32 cep.maxReceiveAlloc < s.cfg.ep.maxPacketSize)
    (h2 : ¬ u32 cep.maxPacketSize > s.cfg.ep.maxReceiveAlloc) :
    let nc := rngK.next.1 % 2^32
    let ns := s.drawNonce
    let sep := s.cfg.ep
    let cl : Client HK := (Client.connect cep nowK rngK).1
    let s1 := s.accept addr nc (u32 cep.maxReceiveRate) (u32 cep.maxReceiveAlloc) nowMs
    ∃ synBytes ackBytes,
      (Client.connect cep nowK rngK : Client HK × List (List Nat)).2 = [synBytes] ∧
      s.handleFrames hcS [(addr, synBytes)] nowMs nowNs = .ok (s1, [(addr, s.synAckBytes nc)]) ∧
      decode ((s.synAckBytes nc).take MAX_FRAME_SIZE) =
        some (.synAck nc ns (u32 sep.maxReceiveRate) (u32 sep.maxPacketSize) (u32 sep.maxReceiveAlloc)) ∧
      cl.handleFrame hcK (.synAck nc ns (u32 sep.maxReceiveRate) (u32 sep.maxPacketSize) (u32 sep.maxReceiveAlloc))
          nowMsK nowNsK =
        .ok ({ cl with eventsOut := [CEvent.connect],
                       state := (.active nc (hcK.new (hcConfig cep nc ns (u32 sep.maxReceiveRate) (u32 sep.maxReceiveAlloc)) nowNsK)
                                 cep.activeTimeoutMs none) }, [ackBytes]) ∧
      s1.handleFrames hcS [(addr, ackBytes)] nowMs' nowNs' =
        .ok (s1.activate hcS (s.newEntry addr nc (u32 cep.maxReceiveRate) (u32 cep.maxReceiveAlloc)) ns nc
              (u32 cep.maxReceiveRate) (u32 cep.maxReceiveAlloc) nowMs' nowNs', []) ∧
      s1.cfg.ep = sep := by
  intro nc ns sep cl s1
  have hnc : nc < 2^32 := Nat.mod_lt _ (by decide)
  refine ⟨encode (.syn PROTOCOL_VERSION nc (u32 cep.maxReceiveRate) (u32 cep.maxPacketSize) (u32 cep.maxReceiveAlloc)),
    encode (.hsAck ns), rfl, ?_, ?_, ?_, ?_, rfl⟩
  · rw [Server.handleFrames_single,
      decode_syn _ _ _ _ _ (by decide) hnc (u32_lt _) (u32_lt _) (u32_lt _)]
    simp only [Server.handleFrame]
    rw [Server.handleSyn_accept hf _ _ _ _ _ hfull h1 h2]
  · exact decode_synAck _ _ _ _ _ hnc s.drawNonce_lt (u32_lt _) (u32_lt _) (u32_lt _)
  · simp only [cl, Client.connect, Client.handleFrame, List.foldl_nil, List.nil_append]
    rw [if_pos rfl]
  · rw [Server.handleFrames_single, decode_hsAck _ s.drawNonce_lt]
    exact hw.accept_then_ack hcS hf _ _ _ _ _ _

/-! ### non-vacuity -/

/-- a dummy half connection over `Unit` -/
def hc0 : HC Unit :=
  { new := fun _ _ => (), send := fun _ _ _ _ => (), dispatch := fun _ _ => .ok (), step := fun _ _ => .ok (),
    flush := fun _ r => .ok ((), r, []), receive := fun _ => .ok ((), []), isSendPending := fun _ => false,
    sendBufferSize := fun _ => 0 }

def ep0 : EpConfig :=
  { maxSendRate := 1000000, maxReceiveRate := 1000000, maxPacketSize := 1000, maxReceiveAlloc := 100000,
    keepalive := true, keepaliveIntervalMs := 1000, activeTimeoutMs := 15000 }

def cfg0 : SrvConfig := { maxTotalConnections := 4, maxActiveConnections := 2, enableHandshakeErrors := true, ep := ep0 }

def s0 : Server Unit := Server.init cfg0 0 ⟨[77], 1⟩

/-- a server with a pending entry for address 7 (nonce 77) and an active one for address 8 -/
def sP : Server Unit :=
  { s0 with
    clients := [{ cid := 0, address := 7, state := .pending 77 5 1000 100000
                    (encode (.synAck 5 77 (u32 ep0.maxReceiveRate) (u32 ep0.maxPacketSize) (u32 ep0.maxReceiveAlloc))) },
                { cid := 1, address := 8, state := .active () 15000 none }],
    nextCid := 2 }

example : (s0.WF) := Server.init_WF cfg0 0 ⟨[77], 1⟩

example : s0.find 7 = none ∧ ¬ s0.full ∧ ¬ u32 ep0.maxReceiveAlloc < s0.cfg.ep.maxPacketSize ∧
    ¬ u32 ep0.maxPacketSize > s0.cfg.ep.maxReceiveAlloc := by decide

/-- a SYN with a wrong version / from a known address / forged ACKs: hypotheses are satisfiable -/
example : sP.find 9 = none ∧ (2 : Nat) ≠ PROTOCOL_VERSION := by decide

example : ∃ c, sP.find 7 = some c ∧ ∃ ln rn rate alloc reply, c.state = .pending ln rn rate alloc reply ∧ (78 : Nat) ≠ ln :=
  ⟨_, rfl, _, _, _, _, _, rfl, by decide⟩

example : ∃ c, sP.find 8 = some c ∧ c.state.isPending = false := ⟨_, rfl, rfl⟩

example : ¬ ∃ c rn rate alloc reply, sP.find 9 = some c ∧ c.state = .pending 77 rn rate alloc reply := by
  rintro ⟨c, _, _, _, _, h, _⟩
  have : sP.find 9 = none := by decide
  rw [this] at h; cases h

/-- the matching ACK for the pending entry of `sP` emits exactly `connect 7` -/
example : (sP.handleHsAck hc0 7 77 10 10000000).eventsOut = [SEvent.connect 7] := by decide

/-- a concrete run (kernel-evaluated, `Uflow/Lemmas/EndpointServerExample.lean`): the hypotheses of
`C07_server_connect_sound` hold for the step that delivers `connect 7`, and the state before it has
a pending entry as in `C07_server_nonce_provenance`. -/
example : ∃ (s s' : Server Unit) (nowNs : Nat) (arrivals sent : List (Nat × List Nat)) (evs : List SEvent),
    s.WF ∧ NoConn s.eventsOut ∧ s.step Ex.hc0 nowNs arrivals = .ok (s', sent, evs) ∧ SEvent.connect 7 ∈ evs ∧
    (∃ rx tx ev, SRun Ex.hc0 Ex.cfg0 s rx tx ev ∧ s.clients.length = 1) := by
  obtain ⟨s1, s2, sent1, sent2, h1, h2, _, _, h5, _⟩ := Ex.run
  have r1 := SRun.op Ex.op1 (SRun.init (hc := Ex.hc0) (cfg := Ex.cfg0) 0 ⟨[77], 1⟩) h1
  exact ⟨s1, s2, 2000000, [(7, Ex.ackBytes)], sent2, [SEvent.connect 7], r1.WF,
    by rw [r1.eventsOut_nil]; exact NoConn.nil, h2, List.mem_cons_self, _, _, _, r1, h5⟩

end Uflow.Props.C07
