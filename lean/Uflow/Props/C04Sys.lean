import Uflow.Props.C01Sys
import Uflow.Props.C04

/-!
# C04Sys — fragmentation and reassembly, end to end, for whole packets

`Props/C04.lean` proves the pieces: slicing (`numFragments`, `fragmentRange`), the fragment buffer and
the assembly slot, each for every payload length. This file composes them through the system of
`Props/C01Sys.lean` (packet sender + fragment slicer + datagram network delivering any fragment any
number of times in any order + receiver with its reassembly window): whatever the payload length
(0 … any number of fragments) and whatever the network does with the fragments,

* a payload handed to the application is, byte for byte, the payload of the one packet emitted at that
  position, and that packet was cut into exactly `numFragments len` fragments (`C04_sys_whole_packet`);
* it is a payload the application submitted on that channel (`C04_sys_delivered_was_submitted`);
* every datagram the network can hand to the receiver is fragment `fid ≤ last` of a packet that was
  emitted — no other bytes can enter a reassembly (`C04_sys_fragments_genuine`);
* no emitted packet is handed over twice (`C04_sys_once`), so a packet is never delivered both
  complete and, again, from duplicated fragments.

These are corollaries of the C01Sys theorems, stated here in C04's vocabulary so that C04's check
re-proves them whenever slicer, sender or receiver model change.
-/

namespace Uflow.Props.C04Sys

open Uflow Uflow.Gen Uflow.Codec Uflow.PSend Uflow.PRecv Uflow.Frag Uflow.Sys Uflow.Props.C01Sys

/-- **Whole packets survive fragmentation and reassembly byte-exact, for every length.** In every run of
the composed system, if `receive` handed payload `x` to the application for the packet with unwrapped id
`e.uid`, then the sender emitted, at position `e.uid`, a packet with exactly the payload `x`, cut into
`numFragments x.length` fragments (ids `0 … numFragments x.length - 1`). -/
theorem C04_sys_whole_packet (w k b a m : Nat) (hw : w < 2^20) (hk : k ≤ 19) (hb : b < 2^20)
    (ops : List SOp) (s' : Sys) (h : runS (initS w (2^k) b a m) ops = .ok s') :
    ∀ e ∈ s'.rcv.log, ∀ x, e.data = some x →
      ∃ (em : Emitted) (p : Pending), s'.hist.emitted[e.uid]? = some em ∧ s'.pend[e.uid]? = some p ∧
        em.data = x ∧ p.data = x ∧ p.lastFragmentId = numFragments x.length - 1 := by
  intro e he x hx
  obtain ⟨em, hem, -, -, -, -, -, -, hdata⟩ := C01_sys_delivered_is_emitted w k b a m hw hk hb ops s' h e he
  obtain ⟨hlen, hpl, -⟩ := C01_sys_link w k b a m hw hk hb ops s' h
  have hlt : e.uid < s'.hist.emitted.length := by
    rcases Nat.lt_or_ge e.uid s'.hist.emitted.length with hl | hg
    · exact hl
    · rw [List.getElem?_eq_none hg] at hem; cases hem
  have hlt' : e.uid < s'.pend.length := by rw [hlen]; exact hlt
  have hp : s'.pend[e.uid]? = some s'.pend[e.uid] := List.getElem?_eq_getElem hlt'
  obtain ⟨-, -, hlast, e', he', -, hd', -⟩ := hpl e.uid _ hp
  have hee : e' = em := by rw [hem] at he'; exact (Option.some.inj he').symm
  have hxd : x = em.data := hdata x hx
  refine ⟨em, s'.pend[e.uid], hem, hp, hxd.symm, ?_, ?_⟩
  · rw [← hd', hee, hxd]
  · have : (s'.pend[e.uid]).data = x := by rw [← hd', hee, hxd]
    rw [← this]; exact hlast

/-- **What is delivered was submitted.** Every payload handed to the application is the payload of a
packet the application submitted (`enqueue_packet`) on the same channel. -/
theorem C04_sys_delivered_was_submitted (w k b a m : Nat) (hw : w < 2^20) (hk : k ≤ 19) (hb : b < 2^20)
    (ops : List SOp) (s' : Sys) (h : runS (initS w (2^k) b a m) ops = .ok s') :
    ∀ e ∈ s'.rcv.log, ∀ x, e.data = some x →
      ∃ q ∈ s'.hist.enqueued, q.data = x ∧ q.channelId = e.chan := by
  intro e he x hx
  have hsub := (C01_sys_in_order w k b a m hw hk hb ops s' h e.chan).subset
  have hmem : x ∈ (s'.rcv.log.filter (fun e' => decide (e'.chan = e.chan))).filterMap LogE.data :=
    List.mem_filterMap.mpr ⟨e, List.mem_filter.mpr ⟨he, by simp⟩, hx⟩
  obtain ⟨q, hq, hqd⟩ := List.mem_map.mp (hsub hmem)
  obtain ⟨hq1, hq2⟩ := List.mem_filter.mp hq
  exact ⟨q, hq1, hqd, by simpa using hq2⟩

/-- **Only genuine fragments travel.** Every datagram the network can hand to the receiver is
`p.datagram fid` for a packet `p` that was emitted (position `i`) and a fragment id within its fragment
count; the payload of `p` is the payload recorded for emission `i`. -/
theorem C04_sys_fragments_genuine (w k b a m : Nat) (hw : w < 2^20) (hk : k ≤ 19) (hb : b < 2^20)
    (ops : List SOp) (s' : Sys) (h : runS (initS w (2^k) b a m) ops = .ok s') :
    ∀ (i : Nat) (d : Datagram), (i, d) ∈ s'.net →
      ∃ (p : Pending) (fid : Nat) (em : Emitted), s'.pend[i]? = some p ∧ s'.hist.emitted[i]? = some em ∧
        em.data = p.data ∧ fid ≤ numFragments p.data.length - 1 ∧ p.datagram fid = .ok d := by
  intro i d hm
  obtain ⟨-, hpl, hnet, -⟩ := C01_sys_link w k b a m hw hk hb ops s' h
  obtain ⟨p, fid, hp, hfid, hd⟩ := hnet i d hm
  obtain ⟨-, -, hlast, em, hem, -, hdata, -⟩ := hpl i p hp
  exact ⟨p, fid, em, hp, hem, hdata, by rw [← hlast]; exact hfid, hd⟩

/-- **Reassembled exactly once.** No emitted packet appears twice in the delivery log, however often its
fragments are duplicated by the network. -/
theorem C04_sys_once (w k b a m : Nat) (hw : w < 2^20) (hk : k ≤ 19) (hb : b < 2^20)
    (ops : List SOp) (s' : Sys) (h : runS (initS w (2^k) b a m) ops = .ok s') :
    s'.rcv.log.Pairwise (fun x y => x.uid ≠ y.uid) :=
  C01_sys_at_most_once w k b a m hw hk hb ops s' h

end Uflow.Props.C04Sys
