import Uflow.Lemmas.EpPeerSrv2c

/-!
# C09 — the peer endpoint's part, server, per address: packets first, then Disconnect

Model: `Uflow.Endpoint`; every theorem holds for every half connection `hc : HC H`. Helper lemmas:
`Uflow/Lemmas/EpPeerSrv2*.lean` (isolation between addresses: `Server.handleFrame_other`, built on
`Server.handleFrame_LocalAt`; the C03 isolation theorems live in an import chain that defines a second
`SOp`/`Server.WF` and cannot be imported together with the C08 monitor).

Vocabulary: `fromAddr a arr` — the datagrams of `arr` that came from `a`; `trafficAt a arr` — the decoded
data/sync/ack frames among them, in arrival order; `hasDiscAt a arr` — one of them is a Disconnect frame;
`flushAll hc h rngs` — `hc.flush` applied once per generator of `rngs` (the server flushes every active client
with its shared generator: `rngs` are the values that generator had at the flush calls for this entry — exactly
one per occurrence of the entry on the `active` list); `dispatchAll`; `evsOf a evs` — the events of `evs` about
`a`; `s.phaseOf a` — the monitor phase of `a` (`idle`: no `active`/`closing` entry).
-/

namespace Uflow.Props.C09

open Uflow.Endpoint Uflow.Codec Uflow.Gen Uflow.HalfConn

variable {H : Type}

/-- `C09_peer_server_step_disconnect_drains` (whole `Server.step`, per address): the server is well-formed
with an empty event buffer, the entry of `a` is `active` with half connection `hh`, and the arrival list is
`pre ++ (a, b) :: post` where `b` decodes to Disconnect and no datagram from `a` in `pre` does (datagrams
from any other address are arbitrary, before and after). Then the events of that step about `a` are exactly
the packets returned by `hc.receive` applied to the half connection obtained from `hh` by the step's initial
flush of that entry and the dispatch, in arrival order, of exactly the data/sync/ack frames of `pre` that
came from `a` — as `receive a` events, in order — followed by `disconnect a`. Nothing about `a` follows in
that step (neither from `post`, nor from the timers, the active-timeout loop or `step_active_clients`); the
new state is well-formed with an empty buffer and `a` is `idle`. -/
theorem C09_peer_server_step_disconnect_drains (hc : HC H) (s s' : Server H) (hw : s.WF) (he : s.eventsOut = [])
    (nowNs a : Nat) (pre : List (Nat × List Nat)) (b : List Nat) (post sent : List (Nat × List Nat))
    (evs : List SEvent) (c : RClient H) (hh : H) (t : Nat) (sig : Option DisconnectMode)
    (hf : s.find a = some c) (hst : c.state = .active hh t sig)
    (hpre : hasDiscAt a pre = false) (hb : decodesTo b .disconnect)
    (h : s.step hc nowNs (pre ++ (a, b) :: post) = .ok (s', sent, evs)) :
    ∃ rngs h1 h2 h3 pkts, flushAll hc hh rngs = .ok h1 ∧ dispatchAll hc h1 (trafficAt a pre) = .ok h2 ∧
      hc.receive h2 = .ok (h3, pkts) ∧
      evsOf a evs = pkts.map (SEvent.receive a) ++ [SEvent.disconnect a] ∧
      s'.WF ∧ s'.eventsOut = [] ∧ s'.phaseOf a = .idle :=
  Server.step_disconnect_drains_at hc s s' hw he nowNs a pre b post sent evs c hh t sig hf hst hpre hb h

/-- … and in every later run the events about `a` (with the application's own `drop a`) are accepted by the
per-address monitor started `idle` (`C08_server_stream_general`): nothing but refused-attempt errors until a
new `connect a`, i.e. no `receive a` and no `disconnect a` until a new handshake. -/
theorem C09_peer_server_nothing_after_disconnect (hc : HC H) (s' s'' : Server H) (hw : s'.WF) (he : s'.eventsOut = [])
    (a : Nat) (hi : s'.phaseOf a = .idle) (ops : List SOp) (sent : List (Nat × List Nat)) (ls : List SLabel)
    (h : Server.run hc s' ops = .ok (s'', sent, ls)) :
    SPhase.runL .idle (lblOf a ls) = some (s''.phaseOf a) := by
  obtain ⟨-, -, -, -, h5⟩ := Server.run_monitor hc ops s' s'' hw he sent ls h
  rw [← hi]; exact h5 a

/-! ### Non-vacuity -/

/-- Two addresses interleaved in one step: 5 sends data, data, Disconnect (and one more data frame), 6 sends
data frames in between. 5 gets its two packets, then `disconnect 5`; 6 keeps receiving. -/
example : okAnd (Server.run rxHC exServerE
      [.step 1000000 [(5, exSyn), (6, exSyn)], .step 2000000 [(5, exHsAck), (6, encode (.hsAck 9))],
       .step 3000000 [(5, exData 9), (6, exData 20), (5, exData 10), (6, exData 21), (5, encode .disconnect),
                      (6, exData 22), (5, exData 11)],
       .step 4000000 [(5, exData 12), (6, exData 23)]])
    (fun r => decide (lblOf 5 r.2.2 = [SLabel.ev (.connect 5), .ev (.receive 5 [9]), .ev (.receive 5 [10]), .ev (.disconnect 5)] ∧
      lblOf 6 r.2.2 = [SLabel.ev (.connect 6), .ev (.receive 6 [20]), .ev (.receive 6 [21]), .ev (.receive 6 [22]),
        .ev (.receive 6 [23])])) = true := by
  decide +kernel

/-- Hypotheses of the step theorem: `hasDiscAt` / `trafficAt` on the interleaved arrival list. -/
example : hasDiscAt 5 [(5, exData 9), (6, encode .disconnect), (5, exData 10)] = false ∧
    trafficAt 5 [(5, exData 9), (6, exData 20), (5, exData 10)] = [.data 9 false [], .data 10 false []] := by
  refine ⟨by decide +kernel, by decide +kernel⟩

end Uflow.Props.C09
