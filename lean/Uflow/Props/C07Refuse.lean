import Uflow.Lemmas.EpRefuseFrame
import Uflow.Lemmas.EpRefuseCli
import Uflow.Lemmas.EpRefuseEx

/-!
# C07 — the refusal clauses: version / configuration mismatches and a full server

Model: `Uflow/Model/Endpoint.lean` (`Server.handleSyn` = `handle_handshake_syn`, `Server.handleHsAck` =
`handle_handshake_ack` of `src/server/mod.rs`; `Client.handleFrame` = `handle_frame` of `src/client/mod.rs`).
Every theorem holds for every half-connection behaviour `hc : HC H`, every datagram content and order
(loss, duplication, reordering and forgery are just different `arrivals` lists).

Vocabulary (`Uflow/Lemmas/EpRefuse*.lean`, `EpNoTrapRun.lean`):
* `runS hc s sops`: runs the API operations `sops : List SOp` (`step now arrivals`, `flush`, `drop`,
  `disconnect`, `send`) from state `s`; result: final state, all datagrams sent, all events delivered.
* `HandledIn hc s sops a bytes s1`: during that run the datagram `(a, bytes)` was handled by the
  datagram loop of one of the `step`s, in state `s1` (the state just before this datagram).
* `SynOkAt cfg s1 a bytes n r al`: `bytes` (truncated to the receive buffer) parses to
  `syn v n r p al` with `v = PROTOCOL_VERSION`, `cfg.ep.maxPacketSize ≤ al` (`al` = the SYN's
  `max_receive_alloc`), `p ≤ cfg.ep.maxReceiveAlloc` (`p` = the SYN's `max_packet_size`); and in `s1`:
  `s1.cfg = cfg`, `a` has no entry, `clients.length < maxTotalConnections`, `activeCount < maxActiveConnections`.
* `refusalOf s v p al : Option HsError`: the refusal reason, tests in the order of the code.
* `Room s`: neither limit reached. `NoPend s a`: no pending entry for `a`.
-/

namespace Uflow.Props.C07

open Uflow Uflow.Endpoint Uflow.Codec Uflow.Gen Uflow.HalfConn Uflow.EpNoTrap Uflow.EpRefuse

variable {H : Type}

/-! ## 1. a Connect implies a compatible, accepted SYN -/

/-- **C07_connect_implies_compatible.** Take any run `sops` of a server from `Server.init cfg now rng`
and any further operation `op` that delivers `Connect(a)`. Then `op` is a `step`; the event was emitted by
a datagram `(a, ackBytes)` of its arrivals that parses to a handshake ACK carrying the `localNonce = na` of
the pending entry `c` of `a` (state `sK`: after the flush phase and the datagrams `preA` before it); and
the SYN values `n r al` stored in that entry are those of a SYN datagram `(a, synBytes)` handled EARLIER
— during `sops`, or before the ACK in the same datagram loop — at a moment `s1` where it passed every
check of `handle_handshake_syn` against `cfg` (`SynOkAt`): right version, both `Config` checks, unknown
address, neither limit reached. So no Connect is possible for a wrong-version or incompatible SYN,
whatever is lost, replayed or sent by other clients, and whatever `enable_handshake_errors` is. -/
theorem C07_connect_implies_compatible (hc : HC H) (cfg : SrvConfig) (now : Nat) (rng : Rng) (sops : List SOp)
    (op : SOp) (s0 : Server H) (sent0 : List (Nat × List Nat)) (evs0 : List SEvent)
    (h0 : runS hc (Server.init cfg now rng) sops = .ok (s0, sent0, evs0))
    (s' : Server H) (sent : List (Nat × List Nat)) (evs : List SEvent)
    (h1 : s0.apply hc op = .ok (s', sent, evs)) (a : Nat) (hin : SEvent.connect a ∈ evs) :
    ∃ nowNs arrivals sA sentA preA ackBytes postA sK sentK c na n r al,
      op = .step nowNs arrivals ∧ s0.flushActive hc = .ok (sA, sentA) ∧
      arrivals = preA ++ (a, ackBytes) :: postA ∧
      sA.handleFrames hc preA ((nowNs - s0.timeBase) / 1000000) nowNs = .ok (sK, sentK) ∧
      decode (ackBytes.take MAX_FRAME_SIZE) = some (.hsAck na) ∧ sK.find a = some c ∧
      c.state = .pending na n r al (encode (.synAck n na (u32 cfg.ep.maxReceiveRate)
        (u32 cfg.ep.maxPacketSize) (u32 cfg.ep.maxReceiveAlloc))) ∧
      ∃ synBytes s1, SynOkAt cfg s1 a synBytes n r al ∧
        (HandledIn hc (Server.init cfg now rng) sops a synBytes s1 ∨
         ∃ pre1 post1 sent1, preA = pre1 ++ (a, synBytes) :: post1 ∧
           sA.handleFrames hc pre1 ((nowNs - s0.timeBase) / 1000000) nowNs = .ok (s1, sent1)) :=
  connect_compatible hc cfg now rng sops op h0 h1 a hin

/-- The same for a whole run: if the events of the run contain `Connect(a)`, a SYN from `a` passing
every check was handled during the run. -/
theorem C07_connect_implies_compatible_run (hc : HC H) (cfg : SrvConfig) (now : Nat) (rng : Rng) (sops : List SOp)
    (s' : Server H) (sent : List (Nat × List Nat)) (evs : List SEvent)
    (hr : runS hc (Server.init cfg now rng) sops = .ok (s', sent, evs)) (a : Nat) (hin : SEvent.connect a ∈ evs) :
    ∃ synBytes s1 n r al, HandledIn hc (Server.init cfg now rng) sops a synBytes s1 ∧
      SynOkAt cfg s1 a synBytes n r al :=
  connect_compatible_run hc cfg now rng sops hr a hin

/-- What `SynOkAt` says, spelled out; and handling that datagram creates the pending entry
`pending drawNonce n r al ..` and answers with the SYN-ACK. -/
theorem C07_synOkAt_spelled (hc : HC H) (cfg : SrvConfig) (s1 : Server H) (a : Nat) (bytes : List Nat) (n r al : Nat)
    (h : SynOkAt cfg s1 a bytes n r al) (nowMs nowNs : Nat) :
    (∃ v p, decode (bytes.take MAX_FRAME_SIZE) = some (.syn v n r p al) ∧ v = PROTOCOL_VERSION ∧
      cfg.ep.maxPacketSize ≤ al ∧ p ≤ cfg.ep.maxReceiveAlloc) ∧
    s1.cfg = cfg ∧ s1.find a = none ∧ s1.clients.length < cfg.maxTotalConnections ∧
    s1.activeCount < cfg.maxActiveConnections ∧
    s1.handleFrames hc [(a, bytes)] nowMs nowNs = .ok (s1.accept a n r al nowMs, [(a, s1.synAckBytes n)]) :=
  ⟨h.syn, h.cfgEq, h.unknown, h.total, h.active, h.handled hc nowMs nowNs⟩

/-! ## 2. the refusal itself -/

/-- `refusalOf` is `none` exactly when every check passes. -/
theorem C07_refusalOf_none_iff (s : Server H) (v p al : Nat) :
    refusalOf s v p al = none ↔
      v = PROTOCOL_VERSION ∧ Room s ∧ s.cfg.ep.maxPacketSize ≤ al ∧ p ≤ s.cfg.ep.maxReceiveAlloc :=
  refusalOf_none_iff s v p al

/-- **C07_refusal_frame.** Whenever `handle_handshake_syn` refuses a SYN from an address without an
entry (reason `e = refusalOf ..`: `version` if the version differs; else `serverFull` if a limit is
reached; else `config` if `max_receive_alloc < server.max_packet_size` or `max_packet_size >
server.max_receive_alloc`): exactly one datagram is sent, to that address; it parses to
`hsError nonce e` echoing the SYN's nonce with that error code (so it is not a SYN-ACK); no entry is
created, no timer, no nonce drawn, nothing else changes; the only difference `enable_handshake_errors`
makes is the queued event `Error(addr, e)`. -/
theorem C07_refusal_frame (s : Server H) (addr v n r p al nowMs : Nat) (hf : s.find addr = none) (e : HsError)
    (he : refusalOf s v p al = some e) :
    ∃ bytes, (s.handleSyn addr v n r p al nowMs).2 = [(addr, bytes)] ∧ bytes = errFrame n e ∧
      decode (bytes.take MAX_FRAME_SIZE) = some (.hsError (n % 2^32) e) ∧
      (s.handleSyn addr v n r p al nowMs).1.clients = s.clients ∧
      (s.handleSyn addr v n r p al nowMs).1.find addr = none ∧
      (s.handleSyn addr v n r p al nowMs).1.detached = s.detached ∧
      (s.handleSyn addr v n r p al nowMs).1.active = s.active ∧
      (s.handleSyn addr v n r p al nowMs).1.timers = s.timers ∧
      (s.handleSyn addr v n r p al nowMs).1.nextCid = s.nextCid ∧
      (s.handleSyn addr v n r p al nowMs).1.rng = s.rng ∧
      (s.handleSyn addr v n r p al nowMs).1.cfg = s.cfg ∧
      (s.handleSyn addr v n r p al nowMs).1.eventsOut =
        (if s.cfg.enableHandshakeErrors then s.eventsOut ++ [SEvent.error addr (errOfHs e)] else s.eventsOut) := by
  rw [handleSyn_refusal s addr v n r p al nowMs hf e he]
  exact ⟨_, rfl, rfl, decode_errFrame n e, rfl, hf, rfl, rfl, rfl, rfl, rfl, rfl, rfl⟩

/-- The three reasons, read off `refusalOf`. -/
theorem C07_refusal_reasons (s : Server H) (v p al : Nat) :
    (v ≠ PROTOCOL_VERSION → refusalOf s v p al = some .version) ∧
    (v = PROTOCOL_VERSION → ¬ Room s → refusalOf s v p al = some .serverFull) ∧
    (v = PROTOCOL_VERSION → Room s → (al < s.cfg.ep.maxPacketSize ∨ p > s.cfg.ep.maxReceiveAlloc) →
      refusalOf s v p al = some .config) ∧
    errOfHs .version = .version ∧ errOfHs .serverFull = .serverFull ∧ errOfHs .config = .config := by
  refine ⟨?_, ?_, ?_, rfl, rfl, rfl⟩
  · intro hv; unfold refusalOf; rw [if_pos hv]
  · intro hv hroom; unfold refusalOf; rw [if_neg (by simpa using hv), if_pos (by unfold Room at hroom; omega)]
  · intro hv hroom hc; unfold refusalOf
    rw [if_neg (by simpa using hv), if_neg (by unfold Room at hroom; omega), if_pos hc]

/-! ## 3. a refused address stays unknown -/

/-- **C07_refused_stays_unknown.** After a refused SYN from an address without an entry, the address
still has no entry, and a handshake ACK from it with ANY nonce does nothing: `handle_handshake_ack`
is the identity (no Connect, no state change, nothing sent). -/
theorem C07_refused_stays_unknown (hc : HC H) (s : Server H) (addr v n r p al nowMs : Nat) (hf : s.find addr = none)
    (e : HsError) (he : refusalOf s v p al = some e) (na nowMs' nowNs' : Nat) :
    (s.handleSyn addr v n r p al nowMs).1.find addr = none ∧
    (s.handleSyn addr v n r p al nowMs).1.handleHsAck hc addr na nowMs' nowNs' = (s.handleSyn addr v n r p al nowMs).1 ∧
    (s.handleSyn addr v n r p al nowMs).1.handleFrame hc addr (.hsAck na) nowMs' nowNs' =
      .ok ((s.handleSyn addr v n r p al nowMs).1, []) := by
  rw [handleSyn_refusal s addr v n r p al nowMs hf e he]
  have hf' : (s.refuse addr (errOfHs e)).find addr = none := hf
  have hnp := NoPend.of_find_none hf'
  refine ⟨hf', hnp.hsAck_noop hc na nowMs' nowNs', ?_⟩
  simp only [Server.handleFrame, hnp.hsAck_noop hc na nowMs' nowNs']

/-- **… until a later accepted SYN.** In a well-formed state without a pending entry for `a` (in
particular after a refusal), any frame from any address `b` either leaves `a` without a pending entry
and emits no `Connect(a)`, or it is a SYN from `a` itself that passes every check (right version,
room, both `Config` checks) and creates the entry. By `NoPend.hsAck_noop` every handshake ACK from `a`
is the identity as long as `NoPend` holds. -/
theorem C07_unknown_until_accepted_syn (hc : HC H) (s : Server H) (hw : s.WF) (a : Nat) (h : NoPend s a) (b : Nat)
    (f : Frame) (nowMs nowNs : Nat) (s' : Server H) (sent : List (Nat × List Nat))
    (hr : s.handleFrame hc b f nowMs nowNs = .ok (s', sent)) :
    (s'.WF ∧ NoPend s' a ∧ (SEvent.connect a ∈ s'.eventsOut → SEvent.connect a ∈ s.eventsOut) ∧
      ∀ na t1 t2, s'.handleHsAck hc a na t1 t2 = s') ∨
    (b = a ∧ ∃ n r p al, f = .syn PROTOCOL_VERSION n r p al ∧ s.find a = none ∧ Room s ∧
      s.cfg.ep.maxPacketSize ≤ al ∧ p ≤ s.cfg.ep.maxReceiveAlloc ∧ s' = s.accept a n r al nowMs) := by
  rcases h.frame hc hw b f nowMs nowNs hr with ⟨h1, h2⟩ | h3
  · exact Or.inl ⟨(Server.handleFrame_wq hc hw b f nowMs nowNs hr).1, h1, h2, fun na t1 t2 => h1.hsAck_noop hc na t1 t2⟩
  · exact Or.inr h3

/-! ## 4. client side -/

/-- **C07_client_error_only_for_own_nonce (frame level).** If `handle_frame` of the client adds an
`Error(e)` event, then the client was `Pending` with nonce `ln` (the nonce of its SYN), the frame is
`hsError ln he` echoing exactly that nonce, `e` is the matching error type, nothing is sent, and the
client is `Fin` afterwards. (The converse is `C07Client.C07_client_refusal`; `Error(Timeout)` comes only
from `handle_events`.) -/
theorem C07_client_error_only_for_own_nonce (hc : HC H) (c c' : Client H) (f : Frame) (nowMs nowNs : Nat)
    (out : List (List Nat)) (h : c.handleFrame hc f nowMs nowNs = .ok (c', out)) (e : ErrorType)
    (hm : CEvent.error e ∈ c'.eventsOut) (hn : CEvent.error e ∉ c.eventsOut) :
    ∃ ln req rt rc sends he, c.state = .pending ln req rt rc sends ∧ f = .hsError ln he ∧ e = errOfHs he ∧
      c' = { c with eventsOut := c.eventsOut ++ [CEvent.error e], state := .fin } ∧ out = [] :=
  cli_error_frame hc c c' f nowMs nowNs out h e hm hn

/-- Datagram level: an `Error(e)` that appears while the client handles the datagrams of a step was
caused by a datagram parsing to `hsError ln he` with `ln` the nonce of the still pending client;
the datagrams before it changed nothing. -/
theorem C07_client_error_only_for_own_nonce_datagrams (hc : HC H) (c c2 : Client H) (nowMs nowNs : Nat)
    (arrivals s2 : List (List Nat)) (h : c.arrivalsPhase hc nowMs nowNs arrivals = .ok (c2, s2)) (e : ErrorType)
    (hm : CEvent.error e ∈ c2.eventsOut) (hn : CEvent.error e ∉ c.eventsOut) :
    ∃ pre b post ln req rt rc sends he, arrivals = pre ++ b :: post ∧
      c.arrivalsPhase hc nowMs nowNs pre = .ok (c, []) ∧
      c.state = .pending ln req rt rc sends ∧ decodesTo b (.hsError ln he) ∧ e = errOfHs he :=
  cli_error_arrivals hc c c2 nowMs nowNs arrivals s2 h e hm hn

/-- Run level: a client created by `Client::connect` that reports `Error(Version / Config / ServerFull)`
reports nothing else in its whole life — no `Connect` before or after —, is `Fin`, and whatever
operations follow deliver no event and send nothing. -/
theorem C07_client_error_then_never_connects (hc : HC H) (ep : EpConfig) (now : Nat) (rng : Rng) (ops : List COp)
    (c' : Client H) (sent : List (List Nat)) (evs : List CEvent)
    (h : Client.run hc (Client.connect ep now rng).1 ops = .ok (c', sent, evs))
    (e : ErrorType) (hne : e ≠ .timeout) (hm : CEvent.error e ∈ evs) :
    evs = [CEvent.error e] ∧ CEvent.connect ∉ evs ∧ (∃ he, e = errOfHs he) ∧ c'.state = .fin ∧
    ∀ ops2 c'' sent2 evs2, Client.run hc c' ops2 = .ok (c'', sent2, evs2) →
      evs2 = [] ∧ sent2 = [] ∧ c''.state = .fin :=
  cli_error_run hc ep now rng ops c' sent evs h e hne hm

/-! ## 5. non-vacuity -/

namespace RefuseEx

open Uflow.Endpoint.Ex Uflow.EpRefuse.Ex

/-- `runS` over a concatenation. -/
theorem runS_append (hc : HC H) (l1 l2 : List SOp) (s s1 s2 : Server H) (sent1 sent2 : List (Nat × List Nat))
    (evs1 evs2 : List SEvent) (h1 : runS hc s l1 = .ok (s1, sent1, evs1)) (h2 : runS hc s1 l2 = .ok (s2, sent2, evs2)) :
    runS hc s (l1 ++ l2) = .ok (s2, sent1 ++ sent2, evs1 ++ evs2) := by
  induction l1 generalizing s sent1 evs1 with
  | nil =>
    simp only [runS, Except.ok.injEq, Prod.mk.injEq] at h1
    obtain ⟨rfl, rfl, rfl⟩ := h1
    simpa using h2
  | cons op rest ih =>
    simp only [runS] at h1
    split at h1
    · cases h1
    · rename_i sa senta evsa hap
      split at h1
      · cases h1
      · rename_i sb sentb evsb hrest
        simp only [Except.ok.injEq, Prod.mk.injEq] at h1
        obtain ⟨rfl, rfl, rfl⟩ := h1
        simp only [List.cons_append, runS, hap, ih sa sentb evsb hrest, List.append_assoc]

/-- The kernel-evaluated run of `Uflow/Lemmas/EpRefuseEx.lean` (`enable_handshake_errors = false`): the
incompatible SYN (`max_packet_size` 200000 > server `max_receive_alloc` 100000) is answered by exactly
one `config` error frame, no entry, no event; the stray ACKs (with the nonce 77 the server would draw,
and with the client's nonce) give no Connect; the later compatible SYN + ACK give `Connect(7)`. -/
theorem refused_run :
    ∃ s sent s' sent', runS hc0 sD opsBad = .ok (s, sent, []) ∧ s.clients.length = 0 ∧
      sent = [(7, errFrame 5 .config)] ∧ runS hc0 s opsRest = .ok (s', sent', [SEvent.connect 7]) := by
  have h := Uflow.EpRefuse.Ex.chk_true
  unfold Uflow.EpRefuse.Ex.chk at h
  split at h
  · rename_i s sent evs hr
    simp only [Bool.and_eq_true, beq_iff_eq] at h
    obtain ⟨⟨⟨rfl, h2⟩, h3⟩, h4⟩ := h
    split at h4
    · rename_i s' sent' evs2 hr2
      have : evs2 = [SEvent.connect 7] := by simpa using h4
      subst this
      exact ⟨s, sent, s', sent', hr, h2, h3, hr2⟩
    · cases h4
  · cases h

/-- The hypotheses of `C07_connect_implies_compatible_run` are satisfiable with
`enable_handshake_errors = false` and an incompatible SYN in the run: the theorem covers the default
configuration (the Connect stems from the later compatible SYN). -/
example : ∃ s' sent evs, runS hc0 (Server.init cfgD 0 ⟨[77], 1⟩) (opsBad ++ opsRest) = .ok (s', sent, evs) ∧
    SEvent.connect 7 ∈ evs ∧ cfgD.enableHandshakeErrors = false ∧
    (7, synBad) ∈ ((opsBad ++ opsRest).map SOp.arrivals).flatten ∧
    decode (synBad.take MAX_FRAME_SIZE) = some (.syn PROTOCOL_VERSION 5 1000000 200000 100000) ∧
    200000 > cfgD.ep.maxReceiveAlloc := by
  obtain ⟨s, sent, s', sent', h1, _, _, h2⟩ := refused_run
  refine ⟨s', _, _, runS_append hc0 _ _ _ _ _ _ _ _ _ h1 h2, by simp, rfl, by simp [opsBad, SOp.arrivals], ?_, by decide⟩
  exact decode_syn _ _ _ _ _ (by decide) (by decide) (by decide) (by decide) (by decide)

/-- … and those of `C07_connect_implies_compatible` (last-operation form). -/
example : ∃ sops op s0 sent0 evs0 s' sent evs, runS hc0 (Server.init cfgD 0 ⟨[77], 1⟩) sops = .ok (s0, sent0, evs0) ∧
    s0.apply hc0 op = .ok (s', sent, evs) ∧ SEvent.connect 7 ∈ evs := by
  obtain ⟨s, sent, s', sent', h1, _, _, h2⟩ := refused_run
  obtain ⟨sops1, op, sops2, s0, sent0, evs0, sx, sentx, evsx, _, e2, e3, e4⟩ :=
    runS_event_split hc0 _ (runS_append hc0 _ _ _ _ _ _ _ _ _ h1 h2) (SEvent.connect 7) (by simp)
  exact ⟨sops1, op, s0, sent0, evs0, sx, sentx, evsx, e2, e3, e4⟩

/-- Frame level (no datagram parsing): the incompatible SYN is refused, replayed and refused again
with the same single error frame; then handshake ACKs with any of these nonces change nothing. -/
example :
    (sD.handleSyn 7 PROTOCOL_VERSION 5 1000000 200000 100000 1).2 = [(7, errFrame 5 .config)] ∧
    ((sD.handleSyn 7 PROTOCOL_VERSION 5 1000000 200000 100000 1).1.handleSyn 7 PROTOCOL_VERSION 5 1000000 200000 100000 2).2
      = [(7, errFrame 5 .config)] ∧
    (((sD.handleSyn 7 PROTOCOL_VERSION 5 1000000 200000 100000 1).1.handleHsAck hc0 7 77 3 3000000).handleHsAck hc0 7 5 3 3000000).eventsOut = [] ∧
    (((sD.handleSyn 7 PROTOCOL_VERSION 5 1000000 200000 100000 1).1.handleHsAck hc0 7 77 3 3000000).handleHsAck hc0 7 5 3 3000000).clients.length = 0 := by
  decide +kernel

/-- `C07_refusal_frame` / `C07_refused_stays_unknown`: the hypotheses hold in the initial state for
each of the three reasons (a full server: limit 0). -/
example : sD.find 7 = none ∧ refusalOf sD PROTOCOL_VERSION 200000 100000 = some .config ∧
    refusalOf sD 1 1000 100000 = some .version ∧
    refusalOf (Server.init { cfgD with maxTotalConnections := 0 } 0 ⟨[77], 1⟩ : Server Unit) PROTOCOL_VERSION 1000 100000
      = some .serverFull ∧
    refusalOf sD PROTOCOL_VERSION 1000 100000 = none := by decide +kernel

/-- `C07_unknown_until_accepted_syn`: hypotheses. -/
example : sD.WF ∧ NoPend sD 7 := ⟨Server.init_WF _ _ _, NoPend.of_find_none rfl⟩

/-- `C07_client_error_only_for_own_nonce` / `_then_never_connects`: the example client (nonce 7) is refused. -/
example : ∃ c' out, exClient.handleFrame trivHC (.hsError 7 .config) 1 1000000 = .ok (c', out) ∧
    CEvent.error .config ∈ c'.eventsOut ∧ CEvent.error .config ∉ exClient.eventsOut :=
  ⟨_, _, rfl, by simp [errOfHs], by simp [exClient, Client.connect]⟩

example : okAnd (Client.run trivHC (Client.connect exEp 0 exRng).1 [.step 1000000 [errFrame 7 .config]])
    (fun r => decide (CEvent.error .config ∈ r.2.2)) = true := by decide +kernel

end RefuseEx

end Uflow.Props.C07
