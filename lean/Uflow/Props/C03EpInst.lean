import Uflow.Driver.EpMode
import Uflow.Lemmas.EpNoTrapHc

/-!
# C03 (endpoints) — the half connection of the executable driver is the one the theorems are about

`Uflow.Driver.hcInst` (the `HC` instance the differential driver runs `Server` / `Client` with, over
IEEE doubles) is `Uflow.EpNoTrap.hcOf Uflow.Driver.floatOps`: the endpoint theorems of
`Uflow/Props/C03Ep.lean`, stated for `hcOf ops` with arbitrary float operations `ops`, apply to the
model instance that is tied to the Rust code by the differential check.
-/

namespace Uflow.Props.C03

/-- The driver's half-connection instance is `hcOf floatOps`, definitionally. -/
theorem C03_ep_hcInst_eq : Uflow.Driver.hcInst = Uflow.EpNoTrap.hcOf Uflow.Driver.floatOps := rfl

end Uflow.Props.C03
