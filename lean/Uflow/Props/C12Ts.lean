import Uflow.Lemmas.TsDropMain
import Uflow.Lemmas.TsDropWrap
import Uflow.Props.C12

/-!
# C12, TimeSensitive packets: `C12_ts_drop` without the `unacked` hypothesis

Completes `C12_ts_drop_partial` (`Uflow/Props/C12.lean`) to the informal statement "a TimeSensitive
packet none of whose fragments was put on the wire in a flush with the flush id it was queued with
never appears on the wire later".

Models: `Uflow.FrameQ` (`push`, `acknowledgeGroup`, `cull`, …), `Uflow.PSend` (`ackFragment`,
`acknowledge`, `emit`), `Uflow.HalfConn` (`dfePush`, `dfeFinalize`, the loops of
`emit_data_frames`, `flush`, `step`, `handle_ack_frame`, …).

Vocabulary (`Uflow/Lemmas/TsDrop*.lean`, namespace `Uflow.TsDrop`):
* `Pushed T (u, fid)` : the wire trace `T` (ghost trace of `Wire.flushT`, accumulated over an event
  list by `Modes.runT`) contains a push of fragment `fid` of packet `u` with `resend = true`.
* `RefsPushed s T` ("refs ⊆ pushed") : every fragment reference stored in the frame log `s.fq.frames`
  and every fragment in the `acked` set of a window entry of `s.ps` is `Pushed T`.
* `HeadInv s T` : whenever the pending queue holds an entry of packet `u`, either fragment 0 of `u`
  is still at its head, or some fragment of `u` is in `T`, or `u` has left the window.
* `RunInv s T` = `RefsPushed s T ∧ HeadInv s T`.
* `stepCount evs` : number of `step` events in `evs` (each increments the flush id mod 2^32).

Findings.
* `FrameQ.acknowledgeGroup` reports only references of its own log whatever the ack frame contains
  (`C12_ack_reports_logged_refs`), so hostile ack frames cannot mark a never-sent fragment
  acknowledged: `RefsPushed` is an invariant of ALL runs (`C12_refs_pushed`).
* The flush id is a `u32` that `step` increments with wrap-around, and `PendingPacket::expired`
  compares for equality only. The drop therefore holds for as long as the flush id has not come
  round to the id the packet was queued for — the hypothesis `stepCount evs < wsub32 f flushId` of
  `C12_ts_drop` (for a packet queued one step ago that is 2^32 − 1 further steps). The bound is
  sharp: `C12_ts_drop_wrap_witness` (a state satisfying all invariants, one step before the wrap)
  and `C12_ts_drop_wrap_reachable_witness` (a run from `HalfConn.init` with 2^32 − 1 consecutive
  `step`s after which the stale packet IS put on the wire).
-/

namespace Uflow.Props.C12

open Uflow Uflow.Gen Uflow.Codec Uflow.HalfConn Uflow.Wire Uflow.Modes Uflow.Heap Uflow.Credit
open Uflow.CreditEx Uflow.TsDrop
open Uflow.Rate (FloatOps)

variable {F : Type}

/-! ## 1. The frame queue invariant `refs ⊆ pushed` -/

/-- `FrameQueue::acknowledge_group`, for an ARBITRARY ack group (base id, bitfield, nonce): the
fragment references it reports as acknowledged are references stored in its own frame log, and the
log afterwards holds no reference it did not hold before. (`P` is any property of references.) -/
theorem C12_ack_reports_logged_refs (P : Nat × Nat → Prop) (fq fq' : FrameQ.State) (ack : AckGroup)
    (rtt : Option Nat) (frs : List (Nat × Nat))
    (h : ∀ e ∈ fq.frames, ∀ r ∈ e.refs, P r)
    (he : FrameQ.acknowledgeGroup fq ack rtt = .ok (fq', frs)) :
    (∀ e ∈ fq'.frames, ∀ r ∈ e.refs, P r) ∧ ∀ r ∈ frs, P r :=
  refsIn_ack P fq fq' ack rtt frs h he

/-- `DataFrameEmitter::push`: the in-progress data frame gains at most the reference
`(p.uid, fid)` of the fragment being pushed, and only when the push succeeds (`err = none`, which
is exactly when the fragment is recorded in the wire trace) with `resend = true`; the frame log
only receives references of finalized in-progress frames. -/
theorem C12_dfePush_refs (T : List Push) (e e' : Emit F) (p : PSend.Pending) (fid : Nat)
    (resend : Bool) (err : Option PushErr) (hE : EInv T e)
    (h : dfePush e p fid resend = .ok (e', err)) :
    RefsIn (Pushed T) e'.s.fq ∧ AckedIn (Pushed T) e'.s.ps ∧
    ∀ ip, e'.inProg = some ip → ∀ r ∈ ip.refs,
      Pushed T r ∨ (err = none ∧ resend = true ∧ r = (p.uid, fid)) :=
  dfePush_einv T e e' p fid resend err hE h

/-- The invariant holds for a fresh half connection with the empty trace. -/
theorem C12_runInv_init (ops : FloatOps F) (c : Config) (now : Nat) (rng : Rng) :
    RunInv (HalfConn.init ops c now rng) [] := runInv_init ops c now rng

/-- Every event (`step`, `flush`, `send`, `receive`, `handle_{data,sync,ack}_frame` with arbitrary
contents) preserves the invariant, the trace growing by the fragments the event put on the wire. -/
theorem C12_runInv_event (ops : FloatOps F) (base : List Push) (s s' : State F) (ev : Ev)
    (tr : List Push) (hI : RunInv s base) (h : execT ops s ev = .ok (s', tr)) :
    RunInv s' (base ++ tr) := execT_inv ops base s s' ev tr hI h

/-- … and so does every event list. -/
theorem C12_runInv_run (ops : FloatOps F) (evs : List Ev) (base : List Push) (s s' : State F)
    (tr : List Push) (hI : RunInv s base) (h : runT ops s evs = .ok (s', tr)) :
    RunInv s' (base ++ tr) := runT_inv ops evs base s s' tr hI h

/-- `refs ⊆ pushed` in every state reachable from a fresh half connection by ANY interleaving of
operations and ANY frames from the network: every fragment reference `(uid, fragment)` in the frame
log, and every fragment marked acknowledged in a packet of the send window, was put on the wire
earlier in the run, by a `dfePush` with `resend = true` (so it belongs to a Persistent or Reliable
packet, `C12_ts_wire`). In particular a fragment that was never sent is never acknowledged. -/
theorem C12_refs_pushed (ops : FloatOps F) (cfg : Config) (now : Nat) (rng : Rng) (evs : List Ev)
    (s : State F) (tr : List Push) (h : runT ops (HalfConn.init ops cfg now rng) evs = .ok (s, tr)) :
    (∀ e ∈ s.fq.frames, ∀ r ∈ e.refs, ∃ x ∈ tr, x.uid = r.1 ∧ x.fid = r.2 ∧ x.resend = true) ∧
    (∀ u p fid, PSend.findPacket s.ps u = some p → fid ∈ p.acked →
      ∃ x ∈ tr, x.uid = u ∧ x.fid = fid ∧ x.resend = true) := by
  have hI := runT_inv ops evs [] _ s tr (runInv_init ops cfg now rng) h
  rw [List.nil_append] at hI
  exact ⟨hI.1.refs, fun u p fid hp hf => hI.1.acked.found u p hp fid hf⟩

/-- The instrumented run `runT` (= `runEvs` with `flush` replaced by `flushT`) computes the same
states as `HcInv.runEvs`, and every non-trapping `runEvs` run is a `runT` run. -/
theorem C12_runT_erase (ops : FloatOps F) (evs : List Ev) (s : State F) :
    (runT ops s evs).map (·.1) = (HcInv.runEvs ops s evs).map (·.1) ∧
    (∀ s' out, HcInv.runEvs ops s evs = .ok (s', out) → ∃ tr, runT ops s evs = .ok (s', tr)) :=
  ⟨runT_erase ops evs s, fun s' out h => runEvs_runT ops evs s s' out h⟩

/-! ## 2. `C12_ts_drop` -/

/-- `C12_ts_drop` from any state satisfying the invariants (`GInv`, `RunInv` with the trace `base`
of what was sent so far): if packet `u` has an entry in the pending queue, is a TimeSensitive packet
queued for flush `f` (`expiry = some f`), and none of its fragments has been put on the wire so far,
then no run with fewer than `wsub32 f s.flushId` steps (in particular: `s.flushId ≠ f`, the packet is
stale now) puts any fragment of it on the wire. -/
theorem C12_ts_drop_from (ops : FloatOps F) (evs : List Ev) (base : List Push) (s s' : State F)
    (tr : List Push) (u f : Nat) (p : PSend.Pending) (hg : GInv s) (hI : RunInv s base)
    (hin : ∃ pe ∈ s.pending, pe.uid = u) (hf : PSend.findPacket s.ps u = some p)
    (hexp : p.expiry = some f) (hstale : stepCount evs < wsub32 f s.flushId)
    (hnone : ∀ x ∈ base, x.uid ≠ u) (h : runT ops s evs = .ok (s', tr)) :
    ∀ x ∈ tr, x.uid ≠ u := by
  have hst : Stuck s u f := by
    refine ⟨?_, p, hf, hexp⟩
    rcases hI.2 u hin with h1 | ⟨x, hx, hxu⟩ | h3
    · exact h1
    · exact absurd hxu (hnone x hx)
    · rw [hf] at h3; cases h3
  exact stuck_run ops evs base s s' tr u f hg hI hnone hst hstale h

/-- **C12_ts_drop** (the repaired defect, full statement). In any run of a half connection from
`HalfConn.init` — any interleaving of `step`, `flush`, `send`, `receive` and incoming data, sync and
ack frames with arbitrary contents — split at an arbitrary point into `evs1` (trace `tr1`, reaching
`s1`) and `evs2` (trace `tr2`): if at the split point packet `u` has an entry in the pending queue,
it is a TimeSensitive packet queued for flush `f` (`expiry = some f`) that is stale
(`stepCount evs2 < wsub32 f s1.flushId`; this says `s1.flushId ≠ f` and that the 32-bit flush id
does not wrap round to `f` during `evs2`), and NO fragment of it has been put on the wire so far,
then no fragment of it is put on the wire in the rest of the run. No hypothesis on acknowledgements
is needed: `0 ∉ p.acked` follows from `C12_refs_pushed`. -/
theorem C12_ts_drop (ops : FloatOps F) (cfg : Config) (now : Nat) (rng : Rng) (evs1 evs2 : List Ev)
    (s1 s2 : State F) (tr1 tr2 : List Push) (u f : Nat) (p : PSend.Pending)
    (h1 : runT ops (HalfConn.init ops cfg now rng) evs1 = .ok (s1, tr1))
    (h2 : runT ops s1 evs2 = .ok (s2, tr2))
    (hin : ∃ pe ∈ s1.pending, pe.uid = u) (hf : PSend.findPacket s1.ps u = some p)
    (hexp : p.expiry = some f) (hstale : stepCount evs2 < wsub32 f s1.flushId)
    (hnone : ∀ x ∈ tr1, x.uid ≠ u) : ∀ x ∈ tr2, x.uid ≠ u := by
  have hg := (runT_gspec ops evs1 _ s1 tr1 (ginv_init ops cfg now rng) h1).inv
  have hI := runT_inv ops evs1 [] _ s1 tr1 (runInv_init ops cfg now rng) h1
  rw [List.nil_append] at hI
  exact C12_ts_drop_from ops evs2 tr1 s1 s2 tr2 u f p hg hI hin hf hexp hstale hnone h2

/-- The same for one event list `evs1 ++ evs2`. -/
theorem C12_ts_drop_append (ops : FloatOps F) (cfg : Config) (now : Nat) (rng : Rng)
    (evs1 evs2 : List Ev) (s2 : State F) (tr : List Push)
    (h : runT ops (HalfConn.init ops cfg now rng) (evs1 ++ evs2) = .ok (s2, tr)) :
    ∃ s1 tr1 tr2, runT ops (HalfConn.init ops cfg now rng) evs1 = .ok (s1, tr1) ∧
      runT ops s1 evs2 = .ok (s2, tr2) ∧ tr = tr1 ++ tr2 ∧
      ∀ u f p, (∃ pe ∈ s1.pending, pe.uid = u) → PSend.findPacket s1.ps u = some p →
        p.expiry = some f → stepCount evs2 < wsub32 f s1.flushId → (∀ x ∈ tr1, x.uid ≠ u) →
        ∀ x ∈ tr, x.uid ≠ u := by
  obtain ⟨s1, tr1, tr2, k1, k2, k3⟩ := runT_append ops evs1 evs2 _ s2 tr h
  refine ⟨s1, tr1, tr2, k1, k2, k3, ?_⟩
  intro u f p hin hf hexp hstale hnone x hx
  rw [k3] at hx
  rcases List.mem_append.mp hx with hx | hx
  · exact hnone x hx
  · exact C12_ts_drop ops cfg now rng evs1 evs2 s1 s2 tr1 tr2 u f p k1 k2 hin hf hexp hstale hnone x hx

/-- The staleness hypothesis in terms of `u32` values: a flush id different from `f` is at a
positive wrapping distance from `f`; each `step` shortens the distance by one. -/
theorem C12_stale_distance (f g : Nat) (hf : f < 2 ^ 32) (hg : g < 2 ^ 32) :
    (g ≠ f → 0 < wsub32 f g) ∧ (0 < wsub32 f g → wsub32 f (wadd32 g 1) = wsub32 f g - 1) ∧
    (wsub32 f g = 0 → g = f) := by
  simp only [wsub32, wadd32]
  omega

/-! ## 3. Non-vacuity and sharpness (instance `Uflow.CreditEx`) -/

/-- The run `exEvsTs` from a fresh half connection ends in `exState exEvsTs`, with only packet 0
on the wire. -/
theorem exEvsTs_run : ∃ tr1, runT exOps exS0 exEvsTs = .ok (exState exEvsTs, tr1) ∧
    ∀ x ∈ tr1, x.uid ≠ 1 := by
  have hk : (match runT exOps exS0 exEvsTs with
      | .ok (_, tr) => decide (∀ x ∈ tr, x.uid ≠ 1)
      | .error _ => false) = true := by decide +kernel
  unfold exState
  cases hr : runT exOps exS0 exEvsTs with
  | error t => rw [hr] at hk; cases hk
  | ok v =>
    obtain ⟨s, tr⟩ := v
    rw [hr] at hk
    exact ⟨tr, rfl, by simpa using hk⟩

/-- The continuation used in the example below: an ack frame with arbitrary contents (it claims 32
frames and acknowledges packet base 0), a flush, a step, a flush. -/
def exContTs : List Ev :=
  [.ackFrame 7 0 [{ baseId := 0, bitfield := 0xFFFFFFFF, nonce := true }], .flush,
   .step 2000000000, .flush]

/-- Non-vacuity of `C12_ts_drop`: in the run `exEvsTs` a Reliable packet (uid 0) uses up the credit,
so the flush that pulls the TimeSensitive packet (uid 1, `expiry = some 1`) into the pending queue
ends before reaching it; the next `step` makes the flush id 2. All hypotheses of `C12_ts_drop` hold
at that point for the continuation `exContTs` (hostile ack frame, flush, step, flush), whose trace (two re-sends of uid 0) thus
contains no fragment of uid 1 — as the model confirms by evaluation. -/
example :
    (exState exEvsTs).pending = [⟨1, 0, false⟩] ∧ (exState exEvsTs).flushId = 2 ∧
    (∃ p, PSend.findPacket (exState exEvsTs).ps 1 = some p ∧ p.expiry = some 1) ∧
    stepCount exContTs < wsub32 1 (exState exEvsTs).flushId ∧
    (∀ s2 tr2, runT exOps (exState exEvsTs) exContTs = .ok (s2, tr2) →
      ∀ x ∈ tr2, x.uid ≠ 1) ∧
    (match runT exOps (exState exEvsTs) exContTs with
     | .ok (s, tr) => decide (tr.map (fun x => (x.uid, x.fid, x.flushId)) = [(0, 0, 2), (0, 0, 3)] ∧
         s.pending = [])
     | .error _ => false) = true := by
  have hp : PSend.findPacket (exState exEvsTs).ps 1 =
      some ((PSend.findPacket (exState exEvsTs).ps 1).getD default) := by decide +kernel
  have hexp : ((PSend.findPacket (exState exEvsTs).ps 1).getD default).expiry = some 1 := by
    decide +kernel
  have hst : stepCount exContTs < wsub32 1 (exState exEvsTs).flushId := by
    decide +kernel
  refine ⟨by decide +kernel, by decide +kernel, ⟨_, hp, hexp⟩, hst, ?_, by decide +kernel⟩
  obtain ⟨tr1, h1, hnone⟩ := exEvsTs_run
  intro s2 tr2 h2
  exact C12_ts_drop exOps exCfg 0 { fifo := [], state := 0 } exEvsTs _ _ s2 tr1 tr2 1 1 _ h1 h2
    ⟨⟨1, 0, false⟩, by decide +kernel, rfl⟩ hp hexp hst hnone

/-- Sharpness of the hypothesis `stepCount evs < wsub32 f s.flushId` of `C12_ts_drop_from`: the
state `exState exEvsTs` with its flush id set to 0 satisfies every invariant (`GInv`, `RunInv` — they
do not mention the flush id), the TimeSensitive packet uid 1 (`expiry = some 1`) is in its pending
queue, stale (`flushId = 0 ≠ 1`) and unsent; but `stepCount [step, flush] = 1 = wsub32 1 0`, the
`step` brings the flush id round to 1, and the `flush` puts the packet on the wire. In a run from
`HalfConn.init` this situation needs 2^32 − 1 `step`s during which no flush reaches the pending
queue, after the step that made the packet stale (the flush id is a wrapping `u32`, and
`PendingPacket::expired` tests `!=`). -/
theorem C12_ts_drop_wrap_witness :
    ∃ (s : State Nat) (base : List Push) (p : PSend.Pending),
      GInv s ∧ RunInv s base ∧ (∃ pe ∈ s.pending, pe.uid = 1) ∧
      PSend.findPacket s.ps 1 = some p ∧ p.expiry = some 1 ∧ s.flushId ≠ 1 ∧
      (∀ x ∈ base, x.uid ≠ 1) ∧
      stepCount [.step 1000000000, .flush] = wsub32 1 s.flushId ∧
      (match runT exOps s [.step 1000000000, .flush] with
       | .ok (_, tr) => decide (tr.map (fun x => (x.uid, x.fid, x.flushId, x.expiry)) =
           [(0, 0, 1, none), (1, 0, 1, some 1)])
       | .error _ => false) = true := by
  obtain ⟨tr1, h1, hnone⟩ := exEvsTs_run
  have hg := (runT_gspec exOps exEvsTs _ _ tr1 (ginv_init exOps exCfg 0 { fifo := [], state := 0 }) h1).inv
  have hI := runT_inv exOps exEvsTs [] _ _ tr1 (runInv_init exOps exCfg 0 { fifo := [], state := 0 }) h1
  rw [List.nil_append] at hI
  refine ⟨{ exState exEvsTs with flushId := 0 }, tr1,
    (PSend.findPacket (exState exEvsTs).ps 1).getD default, ?_, ?_, ?_, ?_, ?_, ?_, hnone, ?_, ?_⟩
  · exact ginv_setFlushId hg 0
  · exact runInv_setFlushId hI 0
  · exact ⟨⟨1, 0, false⟩, by decide +kernel, rfl⟩
  · decide +kernel
  · decide +kernel
  · decide +kernel
  · decide +kernel
  · decide +kernel

/-- The wrap-around is reachable: the hypothesis `stepCount evs2 < wsub32 f s1.flushId` of
`C12_ts_drop` cannot be weakened to `s1.flushId ≠ f`, not even to `stepCount evs2 ≤ wsub32 f s1.flushId`.
From a fresh half connection run `exEvsTs` (the TimeSensitive packet uid 1, `expiry = some 1`, is in
the pending queue, unsent, and the flush id is 2), then call `step` 2^32 − 1 times without a `flush`
in between (`stepCount evs2 = 2^32 − 1 = wsub32 1 2`): the flush id is 1 again, the packet no longer
counts as expired, and the next `flush` puts it on the wire. (`exState exEvsTs` is a fixed point of
`step` up to the flush id, `exTs_step_fix`, and `step` never reads the flush id, `step_setFlushId`,
so the 2^32 − 2 middle steps are computed in closed form, `runT_steps`.) -/
theorem C12_ts_drop_wrap_reachable_witness :
    ∃ (evs2 : List Ev) (s2 : State Nat) (tr1 tr2 : List Push) (p : PSend.Pending),
      runT exOps exS0 exEvsTs = .ok (exState exEvsTs, tr1) ∧
      runT exOps (exState exEvsTs) evs2 = .ok (s2, tr2) ∧
      (∃ pe ∈ (exState exEvsTs).pending, pe.uid = 1) ∧
      PSend.findPacket (exState exEvsTs).ps 1 = some p ∧ p.expiry = some 1 ∧
      (exState exEvsTs).flushId ≠ 1 ∧ (∀ x ∈ tr1, x.uid ≠ 1) ∧
      stepCount evs2 = wsub32 1 (exState exEvsTs).flushId ∧
      ∃ x ∈ tr2, x.uid = 1 := by
  obtain ⟨tr1, h1, hnone⟩ := exEvsTs_run
  have hfid : (exState exEvsTs).flushId = 2 := by decide +kernel
  have hA := runT_steps_from exOps (exState exEvsTs) 1000000000 3 exTs_step_fix 2 hfid (by decide)
    (2 ^ 32 - 2)
  have hz : (2 + (2 ^ 32 - 2)) % 2 ^ 32 = 0 := by decide
  rw [hz] at hA
  have hk : (match runT exOps ({ exState exEvsTs with flushId := 0 } : State Nat)
        [.step 1000000000, .flush] with
      | .ok (_, tr) => decide (∃ x ∈ tr, x.uid = 1)
      | .error _ => false) = true := by decide +kernel
  cases hr : runT exOps ({ exState exEvsTs with flushId := 0 } : State Nat)
      [.step 1000000000, .flush] with
  | error t => rw [hr] at hk; cases hk
  | ok v =>
    obtain ⟨s2, tr2⟩ := v
    rw [hr] at hk
    have hpush : ∃ x ∈ tr2, x.uid = 1 := by simpa using hk
    have h2 := runT_append_ok exOps _ _ _ _ s2 [] tr2 hA hr
    have hin : ∃ pe ∈ (exState exEvsTs).pending, pe.uid = 1 :=
      ⟨⟨1, 0, false⟩, by decide +kernel, rfl⟩
    have hp : PSend.findPacket (exState exEvsTs).ps 1 =
        some ((PSend.findPacket (exState exEvsTs).ps 1).getD default) := by decide +kernel
    have hexp : ((PSend.findPacket (exState exEvsTs).ps 1).getD default).expiry = some 1 := by
      decide +kernel
    have hne : (exState exEvsTs).flushId ≠ 1 := by rw [hfid]; decide
    have hcount : stepCount (List.replicate (2 ^ 32 - 2) (.step 1000000000) ++
        [.step 1000000000, .flush]) = wsub32 1 (exState exEvsTs).flushId := by
      rw [stepCount_replicate, hfid]
      decide
    exact ⟨_, s2, tr1, _, _, h1, h2, hin, hp, hexp, hne, hnone, hcount, by simpa using hpush⟩

end Uflow.Props.C12
