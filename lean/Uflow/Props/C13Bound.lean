import Uflow.Lemmas.CreditBoundWire
import Uflow.Lemmas.CreditBoundEx

/-!
# C13 — the numeric rate bound: bytes on the wire ≤ ceiling × (elapsed time + RTT) + one frame

`Uflow/Props/C13.lean` proves, for EVERY `ops : FloatOps F`, the credit recurrence
(`C13_interval`: bytes sent ≤ credit at the start + Σ credited bytes + one frame) and the cap on the
credit after a fill (`C13_fill_cap`); `Uflow/Props/C14.lean` proves `send_rate ≤ max_send_rate`.
This file adds the numeric step from "Σ credited bytes" to "ceiling × elapsed time". That step
depends on what the floating-point expressions of `fill_flush_alloc`
(`src/half_connection/mod.rs`) compute, so it is proved under two explicit hypotheses on
`ops.fillBytes` / `ops.fillMax`, stated in exact integer arithmetic
(`Uflow/Lemmas/CreditBoundSum.lean`):

* `FillOk ops eps` — fields `maxRate maxDt : Nat`, `good : F → Prop`, `v : F → Nat` and, for
  `rate ≤ maxRate`, `dt ≤ maxDt` (ns), `good f`, with `(n, f') = ops.fillBytes rate dt f`:
  `good f'`, `v f < 10⁹`, `0 ≤ n`, and **`n·10⁹ + v f' ≤ rate·dt + v f + eps`**; also
  `good ops.zero`. `v f` is the carried fraction in units of `10⁻⁹` byte, `rate·dt` (B/s × ns) is in
  the same unit, `eps` is the rounding slack of one fill. Exact real arithmetic satisfies it with
  `eps = 0` (`⌊x⌋·10⁹ + ⌊(x−⌊x⌋)·10⁹⌋ ≤ x·10⁹`, see the doc comment of `FillOk`); the integer
  instance `exactOps` does so for every domain (`C13_fillOk_exact`). For IEEE doubles `eps` is of the
  order `maxRate·maxDt·2⁻⁵²` nano-bytes, which is why the domain is bounded.
* `FillMaxOk ops` — a ghost `rttNs : Option F → Nat` (the RTT estimate in ns) with
  `ops.fillMax rate rtt · 10⁹ ≤ rate · rttNs rtt + 5·10⁸` (`round(y) ≤ y + 1/2`).

Vocabulary (`Uflow.CreditBound`): `lastNow s` (`Uflow.HcInv`) is the time of the last `step` of
`s` (its creation time before the first); `endTime t evs` the time of the last `step` in `evs` (`t`
if none); `nSteps evs` the number of `step`s; `stepsOk D t evs` says every `step` of `evs` is at or
after the previous one (`t` at the start) and at most `D` ns after it;
`BInv K m s` = `PsOk s.ps` (C13) ∧ `send_rate ≤ max_send_rate = m` (C14) ∧ `K.good s.flushFrac` ∧
(no fill yet → credit ≤ 0) — it holds for a fresh half connection with `MSS ≤ m` and is preserved
by every event (`C13_binv_init`, `C13_credit_sum_le`). `InsFlush a b`: `b` is `a` with `flush`
events inserted. `run`, `Ev`, `Ev.Ok` are those of `C13.lean`. All times are nanoseconds.

What the bound means in wall-clock terms: `endTime t0 evs − t0` is the distance between the last
`step` before the interval and the last `step` inside it, so for a wall-clock interval it exceeds
the interval length by at most one `step` period. The constant is `1472.5` bytes plus the carried
fraction (`< 1` byte): one maximal frame, the half byte of `round` in `alloc_max`, and the
fraction already accumulated.
-/

namespace Uflow.Props.C13

open Uflow Uflow.Gen Uflow.Codec Uflow.HalfConn Uflow.Credit Uflow.CreditBound Uflow.CreditEx
open Uflow.Rate (FloatOps BisectConverges)
open Uflow.HcInv (lastNow evTime evsOk CfgOk LossOk)

variable {F : Type}

/-! ## 1. The hypotheses are satisfiable: exact arithmetic, no slack -/

/-- Exact integer arithmetic (`exactOps : FloatOps Nat`, fractions in nano-bytes) satisfies
`FillOk` with `eps = 0` for every bound `R` on the rate and `D` on the step distance, with
`v = id`, and `FillMaxOk` with the RTT (kept in ms by this instance) converted to ns. -/
theorem C13_fillOk_exact (R D : Nat) :
    (∃ K : FillOk exactOps 0, K.maxRate = R ∧ K.maxDt = D ∧ K.v = id) ∧
    (∃ M : FillMaxOk exactOps, ∀ rtt, M.rttNs rtt = rtt.getD 0 * 1000000) :=
  ⟨⟨exactFillOk R D, rfl, rfl, rfl⟩, ⟨exactFillMaxOk, fun _ => rfl⟩⟩

/-- The invariant holds for a fresh half connection whose ceiling is at least one frame per second
(`send_rate` starts at `MSS`). -/
theorem C13_binv_init (ops : FloatOps F) {eps : Nat} (K : FillOk ops eps) (cfg : Config) (now : Nat)
    (rng : Rng) (hm : MSS ≤ cfg.txBandwidthLimit) :
    BInv K cfg.txBandwidthLimit (init ops cfg now rng) ∧ lastNow (init ops cfg now rng) = now :=
  ⟨binv_init ops K cfg now rng hm, rfl⟩

/-! ## 2. The credit granted is at most ceiling × elapsed time -/

/-- **Credit sum.** Along any run from a state satisfying `BInv K m s` (ceiling `m ≥ MINIMUM_RATE`
inside the domain of `K`), with `step` times non-decreasing and at most `K.maxDt` apart: the total
credit `c` granted by the `step`s of the run, in nano-bytes, plus the fraction carried at the end, is
at most `m × (time of the last step − lastNow s)` plus the fraction carried at the start plus `eps`
per `step`. The send rate used by each fill is `≤ m` because `BInv` is preserved (second conjunct);
the final state's `lastNow` is the time of the last `step`. -/
theorem C13_credit_sum_le (ops : FloatOps F) {eps : Nat} (K : FillOk ops eps) (m : Nat)
    (hmin : MINIMUM_RATE ≤ m) (hR : m ≤ K.maxRate) (evs : List Ev) (s s' : State F) (b : Nat)
    (c : Int) (hi : BInv K m s) (hok : ∀ ev ∈ evs, ev.Ok)
    (ht : stepsOk K.maxDt (lastNow s) evs = true) (h : run ops s evs = .ok (s', b, c)) :
    c * 1000000000 + (K.v s'.flushFrac : Int) ≤
      ((m * (endTime (lastNow s) evs - lastNow s) + K.v s.flushFrac + nSteps evs * eps : Nat) : Int) ∧
    BInv K m s' ∧ lastNow s' = endTime (lastNow s) evs := by
  obtain ⟨hi', hl, _, hb⟩ := run_bound ops K m hmin hR evs s s' b c hi hok ht h
  rw [hl] at hb
  exact ⟨hb, hi', hl⟩

/-- Non-vacuity (`exactOps`, ceiling 1472 B/s): from the state after `send 2896 bytes; step 0` the
run `badEvs` (a flush, then four steps 249.728261 ms apart with a flush after each) is granted
`c = 1470` bytes and carries `400000768` nano-bytes: `1470·10⁹ + 400000768 ≤ 1472 × 998913044 + 0`
(with equality). -/
example : MSS ≤ cfg1472.txBandwidthLimit ∧ (∀ ev ∈ badEvs, ev.Ok) ∧
    stepsOk 1000000000 0 badEvs = true ∧ endTime 0 badEvs = 998913044 ∧ nSteps badEvs = 4 ∧
    chainB exactOps (s1472 exactOps) exPre 0 badEvs (fun _ q s' _ c =>
      decide (lastNow q = 0 ∧ q.flushFrac = 0 ∧ c = 1470 ∧ s'.flushFrac = 400000768)) = true :=
  ⟨by decide, by decide +kernel, by decide +kernel, by decide +kernel, by decide +kernel,
    by decide +kernel⟩

/-! ## 3. The property -/

/-- **C13, numeric form.** A half connection is created at time `now` with a ceiling
`cfg.txBandwidthLimit` (= `min(local max_send_rate, peer max_receive_rate)`) of at least one frame
per second. It executes `pre1`, then `step t0` (in state `p`, leading to `q`), then `pre2` without
any `step` (leading to `s`), then the interval `evs` — arbitrary interleavings of `send` (any
amount of data), frames from the peer (any acknowledgements owed), `receive`, `flush` (any number)
and `step`s at non-decreasing times at most `K.maxDt` apart. Then the bytes `b` handed to the frame
sink during `evs` satisfy

`b·10⁹ ≤ ceiling × ((time of the last step in evs − t0) + RTT) + 1472.5·10⁹ + v(frac) + k·eps`

where `RTT = M.rttNs p.rate.rttS` is the RTT estimate of the rate controller IN FORCE AT THE FILL
THAT PRECEDES THE INTERVAL, i.e. the estimate before `step t0` processed its feedback (0 if there
is none yet); `v(frac) < 10⁹` is the fraction carried at the start of the interval and `k` the
number of `step`s in it. With exact arithmetic (`eps = 0`): ceiling × (Δt + RTT) plus one maximal
frame plus less than 1.5 bytes. -/
theorem C13_wire_bound (ops : FloatOps F) {eps : Nat} (K : FillOk ops eps) (M : FillMaxOk ops)
    (cfg : Config) (now : Nat) (rng : Rng) (hm : MSS ≤ cfg.txBandwidthLimit)
    (hR : cfg.txBandwidthLimit ≤ K.maxRate) (pre1 pre2 evs : List Ev) (t0 : Nat)
    (hok : ∀ ev ∈ pre1 ++ .step t0 :: pre2 ++ evs, ev.Ok)
    (ht : stepsOk K.maxDt now (pre1 ++ .step t0 :: pre2 ++ evs) = true)
    (hns : ∀ ev ∈ pre2, ∀ t, ev ≠ .step t)
    (p q s s' : State F) (b1 b2 b : Nat) (c1 c2 c : Int)
    (h1 : run ops (init ops cfg now rng) pre1 = .ok (p, b1, c1))
    (h2 : step ops p t0 = .ok q)
    (h3 : run ops q pre2 = .ok (s, b2, c2))
    (h4 : run ops s evs = .ok (s', b, c)) :
    b * 1000000000 ≤
      cfg.txBandwidthLimit * ((endTime t0 evs - t0) + M.rttNs p.rate.rttS) + 1472500000000 +
        K.v s.flushFrac + nSteps evs * eps ∧
    K.v s.flushFrac < 1000000000 := by
  rw [stepsOk_append, stepsOk_append, endTime_append] at ht
  simp only [Bool.and_eq_true] at ht
  obtain ⟨⟨ht1, ht0⟩, ht3⟩ := ht
  obtain ⟨ht0, _⟩ := stepsOk_cons _ _ _ _ ht0
  simp only [endTime, evTime] at ht3
  rw [endTime_noStep _ pre2 hns] at ht3
  exact wire_split ops K M cfg now rng hm hR pre1 pre2 evs t0
    (fun e he => hok e (by simp [he])) (fun e he => hok e (by simp [he]))
    (fun e he => hok e (by simp [he])) ht1 (ht0 t0 rfl) ht3 hns p q s s' b1 b2 b c1 c2 c
    h1 h2 h3 h4

/-- Non-vacuity of `C13_wire_bound` (`exactOps`, `eps = 0`, ceiling 1472 B/s, `pre1 = ` one
2896-byte packet, `t0 = 0`, `pre2 = []`, `evs = badEvs`): all hypotheses hold; `1472` bytes are sent
in `0.998913044 s`, no RTT estimate yet (`rttNs = 0`), fraction 0:
`1472·10⁹ ≤ 1472 × 998913044 + 1472.5·10⁹`. -/
example : MSS ≤ cfg1472.txBandwidthLimit ∧ cfg1472.txBandwidthLimit ≤ (exactFillOk 1472 1000000000).maxRate ∧
    (∀ ev ∈ exPre ++ .step 0 :: [] ++ badEvs, ev.Ok) ∧
    stepsOk (exactFillOk 1472 1000000000).maxDt 0 (exPre ++ .step 0 :: [] ++ badEvs) = true ∧
    chainB exactOps (s1472 exactOps) exPre 0 badEvs (fun p q _ b _ =>
      decide (b = 1472 ∧ exactFillMaxOk.rttNs p.rate.rttS = 0 ∧ q.flushFrac = 0)) = true :=
  ⟨by decide, by decide, by decide +kernel, by decide +kernel, by decide +kernel⟩

/-- Non-vacuity with an RTT estimate (`exRttPre`: the first frame is acknowledged and `step` at
100 ms processes the feedback, so at `t0 = 200 ms` the estimate in force is 100 ms, `alloc_max = 147`):
during `exRttEvs` (steps at 1.0, 1.1, 1.2 s) 1472 bytes are sent, the carried fraction is 0.4 byte:
`1472·10⁹ ≤ 1472 × (10⁹ + 10⁸) + 1472.5·10⁹ + 4·10⁸`. -/
example : (∀ ev ∈ exRttPre ++ .step 200000000 :: [] ++ exRttEvs, ev.Ok) ∧
    stepsOk 1000000000 0 (exRttPre ++ .step 200000000 :: [] ++ exRttEvs) = true ∧
    endTime 200000000 exRttEvs = 1200000000 ∧
    chainB exactOps (s1472 exactOps) exRttPre 200000000 exRttEvs (fun p q _ b _ =>
      decide (b = 1472 ∧ exactFillMaxOk.rttNs p.rate.rttS = 100000000 ∧ q.flushFrac = 400000000 ∧
        q.flushAlloc = -1178)) = true :=
  ⟨by decide +kernel, by decide +kernel, by decide +kernel, by decide +kernel⟩

/-- The case not covered by `C13_wire_bound`: the interval starts before the first `step` ever
(`pre` contains none). There is no credit yet, hence no RTT term and no half byte; time counts from
the creation time. -/
theorem C13_wire_bound_fresh (ops : FloatOps F) {eps : Nat} (K : FillOk ops eps)
    (cfg : Config) (now : Nat) (rng : Rng) (hm : MSS ≤ cfg.txBandwidthLimit)
    (hR : cfg.txBandwidthLimit ≤ K.maxRate) (pre evs : List Ev)
    (hok : ∀ ev ∈ pre ++ evs, ev.Ok) (hns : ∀ ev ∈ pre, ∀ t, ev ≠ .step t)
    (ht : stepsOk K.maxDt now evs = true)
    (s s' : State F) (b1 b : Nat) (c1 c : Int)
    (h1 : run ops (init ops cfg now rng) pre = .ok (s, b1, c1))
    (h4 : run ops s evs = .ok (s', b, c)) :
    b * 1000000000 ≤
      cfg.txBandwidthLimit * (endTime now evs - now) + 1472000000000 +
        K.v s.flushFrac + nSteps evs * eps ∧
    K.v s.flushFrac < 1000000000 :=
  wire_fresh ops K cfg now rng hm hR pre evs (fun e he => hok e (by simp [he]))
    (fun e he => hok e (by simp [he])) hns ht s s' b1 b c1 c h1 h4

/-- Non-vacuity: the interval `exFreshEvs` (flush, steps at 0, 0.5 s, 1 s with flushes) right after
the `send`: the first flush sends one frame on the initial credit 0, the fill at 1 s brings the
credit back to 0 and the second frame goes out: `2944·10⁹ ≤ 1472 × 10⁹ + 1472·10⁹` (equality). -/
example : (∀ ev ∈ exPre ++ exFreshEvs, ev.Ok) ∧ (∀ ev ∈ exPre, ∀ t, ev ≠ .step t) ∧
    stepsOk 1000000000 0 exFreshEvs = true ∧ endTime 0 exFreshEvs = 1000000000 ∧
    (match run exactOps (s1472 exactOps) exPre with
     | .ok (s, _, _) =>
       (match run exactOps s exFreshEvs with
        | .ok (_, b, _) => decide (b = 2944 ∧ s.flushFrac = 0)
        | .error _ => false)
     | .error _ => false) = true :=
  ⟨by decide +kernel, fun ev hev t he => (by subst he; rw [exPre, List.mem_singleton] at hev; cases hev),
    by decide +kernel,
    by decide +kernel, by decide +kernel⟩

/-- The same from an ARBITRARY state satisfying the invariant, in terms of the credit `A` it holds:
`b·10⁹ ≤ (max A (−1472) + 1472)·10⁹ + ceiling × (time of the last step − lastNow s) + v(frac) + k·eps`. -/
theorem C13_wire_bound_from (ops : FloatOps F) {eps : Nat} (K : FillOk ops eps) (m : Nat)
    (hmin : MINIMUM_RATE ≤ m) (hR : m ≤ K.maxRate) (evs : List Ev) (s s' : State F) (b : Nat)
    (c : Int) (hi : BInv K m s) (hok : ∀ ev ∈ evs, ev.Ok)
    (ht : stepsOk K.maxDt (lastNow s) evs = true) (h : run ops s evs = .ok (s', b, c)) :
    (b : Int) * 1000000000 ≤
      (max s.flushAlloc (-1472) + 1472) * 1000000000 +
      ((m * (endTime (lastNow s) evs - lastNow s) + K.v s.flushFrac + nSteps evs * eps : Nat) : Int) :=
  wire_from ops K m hmin hR evs s s' b c hi hok ht h

/-- Non-vacuity: a fresh half connection satisfies the hypotheses of `C13_wire_bound_from` /
`C13_credit_sum_le` (`m = 1472`, domain `1472 B/s × 1 s`). -/
example : MINIMUM_RATE ≤ 1472 ∧ 1472 ≤ (exactFillOk 1472 1000000000).maxRate ∧
    BInv (exactFillOk 1472 1000000000) 1472 (s1472 exactOps) ∧
    (∀ ev ∈ exPre ++ exFreshEvs, ev.Ok) ∧
    stepsOk (exactFillOk 1472 1000000000).maxDt (lastNow (s1472 exactOps)) (exPre ++ exFreshEvs) = true ∧
    (match run exactOps (s1472 exactOps) (exPre ++ exFreshEvs) with
     | .ok (_, b, c) => decide (b = 2944 ∧ c = 1472)
     | .error _ => false) = true :=
  ⟨by decide, by decide, binv_init exactOps _ cfg1472 0 _ (by decide), by decide +kernel,
    by decide +kernel, by decide +kernel⟩

/-- **The composed statement** (with C03: under `CfgOk`, `BisectConverges`, `LossOk` and the event
side conditions `evsOk` of `C03_hc_run_no_trap` the run cannot trap, so the four partial runs
exist): for every event list `pre1 ++ step t0 :: pre2 ++ evs` within the API preconditions, the
states `p`, `q`, `s`, `s'` of `C13_wire_bound` exist and the bytes sent during `evs` obey the bound. -/
theorem C13_wire_bound_total (ops : FloatOps F) (hconv : BisectConverges ops) (hloss : LossOk ops)
    {eps : Nat} (K : FillOk ops eps) (M : FillMaxOk ops)
    (cfg : Config) (now : Nat) (rng : Rng) (hc : CfgOk cfg) (hm : MSS ≤ cfg.txBandwidthLimit)
    (hR : cfg.txBandwidthLimit ≤ K.maxRate) (pre1 pre2 evs : List Ev) (t0 : Nat)
    (hev : evsOk now (pre1 ++ .step t0 :: pre2 ++ evs) = true)
    (ht : stepsOk K.maxDt now (pre1 ++ .step t0 :: pre2 ++ evs) = true)
    (hns : ∀ ev ∈ pre2, ∀ t, ev ≠ .step t) :
    ∃ (p q s s' : State F) (b1 b2 b : Nat) (c1 c2 c : Int),
      run ops (init ops cfg now rng) pre1 = .ok (p, b1, c1) ∧ step ops p t0 = .ok q ∧
      run ops q pre2 = .ok (s, b2, c2) ∧ run ops s evs = .ok (s', b, c) ∧
      b * 1000000000 ≤
        cfg.txBandwidthLimit * ((endTime t0 evs - t0) + M.rttNs p.rate.rttS) + 1472500000000 +
          K.v s.flushFrac + nSteps evs * eps ∧
      K.v s.flushFrac < 1000000000 := by
  obtain ⟨⟨sf, bt, ct⟩, hrun⟩ := HcInv.creditRun_ok ops hconv hloss _ _
    (HcInv.hcInv_init ops cfg now rng hc) hev
  obtain ⟨s, bp, cp, b, c, hpre, h4, _, _⟩ := run_append_split ops _ _ _ _ _ _ hrun
  obtain ⟨p, b1, c1, br, cr, h1, hrest, _, _⟩ := run_append_split ops _ _ _ _ _ _ hpre
  obtain ⟨q, b2, c2, h2', h3⟩ := run_step_cons ops p s t0 pre2 br cr hrest
  exact ⟨p, q, s, sf, b1, b2, b, c1, c2, c, h1, h2', h3, h4,
    C13_wire_bound ops K M cfg now rng hm hR pre1 pre2 evs t0 (evsOk_ok _ _ hev) ht hns
      p q s sf b1 b2 b c1 c2 c h1 h2' h3 h4⟩

/-- Non-vacuity: all hypotheses of `C13_wire_bound_total` hold for `exactOps`, ceiling 1472 B/s and
the script `exRttPre ++ step 0.2 s :: [] ++ exRttEvs`. -/
example : ∃ (p q s s' : State Nat) (b1 b2 b : Nat) (c1 c2 c : Int),
      run exactOps (init exactOps cfg1472 0 { fifo := [], state := 0 }) exRttPre = .ok (p, b1, c1) ∧
      step exactOps p 200000000 = .ok q ∧
      run exactOps q [] = .ok (s, b2, c2) ∧ run exactOps s exRttEvs = .ok (s', b, c) ∧
      b * 1000000000 ≤
        cfg1472.txBandwidthLimit * ((endTime 200000000 exRttEvs - 200000000) +
          exactFillMaxOk.rttNs p.rate.rttS) + 1472500000000 +
          (exactFillOk 1472 1000000000).v s.flushFrac + nSteps exRttEvs * 0 ∧
      (exactFillOk 1472 1000000000).v s.flushFrac < 1000000000 :=
  C13_wire_bound_total exactOps exactOps_converges exactOps_lossOk (exactFillOk 1472 1000000000)
    exactFillMaxOk cfg1472 0 _ (by decide) (by decide) (by decide) exRttPre [] exRttEvs 200000000
    (by decide +kernel) (by decide +kernel) (fun ev hev => (by cases hev))

/-! ## 4. However often `flush()` is called -/

/-- **Flush cadence is irrelevant.** In the situation of `C13_wire_bound`, let `evs'` be `evs` with
any number of additional `flush` events inserted anywhere. The bytes `b'` sent by `evs'` obey the
bound computed from `evs`: the right-hand side depends on the `step` times only
(`endTime`, `nSteps`), not on the flushes. -/
theorem C13_flush_cadence_irrelevant (ops : FloatOps F) {eps : Nat} (K : FillOk ops eps)
    (M : FillMaxOk ops) (cfg : Config) (now : Nat) (rng : Rng) (hm : MSS ≤ cfg.txBandwidthLimit)
    (hR : cfg.txBandwidthLimit ≤ K.maxRate) (pre1 pre2 evs evs' : List Ev) (t0 : Nat)
    (hins : InsFlush evs evs')
    (hok : ∀ ev ∈ pre1 ++ .step t0 :: pre2 ++ evs, ev.Ok)
    (ht : stepsOk K.maxDt now (pre1 ++ .step t0 :: pre2 ++ evs) = true)
    (hns : ∀ ev ∈ pre2, ∀ t, ev ≠ .step t)
    (p q s s' : State F) (b1 b2 b' : Nat) (c1 c2 c' : Int)
    (h1 : run ops (init ops cfg now rng) pre1 = .ok (p, b1, c1))
    (h2 : step ops p t0 = .ok q)
    (h3 : run ops q pre2 = .ok (s, b2, c2))
    (h4 : run ops s evs' = .ok (s', b', c')) :
    b' * 1000000000 ≤
      cfg.txBandwidthLimit * ((endTime t0 evs - t0) + M.rttNs p.rate.rttS) + 1472500000000 +
        K.v s.flushFrac + nSteps evs * eps ∧
    endTime t0 evs' = endTime t0 evs ∧ nSteps evs' = nSteps evs := by
  rw [stepsOk_append, stepsOk_append, endTime_append] at ht
  simp only [Bool.and_eq_true] at ht
  obtain ⟨⟨ht1, ht0⟩, ht3⟩ := ht
  obtain ⟨ht0, _⟩ := stepsOk_cons _ _ _ _ ht0
  simp only [endTime, evTime] at ht3
  rw [endTime_noStep _ pre2 hns] at ht3
  have := (wire_split ops K M cfg now rng hm hR pre1 pre2 evs' t0
    (fun e he => hok e (by simp [he])) (fun e he => hok e (by simp [he]))
    (hins.ok (fun e he => hok e (by simp [he]))) ht1 (ht0 t0 rfl)
    (by rw [hins.stepsOk]; exact ht3) hns p q s s' b1 b2 b' c1 c2 c' h1 h2 h3 h4).1
  rw [hins.endTime, hins.nSteps] at this
  exact ⟨this, hins.endTime t0, hins.nSteps⟩

/-- Non-vacuity: `badEvs` with three more flushes inserted is an `InsFlush` of `badEvs`, and (on
`exactOps`) still sends 1472 bytes. -/
example : InsFlush badEvs
      [.flush, .flush, .step 249728261, .flush, .step 499456522, .flush, .flush, .step 749184783,
       .flush, .step 998913044, .flush, .flush] ∧
    chainB exactOps (s1472 exactOps) exPre 0
      [.flush, .flush, .step 249728261, .flush, .step 499456522, .flush, .flush, .step 749184783,
       .flush, .step 998913044, .flush, .flush] (fun _ _ _ b _ => decide (b = 1472)) = true :=
  ⟨.keep _ (.ins (.keep _ (.keep _ (.keep _ (.keep _ (.ins (.keep _ (.keep _ (.keep _ (.keep _
    (.ins .nil))))))))))), by decide +kernel⟩

/-! ## 5. The hypothesis carries the claim -/

/-- **Witness: without `FillOk` the bound is false.** `badOps` differs from `exactOps` only in
`fillBytes`, which rounds `rate·dt` to the NEAREST byte at every fill and carries no remainder — the
defect F14 that `fill_flush_alloc` had. (i) It satisfies `FillOk` for no slack below 0.4995 byte on
any domain containing 1472 B/s and 0.34 ms. (ii) All other hypotheses of `C13_wire_bound` hold for
the run `send 2896 bytes; step 0; badEvs` at ceiling 1472 B/s, the run does not trap, and it sends
`b = 2944` bytes in `0.998913044 s` — more than `1472 × 0.998913044 + 1472.5 + 1` bytes, i.e. the
conclusion fails even with the largest possible fraction term. (On `exactOps` the same run sends
1472 bytes, see the example above.) -/
theorem C13_wire_bound_witness :
    (∀ eps, eps < 499520000 → ∀ K : FillOk badOps eps, 1472 ≤ K.maxRate → 340000 ≤ K.maxDt → False) ∧
    MSS ≤ cfg1472.txBandwidthLimit ∧ (∀ ev ∈ exPre ++ .step 0 :: [] ++ badEvs, ev.Ok) ∧
    stepsOk 1000000000 0 (exPre ++ .step 0 :: [] ++ badEvs) = true ∧
    (∀ ev ∈ ([] : List Ev), ∀ t, ev ≠ .step t) ∧
    ∃ (p q s' : State Nat) (b1 b : Nat) (c1 c : Int),
      run badOps (init badOps cfg1472 0 { fifo := [], state := 0 }) exPre = .ok (p, b1, c1) ∧
      step badOps p 0 = .ok q ∧ run badOps q [] = .ok (q, 0, 0) ∧
      run badOps q badEvs = .ok (s', b, c) ∧ b = 2944 ∧
      ¬ (b * 1000000000 ≤
          cfg1472.txBandwidthLimit * ((endTime 0 badEvs - 0) + badFillMaxOk.rttNs p.rate.rttS) +
            1472500000000 + 1000000000 + nSteps badEvs * 0) := by
  refine ⟨fun eps heps K hR hD => badOps_not_fillOk eps heps K hR hD, by decide, by decide +kernel,
    by decide +kernel, fun ev hev => (by cases hev), ?_⟩
  have key : chainB badOps (s1472 badOps) exPre 0 badEvs (fun p _ _ b _ =>
      decide (b = 2944 ∧ badFillMaxOk.rttNs p.rate.rttS = 0)) = true := by decide +kernel
  obtain ⟨p, b1, c1, q, s', b, c, h1, h2, h3, hP⟩ := chainB_spec _ _ _ _ _ _ key
  simp only [decide_eq_true_eq] at hP
  obtain ⟨hb, hrtt⟩ := hP
  refine ⟨p, q, s', b1, b, c1, c, h1, h2, rfl, h3, hb, ?_⟩
  have he : endTime 0 badEvs = 998913044 := by decide +kernel
  have hn : nSteps badEvs = 4 := by decide +kernel
  have hl : cfg1472.txBandwidthLimit = 1472 := rfl
  rw [hrtt, he, hn, hb, hl]
  decide

end Uflow.Props.C13
