import Uflow.Lemmas.EpPeerEx

/-!
# C09 — the peer endpoint's part: packets first, then Disconnect

Model: `Uflow.Endpoint` (`Uflow/Model/Endpoint.lean`); every theorem holds for every half connection
`hc : HC H`. Helper lemmas: `Uflow/Lemmas/EpPeer*.lean`.

Elsewhere (`C09`, `C09Hc`): the disconnecting side transmits its Disconnect frame only when nothing is
pending, and then the peer's half connection has completely received every Reliable packet. Here: the
peer *endpoint* feeds every traffic frame to its half connection in arrival order, reports every packet
`hc.receive` returns, in order, and, on a Disconnect frame in `active`, first calls `hc.receive` on the
half connection that has dispatched every earlier traffic frame, reports those packets, and only then
`disconnect`; nothing follows.

Vocabulary (lemma files): `trafficOf arrivals` — the decoded data/sync/ack frames among the datagrams, in
arrival order; `trafficOfOps ops` — those of all `step`s of a run; `dispatchAll hc h fs` — `hc.dispatch`
applied to `fs` one after the other; `hasDisc pre` — some datagram of `pre` decodes to Disconnect;
`decodesTo b f`; `HCall` — one call on the half connection (`send`, `dispatch f`, `step now`,
`flush rng`, `receive`); `replay hc h calls` — executes the calls from `h`, returning the final half
connection and the concatenated outputs of the `receive` calls; `dispatched calls` — the frames of the
`dispatch` calls; `recvOf evs` — the payloads of the `receive` events of `evs`;
`Server.afterDisconnect s c addr nowMs pkts` — the state `handle_disconnect` builds.
-/

namespace Uflow.Props.C09

open Uflow.Endpoint Uflow.Codec Uflow.Gen Uflow.HalfConn

variable {H : Type}

/-! ## Client -/

/-- `C09_peer_client_disconnect_drains` (single transition): a Disconnect frame handled by an `active`
client succeeds only if `hc.receive` on the current half connection does; the packets it returns are
appended to the event buffer as `receive` events, in order, then `disconnect`; the client becomes `closed`
and answers with exactly one `disconnectAck`. -/
theorem C09_peer_client_disconnect_drains (hc : HC H) (c c' : Client H) (nowMs nowNs : Nat)
    (out : List (List Nat)) (ln : Nat) (h : H) (t : Nat) (sig : Option DisconnectMode)
    (hs : c.state = .active ln h t sig) (hf : c.handleFrame hc .disconnect nowMs nowNs = .ok (c', out)) :
    ∃ h' pkts, hc.receive h = .ok (h', pkts) ∧
      c'.eventsOut = c.eventsOut ++ pkts.map CEvent.receive ++ [CEvent.disconnect] ∧
      c'.state = .closed (nowMs + CLIENT_CLOSED_TIMEOUT_MS) ∧ out = [discAck] := by
  obtain ⟨h', pkts, hr, rfl, ho⟩ := Client.handleFrame_disconnect_active hc c c' nowMs nowNs out ln h t sig hs hf
  exact ⟨h', pkts, hr, rfl, rfl, ho⟩

/-- `C09_peer_client_step_disconnect_drains` (whole `step`): the client is `active` (with or without an own
disconnect signalled) and the arrival list is `pre ++ b :: post`, `b` being the first Disconnect frame.
Then the events returned by the step are exactly: the packets returned by `hc.receive` applied to the half
connection obtained from the current one by the step's initial `flush` and the dispatch of every
data/sync/ack frame of `pre` in arrival order — as `receive` events, in order — followed by `disconnect`.
Nothing follows: neither `post` nor the timer and step phases add an event; the client is `closed`/`fin`
with an empty buffer. -/
theorem C09_peer_client_step_disconnect_drains (hc : HC H) (c c' : Client H) (nowNs : Nat)
    (pre : List (List Nat)) (b : List Nat) (post sent : List (List Nat)) (evs : List CEvent) (ln : Nat) (hh : H)
    (t : Nat) (sig : Option DisconnectMode) (hs : c.state = .active ln hh t sig) (he : c.eventsOut = [])
    (hpre : hasDisc pre = false) (hb : decodesTo b .disconnect)
    (h : c.step hc nowNs (pre ++ b :: post) = .ok (c', sent, evs)) :
    ∃ h1 rng1 fr h2 h3 pkts, hc.flush hh c.rng = .ok (h1, rng1, fr) ∧
      dispatchAll hc h1 (trafficOf pre) = .ok h2 ∧ hc.receive h2 = .ok (h3, pkts) ∧
      evs = pkts.map CEvent.receive ++ [CEvent.disconnect] ∧ c'.state.terminal ∧ c'.eventsOut = [] := by
  obtain ⟨h1, rng1, fr, h2, h3, pkts, x1, x2, x3, x4, x5, x6⟩ :=
    Client.step_disconnect_drains hc c c' nowNs pre b post sent evs ln hh t sig hs hpre hb h
  rw [he, List.nil_append] at x4
  exact ⟨h1, rng1, fr, h2, h3, pkts, x1, x2, x3, x4, x5, x6⟩

/-- … and nothing is ever delivered after that step: any further run from the state it leaves delivers no
event at all and stays `closed`/`fin` (this is `C08_client_quiet_after_terminal`). -/
theorem C09_peer_client_nothing_after_disconnect (hc : HC H) (c c' c'' : Client H) (nowNs : Nat)
    (pre : List (List Nat)) (b : List Nat) (post sent sent' : List (List Nat)) (evs evs' : List CEvent) (ln : Nat)
    (hh : H) (t : Nat) (sig : Option DisconnectMode) (hs : c.state = .active ln hh t sig)
    (hpre : hasDisc pre = false) (hb : decodesTo b .disconnect)
    (h : c.step hc nowNs (pre ++ b :: post) = .ok (c', sent, evs)) (ops : List COp)
    (h' : Client.run hc c' ops = .ok (c'', sent', evs')) : evs' = [] ∧ c''.state.terminal := by
  obtain ⟨_, _, _, _, _, _, -, -, -, -, x5, x6⟩ :=
    Client.step_disconnect_drains hc c c' nowNs pre b post sent evs ln hh t sig hs hpre hb h
  obtain ⟨h1, -, h3, -, -⟩ := Client.run_terminal hc ops c' c'' sent' evs' x5 x6 h'
  exact ⟨h3, h1⟩

/-- `C09_peer_client_trace` (every run): take any run (any list of `step` / `send` / `disconnect` / `flush`
calls) from an `active` client with half connection `h0` and an empty event buffer. There is a list
`calls` of half-connection calls such that
* replaying `calls` from `h0` succeeds, and the payloads of all `receive` events delivered by the run
  (`evs` is the concatenation of the event lists returned by the `step`s) are exactly the concatenated
  outputs of the `receive` calls, in order — no packet returned by `hc.receive` is lost or reordered, no
  `receive` event is invented;
* the frames of the `dispatch` calls are a prefix of the data/sync/ack frames handed to the `step`s, in
  arrival order (frames that arrive after the connection has ended are not dispatched);
* if the client is still `active`, its half connection is the result of the replay and the `dispatch`
  calls are exactly all those frames.
For runs that start before the handshake see `C09_peer_client_trace_connect_partial`. -/
theorem C09_peer_client_trace (hc : HC H) (ops : List COp) (c c' : Client H) (sent : List (List Nat))
    (evs : List CEvent) (ln : Nat) (h0 : H) (t : Nat) (sig : Option DisconnectMode)
    (hs : c.state = .active ln h0 t sig) (he : c.eventsOut = [])
    (h : Client.run hc c ops = .ok (c', sent, evs)) :
    ∃ (calls : List HCall) (hf : H),
      replay hc h0 calls = .ok (hf, recvOf evs) ∧
      dispatched calls <+: trafficOfOps ops ∧
      (∀ ln' h' t' sig', c'.state = .active ln' h' t' sig' → h' = hf ∧ dispatched calls = trafficOfOps ops) ∧
      c'.eventsOut = [] := by
  obtain ⟨he', cs, tr⟩ := Client.run_CPTr hc ops c c' sent evs (by rw [hs]; rfl) he h
  obtain ⟨hf, r, p, e⟩ := tr.act h0 (by rw [hs]; rfl)
  exact ⟨cs, hf, r, p, fun ln' h' t' sig' hs' => e h' (by rw [hs']; rfl), he'⟩

/-- `C09_peer_client_trace_connect_partial`: the same for every run that starts `pending` with an empty event
buffer — in particular every run from `Client.connect`. Either the client has no half connection at the end
and no `receive` event was ever delivered; or the connection was established by a SYN-ACK, creating the
half connection `hcStart hc cfg now' sends` (= `hc.new cfg now'` followed by the `send`s queued while
`pending`), and there is a list `calls` whose replay from that half connection succeeds with the payloads of
all `receive` events of the run as the concatenated outputs of its `receive` calls, whose `dispatch` calls
are a prefix of `fr` — a suffix of the traffic frames handed to the `step`s (those that arrived after the
SYN-ACK) — and, if the client is still `active`, its half connection is the result of the replay and the
dispatched frames are exactly `fr`. PARTIAL — missing: which `cfg`, and where in the arrival order `fr`
starts; `C08_client_handleFrame_cases` gives `cfg = hcConfig ep ln n r a` at the SYN-ACK; from the `active`
state on, `C09_peer_client_trace` is exact. -/
theorem C09_peer_client_trace_connect_partial (hc : HC H) (ops : List COp) (c c' : Client H) (sent : List (List Nat))
    (evs : List CEvent) (ln : Nat) (req : List Nat) (rt rc : Nat) (snds : List (List Nat × Nat × SendMode))
    (hs : c.state = .pending ln req rt rc snds) (he : c.eventsOut = [])
    (h : Client.run hc c ops = .ok (c', sent, evs)) :
    (recvOf evs = [] ∧ ∀ ln' h' t' sig', c'.state ≠ .active ln' h' t' sig') ∨
    ∃ (cfg : Config) (now' : Nat) (sends : List (List Nat × Nat × SendMode)) (calls : List HCall) (hf : H)
      (fr : List Frame), fr <:+ trafficOfOps ops ∧
      replay hc (hcStart hc cfg now' sends) calls = .ok (hf, recvOf evs) ∧
      dispatched calls <+: fr ∧
      ∀ ln' h' t' sig', c'.state = .active ln' h' t' sig' → h' = hf ∧ dispatched calls = fr := by
  have g0 : G hc c [] [] := Or.inl ⟨by rw [hs]; rfl, by rw [he]; rfl⟩
  obtain ⟨he', g⟩ := Client.run_G hc ops c c' sent evs he h [] [] g0
  rw [List.nil_append, List.nil_append] at g
  rcases g with ⟨g1, g2⟩ | ⟨cfg, now', sends, ln0, t0, cs, fr, hsuf, p⟩
  · rw [he', List.append_nil] at g2
    exact Or.inl ⟨g2, fun ln' h' t' sig' e => by rw [e] at g1; cases g1⟩
  · rw [he', List.append_nil] at p
    obtain ⟨hf, r, pf, e⟩ := p.act _ rfl
    exact Or.inr ⟨cfg, now', sends, cs, hf, fr, hsuf, r, pf, fun ln' h' t' sig' hs' => e h' (by rw [hs']; rfl)⟩

/-- … instantiated for `Client.connect`. -/
theorem C09_peer_client_trace_from_connect_partial (hc : HC H) (ep : EpConfig) (now : Nat) (rng : Rng) (ops : List COp)
    (c' : Client H) (sent : List (List Nat)) (evs : List CEvent)
    (h : Client.run hc (Client.connect ep now rng).1 ops = .ok (c', sent, evs)) :
    (recvOf evs = [] ∧ ∀ ln' h' t' sig', c'.state ≠ .active ln' h' t' sig') ∨
    ∃ (cfg : Config) (now' : Nat) (sends : List (List Nat × Nat × SendMode)) (calls : List HCall) (hf : H)
      (fr : List Frame), fr <:+ trafficOfOps ops ∧
      replay hc (hcStart hc cfg now' sends) calls = .ok (hf, recvOf evs) ∧
      dispatched calls <+: fr ∧
      ∀ ln' h' t' sig', c'.state = .active ln' h' t' sig' → h' = hf ∧ dispatched calls = fr :=
  C09_peer_client_trace_connect_partial hc ops _ c' sent evs _ _ _ _ _ rfl rfl h

/-- The same for a single `step` of an `active` client: the calls of that step, the events of that step. -/
theorem C09_peer_client_trace_step (hc : HC H) (c c' : Client H) (nowNs : Nat) (arrivals sent : List (List Nat))
    (evs : List CEvent) (ln : Nat) (h0 : H) (t : Nat) (sig : Option DisconnectMode)
    (hs : c.state = .active ln h0 t sig) (he : c.eventsOut = [])
    (h : c.step hc nowNs arrivals = .ok (c', sent, evs)) :
    ∃ (calls : List HCall) (hf : H),
      replay hc h0 calls = .ok (hf, recvOf evs) ∧
      dispatched calls <+: trafficOf arrivals ∧
      (∀ ln' h' t' sig', c'.state = .active ln' h' t' sig' → h' = hf ∧ dispatched calls = trafficOf arrivals) := by
  obtain ⟨-, cs, tr⟩ := Client.step_CPTr hc c c' nowNs arrivals sent evs (by rw [hs]; rfl) he h
  obtain ⟨hf, r, p, e⟩ := tr.act h0 (by rw [hs]; rfl)
  exact ⟨cs, hf, r, p, fun ln' h' t' sig' hs' => e h' (by rw [hs']; rfl)⟩

/-! ### Non-vacuity (client) -/

/-- An `active` client that gets two data frames, a Disconnect frame and one more data frame in the same
`step` reports the two packets, then `disconnect`, and nothing afterwards (`rxHC`: one packet
`[sequence id]` per dispatched data frame). -/
example : okAnd (Client.run rxHC exClientE
      [.step 1000000 [exSynAck], .step 2000000 [exData 5, exData 6, encode .disconnect, exData 7],
       .step 3000000 [exData 8]])
    (fun r => decide (r.2.2 = [CEvent.connect, .receive [5], .receive [6], .disconnect])) = true := by
  decide +kernel

/-- The same with `echoHC` (delivers what was `send`-queued): data frame and Disconnect in one step. -/
example : okAnd (Client.run echoHC exClientE
      [.send [1] 0 .reliable, .step 1000000 [exSynAck], .send [2] 0 .reliable,
       .step 2000000 [exData 5, encode .disconnect]])
    (fun r => decide (r.2.2 = [CEvent.connect, .receive [1], .receive [2], .disconnect])) = true := by
  decide +kernel

/-- Hypotheses of the step-level theorem: an `active` state with an empty buffer reached by a run, and an
arrival list `pre ++ b :: post` with `hasDisc pre = false`, `b` a Disconnect frame. -/
example : okAnd (Client.run rxHC exClientE [.step 1000000 [exSynAck]])
    (fun r => (match r.1.state with | .active .. => true | _ => false) && r.1.eventsOut.isEmpty) = true ∧
    hasDisc [exData 5, exData 6] = false ∧ decodesTo (encode .disconnect) .disconnect := by
  refine ⟨by decide +kernel, by decide +kernel, by unfold decodesTo; decide +kernel⟩

/-! ## Server -/

/-- `C09_peer_server_disconnect_drains` (single transition): a Disconnect frame from an address whose entry
`c` is `active` succeeds only if `hc.receive` on that entry's half connection does; the packets it returns
are appended to the event buffer as `receive addr` events, in order, then `disconnect addr`; the reply is
exactly one `disconnectAck` to `addr`; and in a well-formed state the entry of `addr` is afterwards the same
object, `closed`, while all other entries are untouched. -/
theorem C09_peer_server_disconnect_drains (hc : HC H) (s s' : Server H) (addr nowMs : Nat)
    (out : List (Nat × List Nat)) (c : RClient H) (hh : H) (t : Nat) (sig : Option DisconnectMode)
    (hf : s.find addr = some c) (hst : c.state = .active hh t sig)
    (h : s.handleDisconnect hc addr nowMs = .ok (s', out)) :
    ∃ h' pkts, hc.receive hh = .ok (h', pkts) ∧
      s'.eventsOut = s.eventsOut ++ pkts.map (SEvent.receive addr) ++ [SEvent.disconnect addr] ∧
      out = [(addr, discAck)] ∧
      (s.WF → ∀ a, s'.find a = if a = addr then some { c with state := .closed } else s.find a) := by
  obtain ⟨h', pkts, hr, rfl, he, ho⟩ := Server.handleDisconnect_active hc s s' addr nowMs out c hh t sig hf hst h
  exact ⟨h', pkts, hr, he, ho, fun hw a => Server.find_afterDisconnect s hw c addr nowMs pkts hf a⟩

/-- The same through `handleFrame` (the frame handler of `handle_frames`). -/
theorem C09_peer_server_handleFrame_disconnect (hc : HC H) (s s' : Server H) (addr nowMs nowNs : Nat)
    (out : List (Nat × List Nat)) (c : RClient H) (hh : H) (t : Nat) (sig : Option DisconnectMode)
    (hf : s.find addr = some c) (hst : c.state = .active hh t sig)
    (h : s.handleFrame hc addr .disconnect nowMs nowNs = .ok (s', out)) :
    ∃ h' pkts, hc.receive hh = .ok (h', pkts) ∧
      s'.eventsOut = s.eventsOut ++ pkts.map (SEvent.receive addr) ++ [SEvent.disconnect addr] ∧
      out = [(addr, discAck)] :=
  let ⟨h', pkts, hr, he, ho, _⟩ := C09_peer_server_disconnect_drains hc s s' addr nowMs out c hh t sig hf hst h
  ⟨h', pkts, hr, he, ho⟩

/-! ### Non-vacuity (server) -/

/-- Address 5 is `active`, then two data frames, a Disconnect frame and one more data frame arrive in the
same `step`: the two packets, then `disconnect 5`, nothing else. -/
example : okAnd (Server.run rxHC exServerE
      [.step 1000000 [(5, exSyn)], .step 2000000 [(5, exHsAck)],
       .step 3000000 [(5, exData 9), (5, exData 10), (5, encode .disconnect), (5, exData 11)], .step 4000000 [(5, exData 12)]])
    (fun r => decide (r.2.2 = [SLabel.ev (.connect 5), .ev (.receive 5 [9]), .ev (.receive 5 [10]), .ev (.disconnect 5)])) = true := by
  decide +kernel

end Uflow.Props.C09
