import Uflow.Lemmas.FlushProgNew
import Uflow.Lemmas.CreditEx
import Uflow.Lemmas.HcInvLoops

/-!
# C02 (progress) — one `flush` with credit transmits what is due

`HalfConn.flush` (`emit_frames`: ack frames, then resends that are due, then pending fragments, then
new packets from the send queue via `PSend.emit`, finally a sync frame). C11Credit shows that the
credit is eventually `≥ 0`; these theorems turn that into "something is transmitted": for EVERY state
`s` and every successful `flush s = .ok (s', out)` (C03: `flush` never traps under `HcInv`,
`C02_flush_progress_total`).

Vocabulary (`Uflow/Lemmas/FlushProg*.lean`):
* `DataIn dg out` — some frame of `out` is `encode (.data id nonce dgs)` with `dg ∈ dgs`;
* `AckPassed s` — the ack stage `emitAckFrames s` returns `.cont` and leaves credit `≥ 0`
  (`C02_ack_passed_idle`: true if no ack group is queued, no sync reply is owed and `0 ≤ flushAlloc`);
* `ResendIdle s` — the resend queue is empty, or its head is a live entry (packet in the send window,
  fragment not acknowledged) with `nowMs < resendTime`;
* `Sendable s` — a live, due head of the resend queue; or `ResendIdle` and a live head of the pending
  queue (not fragment 0 of an expired TimeSensitive packet); or `ResendIdle`, `pending = []` and
  `PSend.emit s.ps s.flushId` hands out a packet;
* `Skipped ps u fid` (C12) — packet `u` has left the window or fragment `fid` is acknowledged;
  `InResend s u fid`, `QInv` (C12).
-/

namespace Uflow.Props.C02

open Uflow Uflow.Gen Uflow.Codec Uflow.HalfConn Uflow.Credit Uflow.CreditEx Uflow.FlushProg
open Uflow.Wire Uflow.Modes
open Uflow.PSend (UidInv)

variable {F : Type}

/-- If no ack group is queued and no sync reply is owed, the ack stage does nothing; with
`0 ≤ flushAlloc` it is passed. -/
theorem C02_ack_passed_idle (s : State F) (hr : s.syncReply = false) (he : s.aq.entries = [])
    (hA : 0 ≤ s.flushAlloc) : emitAckFrames s = (s, [], .cont) ∧ AckPassed s :=
  ⟨emitAckFrames_idle s hr he, ackPassed_idle s hr he hA⟩

/-- **A due resend is sent.** If the ack stage is passed with credit `≥ 0`, the frame window can
take a frame and the head of the resend queue is a live entry (packet `p` still in the send window,
fragment not acknowledged) with `resendTime ≤ nowMs`, then every successful `flush` hands the sink a
data frame carrying the datagram `p.datagram fid` of that fragment (which exists); and (with the
queue invariant `QInv` of C12) the fragment is still scheduled in the resend queue afterwards — by
`C12_resendLoop_push` the entry popped is re-queued with
`resendTime = nowMs + rttMs·2^sendCount` and `sendCount + 1` (capped). -/
theorem C02_flush_sends_due_resend (s s' : State F) (out : List (List Nat)) (entry : REntry)
    (p : PSend.Pending) (hack : AckPassed s) (hcp : FrameQ.canPush s.fq = true)
    (h0 : s.resend[0]? = some entry) (h1 : PSend.findPacket s.ps entry.uid = some p)
    (h2 : entry.fid ∉ p.acked) (h3 : entry.resendTime ≤ s.nowMs)
    (h : flush s = .ok (s', out)) :
    (∃ dg, p.datagram entry.fid = .ok dg ∧ DataIn dg out) ∧
    (QInv s → InResend s' entry.uid entry.fid) := by
  obtain ⟨t1, _, t3, t4, _, _⟩ := emitAckFrames_tx s
  have hfq := emitAckFrames_fq s
  constructor
  · obtain ⟨s2, out2, st, hd, hsub⟩ := flush_stage s s' out hack h
    obtain ⟨dg, hd1, hd2⟩ := data_resend _ s2 out2 st entry p hack.2 (by rw [hfq]; exact hcp)
      (by rw [t3]; exact h0) (by rw [t1]; exact h1) h2 (by rw [t4]; exact h3) hd
    exact ⟨dg, hd1, hsub dg hd2⟩
  · intro hq
    obtain ⟨tr, htr⟩ := (flush_iff_flushT s s' out).mp h
    have hsp := flushT_spec s s' out tr hq htr
    refine (hsp.keep entry.uid entry.fid ⟨entry, ?_, rfl, rfl⟩ ?_).1
    · exact Array.mem_toList_iff.mpr (Array.mem_of_getElem? h0)
    · rintro (hn | ⟨p', hp', ha⟩)
      · rw [h1] at hn; cases hn
      · rw [h1] at hp'; cases hp'; exact h2 ha

/-- **The head of the pending queue is sent.** Ack stage passed, frame window open, resend queue
idle (empty, or live head not yet due), and the head of the pending queue is a live fragment
(packet `p` in the send window, fragment not acknowledged, not fragment 0 of a TimeSensitive packet
queued for another flush): every successful `flush` hands the sink a data frame carrying
`p.datagram fid`. -/
theorem C02_flush_sends_pending (s s' : State F) (out : List (List Nat)) (entry : PEntry)
    (rest : List PEntry) (p : PSend.Pending) (hack : AckPassed s)
    (hcp : FrameQ.canPush s.fq = true) (hidle : ResendIdle s) (h0 : s.pending = entry :: rest)
    (h1 : PSend.findPacket s.ps entry.uid = some p) (h2 : entry.fid ∉ p.acked)
    (h3 : ¬ (entry.fid = 0 ∧ p.expired s.flushId = true))
    (h : flush s = .ok (s', out)) :
    ∃ dg, p.datagram entry.fid = .ok dg ∧ DataIn dg out := by
  obtain ⟨t1, t2, _, _, _, t6⟩ := emitAckFrames_tx s
  have hfq := emitAckFrames_fq s
  obtain ⟨s2, out2, st, hd, hsub⟩ := flush_stage s s' out hack h
  obtain ⟨dg, hd1, hd2⟩ := data_pending _ s2 out2 st entry rest p (resendIdle_ack s hidle) hack.2
    (by rw [hfq]; exact hcp) (by rw [t2]; exact h0) (by rw [t1]; exact h1) h2
    (by rw [t6]; exact h3) hd
  exact ⟨dg, hd1, hsub dg hd2⟩

/-- **A new packet is emitted.** Ack stage passed, frame window open, resend queue idle, pending
queue empty, and `PSend.emit` hands out the head `p` of the send queue (packet window not full,
allocation limit not exceeded: `C02_emit_refuses` lists when it does not), packet identities in the
window unique (`UidInv`, C12): every successful `flush` hands the sink a data frame carrying
fragment 0 of `p`. -/
theorem C02_flush_emits_new_packet (s s' : State F) (out : List (List Nat)) (ps' : PSend.State)
    (p : PSend.Pending) (resend : Bool) (hack : AckPassed s) (hcp : FrameQ.canPush s.fq = true)
    (hidle : ResendIdle s) (h0 : s.pending = []) (hu : UidInv s.ps)
    (hem : PSend.emit s.ps s.flushId = .ok (ps', some (p, resend)))
    (h : flush s = .ok (s', out)) :
    ∃ dg, p.datagram 0 = .ok dg ∧ DataIn dg out := by
  obtain ⟨t1, t2, _, _, _, t6⟩ := emitAckFrames_tx s
  have hfq := emitAckFrames_fq s
  obtain ⟨s2, out2, st, hd, hsub⟩ := flush_stage s s' out hack h
  obtain ⟨dg, hd1, hd2⟩ := data_new _ s2 out2 st ps' p resend (resendIdle_ack s hidle) hack.2
    (by rw [hfq]; exact hcp) (by rw [t2]; exact h0) (by rw [t1]; exact hu)
    (by rw [t1, t6]; exact hem) hd
  exact ⟨dg, hd1, hsub dg hd2⟩

/-- When `PSend.emit` hands out nothing (and does not trap): after dropping the stale TimeSensitive
entries at the head of the send queue, the queue is empty, or the packet window is full, or the
allocation limit would be exceeded by the head packet. -/
theorem C02_emit_refuses (ps ps' : PSend.State) (f : Nat) (h : PSend.emit ps f = .ok (ps', none)) :
    ∃ queue total, PSend.dropStale f ps.queue ps.totalSize = .ok (queue, total) ∧
      (queue = [] ∨ pidSub ps.nextId ps.baseId ≥ ps.windowSize ∨
        ∃ q rest, queue = q :: rest ∧ ps.alloc + PSend.allocSize q.data.length > ps.maxAlloc) :=
  emit_none_cases ps ps' f h

/-- **Progress.** Ack stage passed with credit `≥ 0`, frame window open, and something is
`Sendable` (a due resend, or a pending fragment, or an emittable packet): every successful `flush`
emits at least one data frame (`out ≠ []`). -/
theorem C02_flush_progress (s s' : State F) (out : List (List Nat)) (hack : AckPassed s)
    (hcp : FrameQ.canPush s.fq = true) (hu : UidInv s.ps) (hw : Sendable s)
    (h : flush s = .ok (s', out)) :
    out ≠ [] ∧ ∃ dg, DataIn dg out := by
  have key : ∃ dg, DataIn dg out := by
    rcases hw with ⟨entry, p, h0, h1, h2, h3⟩ | ⟨hidle, entry, rest, p, h0, h1, h2, h3⟩ |
      ⟨hidle, h0, ps', p, resend, hem⟩
    · obtain ⟨dg, _, hd⟩ := (C02_flush_sends_due_resend s s' out entry p hack hcp h0 h1 h2 h3 h).1
      exact ⟨dg, hd⟩
    · obtain ⟨dg, _, hd⟩ := C02_flush_sends_pending s s' out entry rest p hack hcp hidle h0 h1 h2 h3 h
      exact ⟨dg, hd⟩
    · obtain ⟨dg, _, hd⟩ := C02_flush_emits_new_packet s s' out ps' p resend hack hcp hidle h0 hu hem h
      exact ⟨dg, hd⟩
  refine ⟨?_, key⟩
  obtain ⟨dg, id, n, dgs, hm, _⟩ := key
  intro he
  rw [he] at hm
  cases hm

/-- **Progress, total.** Under the half-connection invariant `HcInv` (C03) the flush does not
trap. -/
theorem C02_flush_progress_total (s : State F) (hinv : HcInv.HcInv s) (hack : AckPassed s)
    (hcp : FrameQ.canPush s.fq = true) (hu : UidInv s.ps) (hw : Sendable s) :
    ∃ s' out, flush s = .ok (s', out) ∧ out ≠ [] ∧ ∃ dg, DataIn dg out := by
  obtain ⟨s', out, h, _⟩ := HcInv.flush_ok s hinv
  exact ⟨s', out, h, C02_flush_progress s s' out hack hcp hu hw h⟩

/-- **Why a flush is silent** (partial: see below). A successful `flush` that emits no data frame
is explained by one of:
1. credit: the ack stage ended the flush (`.stop`: it ran out of credit) or left credit `< 0`
   (in particular whenever `flushAlloc < 0` at the start, `C02_no_credit_silent`);
2. the frame window is full;
3. the head of the resend queue is a dead entry (packet gone or fragment acknowledged);
4. resend queue idle (empty or head not due yet) and the head of the pending queue is dead, or is
   fragment 0 of an expired TimeSensitive packet;
5. resend queue idle (empty or timers in the future), pending queue empty, and `PSend.emit` does
   not hand out a packet (send queue empty, packet window full or allocation limit:
   `C02_emit_refuses`).
PARTIAL with respect to "exactly credit / frame window / packet window / nothing due": in cases 3
and 4 the loops pop the dead head entry and go on with the next one; this theorem does not follow
them past the head (the per-entry one-step lemmas are `C12_resendLoop_skip`,
`C12_pendingInner_skip`, `C12_pendingInner_expired`). -/
theorem C02_flush_silent_cases_partial (s s' : State F) (out : List (List Nat)) (hu : UidInv s.ps)
    (h : flush s = .ok (s', out)) (hsil : ∀ dg, ¬ DataIn dg out) :
    ((emitAckFrames s).2.2 = .stop ∨ (emitAckFrames s).1.flushAlloc < 0) ∨
    FrameQ.canPush s.fq = false ∨
    (∃ entry, s.resend[0]? = some entry ∧ Skipped s.ps entry.uid entry.fid) ∨
    (ResendIdle s ∧ ∃ entry rest, s.pending = entry :: rest ∧
      (Skipped s.ps entry.uid entry.fid ∨
        ∃ p, PSend.findPacket s.ps entry.uid = some p ∧ entry.fid = 0 ∧
          p.expired s.flushId = true)) ∨
    (ResendIdle s ∧ s.pending = [] ∧
      ∀ ps' p resend, PSend.emit s.ps s.flushId ≠ .ok (ps', some (p, resend))) := by
  by_cases hack : AckPassed s
  · right
    cases hcp : FrameQ.canPush s.fq with
    | false => exact .inl rfl
    | true =>
      right
      have hidle_or : ResendIdle s ∨ ∃ entry, s.resend[0]? = some entry ∧
          Skipped s.ps entry.uid entry.fid := by
        cases h0 : s.resend[0]? with
        | none => exact .inl (.inl h0)
        | some entry =>
          cases h1 : PSend.findPacket s.ps entry.uid with
          | none => exact .inr ⟨entry, rfl, .inl h1⟩
          | some p =>
            by_cases h2 : entry.fid ∈ p.acked
            · exact .inr ⟨entry, rfl, .inr ⟨p, h1, h2⟩⟩
            · by_cases h3 : entry.resendTime ≤ s.nowMs
              · obtain ⟨dg, _, hd⟩ :=
                  (C02_flush_sends_due_resend s s' out entry p hack hcp h0 h1 h2 h3 h).1
                exact absurd hd (hsil dg)
              · exact .inl (.inr ⟨entry, p, h0, h1, h2, by omega⟩)
      rcases hidle_or with hidle | hdead
      · right
        cases h0 : s.pending with
        | nil =>
          refine .inr ⟨hidle, rfl, fun ps' p resend hem => ?_⟩
          obtain ⟨dg, _, hd⟩ :=
            C02_flush_emits_new_packet s s' out ps' p resend hack hcp hidle h0 hu hem h
          exact hsil dg hd
        | cons entry rest =>
          refine .inl ⟨hidle, entry, rest, rfl, ?_⟩
          cases h1 : PSend.findPacket s.ps entry.uid with
          | none => exact .inl (.inl h1)
          | some p =>
            by_cases h2 : entry.fid ∈ p.acked
            · exact .inl (.inr ⟨p, h1, h2⟩)
            · by_cases h3 : entry.fid = 0 ∧ p.expired s.flushId = true
              · exact .inr ⟨p, rfl, h3.1, h3.2⟩
              · obtain ⟨dg, _, hd⟩ :=
                  C02_flush_sends_pending s s' out entry rest p hack hcp hidle h0 h1 h2 h3 h
                exact absurd hd (hsil dg)
      · exact .inl hdead
  · left
    unfold AckPassed at hack
    cases hst : (emitAckFrames s).2.2 with
    | stop => exact .inl rfl
    | cont => exact .inr (by rw [hst] at hack; simp only [true_and] at hack; omega)

/-- **The credit hypothesis is needed**: with negative credit a flush sends nothing at all,
whatever is pending (C13). -/
theorem C02_no_credit_silent (s s' : State F) (out : List (List Nat)) (hA : s.flushAlloc < 0)
    (h : flush s = .ok (s', out)) : out = [] :=
  flush_neg s s' out hA h

/-! ## Non-vacuity and witnesses (`exOps`, `Uflow.CreditEx`) -/

/-- Evaluates `flush s`: the lengths of the emitted frames and the resend queue afterwards. -/
def flushLens (s : State Nat) : Option (List Nat × List (Nat × Nat × Nat × Nat)) :=
  match flush s with
  | .ok (s', out) =>
    some (out.map List.length, s'.resend.toList.map fun r => (r.uid, r.fid, r.resendTime, r.sendCount))
  | .error _ => none

/-- `C02_flush_emits_new_packet`: a 100-byte Reliable packet in the send queue, credit 0 after the
first `step`: all hypotheses hold, one data frame of 119 bytes goes out (and the fragment is
scheduled for resending at `nowMs + rttMs = 150`). -/
example :
    let s := exState [.send (List.replicate 100 7) 0 .reliable, .step 0]
    s.syncReply = false ∧ s.aq.entries = [] ∧ 0 ≤ s.flushAlloc ∧ FrameQ.canPush s.fq = true ∧
    s.resend[0]? = none ∧ s.pending = [] ∧
    (match PSend.emit s.ps s.flushId with
     | .ok (_, some (p, r)) => decide (p.uid = 0 ∧ r = true)
     | _ => false) = true ∧
    flushLens s = some ([119], [(0, 0, 150, 1)]) := by
  intro s
  refine ⟨by decide +kernel, by decide +kernel, by decide +kernel, by decide +kernel,
    by decide +kernel, by decide +kernel, by decide +kernel, by decide +kernel⟩

/-- `C02_flush_sends_pending`: a 3000-byte Unreliable packet (3 fragments); the first flush sends
fragment 0 and runs out of credit; after the next `step` the pending queue holds fragments 1 and 2,
the resend queue is empty: the flush sends fragment 1 (a full frame of 1472 bytes). -/
example :
    let s := exState [.send (List.replicate 3000 7) 0 .unreliable, .step 0, .flush, .step 1000000000]
    s.syncReply = false ∧ s.aq.entries = [] ∧ 0 ≤ s.flushAlloc ∧ FrameQ.canPush s.fq = true ∧
    s.resend[0]? = none ∧
    s.pending = [{ uid := 0, fid := 1, resend := false }, { uid := 0, fid := 2, resend := false }] ∧
    (match PSend.findPacket s.ps 0 with
     | some p => decide (1 ∉ p.acked)
     | none => false) = true ∧
    flushLens s = some ([1472], []) := by
  intro s
  refine ⟨by decide +kernel, by decide +kernel, by decide +kernel, by decide +kernel,
    by decide +kernel, by decide +kernel, by decide +kernel, by decide +kernel⟩

/-- `C02_flush_sends_due_resend`: the 100-byte Reliable packet was sent at 0 and is due for
resending at 150 ms; at 5 s (credit 3000) the flush re-sends it (119 bytes) and re-queues the entry
with `resendTime = 5000 + 150·2¹ = 5300`, `sendCount = 2`. -/
example :
    let s := exState [.send (List.replicate 100 7) 0 .reliable, .step 0, .flush, .step 5000000000]
    s.syncReply = false ∧ s.aq.entries = [] ∧ 0 ≤ s.flushAlloc ∧ FrameQ.canPush s.fq = true ∧
    s.resend[0]? = some { uid := 0, fid := 0, resendTime := 150, sendCount := 1 } ∧
    s.nowMs = 5000 ∧
    (match PSend.findPacket s.ps 0 with
     | some p => decide (0 ∉ p.acked)
     | none => false) = true ∧
    flushLens s = some ([119], [(0, 0, 5300, 2)]) := by
  intro s
  refine ⟨by decide +kernel, by decide +kernel, by decide +kernel, by decide +kernel,
    by decide +kernel, by decide +kernel, by decide +kernel, by decide +kernel⟩

/-- Witness: credit is needed. After the first frame the credit is `−119`; a second packet is in
the send queue and the first fragment is in the resend queue, the frame window is open — the flush
sends nothing. -/
example :
    let s := exState [.send (List.replicate 100 7) 0 .reliable, .step 0, .flush,
      .send (List.replicate 50 7) 0 .reliable]
    s.flushAlloc = -119 ∧ FrameQ.canPush s.fq = true ∧ s.ps.queue.length = 1 ∧
    isSendPending s = true ∧ flushLens s = some ([], [(0, 0, 150, 1)]) := by
  intro s
  refine ⟨by decide +kernel, by decide +kernel, by decide +kernel, by decide +kernel,
    by decide +kernel⟩

/-- Frame window of one frame. -/
def cfgW1 : Config := { exCfg with txFrameWindowSize := 1 }

/-- The state after an event list from a fresh half connection with `cfgW1`. -/
def stW1 (evs : List Ev) : State Nat :=
  match runT exOps (init exOps cfgW1 0 { fifo := [], state := 0 }) evs with
  | .ok (s, _) => s
  | .error _ => exS0

/-- Witness: an open frame window is needed. Window of one frame, two packets: the first flush
sends one frame, which fills the window. At 100 ms the credit is `28 ≥ 0`, nothing is owed to the
peer, the resend entry of the first fragment is not due yet (150 ms) and the second packet waits in
the pending queue — but `canPush` is false and the flush sends nothing. -/
example :
    let s := stW1 [.send (List.replicate 100 7) 0 .reliable, .send (List.replicate 50 7) 0 .reliable,
      .step 0, .flush, .step 100000000]
    s.syncReply = false ∧ s.aq.entries = [] ∧ s.flushAlloc = 28 ∧ FrameQ.canPush s.fq = false ∧
    s.pending = [{ uid := 1, fid := 0, resend := true }] ∧ isSendPending s = true ∧
    flushLens s = some ([], [(0, 0, 150, 1)]) := by
  intro s
  refine ⟨by decide +kernel, by decide +kernel, by decide +kernel, by decide +kernel,
    by decide +kernel, by decide +kernel, by decide +kernel⟩

end Uflow.Props.C02
