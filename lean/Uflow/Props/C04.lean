import Uflow.Lemmas.Frag
import Uflow.Lemmas.FragAsm
import Uflow.Lemmas.FragFrame

/-!
# C04 — fragmentation and reassembly are exact for every packet size

Models: `Uflow.PSend` (`pending_packet.rs`: `Pending.datagram`), `Uflow.PRecv`
(`fragment_buffer.rs`: `FragBuf`; `assembly_window/mod.rs`: `tryAdd`), `Uflow.Codec`
(`frame/serial`: `encodeDatagram`, `encodedSize`, `encode`), `Uflow.HalfConn` (`DataFrameEmitter`:
`dfePush`, `dfeFinalize`).

Vocabulary (defined in `Uflow/Lemmas/Frag*.lean`):
* `frag data i = (data.drop (i*1448)).take 1448`;
* `writes data b ws` folds `FragBuf.write` over the index list `ws`, writing `frag data i` at `i`;
* `Genuine p d` : `∃ k ≤ p.lastFragmentId, p.datagram k = .ok d`;
* `Forged p d` : `d` differs from `p` in `channelId`, `windowParentLead`, `channelParentLead` or
  `fragmentIdLast` (the four fields `try_add` compares with the first-seen datagram);
* `Complete p l` : every `k ≤ p.lastFragmentId` has some `d ∈ l` with `p.datagram k = .ok d`;
* `gidx p l` : the `fragmentId`s of the datagrams of `l` whose four header fields agree with `p`;
* `run s i l` : feeds `l` to `tryAdd · i ·` left to right, returns the final state;
* `pktOf p` : the `Packet` with `p`'s header fields and `data := some p.data`;
* `IpOk`, `EmitOk`, `OutOk` : the emitter's size invariants.
-/

namespace Uflow.Props.C04

open Uflow Uflow.Gen Uflow.Codec Uflow.PSend Uflow.PRecv Uflow.HalfConn Uflow.Frag

/-! ## 1. Slicing -/

/-- The packets `emit_packet` builds satisfy the hypothesis of `C04_slices`. -/
theorem C04_emit_wf (s s' : PSend.State) (f : Nat) (p : Pending) (r : Bool)
    (h : emit s f = .ok (s', some (p, r))) (hsz : p.data.length ≤ MAX_PACKET_SIZE) :
    p.lastFragmentId = numFragments p.data.length - 1 :=
  emit_wf s s' f p r h hsz

theorem C04_slices (p : Pending) (hl : p.lastFragmentId = numFragments p.data.length - 1)
    (hsz : p.data.length ≤ MAX_PACKET_SIZE) :
    (∀ i, i ≤ p.lastFragmentId → ∃ d, p.datagram i = .ok d ∧
        d.fragmentId = i ∧ d.fragmentIdLast = p.lastFragmentId ∧
        d.sequenceId = p.sequenceId ∧ d.channelId = p.channelId ∧
        d.windowParentLead = p.windowParentLead ∧ d.channelParentLead = p.channelParentLead ∧
        (i < p.lastFragmentId → d.data.length = 1448) ∧
        (i = p.lastFragmentId → d.data.length ≤ 1448) ∧
        d.data = (p.data.drop (i * 1448)).take 1448 ∧
        (p.channelId < 64 →
          (p.channelParentLead = 0 ∨
            (p.windowParentLead ≠ 0 ∧ p.windowParentLead ≤ p.channelParentLead)) →
          datagramIsValid d = true)) ∧
    (List.range (p.lastFragmentId + 1)).flatMap (fun i => (p.data.drop (i * 1448)).take 1448) = p.data ∧
    p.lastFragmentId + 1 ≤ 65536 ∧
    (p.data.length = 0 → p.lastFragmentId + 1 = 1) := by
  have hn := wf_succ p hl
  refine ⟨?_, ?_, ?_, ?_⟩
  · intro i hi
    refine ⟨_, datagram_ok p hl i hi, rfl, rfl, rfl, rfl, rfl, rfl, ?_, ?_, rfl, ?_⟩
    · intro hlt
      exact length_frag_full p.data i (by omega)
    · intro _
      exact length_frag_le p.data i
    · intro hch hpar
      have hle := length_frag_le p.data i
      simp only [datagramIsValid, CHANNEL_COUNT, MAX_FRAGMENT_SIZE]
      rw [if_neg (by omega), if_neg (by omega), if_neg (by omega), if_neg ?_, if_neg (by omega)]
      rintro ⟨hlt, hne⟩
      exact hne (length_frag_full p.data i (by omega))
  · rw [hn]
    exact flatMap_frag_numFragments p.data
  · rw [hn]
    exact numFragments_le _ hsz
  · intro h0
    rw [hn, h0]
    exact numFragments_zero

/-- Non-vacuity: a 3-fragment packet of length `2*1448 + 7` on channel 5 with parent leads (2, 3). -/
example : ∃ p : Pending, p.lastFragmentId = numFragments p.data.length - 1 ∧
    p.data.length ≤ MAX_PACKET_SIZE ∧ p.lastFragmentId = 2 ∧ p.channelId < 64 ∧
    (p.channelParentLead = 0 ∨ (p.windowParentLead ≠ 0 ∧ p.windowParentLead ≤ p.channelParentLead)) :=
  ⟨{ uid := 0, data := List.replicate 2903 7, channelId := 5, sequenceId := 9, windowParentLead := 2,
     channelParentLead := 3, lastFragmentId := 2, acked := [] },
   by simp only [List.length_replicate]; decide +kernel,
   by simp only [List.length_replicate]; decide +kernel,
   rfl, by decide, by decide⟩

/-! ## 2. Reassembly in any order, with repetitions -/

theorem C04_fragbuf (data : List Nat) (ws : List Nat)
    (hws : ∀ i ∈ ws, i < numFragments data.length) :
    1 ≤ numFragments data.length ∧
    ∃ b, writes data (FragBuf.new (numFragments data.length)) ws = .ok b ∧
      b.remaining = numFragments data.length - ws.eraseDups.length ∧
      ((∀ i, i < numFragments data.length → i ∈ ws) → b.remaining = 0 ∧ b.finalize = data) ∧
      (∀ i ∈ ws, ∀ x : List Nat, b.write i x = .ok b) := by
  refine ⟨numFragments_pos _, ?_⟩
  obtain ⟨b, hb, hinv, hhas, hrem⟩ := writes_new data ws hws
  refine ⟨b, hb, hrem, ?_, ?_⟩
  · intro hall
    have hall' : ∀ j, j < numFragments data.length → b.has j = true :=
      fun j hj => (hhas j).mpr (hall j hj)
    exact ⟨(fbinv_remaining_zero_iff data b hinv).mpr hall', finalize_complete data b hinv hall'⟩
  · intro i hi x
    exact write_of_has b i x (by rw [hinv.num]; exact hws i hi) ((hhas i).mpr hi)

/-- "First write wins" for an arbitrary buffer: after any successful write at `i`, every later
write at `i` (any bytes, any length) returns the same buffer. -/
theorem C04_first_write_wins (b b' : FragBuf) (i : Nat) (x y : List Nat)
    (h : b.write i x = .ok b') : b'.write i y = .ok b' :=
  write_write_same b b' i x y h

/-- Non-vacuity: 3 fragments written in the order 2, 0, 2, 1. -/
example : let data := List.replicate 2903 7
    (∀ i ∈ [2, 0, 2, 1], i < numFragments data.length) ∧
    (∀ i, i < numFragments data.length → i ∈ [2, 0, 2, 1]) ∧
    [2, 0, 2, 1].eraseDups.length = 3 := by
  intro data
  have hn : numFragments data.length = 3 := by
    simp only [data, List.length_replicate]; decide +kernel
  rw [hn]
  refine ⟨by decide, ?_, by decide⟩
  intro i hi
  have : i = 0 ∨ i = 1 ∨ i = 2 := by omega
  rcases this with rfl | rfl | rfl <;> decide

/-- The same instance evaluated on the model: no trap, nothing remaining, the packet comes back. -/
example : (match writes (List.replicate 2903 7) (FragBuf.new 3) [2, 0, 2, 1] with
    | .ok b => decide (b.remaining = 0 ∧ b.finalize = List.replicate 2903 7 ∧ b.totalSize = 2903)
    | .error _ => false) = true := by decide +kernel

/-! ## 3. One slot of the assembly window -/

/-- (a) An active slot leaves the state unchanged and returns `none` on a datagram that disagrees
with the first-seen header in one of the four compared fields. -/
theorem C04_tryAdd_forged (s : PRecv.State) (i : Nat) (d : Datagram) (a chan wpl cpl last : Nat)
    (buf : FragBuf) (h : (getSlot s i).asm = .active a chan wpl cpl last buf)
    (hm : d.channelId ≠ chan ∨ d.windowParentLead ≠ wpl ∨ d.channelParentLead ≠ cpl ∨
      d.fragmentIdLast ≠ last) : tryAdd s i d = .ok (s, none) :=
  tryAdd_active_mismatch s i d a chan wpl cpl last buf h hm

/-- (c) A closed slot leaves the state unchanged and returns `none` on every datagram. -/
theorem C04_tryAdd_closed (s : PRecv.State) (i : Nat) (d : Datagram) (a : Nat)
    (h : (getSlot s i).asm = .closed a) : tryAdd s i d = .ok (s, none) :=
  tryAdd_closed s i d a h

/-- The whole sequence. `d0 :: rest` is fed to an opened slot; `d0` is a genuine fragment, every
later datagram is a genuine fragment or has a forged header. For EVERY position (`pre` = the
datagrams before it, `d` = the datagram at it): the run over `pre` does not trap, `tryAdd` on `d`
does not trap, and its output `o` is `some (pktOf p)` exactly when `d` supplies the last missing
fragment index (`pre ++ [d]` complete, `pre` not) and `none` otherwise; forged datagrams and
datagrams after completion leave the state unchanged; the slot is closed from completion on, and
before that it is active with the first-seen header and the buffer that is the fold of the
writes of the genuine fragments seen so far. -/
theorem C04_tryAdd (p : Pending) (hwf : p.lastFragmentId = numFragments p.data.length - 1)
    (hlast : 1 ≤ p.lastFragmentId) (s : PRecv.State) (i : Nat) (d0 : Datagram)
    (rest : List Datagram) (hopen : (getSlot s i).asm = .opened)
    (halloc : s.alloc + packetAllocSize d0 ≤ s.maxAlloc) (hd0 : Genuine p d0)
    (hrest : ∀ d ∈ rest, Genuine p d ∨ Forged p d) :
    ∀ pre d post, d0 :: rest = pre ++ d :: post →
      ∃ s1 s2 o, run s i pre = .ok s1 ∧ tryAdd s1 i d = .ok (s2, o) ∧
        (o = some (pktOf p) ∨ o = none) ∧
        (o = some (pktOf p) ↔ (Complete p (pre ++ [d]) ∧ ¬ Complete p pre)) ∧
        (Forged p d → s2 = s1 ∧ o = none) ∧
        (Complete p pre → s2 = s1 ∧ o = none ∧ ∃ a, (getSlot s1 i).asm = .closed a) ∧
        (Complete p (pre ++ [d]) → ∃ a, (getSlot s2 i).asm = .closed a) ∧
        (¬ Complete p (pre ++ [d]) → ∃ a buf,
          (getSlot s2 i).asm = .active a p.channelId p.windowParentLead p.channelParentLead
            p.lastFragmentId buf ∧
          writes p.data (FragBuf.new (p.lastFragmentId + 1)) (gidx p (pre ++ [d])) = .ok buf) := by
  intro pre d post hsplit
  have slot_facts : ∀ (l : List Datagram) (s2 : PRecv.State), SlotInv p i l s2 →
      (Complete p l → ∃ a, (getSlot s2 i).asm = .closed a) ∧
      (¬ Complete p l → ∃ a buf,
        (getSlot s2 i).asm = .active a p.channelId p.windowParentLead p.channelParentLead
          p.lastFragmentId buf ∧
        writes p.data (FragBuf.new (p.lastFragmentId + 1)) (gidx p l) = .ok buf) := by
    intro l s2 hinv
    obtain ⟨a, ⟨hc, hasm⟩ | ⟨hnc, buf, hasm, hbuf⟩⟩ := hinv
    · exact ⟨fun _ => ⟨a, hasm⟩, fun h => absurd hc h⟩
    · exact ⟨fun h => absurd h hnc, fun _ => ⟨a, buf, hasm, hbuf⟩⟩
  cases pre with
  | nil =>
    simp only [List.nil_append, List.cons.injEq] at hsplit
    obtain ⟨rfl, -⟩ := hsplit
    obtain ⟨s0, h0, hinv0⟩ := tryAdd_first p hwf hlast s i d0 hopen halloc hd0
    have hnc := not_complete_singleton p hwf hlast d0
    refine ⟨s, s0, none, rfl, h0, Or.inr rfl, ?_, ?_, ?_, ?_, ?_⟩
    · constructor
      · intro h; cases h
      · intro h; exact absurd h.1 hnc
    · intro hf
      have := hdrMatch_forged p d0 hf
      rw [hdrMatch_genuine p hwf d0 hd0] at this
      exact Bool.noConfusion this
    · intro hc; exact absurd hc (not_complete_nil p)
    · exact (slot_facts _ _ hinv0).1
    · exact (slot_facts _ _ hinv0).2
  | cons e pre' =>
    simp only [List.cons_append, List.cons.injEq] at hsplit
    obtain ⟨rfl, hrest'⟩ := hsplit
    subst hrest'
    obtain ⟨hpre', hdpost⟩ := feed_of_append p pre' (d :: post) hrest
    have hd : Genuine p d ∨ Forged p d := hdpost d (by simp)
    obtain ⟨s1, h1, hinv1⟩ := run_feed p hwf hlast s i d0 pre' hopen halloc hd0 hpre'
    have hfeed1 : Feed p (d0 :: pre') := by
      intro x hx
      rcases List.mem_cons.mp hx with rfl | hx
      · exact Or.inl hd0
      · exact hpre' x hx
    obtain ⟨s2, o, h2, hinv2, ho, hiff, hforged, hafter⟩ :=
      tryAdd_step p hwf s1 i (d0 :: pre') hfeed1 hinv1 d hd
    refine ⟨s1, s2, o, h1, h2, ho, hiff, hforged, ?_, ?_, ?_⟩
    · intro hc
      exact ⟨(hafter hc).1, (hafter hc).2, (slot_facts _ _ hinv1).1 hc⟩
    · exact (slot_facts _ _ hinv2).1
    · exact (slot_facts _ _ hinv2).2

/-- (b) "Exactly once": if the fed sequence supplies every fragment, there is a position at which
`tryAdd` returns `some (pktOf p)` (with `data = some p.data`), and at every other position it
returns `none`. -/
theorem C04_tryAdd_once (p : Pending) (hwf : p.lastFragmentId = numFragments p.data.length - 1)
    (hlast : 1 ≤ p.lastFragmentId) (s : PRecv.State) (i : Nat) (d0 : Datagram)
    (rest : List Datagram) (hopen : (getSlot s i).asm = .opened)
    (halloc : s.alloc + packetAllocSize d0 ≤ s.maxAlloc) (hd0 : Genuine p d0)
    (hrest : ∀ d ∈ rest, Genuine p d ∨ Forged p d) (hc : Complete p (d0 :: rest)) :
    ∃ pre d post, d0 :: rest = pre ++ d :: post ∧
      (∃ s1 s2, run s i pre = .ok s1 ∧ tryAdd s1 i d = .ok (s2, some (pktOf p))) ∧
      (pktOf p).data = some p.data ∧
      ∀ pre' d' post' s1' s2' o', d0 :: rest = pre' ++ d' :: post' → run s i pre' = .ok s1' →
        tryAdd s1' i d' = .ok (s2', o') → pre'.length ≠ pre.length → o' = none := by
  obtain ⟨pre, d, post, hsplit, hn, hp⟩ :=
    first_true (d0 :: rest) (Complete p) (not_complete_nil p) hc
  refine ⟨pre, d, post, hsplit, ?_, rfl, ?_⟩
  · obtain ⟨s1, s2, o, h1, h2, -, hiff, -⟩ :=
      C04_tryAdd p hwf hlast s i d0 rest hopen halloc hd0 hrest pre d post hsplit
    have ho : o = some (pktOf p) := hiff.mpr ⟨hp, hn⟩
    subst ho
    exact ⟨s1, s2, h1, h2⟩
  · intro pre' d' post' s1' s2' o' hsplit' hrun' htry' hne
    obtain ⟨s1, s2, o, h1, h2, ho, hiff, -⟩ :=
      C04_tryAdd p hwf hlast s i d0 rest hopen halloc hd0 hrest pre' d' post' hsplit'
    rw [hrun'] at h1
    have e1 : s1' = s1 := Except.ok.inj h1
    subst e1
    rw [htry'] at h2
    have e2 := Except.ok.inj h2
    simp only [Prod.mk.injEq] at e2
    obtain ⟨-, e3⟩ := e2
    subst e3
    rcases ho with ho | ho
    · exfalso
      apply hne
      exact completion_unique p pre' pre post' post d' d (hsplit'.symm.trans hsplit)
        (hiff.mp ho) ⟨hp, hn⟩
    · exact ho

/-- Single-fragment packets (`fragmentIdLast = 0`) are handed over by the first datagram. -/
theorem C04_tryAdd_single (s : PRecv.State) (i : Nat) (d : Datagram)
    (hopen : (getSlot s i).asm = .opened) (halloc : s.alloc + packetAllocSize d ≤ s.maxAlloc)
    (hlast : d.fragmentIdLast = 0) :
    ∃ s', tryAdd s i d = .ok (s', some { channelId := d.channelId, sequenceId := d.sequenceId,
                                         windowParentLead := d.windowParentLead,
                                         channelParentLead := d.channelParentLead,
                                         data := some d.data }) ∧
      (getSlot s' i).asm = .closed (packetAllocSize d) ∧
      s'.alloc = s.alloc + packetAllocSize d :=
  tryAdd_opened_single s i d hopen halloc hlast

/-- … and for the genuine (only) fragment of a single-fragment packet that is the whole packet. -/
theorem C04_tryAdd_single_genuine (p : Pending)
    (hwf : p.lastFragmentId = numFragments p.data.length - 1) (hlast : p.lastFragmentId = 0)
    (s : PRecv.State) (i : Nat) (d : Datagram) (hopen : (getSlot s i).asm = .opened)
    (halloc : s.alloc + packetAllocSize d ≤ s.maxAlloc) (hd : Genuine p d) :
    ∃ s', tryAdd s i d = .ok (s', some (pktOf p)) ∧ ∃ a, (getSlot s' i).asm = .closed a := by
  obtain ⟨k, hk, hdk⟩ := hd
  have he := genuine_eq p hwf d k hk hdk
  have hk0 : k = 0 := by omega
  subst hk0
  have hdata : frag p.data 0 = p.data := by
    have h1 := flatMap_frag_numFragments p.data
    have hn := wf_succ p hwf
    rw [← hn, hlast] at h1
    simpa using h1
  obtain ⟨s', h1, h2, -⟩ := tryAdd_opened_single s i d hopen halloc (by rw [he]; exact hlast)
  refine ⟨s', ?_, _, h2⟩
  rw [h1, he, hdata]
  rfl

/-- Non-vacuity: the 3-fragment packet fed as fragment 2, a forged datagram, fragments 0, 2, 1, 0
to slot 3 of a fresh receiver: all hypotheses of `C04_tryAdd`/`C04_tryAdd_once` hold. -/
example : ∃ (p : Pending) (s : PRecv.State) (i : Nat) (d0 : Datagram) (rest : List Datagram),
    p.lastFragmentId = numFragments p.data.length - 1 ∧ 1 ≤ p.lastFragmentId ∧
    (getSlot s i).asm = .opened ∧ s.alloc + packetAllocSize d0 ≤ s.maxAlloc ∧ Genuine p d0 ∧
    (∀ d ∈ rest, Genuine p d ∨ Forged p d) ∧ (∃ d ∈ rest, Forged p d) ∧
    Complete p (d0 :: rest) ∧ rest.length = 5 := by
  let p : Pending :=
    { uid := 0, data := List.replicate 2903 7, channelId := 5, sequenceId := 9, windowParentLead := 2,
      channelParentLead := 3, lastFragmentId := 2, acked := [] }
  have hwf : p.lastFragmentId = numFragments p.data.length - 1 := by
    simp only [p, List.length_replicate]; decide +kernel
  let g (k : Nat) : Datagram :=
    { sequenceId := 9, channelId := 5, windowParentLead := 2, channelParentLead := 3,
      fragmentId := k, fragmentIdLast := 2, data := frag p.data k }
  have hg : ∀ k, k ≤ 2 → p.datagram k = .ok (g k) := fun k hk => datagram_ok p hwf k hk
  have hgen : ∀ k, k ≤ 2 → Genuine p (g k) := fun k hk => ⟨k, hk, hg k hk⟩
  let f : Datagram := { g 1 with channelId := 6 }
  have hf : Forged p f := Or.inl (by decide)
  refine ⟨p, PRecv.init 16 0 100000, 3, g 2, [f, g 0, g 2, g 1, g 0], hwf, by decide, rfl, ?_,
    hgen 2 (by decide), ?_, ⟨f, by simp, hf⟩, ?_, rfl⟩
  · simp only [PRecv.init, packetAllocSize, g]
    decide +kernel
  · intro d hd
    simp only [List.mem_cons, List.not_mem_nil, or_false] at hd
    rcases hd with rfl | rfl | rfl | rfl | rfl
    · exact Or.inr hf
    · exact Or.inl (hgen 0 (by decide))
    · exact Or.inl (hgen 2 (by decide))
    · exact Or.inl (hgen 1 (by decide))
    · exact Or.inl (hgen 0 (by decide))
  · intro k hk
    have hk' : k ≤ 2 := hk
    have : k = 0 ∨ k = 1 ∨ k = 2 := by omega
    rcases this with rfl | rfl | rfl
    · exact ⟨g 0, by simp, hg 0 (by decide)⟩
    · exact ⟨g 1, by simp, hg 1 (by decide)⟩
    · exact ⟨g 2, by simp, hg 2 (by decide)⟩

/-- The same feed evaluated on the model: the packet is handed over once, by the fifth datagram
(fragment 1, the last missing index), with the original payload. -/
example : (match runOuts (PRecv.init 16 0 100000) 3
      [exFrag 2, { exFrag 1 with channelId := 6 }, exFrag 0, exFrag 2, exFrag 1, exFrag 0] with
    | .ok os => decide (os = [none, none, none, none, some (pktOf exPacket), none])
    | .error _ => false) = true := by decide +kernel

/-! ## 4. Frame size -/

theorem C04_frame_size :
    (∀ d : Datagram, d.data.length < 2 ^ 16 → (encodeDatagram d).length = encodedSize d) ∧
    (∀ d : Datagram, encodedSize d ≤ 14 + d.data.length) ∧
    (∀ (id : Nat) (nonce : Bool) (dgs : List Datagram), (∀ d ∈ dgs, d.data.length < 2 ^ 16) →
      (encode (.data id nonce dgs)).length = DATA_FRAME_OVERHEAD + (dgs.map encodedSize).sum) :=
  ⟨length_encodeDatagram, encodedSize_le, length_encode_data⟩

/-- The emitter invariant: `dfePush` (with a fragment of at most 1448 bytes, which `C04_slices`
gives) preserves "`inProg` is `none` or `IpOk`" and "every emitted frame is at most 1472 bytes". -/
theorem C04_dfePush {F : Type} (e e' : Emit F) (p : Pending) (fid : Nat) (resend : Bool)
    (r : Option PushErr) (dg : Datagram) (hdg : p.datagram fid = .ok dg)
    (hlen : dg.data.length ≤ 1448)
    (he : ∀ ip, e.inProg = some ip →
      ip.size = DATA_FRAME_OVERHEAD + (ip.dgs.map encodedSize).sum ∧ ip.size ≤ MAX_FRAME_SIZE ∧
      ∀ d ∈ ip.dgs, d.data.length ≤ MAX_FRAGMENT_SIZE)
    (ho : ∀ f ∈ e.out, f.length ≤ 1472)
    (h : dfePush e p fid resend = .ok (e', r)) :
    (∀ ip, e'.inProg = some ip →
      ip.size = DATA_FRAME_OVERHEAD + (ip.dgs.map encodedSize).sum ∧ ip.size ≤ MAX_FRAME_SIZE ∧
      ∀ d ∈ ip.dgs, d.data.length ≤ MAX_FRAGMENT_SIZE) ∧
    (∀ f ∈ e'.out, f.length ≤ 1472) :=
  dfePush_ok e e' p fid resend r dg hdg hlen he ho h

/-- `dfeFinalize` sends the in-progress frame (if any), whose length is its tracked `size`, hence
at most 1472, and leaves no frame in progress. -/
theorem C04_dfeFinalize {F : Type} (e : Emit F)
    (he : ∀ ip, e.inProg = some ip →
      ip.size = DATA_FRAME_OVERHEAD + (ip.dgs.map encodedSize).sum ∧ ip.size ≤ MAX_FRAME_SIZE ∧
      ∀ d ∈ ip.dgs, d.data.length ≤ MAX_FRAGMENT_SIZE)
    (ho : ∀ f ∈ e.out, f.length ≤ 1472) :
    (dfeFinalize e).inProg = none ∧ (∀ f ∈ (dfeFinalize e).out, f.length ≤ 1472) ∧
    (∀ ip, e.inProg = some ip →
      (dfeFinalize e).out = e.out ++ [encode (.data ip.frameId ip.nonce ip.dgs)] ∧
      (encode (.data ip.frameId ip.nonce ip.dgs)).length = ip.size) := by
  refine ⟨dfeFinalize_inProg e, dfeFinalize_outOk e he ho, ?_⟩
  intro ip hip
  refine ⟨?_, ipOk_frame_length ip (he ip hip)⟩
  rw [dfeFinalize_out, hip]

/-- Non-vacuity: `dfePush` never traps on a sliceable fragment, so the hypothesis
`dfePush … = .ok …` of `C04_dfePush` holds for every emitter state; and the bound is attained:
a full 1448-byte fragment of a multi-fragment packet alone makes a frame of exactly 1472 bytes. -/
example {F : Type} (e : Emit F) (p : Pending) (fid : Nat) (resend : Bool) (dg : Datagram)
    (hdg : p.datagram fid = .ok dg) : ∃ e' r, dfePush e p fid resend = .ok (e', r) :=
  dfePush_total e p fid resend dg hdg

example : ∃ ip : InProg, IpOk ip ∧ ip.size = 1472 ∧ ip.dgs.length = 1 := by
  let dg : Datagram := { sequenceId := 9, channelId := 5, windowParentLead := 2, channelParentLead := 3,
                         fragmentId := 0, fragmentIdLast := 2, data := List.replicate 1448 7 }
  refine ⟨{ frameId := 0, nonce := false, dgs := [dg], size := DATA_FRAME_OVERHEAD + encodedSize dg,
            refs := [] }, ipOk_single dg 0 false [] ?_, ?_, rfl⟩
  · show (List.replicate 1448 7).length ≤ 1448
    rw [List.length_replicate]; exact Nat.le_refl _
  · show DATA_FRAME_OVERHEAD + encodedSize dg = 1472
    have : dg.data.length = 1448 := List.length_replicate
    simp only [encodedSize, this]
    decide

end Uflow.Props.C04
